(* C03 -- proofs about Model/Coupling1d.v: the coupled coarse path receives, for every coarse state, exactly the coarse
   chain's rate (telescoping over the fine states); odd increments go to adjacent coarse states; coarse drift and
   diffusion are those of the previous level. *)
From Coq Require Import ZArith QArith Qabs List Bool Lia Lqa.
From RV Require Import Base.QB Model.Grid Gen.GenC01Trunc Gen.GenC04Triplet Model.Chain Model.Drift Model.Coupling1d
  Proofs.C13_Grid Proofs.C01_Chain.
Import ListNotations.
Open Scope Q_scope.

(* ---------- localising a sum on its support *)
Lemma qsum_map_zero {A} (f : A -> Q) l : (forall x, In x l -> f x == 0) -> qsum (map f l) == 0.
Proof.
  unfold qsum. induction l as [|x r IH]; intros H; simpl; [reflexivity|].
  rewrite (H x (or_introl eq_refl)), IH; [lra|]. intros y Hy; apply H; right; exact Hy.
Qed.

Lemma qsum_pull (f : nat -> Q) s : forall m a, (a <= s < a + m)%nat ->
  qsum (map f (seq a m)) == f s + qsum (map (fun i => if Nat.eqb i s then 0 else f i) (seq a m)).
Proof.
  induction m as [|m IH]; intros a Hs; [lia|].
  cbn [seq map]. unfold qsum. cbn [fold_right].
  fold (qsum (map f (seq (S a) m))). fold (qsum (map (fun i => if Nat.eqb i s then 0 else f i) (seq (S a) m))).
  destruct (Nat.eqb_spec a s) as [E|E].
  - subst a. rewrite (qsum_map_ext_in (fun i => if Nat.eqb i s then 0 else f i) f (seq (S s) m)); [lra|].
    intros i Hi. apply in_seq in Hi. destruct (Nat.eqb_spec i s); [lia|reflexivity].
  - rewrite (IH (S a)) by lia. lra.
Qed.

Lemma qsum_support (S : list nat) : forall (f : nat -> Q) a m, NoDup S ->
  (forall s, In s S -> (a <= s < a + m)%nat) ->
  (forall i, (a <= i < a + m)%nat -> ~ In i S -> f i == 0) ->
  qsum (map f (seq a m)) == qsum (map f S).
Proof.
  induction S as [|s S' IH]; intros f a m ND Hin Hz.
  - simpl. apply qsum_map_zero. intros i Hi. apply in_seq in Hi. apply Hz; [lia|intros []].
  - inversion ND as [|s0 l0 Hns ND']; subst.
    rewrite (qsum_pull f s m a) by (apply Hin; left; reflexivity).
    rewrite (IH (fun i => if Nat.eqb i s then 0 else f i) a m ND').
    + assert (E2 : qsum (map f (s :: S')) == f s + qsum (map f S')) by (unfold qsum; simpl; reflexivity).
      rewrite E2.
      rewrite (qsum_map_ext_in (fun i => if Nat.eqb i s then 0 else f i) f S'); [reflexivity|].
      intros i Hi. destruct (Nat.eqb_spec i s); [subst; contradiction|reflexivity].
    + intros t Ht. apply Hin. right. exact Ht.
    + intros i Hi Hn. destruct (Nat.eqb_spec i s); [reflexivity|]. apply Hz; [exact Hi|].
      intros [E|E]; [congruence|contradiction].
Qed.

Section Coupling.
  Variable mid : Q -> Q -> Q.
  Hypothesis mid_between : forall x y, x < y -> x < mid x y /\ mid x y < y.
  Hypothesis mid_refl : forall x, ~ x == 0 -> mid x x == x.
  Variable mass : Q -> Q -> Q.
  Hypothesis mass_add : forall a b c, a <= b -> b <= c -> (c < 0 \/ 0 < a) -> mass a c == mass a b + mass b c.
  Hypothesis mass_pos : forall a b, a <= b -> (b < 0 \/ 0 < a) -> 0 <= mass a b.

  (* a state's rate is val_left + val_right (its cell lies on one side of the origin) *)
  Lemma rate_split xs p : incr xs -> ends_ok xs -> (p < length xs)%nat ->
    (cell_hi mid xs p < 0 \/ 0 < cell_lo mid xs p) ->
    mass (cell_lo mid xs p) (cell_hi mid xs p) == val_left mid mass xs p + val_right mid mass xs p
    /\ 0 <= val_left mid mass xs p /\ 0 <= val_right mid mass xs p.
  Proof.
    intros Hi He Hp Hs. destruct (cell_lo_le mid mid_between mid_refl xs p Hi He Hp) as (A & _).
    destruct (cell_hi_ge mid mid_between mid_refl xs p Hi He Hp) as (B & _).
    unfold val_left, val_right. split; [apply mass_add; assumption|].
    split; apply mass_pos; try assumption; destruct Hs; [left|right|left|right]; lra.
  Qed.

  Lemma prob_right_unit xs p pr : incr xs -> ends_ok xs -> (p < length xs)%nat ->
    (cell_hi mid xs p < 0 \/ 0 < cell_lo mid xs p) -> prob_right_at mid mass xs p = Some pr -> 0 <= pr <= 1.
  Proof.
    intros Hi He Hp Hs. destruct (rate_split xs p Hi He Hp Hs) as (_ & L & R). unfold prob_right_at.
    destruct (Qeq_bool (val_left mid mass xs p + val_right mid mass xs p) 0) eqn:E; [discriminate|].
    intros H; injection H as <-. apply Qeq_bool_neq in E.
    set (vl := val_left mid mass xs p) in *. set (vr := val_right mid mass xs p) in *.
    assert (D : 0 < vl + vr) by (destruct (Qlt_le_dec 0 (vl + vr)); [assumption|exfalso; apply E; lra]).
    split; [apply Qle_shift_div_l; lra|apply Qle_shift_div_r; lra].
  Qed.

  (* rate * P(right) and rate * P(left): the two halves of the cell (also when the rate is 0) *)
  Lemma flow_right xs o p : incr xs -> ends_ok xs -> (p < length xs)%nat -> p <> o ->
    (cell_hi mid xs p < 0 \/ 0 < cell_lo mid xs p) ->
    q_entry mid mass xs o p * match prob_right_at mid mass xs p with None => 0 | Some pr => pr end == val_right mid mass xs p.
  Proof.
    intros Hi He Hp Hne Hs. destruct (rate_split xs p Hi He Hp Hs) as (S & L & R). unfold q_entry.
    destruct (Nat.eqb_spec p o); [contradiction|]. rewrite S. unfold prob_right_at.
    set (vl := val_left mid mass xs p) in *. set (vr := val_right mid mass xs p) in *.
    destruct (Qeq_bool (vl + vr) 0) eqn:E.
    - apply Qeq_bool_eq in E. lra.
    - apply Qeq_bool_neq in E. field. exact E.
  Qed.
  Lemma flow_left xs o p : incr xs -> ends_ok xs -> (p < length xs)%nat -> p <> o ->
    (cell_hi mid xs p < 0 \/ 0 < cell_lo mid xs p) ->
    q_entry mid mass xs o p * match prob_right_at mid mass xs p with None => 0 | Some pr => 1 - pr end == val_left mid mass xs p.
  Proof.
    intros Hi He Hp Hne Hs. destruct (rate_split xs p Hi He Hp Hs) as (S & L & R). unfold q_entry.
    destruct (Nat.eqb_spec p o); [contradiction|]. rewrite S. unfold prob_right_at.
    set (vl := val_left mid mass xs p) in *. set (vr := val_right mid mass xs p) in *.
    destruct (Qeq_bool (vl + vr) 0) eqn:E.
    - apply Qeq_bool_eq in E. lra.
    - apply Qeq_bool_neq in E. field. exact E.
  Qed.

  (* the law used by the telescoping theorem IS the law of coupling_index / coupling_state: for an odd state p with
     right-probability pr, the coupled index is p+1 exactly for the uniforms u < pr and p-1 exactly for u >= pr; hence for
     u uniform on [0,1) the two targets have probabilities |[0,pr)| = pr and |[pr,1)| = 1 - pr, which is prob_to *)
  Theorem coupling_law xs p pr : Nat.even p = false -> (p + 1 < length xs)%nat -> prob_right_at mid mass xs p = Some pr ->
    (forall u, coupling_index mid mass xs p u = Some (p + 1)%nat <-> u < pr)
    /\ (forall u, coupling_index mid mass xs p u = Some (p - 1)%nat <-> pr <= u)
    /\ prob_to mid mass xs p (p + 1) == pr /\ prob_to mid mass xs p (p - 1) == 1 - pr
    /\ (forall t, t <> (p + 1)%nat -> t <> (p - 1)%nat -> prob_to mid mass xs p t == 0).
  Proof.
    intros Hodd Hp Hpr.
    assert (P1 : (1 <= p)%nat) by (destruct p; [discriminate|lia]).
    split; [|split; [|split; [|split]]].
    - intros u. unfold coupling_index. rewrite Hodd, Hpr.
      destruct (Qltb u pr) eqn:E.
      + apply Qltb_lt in E. split; [intros _; exact E|intros _; f_equal; lia].
      + apply Qltb_false in E. split; [intros H; injection H as H; lia|intros H; lra].
    - intros u. unfold coupling_index. rewrite Hodd, Hpr.
      destruct (Qltb u pr) eqn:E.
      + apply Qltb_lt in E. split; [intros H; injection H as H; lia|intros H; lra].
      + apply Qltb_false in E. split; [intros _; exact E|intros _; f_equal; lia].
    - unfold prob_to. rewrite Hodd, Hpr, Nat.eqb_refl.
      destruct (Nat.eqb_spec p (p + 1 + 1)); [lia|lra].
    - unfold prob_to. rewrite Hodd, Hpr.
      destruct (Nat.eqb_spec (p + 1) (p - 1)); [lia|]. destruct (Nat.eqb_spec p (p - 1 + 1)); [lra|lia].
    - intros t T1 T2. unfold prob_to. rewrite Hodd, Hpr.
      destruct (Nat.eqb_spec (p + 1) t); [congruence|]. destruct (Nat.eqb_spec p (t + 1)); [lia|lra].
  Qed.
  (* an even state is copied with probability 1 *)
  Theorem coupling_law_even xs p u : Nat.even p = true ->
    coupling_index mid mass xs p u = Some p /\ prob_to mid mass xs p p == 1 /\ (forall t, t <> p -> prob_to mid mass xs p t == 0).
  Proof.
    intros E. unfold coupling_index, prob_to. rewrite E, Nat.eqb_refl. split; [reflexivity|]. split; [lra|].
    intros t Ht. destruct (Nat.eqb_spec p t); [congruence|lra].
  Qed.
  (* coupling_state (the code's function of the increment) returns the state at coupling_index, when the origin index is even *)
  Theorem coupling_state_is_index xs o2 p u : (p < length xs)%nat ->
    coupling_state mid mass xs (2 * o2) (Z.of_nat p - Z.of_nat (2 * o2)) u
    = option_map (nthq xs) (coupling_index mid mass xs p u).
  Proof.
    intros Hp. unfold coupling_state, coupling_index.
    assert (Pos : position (2 * o2) (Z.of_nat p - Z.of_nat (2 * o2)) = p).
    { unfold position. replace (Z.of_nat (2 * o2) + (Z.of_nat p - Z.of_nat (2 * o2)))%Z with (Z.of_nat p) by lia. apply Nat2Z.id. }
    assert (Par : Z.eqb ((Z.of_nat p - Z.of_nat (2 * o2)) mod 2) 0 = Nat.even p).
    { replace (Z.of_nat p - Z.of_nat (2 * o2))%Z with (Z.of_nat p + (- Z.of_nat o2) * 2)%Z by lia.
      rewrite Z.mod_add by lia. destruct (Nat.even p) eqn:E.
      - apply Nat.even_spec in E. destruct E as [m ->]. apply Z.eqb_eq.
        replace (Z.of_nat (2 * m)) with (0 + Z.of_nat m * 2)%Z by lia. rewrite Z.mod_add by lia. reflexivity.
      - assert (O : Nat.odd p = true) by (rewrite <- Nat.negb_even, E; reflexivity).
        apply Nat.odd_spec in O. destruct O as [m ->]. apply Z.eqb_neq.
        replace (Z.of_nat (2 * m + 1)) with (1 + Z.of_nat m * 2)%Z by lia. rewrite Z.mod_add by lia. discriminate. }
    rewrite Pos, Par. destruct (Nat.even p); [reflexivity|].
    destruct (prob_right_at mid mass xs p) as [pr|]; [|reflexivity]. cbn [option_map].
    destruct (Qltb u pr); reflexivity.
  Qed.
End Coupling.

Section Telescoping.
  Variables mc mf : Q -> Q -> Q.     (* grid.middle of the coarse level (used by refine and by the coarse cells) and of the fine level *)
  Hypothesis mc_between : forall x y, x < y -> x < mc x y /\ mc x y < y.
  Hypothesis mc_refl : forall x, ~ x == 0 -> mc x x == x.
  Hypothesis mf_between : forall x y, x < y -> x < mf x y /\ mf x y < y.
  Hypothesis mf_refl : forall x, ~ x == 0 -> mf x x == x.
  Variable mass : Q -> Q -> Q.
  Hypothesis mass_add : forall a b c, a <= b -> b <= c -> (c < 0 \/ 0 < a) -> mass a c == mass a b + mass b c.
  Hypothesis mass_pos : forall a b, a <= b -> (b < 0 \/ 0 < a) -> 0 <= mass a b.
  Hypothesis mass_proper : forall a a' b b', a == a' -> b == b' -> mass a b == mass a' b'.

  Variable xs : list Q.
  Variable o : nat.
  Hypothesis Hincr : incr xs.
  Hypothesis Hends : ends_ok xs.
  Hypothesis Ho1 : (1 <= o)%nat.
  Hypothesis Ho2 : (o + 1 < length xs)%nat.
  Hypothesis Hzero : nthq xs o == 0.
  Let xs' := refine_axis mc xs.
  Let o' := (2 * o)%nat.

  Lemma Hlen : (3 <= length xs)%nat.
  Proof. lia. Qed.
  Lemma xs_nonempty : xs <> [].
  Proof. intro E. rewrite E in Ho2. simpl in Ho2. lia. Qed.
  Lemma len' : length xs' = (2 * length xs - 1)%nat.
  Proof. apply refine_length. apply xs_nonempty. Qed.
  Lemma incr' : incr xs'.
  Proof. apply refine_incr; assumption. Qed.
  Lemma ends' : ends_ok xs'.
  Proof.
    destruct Hends as [E0 EN]. pose proof len' as L. split.
    - unfold xs'. change 0%nat with (2 * 0)%nat. rewrite refine_even by lia. exact E0.
    - rewrite L. replace (2 * length xs - 1 - 1)%nat with (2 * (length xs - 1))%nat by lia.
      unfold xs'. rewrite refine_even by lia. exact EN.
  Qed.
  Lemma zero' : nthq xs' o' == 0.
  Proof. unfold xs', o'. rewrite refine_even by lia. exact Hzero. Qed.
  Lemma fine_sign p : (p < length xs')%nat -> ((p < o')%nat -> nthq xs' p < 0) /\ ((o' < p)%nat -> 0 < nthq xs' p).
  Proof.
    intros Hp. pose proof zero' as Z. split; intros H; rewrite <- Z; apply incr_nth_lt; try apply incr'; try lia.
    rewrite len'. unfold o'. lia.
  Qed.
  Lemma fine_side p : (p < length xs')%nat -> p <> o' -> cell_hi mf xs' p < 0 \/ 0 < cell_lo mf xs' p.
  Proof.
    intros Hp Hne. pose proof len' as L.
    destruct (cell_side mf mf_between mf_refl xs' o' incr' ends' ltac:(unfold o'; lia) ltac:(rewrite L; unfold o'; lia) zero' p Hp) as [S1 S2].
    destruct (Nat.lt_ge_cases p o'); [left; apply S1; assumption|right; apply S2; lia].
  Qed.

  Local Notation f t p := (q_entry mf mass xs' o' p * prob_to mf mass xs' p t) (only parsing).

  Lemma f_even j : (j < length xs)%nat -> j <> o -> f (2 * j) (2 * j) == mass (cell_lo mf xs' (2 * j)) (cell_hi mf xs' (2 * j)).
  Proof.
    intros Hj Hne. unfold prob_to, q_entry.
    assert (Ev : Nat.even (2 * j) = true) by (rewrite Nat.even_mul; reflexivity). rewrite Ev, Nat.eqb_refl.
    destruct (Nat.eqb_spec (2 * j) o'); [unfold o' in *; lia|]. lra.
  Qed.

  Lemma odd_not_even k : Nat.even (2 * k + 1) = false.
  Proof. rewrite Nat.add_comm, Nat.even_add_mul_2. reflexivity. Qed.

  (* the odd state below 2j sends val_right to 2j *)
  Lemma f_below j : (1 <= j)%nat -> (j < length xs)%nat ->
    f (2 * j) (2 * j - 1) == val_right mf mass xs' (2 * j - 1).
  Proof.
    intros H1 Hj. unfold prob_to.
    replace (2 * j - 1)%nat with (2 * (j - 1) + 1)%nat by lia. rewrite odd_not_even.
    replace (2 * (j - 1) + 1)%nat with (2 * j - 1)%nat by lia.
    assert (Pl : (2 * j - 1 < length xs')%nat) by (rewrite len'; lia).
    assert (Pn : (2 * j - 1)%nat <> o') by (unfold o'; lia).
    rewrite <- (flow_right mf mf_between mf_refl mass mass_add mass_pos xs' o' (2 * j - 1) incr' ends' Pl Pn (fine_side _ Pl Pn)).
    destruct (prob_right_at mf mass xs' (2 * j - 1)) as [pr|]; [|lra].
    replace (2 * j - 1 + 1 =? 2 * j)%nat with true by (symmetry; apply Nat.eqb_eq; lia).
    replace (2 * j - 1 =? 2 * j + 1)%nat with false by (symmetry; apply Nat.eqb_neq; lia). lra.
  Qed.

  (* the odd state above 2j sends val_left to 2j *)
  Lemma f_above j : (j + 1 < length xs)%nat ->
    f (2 * j) (2 * j + 1) == val_left mf mass xs' (2 * j + 1).
  Proof.
    intros Hj. unfold prob_to. rewrite odd_not_even.
    assert (Pl : (2 * j + 1 < length xs')%nat) by (rewrite len'; lia).
    assert (Pn : (2 * j + 1)%nat <> o') by (unfold o'; lia).
    rewrite <- (flow_left mf mf_between mf_refl mass mass_add mass_pos xs' o' (2 * j + 1) incr' ends' Pl Pn (fine_side _ Pl Pn)).
    destruct (prob_right_at mf mass xs' (2 * j + 1)) as [pr|]; [|lra].
    replace (2 * j + 1 + 1 =? 2 * j)%nat with false by (symmetry; apply Nat.eqb_neq; lia).
    rewrite Nat.eqb_refl. lra.
  Qed.

  Lemma f_zero_elsewhere j p : (p < length xs')%nat -> p <> (2 * j)%nat -> (p + 1)%nat <> (2 * j)%nat -> p <> (2 * j + 1)%nat ->
    f (2 * j) p == 0.
  Proof.
    intros Hp N1 N2 N3. unfold prob_to. destruct (Nat.even p) eqn:E.
    - destruct (Nat.eqb_spec p (2 * j)); [contradiction|lra].
    - destruct (prob_right_at mf mass xs' p) as [pr|]; [|lra].
      destruct (Nat.eqb_spec (p + 1) (2 * j)); [contradiction|].
      destruct (Nat.eqb_spec p (2 * j + 1)); [contradiction|lra].
  Qed.

  Lemma f_below_t j t : t = (2 * j)%nat -> (1 <= j)%nat -> (j < length xs)%nat ->
    f t (2 * j - 1) == val_right mf mass xs' (2 * j - 1).
  Proof. intros ->. apply f_below. Qed.
  Lemma f_above_t j t : t = (2 * j)%nat -> (j + 1 < length xs)%nat ->
    f t (2 * j + 1) == val_left mf mass xs' (2 * j + 1).
  Proof. intros ->. apply f_above. Qed.
  Lemma f_zero_elsewhere_t j t p : t = (2 * j)%nat -> (p < length xs')%nat -> p <> (2 * j)%nat -> (p + 1)%nat <> (2 * j)%nat -> p <> (2 * j + 1)%nat ->
    f t p == 0.
  Proof. intros ->. apply f_zero_elsewhere. Qed.

  (* geometry of the refined axis around the coarse state j: coarse cells (coarse middle) are bounded by the odd fine states *)
  Lemma fine_cell_order j : (j < length xs)%nat ->
    cell_lo mf xs' (2 * j) <= cell_hi mf xs' (2 * j)
    /\ ((1 <= j)%nat -> nthq xs' (2 * j - 1) <= cell_lo mf xs' (2 * j) /\ cell_hi mf xs' (2 * j - 1) = cell_lo mf xs' (2 * j)
                        /\ cell_lo mc xs j = nthq xs' (2 * j - 1))
    /\ ((j + 1 < length xs)%nat -> cell_hi mf xs' (2 * j) <= nthq xs' (2 * j + 1) /\ cell_lo mf xs' (2 * j + 1) = cell_hi mf xs' (2 * j)
                        /\ cell_hi mc xs j = nthq xs' (2 * j + 1))
    /\ (j = 0%nat -> cell_lo mc xs j == cell_lo mf xs' (2 * j))
    /\ ((j + 1 = length xs)%nat -> cell_hi mc xs j == cell_hi mf xs' (2 * j)).
  Proof.
    intros Hj. pose proof len' as L. pose proof incr' as I'. pose proof ends' as E'.
    assert (P : (2 * j < length xs')%nat) by (rewrite L; lia).
    split; [apply (cell_lo_hi mf mf_between mf_refl xs' _ I' E' P)|]. split; [|split; [|split]].
    - intros H1. destruct (cell_lo_le mf mf_between mf_refl xs' (2 * j) I' E' P) as (_ & _ & C). split; [|split].
      + apply Qlt_le_weak. apply C. lia.
      + rewrite (cell_share mf xs' (2 * j - 1)) by lia. f_equal. lia.
      + unfold cell_lo. rewrite left_point_inner by lia. replace (2 * j - 1)%nat with (2 * (j - 1) + 1)%nat by lia.
        unfold xs'. rewrite refine_odd by lia. replace (j - 1 + 1)%nat with j by lia. reflexivity.
    - intros H1. destruct (cell_hi_ge mf mf_between mf_refl xs' (2 * j) I' E' P) as (_ & C). split; [|split].
      + apply Qlt_le_weak. apply C. lia.
      + rewrite (cell_share mf xs' (2 * j)) by lia. reflexivity.
      + unfold cell_hi. rewrite right_point_inner by lia. unfold xs'. rewrite refine_odd by lia. reflexivity.
    - intros ->. unfold cell_lo, left_point. simpl Nat.pred. change (2 * 0)%nat with 0%nat.
      assert (X : nthq xs' 0 = nthq xs 0) by (unfold xs'; change 0%nat with (2 * 0)%nat at 1; apply refine_even; lia).
      rewrite X. destruct Hends as [E0 _].
      rewrite (mc_refl _ (neq0_neg _ E0)), (mf_refl _ (neq0_neg _ E0)). reflexivity.
    - intros E. unfold cell_hi. rewrite (right_point_last xs j) by lia. rewrite (right_point_last xs' (2 * j)) by lia.
      assert (X : nthq xs' (2 * j) = nthq xs j) by (unfold xs'; apply refine_even; lia).
      rewrite X. destruct Hends as [_ EN]. replace (length xs - 1)%nat with j in EN by lia.
      rewrite (mc_refl _ (neq0_pos _ EN)), (mf_refl _ (neq0_pos _ EN)). reflexivity.
  Qed.

  Theorem telescoping_1d j : (j < length xs)%nat -> j <> o ->
    inflow mf mass xs' o' (2 * j) == q_entry mc mass xs o j.
  Proof.
    intros Hj Hne. pose proof len' as L.
    destruct (fine_cell_order j Hj) as (O1 & O2 & O3 & O4 & O5).
    assert (Q : q_entry mc mass xs o j = mass (cell_lo mc xs j) (cell_hi mc xs j)).
    { unfold q_entry. destruct (Nat.eqb_spec j o); [contradiction|reflexivity]. }
    rewrite Q. unfold inflow.
    assert (SG := fine_sign).
    assert (Side : nthq xs' (2 * j + 1) < 0 \/ 0 < cell_lo mf xs' (2 * j) \/ True) by (right; right; exact I).
    destruct (Nat.eq_dec j 0) as [J0|J0]; [|destruct (Nat.eq_dec (j + 1) (length xs)) as [JN|JN]].
    - (* first coarse state: j = 0 < o *)
      rewrite (qsum_support [(2 * j)%nat; (2 * j + 1)%nat]).
      + unfold qsum. cbn [map fold_right]. rewrite f_even by assumption. rewrite f_above by lia.
        destruct (O3 ltac:(lia)) as (A1 & A2 & A3).
        rewrite (mass_proper _ _ _ _ (O4 J0) (Qeq_refl _)), A3. unfold val_left. rewrite A2.
        rewrite (mass_add _ _ _ O1 A1); [lra|]. left. apply SG; [rewrite L; lia|unfold o'; lia].
      + constructor; [simpl; lia|]. constructor; [simpl; tauto|constructor].
      + intros s [<-|[<-|[]]]; rewrite L; lia.
      + intros p Hp Hn. apply f_zero_elsewhere; [lia| | |]; intro E; apply Hn; simpl; lia.
    - (* last coarse state: j = n-1 > o *)
      rewrite (qsum_support [(2 * j - 1)%nat; (2 * j)%nat]).
      + unfold qsum. cbn [map fold_right]. rewrite f_even by assumption. rewrite f_below by lia.
        destruct (O2 ltac:(lia)) as (A1 & A2 & A3).
        rewrite (mass_proper _ _ _ _ (Qeq_refl _) (O5 JN)), A3. unfold val_right. rewrite A2.
        rewrite (mass_add _ _ _ A1 O1); [lra|]. right. apply SG; [rewrite L; lia|unfold o'; lia].
      + constructor; [simpl; lia|]. constructor; [simpl; tauto|constructor].
      + intros s [<-|[<-|[]]]; rewrite L; lia.
      + intros p Hp Hn. apply f_zero_elsewhere; [lia| | |]; intro E; apply Hn; simpl; lia.
    - (* interior coarse state *)
      rewrite (qsum_support [(2 * j - 1)%nat; (2 * j)%nat; (2 * j + 1)%nat]).
      + unfold qsum. cbn [map fold_right]. rewrite f_even by assumption. rewrite f_below by lia. rewrite f_above by lia.
        destruct (O2 ltac:(lia)) as (A1 & A2 & A3). destruct (O3 ltac:(lia)) as (B1 & B2 & B3).
        rewrite A3, B3. unfold val_right, val_left. rewrite A2, B2.
        assert (S3 : nthq xs' (2 * j + 1) < 0 \/ 0 < nthq xs' (2 * j - 1)).
        { destruct (Nat.lt_ge_cases j o); [left|right]; apply SG; try (rewrite L; lia); unfold o'; lia. }
        rewrite (mass_add (nthq xs' (2 * j - 1)) (cell_lo mf xs' (2 * j)) (nthq xs' (2 * j + 1))) by (try lra; exact S3).
        rewrite (mass_add _ _ _ O1 B1); [lra|]. destruct S3; [left; assumption|right; lra].
      + constructor; [simpl; lia|]. constructor; [simpl; lia|]. constructor; [simpl; tauto|constructor].
      + intros s [<-|[<-|[<-|[]]]]; rewrite L; lia.
      + intros p Hp Hn. apply f_zero_elsewhere; [lia| | |]; intro E; apply Hn; simpl; lia.
  Qed.

  (* what is sent to the coarse origin (coupled increment 0): the part of the old central cell outside the new one *)
  Theorem sent_to_origin :
    inflow mf mass xs' o' o' == mass (nthq xs' (o' - 1)) (cell_lo mf xs' o') + mass (cell_hi mf xs' o') (nthq xs' (o' + 1)).
  Proof.
    pose proof len' as L. unfold inflow.
    rewrite (qsum_support [(2 * o - 1)%nat; (2 * o + 1)%nat]).
    - unfold qsum. cbn [map fold_right]. rewrite (f_below_t o o') by (unfold o'; lia). rewrite (f_above_t o o') by (unfold o'; lia).
      destruct (fine_cell_order o ltac:(lia)) as (_ & O2 & O3 & _).
      destruct (O2 Ho1) as (_ & A2 & _). destruct (O3 Ho2) as (_ & B2 & _).
      unfold val_right, val_left. unfold o'. rewrite A2, B2. lra.
    - constructor; [simpl; lia|]. constructor; [simpl; tauto|constructor].
    - intros s [<-|[<-|[]]]; rewrite L; lia.
    - intros p Hp Hn. destruct (Nat.eq_dec p (2 * o)) as [->|Hp2].
      + unfold q_entry, o'. rewrite Nat.eqb_refl. lra.
      + apply (f_zero_elsewhere_t o); [reflexivity|lia|assumption| |]; intro E; apply Hn; simpl; lia.
  Qed.
End Telescoping.

Section Adjacent.
  Variables mc mf : Q -> Q -> Q.
  Hypothesis mc_between : forall x y, x < y -> x < mc x y /\ mc x y < y.
  Variable mass : Q -> Q -> Q.

  Lemma position_of_index o p : position o (Z.of_nat p - Z.of_nat o) = p.
  Proof. unfold position. replace (Z.of_nat o + (Z.of_nat p - Z.of_nat o))%Z with (Z.of_nat p) by lia. apply Nat2Z.id. Qed.

  Lemma inc_parity o p : Z.eqb ((Z.of_nat p - Z.of_nat (2 * o)) mod 2) 0 = Nat.even p.
  Proof.
    replace (Z.of_nat p - Z.of_nat (2 * o))%Z with (Z.of_nat p + (- Z.of_nat o) * 2)%Z by lia.
    rewrite Z.mod_add by lia.
    destruct (Nat.even p) eqn:E.
    - apply Nat.even_spec in E. destruct E as [m ->]. apply Z.eqb_eq.
      replace (Z.of_nat (2 * m)) with (0 + Z.of_nat m * 2)%Z by lia. rewrite Z.mod_add by lia. reflexivity.
    - assert (O : Nat.odd p = true) by (rewrite <- Nat.negb_even, E; reflexivity).
      apply Nat.odd_spec in O. destruct O as [m ->]. apply Z.eqb_neq.
      replace (Z.of_nat (2 * m + 1)) with (1 + Z.of_nat m * 2)%Z by lia. rewrite Z.mod_add by lia. discriminate.
  Qed.

  (* coupling_state on the refined grid (origin index 2o): a fine increment landing on a coarse-grid state (even)
     is copied unchanged; any other (odd) one is moved to the left or right neighbour, which are the two coarse
     states adjacent to it *)
  Theorem copy_or_adjacent xs o u : incr xs -> xs <> [] ->
    let xs' := refine_axis mc xs in
    (forall i, (i < length xs)%nat ->
        coupling_state mf mass xs' (2 * o) (Z.of_nat (2 * i) - Z.of_nat (2 * o)) u = Some (nthq xs i)
        /\ nthq xs' (2 * i) = nthq xs i)
    /\ (forall i v, (i + 1 < length xs)%nat ->
        coupling_state mf mass xs' (2 * o) (Z.of_nat (2 * i + 1) - Z.of_nat (2 * o)) u = Some v ->
        (v = nthq xs i \/ v = nthq xs (i + 1))
        /\ nthq xs i < nthq xs' (2 * i + 1) < nthq xs (i + 1)).
  Proof.
    intros Hi N xs'.
    assert (L : length xs' = (2 * length xs - 1)%nat) by (apply refine_length; exact N).
    split.
    - intros i Hl. unfold coupling_state. rewrite position_of_index, inc_parity, Nat.even_mul. cbn [orb].
      unfold xs'. rewrite refine_even by exact Hl. split; reflexivity.
    - intros i v Hl. unfold coupling_state. rewrite position_of_index, inc_parity.
      rewrite Nat.add_comm, Nat.even_add_mul_2. cbn [Nat.even].
      destruct (prob_right_at mf mass xs' (1 + 2 * i)) as [pr|]; [|discriminate].
      intros H; injection H as <-. split.
      + destruct (Qltb u pr); [right|left].
        * unfold right_point. rewrite L.
          match goal with |- nthq _ ?k = _ => replace k with (2 * (i + 1))%nat by lia end.
          unfold xs'. apply refine_even. lia.
        * unfold left_point.
          match goal with |- nthq _ ?k = _ => replace k with (2 * i)%nat by lia end.
          unfold xs'. apply refine_even. lia.
      + replace (1 + 2 * i)%nat with (2 * i + 1)%nat by lia. pose proof (refine_odd mc xs i Hl) as RO. fold xs' in RO. rewrite RO.
        apply mc_between. apply incr_nth_succ; assumption.
  Qed.
End Adjacent.

(* ---------- the level state machine *)
Section Levels.
  Variable mid : Q -> Q -> Q.
  Variable sig2_of : grid -> Q.
  Variable drift_of : grid -> Q.
  Variable x0 : Q.

  Lemma run_levels_grid n g : c_grid (run_levels mid sig2_of drift_of x0 n g) = refine_n mid n g
    /\ c_level (run_levels mid sig2_of drift_of x0 n g) = n
    /\ c_sig2_fine (run_levels mid sig2_of drift_of x0 n g) = sig2_of (refine_n mid n g)
    /\ c_drift_fine (run_levels mid sig2_of drift_of x0 n g) = drift_of (refine_n mid n g).
  Proof.
    induction n as [|n (I1 & I2 & I3 & I4)]; [repeat split|].
    cbn [run_levels refine_n]. unfold next_level; cbn [c_grid c_level c_sig2_fine c_drift_fine].
    rewrite I1, I2. repeat split.
  Qed.

  (* in every state reached at level l = n+1 >= 1: the coarse diffusion coefficient and the frozen coarse drift are
     those of the fine chain of level l-1, which is the chain on the grid refined l-1 times *)
  Theorem drift_diffusion_frozen n g :
    let s := run_levels mid sig2_of drift_of x0 (S n) g in
    c_level s = S n
    /\ c_grid s = refine_n mid (S n) g
    /\ c_sig2_coarse s = c_sig2_fine (run_levels mid sig2_of drift_of x0 n g)
    /\ c_sig2_coarse s = sig2_of (refine_n mid n g)
    /\ c_sig2_fine s = sig2_of (refine_n mid (S n) g)
    /\ c_drift_fine s = drift_of (refine_n mid (S n) g)
    /\ (exists d, c_drift_coarse s = Some d /\ d == c_drift_fine (run_levels mid sig2_of drift_of x0 n g)
                  /\ d == drift_of (refine_n mid n g)).
  Proof.
    destruct (run_levels_grid n g) as (I1 & I2 & I3 & I4).
    destruct (run_levels_grid (S n) g) as (J1 & J2 & J3 & J4).
    cbv zeta. split; [exact J2|]. split; [exact J1|]. split; [reflexivity|].
    split; [cbn [run_levels]; unfold next_level; cbn [c_sig2_coarse]; exact I3|].
    split; [exact J3|]. split; [exact J4|].
    cbn [run_levels]. unfold next_level; cbn [c_drift_coarse]. eexists. split; [reflexivity|].
    split; [|rewrite I4]; ring.
  Qed.

  (* both components are driven by the same Brownian increments: the coarse diffusion path is what the fine
     formula gives with the coarse coefficient, on the same (sqrt_dts, w) *)
  Theorem same_brownian cf cc dts w :
    snd (diffusion_pair cf cc dts w) = diffusion_path cc dts w /\ fst (diffusion_pair cf cc dts w) = diffusion_path cf dts w
    /\ length (diffusion_path cc dts w) = length (diffusion_path cf dts w).
  Proof.
    split; [reflexivity|split; [reflexivity|]]. unfold diffusion_path.
    assert (G : forall l acc, length (cumsum_from acc l) = length l) by (induction l; intros; simpl; [reflexivity|rewrite IHl; reflexivity]).
    rewrite !G, !map_length. reflexivity.
  Qed.
End Levels.

(* ---------- statements in terms of an admissible coarse axis; mc = the coarse level's grid.middle (used by refine and by
   the coarse chain), mf = the refined level's grid.middle (used by the fine chain and the coupling) *)
Section Statements.
  Variables mc mf : Q -> Q -> Q.
  Hypothesis mc_between : forall x y, x < y -> x < mc x y /\ mc x y < y.
  Hypothesis mc_refl : forall x, ~ x == 0 -> mc x x == x.
  Hypothesis mf_between : forall x y, x < y -> x < mf x y /\ mf x y < y.
  Hypothesis mf_refl : forall x, ~ x == 0 -> mf x x == x.
  Variable mass : Q -> Q -> Q.
  Hypothesis mass_add : forall a b c, a <= b -> b <= c -> (c < 0 \/ 0 < a) -> mass a c == mass a b + mass b c.
  Hypothesis mass_pos : forall a b, a <= b -> (b < 0 \/ 0 < a) -> 0 <= mass a b.
  Hypothesis mass_proper : forall a a' b b', a == a' -> b == b' -> mass a b == mass a' b'.

  Lemma admissible_parts xs o h : admissible xs o h ->
    incr xs /\ ends_ok xs /\ (1 <= o)%nat /\ (o + 1 < length xs)%nat /\ nthq xs o == 0.
  Proof. intros A. pose proof (admissible_ends xs o h A). destruct A as (Hi & H1 & H2 & _ & H0 & _). tauto. Qed.

  Theorem prob_right_unit_admissible xs o h p pr : admissible xs o h -> (p < length xs)%nat -> p <> o ->
    prob_right_at mf mass xs p = Some pr -> 0 <= pr <= 1.
  Proof.
    intros A Hp Hne. destruct (admissible_parts xs o h A) as (Hi & He & H1 & H2 & H0).
    apply (prob_right_unit mf); try assumption.
    destruct (cell_side mf mf_between mf_refl xs o Hi He H1 H2 H0 p Hp) as [S1 S2].
    destruct (Nat.lt_ge_cases p o); [left; apply S1; assumption|right; apply S2; lia].
  Qed.

  Theorem telescoping_admissible xs o h : admissible xs o h ->
    forall j, (j < length xs)%nat -> j <> o ->
      inflow mf mass (refine_axis mc xs) (2 * o) (2 * j) == q_entry mc mass xs o j.
  Proof.
    intros A j Hj Hne. destruct (admissible_parts xs o h A) as (Hi & He & H1 & H2 & H0).
    apply (telescoping_1d mc mf); assumption.
  Qed.

  Theorem sent_to_origin_admissible xs o h : admissible xs o h ->
    let xs' := refine_axis mc xs in
    inflow mf mass xs' (2 * o) (2 * o)
    == mass (nthq xs' (2 * o - 1)) (cell_lo mf xs' (2 * o)) + mass (cell_hi mf xs' (2 * o)) (nthq xs' (2 * o + 1))
    /\ nthq xs' (2 * o - 1) = cell_lo mc xs o /\ nthq xs' (2 * o + 1) = cell_hi mc xs o.
  Proof.
    intros A xs'. destruct (admissible_parts xs o h A) as (Hi & He & H1 & H2 & H0). split.
    - apply (sent_to_origin mc mf); assumption.
    - destruct (fine_cell_order mc mf mc_between mc_refl mf_between mf_refl xs o Hi He H1 H2 o ltac:(lia)) as (_ & O2 & O3 & _).
      destruct (O2 H1) as (_ & _ & E1). destruct (O3 H2) as (_ & _ & E2). split; symmetry; assumption.
  Qed.

  (* after refine the even indices carry the old axis and the odd indices the old cell boundaries: the level-(l-1) cell of
     the coarse state x_{2j} is [x_{2j-1}, x_{2j+1}] (the first/last coarse cells are clamped at the end points) *)
  Theorem coarse_grid_is_even_indices xs o h : admissible xs o h ->
    let xs' := refine_axis mc xs in
    length xs' = (2 * length xs - 1)%nat
    /\ (forall j, (j < length xs)%nat -> nthq xs' (2 * j) = nthq xs j)
    /\ (forall j, (1 <= j)%nat -> (j < length xs)%nat -> nthq xs' (2 * j - 1) = cell_lo mc xs j)
    /\ (forall j, (j + 1 < length xs)%nat -> nthq xs' (2 * j + 1) = cell_hi mc xs j)
    /\ cell_lo mf xs' 0 == cell_lo mc xs 0
    /\ cell_hi mf xs' (2 * (length xs - 1)) == cell_hi mc xs (length xs - 1).
  Proof.
    intros A xs'. destruct (admissible_parts xs o h A) as (Hi & He & H1 & H2 & H0).
    assert (N : xs <> []) by (intro E; rewrite E in H2; simpl in H2; lia).
    pose proof (fine_cell_order mc mf mc_between mc_refl mf_between mf_refl xs o Hi He H1 H2) as F.
    split; [apply refine_length; exact N|]. split; [intros; apply refine_even; assumption|].
    split; [|split; [|split]].
    - intros j J1 J2. destruct (F j J2) as (_ & O2 & _). destruct (O2 J1) as (_ & _ & E). symmetry; exact E.
    - intros j J. destruct (F j ltac:(lia)) as (_ & _ & O3 & _). destruct (O3 J) as (_ & _ & E). symmetry; exact E.
    - destruct (F 0%nat ltac:(lia)) as (_ & _ & _ & O4 & _). symmetry. apply (O4 eq_refl).
    - destruct (F (length xs - 1)%nat ltac:(lia)) as (_ & _ & _ & _ & O5). symmetry. apply O5. lia.
  Qed.
End Statements.

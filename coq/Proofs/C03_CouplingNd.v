(* C03 -- the n-dimensional (Levy copula) coupling: F-C03-1, refutation witness evaluated by vm_compute. *)
From Coq Require Import ZArith QArith Qabs List Bool Lia Lqa.
From RV Require Import Base.QB Model.Grid Gen.GenC01Trunc Model.Chain Model.CouplingNd Proofs.C13_Grid Proofs.C01_Chain.
Import ListNotations.
Open Scope Q_scope.

Lemma witness_values :
  let '(ps, xs, o) := nd_witness in
  Qeq_bool (inflow2 ps (refine_axis amid xs) (refine_axis amid xs) (2 * o) 6 4) (23 # 36) = true
  /\ Qeq_bool (q_entry2 amid (step_mass2 ps) xs xs o 3 2) (1 # 4) = true
  /\ Qeq_bool (inflow2_joint ps (refine_axis amid xs) (refine_axis amid xs) (2 * o) 6 4) (1 # 4) = true.
Proof. vm_compute. repeat split. Qed.

Theorem telescoping_nd_refuted : exists (ps : list (Q * Q * Q * Q * Q)) (xs : list Q) (o j1 j2 : nat),
  admissible xs o 1 /\ Forall (fun p => 0 <= snd p) ps /\ (j1, j2) <> (o, o)
  /\ ~ inflow2 ps (refine_axis amid xs) (refine_axis amid xs) (2 * o) (2 * j1) (2 * j2) == q_entry2 amid (step_mass2 ps) xs xs o j1 j2.
Proof.
  exists (fst (fst nd_witness)), (snd (fst nd_witness)), (snd nd_witness), 3%nat, 2%nat.
  split; [|split; [|split]].
  - unfold admissible, nd_witness; cbn [fst snd incr nthq nth length Nat.sub Nat.add]. repeat split; try lia; try lra; reflexivity.
  - unfold nd_witness; cbn [fst snd]. repeat constructor; cbn [snd]; lra.
  - intro E; inversion E.
  - intro E. apply Qeq_bool_iff in E. revert E. vm_compute. discriminate.
Qed.

Theorem telescoping_nd_joint_instance :
  let '(ps, xs, o) := nd_witness in
  forallb (fun j1 => forallb (fun j2 => (Nat.eqb j1 o && Nat.eqb j2 o) ||
     Qeq_bool (inflow2_joint ps (refine_axis amid xs) (refine_axis amid xs) (2 * o) (2 * j1) (2 * j2)) (q_entry2 amid (step_mass2 ps) xs xs o j1 j2))
     (seq 0 (length xs))) (seq 0 (length xs)) = true.
Proof. vm_compute. reflexivity. Qed.

(* ================= positive structural theorems about the faithful 2-d model (they hold of the current code) ========= *)
Section NdStructure.
  Variable mid : Q -> Q -> Q.
  Variable mass2 : Q * Q -> Q * Q -> Q.
  Variable marg : nat -> Q -> Q -> Q.

  (* copy rule: a fine increment with both coordinates even (a coarse-grid state) is returned unchanged, for every uniform *)
  Theorem copy_rule_2d xs ys o i1 i2 u : (i1 mod 2 = 0)%Z -> (i2 mod 2 = 0)%Z ->
    coupling_state2 mid mass2 marg xs ys o i1 i2 u
    = Some (nthq xs (Z.to_nat (Z.of_nat o + i1)), nthq ys (Z.to_nat (Z.of_nat o + i2))).
  Proof. intros E1 E2. unfold coupling_state2. rewrite E1, E2. reflexivity. Qed.

  (* adjacency: whatever the uniform, an even coordinate is kept and an odd coordinate moves to one of its two neighbours
     on the fine axis (which are coarse-grid states because the origin index of the refined grid is even) *)
  Theorem adjacency_2d xs ys o i1 i2 u v1 v2 :
    coupling_state2 mid mass2 marg xs ys o i1 i2 u = Some (v1, v2) ->
    let p1 := Z.to_nat (Z.of_nat o + i1) in let p2 := Z.to_nat (Z.of_nat o + i2) in
    ((i1 mod 2 = 0)%Z -> v1 = nthq xs p1) /\ ((i1 mod 2 <> 0)%Z -> v1 = nthq xs (p1 - 1) \/ v1 = nthq xs (p1 + 1))
    /\ ((i2 mod 2 = 0)%Z -> v2 = nthq ys p2) /\ ((i2 mod 2 <> 0)%Z -> v2 = nthq ys (p2 - 1) \/ v2 = nthq ys (p2 + 1)).
  Proof.
    unfold coupling_state2. cbv zeta.
    set (p1 := Z.to_nat (Z.of_nat o + i1)). set (p2 := Z.to_nat (Z.of_nat o + i2)).
    destruct (Z.eqb_spec (i1 mod 2) 0) as [E1|E1]; destruct (Z.eqb_spec (i2 mod 2) 0) as [E2|E2].
    - intros H; injection H as <- <-. repeat split; intros; try reflexivity; contradiction.
    - destruct (corner1 mid marg 1 ys p2) as [[pl pr]|]; [|discriminate].
      destruct (Qle_bool u (0 + pl)); [|destruct (Qle_bool u (0 + pl + pr)); [|discriminate]];
        intros H; injection H as <- <-; repeat split; intros; try reflexivity; try contradiction; tauto.
    - destruct (corner1 mid marg 0 xs p1) as [[pl pr]|]; [|discriminate].
      destruct (Qle_bool u (0 + pl)); [|destruct (Qle_bool u (0 + pl + pr)); [|discriminate]];
        intros H; injection H as <- <-; repeat split; intros; try reflexivity; try contradiction; tauto.
    - destruct (corner2 mid mass2 xs ys p1 p2) as [cs|]; [|discriminate].
      destruct (first_corner u 0 cs) as [[d1 d2]|]; [|discriminate].
      intros H; injection H as <- <-. unfold step_idx.
      repeat split; intros; try contradiction; destruct d1, d2; tauto.
  Qed.
End NdStructure.

Lemma amid_comm x y : amid x y == amid y x.
Proof. unfold amid. lra. Qed.

Section NdCorners.
  (* margins over one axis and the joint rectangle mass: additive / non-negative away from the origin *)
  Variable marg : nat -> Q -> Q -> Q.
  Hypothesis marg_add : forall k a b c, a <= b -> b <= c -> (c < 0 \/ 0 < a) -> marg k a c == marg k a b + marg k b c.
  Hypothesis marg_pos : forall k a b, a <= b -> (b < 0 \/ 0 < a) -> 0 <= marg k a b.
  Hypothesis marg_proper : forall k a a' b b', a == a' -> b == b' -> marg k a b == marg k a' b'.

  Lemma half_left xs p : incr xs -> (1 <= p)%nat -> (p < length xs)%nat ->
    fst (half amid xs p false) == cell_lo amid xs p /\ snd (half amid xs p false) == nthq xs p /\ cell_lo amid xs p < nthq xs p.
  Proof.
    intros Hi H1 Hp. unfold half, cell_lo. rewrite left_point_inner by exact H1. cbv zeta.
    assert (L : nthq xs (p - 1) < nthq xs p).
    { replace p with (p - 1 + 1)%nat at 2 by lia. apply incr_nth_succ; [exact Hi|lia]. }
    destruct (amid_between _ _ L) as [A B]. cbn [fst snd]. qcases; repeat split; lra.
  Qed.
  Lemma half_right xs p : incr xs -> (p + 1 < length xs)%nat ->
    fst (half amid xs p true) == nthq xs p /\ snd (half amid xs p true) == cell_hi amid xs p /\ nthq xs p < cell_hi amid xs p.
  Proof.
    intros Hi Hp. unfold half, cell_hi. rewrite right_point_inner by exact Hp. cbv zeta.
    assert (L : nthq xs p < nthq xs (p + 1)) by (apply incr_nth_succ; [exact Hi|lia]).
    destruct (amid_between _ _ L) as [A B]. pose proof (amid_comm (nthq xs (p + 1)) (nthq xs p)) as C.
    cbn [fst snd]. qcases; repeat split; lra.
  Qed.

  (* one odd axis: the two corner probabilities are probabilities and sum to 1 whenever the margin mass of the cell is not 0 *)
  Theorem corner1_is_law k xs p pl pr : incr xs -> (1 <= p)%nat -> (p + 1 < length xs)%nat ->
    (cell_hi amid xs p < 0 \/ 0 < cell_lo amid xs p) ->
    corner1 amid marg k xs p = Some (pl, pr) -> 0 <= pl /\ 0 <= pr /\ pl + pr == 1.
  Proof.
    intros Hi H1 Hp Hs. unfold corner1.
    destruct (half_left xs p Hi H1 ltac:(lia)) as (L1 & L2 & L3). destruct (half_right xs p Hi Hp) as (R1 & R2 & R3).
    set (T := marg k (cell_lo amid xs p) (cell_hi amid xs p)).
    destruct (Qeq_bool T 0) eqn:E; [discriminate|]. apply Qeq_bool_neq in E.
    intros H; injection H as <- <-.
    rewrite (marg_proper k _ _ _ _ L1 L2), (marg_proper k _ _ _ _ R1 R2).
    set (A := marg k (cell_lo amid xs p) (nthq xs p)). set (B := marg k (nthq xs p) (cell_hi amid xs p)).
    assert (TA : T == A + B) by (apply marg_add; try lra; exact Hs).
    assert (PA : 0 <= A) by (apply marg_pos; [lra|destruct Hs; [left|right]; lra]).
    assert (PB : 0 <= B) by (apply marg_pos; [lra|destruct Hs; [left|right]; lra]).
    assert (TP : 0 < T) by (destruct (Qlt_le_dec 0 T); [assumption|exfalso; apply E; lra]).
    split; [apply Qle_shift_div_l; lra|]. split; [apply Qle_shift_div_l; lra|].
    rewrite TA. field. rewrite <- TA. exact E.
  Qed.

  Variable mass2 : Q * Q -> Q * Q -> Q.
  Hypothesis mass2_add1 : forall a1 b1 c1 y1 y2, a1 <= b1 -> b1 <= c1 -> avoids (a1, y1) (c1, y2) ->
    mass2 (a1, y1) (c1, y2) == mass2 (a1, y1) (b1, y2) + mass2 (b1, y1) (c1, y2).
  Hypothesis mass2_add2 : forall x1 x2 a2 b2 c2, a2 <= b2 -> b2 <= c2 -> avoids (x1, a2) (x2, c2) ->
    mass2 (x1, a2) (x2, c2) == mass2 (x1, a2) (x2, b2) + mass2 (x1, b2) (x2, c2).
  Hypothesis mass2_pos : forall a b, fst a <= fst b -> snd a <= snd b -> avoids a b -> 0 <= mass2 a b.
  Hypothesis mass2_proper : forall a1 a2 b1 b2 a1' a2' b1' b2', a1 == a1' -> a2 == a2' -> b1 == b1' -> b2 == b2' ->
    mass2 (a1, a2) (b1, b2) == mass2 (a1', a2') (b1', b2').

  (* both axes odd: the four corner probabilities (joint quarter masses) are probabilities and sum to 1 *)
  Theorem corner2_is_law xs ys p1 p2 cs : incr xs -> incr ys -> (1 <= p1)%nat -> (p1 + 1 < length xs)%nat -> (1 <= p2)%nat -> (p2 + 1 < length ys)%nat ->
    (cell_hi amid xs p1 < 0 \/ 0 < cell_lo amid xs p1) ->
    corner2 amid mass2 xs ys p1 p2 = Some cs ->
    Forall (fun c => 0 <= snd c) cs /\ qsum (map (fun c => snd c) cs) == 1.
  Proof.
    intros Hi Hiy H1 Hp1 H2 Hp2 Hs. unfold corner2.
    destruct (half_left xs p1 Hi H1 ltac:(lia)) as (L1 & L2 & L3). destruct (half_right xs p1 Hi Hp1) as (R1 & R2 & R3).
    destruct (half_left ys p2 Hiy H2 ltac:(lia)) as (M1 & M2 & M3). destruct (half_right ys p2 Hiy Hp2) as (S1 & S2 & S3).
    set (lo1 := cell_lo amid xs p1) in *. set (hi1 := cell_hi amid xs p1) in *.
    set (lo2 := cell_lo amid ys p2) in *. set (hi2 := cell_hi amid ys p2) in *.
    set (x1 := nthq xs p1) in *. set (x2 := nthq ys p2) in *.
    set (T := mass2 (lo1, lo2) (hi1, hi2)).
    destruct (Qeq_bool T 0) eqn:E; [discriminate|]. apply Qeq_bool_neq in E.
    intros H; injection H as <-. cbn [map fst snd]. unfold quarter.
    set (q00 := mass2 (lo1, lo2) (x1, x2)). set (q01 := mass2 (lo1, x2) (x1, hi2)).
    set (q10 := mass2 (x1, lo2) (hi1, x2)). set (q11 := mass2 (x1, x2) (hi1, hi2)).
    assert (E00 := mass2_proper _ _ _ _ _ _ _ _ L1 M1 L2 M2). assert (E01 := mass2_proper _ _ _ _ _ _ _ _ L1 S1 L2 S2).
    assert (E10 := mass2_proper _ _ _ _ _ _ _ _ R1 M1 R2 M2). assert (E11 := mass2_proper _ _ _ _ _ _ _ _ R1 S1 R2 S2).
    fold q00 in E00. fold q01 in E01. fold q10 in E10. fold q11 in E11.
    assert (AV : forall a2 b2 a1 b1, lo1 <= a1 -> b1 <= hi1 -> avoids (a1, a2) (b1, b2)).
    { intros a2 b2 a1 b1 Ha Hb. unfold avoids; cbn [fst snd]. destruct Hs; [left|right; left]; lra. }
    assert (TS : T == q00 + q01 + q10 + q11).
    { unfold T. rewrite (mass2_add1 lo1 x1 hi1 lo2 hi2) by (try lra; apply AV; lra).
      rewrite (mass2_add2 lo1 x1 lo2 x2 hi2) by (try lra; apply AV; lra).
      rewrite (mass2_add2 x1 hi1 lo2 x2 hi2) by (try lra; apply AV; lra). unfold q00, q01, q10, q11. lra. }
    assert (P00 : 0 <= q00) by (apply mass2_pos; cbn [fst snd]; try lra; apply AV; lra).
    assert (P01 : 0 <= q01) by (apply mass2_pos; cbn [fst snd]; try lra; apply AV; lra).
    assert (P10 : 0 <= q10) by (apply mass2_pos; cbn [fst snd]; try lra; apply AV; lra).
    assert (P11 : 0 <= q11) by (apply mass2_pos; cbn [fst snd]; try lra; apply AV; lra).
    assert (TP : 0 < T) by (destruct (Qlt_le_dec 0 T); [assumption|exfalso; apply E; lra]).
    split.
    - repeat constructor; cbn [snd]; [rewrite E00|rewrite E01|rewrite E10|rewrite E11]; apply Qle_shift_div_l; lra.
    - unfold qsum. cbn [fold_right]. rewrite E00, E01, E10, E11, TS. field. rewrite <- TS. exact E.
  Qed.
End NdCorners.

(* ---------- the level machine of the copula coupling: frozen drift vector and diffusion matrix *)
Section LevelsNdProofs.
  Variable mid : Q -> Q -> Q.
  Variable dmat_of : grid -> list (list Q).
  Variable driftv_of : grid -> list Q.
  Variable x0 : list Q.

  Lemma freeze_vec_eq d : length x0 = length d -> Forall2 Qeq (freeze_vec x0 d) d.
  Proof.
    unfold freeze_vec. revert d. induction x0 as [|x r IH]; intros [|y d] H; simpl in *; try discriminate; [constructor|].
    constructor; [ring|]. apply IH. lia.
  Qed.

  Lemma run_levels_nd_fields n g :
    cn_grid (run_levels_nd mid dmat_of driftv_of x0 n g) = refine_n mid n g
    /\ cn_level (run_levels_nd mid dmat_of driftv_of x0 n g) = n
    /\ cn_dm_fine (run_levels_nd mid dmat_of driftv_of x0 n g) = dmat_of (refine_n mid n g)
    /\ cn_drift_fine (run_levels_nd mid dmat_of driftv_of x0 n g) = driftv_of (refine_n mid n g).
  Proof.
    induction n as [|n (I1 & I2 & I3 & I4)]; [repeat split|].
    cbn [run_levels_nd refine_n]. unfold next_level_nd; cbn [cn_grid cn_level cn_dm_fine cn_drift_fine].
    rewrite I1, I2. repeat split.
  Qed.

  (* after any number n+1 of next_level calls: the coarse diffusion matrix and the frozen coarse drift vector are the fine ones
     of level n, i.e. those of the chain on the grid refined n times *)
  Theorem frozen_nd n g : length x0 = length (driftv_of (refine_n mid n g)) ->
    let s := run_levels_nd mid dmat_of driftv_of x0 (S n) g in
    cn_level s = S n /\ cn_grid s = refine_n mid (S n) g
    /\ cn_dm_coarse s = Some (dmat_of (refine_n mid n g))
    /\ cn_dm_fine s = dmat_of (refine_n mid (S n) g)
    /\ cn_drift_fine s = driftv_of (refine_n mid (S n) g)
    /\ (exists d, cn_drift_coarse s = Some d /\ Forall2 Qeq d (driftv_of (refine_n mid n g))).
  Proof.
    intros HL. destruct (run_levels_nd_fields n g) as (I1 & I2 & I3 & I4).
    destruct (run_levels_nd_fields (S n) g) as (J1 & J2 & J3 & J4).
    cbv zeta. split; [exact J2|]. split; [exact J1|].
    split; [cbn [run_levels_nd]; unfold next_level_nd; cbn [cn_dm_coarse]; rewrite I3; reflexivity|].
    split; [exact J3|]. split; [exact J4|].
    cbn [run_levels_nd]. unfold next_level_nd; cbn [cn_drift_coarse]. eexists. split; [reflexivity|].
    rewrite I4. apply freeze_vec_eq. exact HL.
  Qed.
End LevelsNdProofs.

(* C03 -- the n-dimensional (Levy copula) coupling: F-C03-1, refutation witness evaluated by vm_compute. *)
From Coq Require Import ZArith QArith Qabs List Bool Lia Lqa.
From RV Require Import Base.QB Model.Grid Gen.GenC01Trunc Model.Chain Model.CouplingNd.
Import ListNotations.
Open Scope Q_scope.

Lemma witness_values :
  let '(ps, xs, o) := nd_witness in
  Qeq_bool (inflow2 ps (refine_axis amid xs) (2 * o) 6 4) (23 # 36) = true
  /\ Qeq_bool (q_entry2 amid (step_mass2 ps) xs xs o 3 2) (1 # 4) = true
  /\ Qeq_bool (inflow2_joint ps (refine_axis amid xs) (2 * o) 6 4) (1 # 4) = true.
Proof. vm_compute. repeat split. Qed.

Theorem telescoping_nd_refuted : exists (ps : list (Q * Q * Q * Q * Q)) (xs : list Q) (o j1 j2 : nat),
  admissible xs o 1 /\ Forall (fun p => 0 <= snd p) ps /\ (j1, j2) <> (o, o)
  /\ ~ inflow2 ps (refine_axis amid xs) (2 * o) (2 * j1) (2 * j2) == q_entry2 amid (step_mass2 ps) xs xs o j1 j2.
Proof.
  exists (fst (fst nd_witness)), (snd (fst nd_witness)), (snd nd_witness), 3%nat, 2%nat.
  split; [|split; [|split]].
  - unfold admissible, nd_witness; cbn [fst snd incr nthq nth length Nat.sub Nat.add]. repeat split; try lia; try lra; reflexivity.
  - unfold nd_witness; cbn [fst snd]. repeat constructor; cbn [snd]; lra.
  - intro E; inversion E.
  - intro E. apply Qeq_bool_iff in E. revert E. vm_compute. discriminate.
Qed.

Theorem telescoping_nd_joint_instance :
  let '(ps, xs, o) := nd_witness in
  forallb (fun j1 => forallb (fun j2 => (Nat.eqb j1 o && Nat.eqb j2 o) ||
     Qeq_bool (inflow2_joint ps (refine_axis amid xs) (2 * o) (2 * j1) (2 * j2)) (q_entry2 amid (step_mass2 ps) xs xs o j1 j2))
     (seq 0 (length xs))) (seq 0 (length xs)) = true.
Proof. vm_compute. reflexivity. Qed.

(* C03 (wave 6): the SDE coupling (couplingsde.py) = Euler scheme (C16) driven by the coupled driver (C03).  Model: Model/CouplingSde.v *)
From Coq Require Import ZArith QArith List Bool Lia.
From RV Require Import Base.QB Base.QVec Model.Grid Model.Chain Model.Drift Model.Coupling1d Model.Euler Model.RateSDE Model.CouplingSde
  Proofs.C03_Coupling1d Proofs.C16_Euler.
Import ListNotations.
Open Scope Q_scope.

Section SdeMachine.
  Variable mid : Q -> Q -> Q.
  Variable sig2_of : grid -> Q.
  Variable drift_of : grid -> Q.
  Variable b_of : grid -> Q -> list Q -> list Q.

  Lemma sde_run_fields n g :
    let s := sde_run mid sig2_of drift_of b_of n g in
    s_level s = n /\ s_drv s = run_levels mid sig2_of drift_of 0 n g
    /\ s_mu_h s = drift_of (refine_n mid n g) /\ s_b s = b_of g.
  Proof.
    induction n as [|n (I1 & I2 & I3 & I4)]; [repeat split|].
    cbn [sde_run]. unfold sde_next; cbn [s_level s_drv s_mu_h s_b].
    rewrite I1, I2, I4. repeat split.
    cbn [run_levels]. unfold next_level; cbn [c_drift_fine].
    destruct (run_levels_grid mid sig2_of drift_of 0 n g) as (G & _). rewrite G. reflexivity.
  Qed.

  Lemma sde_run_coarse_drift n g :
    s_mu_2h (sde_run mid sig2_of drift_of b_of (S n) g) = Some (drift_of (refine_n mid n g)).
  Proof.
    cbn [sde_run]. unfold sde_next; cbn [s_mu_2h].
    destruct (sde_run_fields n g) as (_ & _ & H & _). rewrite H. reflexivity.
  Qed.
End SdeMachine.

(* what one driver step of the coupled path looks like: same time, same dt, same Brownian increment times the two coefficients;
   no fine jump -> no coarse jump; even fine increment -> copied; odd -> left or right neighbour on the fine axis *)
Lemma driver_cstep_shape mid mass xs o cf cc e c : driver_cstep mid mass xs o cf cc e = Some c ->
  c_t c = e_t e /\ c_dt c = e_dt e /\ c_dWf c = [cf * e_sw e] /\ c_dWc c = [cc * e_sw e]
  /\ c_dLf c = [fine_jump xs o e]
  /\ exists v, c_dLc c = [v] /\ coarse_jump mid mass xs o e = Some v
     /\ match e_inc e with
        | None => v = 0 /\ fine_jump xs o e = 0
        | Some i => ((i mod 2 = 0)%Z -> v = fine_jump xs o e)
                    /\ ((i mod 2 <> 0)%Z -> v = left_point xs (position o i) \/ v = right_point xs (position o i))
        end.
Proof.
  unfold driver_cstep. destruct (coarse_jump mid mass xs o e) as [v|] eqn:E; [|discriminate].
  cbn [option_map]. intros H; injection H as <-. cbn. repeat split. exists v. repeat split.
  unfold coarse_jump, fine_jump in *. destruct (e_inc e) as [i|].
  - unfold coupling_state in E. destruct (Z.eqb (i mod 2) 0) eqn:Ev.
    + apply Z.eqb_eq in Ev. injection E as <-. split; [reflexivity|intro; contradiction].
    + apply Z.eqb_neq in Ev. destruct (prob_right_at mid mass xs (position o i)) as [pr|]; [|discriminate].
      injection E as <-. split; [intro; contradiction|]. intros _. destruct (Qltb (e_u e) pr); [right|left]; reflexivity.
  - injection E as <-. split; reflexivity.
Qed.

Lemma driver_csteps_nth mid mass xs o cf cc : forall es cs, driver_csteps mid mass xs o cf cc es = Some cs ->
  length cs = length es /\ forall k e, nth_error es k = Some e -> exists c, nth_error cs k = Some c /\ driver_cstep mid mass xs o cf cc e = Some c.
Proof.
  induction es as [|e r IH]; intros cs H; cbn [driver_csteps] in H.
  - injection H as <-. split; [reflexivity|]. intros [|k] e0 Hk; discriminate.
  - destruct (driver_cstep mid mass xs o cf cc e) as [c|] eqn:E; [|discriminate].
    destruct (driver_csteps mid mass xs o cf cc r) as [cs'|]; [|discriminate]. injection H as <-.
    destruct (IH cs' eq_refl) as [L N]. split; [cbn; rewrite L; reflexivity|].
    intros [|k] e0 Hk; cbn in Hk.
    + injection Hk as <-. exists c. split; [reflexivity|exact E].
    + destruct (N k e0 Hk) as (c' & H1 & H2). exists c'. split; assumption.
Qed.

(* THE SDE COUPLING, any level l = n+1 >= 1 (1-d driver, CTMCGrid's arithmetic middle). *)
Section Sde.
  Variable sig2_of : grid -> Q.
  Variable drift_of : grid -> Q.
  Variable b_of : grid -> Q -> list Q -> list Q.
  Variable mass : Q -> Q -> Q.
  Variable a_st : Q -> list Q -> list Q -> smat.
  Variable a : Q -> list Q -> list (list Q).
  Hypothesis a_restricts : forall t zf zc, smat_f (a_st t zf zc) = a t zf /\ smat_c (a_st t zf zc) = a t zc.

  Theorem sde_coarse_is_previous_level_scheme n g cf cc es x0 :
    let s := sde_run amid sig2_of drift_of b_of (S n) g in
    let gf := c_grid (s_drv s) in let xs := nth 0 (g_axes gf) [] in
    s_level s = S n /\ s_drv s = run_levels amid sig2_of drift_of 0 (S n) g /\ gf = refine_n amid (S n) g
    /\ s_mu_h s = drift_of (refine_n amid (S n) g) /\ s_mu_2h s = Some (drift_of (refine_n amid n g)) /\ s_b s = b_of g
    /\ c_sig2_coarse (s_drv s) = sig2_of (refine_n amid n g) /\ c_sig2_fine (s_drv s) = sig2_of (refine_n amid (S n) g)
    /\ forall cs, driver_csteps amid mass xs (g_o gf) cf cc es = Some cs ->
         exists rows, sde_coupled a_st mass cf cc s es x0 = Some rows
         /\ map snd rows = euler a (b_of g) [drift_of (refine_n amid n g)] (map coarse_step cs) x0
         /\ map fst rows = euler a (b_of g) [drift_of (refine_n amid (S n) g)] (map fine_step cs) x0
         /\ length cs = length es
         /\ forall k e, nth_error es k = Some e -> exists c, nth_error cs k = Some c /\ driver_cstep amid mass xs (g_o gf) cf cc e = Some c.
  Proof.
    intros s gf xs.
    destruct (sde_run_fields amid sig2_of drift_of b_of (S n) g) as (F1 & F2 & F3 & F4). fold s in F1, F2, F3, F4.
    pose proof (sde_run_coarse_drift amid sig2_of drift_of b_of n g) as F5. fold s in F5.
    destruct (drift_diffusion_frozen amid sig2_of drift_of 0 n g) as (_ & D2 & _ & D4 & D5 & _).
    split; [exact F1|]. split; [exact F2|]. split; [unfold gf; rewrite F2; exact D2|]. split; [exact F3|]. split; [exact F5|].
    split; [exact F4|]. split; [rewrite F2; exact D4|]. split; [rewrite F2; exact D5|].
    intros cs Hcs. unfold sde_coupled. fold gf. fold xs. rewrite F5, Hcs.
    eexists; split; [reflexivity|]. rewrite F3, F4.
    rewrite (stacked_rows a_st a (b_of g) _ _ a_restricts).
    destruct (coupled_rows a (b_of g) [drift_of (refine_n amid (S n) g)] [drift_of (refine_n amid n g)] cs x0 x0) as [R1 R2].
    split; [exact R2|]. split; [exact R1|]. apply (driver_csteps_nth amid mass xs (g_o gf) cf cc es cs Hcs).
  Qed.

  (* ... and that scheme is the one the FINE component of the previous level runs (level n >= 1: the fine row of the coupled simulation at the
     state after n next_level calls; level 0: MarkovChainSDE.simulate_one_path): the same function of the driver steps *)
  Theorem sde_previous_level_fine_scheme n g :
    let scheme := fun steps x0 => euler a (b_of g) [drift_of (refine_n amid n g)] steps x0 in
    (forall steps x0, n = O -> sde_single a (sde_run amid sig2_of drift_of b_of n g) steps x0 = scheme steps x0)
    /\ (forall cf cc es x0 rows, sde_coupled a_st mass cf cc (sde_run amid sig2_of drift_of b_of n g) es x0 = Some rows ->
          exists cs, map fst rows = scheme (map fine_step cs) x0)
    /\ (forall cf cc es x0 rows, sde_coupled a_st mass cf cc (sde_run amid sig2_of drift_of b_of (S n) g) es x0 = Some rows ->
          exists cs, map snd rows = scheme (map coarse_step cs) x0).
  Proof.
    intro scheme. split; [|split].
    - intros steps x0 ->. reflexivity.
    - intros cf cc es x0 rows H. unfold sde_coupled in H.
      destruct (sde_run_fields amid sig2_of drift_of b_of n g) as (_ & _ & F3 & F4).
      destruct (s_mu_2h _) as [m2|]; [|discriminate]. destruct (driver_csteps _ _ _ _ _ _ es) as [cs|]; [|discriminate].
      injection H as <-. exists cs. rewrite F3, F4, (stacked_rows a_st a (b_of g) _ _ a_restricts).
      apply (coupled_rows a (b_of g)).
    - intros cf cc es x0 rows H. unfold sde_coupled in H.
      destruct (sde_run_fields amid sig2_of drift_of b_of (S n) g) as (_ & _ & F3 & F4).
      rewrite (sde_run_coarse_drift amid sig2_of drift_of b_of n g) in H. rewrite F3, F4 in H.
      destruct (driver_csteps _ _ _ _ _ _ es) as [cs|]; [|discriminate].
      injection H as <-. exists cs. rewrite (stacked_rows a_st a (b_of g) _ _ a_restricts).
      apply (coupled_rows a (b_of g)).
  Qed.
End Sde.


(* F-C03-4 (assessment of the C16 agent's observation).  For the Levy Libor model the sde drift is a closure over zz = second moments of the
   driver's Levy measure outside (-h/2, h/2), built by fine_process.initialisation from the h the grid has at that moment; CouplingSDE
   initialises fine_process at level 0 only and uses fine_process.sde_drift for both components at every level.  The multilevel sum still
   telescopes (sde_previous_level_fine_scheme: coarse component of level l = fine component of level l-1, both with the level-0 zz), but from
   level 2 on the coarse component is NOT the scheme of the level-(l-1) process MarkovChainLevyLiborModel builds on the grid refined l-1 times
   (sde_single at sde_init of that grid): same driver drift, same coefficient, different sde drift. *)
Theorem sde_libor_drift_not_of_level_refuted : forall (sig2_of drift_of : grid -> Q),
  exists T dl Sg ps pinf g x,
    let b_of := fun g' => b_libor T dl Sg (libor_zz ps pinf g') in
    let st2 := sde_run amid sig2_of drift_of b_of 2 g in                      (* CouplingSDE after two next_level calls *)
    let st1 := sde_init sig2_of drift_of b_of (refine_n amid 1 g) in          (* the level-1 process, built and initialised on the grid refined once *)
    s_mu_2h st2 = Some (s_mu_h st1)                                            (* same driver drift ... *)
    /\ c_sig2_coarse (s_drv st2) = c_sig2_fine (s_drv st1)                     (* ... same diffusion coefficient ... *)
    /\ ~ Qeq (nth 0 (s_b st2 0 x) 0) (nth 0 (s_b st1 0 x) 0).                  (* ... but not the same sde drift *)
Proof.
  intros sig2_of drift_of.
  exists [1; 3#2; 2], [1#2; 1#2], [[1#2]; [1#4]], [(-(2#1), 0, 3#1); (0, 3#1, 3#2)], (10#1),
         (mk_grid (1#2) 3 [[-(2#1); -(1#1); -(1#2); 0; 1#2; 2#1; 3#1]]), [1#32; 1#16].
  intros b_of st2 st1.
  split; [apply (sde_run_coarse_drift amid sig2_of drift_of b_of 1)|].
  destruct (sde_run_fields amid sig2_of drift_of b_of 2 (mk_grid (1#2) 3 [[-(2#1); -(1#1); -(1#2); 0; 1#2; 2#1; 3#1]])) as (_ & F2 & _ & F4).
  fold st2 in F2, F4. split.
  - rewrite F2. destruct (drift_diffusion_frozen amid sig2_of drift_of 0 1 (mk_grid (1#2) 3 [[-(2#1); -(1#1); -(1#2); 0; 1#2; 2#1; 3#1]])) as (_ & _ & _ & D4 & _).
    rewrite D4. reflexivity.
  - rewrite F4. unfold st1, sde_init; cbn [s_b]. unfold b_of. vm_compute. discriminate.
Qed.

(* C03 (wave 8, audit5a D1 / top-10 #2): finding F-C03-2.  CouplingSDE.simulate_one_path_with_coupling advances the COARSE component on the
   time grid of the level-l fine driver; the level-(l-1) process advances on its own grid (Model/CouplingSde.v: own_grid).
   1. Constant coefficient: the end value does not depend on the grid (for all paths)        -> sde_constant_grid_independent
   2. a = diag(x): merging two steps changes the end value by EXACTLY x0 * growth(before) * dY1 * dY2 * growth(after)  -> sde_grid_dependence
   3. on the faithful level machine + coupled driver: a driver path at level 1 whose coarse row differs from the level-0 process run on the
      coarse path's own grid                                                                  -> sde_grid_dependence_refuted *)
From Coq Require Import ZArith QArith List Bool Lia Lqa.
From RV Require Import Base.QB Base.QVec Model.Grid Model.Chain Model.Drift Model.Coupling1d Model.Euler Model.RateSDE Model.CouplingSde
  Proofs.C03_Coupling1d Proofs.C16_Euler Proofs.C03_Sde.
Import ListNotations.
Open Scope Q_scope.

(* ---- own_grid keeps the three sums ---- *)
Lemma own_grid_sums : forall steps,
  sum_dt (own_grid steps) == sum_dt steps /\ veq (sum_dL (own_grid steps)) (sum_dL steps) /\ veq (sum_dW (own_grid steps)) (sum_dW steps).
Proof.
  induction steps as [|s r (I1 & I2 & I3)]; [repeat split; try reflexivity; apply veq_refl|].
  cbn [own_grid]. destruct (own_grid r) as [|s' r'] eqn:E.
  - cbn [sum_dt sum_dL sum_dW] in *. repeat split.
    + rewrite <- I1. reflexivity.
    + apply vadd_veq; [apply veq_refl|exact I2].
    + apply vadd_veq; [apply veq_refl|exact I3].
  - destruct (no_jump s).
    + cbn [sum_dt sum_dL sum_dW merge_step s_dt s_dL s_dW] in *. repeat split.
      * rewrite <- I1. ring.
      * intro k. pose proof (I2 k) as J. rewrite !qn_vadd in *. lra.
      * intro k. pose proof (I3 k) as J. rewrite !qn_vadd in *. lra.
    + cbn [sum_dt sum_dL sum_dW] in *. repeat split.
      * rewrite <- I1. reflexivity.
      * apply vadd_veq; [apply veq_refl|exact I2].
      * apply vadd_veq; [apply veq_refl|exact I3].
Qed.

(* 1. Constant: X_T = x0 + A (mu T + L_T + W_T) on either grid *)
Theorem sde_constant_grid_independent A mu x0 steps :
  veq (final (a_constant A) b_zero mu (own_grid steps) x0) (final (a_constant A) b_zero mu steps x0).
Proof.
  destruct (own_grid_sums steps) as (H1 & H2 & H3).
  eapply veq_trans; [apply constant_a|]. apply veq_sym. eapply veq_trans; [apply constant_a|]. apply veq_sym.
  apply vadd_veq; [apply veq_refl|]. apply matvec_veq. apply vadd_veq; [|apply vadd_veq; assumption].
  intro k. rewrite !qn_vscale, H1. reflexivity.
Qed.

(* 2. diag(x) *)
Lemma growth_app k mu : forall l1 l2, growth k mu (l1 ++ l2) == growth k mu l1 * growth k mu l2.
Proof. induction l1 as [|s r IH]; intro l2; cbn [app growth]; [ring|rewrite IH; ring]. Qed.
Lemma growth_cons k mu s r : growth k mu (s :: r) == (1 + dY k mu s) * growth k mu r.
Proof. reflexivity. Qed.
Lemma dY_merge k mu p s : dY k mu (merge_step p s) == dY k mu p + dY k mu s.
Proof. unfold dY, merge_step; cbn [s_dt s_dL s_dW]. rewrite !qn_vadd. ring. Qed.

Theorem sde_grid_dependence mu x0 pre p s post k :
  qn k (final a_diag b_zero mu (pre ++ p :: s :: post) x0) - qn k (final a_diag b_zero mu (pre ++ merge_step p s :: post) x0)
  == qn k x0 * growth k mu pre * (dY k mu p * dY k mu s) * growth k mu post.
Proof.
  rewrite !diag_product, !growth_app, !growth_cons, dY_merge. ring.
Qed.

(* own_grid on a path [p; s] whose first step has no jump IS that merge *)
Lemma own_grid_two p s : no_jump p = true -> own_grid [p; s] = [merge_step p s].
Proof. intro H. cbn [own_grid]. rewrite H. reflexivity. Qed.

(* 3. the faithful machine.  Level 1 of CouplingSDE on a 7-point axis (refined: 13 points, origin 6), step-measure driver, a = diag(x), x0 = 2;
   the fine driver jumps by +1 (odd) at t = 1/4 and the coupling uniform 7/8 >= P(right) sends it to the ORIGIN: the coarse driver does not move;
   second step up to t = 1/2 with the even increment -2 (copied: coarse jump -1/2).  mc_drift_2h = -3/8, coarse Brownian increments 1/4, -1/8:
   dY1 = 5/32, dY2 = -23/32.  The code's coarse row ends at 2 (1 + dY1)(1 + dY2) = 333/512; the level-0 process (sde_run 0 g: same driver drift,
   same sde drift, same coefficient function) on the coarse path's own grid {0, 1/2} ends at 2 (1 + dY1 + dY2) = 7/8 (difference 2 dY1 dY2,
   sde_grid_dependence).  Control: with Constant(3/2) the two end values are equal. *)
Definition w_ps : list (Q * Q * Q) := [(-(2#1), 0, 3#1); (0, 3#1, 3#2)].
Definition w_g : grid := mk_grid (1#2) 3 [[-(2#1); -(1#1); -(1#2); 0; 1#2; 2#1; 3#1]].
Definition w_es : list devent :=
  [ {| e_t := 0; e_dt := 1#4; e_inc := Some 1%Z; e_u := 7#8; e_sw := 1#2 |};
    {| e_t := 1#4; e_dt := 1#4; e_inc := Some (-2)%Z; e_u := 0; e_sw := -(1#4) |} ].
Definition w_sig2 := step_sig2_of w_ps (1#2) true.
Definition w_drift := step_drift_of w_ps 0 2 true (3#8).
Definition w_s (n : nat) : sstate := sde_run amid w_sig2 w_drift (fun _ => b_zero) n w_g.
Definition w_xs : list Q := nth 0 (g_axes (c_grid (s_drv (w_s 1)))) [].

Theorem sde_grid_dependence_refuted :
  exists cs rows,
    driver_csteps amid (chain_mass w_ps w_xs) w_xs (g_o (c_grid (s_drv (w_s 1)))) 1 (1#2) w_es = Some cs
    /\ sde_coupled a_st_diag (chain_mass w_ps w_xs) 1 (1#2) (w_s 1) w_es [2#1] = Some rows
    /\ map (fun c => no_jump (coarse_step c)) cs = [true; false]                      (* the first time is not a jump time of the coarse driver *)
    /\ s_mu_2h (w_s 1) = Some (s_mu_h (w_s 0))                                        (* the level-0 process has the coarse component's driver drift *)
    /\ ~ s_mu_h (w_s 0) == 0
    /\ ~ veq (end_value [2#1] (map snd rows))
             (end_value [2#1] (sde_single a_diag (w_s 0) (own_grid (map coarse_step cs)) [2#1]))
    /\ (exists rows', sde_coupled (a_st_constant [[3#2]]) (chain_mass w_ps w_xs) 1 (1#2) (w_s 1) w_es [2#1] = Some rows'  (* control *)
         /\ veq (end_value [2#1] (map snd rows'))
                (end_value [2#1] (sde_single (a_constant [[3#2]]) (w_s 0) (own_grid (map coarse_step cs)) [2#1]))).
Proof.
  eexists. eexists. split; [vm_compute; reflexivity|]. split; [vm_compute; reflexivity|].
  split; [vm_compute; reflexivity|]. split; [vm_compute; reflexivity|].
  split; [vm_compute; discriminate|]. split.
  - intro H. specialize (H 0%nat). vm_compute in H. discriminate.
  - eexists. split; [vm_compute; reflexivity|]. intros [|[|k]]; vm_compute; reflexivity.
Qed.


(* C03 -- (1) the general positive theorem for the 2-d (Levy copula) coupling with JOINT corner masses (telescoping_joint): for any
   rectangle mass additive per coordinate and non-negative away from the origin and any two admissible axes, every coarse state receives
   exactly its level-(l-1) rate; [ONE mass2 plays both the rate and the corner measure here; the code has two: Proofs/C03_TwoMeasures.v
   restates it with both and the hypothesis same_measure, and Properties/C03.v states only that version (audit4 B1)]; (2) the LAW of the 2-d coupling as a function of the coupling uniform, for the code as it is
   (coupling_state2 / prob_to2, margin masses) and for the repaired rule (coupling_state2_joint / prob_to2_joint); (3) 'same generator'
   packaging for the 1-d coupling over any number of levels. *)
From Coq Require Import ZArith QArith Qabs List Bool Lia Lqa.
From RV Require Import Base.QB Model.Grid Gen.GenC01Trunc Gen.GenC04Triplet Model.Chain Model.Drift Model.Coupling1d Model.CouplingNd
  Proofs.C13_Grid Proofs.C01_Chain Proofs.C03_Coupling1d Proofs.C03_CouplingNd.
Import ListNotations.
Open Scope Q_scope.

Lemma amid_refl x : ~ x == 0 -> amid x x == x.
Proof. intros _. unfold amid. lra. Qed.

Lemma qsum_flat_map {A} (f : A -> list Q) l : qsum (flat_map f l) == qsum (map (fun x => qsum (f x)) l).
Proof.
  induction l as [|x r IH]; [reflexivity|]. cbn [flat_map map]. rewrite qsum_app, IH. unfold qsum at 3. cbn [fold_right].
  reflexivity.
Qed.

(* the part of the cell of fine index p that the coupling sends to the fine index t (a coarse state): the whole cell of an even p = t,
   the right half of the odd p = t-1, the left half of the odd p = t+1 *)
Definition part (xs : list Q) (p t : nat) : option (Q * Q) :=
  if Nat.even p then (if Nat.eqb p t then Some (cell_lo amid xs p, cell_hi amid xs p) else None)
  else if Nat.eqb (p + 1) t then Some (nthq xs p, cell_hi amid xs p)
  else if Nat.eqb p (t + 1) then Some (cell_lo amid xs p, nthq xs p) else None.
Definition pm (m : Q -> Q -> Q) (I : option (Q * Q)) : Q := match I with Some (a, b) => m a b | None => 0 end.

Section Strip.
  Variable xs : list Q.
  Variable o : nat.
  Hypothesis Hincr : incr xs.
  Hypothesis Hends : ends_ok xs.
  Hypothesis Ho1 : (1 <= o)%nat.
  Hypothesis Ho2 : (o + 1 < length xs)%nat.
  Hypothesis Hzero : nthq xs o == 0.
  Let xs' := refine_axis amid xs.

  Lemma slen : length xs' = (2 * length xs - 1)%nat.
  Proof. apply (len' amid xs o); assumption. Qed.
  Lemma sincr : incr xs'.
  Proof. apply incr'; [exact amid_between|assumption]. Qed.
  Lemma sends : ends_ok xs'.
  Proof. apply (ends' amid xs o); assumption. Qed.

  Lemma part_sub p t a b : (p < length xs')%nat -> part xs' p t = Some (a, b) ->
    cell_lo amid xs' p <= a /\ a <= b /\ b <= cell_hi amid xs' p.
  Proof.
    intros Hp. pose proof (cell_lo_le amid amid_between amid_refl xs' p sincr sends Hp) as (A & _).
    pose proof (cell_hi_ge amid amid_between amid_refl xs' p sincr sends Hp) as (B & _).
    unfold part. destruct (Nat.even p).
    - destruct (Nat.eqb p t); [|discriminate]. intros H; injection H as <- <-. lra.
    - destruct (Nat.eqb (p + 1) t); [intros H; injection H as <- <-; lra|].
      destruct (Nat.eqb p (t + 1)); [intros H; injection H as <- <-; lra|discriminate].
  Qed.

  Variable j : nat.
  Hypothesis Hj : (j < length xs)%nat.
  Variable m : Q -> Q -> Q.
  (* m is additive on the sub-intervals of the coarse cell of j *)
  Hypothesis m_add : forall a b c, cell_lo amid xs j <= a -> a <= b -> b <= c -> c <= cell_hi amid xs j -> m a c == m a b + m b c.
  Hypothesis m_proper : forall a a' b b', a == a' -> b == b' -> m a b == m a' b'.

  Local Notation g p := (pm m (part xs' p (2 * j))) (only parsing).

  Lemma g_even : g (2 * j)%nat = m (cell_lo amid xs' (2 * j)) (cell_hi amid xs' (2 * j)).
  Proof. unfold part. rewrite Nat.even_mul, Nat.eqb_refl. reflexivity. Qed.
  Lemma g_below : (1 <= j)%nat -> g (2 * j - 1)%nat = m (nthq xs' (2 * j - 1)) (cell_hi amid xs' (2 * j - 1)).
  Proof.
    intros H1. unfold part. replace (2 * j - 1)%nat with (2 * (j - 1) + 1)%nat by lia. rewrite odd_not_even.
    replace (2 * (j - 1) + 1 + 1 =? 2 * j)%nat with true by (symmetry; apply Nat.eqb_eq; lia). reflexivity.
  Qed.
  Lemma g_above : g (2 * j + 1)%nat = m (cell_lo amid xs' (2 * j + 1)) (nthq xs' (2 * j + 1)).
  Proof.
    unfold part. rewrite odd_not_even.
    replace (2 * j + 1 + 1 =? 2 * j)%nat with false by (symmetry; apply Nat.eqb_neq; lia). rewrite Nat.eqb_refl. reflexivity.
  Qed.
  Lemma g_zero p : p <> (2 * j)%nat -> (p + 1)%nat <> (2 * j)%nat -> p <> (2 * j + 1)%nat -> g p = 0.
  Proof.
    intros N1 N2 N3. unfold part. destruct (Nat.even p).
    - destruct (Nat.eqb_spec p (2 * j)); [contradiction|reflexivity].
    - destruct (Nat.eqb_spec (p + 1) (2 * j)); [contradiction|]. destruct (Nat.eqb_spec p (2 * j + 1)); [contradiction|reflexivity].
  Qed.

  (* the parts sent to the coarse state j tile its level-(l-1) cell *)
  Lemma strip : qsum (map (fun p => g p) (seq 0 (length xs'))) == m (cell_lo amid xs j) (cell_hi amid xs j).
  Proof.
    pose proof slen as L.
    destruct (fine_cell_order amid amid amid_between amid_refl amid_between amid_refl xs o Hincr Hends Ho1 Ho2 j Hj) as (O1 & O2 & O3 & O4 & O5).
    fold xs' in O1, O2, O3, O4, O5.
    destruct (Nat.eq_dec j 0) as [J0|J0]; [|destruct (Nat.eq_dec (j + 1) (length xs)) as [JN|JN]].
    - rewrite (qsum_support [(2 * j)%nat; (2 * j + 1)%nat]).
      + unfold qsum. cbn [map fold_right]. rewrite g_even, g_above.
        destruct (O3 ltac:(lia)) as (A1 & A2 & A3). rewrite A2.
        rewrite (m_add (cell_lo amid xs j) (cell_hi amid xs' (2 * j)) (cell_hi amid xs j)); try lra.
        * rewrite A3. rewrite (m_proper _ _ _ _ (O4 J0) (Qeq_refl (cell_hi amid xs' (2 * j)))). lra.
        * rewrite (O4 J0). exact O1.
        * rewrite A3. exact A1.
      + constructor; [simpl; lia|]. constructor; [simpl; tauto|constructor].
      + intros s [<-|[<-|[]]]; rewrite L; lia.
      + intros p Hp Hn. rewrite g_zero; [reflexivity| | |]; intro E; apply Hn; simpl; lia.
    - rewrite (qsum_support [(2 * j - 1)%nat; (2 * j)%nat]).
      + unfold qsum. cbn [map fold_right]. rewrite g_even, g_below by lia.
        destruct (O2 ltac:(lia)) as (A1 & A2 & A3). rewrite A2.
        rewrite (m_add (cell_lo amid xs j) (cell_lo amid xs' (2 * j)) (cell_hi amid xs j)); try lra.
        * rewrite A3. rewrite (m_proper _ _ _ _ (Qeq_refl (cell_lo amid xs' (2 * j))) (O5 JN)). lra.
        * rewrite A3. exact A1.
        * rewrite (O5 JN). exact O1.
      + constructor; [simpl; lia|]. constructor; [simpl; tauto|constructor].
      + intros s [<-|[<-|[]]]; rewrite L; lia.
      + intros p Hp Hn. rewrite g_zero; [reflexivity| | |]; intro E; apply Hn; simpl; lia.
    - rewrite (qsum_support [(2 * j - 1)%nat; (2 * j)%nat; (2 * j + 1)%nat]).
      + unfold qsum. cbn [map fold_right]. rewrite g_even, g_above, g_below by lia.
        destruct (O2 ltac:(lia)) as (A1 & A2 & A3). destruct (O3 ltac:(lia)) as (B1 & B2 & B3). rewrite A2, B2, A3, B3.
        rewrite (m_add (nthq xs' (2 * j - 1)) (cell_lo amid xs' (2 * j)) (nthq xs' (2 * j + 1))); try lra.
        * rewrite (m_add (cell_lo amid xs' (2 * j)) (cell_hi amid xs' (2 * j)) (nthq xs' (2 * j + 1))); try lra.
          -- rewrite A3; exact A1.
          -- rewrite B3; lra.
        * rewrite A3; lra.
        * rewrite B3; lra.
      + constructor; [simpl; lia|]. constructor; [simpl; lia|]. constructor; [simpl; tauto|constructor].
      + intros s [<-|[<-|[<-|[]]]]; rewrite L; lia.
      + intros p Hp Hn. rewrite g_zero; [reflexivity| | |]; intro E; apply Hn; simpl; lia.
  Qed.
End Strip.

Definition pm2 (mass2 : Q * Q -> Q * Q -> Q) (I1 I2 : option (Q * Q)) : Q :=
  match I1, I2 with Some (a1, b1), Some (a2, b2) => mass2 (a1, a2) (b1, b2) | _, _ => 0 end.

Section JointNd.
  Variable marg : nat -> Q -> Q -> Q.
  Variable mass2 : Q * Q -> Q * Q -> Q.
  Hypothesis mass2_add1 : forall a1 b1 c1 y1 y2, a1 <= b1 -> b1 <= c1 -> avoids (a1, y1) (c1, y2) ->
    mass2 (a1, y1) (c1, y2) == mass2 (a1, y1) (b1, y2) + mass2 (b1, y1) (c1, y2).
  Hypothesis mass2_add2 : forall x1 x2 a2 b2 c2, a2 <= b2 -> b2 <= c2 -> avoids (x1, a2) (x2, c2) ->
    mass2 (x1, a2) (x2, c2) == mass2 (x1, a2) (x2, b2) + mass2 (x1, b2) (x2, c2).
  Hypothesis mass2_pos : forall a b, fst a <= fst b -> snd a <= snd b -> avoids a b -> 0 <= mass2 a b.
  Hypothesis mass2_proper : forall a1 a2 b1 b2 a1' a2' b1' b2', a1 == a1' -> a2 == a2' -> b1 == b1' -> b2 == b2' ->
    mass2 (a1, a2) (b1, b2) == mass2 (a1', a2') (b1', b2').

  Variables xs ys : list Q.
  Variable o : nat.
  Hypothesis Xincr : incr xs.
  Hypothesis Xends : ends_ok xs.
  Hypothesis Xo2 : (o + 1 < length xs)%nat.
  Hypothesis Xzero : nthq xs o == 0.
  Hypothesis Yincr : incr ys.
  Hypothesis Yends : ends_ok ys.
  Hypothesis Yo2 : (o + 1 < length ys)%nat.
  Hypothesis Yzero : nthq ys o == 0.
  Hypothesis Ho1 : (1 <= o)%nat.
  Let xs' := refine_axis amid xs.
  Let ys' := refine_axis amid ys.
  Let o' := (2 * o)%nat.

  Let LX : length xs' = (2 * length xs - 1)%nat := slen xs o Ho1 Xo2.
  Let LY : length ys' = (2 * length ys - 1)%nat := slen ys o Ho1 Yo2.
  Let IX : incr xs' := sincr xs Xincr.
  Let IY : incr ys' := sincr ys Yincr.
  Let EX : ends_ok xs' := sends xs o Xends Ho1 Xo2.
  Let EY : ends_ok ys' := sends ys o Yends Ho1 Yo2.

  Lemma sideX p : (p < length xs')%nat -> p <> o' -> cell_hi amid xs' p < 0 \/ 0 < cell_lo amid xs' p.
  Proof. apply (fine_side amid amid amid_between amid_between amid_refl xs o); assumption. Qed.
  Lemma sideY p : (p < length ys')%nat -> p <> o' -> cell_hi amid ys' p < 0 \/ 0 < cell_lo amid ys' p.
  Proof. apply (fine_side amid amid amid_between amid_between amid_refl ys o); assumption. Qed.

  Lemma odd_inner n p : Nat.even p = false -> (p < 2 * n - 1)%nat -> (1 <= p)%nat /\ (p + 1 < 2 * n - 1)%nat.
  Proof.
    intros E Hp. assert (O : Nat.odd p = true) by (rewrite <- Nat.negb_even, E; reflexivity).
    apply Nat.odd_spec in O. destruct O as [k ->]. lia.
  Qed.
  Lemma odd_neq p : Nat.even p = false -> p <> o'.
  Proof. intros E ->. unfold o' in E. rewrite Nat.even_mul in E. discriminate. Qed.

  Section Flow.
  Variables t1 t2 : nat.
  Hypothesis Ht : ~ (t1 = o' /\ t2 = o').

  Local Notation F p1 p2 := (q_entry2 amid mass2 xs' ys' o' p1 p2 * prob_to2_joint amid mass2 marg xs' ys' p1 p2 t1 t2) (only parsing).

  (* rate x P(coupled to (t1,t2)) of a fine state is the mass of (its part sent to t1) x (its part sent to t2) *)
  Lemma flow2 p1 p2 : (p1 < length xs')%nat -> (p2 < length ys')%nat ->
    F p1 p2 == pm2 mass2 (part xs' p1 t1) (part ys' p2 t2).
  Proof.
    intros H1 H2. unfold prob_to2_joint, prob_to2, part, q_entry2.
    pose proof (cell_lo_hi amid amid_between amid_refl xs' p1 IX EX H1) as C1.
    pose proof (cell_lo_hi amid amid_between amid_refl ys' p2 IY EY H2) as C2.
    set (lo1 := cell_lo amid xs' p1) in *. set (hi1 := cell_hi amid xs' p1) in *.
    set (lo2 := cell_lo amid ys' p2) in *. set (hi2 := cell_hi amid ys' p2) in *.
    set (x1 := nthq xs' p1) in *. set (x2 := nthq ys' p2) in *.
    destruct (Nat.even p1) eqn:E1; destruct (Nat.even p2) eqn:E2.
    - (* both even: copied *)
      destruct (Nat.eqb_spec p1 t1) as [T1|T1]; destruct (Nat.eqb_spec p2 t2) as [T2|T2]; cbn [andb pm2]; try lra.
      destruct (Nat.eqb_spec p1 o') as [O1|O1]; destruct (Nat.eqb_spec p2 o') as [O2|O2]; cbn [andb]; try lra.
      exfalso. apply Ht. split; congruence.
    - (* p2 odd *)
      destruct (odd_inner (length ys) p2 E2 ltac:(rewrite <- LY; exact H2)) as [P1 P2]. rewrite <- LY in P2.
      pose proof (odd_neq p2 E2) as N2. pose proof (sideY p2 H2 N2) as S2. fold lo2 hi2 in S2.
      destruct (half_left ys' p2 IY P1 H2) as (L1 & L2 & L3). destruct (half_right ys' p2 IY P2) as (R1 & R2 & R3).
      fold lo2 in L1, L3. fold hi2 in R2, R3. fold x2 in L2, L3, R1, R3.
      replace (Nat.eqb p2 o') with false by (symmetry; apply Nat.eqb_neq; exact N2). rewrite andb_false_r.
      unfold corner1_joint. cbn [fst snd Nat.eqb]. fold lo1 hi1 lo2 hi2.
      set (T := mass2 (lo1, lo2) (hi1, hi2)).
      set (A := mass2 (lo1, lo2) (hi1, x2)). set (B := mass2 (lo1, x2) (hi1, hi2)).
      assert (AV : forall a1 b1 a2 b2, lo2 <= a2 -> b2 <= hi2 -> avoids (a1, a2) (b1, b2)).
      { intros a1 b1 a2 b2 Ha Hb. unfold avoids; cbn [fst snd]. destruct S2; [right; right; left|right; right; right]; lra. }
      assert (TS : T == A + B) by (apply mass2_add2; try lra; apply AV; lra).
      assert (PA : 0 <= A) by (apply mass2_pos; cbn [fst snd]; try lra; apply AV; lra).
      assert (PB : 0 <= B) by (apply mass2_pos; cbn [fst snd]; try lra; apply AV; lra).
      assert (EA := mass2_proper lo1 _ hi1 _ lo1 _ hi1 _ (Qeq_refl _) L1 (Qeq_refl _) L2). fold A in EA.
      assert (EB := mass2_proper lo1 _ hi1 _ lo1 _ hi1 _ (Qeq_refl _) R1 (Qeq_refl _) R2). fold B in EB.
      destruct (Nat.eqb_spec p1 t1) as [T1|T1]; [|destruct (Nat.eqb (p2 + 1) t2); [cbn [pm2]; fold A B; lra|destruct (Nat.eqb p2 (t2 + 1)); cbn [pm2]; fold A B; lra]].
      destruct (Qeq_bool T 0) eqn:E.
      + apply Qeq_bool_eq in E. destruct (Nat.eqb (p2 + 1) t2); [cbn [pm2]; fold A B; lra|]. destruct (Nat.eqb p2 (t2 + 1)); cbn [pm2]; fold A B; lra.
      + apply Qeq_bool_neq in E.
        destruct (Nat.eqb_spec (p2 + 1) t2) as [U|U]; [|destruct (Nat.eqb_spec p2 (t2 + 1)) as [V|V]];
        [replace (Nat.eqb (p2 - 1) t2) with false by (symmetry; apply Nat.eqb_neq; lia)
        |replace (Nat.eqb (p2 - 1) t2) with true by (symmetry; apply Nat.eqb_eq; lia)
        |replace (Nat.eqb (p2 - 1) t2) with false by (symmetry; apply Nat.eqb_neq; lia)];
        cbn [pm2]; fold A B; rewrite ?EA, ?EB; try (field; exact E); lra.
    - (* p1 odd *)
      destruct (odd_inner (length xs) p1 E1 ltac:(rewrite <- LX; exact H1)) as [P1 P2]. rewrite <- LX in P2.
      pose proof (odd_neq p1 E1) as N1. pose proof (sideX p1 H1 N1) as S1. fold lo1 hi1 in S1.
      destruct (half_left xs' p1 IX P1 H1) as (L1 & L2 & L3). destruct (half_right xs' p1 IX P2) as (R1 & R2 & R3).
      fold lo1 in L1, L3. fold hi1 in R2, R3. fold x1 in L2, L3, R1, R3.
      replace (Nat.eqb p1 o') with false by (symmetry; apply Nat.eqb_neq; exact N1). rewrite andb_false_l.
      unfold corner1_joint. cbn [fst snd Nat.eqb]. fold lo1 hi1 lo2 hi2.
      set (T := mass2 (lo1, lo2) (hi1, hi2)).
      set (A := mass2 (lo1, lo2) (x1, hi2)). set (B := mass2 (x1, lo2) (hi1, hi2)).
      assert (AV : forall a1 b1 a2 b2, lo1 <= a1 -> b1 <= hi1 -> avoids (a1, a2) (b1, b2)).
      { intros a1 b1 a2 b2 Ha Hb. unfold avoids; cbn [fst snd]. destruct S1; [left|right; left]; lra. }
      assert (TS : T == A + B) by (apply mass2_add1; try lra; apply AV; lra).
      assert (PA : 0 <= A) by (apply mass2_pos; cbn [fst snd]; try lra; apply AV; lra).
      assert (PB : 0 <= B) by (apply mass2_pos; cbn [fst snd]; try lra; apply AV; lra).
      assert (EA := mass2_proper _ lo2 _ hi2 _ lo2 _ hi2 L1 (Qeq_refl _) L2 (Qeq_refl _)). fold A in EA.
      assert (EB := mass2_proper _ lo2 _ hi2 _ lo2 _ hi2 R1 (Qeq_refl _) R2 (Qeq_refl _)). fold B in EB.
      destruct (Nat.eqb_spec p2 t2) as [T2|T2]; [|destruct (Nat.eqb (p1 + 1) t1); [cbn [pm2]; fold A B; lra|destruct (Nat.eqb p1 (t1 + 1)); cbn [pm2]; fold A B; lra]].
      destruct (Qeq_bool T 0) eqn:E.
      + apply Qeq_bool_eq in E. destruct (Nat.eqb (p1 + 1) t1); [cbn [pm2]; fold A B; lra|]. destruct (Nat.eqb p1 (t1 + 1)); cbn [pm2]; fold A B; lra.
      + apply Qeq_bool_neq in E.
        destruct (Nat.eqb_spec (p1 + 1) t1) as [U|U]; [|destruct (Nat.eqb_spec p1 (t1 + 1)) as [V|V]];
        [replace (Nat.eqb (p1 - 1) t1) with false by (symmetry; apply Nat.eqb_neq; lia)
        |replace (Nat.eqb (p1 - 1) t1) with true by (symmetry; apply Nat.eqb_eq; lia)
        |replace (Nat.eqb (p1 - 1) t1) with false by (symmetry; apply Nat.eqb_neq; lia)];
        cbn [pm2]; fold A B; rewrite ?EA, ?EB; try (field; exact E); lra.
    - (* both odd: joint quarter masses *)
      destruct (odd_inner (length xs) p1 E1 ltac:(rewrite <- LX; exact H1)) as [P1 P2]. rewrite <- LX in P2.
      destruct (odd_inner (length ys) p2 E2 ltac:(rewrite <- LY; exact H2)) as [Q1 Q2]. rewrite <- LY in Q2.
      pose proof (odd_neq p1 E1) as N1. pose proof (sideX p1 H1 N1) as S1. fold lo1 hi1 in S1.
      destruct (half_left xs' p1 IX P1 H1) as (L1 & L2 & L3). destruct (half_right xs' p1 IX P2) as (R1 & R2 & R3).
      destruct (half_left ys' p2 IY Q1 H2) as (M1 & M2 & M3). destruct (half_right ys' p2 IY Q2) as (W1 & W2 & W3).
      fold lo1 in L1, L3. fold hi1 in R2, R3. fold x1 in L2, L3, R1, R3.
      fold lo2 in M1, M3. fold hi2 in W2, W3. fold x2 in M2, M3, W1, W3.
      replace (Nat.eqb p1 o') with false by (symmetry; apply Nat.eqb_neq; exact N1). rewrite andb_false_l.
      unfold corner2. fold lo1 hi1 lo2 hi2.
      set (T := mass2 (lo1, lo2) (hi1, hi2)).
      set (q00 := mass2 (lo1, lo2) (x1, x2)). set (q01 := mass2 (lo1, x2) (x1, hi2)).
      set (q10 := mass2 (x1, lo2) (hi1, x2)). set (q11 := mass2 (x1, x2) (hi1, hi2)).
      assert (E00 := mass2_proper _ _ _ _ _ _ _ _ L1 M1 L2 M2). assert (E01 := mass2_proper _ _ _ _ _ _ _ _ L1 W1 L2 W2).
      assert (E10 := mass2_proper _ _ _ _ _ _ _ _ R1 M1 R2 M2). assert (E11 := mass2_proper _ _ _ _ _ _ _ _ R1 W1 R2 W2).
      fold q00 in E00. fold q01 in E01. fold q10 in E10. fold q11 in E11.
      assert (AV : forall a2 b2 a1 b1, lo1 <= a1 -> b1 <= hi1 -> avoids (a1, a2) (b1, b2)).
      { intros a2 b2 a1 b1 Ha Hb. unfold avoids; cbn [fst snd]. destruct S1; [left|right; left]; lra. }
      assert (TS : T == q00 + q01 + q10 + q11).
      { unfold T. rewrite (mass2_add1 lo1 x1 hi1 lo2 hi2) by (try lra; apply AV; lra).
        rewrite (mass2_add2 lo1 x1 lo2 x2 hi2) by (try lra; apply AV; lra).
        rewrite (mass2_add2 x1 hi1 lo2 x2 hi2) by (try lra; apply AV; lra). unfold q00, q01, q10, q11. lra. }
      assert (P00 : 0 <= q00) by (apply mass2_pos; cbn [fst snd]; try lra; apply AV; lra).
      assert (P01 : 0 <= q01) by (apply mass2_pos; cbn [fst snd]; try lra; apply AV; lra).
      assert (P10 : 0 <= q10) by (apply mass2_pos; cbn [fst snd]; try lra; apply AV; lra).
      assert (P11 : 0 <= q11) by (apply mass2_pos; cbn [fst snd]; try lra; apply AV; lra).
      destruct (Qeq_bool T 0) eqn:E.
      + apply Qeq_bool_eq in E.
        destruct (Nat.eqb (p1 + 1) t1); [|destruct (Nat.eqb p1 (t1 + 1))];
          (destruct (Nat.eqb (p2 + 1) t2); [|destruct (Nat.eqb p2 (t2 + 1))]); cbn [pm2]; fold q00 q01 q10 q11; lra.
      + apply Qeq_bool_neq in E. cbn [map fst snd]. unfold quarter, step_idx, qsum. cbn [fold_right].
        destruct (Nat.eqb_spec (p1 + 1) t1); destruct (Nat.eqb_spec (p1 - 1) t1); destruct (Nat.eqb_spec p1 (t1 + 1)); try (exfalso; lia);
        (destruct (Nat.eqb_spec (p2 + 1) t2); destruct (Nat.eqb_spec (p2 - 1) t2); destruct (Nat.eqb_spec p2 (t2 + 1)); try (exfalso; lia));
        cbn [andb pm2]; fold q00 q01 q10 q11; rewrite ?E00, ?E01, ?E10, ?E11; try (field; exact E); lra.
  Qed.
  End Flow.

  Lemma coarse_side (zs : list Q) j : incr zs -> ends_ok zs -> (o + 1 < length zs)%nat -> nthq zs o == 0 -> (j < length zs)%nat -> j <> o ->
    cell_hi amid zs j < 0 \/ 0 < cell_lo amid zs j.
  Proof.
    intros Hi He H2 H0 Hj Hne. destruct (cell_side amid amid_between amid_refl zs o Hi He Ho1 H2 H0 j Hj) as [S1 S2].
    destruct (Nat.lt_ge_cases j o); [left; apply S1; assumption|right; apply S2; lia].
  Qed.

  (* TELESCOPING with JOINT corner masses: every coarse state other than the origin receives exactly its level-(l-1) rate *)
  Theorem telescoping_joint j1 j2 : (j1 < length xs)%nat -> (j2 < length ys)%nat -> ~ (j1 = o /\ j2 = o) ->
    inflow2_gen amid mass2 (prob_to2_joint amid mass2 marg) xs' ys' o' (2 * j1) (2 * j2) == q_entry2 amid mass2 xs ys o j1 j2.
  Proof.
    intros J1 J2 Hne. unfold inflow2_gen. rewrite qsum_flat_map.
    assert (Ht : ~ ((2 * j1)%nat = o' /\ (2 * j2)%nat = o')) by (unfold o'; intros [A B]; apply Hne; lia).
    set (lo2 := cell_lo amid ys j2). set (hi2 := cell_hi amid ys j2).
    set (M := fun a b : Q => mass2 (a, lo2) (b, hi2)).
    rewrite (qsum_map_ext_in _ (fun p1 => pm M (part xs' p1 (2 * j1)))).
    - (* outer strip, along the first axis *)
      unfold xs'. rewrite (strip xs o Xincr Xends Ho1 Xo2 j1 J1 M).
      + unfold q_entry2, M, lo2, hi2. destruct (Nat.eqb_spec j1 o) as [A|A]; destruct (Nat.eqb_spec j2 o) as [B|B]; cbn [andb]; try reflexivity.
        exfalso; apply Hne; split; assumption.
      + intros a b c Ha Hab Hbc Hc. unfold M. apply mass2_add1; try assumption. unfold avoids; cbn [fst snd].
        destruct (Nat.eq_dec j1 o) as [A|A].
        * assert (B : j2 <> o) by (intro B; apply Hne; split; assumption).
          destruct (coarse_side ys j2 Yincr Yends Yo2 Yzero J2 B) as [S|S]; fold lo2 hi2 in S; tauto.
        * destruct (coarse_side xs j1 Xincr Xends Xo2 Xzero J1 A) as [S|S]; [left|right; left]; lra.
      + intros a a' b b' Ea Eb. unfold M. apply mass2_proper; try assumption; reflexivity.
    - (* inner strip, along the second axis, for each fine p1 *)
      intros p1 Hp1. apply in_seq in Hp1. assert (H1 : (p1 < length xs')%nat) by lia.
      rewrite (qsum_map_ext_in _ (fun p2 => pm2 mass2 (part xs' p1 (2 * j1)) (part ys' p2 (2 * j2)))).
      2:{ intros p2 Hp2. apply in_seq in Hp2. apply (flow2 _ _ Ht); [exact H1|lia]. }
      destruct (part xs' p1 (2 * j1)) as [[a1 b1]|] eqn:EP.
      + destruct (part_sub xs o Xincr Xends Ho1 Xo2 p1 (2 * j1) a1 b1 H1 EP) as (S1 & S2 & S3). fold xs' in S1, S3.
        rewrite (qsum_map_ext_in _ (fun p2 => pm (fun c d => mass2 (a1, c) (b1, d)) (part ys' p2 (2 * j2)))).
        2:{ intros p2 _. destruct (part ys' p2 (2 * j2)) as [[c d]|]; reflexivity. }
        unfold ys'. rewrite (strip ys o Yincr Yends Ho1 Yo2 j2 J2 (fun c d => mass2 (a1, c) (b1, d))).
        * reflexivity.
        * intros c d e Hc Hcd Hde He. apply mass2_add2; try assumption. unfold avoids; cbn [fst snd].
          destruct (Nat.eq_dec j2 o) as [B|B].
          -- assert (A : j1 <> o) by (intro A; apply Hne; split; assumption).
             assert (N : p1 <> o').
             { intros ->. unfold part, o' in EP. rewrite Nat.even_mul in EP. cbn [orb] in EP.
               destruct (Nat.eqb_spec (2 * o) (2 * j1)); [lia|discriminate]. }
             destruct (sideX p1 H1 N) as [S|S]; [left|right; left]; lra.
          -- destruct (coarse_side ys j2 Yincr Yends Yo2 Yzero J2 B) as [S|S]; [right; right; left|right; right; right]; lra.
        * intros c c' d d' Ec Ed. apply mass2_proper; try assumption; reflexivity.
      + cbn [pm pm2]. apply qsum_map_zero. intros; reflexivity.
  Qed.
End JointNd.

(* statement in terms of admissible axes *)
Section JointStatement.
  Variable marg : nat -> Q -> Q -> Q.
  Variable mass2 : Q * Q -> Q * Q -> Q.
  Hypothesis mass2_add1 : forall a1 b1 c1 y1 y2, a1 <= b1 -> b1 <= c1 -> avoids (a1, y1) (c1, y2) ->
    mass2 (a1, y1) (c1, y2) == mass2 (a1, y1) (b1, y2) + mass2 (b1, y1) (c1, y2).
  Hypothesis mass2_add2 : forall x1 x2 a2 b2 c2, a2 <= b2 -> b2 <= c2 -> avoids (x1, a2) (x2, c2) ->
    mass2 (x1, a2) (x2, c2) == mass2 (x1, a2) (x2, b2) + mass2 (x1, b2) (x2, c2).
  Hypothesis mass2_pos : forall a b, fst a <= fst b -> snd a <= snd b -> avoids a b -> 0 <= mass2 a b.
  Hypothesis mass2_proper : forall a1 a2 b1 b2 a1' a2' b1' b2', a1 == a1' -> a2 == a2' -> b1 == b1' -> b2 == b2' ->
    mass2 (a1, a2) (b1, b2) == mass2 (a1', a2') (b1', b2').

  Theorem telescoping_nd_joint xs ys o h1 h2 : admissible xs o h1 -> admissible ys o h2 ->
    forall j1 j2, (j1 < length xs)%nat -> (j2 < length ys)%nat -> (j1, j2) <> (o, o) ->
      inflow2_gen amid mass2 (prob_to2_joint amid mass2 marg) (refine_axis amid xs) (refine_axis amid ys) (2 * o) (2 * j1) (2 * j2)
      == q_entry2 amid mass2 xs ys o j1 j2.
  Proof.
    intros A1 A2 j1 j2 J1 J2 Hne.
    destruct (admissible_parts xs o h1 A1) as (Xi & Xe & H1 & X2 & X0). destruct (admissible_parts ys o h2 A2) as (Yi & Ye & _ & Y2 & Y0).
    apply (telescoping_joint marg mass2 mass2_add1 mass2_add2 mass2_pos mass2_proper xs ys o Xi Xe X2 X0 Yi Ye Y2 Y0 H1 j1 j2 J1 J2).
    intros [-> ->]. apply Hne. reflexivity.
  Qed.
End JointStatement.

(* ---------- the LAW of the 2-d coupling as a function of the coupling uniform *)
(* one odd axis: the code's two-corner loop *)
Definition couple1 (c : option (Q * Q)) (vl vr : Q * Q) (u : Q) : option (Q * Q) :=
  match c with
  | None => None
  | Some (pl, pr) => if Qle_bool u (0 + pl) then Some vl else if Qle_bool u (0 + pl + pr) then Some vr else None
  end.
Lemma couple1_law pl pr vl vr u : 0 <= pr -> vl <> vr ->
  (couple1 (Some (pl, pr)) vl vr u = Some vl <-> u <= pl) /\ (couple1 (Some (pl, pr)) vl vr u = Some vr <-> pl < u /\ u <= pl + pr).
Proof.
  intros Hr Hne. unfold couple1.
  destruct (Qle_bool u (0 + pl)) eqn:A; [apply Qle_bool_iff in A|]; [|destruct (Qle_bool u (0 + pl + pr)) eqn:B; [apply Qle_bool_iff in B|]].
  - repeat split; intros; try reflexivity; try lra; try (exfalso; apply Hne; congruence); try tauto.
  - assert (A' : ~ u <= 0 + pl) by (intro H; apply Qle_bool_iff in H; congruence).
    repeat split; intros; try reflexivity; try lra; try (exfalso; apply Hne; congruence).
  - assert (A' : ~ u <= 0 + pl) by (intro H; apply Qle_bool_iff in H; congruence).
    assert (B' : ~ u <= 0 + pl + pr) by (intro H; apply Qle_bool_iff in H; congruence).
    repeat split; intros; try discriminate; try lra; try (exfalso; tauto || lra).
Qed.

(* both axes odd: the four-corner loop picks corner k exactly for cum_{k-1} < u <= cum_k *)
Lemma first_corner_law4 q0 q1 q2 q3 u : 0 <= q1 -> 0 <= q2 -> 0 <= q3 ->
  let cs := [(false, false, q0); (false, true, q1); (true, false, q2); (true, true, q3)] in
  (first_corner u 0 cs = Some (false, false) <-> u <= q0)
  /\ (first_corner u 0 cs = Some (false, true) <-> q0 < u /\ u <= q0 + q1)
  /\ (first_corner u 0 cs = Some (true, false) <-> q0 + q1 < u /\ u <= q0 + q1 + q2)
  /\ (first_corner u 0 cs = Some (true, true) <-> q0 + q1 + q2 < u /\ u <= q0 + q1 + q2 + q3).
Proof.
  intros H1 H2 H3. cbv zeta. cbn [first_corner].
  destruct (Qle_bool u (0 + q0)) eqn:A; [apply Qle_bool_iff in A|assert (A' : ~ u <= 0 + q0) by (intro H; apply Qle_bool_iff in H; congruence)].
  { repeat split; try discriminate; intros; try reflexivity; lra. }
  destruct (Qle_bool u (0 + q0 + q1)) eqn:B; [apply Qle_bool_iff in B|assert (B' : ~ u <= 0 + q0 + q1) by (intro H; apply Qle_bool_iff in H; congruence)].
  { repeat split; try discriminate; intros; try reflexivity; lra. }
  destruct (Qle_bool u (0 + q0 + q1 + q2)) eqn:C; [apply Qle_bool_iff in C|assert (C' : ~ u <= 0 + q0 + q1 + q2) by (intro H; apply Qle_bool_iff in H; congruence)].
  { repeat split; try discriminate; intros; try reflexivity; lra. }
  destruct (Qle_bool u (0 + q0 + q1 + q2 + q3)) eqn:D; [apply Qle_bool_iff in D|assert (D' : ~ u <= 0 + q0 + q1 + q2 + q3) by (intro H; apply Qle_bool_iff in H; congruence)].
  { repeat split; try discriminate; intros; try reflexivity; lra. }
  repeat split; try discriminate; intros; lra.
Qed.

Lemma nth_lt_neq xs i j : incr xs -> (i < j)%nat -> (j < length xs)%nat -> nthq xs i <> nthq xs j.
Proof. intros Hi L1 L2 E. pose proof (incr_nth_lt xs Hi i j L1 L2) as H. rewrite E in H. lra. Qed.

Section LawNd.
  Variable marg : nat -> Q -> Q -> Q.
  Hypothesis marg_add : forall k a b c, a <= b -> b <= c -> (c < 0 \/ 0 < a) -> marg k a c == marg k a b + marg k b c.
  Hypothesis marg_pos : forall k a b, a <= b -> (b < 0 \/ 0 < a) -> 0 <= marg k a b.
  Hypothesis marg_proper : forall k a a' b b', a == a' -> b == b' -> marg k a b == marg k a' b'.
  Variable mass2 : Q * Q -> Q * Q -> Q.
  Hypothesis mass2_add1 : forall a1 b1 c1 y1 y2, a1 <= b1 -> b1 <= c1 -> avoids (a1, y1) (c1, y2) ->
    mass2 (a1, y1) (c1, y2) == mass2 (a1, y1) (b1, y2) + mass2 (b1, y1) (c1, y2).
  Hypothesis mass2_add2 : forall x1 x2 a2 b2 c2, a2 <= b2 -> b2 <= c2 -> avoids (x1, a2) (x2, c2) ->
    mass2 (x1, a2) (x2, c2) == mass2 (x1, a2) (x2, b2) + mass2 (x1, b2) (x2, c2).
  Hypothesis mass2_pos : forall a b, fst a <= fst b -> snd a <= snd b -> avoids a b -> 0 <= mass2 a b.
  Hypothesis mass2_proper : forall a1 a2 b1 b2 a1' a2' b1' b2', a1 == a1' -> a2 == a2' -> b1 == b1' -> b2 == b2' ->
    mass2 (a1, a2) (b1, b2) == mass2 (a1', a2') (b1', b2').

  (* the JOINT corner probabilities of one odd axis are a probability law whenever the cell mass is not 0 *)
  Theorem corner1_joint0_is_law xs ys p1 p2 pl pr : incr xs -> (1 <= p1)%nat -> (p1 + 1 < length xs)%nat ->
    (cell_hi amid xs p1 < 0 \/ 0 < cell_lo amid xs p1) -> cell_lo amid ys p2 <= cell_hi amid ys p2 ->
    corner1_joint amid mass2 0 xs ys p1 p2 = Some (pl, pr) -> 0 <= pl /\ 0 <= pr /\ pl + pr == 1.
  Proof.
    intros Hi H1 Hp Hs C2. unfold corner1_joint. cbn [fst snd Nat.eqb].
    destruct (half_left xs p1 Hi H1 ltac:(lia)) as (L1 & L2 & L3). destruct (half_right xs p1 Hi Hp) as (R1 & R2 & R3).
    set (lo1 := cell_lo amid xs p1) in *. set (hi1 := cell_hi amid xs p1) in *. set (x1 := nthq xs p1) in *.
    set (lo2 := cell_lo amid ys p2) in *. set (hi2 := cell_hi amid ys p2) in *.
    set (T := mass2 (lo1, lo2) (hi1, hi2)).
    destruct (Qeq_bool T 0) eqn:E; [discriminate|]. apply Qeq_bool_neq in E.
    intros H; injection H as <- <-.
    rewrite (mass2_proper _ lo2 _ hi2 _ lo2 _ hi2 L1 (Qeq_refl _) L2 (Qeq_refl _)), (mass2_proper _ lo2 _ hi2 _ lo2 _ hi2 R1 (Qeq_refl _) R2 (Qeq_refl _)).
    set (A := mass2 (lo1, lo2) (x1, hi2)). set (B := mass2 (x1, lo2) (hi1, hi2)).
    assert (AV : forall a1 b1 a2 b2, lo1 <= a1 -> b1 <= hi1 -> avoids (a1, a2) (b1, b2)).
    { intros a1 b1 a2 b2 Ha Hb. unfold avoids; cbn [fst snd]. destruct Hs; [left|right; left]; lra. }
    assert (TS : T == A + B) by (apply mass2_add1; try lra; apply AV; lra).
    assert (PA : 0 <= A) by (apply mass2_pos; cbn [fst snd]; try lra; apply AV; lra).
    assert (PB : 0 <= B) by (apply mass2_pos; cbn [fst snd]; try lra; apply AV; lra).
    assert (TP : 0 < T) by (destruct (Qlt_le_dec 0 T); [assumption|exfalso; apply E; lra]).
    split; [apply Qle_shift_div_l; lra|]. split; [apply Qle_shift_div_l; lra|].
    rewrite TS. field. rewrite <- TS. exact E.
  Qed.
  Theorem corner1_joint1_is_law xs ys p1 p2 pl pr : incr ys -> (1 <= p2)%nat -> (p2 + 1 < length ys)%nat ->
    (cell_hi amid ys p2 < 0 \/ 0 < cell_lo amid ys p2) -> cell_lo amid xs p1 <= cell_hi amid xs p1 ->
    corner1_joint amid mass2 1 xs ys p1 p2 = Some (pl, pr) -> 0 <= pl /\ 0 <= pr /\ pl + pr == 1.
  Proof.
    intros Hi H1 Hp Hs C2. unfold corner1_joint. cbn [fst snd Nat.eqb].
    destruct (half_left ys p2 Hi H1 ltac:(lia)) as (L1 & L2 & L3). destruct (half_right ys p2 Hi Hp) as (R1 & R2 & R3).
    set (lo1 := cell_lo amid xs p1) in *. set (hi1 := cell_hi amid xs p1) in *. set (x2 := nthq ys p2) in *.
    set (lo2 := cell_lo amid ys p2) in *. set (hi2 := cell_hi amid ys p2) in *.
    set (T := mass2 (lo1, lo2) (hi1, hi2)).
    destruct (Qeq_bool T 0) eqn:E; [discriminate|]. apply Qeq_bool_neq in E.
    intros H; injection H as <- <-.
    rewrite (mass2_proper lo1 _ hi1 _ lo1 _ hi1 _ (Qeq_refl _) L1 (Qeq_refl _) L2), (mass2_proper lo1 _ hi1 _ lo1 _ hi1 _ (Qeq_refl _) R1 (Qeq_refl _) R2).
    set (A := mass2 (lo1, lo2) (hi1, x2)). set (B := mass2 (lo1, x2) (hi1, hi2)).
    assert (AV : forall a1 b1 a2 b2, lo2 <= a2 -> b2 <= hi2 -> avoids (a1, a2) (b1, b2)).
    { intros a1 b1 a2 b2 Ha Hb. unfold avoids; cbn [fst snd]. destruct Hs; [right; right; left|right; right; right]; lra. }
    assert (TS : T == A + B) by (apply mass2_add2; try lra; apply AV; lra).
    assert (PA : 0 <= A) by (apply mass2_pos; cbn [fst snd]; try lra; apply AV; lra).
    assert (PB : 0 <= B) by (apply mass2_pos; cbn [fst snd]; try lra; apply AV; lra).
    assert (TP : 0 < T) by (destruct (Qlt_le_dec 0 T); [assumption|exfalso; apply E; lra]).
    split; [apply Qle_shift_div_l; lra|]. split; [apply Qle_shift_div_l; lra|].
    rewrite TS. field. rewrite <- TS. exact E.
  Qed.

  Lemma pos_idx o2 p : Z.to_nat (Z.of_nat (2 * o2) + (Z.of_nat p - Z.of_nat (2 * o2))) = p.
  Proof. lia. Qed.

  Ltac prelude o2 E1 E2 := rewrite !pos_idx, !(inc_parity o2), E1, E2.

  (* ---- first axis odd, second even.  rule = true: the code as it is (margin masses); rule = false: the repaired rule (joint masses) *)
  Theorem law_odd_even (joint : bool) xs ys (o2 p1 p2 : nat) pl pr : Nat.even p1 = false -> Nat.even p2 = true ->
    incr xs -> (p1 + 1 < length xs)%nat -> 0 <= pr ->
    (if joint then corner1_joint amid mass2 0 xs ys p1 p2 else corner1 amid marg 0 xs p1) = Some (pl, pr) ->
    let cs := (if joint then coupling_state2_joint amid mass2 marg else coupling_state2 amid mass2 marg)
                xs ys (2 * o2)%nat (Z.of_nat p1 - Z.of_nat (2 * o2))%Z (Z.of_nat p2 - Z.of_nat (2 * o2))%Z in
    let pt := (if joint then prob_to2_joint amid mass2 marg else prob_to2 amid mass2 marg) xs ys p1 p2 in
    (forall u, cs u = Some (nthq xs (p1 - 1), nthq ys p2) <-> u <= pl)
    /\ (forall u, cs u = Some (nthq xs (p1 + 1), nthq ys p2) <-> pl < u /\ u <= pl + pr)
    /\ pt (p1 - 1)%nat p2 == pl /\ pt (p1 + 1)%nat p2 == pr
    /\ (forall t1 t2, ~ (t2 = p2 /\ (t1 = (p1 - 1)%nat \/ t1 = (p1 + 1)%nat)) -> pt t1 t2 == 0).
  Proof.
    intros E1 E2 Hi Hp Hr Hc cs pt.
    assert (P1 : (1 <= p1)%nat) by (destruct p1; [discriminate|lia]).
    assert (NE : (nthq xs (p1 - 1), nthq ys p2) <> (nthq xs (p1 + 1), nthq ys p2)).
    { intros E. injection E as E. revert E. apply nth_lt_neq; [exact Hi|lia|exact Hp]. }
    assert (CS : forall u, cs u = couple1 (Some (pl, pr)) (nthq xs (p1 - 1), nthq ys p2) (nthq xs (p1 + 1), nthq ys p2) u).
    { intros u. unfold cs. destruct joint; unfold coupling_state2_joint, coupling_state2; prelude o2 E1 E2; rewrite Hc; reflexivity. }
    assert (PT : forall t1 t2, pt t1 t2 == if Nat.eqb p2 t2 then (if Nat.eqb (p1 - 1) t1 then pl else 0) + (if Nat.eqb (p1 + 1) t1 then pr else 0) else 0).
    { intros t1 t2. unfold pt. destruct joint; unfold prob_to2_joint, prob_to2; rewrite E1, E2, Hc; reflexivity. }
    split; [intros u; rewrite CS; apply couple1_law; assumption|]. split; [intros u; rewrite CS; apply couple1_law; assumption|].
    split; [|split].
    - rewrite PT, !Nat.eqb_refl. destruct (Nat.eqb_spec (p1 + 1) (p1 - 1)); [lia|lra].
    - rewrite PT, !Nat.eqb_refl. destruct (Nat.eqb_spec (p1 - 1) (p1 + 1)); [lia|lra].
    - intros t1 t2 N. rewrite PT. destruct (Nat.eqb_spec p2 t2); [|reflexivity].
      destruct (Nat.eqb_spec (p1 - 1) t1); [exfalso; apply N; split; [congruence|left; congruence]|].
      destruct (Nat.eqb_spec (p1 + 1) t1); [exfalso; apply N; split; [congruence|right; congruence]|]. lra.
  Qed.

  (* ---- first axis even, second odd *)
  Theorem law_even_odd (joint : bool) xs ys (o2 p1 p2 : nat) pl pr : Nat.even p1 = true -> Nat.even p2 = false ->
    incr ys -> (p2 + 1 < length ys)%nat -> 0 <= pr ->
    (if joint then corner1_joint amid mass2 1 xs ys p1 p2 else corner1 amid marg 1 ys p2) = Some (pl, pr) ->
    let cs := (if joint then coupling_state2_joint amid mass2 marg else coupling_state2 amid mass2 marg)
                xs ys (2 * o2)%nat (Z.of_nat p1 - Z.of_nat (2 * o2))%Z (Z.of_nat p2 - Z.of_nat (2 * o2))%Z in
    let pt := (if joint then prob_to2_joint amid mass2 marg else prob_to2 amid mass2 marg) xs ys p1 p2 in
    (forall u, cs u = Some (nthq xs p1, nthq ys (p2 - 1)) <-> u <= pl)
    /\ (forall u, cs u = Some (nthq xs p1, nthq ys (p2 + 1)) <-> pl < u /\ u <= pl + pr)
    /\ pt p1 (p2 - 1)%nat == pl /\ pt p1 (p2 + 1)%nat == pr
    /\ (forall t1 t2, ~ (t1 = p1 /\ (t2 = (p2 - 1)%nat \/ t2 = (p2 + 1)%nat)) -> pt t1 t2 == 0).
  Proof.
    intros E1 E2 Hi Hp Hr Hc cs pt.
    assert (P1 : (1 <= p2)%nat) by (destruct p2; [discriminate|lia]).
    assert (NE : (nthq xs p1, nthq ys (p2 - 1)) <> (nthq xs p1, nthq ys (p2 + 1))).
    { intros E. injection E as E. revert E. apply nth_lt_neq; [exact Hi|lia|exact Hp]. }
    assert (CS : forall u, cs u = couple1 (Some (pl, pr)) (nthq xs p1, nthq ys (p2 - 1)) (nthq xs p1, nthq ys (p2 + 1)) u).
    { intros u. unfold cs. destruct joint; unfold coupling_state2_joint, coupling_state2; prelude o2 E1 E2; rewrite Hc; reflexivity. }
    assert (PT : forall t1 t2, pt t1 t2 == if Nat.eqb p1 t1 then (if Nat.eqb (p2 - 1) t2 then pl else 0) + (if Nat.eqb (p2 + 1) t2 then pr else 0) else 0).
    { intros t1 t2. unfold pt. destruct joint; unfold prob_to2_joint, prob_to2; rewrite E1, E2, Hc; reflexivity. }
    split; [intros u; rewrite CS; apply couple1_law; assumption|]. split; [intros u; rewrite CS; apply couple1_law; assumption|].
    split; [|split].
    - rewrite PT, !Nat.eqb_refl. destruct (Nat.eqb_spec (p2 + 1) (p2 - 1)); [lia|lra].
    - rewrite PT, !Nat.eqb_refl. destruct (Nat.eqb_spec (p2 - 1) (p2 + 1)); [lia|lra].
    - intros t1 t2 N. rewrite PT. destruct (Nat.eqb_spec p1 t1); [|reflexivity].
      destruct (Nat.eqb_spec (p2 - 1) t2); [exfalso; apply N; split; [congruence|left; congruence]|].
      destruct (Nat.eqb_spec (p2 + 1) t2); [exfalso; apply N; split; [congruence|right; congruence]|]. lra.
  Qed.

  (* ---- both axes odd (the same for the two rules): four corners in itertools.product([-1,1]) order *)
  Lemma corner_pick (f g : bool -> Q) (fc : option (bool * bool)) d1 d2 : f false <> f true -> g false <> g true ->
    (match fc with Some (e1, e2) => Some (f e1, g e2) | None => None end = Some (f d1, g d2) <-> fc = Some (d1, d2)).
  Proof.
    intros Hf Hg. destruct fc as [[[|] [|]]|]; destruct d1, d2; split; intros H; try reflexivity; try discriminate;
      exfalso; injection H; intros; congruence.
  Qed.

  Theorem law_odd_odd xs ys (o2 p1 p2 : nat) cs : Nat.even p1 = false -> Nat.even p2 = false ->
    incr xs -> incr ys -> (p1 + 1 < length xs)%nat -> (p2 + 1 < length ys)%nat ->
    (cell_hi amid xs p1 < 0 \/ 0 < cell_lo amid xs p1) ->
    corner2 amid mass2 xs ys p1 p2 = Some cs ->
    let i1 := (Z.of_nat p1 - Z.of_nat (2 * o2))%Z in let i2 := (Z.of_nat p2 - Z.of_nat (2 * o2))%Z in
    let st := coupling_state2 amid mass2 marg xs ys (2 * o2) i1 i2 in
    let pt := prob_to2 amid mass2 marg xs ys p1 p2 in
    let v := fun d1 d2 : bool => (nthq xs (step_idx p1 d1), nthq ys (step_idx p2 d2)) in
    exists q0 q1 q2 q3, cs = [(false, false, q0); (false, true, q1); (true, false, q2); (true, true, q3)]
    /\ 0 <= q0 /\ 0 <= q1 /\ 0 <= q2 /\ 0 <= q3 /\ q0 + q1 + q2 + q3 == 1
    /\ (forall u, (st u = Some (v false false) <-> u <= q0)
                 /\ (st u = Some (v false true) <-> q0 < u /\ u <= q0 + q1)
                 /\ (st u = Some (v true false) <-> q0 + q1 < u /\ u <= q0 + q1 + q2)
                 /\ (st u = Some (v true true) <-> q0 + q1 + q2 < u /\ u <= q0 + q1 + q2 + q3))
    /\ pt (p1 - 1)%nat (p2 - 1)%nat == q0 /\ pt (p1 - 1)%nat (p2 + 1)%nat == q1
    /\ pt (p1 + 1)%nat (p2 - 1)%nat == q2 /\ pt (p1 + 1)%nat (p2 + 1)%nat == q3
    /\ (forall u, coupling_state2_joint amid mass2 marg xs ys (2 * o2) i1 i2 u = st u)
    /\ (forall t1 t2, prob_to2_joint amid mass2 marg xs ys p1 p2 t1 t2 = pt t1 t2).
  Proof.
    intros E1 E2 Hix Hiy Hp1 Hp2 Hs Hc i1 i2 st pt v.
    assert (P1 : (1 <= p1)%nat) by (destruct p1; [discriminate|lia]).
    assert (P2 : (1 <= p2)%nat) by (destruct p2; [discriminate|lia]).
    destruct (corner2_is_law mass2 mass2_add1 mass2_add2 mass2_pos mass2_proper xs ys p1 p2 cs Hix Hiy P1 Hp1 P2 Hp2 Hs Hc) as [NN SUM].
    assert (Hc' := Hc). unfold corner2 in Hc'.
    destruct (Qeq_bool (mass2 (cell_lo amid xs p1, cell_lo amid ys p2) (cell_hi amid xs p1, cell_hi amid ys p2)) 0) eqn:E; [discriminate|].
    injection Hc' as Hcs. cbn [map fst snd] in Hcs.
    match type of Hcs with [(_, _, ?a); (_, _, ?b); (_, _, ?c); (_, _, ?d)] = _ => set (q0 := a) in *; set (q1 := b) in *; set (q2 := c) in *; set (q3 := d) in * end.
    exists q0, q1, q2, q3. split; [symmetry; exact Hcs|]. subst cs.
    inversion NN as [|? ? N0 NN1]; subst. inversion NN1 as [|? ? N1 NN2]; subst. inversion NN2 as [|? ? N2 NN3]; subst.
    inversion NN3 as [|? ? N3 _]; subst. cbn [snd] in N0, N1, N2, N3. unfold qsum in SUM. cbn [map fold_right snd] in SUM.
    split; [exact N0|]. split; [exact N1|]. split; [exact N2|]. split; [exact N3|]. split; [lra|].
    assert (FX : nthq xs (step_idx p1 false) <> nthq xs (step_idx p1 true)) by (unfold step_idx; apply nth_lt_neq; [exact Hix|lia|exact Hp1]).
    assert (FY : nthq ys (step_idx p2 false) <> nthq ys (step_idx p2 true)) by (unfold step_idx; apply nth_lt_neq; [exact Hiy|lia|exact Hp2]).
    assert (ST : forall u, st u = match first_corner u 0 [(false, false, q0); (false, true, q1); (true, false, q2); (true, true, q3)] with
                                 | Some (d1, d2) => Some (v d1 d2) | None => None end).
    { intros u. unfold st, coupling_state2, i1, i2. rewrite !pos_idx, !(inc_parity o2), E1, E2, Hc. reflexivity. }
    split.
    - intros u. destruct (first_corner_law4 q0 q1 q2 q3 u N1 N2 N3) as (A0 & A1 & A2 & A3). rewrite ST. unfold v.
      rewrite !(corner_pick (fun d => nthq xs (step_idx p1 d)) (fun d => nthq ys (step_idx p2 d)) _ _ _ FX FY).
      repeat split; tauto.
    - assert (PT : forall t1 t2, pt t1 t2 = qsum (map (fun c : bool * bool * Q => let '(d1, d2, pr) := c in
                 if Nat.eqb (step_idx p1 d1) t1 && Nat.eqb (step_idx p2 d2) t2 then pr else 0)
                 [(false, false, q0); (false, true, q1); (true, false, q2); (true, true, q3)])).
      { intros t1 t2. unfold pt, prob_to2. rewrite E1, E2, Hc. reflexivity. }
      assert (X1 : Nat.eqb (p1 + 1) (p1 - 1) = false) by (apply Nat.eqb_neq; lia). assert (X2 : Nat.eqb (p1 - 1) (p1 + 1) = false) by (apply Nat.eqb_neq; lia).
      assert (Y1 : Nat.eqb (p2 + 1) (p2 - 1) = false) by (apply Nat.eqb_neq; lia). assert (Y2 : Nat.eqb (p2 - 1) (p2 + 1) = false) by (apply Nat.eqb_neq; lia).
      repeat split; try (rewrite PT; unfold qsum, step_idx; cbn [map fold_right]; rewrite ?Nat.eqb_refl, ?X1, ?X2, ?Y1, ?Y2; cbn [andb]; lra).
      + intros u. unfold coupling_state2_joint, i1, i2. rewrite !(inc_parity o2), E1, E2. reflexivity.
      + intros t1 t2. unfold prob_to2_joint. rewrite E1, E2. reflexivity.
  Qed.
End LawNd.

(* 'SAME GENERATOR' (one-dimensional coupling, CTMCGrid's arithmetic middle, any number of levels): the generator data of the COARSE component
   of the level-(n+1) pair -- the rate at which it jumps by each coarse state, its squared diffusion coefficient, its drift -- are
   EQUAL to the generator data of the level-n chain (rates q_entry on the grid refined n times, sig2_of and drift_of of that grid) *)
Section SameGenerator.
  Variable mass : Q -> Q -> Q.
  Hypothesis mass_add : forall a b c, a <= b -> b <= c -> (c < 0 \/ 0 < a) -> mass a c == mass a b + mass b c.
  Hypothesis mass_pos : forall a b, a <= b -> (b < 0 \/ 0 < a) -> 0 <= mass a b.
  Hypothesis mass_proper : forall a a' b b', a == a' -> b == b' -> mass a b == mass a' b'.
  Variable sig2_of : grid -> Q.
  Variable drift_of : grid -> Q.
  Variable x0 : Q.

  Theorem same_generator_1d g xs0 n : grid_wf g -> g_axes g = [xs0] ->
    let gn := refine_n amid n g in
    let s := run_levels amid sig2_of drift_of x0 (S n) g in
    let fine_axis := nth 0 (g_axes (c_grid s)) [] in let coarse_axis := nth 0 (g_axes gn) [] in
    c_level s = S n
    /\ length fine_axis = (2 * length coarse_axis - 1)%nat /\ g_o (c_grid s) = (2 * g_o gn)%nat
    /\ (forall j, (j < length coarse_axis)%nat -> nthq fine_axis (2 * j) = nthq coarse_axis j)
    /\ (forall j, (j < length coarse_axis)%nat -> j <> g_o gn ->
          inflow amid mass fine_axis (g_o (c_grid s)) (2 * j) == q_entry amid mass coarse_axis (g_o gn) j)
    /\ c_sig2_coarse s = sig2_of gn
    /\ (exists d, c_drift_coarse s = Some d /\ d == drift_of gn).
  Proof.
    intros W A gn s fine_axis coarse_axis.
    destruct (drift_diffusion_frozen amid sig2_of drift_of x0 n g) as (D1 & D2 & _ & D4 & _ & _ & (d & D7 & _ & D9)). fold s in D1, D2, D4, D7.
    pose proof (refine_n_grid_wf amid amid_between amid_left0 amid_right0 n g W) as Wn. fold gn in Wn.
    destruct (refine_n_fields amid n g) as (F1 & _). fold gn in F1. rewrite A in F1. cbn [map] in F1.
    assert (CA : coarse_axis = refine_axis_n amid n xs0) by (unfold coarse_axis; rewrite F1; reflexivity).
    assert (Adm : admissible coarse_axis (g_o gn) (g_h gn)).
    { destruct Wn as [Wa _]. rewrite F1 in Wa. inversion Wa; subst. rewrite CA. assumption. }
    assert (G : c_grid s = refine amid gn) by (rewrite D2; reflexivity).
    assert (FA : fine_axis = refine_axis amid coarse_axis).
    { unfold fine_axis. rewrite G. unfold refine; cbn [g_axes]. rewrite F1. cbn [map nth]. rewrite CA. reflexivity. }
    assert (FO : g_o (c_grid s) = (2 * g_o gn)%nat) by (rewrite G; unfold refine; cbn [g_o]; lia).
    assert (NE : coarse_axis <> []) by (intro E; destruct Adm as (_ & _ & H & _); rewrite E in H; simpl in H; lia).
    split; [exact D1|]. split; [rewrite FA; apply refine_length; exact NE|]. split; [exact FO|].
    split; [intros j Hj; rewrite FA; apply refine_even; exact Hj|].
    split; [|split; [exact D4|exists d; split; [exact D7|exact D9]]].
    intros j Hj Hne. rewrite FA, FO.
    apply (telescoping_admissible amid amid amid_between amid_refl amid_between amid_refl mass mass_add mass_pos mass_proper coarse_axis (g_o gn) (g_h gn) Adm j Hj Hne).
  Qed.
End SameGenerator.

(* C03 -- the 2-d (Levy copula) coupling with the TWO measures of the code (audit4 B1): Model/CouplingNdTwoMeasures.v.
   (1) the law prob_to2_joint depends on its mass function only through Qeq (extensionality);
   (2) telescoping of the JOINT rule stated with both measures, under the hypothesis that makes it true: the corner masses are the rate measure;
   (3) that hypothesis cannot be dropped: two non-negative tables on which the joint rule with a second corner measure does not telescope. *)
From Coq Require Import ZArith QArith Qabs List Bool Lia Lqa.
From RV Require Import Base.QB Model.Grid Gen.GenC01Trunc Model.Chain Model.CouplingNd Model.CouplingNdTwoMeasures
  Proofs.C01_Chain Proofs.C03_Coupling1d Proofs.C03_CouplingNd Proofs.C03_TelescopingNd.
Import ListNotations.
Open Scope Q_scope.

Lemma Qeq_bool_0_proper x y : x == y -> Qeq_bool x 0 = Qeq_bool y 0.
Proof.
  intros E. destruct (Qeq_bool x 0) eqn:A; destruct (Qeq_bool y 0) eqn:B; try reflexivity.
  - apply Qeq_bool_eq in A. apply Qeq_bool_neq in B. exfalso. apply B. rewrite <- E. exact A.
  - apply Qeq_bool_eq in B. apply Qeq_bool_neq in A. exfalso. apply A. rewrite E. exact B.
Qed.

Section Ext.
  Variable mid : Q -> Q -> Q.
  Variables m m' : Q * Q -> Q * Q -> Q.
  Hypothesis Hm : forall a b, m a b == m' a b.
  Variable marg : nat -> Q -> Q -> Q.

  Lemma corner1_joint_ext k xs ys p1 p2 :
    match corner1_joint mid m k xs ys p1 p2, corner1_joint mid m' k xs ys p1 p2 with
    | Some (a, b), Some (a', b') => a == a' /\ b == b'
    | None, None => True
    | _, _ => False
    end.
  Proof.
    unfold corner1_joint. cbv zeta.
    rewrite (Qeq_bool_0_proper _ _ (Hm (cell_lo mid xs p1, cell_lo mid ys p2) (cell_hi mid xs p1, cell_hi mid ys p2))).
    destruct (Qeq_bool (m' (cell_lo mid xs p1, cell_lo mid ys p2) (cell_hi mid xs p1, cell_hi mid ys p2)) 0); [exact I|].
    destruct (Nat.eqb k 0); split; rewrite !Hm; reflexivity.
  Qed.

  Lemma prob_to2_joint_ext xs ys p1 p2 t1 t2 :
    prob_to2_joint mid m marg xs ys p1 p2 t1 t2 == prob_to2_joint mid m' marg xs ys p1 p2 t1 t2.
  Proof.
    unfold prob_to2_joint, prob_to2.
    destruct (Nat.even p1); destruct (Nat.even p2).
    - reflexivity.
    - destruct (Nat.eqb p1 t1); [|reflexivity].
      pose proof (corner1_joint_ext 1 xs ys p1 p2) as H.
      destruct (corner1_joint mid m 1 xs ys p1 p2) as [[a b]|]; destruct (corner1_joint mid m' 1 xs ys p1 p2) as [[a' b']|]; try contradiction; [|reflexivity].
      destruct H as [Ha Hb]. destruct (Nat.eqb (p2 - 1) t2); destruct (Nat.eqb (p2 + 1) t2); rewrite ?Ha, ?Hb; reflexivity.
    - destruct (Nat.eqb p2 t2); [|reflexivity].
      pose proof (corner1_joint_ext 0 xs ys p1 p2) as H.
      destruct (corner1_joint mid m 0 xs ys p1 p2) as [[a b]|]; destruct (corner1_joint mid m' 0 xs ys p1 p2) as [[a' b']|]; try contradiction; [|reflexivity].
      destruct H as [Ha Hb]. destruct (Nat.eqb (p1 - 1) t1); destruct (Nat.eqb (p1 + 1) t1); rewrite ?Ha, ?Hb; reflexivity.
    - unfold corner2.
      rewrite (Qeq_bool_0_proper _ _ (Hm (cell_lo mid xs p1, cell_lo mid ys p2) (cell_hi mid xs p1, cell_hi mid ys p2))).
      destruct (Qeq_bool (m' (cell_lo mid xs p1, cell_lo mid ys p2) (cell_hi mid xs p1, cell_hi mid ys p2)) 0); [reflexivity|].
      cbn [map fst snd]. unfold qsum, quarter. cbn [map fold_right].
      destruct (Nat.eqb (step_idx p1 false) t1 && Nat.eqb (step_idx p2 false) t2);
      destruct (Nat.eqb (step_idx p1 false) t1 && Nat.eqb (step_idx p2 true) t2);
      destruct (Nat.eqb (step_idx p1 true) t1 && Nat.eqb (step_idx p2 false) t2);
      destruct (Nat.eqb (step_idx p1 true) t1 && Nat.eqb (step_idx p2 true) t2); rewrite ?Hm; reflexivity.
  Qed.

  (* the coupled inflow is the same for two corner measures that agree (rates from any third function r) *)
  Lemma inflow2_joint_ext (r : Q * Q -> Q * Q -> Q) xs ys o t1 t2 :
    inflow2_gen mid r (prob_to2_joint mid m marg) xs ys o t1 t2 == inflow2_gen mid r (prob_to2_joint mid m' marg) xs ys o t1 t2.
  Proof.
    unfold inflow2_gen. rewrite !qsum_flat_map. apply qsum_map_ext_in. intros p1 _. apply qsum_map_ext_in. intros p2 _.
    rewrite prob_to2_joint_ext. reflexivity.
  Qed.
End Ext.

Section TwoMeasureStatement.
  Variable rate2 : Q * Q -> Q * Q -> Q.      (* fine_process.model.mass: the truncated model; also the coarse chain's rates *)
  Hypothesis rate2_add1 : forall a1 b1 c1 y1 y2, a1 <= b1 -> b1 <= c1 -> avoids (a1, y1) (c1, y2) ->
    rate2 (a1, y1) (c1, y2) == rate2 (a1, y1) (b1, y2) + rate2 (b1, y1) (c1, y2).
  Hypothesis rate2_add2 : forall x1 x2 a2 b2 c2, a2 <= b2 -> b2 <= c2 -> avoids (x1, a2) (x2, c2) ->
    rate2 (x1, a2) (x2, c2) == rate2 (x1, a2) (x2, b2) + rate2 (x1, b2) (x2, c2).
  Hypothesis rate2_pos : forall a b, fst a <= fst b -> snd a <= snd b -> avoids a b -> 0 <= rate2 a b.
  Hypothesis rate2_proper : forall a1 a2 b1 b2 a1' a2' b1' b2', a1 == a1' -> a2 == a2' -> b1 == b1' -> b2 == b2' ->
    rate2 (a1, a2) (b1, b2) == rate2 (a1', a2') (b1', b2').
  Variable cmass2 : Q * Q -> Q * Q -> Q.     (* coupling_process.model.mass: where __coupling_state reads the corner masses *)
  Variable cmarg : nat -> Q -> Q -> Q.       (* its margins: not used by the joint rule (prob_to2_joint ignores them) *)
  (* THE hypothesis that makes the identity true: the corner masses are read from the SAME (truncated) measure as the rates.
     The code does not satisfy it (couplinglevycopula.py:177 reads the un-truncated coupling_process.model) *)
  Hypothesis same_measure : forall a b, cmass2 a b == rate2 a b.

  Theorem telescoping_nd_joint_2m xs ys o h1 h2 : admissible xs o h1 -> admissible ys o h2 -> length xs = length ys ->
    forall j1 j2, (j1 < length xs)%nat -> (j2 < length ys)%nat -> (j1, j2) <> (o, o) ->
      inflow2_joint_2m amid rate2 cmass2 cmarg (refine_axis amid xs) (refine_axis amid ys) (2 * o) (2 * j1) (2 * j2)
      == q_entry2 amid rate2 xs ys o j1 j2.
  Proof.
    intros A1 A2 _ j1 j2 J1 J2 Hne. unfold inflow2_joint_2m, prob_to2_joint_2m.
    rewrite (inflow2_joint_ext amid cmass2 rate2 same_measure cmarg rate2).
    apply (telescoping_nd_joint cmarg rate2 rate2_add1 rate2_add2 rate2_pos rate2_proper xs ys o h1 h2); assumption.
  Qed.
End TwoMeasureStatement.

(* the hypothesis same_measure cannot be dropped: rates from one non-negative table, corner masses from another one of the same total mass *)
Lemma witness_2m_values :
  let '(psr, psc, xs, o) := nd_witness_2m in let xs' := refine_axis amid xs in
  Qred (inflow2_joint_tab psr psc xs' xs' (2 * o) 6 4) = 1 /\ Qred (q_entry2 amid (step_mass2 psr) xs xs o 3 2) = 1 # 4
  /\ Qred (inflow2_joint_tab psr psr xs' xs' (2 * o) 6 4) = 1 # 4
  /\ Qred (q_entry2 amid (step_mass2 psr) xs' xs' (2 * o) 7 5) = 1
  /\ option_map (map (fun c => Qred (snd c))) (corner2 amid (step_mass2 psc) xs' xs' 7 5) = Some [1; 0; 0; 0]
  /\ option_map (map (fun c => Qred (snd c))) (corner2 amid (step_mass2 psr) xs' xs' 7 5) = Some [1 # 4; 1 # 4; 1 # 4; 1 # 4].
Proof. vm_compute. repeat split. Qed.

Theorem telescoping_nd_second_measure_refuted : exists (psr psc : list (Q * Q * Q * Q * Q)) (xs : list Q) (o j1 j2 : nat),
  admissible xs o 1 /\ Forall (fun p => 0 <= snd p) psr /\ Forall (fun p => 0 <= snd p) psc /\ (j1, j2) <> (o, o)
  /\ ~ inflow2_joint_tab psr psc (refine_axis amid xs) (refine_axis amid xs) (2 * o) (2 * j1) (2 * j2) == q_entry2 amid (step_mass2 psr) xs xs o j1 j2
  /\ inflow2_joint_tab psr psr (refine_axis amid xs) (refine_axis amid xs) (2 * o) (2 * j1) (2 * j2) == q_entry2 amid (step_mass2 psr) xs xs o j1 j2.
Proof.
  exists [(5#4, 7#4, 1#4, 3#4, 4)], [(5#4, 3#2, 1#4, 1#2, 16)], [-2; -1; 0; 1; 2], 2%nat, 3%nat, 2%nat.
  split; [vm_compute; repeat split; try discriminate; try reflexivity; lia|].
  split; [repeat constructor; cbn; discriminate|]. split; [repeat constructor; cbn; discriminate|]. split; [discriminate|].
  split; [intro H; apply Qeq_bool_iff in H; vm_compute in H; discriminate|apply Qeq_bool_iff; vm_compute; reflexivity].
Qed.

(* non-vacuity of telescoping_nd_joint_2m (hypotheses satisfiable with cmass2 == rate2 but not syntactically equal) + the witness values *)
Lemma two_measures_nonvacuous :
  let rate2 := fun a b : Q * Q => (fst b - fst a) * (snd b - snd a) in
  let cmass2 := fun a b : Q * Q => (snd b - snd a) * (fst b - fst a) in
  let xs := [-2; -1; 0; 1; 2] in let xs' := refine_axis amid xs in
  (forall a1 b1 c1 y1 y2, a1 <= b1 -> b1 <= c1 -> avoids (a1, y1) (c1, y2) -> rate2 (a1, y1) (c1, y2) == rate2 (a1, y1) (b1, y2) + rate2 (b1, y1) (c1, y2))
  /\ (forall x1 x2 a2 b2 c2, a2 <= b2 -> b2 <= c2 -> avoids (x1, a2) (x2, c2) -> rate2 (x1, a2) (x2, c2) == rate2 (x1, a2) (x2, b2) + rate2 (x1, b2) (x2, c2))
  /\ (forall a b, fst a <= fst b -> snd a <= snd b -> avoids a b -> 0 <= rate2 a b)
  /\ (forall a1 a2 b1 b2 a1' a2' b1' b2', a1 == a1' -> a2 == a2' -> b1 == b1' -> b2 == b2' -> rate2 (a1, a2) (b1, b2) == rate2 (a1', a2') (b1', b2'))
  /\ (forall a b, cmass2 a b == rate2 a b)
  /\ admissible xs 2 1 /\ length xs = length xs
  /\ Qeq_bool (inflow2_joint_2m amid rate2 cmass2 (fun _ _ _ => 0) xs' xs' 4 6 4) (q_entry2 amid rate2 xs xs 2 3 2) = true
  /\ (let '(psr, psc, ws, o) := nd_witness_2m in let ws' := refine_axis amid ws in
      Qred (inflow2_joint_tab psr psc ws' ws' (2 * o) 6 4) = 1 /\ Qred (q_entry2 amid (step_mass2 psr) ws ws o 3 2) = 1 # 4
      /\ option_map (map (fun c => Qred (snd c))) (corner2 amid (step_mass2 psc) ws' ws' 7 5) = Some [1; 0; 0; 0]
      /\ option_map (map (fun c => Qred (snd c))) (corner2 amid (step_mass2 psr) ws' ws' 7 5) = Some [1 # 4; 1 # 4; 1 # 4; 1 # 4]).
Proof.
  cbv zeta. split; [intros; cbn [fst snd]; ring|]. split; [intros; cbn [fst snd]; ring|].
  split; [intros a b H1 H2 _; apply Qmult_le_0_compat; lra|].
  split; [intros a1 a2 b1 b2 a1' a2' b1' b2' E1 E2 E3 E4; cbn [fst snd]; rewrite E1, E2, E3, E4; reflexivity|].
  split; [intros a b; ring|]. split; [vm_compute; repeat split; try discriminate; try reflexivity; lia|].
  split; [reflexivity|]. split; [vm_compute; reflexivity|vm_compute; repeat split].
Qed.

(* C04 (wave 5) -- proofs about Model/CopulaDiffusion.v: the unpacking loop of MCLevyCopulaSimulation.__init__ builds the
   symmetric matrix of the pool's outputs (loop invariant), the margin loop zeroes the finite-variation rows/columns, hence every
   entry of variance_matrix in closed form; composed with the 1-d chain's sig_h2 (Model/Drift.v). *)
From Coq Require Import ZArith QArith Qabs List Bool Lia Lqa Arith.
From RV Require Import Base.QB Model.Grid Gen.GenC01Trunc Gen.GenC04Triplet Model.Chain Model.Drift Model.CopulaDiffusion Proofs.C13_Grid Proofs.C01_Chain Proofs.C04_Drift.
Import ListNotations.
Open Scope Q_scope.
Lemma fill_row_spec i f : forall js rest M,
  fst (fill_row i js (map f js ++ rest) M) = rest
  /\ forall r c, snd (fill_row i js (map f js ++ rest) M) r c
       = if Nat.eqb r i && memb c js then f c else if Nat.eqb c i && memb r js then f r else M r c.
Proof.
  induction js as [|j js IH]; intros rest M.
  - simpl. split; [reflexivity|]. intros r c. rewrite !andb_false_r. reflexivity.
  - cbn [map app fill_row]. destruct (IH rest (upd (upd M i j (f j)) j i (f j))) as [E1 E2]. split; [exact E1|].
    intros r c. rewrite E2. unfold upd, memb. cbn [existsb].
    destruct (Nat.eqb_spec r i), (Nat.eqb_spec c i), (Nat.eqb_spec c j), (Nat.eqb_spec r j); subst;
      cbn [andb orb]; try reflexivity; try congruence;
      repeat match goal with |- context [existsb ?p ?l] => destruct (existsb p l) end; cbn [andb orb]; try reflexivity;
      rewrite ?Nat.eqb_refl; try reflexivity; try congruence.
Qed.

Lemma memb_seq x s n : memb x (seq s n) = Nat.leb s x && Nat.ltb x (s + n).
Proof.
  unfold memb. destruct (existsb (Nat.eqb x) (seq s n)) eqn:E.
  - apply existsb_exists in E. destruct E as (y & Hy & Hxy). apply Nat.eqb_eq in Hxy. subst y. apply in_seq in Hy.
    symmetry. apply andb_true_iff. split; [apply Nat.leb_le|apply Nat.ltb_lt]; lia.
  - symmetry. apply andb_false_iff. destruct (Nat.leb_spec s x); [|left; reflexivity]. right. apply Nat.ltb_ge.
    destruct (Nat.lt_ge_cases x (s + n)) as [L|G]; [|exact G]. exfalso.
    assert (existsb (Nat.eqb x) (seq s n) = true); [|congruence].
    apply existsb_exists. exists x. split; [apply in_seq; lia|apply Nat.eqb_refl].
Qed.


Lemma fill_spec vadj d : forall n s M, (s + n = d)%nat ->
  forall r c, fill d (seq s n) (flat_map (fun i => map (vadj i) (seq i (d - i))) (seq s n)) M r c
    = if Nat.leb s r && Nat.leb s c && Nat.ltb r d && Nat.ltb c d then sym_entry vadj r c else M r c.
Proof.
  induction n as [|n IH]; intros s M Hs r c.
  - simpl. assert (s = d) by lia. subst s.
    destruct (Nat.leb_spec d r), (Nat.ltb_spec r d); cbn [andb]; try reflexivity; try lia.
    rewrite ?andb_false_r. reflexivity.
  - cbn [seq flat_map fill].
    destruct (fill_row_spec s (vadj s) (seq s (d - s)) (flat_map (fun i => map (vadj i) (seq i (d - i))) (seq (S s) n)) M) as [E1 E2].
    destruct (fill_row s (seq s (d - s)) _ M) as [outs' M'] eqn:EF. cbn [fst snd] in E1, E2. subst outs'.
    rewrite (IH (S s) M' ltac:(lia)). rewrite E2, !memb_seq. replace (s + (d - s))%nat with d by lia.
    unfold sym_entry.
    destruct (Nat.leb_spec (S s) r), (Nat.leb_spec (S s) c), (Nat.leb_spec s r), (Nat.leb_spec s c), (Nat.ltb_spec r d), (Nat.ltb_spec c d),
      (Nat.eqb_spec r s), (Nat.eqb_spec c s), (Nat.leb_spec r c); cbn [andb]; try reflexivity; try lia; subst; try reflexivity; try lia.
Qed.

Lemma zero_fv_spec : forall flags i M r c,
  zero_fv flags i M r c = if (Nat.leb i r && nth (r - i) flags false) || (Nat.leb i c && nth (c - i) flags false) then 0 else M r c.
Proof.
  induction flags as [|f fl IH]; intros i M r c.
  - cbn [zero_fv]. destruct (r - i)%nat, (c - i)%nat; cbn [nth]; rewrite !andb_false_r; reflexivity.
  - cbn [zero_fv]. rewrite IH.
    destruct (Nat.leb_spec (S i) r), (Nat.leb_spec (S i) c), (Nat.leb_spec i r), (Nat.leb_spec i c); try lia; cbn [andb orb];
      try replace (r - i)%nat with (S (r - S i)) by lia; try replace (c - i)%nat with (S (c - S i)) by lia;
      try (replace (r - i)%nat with 0%nat by lia); try (replace (c - i)%nat with 0%nat by lia); cbn [nth];
      destruct f; unfold zero_cross;
      try (replace (Nat.eqb r i) with false by (symmetry; apply Nat.eqb_neq; lia));
      try (replace (Nat.eqb c i) with false by (symmetry; apply Nat.eqb_neq; lia));
      try (replace (Nat.eqb r i) with true by (symmetry; apply Nat.eqb_eq; lia));
      try (replace (Nat.eqb c i) with true by (symmetry; apply Nat.eqb_eq; lia));
      cbn [andb orb];
      repeat match goal with |- context [nth ?k fl false] => destruct (nth k fl false) end; cbn [andb orb]; reflexivity.
Qed.

(* every entry of variance_matrix: sigma_r^2 on the diagonal, plus the pool's (symmetrised) output for the pair unless the JOINT
   flag says finite variation or one of the two margins has jumps of finite variation *)
Theorem copula_variance_matrix_entries d joint flags sig2 vadj r c : (r < d)%nat -> (c < d)%nat ->
  copula_variance_matrix d joint flags sig2 vadj r c
  = (if joint || nth r flags false || nth c flags false then 0 else sym_entry vadj r c) + (if Nat.eqb r c then nth r sig2 0 else 0).
Proof.
  intros Hr Hc. unfold copula_variance_matrix, copula_variance_matrix_outs, pool_outputs. rewrite zero_fv_spec.
  cbn [Nat.leb andb]. rewrite !Nat.sub_0_r. f_equal.
  destruct joint; cbn [negb orb].
  - destruct (nth r flags false || nth c flags false); reflexivity.
  - rewrite (fill_spec vadj d d 0 zeros eq_refl). cbn [Nat.leb andb].
    destruct (Nat.ltb_spec r d), (Nat.ltb_spec c d); try lia. cbn [andb]. reflexivity.
Qed.

Theorem copula_variance_matrix_symmetric d joint flags sig2 vadj r c : (r < d)%nat -> (c < d)%nat ->
  copula_variance_matrix d joint flags sig2 vadj r c = copula_variance_matrix d joint flags sig2 vadj c r.
Proof.
  intros Hr Hc. rewrite !copula_variance_matrix_entries by assumption. unfold sym_entry.
  rewrite (orb_comm (joint || nth r flags false)), orb_assoc, (orb_comm (nth c flags false)).
  destruct (Nat.eqb_spec r c) as [->|N].
  - rewrite Nat.eqb_refl. reflexivity.
  - replace (Nat.eqb c r) with false by (symmetry; apply Nat.eqb_neq; congruence).
    destruct (Nat.leb_spec r c), (Nat.leb_spec c r); try lia; reflexivity.
Qed.

(* composition with the 1-d chain: if the pool's diagonal output for margin k is that margin's second moment over the central
   cell (what vol_adjustment_ij(k,k) integrates: 2/h^(d-1) int |s_k| nu([s_k, h/2] x cell) ds = int_cell x^2 nu_k by Fubini; checked
   numerically by the correspondence) and the joint flag is "all margins of finite variation" (repaired code), then the diagonal
   of variance_matrix is the sig_h2 of the 1-d chain of EVERY margin, and an off-diagonal entry vanishes as soon as one of the two
   margins has jumps of finite variation *)
Theorem copula_diagonal_is_margin_chain (d : nat) (flags : list bool) (sigmas : list Q) (m2s : nat -> Q -> Q -> Q) (ls rs : nat -> Q) (h : Q) vadj :
  length flags = d ->
  (forall k, (k < d)%nat -> nth k flags false = false -> vadj k k == vol_adj2 (tmass (m2s k) (ls k) (rs k)) false h) ->
  forall k, (k < d)%nat ->
  copula_variance_matrix d (copula_joint_fv_all flags) flags (map (fun s => s * s) sigmas) vadj k k
  == sig_h2 (tmass (m2s k) (ls k) (rs k)) (nth k sigmas 0) (nth k flags false) h.
Proof.
  intros Hl Hv k Hk. rewrite copula_variance_matrix_entries by assumption. rewrite Nat.eqb_refl.
  replace (nth k (map (fun s => s * s) sigmas) 0) with (nth k sigmas 0 * nth k sigmas 0)
    by (change 0 with ((fun s => s * s) 0) at 3; rewrite map_nth; reflexivity).
  unfold sig_h2, sym_entry. rewrite Nat.leb_refl.
  destruct (nth k flags false) eqn:F.
  - rewrite !orb_true_r. unfold vol_adj2. lra.
  - rewrite !orb_false_r.
    assert (J : copula_joint_fv_all flags = false).
    { unfold copula_joint_fv_all. destruct (forallb (fun f => f) flags) eqn:A; [|reflexivity].
      rewrite forallb_forall in A. assert (In (nth k flags false) flags) by (apply nth_In; lia). rewrite F in H. apply A in H. discriminate H. }
    rewrite J. rewrite (Hv k Hk F). lra.
Qed.
Theorem copula_cross_term_zero d joint flags sig2 vadj r c : (r < d)%nat -> (c < d)%nat -> r <> c ->
  nth r flags false = true \/ nth c flags false = true \/ joint = true ->
  copula_variance_matrix d joint flags sig2 vadj r c = 0 + 0.
Proof.
  intros Hr Hc N H. rewrite copula_variance_matrix_entries by assumption.
  replace (Nat.eqb r c) with false by (symmetry; apply Nat.eqb_neq; exact N).
  destruct H as [-> | [-> | ->]]; rewrite ?orb_true_r; reflexivity.
Qed.

(* the current code (joint flag = all margins of finite variation): the joint flag drops out of the entry formula, because a true
   joint flag makes every margin flag true *)
Lemma joint_all_nth flags k : (k < length flags)%nat -> copula_joint_fv_all flags = true -> nth k flags false = true.
Proof.
  intros Hk A. unfold copula_joint_fv_all in A. rewrite forallb_forall in A. apply A. apply nth_In. exact Hk.
Qed.
Theorem copula_variance_matrix_cur_entries d flags sig2 vadj r c : length flags = d -> (r < d)%nat -> (c < d)%nat ->
  copula_variance_matrix_cur d flags sig2 vadj r c
  = (if nth r flags false || nth c flags false then 0 else sym_entry vadj r c) + (if Nat.eqb r c then nth r sig2 0 else 0).
Proof.
  intros Hl Hr Hc. unfold copula_variance_matrix_cur. rewrite copula_variance_matrix_entries by assumption.
  destruct (copula_joint_fv_all flags) eqn:J; [|reflexivity].
  rewrite (joint_all_nth flags r) by (try exact J; lia). reflexivity.
Qed.

(* ================= wave 8 (audit 5a, B6): the diagonal against the 1-d chain WITHOUT the hypothesis =================
   BOOKKEEPING (algebra on copula_variance_matrix_entries): for a margin of infinite variation the diagonal entry of the copula
   chain's variance matrix is the 1-d chain's sigma_h^2 MINUS the amount by which vol_adjustment_ij(k,k) falls short of the
   margin's central-cell second moment.  The content is in what that amount is on /repo: see tab2_strip_gap / F-C04-6. *)
Theorem copula_diagonal_gap (d : nat) (flags : list bool) (sigmas : list Q) (m2t : nat -> Q -> Q -> Q) (h : Q) vadj :
  length flags = d -> forall k, (k < d)%nat -> nth k flags false = false ->
  copula_variance_matrix_cur d flags (map (fun s => s * s) sigmas) vadj k k
  == sig_h2 (m2t k) (nth k sigmas 0) false h - (vol_adj2 (m2t k) false h - vadj k k).
Proof.
  intros Hl k Hk F. rewrite copula_variance_matrix_cur_entries by assumption. rewrite Nat.eqb_refl, F. cbn [orb].
  replace (nth k (map (fun s => s * s) sigmas) 0) with (nth k sigmas 0 * nth k sigmas 0)
    by (change 0 with ((fun s => s * s) 0) at 3; rewrite map_nth; reflexivity).
  unfold sig_h2, sym_entry. rewrite Nat.leb_refl. lra.
Qed.

(* the witness of F-C04-6: density 1 on [0,1]^2 and on [-1,0]^2, h = 1/2, sigma = (1/2, 1/4), both margins flagged infinite variation *)
Definition strip_witness : table2 := [(0, 1, 0, 1, 1); (-(1), 0, -(1), 0, 1)].
Lemma strip_witness_values :
  Qeq_bool (copula_variance_matrix_cur 2 [false; false] (map (fun s => s * s) [1#2; 1#4]) (tab2_vadj strip_witness (1#2)) 0%nat 0%nat) ((1#4) + (1#384)) = true
  /\ Qeq_bool (sig_h2 (tmass (tab2_margin_m2 strip_witness 1 0%nat) (-(1)) 1) (1#2) false (1#2)) ((1#4) + (1#96)) = true
  /\ Qeq_bool (copula_variance_matrix_cur 2 [false; false] (map (fun s => s * s) [1#2; 1#4]) (tab2_vadj strip_witness (1#2)) 1%nat 1%nat) ((1#16) + (1#384)) = true
  /\ Qeq_bool (sig_h2 (tmass (tab2_margin_m2 strip_witness 1 1%nat) (-(1)) 1) (1#4) false (1#2)) ((1#16) + (1#96)) = true
  /\ Qeq_bool (tab2_strip_gap strip_witness 1 (1#2) 0%nat) (1#128) = true.
Proof. vm_compute. repeat split. Qed.
(* REFUTED: "the diagonal of the copula chain's variance matrix is the sigma_h^2 of the 1-d chain of each margin" -- with vadj = what
   vol_adjustment_ij integrates (the central cube, tied to /repo by the correspondence group copulastrip) the copula chain's margin
   is strictly under-dispersed *)
Theorem copula_margin_variance_is_1d_chain_refuted :
  exists (t : table2) (h big : Q) (sigmas : list Q) (k : nat),
    0 < h /\ (k < 2)%nat
    /\ copula_variance_matrix_cur 2 [false; false] (map (fun s => s * s) sigmas) (tab2_vadj t h) k k
       < sig_h2 (tmass (tab2_margin_m2 t big k) (- big) big) (nth k sigmas 0) false h
    /\ 0 < tab2_strip_gap t big h k.
Proof.
  exists strip_witness, (1#2), 1, [1#2; 1#4], 0%nat. repeat split; try (vm_compute; reflexivity). lia.
Qed.

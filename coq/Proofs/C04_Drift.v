(* C04 -- proofs about Model/Drift.v: compute_mu_h is the rate-weighted sum of the states; drift compensation reproduces
   the mean in all four Levy-Khintchine representations and both variation flags; variance added only for infinite variation. *)
From Coq Require Import ZArith QArith Qabs List Bool Lia Lqa.
From RV Require Import Base.QB Model.Grid Gen.GenC01Trunc Gen.GenC04Triplet Model.Chain Model.Drift Proofs.C13_Grid Proofs.C01_Chain.
Import ListNotations.
Open Scope Q_scope.

Section MuH.
  Variable mid : Q -> Q -> Q.
  Variable mass : Q -> Q -> Q.

  (* invariant of the loop: on entering position p the running mid_point_left is the left end of p's cell *)
  Lemma mu_h_loop_inv xs o : (o + 1 < length xs)%nat -> forall m p mu, (p + m = length xs)%nat ->
    mu_h_loop mid mass xs o (seq p m) mu (cell_lo mid xs p)
    == mu + qsum (map (fun k => nthq xs k * q_entry mid mass xs o k) (seq p m)).
  Proof.
    intros Ho. induction m as [|m IH]; intros p mu Hp.
    - simpl. unfold qsum. simpl. lra.
    - cbn [seq mu_h_loop map]. unfold qsum. cbn [fold_right].
      fold (qsum (map (fun k => nthq xs k * q_entry mid mass xs o k) (seq (S p) m))).
      unfold q_entry at 1. destruct (Nat.eqb_spec p o) as [E|E].
      + subst p. replace (mid (left_point xs (o + 1)) (nthq xs (o + 1))) with (cell_lo mid xs (S o))
          by (unfold cell_lo; replace (S o) with (o + 1)%nat by lia; reflexivity).
        rewrite IH by lia. lra.
      + destruct m as [|m'].
        * simpl. unfold qsum. simpl. fold (cell_hi mid xs p). lra.
        * fold (cell_hi mid xs p). rewrite (cell_share mid xs p) by lia.
          replace (p + 1)%nat with (S p) by lia. rewrite IH by lia. lra.
  Qed.

  Theorem mu_h_is_sum xs o : (o + 1 < length xs)%nat ->
    compute_mu_h mid mass xs o == mean_of_rates mid mass xs o.
  Proof.
    intros Ho. unfold compute_mu_h, mean_of_rates.
    change (mid (left_point xs 0) (nthq xs 0)) with (cell_lo mid xs 0).
    rewrite mu_h_loop_inv by (try exact Ho; lia). lra.
  Qed.
End MuH.

Section Mean.
  Variable m1 : Q -> Q -> Q.       (* int x nu(dx) of the untruncated measure: additive, signed *)
  Hypothesis m1_add : forall a b c, a <= b -> b <= c -> m1 a c == m1 a b + m1 b c.
  Hypothesis m1_proper : forall a a' b b', a == a' -> b == b' -> m1 a b == m1 a' b'.
  Variables l r pinf err : Q.
  Hypothesis l_le_r : l <= r.
  Hypothesis pinf_ge_1 : 1 <= pinf.
  Hypothesis pinf_left : - pinf <= l.       (* np.inf lies beyond the truncation bounds *)
  Hypothesis pinf_right : r <= pinf.

  Let m1t := tmass m1 l r.

  (* the truncated first moment over the whole line is the first moment over [l, r] *)
  Lemma m1t_all : m1t (- pinf) pinf == m1 l r.
  Proof.
    unfold m1t, tmass, truncated_interval. cbv beta iota zeta. apply m1_proper; qcases; lra.
  Qed.

  Lemma m1t_add a b c : a <= b -> b <= c -> m1t a c == m1t a b + m1t b c.
  Proof. intros. unfold m1t. apply tmass_add; assumption. Qed.
  Lemma m1t_proper a a' b b' : a == a' -> b == b' -> m1t a b == m1t a' b'.
  Proof. intros. unfold m1t. apply tmass_proper; assumption. Qed.

  Lemma split3 : m1t (- pinf) pinf == m1t (- pinf) (- (1)) + m1t (- (1)) 1 + m1t 1 pinf.
  Proof.
    rewrite (m1t_add (- pinf) (- (1)) pinf) by lra. rewrite (m1t_add (- (1)) 1 pinf) by lra. lra.
  Qed.
  Lemma split2 : m1t (- pinf) pinf == m1t (- pinf) (- 0) + m1t 0 pinf.
  Proof.
    rewrite (m1t_add (- pinf) 0 pinf) by lra.
    rewrite (m1t_proper (- pinf) (- pinf) (- 0) 0) by lra. lra.
  Qed.

  (* the ZERO representation is only defined for jumps of finite variation (the conversions raise otherwise) *)
  Definition valid_rep (fv : bool) (rep : Z) : Prop := fv = true \/ rep <> 1%Z.

  Theorem mean_identity_core rep fv a : (rep = 1 \/ rep = 2 \/ rep = 3 \/ rep = 4)%Z -> valid_rep fv rep ->
    a_tilde m1t pinf err rep fv a + mu_tilde m1t pinf fv == mean_rate m1t pinf rep fv a.
  Proof.
    pose proof split3 as S3. pose proof split2 as S2.
    assert (Em : m1t (-1 # 1) (1 # 1) == m1t (- (1)) 1) by (apply m1t_proper; reflexivity).
    assert (En : m1t (- pinf) (-1 # 1) == m1t (- pinf) (- (1))) by (apply m1t_proper; reflexivity).
    intros [-> | [-> | [-> | ->]]] [V|V]; try discriminate V; try (exfalso; apply V; reflexivity); destruct fv; try discriminate V;
      unfold a_tilde, mu_tilde, mean_rate, tilde_drift, canonical_drift, v_cut; cbn [Z.eqb Pos.eqb negb orb andb];
      cbv zeta; lra.
  Qed.

  (* outside the guard the generated conversions return the error value (the code raises ValueError) *)
  Theorem zero_infinite_variation_is_error a :
    canonical_drift m1t pinf err 1 false a = err /\ tilde_drift m1t pinf err 1 false a == err
    /\ a_tilde m1t pinf err 1 false a == err /\ (forall rep, zero_drift m1t pinf err rep false a = err).
  Proof.
    unfold a_tilde, tilde_drift, zero_drift, canonical_drift; cbn [Z.eqb Pos.eqb negb orb andb]; cbv zeta.
    repeat split; try reflexivity; lra.
  Qed.

  (* the first cumulant in terms of the measure restricted to [l, r] *)
  Theorem mean_rate_explicit fv a :
    mean_rate m1t pinf 1 fv a == a + m1 l r /\ mean_rate m1t pinf 2 fv a == a
    /\ mean_rate m1t pinf 4 true a == a + m1 l r
    /\ mean_rate m1t pinf 3 fv a == a + m1 l r - m1t (- (1)) 1.
  Proof.
    pose proof split3 as S3. pose proof m1t_all as MA.
    unfold mean_rate; cbn [Z.eqb Pos.eqb]; cbv zeta. repeat split; lra.
  Qed.

  (* representation invariance: each of the four conversions of LevyTriplet (generated from the source) maps the drift of
     ANY declared representation to the drift of its target representation WITHOUT changing the first cumulant; so the
     chain's mean does not depend on the representation the model happens to be declared in *)
  Theorem conversions_preserve_mean rep fv a : (rep = 1 \/ rep = 2 \/ rep = 3 \/ rep = 4)%Z -> valid_rep fv rep ->
    mean_rate m1t pinf 3 fv (canonical_drift m1t pinf err rep fv a) == mean_rate m1t pinf rep fv a
    /\ (fv = true -> mean_rate m1t pinf 1 fv (zero_drift m1t pinf err rep fv a) == mean_rate m1t pinf rep fv a)
    /\ mean_rate m1t pinf 2 fv (center_drift m1t pinf err rep fv a) == mean_rate m1t pinf rep fv a
    /\ mean_rate m1t pinf 4 fv (tilde_drift m1t pinf err rep fv a) == mean_rate m1t pinf rep fv a.
  Proof.
    pose proof split3 as S3.
    assert (Em : m1t (-1 # 1) (1 # 1) == m1t (- (1)) 1) by (apply m1t_proper; reflexivity).
    assert (En : m1t (- pinf) (-1 # 1) == m1t (- pinf) (- (1))) by (apply m1t_proper; reflexivity).
    intros [-> | [-> | [-> | ->]]] [V|V]; try discriminate V; try (exfalso; apply V; reflexivity); destruct fv; try discriminate V;
      unfold mean_rate, tilde_drift, zero_drift, center_drift, canonical_drift; cbn [Z.eqb Pos.eqb negb orb andb];
      cbv zeta; repeat split; try (intros D; discriminate D); intros; lra.
  Qed.

  (* the unrepaired copula chain cut mu_tilde at the JOINT flag: for a finite-variation margin in an infinite-variation
     copula model the mean is off by exactly - int_{-1}^{1} x nu(dx) of that margin (and by + that amount the other way) *)
  Theorem joint_flag_bias mid mass xs o md rep a : (o + 1 < length xs)%nat -> (rep = 2 \/ rep = 3 \/ rep = 4)%Z ->
    process_drift_v m1t pinf err md rep true false a (compute_mu_h mid mass xs o) + mean_of_rates mid mass xs o
    == md + mean_rate m1t pinf rep true a - m1t (- (1)) 1
    /\ process_drift_v m1t pinf err md rep false true a (compute_mu_h mid mass xs o) + mean_of_rates mid mass xs o
    == md + mean_rate m1t pinf rep false a + m1t (- (1)) 1.
  Proof.
    intros Ho Hr. unfold process_drift_v. rewrite (mu_h_is_sum mid mass xs o Ho).
    assert (Hr4 : (rep = 1 \/ rep = 2 \/ rep = 3 \/ rep = 4)%Z) by tauto.
    assert (Hn1 : rep <> 1%Z) by (destruct Hr as [-> | [-> | ->]]; discriminate).
    pose proof (mean_identity_core rep true a Hr4 (or_introl eq_refl)) as T.
    pose proof (mean_identity_core rep false a Hr4 (or_intror Hn1)) as F.
    pose proof split3 as S3. pose proof split2 as S2.
    unfold mu_tilde, v_cut in *. split; lra.
  Qed.

  (* with the identity mu_h == sum_k x_k q_k this is the statement about the simulated process *)
  Theorem mean_identity mid mass xs o md rep fv a :
    (o + 1 < length xs)%nat -> (rep = 1 \/ rep = 2 \/ rep = 3 \/ rep = 4)%Z -> valid_rep fv rep ->
    process_drift m1t pinf err md rep fv a (compute_mu_h mid mass xs o) + mean_of_rates mid mass xs o
    == md + mean_rate m1t pinf rep fv a
    /\ (rep = 1%Z -> mean_rate m1t pinf rep fv a == a + m1 l r) /\ (rep = 2%Z -> mean_rate m1t pinf rep fv a == a)
    /\ (rep = 4%Z -> fv = true -> mean_rate m1t pinf rep fv a == a + m1 l r)
    /\ m1t (- pinf) pinf == m1 l r.
  Proof.
    intros Ho Hr Hv. destruct (mean_rate_explicit fv a) as (E1 & E2 & E4 & _). split; [|split; [|split; [|split]]].
    - unfold process_drift. rewrite (mu_h_is_sum mid mass xs o Ho). pose proof (mean_identity_core rep fv a Hr Hv). lra.
    - intros ->. exact E1.
    - intros ->. exact E2.
    - intros -> ->. exact E4.
    - apply m1t_all.
  Qed.
End Mean.

(* infinite variation: the compensated representations CENTER / ONEONE / TILDE only ever integrate x nu over the two tails
   |x| >= 1; the identity needs NO hypothesis on m1 there (in particular nothing about intervals containing the origin,
   where int |x| nu is infinite) *)
Section MeanInfiniteVariation.
  Variable m1t : Q -> Q -> Q.
  Variables pinf err : Q.
  Theorem mean_identity_core_iv rep a : (rep = 2 \/ rep = 3 \/ rep = 4)%Z ->
    a_tilde m1t pinf err rep false a + mu_tilde m1t pinf false == mean_rate m1t pinf rep false a.
  Proof.
    intros [-> | [-> | ->]];
      unfold a_tilde, mu_tilde, mean_rate, tilde_drift, canonical_drift, v_cut; cbn [Z.eqb Pos.eqb negb orb andb];
      cbv zeta; change (- (1)) with (-1 # 1); change 1 with (1 # 1); lra.
  Qed.
  Theorem mean_identity_iv mid mass xs o md rep a : (o + 1 < length xs)%nat -> (rep = 2 \/ rep = 3 \/ rep = 4)%Z ->
    process_drift m1t pinf err md rep false a (compute_mu_h mid mass xs o) + mean_of_rates mid mass xs o
    == md + mean_rate m1t pinf rep false a.
  Proof.
    intros Ho Hr. unfold process_drift. rewrite (mu_h_is_sum mid mass xs o Ho).
    pose proof (mean_identity_core_iv rep a Hr). lra.
  Qed.
End MeanInfiniteVariation.

(* every margin of the (repaired) copula chain satisfies the mean identity with its OWN flag, representation and axis *)
Definition cm_ok (m : cmargin) : Prop :=
  (* a margin of finite variation: int x nu is additive on all intervals; a margin of infinite variation: NO hypothesis on
     the first-moment integral, but its representation must be compensated (CENTER / ONEONE / TILDE) *)
  (cm_fv m = true -> (forall a b c, a <= b -> b <= c -> cm_m1 m a c == cm_m1 m a b + cm_m1 m b c)
                     /\ (forall a a' b b', a == a' -> b == b' -> cm_m1 m a b == cm_m1 m a' b'))
  /\ (cm_fv m = false -> cm_rep m <> 1%Z)
  (* the truncation bounds are the end points of the margin's own axis, np.inf lies beyond them *)
  /\ cm_l m = headq (cm_xs m) /\ cm_r m = lastq (cm_xs m) /\ cm_l m <= cm_r m
  /\ 1 <= cm_pinf m /\ - cm_pinf m <= cm_l m /\ cm_r m <= cm_pinf m
  /\ (cm_o m + 1 < length (cm_xs m))%nat /\ (cm_rep m = 1 \/ cm_rep m = 2 \/ cm_rep m = 3 \/ cm_rep m = 4)%Z.
Theorem copula_margins_mean mid ms : Forall cm_ok ms ->
  Forall (fun m => cm_drift mid m + mean_of_rates mid (cm_mass m) (cm_xs m) (cm_o m)
                   == cm_md m + mean_rate (cm_m1t m) (cm_pinf m) (cm_rep m) (cm_fv m) (cm_a m)
                   /\ (cm_fv m = true -> cm_m1t m (- cm_pinf m) (cm_pinf m) == cm_m1 m (headq (cm_xs m)) (lastq (cm_xs m)))) ms.
Proof.
  intros H. apply Forall_impl with (2 := H). intros m (Afv & Aiv & EL & ER & LR & P1 & PL & PR & Ho & Hr).
  unfold cm_drift, process_drift_v, cm_m1t. destruct (cm_fv m) eqn:F.
  - destruct (Afv eq_refl) as (A & P).
    destruct (mean_identity (cm_m1 m) A P (cm_l m) (cm_r m) (cm_pinf m) (cm_err m) LR P1 PL PR mid (cm_mass m) (cm_xs m) (cm_o m)
                (cm_md m) (cm_rep m) true (cm_a m) Ho Hr (or_introl eq_refl)) as (E & _ & _ & _ & EA).
    unfold process_drift in E. split; [exact E|]. intros _. rewrite <- EL, <- ER. exact EA.
  - assert (Hr3 : (cm_rep m = 2 \/ cm_rep m = 3 \/ cm_rep m = 4)%Z) by (specialize (Aiv eq_refl); destruct Hr as [E|R]; [contradiction|exact R]).
    pose proof (mean_identity_iv (tmass (cm_m1 m) (cm_l m) (cm_r m)) (cm_pinf m) (cm_err m) mid (cm_mass m) (cm_xs m) (cm_o m)
                  (cm_md m) (cm_rep m) (cm_a m) Ho Hr3) as E.
    unfold process_drift in E. split; [exact E|]. intros D; discriminate D.
Qed.

Section Variance.
  Variable m2 : Q -> Q -> Q.       (* int x^2 nu(dx): additive, non-negative *)
  Hypothesis m2_pos : forall a b, a <= b -> 0 <= m2 a b.
  Hypothesis m2_proper : forall a a' b b', a == a' -> b == b' -> m2 a b == m2 a' b'.
  Variables l r : Q.
  Hypothesis l_le_r : l <= r.
  Let m2t := tmass m2 l r.

  Theorem variance_added sigma fv h : 0 < h ->
    (fv = true -> sig_h2 m2t sigma fv h == sigma * sigma)
    /\ (fv = false -> sig_h2 m2t sigma fv h == sigma * sigma + m2t (Qmaxb (- h / 2) (- (1))) (Qminb (h / 2) 1))
    /\ (fv = false -> h <= 2 -> sig_h2 m2t sigma fv h == sigma * sigma + m2t (- (h / 2)) (h / 2))
    /\ sigma * sigma <= sig_h2 m2t sigma fv h.
  Proof.
    intros Hh. unfold sig_h2, vol_adj2.
    assert (Hd : 0 < h / 2) by (apply Qlt_shift_div_l; lra).
    assert (Hn : - h / 2 == - (h / 2)) by field.
    split; [|split; [|split]].
    - intros ->. lra.
    - intros ->. lra.
    - intros -> H2. assert (h / 2 <= 1) by (apply Qle_shift_div_r; lra).
      assert (E : m2t (Qmaxb (- h / 2) (- (1))) (Qminb (h / 2) 1) == m2t (- (h / 2)) (h / 2)).
      { unfold m2t. apply tmass_proper; try assumption; qcases; lra. }
      rewrite E. lra.
    - destruct fv; [lra|].
      assert (0 <= m2t (Qmaxb (- h / 2) (- (1))) (Qminb (h / 2) 1)); [|lra].
      unfold m2t. apply tmass_pos; try assumption. qcases; lra.
  Qed.
End Variance.

Lemma piece_m1_add a b c p : a <= b -> b <= c -> piece_m1 a c p == piece_m1 a b p + piece_m1 b c p.
Proof.
  destruct p as [[lo hi] d]. intros H1 H2. unfold piece_m1. qcases; try (field_simplify; lra); eqs5 a b c lo hi; try lra; field.
Qed.
Lemma piece_m1_proper a a' b b' p : a == a' -> b == b' -> piece_m1 a b p == piece_m1 a' b' p.
Proof.
  destruct p as [[lo hi] d]. intros E1 E2. unfold piece_m1. qcases; try lra;
    try_eq a a'; try_eq b b'; try lra; eqs5 a' b' a' lo hi; try lra; try reflexivity; field.
Qed.
Theorem step_m1_add ps a b c : a <= b -> b <= c -> step_m1 ps a c == step_m1 ps a b + step_m1 ps b c.
Proof.
  intros H1 H2. unfold step_m1, qsum. induction ps as [|p r IH]; simpl; [lra|].
  rewrite IH, (piece_m1_add a b c p H1 H2). lra.
Qed.
Theorem step_m1_proper ps a a' b b' : a == a' -> b == b' -> step_m1 ps a b == step_m1 ps a' b'.
Proof.
  intros E1 E2. unfold step_m1, qsum. induction ps as [|p r IH]; simpl; [lra|].
  rewrite IH, (piece_m1_proper a a' b b' p E1 E2). lra.
Qed.

(* ---------- variance: the rate-weighted second moment of the states against the second moment of the measure *)
Lemma qsum_map_le {A} (f g : A -> Q) l : (forall x, In x l -> f x <= g x) -> qsum (map f l) <= qsum (map g l).
Proof.
  unfold qsum. induction l as [|x r IH]; intros H; simpl; [lra|].
  assert (f x <= g x) by (apply H; left; reflexivity).
  assert (fold_right Qplus 0 (map f r) <= fold_right Qplus 0 (map g r)) by (apply IH; intros y Hy; apply H; right; exact Hy). lra.
Qed.
Lemma qsum_map_minus {A} (f g : A -> Q) l : qsum (map (fun x => f x - g x) l) == qsum (map f l) - qsum (map g l).
Proof. unfold qsum. induction l as [|x r IH]; simpl; [lra|]. rewrite IH. lra. Qed.

Lemma qsum_map_opp {A} (f : A -> Q) l : qsum (map (fun x => - f x) l) == - qsum (map f l).
Proof. unfold qsum. induction l as [|x r IH]; simpl; [lra|]. rewrite IH. lra. Qed.

Section VarianceGap.
  Variable mid : Q -> Q -> Q.
  Hypothesis mid_between : forall x y, x < y -> x < mid x y /\ mid x y < y.
  Hypothesis mid_refl : forall x, ~ x == 0 -> mid x x == x.
  Hypothesis mid_proper : forall x x' y y', x == x' -> y == y' -> mid x y == mid x' y'.
  Variables mass m2 : Q -> Q -> Q.      (* nu and x^2 nu on intervals *)
  Hypothesis mass_pos : forall a b, a <= b -> (b < 0 \/ 0 < a) -> 0 <= mass a b.
  Hypothesis m2_add : forall a b c, a <= b -> b <= c -> (c < 0 \/ 0 < a) -> m2 a c == m2 a b + m2 b c.
  Hypothesis m2_proper : forall a a' b b', a == a' -> b == b' -> m2 a b == m2 a' b'.
  Variable xs : list Q.
  Variables (o : nat) (h : Q).
  Hypothesis Hadm : admissible xs o h.
  (* per-cell bounds of x^2: inf2 k <= x^2 <= sup2 k on the cell of state k; hence (C09: x^2 nu >= 0 pointwise)
     inf2 k * q_k <= int_cell x^2 nu <= sup2 k * q_k *)
  Variables inf2 sup2 : nat -> Q.
  Hypothesis state_in_bounds : forall k, (k < length xs)%nat -> k <> o -> inf2 k <= nthq xs k * nthq xs k <= sup2 k.
  Hypothesis cell_moment_bounds : forall k, (k < length xs)%nat -> k <> o ->
    inf2 k * mass (cell_lo mid xs k) (cell_hi mid xs k) <= m2 (cell_lo mid xs k) (cell_hi mid xs k)
    <= sup2 k * mass (cell_lo mid xs k) (cell_hi mid xs k).

  Definition osc_sum : Q := qsum (map (fun k => (sup2 k - inf2 k) * q_entry mid mass xs o k) (seq 0 (length xs))).

  Theorem variance_gap :
    let outside := m2 (headq xs) (h_left mid xs o) + m2 (h_right mid xs o) (lastq xs) in
    - osc_sum <= second_moment_of_rates mid mass xs o - outside <= osc_sum.
  Proof.
    cbv zeta.
    assert (T : qsum (q_vector mid m2 xs o) == intensity1 mid m2 xs o).
    { apply (sum_rates_is_intensity_1d mid mid_between mid_refl mid_proper m2 m2_add m2_proper xs o h Hadm). }
    unfold intensity1 in T.
    assert (E : m2 (headq xs) (h_left mid xs o) + m2 (h_right mid xs o) (lastq xs) == qsum (q_vector mid m2 xs o)) by (rewrite T; lra).
    rewrite E. unfold q_vector, second_moment_of_rates, osc_sum.
    rewrite <- qsum_map_minus.
    pose proof (admissible_ends xs o h Hadm) as He. destruct Hadm as (Hi & H1 & H2 & _ & H0 & _).
    assert (P : forall k, In k (seq 0 (length xs)) ->
              - ((sup2 k - inf2 k) * q_entry mid mass xs o k)
              <= nthq xs k * nthq xs k * q_entry mid mass xs o k - q_entry mid m2 xs o k
              <= (sup2 k - inf2 k) * q_entry mid mass xs o k).
    { intros k Hk. apply in_seq in Hk. unfold q_entry. destruct (Nat.eqb_spec k o) as [->|Hne]; [lra|].
      destruct (state_in_bounds k ltac:(lia) Hne) as [S1 S2]. destruct (cell_moment_bounds k ltac:(lia) Hne) as [C1 C2].
      assert (Qn : 0 <= mass (cell_lo mid xs k) (cell_hi mid xs k)).
      { destruct (cell_side mid mid_between mid_refl xs o Hi He H1 H2 H0 k ltac:(lia)) as [A B].
        apply mass_pos; [apply (cell_lo_hi mid mid_between mid_refl); try assumption; lia|].
        destruct (Nat.lt_ge_cases k o); [left; apply A; assumption|right; apply B; lia]. }
      set (q := mass (cell_lo mid xs k) (cell_hi mid xs k)) in *. set (x2 := nthq xs k * nthq xs k) in *.
      set (c := m2 (cell_lo mid xs k) (cell_hi mid xs k)) in *. split; nra. }
    split.
    - rewrite <- qsum_map_opp. apply qsum_map_le. intros k Hk. destruct (P k Hk). lra.
    - apply qsum_map_le. intros k Hk. destruct (P k Hk). lra.
  Qed.
End VarianceGap.

(* every margin of the (repaired) copula chain: what is added to sigma_k^2 is nothing (finite variation) or the margin's second
   moment over the central cell (infinite variation, h <= 2) *)
Definition cv_ok (m : (Q -> Q -> Q) * Q * Q * Q * bool) : Prop :=
  let '(m2, l, r, sigma, fv) := m in
  (forall a b, a <= b -> 0 <= m2 a b) /\ (forall a a' b b', a == a' -> b == b' -> m2 a b == m2 a' b') /\ l <= r.
Theorem copula_variance_added h ms : 0 < h -> h <= 2 -> Forall cv_ok ms ->
  Forall (fun m => let '(m2, l, r, sigma, fv) := m in
            sig_h2 (tmass m2 l r) sigma fv h == sigma * sigma + (if fv then 0 else tmass m2 l r (- (h / 2)) (h / 2))
            /\ sigma * sigma <= sig_h2 (tmass m2 l r) sigma fv h) ms.
Proof.
  intros Hh H2 H. apply Forall_impl with (2 := H). intros [[[[m2 l] r] sigma] fv] (P & R & LR).
  destruct (variance_added m2 P R l r LR sigma fv h Hh) as (V1 & V2 & V3 & V4).
  split; [|exact V4]. destruct fv; [rewrite (V1 eq_refl); lra|rewrite (V3 eq_refl H2); reflexivity].
Qed.

(* C05 (wave 7) -- (1) an exception raised by a simulation in the middle of a pass (Model/MlmcVec.v gloop_f): for ALL fault
   points, oracles, initial levels / sample sizes and fuels, either the fault point is never reached and the run IS the
   uninterrupted run, or the exception leaves Engine.price and the state the engine object still exposes is described
   exactly (levels before the fault finished the pass, the interrupted level holds fi more simulated rows than its N_l says,
   the later levels still hold their zero placeholders); on every level the first N_l rows are exactly the N_l samples.
   (2) the map_async callback (Model/MlmcVec.v merge / lookup): for ANY order and chunking of the (iteration, row) pairs that
   covers every iteration index once, the arrays after the callback are those of the single-process loop. *)
From Coq Require Import List ZArith QArith Bool Lia Permutation Arith.
From RV Require Import Base.QB Model.McStats Model.Mlmc Model.MlmcVec Proofs.C05_Mlmc Proofs.C05_Vec.
Import ListNotations.
Open Scope Q_scope.

Lemma all_ix_impl_ge {T} (P R : nat -> T -> Prop) (l0 : nat) : (forall k v, (l0 <= k)%nat -> P k v -> R k v) ->
  forall vs l, (l0 <= l)%nat -> all_ix P l vs -> all_ix R l vs.
Proof. intros H vs. induction vs as [|v r IH]; simpl; intros l Hl; [trivial|]. intros [H1 H2]. split; [auto|]. apply IH; [lia|exact H2]. Qed.

Section GFaultProofs.
  Context {A B C : Type}.
  Variable rowof : nat -> nat -> A.
  Variable coef : nat -> list A -> C.
  Variable adj : nat -> C -> A -> B.
  Variable zA : A.
  Variable zB : B.
  Variable cost : nat -> nat -> Q.
  Variable alloc : nat -> list Z.
  Variable conv : nat -> bool.
  Variable garbA : nat -> nat -> A.
  Variable garbB : nat -> nat -> B.
  Variable level_max : nat.
  Variables fp fl fi : nat.

  Notation gloop0 := (gloop rowof coef adj zA zB cost alloc conv level_max).
  Notation gloopf := (gloop_f rowof coef adj zA zB cost alloc conv level_max fp fl fi).
  Notation done := (glev_done rowof coef adj).
  Notation head := (glev_head rowof coef adj).
  Notation smp := (gsamples rowof).

  (* the interrupted level: fi rows of the pass are written, the process has simulated them, N_l does not count them yet *)
  Definition glev_mid (l : nat) (v : glev A B) : Prop :=
    gcnt v = (gN v + fi)%nat /\ (fi < gdN v)%nat /\
    exists P, grows v = smp l (gN v + fi) ++ P /\ length P = (gdN v - fi)%nat.

  Definition exposed_at (l : nat) (v : glev A B) : Prop :=
    if Nat.ltb l fl then done l v else if Nat.eqb l fl then glev_mid l v else head l v.

  Lemma gdraw_app l : forall k a b1 b2 start c, length a = start -> length b1 = k ->
    gdraw rowof l start c k (a ++ b1 ++ b2) = a ++ map (rowof l) (seq c k) ++ b2.
  Proof. induction k as [|k IH]; intros a b1 b2 start c Ha Hb.
    - destruct b1; [|discriminate]. reflexivity.
    - destruct b1 as [|x b1]; [discriminate|]. simpl gdraw. rewrite <- Ha. simpl app. rewrite set_nth_app.
      change (a ++ rowof l c :: b1 ++ b2) with (a ++ [rowof l c] ++ b1 ++ b2). rewrite app_assoc.
      rewrite (IH (a ++ [rowof l c]) b1 b2 (S (length a)) (S c)).
      + rewrite <- app_assoc. reflexivity.
      + rewrite app_length. simpl. lia.
      + simpl in Hb. lia. Qed.

  Lemma gdraw_partial l k a b start c : length a = start -> (k <= length b)%nat ->
    exists P, gdraw rowof l start c k (a ++ b) = a ++ map (rowof l) (seq c k) ++ P /\ length P = (length b - k)%nat.
  Proof. intros Ha Hk. exists (skipn k b). split; [|now rewrite skipn_length].
    rewrite <- (firstn_skipn k b) at 1. apply gdraw_app; [exact Ha|]. rewrite firstn_length. lia. Qed.

  Lemma gpartial_mid l v : head l v -> (fi < gdN v)%nat -> glev_mid l (gpartial_level rowof l fi v).
  Proof. intros [Hc [[P [Hr Hp]] _]] Hlt. unfold glev_mid, gpartial_level; cbn [gcnt gN gdN grows].
    split; [lia|]. split; [exact Hlt|].
    destruct (gdraw_partial l fi (smp l (gN v)) P (gN v) (gcnt v)) as [P' [E HP']]; [apply gsamples_length|lia|].
    exists P'. rewrite Hr, E, Hc, gsamples_add, <- app_assoc. split; [reflexivity|lia]. Qed.

  Lemma grun_levels_f_spec vs : forall l, all_ix head l vs ->
    match grun_levels_f rowof coef adj cost fl fi l vs with
    | (vs', true) => (l <= fl)%nat /\ all_ix exposed_at l vs'
    | (vs', false) => vs' = grun_levels rowof coef adj cost l vs
    end.
  Proof. induction vs as [|v r IH]; intros l H; [reflexivity|]. destruct H as [H1 H2]. cbn [grun_levels_f].
    destruct (Nat.eqb l fl && Nat.ltb fi (gdN v))%bool eqn:E.
    - apply andb_true_iff in E. destruct E as [E1 E2]. apply Nat.eqb_eq in E1. apply Nat.ltb_lt in E2. subst l.
      split; [lia|]. split.
      + unfold exposed_at. rewrite Nat.ltb_irrefl, Nat.eqb_refl. now apply gpartial_mid.
      + apply (all_ix_impl_ge head exposed_at (S fl)); [|lia|exact H2]. intros k w Hk Hw. unfold exposed_at.
        destruct (Nat.ltb_spec k fl); [lia|]. destruct (Nat.eqb_spec k fl); [lia|]. exact Hw.
    - specialize (IH (S l) H2). destruct (grun_levels_f rowof coef adj cost fl fi (S l) r) as [r' [|]].
      + destruct IH as [Hl Hr]. split; [lia|]. split; [|exact Hr]. unfold exposed_at.
        destruct (Nat.ltb_spec l fl); [|lia]. now apply grun_level_done.
      + simpl. now rewrite IH. Qed.

  (* MAIN: for every fault point (pass fp, level fl, iteration fi) *)
  Theorem gloop_f_spec : forall fuel pass s, all_ix head 0 (glevels s) ->
    match gloopf pass fuel s with
    | AReturn o => o = gloop0 fuel s
    | ARaised e => all_ix exposed_at 0 (glevels e)
    end.
  Proof. induction fuel as [|f IH]; intros pass s Hs; [reflexivity|]. cbn [gloop_f gloop].
    destruct (Nat.eqb (gtotal_dN (glevels s)) 0); [reflexivity|].
    pose proof (grun_levels_done rowof coef adj cost _ _ Hs) as Hd.
    assert (Hcont : forall vs, vs = grun_levels rowof coef adj cost 0 (glevels s) ->
      match (let vs1 := gset_dN (alloc (gnalloc s)) 0 vs in
             if gwithin_one_pct vs1 then
               if (conv (gnconv s) || Nat.eqb (length vs1 - 1) level_max)%bool
               then AReturn (Converged (mkGS vs1 (S (gnalloc s)) (S (gnconv s))))
               else gloopf (S pass) f (mkGS (map (gext_level zA zB) (gset_dN (alloc (S (gnalloc s))) 0 (vs1 ++ [gnew_level])))
                                            (S (S (gnalloc s))) (S (gnconv s)))
             else gloopf (S pass) f (mkGS (map (gext_level zA zB) vs1) (S (gnalloc s)) (gnconv s))) with
      | AReturn o => o = (let vs := grun_levels rowof coef adj cost 0 (glevels s) in
                          let vs1 := gset_dN (alloc (gnalloc s)) 0 vs in
                          if gwithin_one_pct vs1 then
                            if (conv (gnconv s) || Nat.eqb (length vs1 - 1) level_max)%bool
                            then Converged (mkGS vs1 (S (gnalloc s)) (S (gnconv s)))
                            else gloop0 f (mkGS (map (gext_level zA zB) (gset_dN (alloc (S (gnalloc s))) 0 (vs1 ++ [gnew_level])))
                                                (S (S (gnalloc s))) (S (gnconv s)))
                          else gloop0 f (mkGS (map (gext_level zA zB) vs1) (S (gnalloc s)) (gnconv s)))
      | ARaised e => all_ix exposed_at 0 (glevels e)
      end).
    { intros vs ->. cbv zeta.
      pose proof (gset_dN_done rowof coef adj (alloc (gnalloc s)) _ _ Hd) as Hd1.
      destruct (gwithin_one_pct _).
      - destruct (conv (gnconv s) || _)%bool; [reflexivity|].
        apply IH. simpl. apply (all_ix_map done head); [apply gext_level_head|].
        apply gset_dN_done. apply all_ix_app. split; [exact Hd1|]. simpl. split; [apply gnew_level_done|exact I].
      - apply IH. simpl. apply (all_ix_map done head); [apply gext_level_head|]. exact Hd1. }
    destruct (Nat.eqb pass fp).
    - pose proof (grun_levels_f_spec _ _ Hs) as Hf.
      destruct (grun_levels_f rowof coef adj cost fl fi 0 (glevels s)) as [vs [|]].
      + simpl. exact (proj2 Hf).
      + apply Hcont. exact Hf.
    - apply Hcont. reflexivity. Qed.

  (* what a reader of the exposed arrays may rely on: the counter N_l and the first N_l rows agree with the simulated samples
     on EVERY level, and the process of the level has simulated at least those; a level whose array is longer than N_l (the
     interrupted one and every later level with dNl > 0) holds rows that N_l does not count -- reporting them would count
     placeholders, which is why the engine must not (and, as modelled, does not) return anything *)
  Lemma exposed_prefix l v : exposed_at l v -> (gN v <= gcnt v)%nat /\ exists P, grows v = smp l (gN v) ++ P.
  Proof. unfold exposed_at. destruct (Nat.ltb l fl); [|destruct (Nat.eqb l fl)].
    - intros [Hc [Hr _]]. split; [lia|]. exists []. now rewrite app_nil_r.
    - intros [Hc [_ [P [Hr _]]]]. split; [lia|]. exists (map (rowof l) (seq (gN v) fi) ++ P). now rewrite Hr, gsamples_add, <- app_assoc.
    - intros [Hc [[P [Hr _]] _]]. split; [lia|]. now exists P. Qed.

  Theorem abort_spec fuel L0 N0 :
    match gprice_run_f rowof coef adj zA zB cost alloc conv garbA garbB level_max fp fl fi fuel L0 N0 with
    | AReturn o => o = gprice_run rowof coef adj zA zB cost alloc conv garbA garbB level_max fuel L0 N0
    | ARaised e => all_ix exposed_at 0 (glevels e)
                   /\ all_ix (fun l v => (gN v <= gcnt v)%nat /\ exists P, grows v = smp l (gN v) ++ P) 0 (glevels e)
    end.
  Proof. unfold gprice_run_f, gprice_run. pose proof (gloop_f_spec fuel 0 (ginit_state garbA garbB L0 N0)) as H.
    specialize (H (ginit_levels_head rowof coef adj garbA garbB N0 (S L0) 0%nat)).
    destruct (gloopf 0 fuel _); [exact H|]. split; [exact H|]. eapply all_ix_impl; [|exact H]. apply exposed_prefix. Qed.
End GFaultProofs.

(* ==================================================================== the map_async callback *)
Section Merge.
  Context {A : Type}.

  Lemma set_nth_length (i : nat) (v : A) s : length (set_nth i v s) = length s.
  Proof. revert i. induction s as [|x s IH]; intros [|i]; simpl; auto. Qed.
  Lemma nth_set_nth (i j : nat) (v d : A) s : (i < length s)%nat ->
    nth j (set_nth i v s) d = if Nat.eqb i j then v else nth j s d.
  Proof. revert i j. induction s as [|x s IH]; intros i j H; [simpl in H; lia|].
    destruct i as [|i], j as [|j]; simpl; try reflexivity. apply IH. simpl in H. lia. Qed.
  Lemma merge_length start (res : list (nat * A)) : forall s, length (merge start res s) = length s.
  Proof. induction res as [|[it v] r IH]; intros s; simpl; [reflexivity|]. now rewrite IH, set_nth_length. Qed.

  (* several callback invocations (chunks) = one invocation on their concatenation *)
  Lemma merge_app start (r1 r2 : list (nat * A)) s : merge start (r1 ++ r2) s = merge start r2 (merge start r1 s).
  Proof. revert s. induction r1 as [|[it v] r IH]; intros s; simpl; [reflexivity|]. apply IH. Qed.
  Lemma merge_chunks start (chunks : list (list (nat * A))) s :
    fold_left (fun s c => merge start c s) chunks s = merge start (concat chunks) s.
  Proof. revert s. induction chunks as [|c r IH]; intros s; simpl; [reflexivity|]. now rewrite IH, merge_app. Qed.

  (* pointwise: every row outside the written indices is untouched, every written index holds the row handed with it *)
  Lemma merge_nth start (res : list (nat * A)) d : NoDup (map fst res) -> forall s j,
    (forall it, In it (map fst res) -> (start + it < length s)%nat) ->
    nth j (merge start res s) d =
      if (Nat.leb start j && existsb (Nat.eqb (j - start)) (map fst res))%bool then lookup d (j - start) res else nth j s d.
  Proof. induction res as [|[it v] r IH]; intros ND s j Hb; simpl.
    - now rewrite andb_false_r.
    - simpl in ND. apply NoDup_cons_iff in ND. destruct ND as [Hni ND']. rewrite (IH ND').
      2:{ intros it' Hi. rewrite set_nth_length. apply Hb. simpl. now right. }
      assert (Hit : (start + it < length s)%nat) by (apply Hb; simpl; now left).
      rewrite nth_set_nth by exact Hit.
      destruct (Nat.leb_spec start j) as [Hle|Hlt]; simpl.
      + destruct (Nat.eqb_spec (j - start) it) as [E|NE].
        * simpl. rewrite <- E at 2. rewrite Nat.eqb_refl. rewrite <- E.
          replace (start + (j - start))%nat with j by lia. rewrite Nat.eqb_refl.
          destruct (existsb (Nat.eqb (j - start)) (map fst r)) eqn:Ex; [|reflexivity].
          exfalso. apply Hni. apply existsb_exists in Ex. destruct Ex as [x [Hx Hx']]. apply Nat.eqb_eq in Hx'. now rewrite <- E, Hx'.
        * simpl. destruct (Nat.eqb_spec it (j - start)); [congruence|].
          destruct (existsb _ _); [reflexivity|]. destruct (Nat.eqb_spec (start + it) j); [lia|reflexivity].
      + destruct (Nat.eqb_spec (start + it) j); [lia|reflexivity]. Qed.

  (* MAIN: `res` = the (iteration index, row) pairs of one pass in ANY order (and by merge_chunks cut into ANY chunks), every
     iteration index 0..k-1 present once: the array after the callback holds, behind the `start` rows of the earlier passes,
     the row handed with iteration i at position start + i -- nothing dropped, duplicated, overwritten; no zero row left *)
  Theorem merge_spec start k (res : list (nat * A)) (a b : list A) d :
    Permutation (map fst res) (seq 0 k) -> length a = start -> length b = k ->
    merge start res (a ++ b) = a ++ map (fun i => lookup d i res) (seq 0 k).
  Proof. intros HP Ha Hb.
    assert (ND : NoDup (map fst res)) by (apply (Permutation_NoDup (Permutation_sym HP)), seq_NoDup).
    assert (Hin : forall it, In it (map fst res) <-> (it < k)%nat).
    { intros it. split; intros H.
      - apply (Permutation_in _ HP) in H. apply in_seq in H. lia.
      - apply (Permutation_in _ (Permutation_sym HP)). apply in_seq. lia. }
    apply (nth_ext _ _ d d).
    - rewrite merge_length, !app_length, map_length, seq_length. lia.
    - intros j Hj. rewrite merge_length, app_length in Hj.
      rewrite (merge_nth start res d ND).
      2:{ intros it Hi. apply Hin in Hi. rewrite app_length. lia. }
      destruct (Nat.leb_spec start j) as [Hle|Hlt]; simpl.
      + assert (Ex : existsb (Nat.eqb (j - start)) (map fst res) = true).
        { apply existsb_exists. exists (j - start)%nat. split; [apply Hin; lia|apply Nat.eqb_refl]. }
        rewrite Ex. rewrite app_nth2 by lia. rewrite Ha.
        rewrite (nth_indep _ d (lookup d 0%nat res)) by (rewrite map_length, seq_length; lia).
        rewrite (map_nth (fun i => lookup d i res) (seq 0 k) 0%nat). rewrite seq_nth by lia. reflexivity.
      + rewrite !app_nth1 by lia. reflexivity. Qed.

  (* hence the callback IS the single-process loop (gdraw) that stores at iteration i the row the pool handed with index i *)
  Corollary merge_is_gdraw l start c k (res : list (nat * A)) (a b : list A) d :
    Permutation (map fst res) (seq 0 k) -> length a = start -> length b = k ->
    merge start res (a ++ b) = gdraw (fun _ n => lookup d (n - c) res) l start c k (a ++ b).
  Proof. intros HP Ha Hb. rewrite (merge_spec start k res a b d HP Ha Hb).
    rewrite (gdraw_spec (fun _ n => lookup d (n - c) res) l k a b start c Ha Hb). f_equal.
    change c with (0 + c)%nat at 2. generalize 0%nat as o. clear. induction k as [|k IH]; intros o; [reflexivity|].
    simpl. f_equal; [f_equal; lia|]. apply (IH (S o)). Qed.
End Merge.

(* C05 -- proofs about the multilevel engine state machine of Model/Mlmc.v:
   for ALL oracles (samples, costs, allocation answers, convergence answers, np.empty garbage),
   all initial levels / sample sizes / maximum levels and all fuels. *)
From Coq Require Import List ZArith QArith Qabs Qminmax Bool Lia Setoid Morphisms.
From RV Require Import Base.QB Model.McStats Model.Mlmc Proofs.C07_StatsLemmas.
Import ListNotations.
Open Scope Q_scope.

(* ------------------------------------------------------------------ containers *)
Lemma set_nth_app {A} (v : A) (a : list A) b (r : list A) :
  set_nth (length a) v (a ++ b :: r) = a ++ v :: r.
Proof. induction a as [|x a IH]; simpl; [reflexivity|]. now rewrite IH. Qed.

Lemma extend_exact {A} (z : A) n (s : list A) d : length s = n -> extend z (n + d) s = s ++ repeat z d.
Proof. intros H. unfold extend. rewrite H. replace (n + d - n)%nat with d by lia. reflexivity. Qed.

(* indexed Forall over the levels *)
Fixpoint all_lev (P : nat -> lev -> Prop) (l : nat) (vs : list lev) : Prop :=
  match vs with
  | [] => True
  | v :: r => P l v /\ all_lev P (S l) r
  end.

Lemma all_lev_impl (P Q : nat -> lev -> Prop) : (forall l v, P l v -> Q l v) ->
  forall vs l, all_lev P l vs -> all_lev Q l vs.
Proof. intros H vs. induction vs as [|v r IH]; simpl; intros l; [trivial|]. intros [H1 H2]. split; auto. Qed.

Lemma all_lev_app P vs ws : forall l, all_lev P l (vs ++ ws) <-> all_lev P l vs /\ all_lev P (l + length vs) ws.
Proof. induction vs as [|v r IH]; simpl; intros l.
  - rewrite Nat.add_0_r. tauto.
  - rewrite IH. replace (S l + length r)%nat with (l + S (length r))%nat by lia. tauto. Qed.

Lemma all_lev_map (P Q : nat -> lev -> Prop) (f : lev -> lev) : (forall l v, P l v -> Q l (f v)) ->
  forall vs l, all_lev P l vs -> all_lev Q l (map f vs).
Proof. intros H vs. induction vs as [|v r IH]; simpl; intros l; [trivial|]. intros [H1 H2]. split; auto. Qed.

Lemma Qmaxb_comp a b b' : b == b' -> Qmaxb a b == Qmaxb a b'.
Proof. intros E. unfold Qmaxb. destruct (Qle_bool a b) eqn:E1, (Qle_bool a b') eqn:E2; try reflexivity; try exact E.
  - apply Qle_bool_iff in E1. rewrite E in E1. apply Qle_bool_iff in E1. congruence.
  - apply Qle_bool_iff in E2. rewrite <- E in E2. apply Qle_bool_iff in E2. congruence. Qed.

Section Inv.
  Variable sample : nat -> nat -> Q * Q.
  Variable cost : nat -> nat -> Q.
  Variable alloc : nat -> list Z.
  Variable conv : nat -> bool.
  Variable garbage : nat -> nat -> row.
  Variables df notional : Q.
  Variable level_max : nat.

  Notation mk := (mk_row df notional).
  Notation loop0 := (loop sample cost alloc conv df notional level_max 0).

  (* the rows level l must hold once n paths have been simulated: exactly the simulated samples, in order *)
  Definition samples_of (l n : nat) : list row := map (fun i => mk l (sample l i)) (seq 0 n).

  Lemma samples_of_length l n : length (samples_of l n) = n.
  Proof. unfold samples_of. now rewrite map_length, seq_length. Qed.

  Lemma samples_of_add l n d :
    samples_of l (n + d) = samples_of l n ++ map (fun i => mk l (sample l i)) (seq n d).
  Proof. unfold samples_of. now rewrite seq_app, map_app. Qed.

  (* after its pass (and at return): the level holds exactly its N samples *)
  Definition lev_done (l : nat) (v : lev) : Prop := lcnt v = lN v /\ lrows v = samples_of l (lN v).
  (* at the head of the while loop: N samples followed by dN rows still to be written (garbage or zero padding) *)
  Definition lev_head (l : nat) (v : lev) : Prop :=
    lcnt v = lN v /\ exists B, lrows v = samples_of l (lN v) ++ B /\ length B = ldN v.

  Lemma draw_spec l : forall d a b start c, length a = start -> length b = d ->
    draw sample df notional l start c d (a ++ b) = a ++ map (fun i => mk l (sample l i)) (seq c d).
  Proof. induction d as [|d IH]; intros a b start c Ha Hb.
    - destruct b; [|discriminate]. reflexivity.
    - destruct b as [|x b]; [discriminate|]. simpl draw. rewrite <- Ha, set_nth_app.
      change (a ++ mk l (sample l c) :: b) with (a ++ [mk l (sample l c)] ++ b). rewrite app_assoc.
      rewrite (IH (a ++ [mk l (sample l c)]) b (S (length a)) (S c)).
      + rewrite <- app_assoc. reflexivity.
      + rewrite app_length. simpl. lia.
      + simpl in Hb. lia. Qed.

  Lemma run_level_done l v : lev_head l v -> lev_done l (run_level sample cost df notional l v).
  Proof. intros [Hc [B [Hr Hb]]]. unfold lev_done, run_level; simpl. split; [lia|].
    rewrite Hr, Hc. rewrite (draw_spec l (ldN v) _ B (lN v) (lN v)); auto using samples_of_length.
    now rewrite samples_of_add. Qed.

  Lemma run_levels_done vs : forall l, all_lev lev_head l vs -> all_lev lev_done l (run_levels sample cost df notional l vs).
  Proof. induction vs as [|v r IH]; simpl; intros l; [trivial|]. intros [H1 H2]. split; auto using run_level_done. Qed.

  Lemma set_dN_done Ns vs : forall l, all_lev lev_done l vs -> all_lev lev_done l (set_dN Ns l vs).
  Proof. induction vs as [|v r IH]; simpl; intros l; [trivial|]. intros [H1 H2]. split; auto. Qed.

  Lemma ext_level_head l v : lev_done l v -> lev_head l (ext_level v).
  Proof. intros [Hc Hr]. unfold lev_head, ext_level; simpl. split; [exact Hc|].
    exists (repeat zero_row (ldN v)). split; [|apply repeat_length].
    rewrite Hr. apply extend_exact. apply samples_of_length. Qed.

  Lemma new_level_done l : lev_done l (new_level 0).
  Proof. split; reflexivity. Qed.

  Lemma total_dN_zero vs : total_dN vs = O -> Forall (fun v => ldN v = O) vs.
  Proof. induction vs as [|v r IH]; simpl; intros H; constructor; [lia|apply IH; lia]. Qed.

  Lemma head_no_demand_done vs : forall l, Forall (fun v => ldN v = O) vs -> all_lev lev_head l vs -> all_lev lev_done l vs.
  Proof. induction vs as [|v r IH]; simpl; intros l HF; [trivial|]. inversion HF as [|? ? Hz HF']; subst. intros [[Hc [B [Hr Hb]]] Hrest].
    split; [|auto]. split; [exact Hc|]. destruct B; [|simpl in Hb; lia]. now rewrite app_nil_r in Hr. Qed.

  Definition final_ok (o : outcome state) : Prop :=
    match o with
    | Converged s | Fallthrough s => all_lev lev_done 0 (levels s)
    | OutOfFuel => True
    end.

  (* the loop invariant *)
  Theorem loop_rows_are_samples : forall fuel s, all_lev lev_head 0 (levels s) -> final_ok (loop0 fuel s).
  Proof. induction fuel as [|f IH]; intros s Hs; simpl; [exact I|].
    destruct (Nat.eqb (total_dN (levels s)) 0) eqn:E0.
    - simpl. apply Nat.eqb_eq in E0. apply head_no_demand_done; auto using total_dN_zero.
    - pose proof (run_levels_done _ _ Hs) as Hd.
      pose proof (set_dN_done (alloc (nalloc s)) _ _ Hd) as Hd1.
      destruct (within_one_pct _) eqn:E1.
      + destruct (conv (nconv s) || _)%bool eqn:E2.
        * simpl. exact Hd1.
        * apply IH. simpl. apply (all_lev_map lev_done lev_head); [apply ext_level_head|].
          apply set_dN_done. apply all_lev_app. split; [exact Hd1|]. simpl. split; [apply new_level_done|exact I].
      + apply IH. simpl. apply (all_lev_map lev_done lev_head); [apply ext_level_head|]. exact Hd1. Qed.

  Lemma init_levels_head N0 : forall n l, all_lev lev_head l (map (init_level garbage N0) (seq l n)).
  Proof. induction n as [|n IH]; intros l; simpl; [exact I|]. split; [|apply IH].
    split; [reflexivity|]. exists (map (garbage l) (seq 0 N0)). simpl. split; [reflexivity|].
    now rewrite map_length, seq_length. Qed.

  Lemma init_head L0 N0 : all_lev lev_head 0 (levels (init_state garbage L0 N0)).
  Proof. apply init_levels_head. Qed.

  Theorem rows_are_samples fuel L0 N0 : final_ok (price_run sample cost alloc conv garbage df notional level_max 0 fuel L0 N0).
  Proof. apply loop_rows_are_samples, init_head. Qed.

  (* ---------------------------------------------------------------- price = sum of the per-level means *)
  Definition level_mean_diff (l n : nat) : Q :=
    mean (map (fun i => fst (mk l (sample l i)) - snd (mk l (sample l i))) (seq 0 n)).
  Fixpoint sum_level_means (l : nat) (vs : list lev) : Q :=
    match vs with
    | [] => 0
    | v :: r => level_mean_diff l (lN v) + sum_level_means (S l) r
    end.

  Lemma Qsum_sub (r : list row) : Qsum (map fst r) - Qsum (map snd r) == Qsum (map (fun p => fst p - snd p) r).
  Proof. induction r as [|x r IH]; simpl; [ring|]. rewrite <- IH. ring. Qed.

  Lemma mean_sub (r : list row) : mean (map fst r) - mean (map snd r) == mean (map (fun p => fst p - snd p) r).
  Proof. rewrite !mean_spec, !qlen_map, <- Qsum_sub. unfold Qdiv. ring. Qed.

  Lemma price_done vs : forall l, all_lev lev_done l vs -> mlmc_price vs == sum_level_means l vs.
  Proof. unfold mlmc_price. induction vs as [|v r IH]; simpl; intros l; [reflexivity|]. intros [[_ Hr] H2].
    rewrite (IH _ H2). unfold fines, coarses. rewrite mean_sub, Hr. unfold samples_of, level_mean_diff.
    rewrite map_map. reflexivity. Qed.

  Lemma coarse_zero_level0 x : snd (mk 0%nat x) == 0.
  Proof. simpl. ring. Qed.

  Theorem price_is_sum_of_means fuel L0 N0 s :
    (price_run sample cost alloc conv garbage df notional level_max 0 fuel L0 N0 = Converged s \/
     price_run sample cost alloc conv garbage df notional level_max 0 fuel L0 N0 = Fallthrough s) ->
    mlmc_price (levels s) == sum_level_means 0 (levels s).
  Proof. intros H. pose proof (rows_are_samples fuel L0 N0) as F. destruct H as [H|H]; rewrite H in F; apply price_done, F. Qed.

  Theorem price_is_sum_of_means_full fuel L0 N0 s :
    (price_run sample cost alloc conv garbage df notional level_max 0 fuel L0 N0 = Converged s \/
     price_run sample cost alloc conv garbage df notional level_max 0 fuel L0 N0 = Fallthrough s) ->
    mlmc_price (levels s) == sum_level_means 0 (levels s) /\ forall x, snd (mk 0%nat x) == 0.
  Proof. intros H. split; [eapply price_is_sum_of_means; eassumption|apply coarse_zero_level0]. Qed.

  (* ---------------------------------------------------------------- results are functions of the same rows *)
  Definition kurt_textbook (d : list Q) : Q :=
    (raw4 d - 4 * raw3 d * mean d + 6 * raw2 d * sq (mean d) - 3 * fourth (mean d)) / sq (Qmaxb 1 (raw2 d - sq (mean d))).

  (* where no path was simulated numpy reports nan: every clause is stated for 0 < N_l only *)
  Definition results_ok (l : nat) (v : lev) : Prop :=
    let R := samples_of l (lN v) in
    let D := map (fun r : row => fst r - snd r) R in
    let F := map (fst (B:=Q)) R in
    lrows v = R /\
    ((0 < lN v)%nat ->
       res_ml v == Qabs (mean D) /\ res_mean_level v == mean F /\
       res_vl v == Qmaxb 0 (raw2 D - sq (mean D)) /\
       res_var_level v == raw2 F - sq (mean F) /\
       res_kurtosis v == kurt_textbook D).

  Lemma done_results l v : lev_done l v -> results_ok l v.
  Proof. intros [_ Hr]. unfold results_ok. split; [exact Hr|].
    unfold res_ml, res_mean_level, res_vl, res_var_level, res_kurtosis, dps, fines. rewrite Hr.
    intros Hpos.
    split; [reflexivity|]. split; [reflexivity|].
    set (R := samples_of l (lN v)).
    assert (HD : map (fun r : row => fst r - snd r) R <> []).
    { intro E. apply (f_equal (@length Q)) in E. rewrite map_length in E. unfold R in E. rewrite samples_of_length in E. simpl in E. lia. }
    assert (HF : map (fst (B:=Q)) R <> []).
    { intro E. apply (f_equal (@length Q)) in E. rewrite map_length in E. unfold R in E. rewrite samples_of_length in E. simpl in E. lia. }
    unfold kurt_textbook, ncm1.
    split; [|split].
    - apply Qmaxb_comp. now rewrite ncm2_raw.
    - now rewrite ncm2_raw.
    - unfold Qdiv. apply Qmult_comp.
      + unfold sq, fourth. rewrite (ncm2_raw _ HD), (ncm3_raw _ HD), (ncm4_raw _ HD). reflexivity.
      + apply Qinv_comp. unfold sq at 1 3. apply Qmult_comp; apply Qmaxb_comp; now rewrite (ncm2_raw _ HD). Qed.

  Theorem results_from_same_rows fuel L0 N0 s :
    (price_run sample cost alloc conv garbage df notional level_max 0 fuel L0 N0 = Converged s \/
     price_run sample cost alloc conv garbage df notional level_max 0 fuel L0 N0 = Fallthrough s) ->
    all_lev results_ok 0 (levels s).
  Proof. intros H. pose proof (rows_are_samples fuel L0 N0) as F.
    destruct H as [H|H]; rewrite H in F; apply (all_lev_impl lev_done); auto using done_results. Qed.

  (* ---------------------------------------------------------------- sum_cost is accumulated from the passes *)
  Definition pass_cost (ps : list (Q * nat)) : Q := Qsum (map (fun p => fst p * qnat (snd p)) ps).
  Definition pass_count (ps : list (Q * nat)) : nat := fold_right (fun p a => (snd p + a)%nat) O ps.
  (* sum_cost[l] = sum over the passes of one_simulation_cost * dNl, and N_l = sum over the passes of dNl *)
  Definition cost_ok (v : lev) : Prop := lcost v == pass_cost (lpasses v) /\ lN v = pass_count (lpasses v).

  Lemma Qsum_app a b : Qsum (a ++ b) == Qsum a + Qsum b.
  Proof. induction a as [|x a IH]; simpl; [ring|]. rewrite IH. ring. Qed.
  Lemma pass_count_app a b : pass_count (a ++ b) = (pass_count a + pass_count b)%nat.
  Proof. induction a as [|x a IH]; simpl; [reflexivity|]. rewrite IH. lia. Qed.

  Lemma run_level_cost l v : cost_ok v -> cost_ok (run_level sample cost df notional l v).
  Proof. intros [Hc Hn]. unfold cost_ok, run_level; simpl. split.
    - unfold pass_cost. rewrite map_app, Qsum_app. simpl. fold (pass_cost (lpasses v)). rewrite Hc. ring.
    - rewrite pass_count_app. simpl. lia. Qed.

  Lemma Forall_run_levels (P : lev -> Prop) : (forall l v, P v -> P (run_level sample cost df notional l v)) ->
    forall vs l, Forall P vs -> Forall P (run_levels sample cost df notional l vs).
  Proof. intros H vs. induction vs as [|v r IH]; simpl; intros l HF; constructor; inversion HF; subst; auto. Qed.
  Lemma Forall_set_dN (P : lev -> Prop) :
    (forall v d, P v -> P (mkLev (lN v) d (lcnt v) (lcost v) (lrows v) (lpasses v))) ->
    forall Ns vs l, Forall P vs -> Forall P (set_dN Ns l vs).
  Proof. intros H Ns vs. induction vs as [|v r IH]; simpl; intros l HF; constructor; inversion HF; subst; auto. Qed.

  (* generic: a level property kept by a pass, by the re-allocation, by extend and true of a new level holds at every return *)
  Theorem loop_Forall (P : lev -> Prop) :
    (forall l v, P v -> P (run_level sample cost df notional l v)) ->
    (forall v d, P v -> P (mkLev (lN v) d (lcnt v) (lcost v) (lrows v) (lpasses v))) ->
    (forall v, P v -> P (ext_level v)) -> P (new_level 0) ->
    forall fuel s, Forall P (levels s) ->
      match loop0 fuel s with Converged s' | Fallthrough s' => Forall P (levels s') | OutOfFuel => True end.
  Proof. intros H1 H2 H3 H4. induction fuel as [|f IH]; intros s Hs; simpl; [exact I|].
    destruct (Nat.eqb (total_dN (levels s)) 0); [exact Hs|].
    pose proof (Forall_set_dN P H2 (alloc (nalloc s)) _ 0%nat (Forall_run_levels P H1 _ 0%nat Hs)) as Hd1.
    destruct (within_one_pct _).
    - destruct (conv (nconv s) || _)%bool; [exact Hd1|].
      apply IH. simpl. apply Forall_forall. intros x Hx. apply in_map_iff in Hx. destruct Hx as [y [<- Hy]]. apply H3.
      revert y Hy. apply Forall_forall. apply Forall_set_dN; [exact H2|]. apply Forall_app. split; [exact Hd1|]. constructor; [exact H4|constructor].
    - apply IH. simpl. apply Forall_forall. intros x Hx. apply in_map_iff in Hx. destruct Hx as [y [<- Hy]]. apply H3.
      revert y Hy. apply Forall_forall. exact Hd1. Qed.

  Theorem cost_from_passes fuel L0 N0 :
    match price_run sample cost alloc conv garbage df notional level_max 0 fuel L0 N0 with
    | Converged s | Fallthrough s =>
        Forall (fun v => cost_ok v /\ ((0 < lN v)%nat -> res_cl v == pass_cost (lpasses v) / qnat (pass_count (lpasses v)))) (levels s)
    | OutOfFuel => True
    end.
  Proof. pose proof (loop_Forall cost_ok run_level_cost) as H.
    specialize (H (fun v d Hv => Hv) (fun v Hv => Hv)).
    assert (H0 : cost_ok (new_level 0)) by (split; reflexivity).
    specialize (H H0 fuel (init_state garbage L0 N0)).
    assert (Hi : Forall cost_ok (levels (init_state garbage L0 N0))).
    { unfold init_state; cbn [levels]. apply Forall_forall. intros v Hv. apply in_map_iff in Hv. destruct Hv as [l [<- _]]. split; reflexivity. }
    specialize (H Hi). unfold price_run. destruct (loop0 fuel (init_state garbage L0 N0)); try exact I;
      (eapply Forall_impl; [|exact H]; intros v [Hc Hn]; split; [split; assumption|]; intros _; unfold res_cl; rewrite Hc, Hn; reflexivity). Qed.

  (* ---------------------------------------------------------------- fixed-level variant *)
  Lemma ext_level_head_head l v : lev_head l v -> lev_head l (ext_level v).
  Proof. intros [Hc [B [Hr Hb]]]. unfold lev_head, ext_level; simpl. split; [exact Hc|]. exists B. split; [|exact Hb].
    unfold extend. rewrite Hr, app_length, samples_of_length, Hb, Nat.sub_diag. simpl. now rewrite app_nil_r. Qed.

  Lemma run_levels_N (P : lev -> Prop) N vs : forall l, Forall (fun v => (lN v + ldN v)%nat = N) vs ->
    Forall (fun v => lN v = N) (run_levels sample cost df notional l vs).
  Proof. induction vs as [|v r IH]; simpl; intros l HF; constructor; inversion HF; subst; auto. Qed.

  Theorem fixed_level_variant L0 Lmax N vs :
    fixed_run sample cost garbage df notional L0 Lmax N = Some vs ->
    length vs = S Lmax /\ all_lev lev_done 0 vs /\ Forall (fun v => lN v = N) vs /\ mlmc_price vs == sum_level_means 0 vs.
  Proof. unfold fixed_run. destruct (Nat.ltb Lmax L0) eqn:E; [discriminate|]. apply Nat.ltb_ge in E.
    set (ini := map (init_level garbage N) (seq 0 (S L0))). set (add := map (fun _ : nat => mkLev O N O 0 [] []) (seq (S L0) (Lmax - L0))).
    intros H. assert (Hv : vs = run_levels sample cost df notional 0 (map ext_level (ini ++ add))) by congruence. clear H. subst vs.
    assert (Hh : all_lev lev_head 0 (map ext_level (ini ++ add))).
    { rewrite map_app. apply all_lev_app. split.
      - apply (all_lev_map lev_head); [apply ext_level_head_head|]. apply (init_levels_head N).
      - subst add. rewrite map_map. generalize (0 + length (map ext_level ini))%nat. generalize (S L0) (Lmax - L0)%nat. intros a n. revert a.
        induction n as [|n IH]; intros a l; simpl; [exact I|]. split; [|apply IH].
        split; [reflexivity|]. exists (repeat zero_row N). simpl. split; [unfold extend; simpl; now rewrite Nat.sub_0_r|apply repeat_length]. }
    assert (HN : Forall (fun v => (lN v + ldN v)%nat = N) (map ext_level (ini ++ add))).
    { apply Forall_forall. intros v Hv. apply in_map_iff in Hv. destruct Hv as [w [<- Hw]]. simpl.
      apply in_app_or in Hw. destruct Hw as [Hw|Hw]; apply in_map_iff in Hw; destruct Hw as [k [<- _]]; reflexivity. }
    pose proof (run_levels_done _ _ Hh) as Hd. split; [|split; [|split]].
    - assert (Hl : forall ws l, length (run_levels sample cost df notional l ws) = length ws) by (induction ws; simpl; intros; auto).
      rewrite Hl, map_length, app_length. subst ini add. rewrite !map_length, !seq_length. lia.
    - exact Hd.
    - now apply (run_levels_N (fun _ => True)).
    - now apply price_done. Qed.
End Inv.

(* ------------------------------------------------------------------ behaviour before the repair (phantom = 1) *)
Definition w_sample (l n : nat) : Q * Q := (inject_Z (Z.of_nat (S n)), 0).
Definition w_run (phantom : nat) : outcome state :=
  price_run w_sample (fun _ _ => 1) (tab_alloc [[3; 3; 3]; [3; 3; 3; 4]]%Z) (tab_conv [false; true]) const_garbage 1 1 5 phantom 10 2 3.

(* with `Nl = np.append(Nl, 1)` the level added by the adaptive loop reports N = 4 although only 3 paths were
   simulated, and its row 0 is the zero padding *)
Lemma phantom_sample_before_repair :
  exists s v, w_run 1 = Converged s /\ nth_error (levels s) 3 = Some v /\
              lN v = 4%nat /\ lcnt v = 3%nat /\ nth 0 (lrows v) (1, 1) = zero_row.
Proof. vm_compute. eexists. eexists. repeat split. Qed.

(* the repaired code on the same history: 4 paths, 4 rows, none of them a placeholder *)
Lemma no_phantom_after_repair :
  exists s v, w_run 0 = Converged s /\ nth_error (levels s) 3 = Some v /\
              lN v = 4%nat /\ lcnt v = 4%nat /\ map fst (lrows v) = [1; 2; 3; 4].
Proof. vm_compute. eexists. eexists. repeat split. Qed.

(* ------------------------------------------------------------------ several pricings on ONE engine *)
Definition own_rows (offs : nat -> nat -> Q * Q) (e : nat) (p : mpricing) (o : outcome state) : Prop :=
  match o with
  | Converged s | Fallthrough s =>
      all_lev (fun l v => lcnt v = lN v /\
                 lrows v = map (fun i => mk_row (mp_df p) (mp_notional p) l (shift (mp_raw p l i) (offs e l))) (seq 0 (lN v)))
              0 (levels s)
  | OutOfFuel => True
  end.
Fixpoint seq_own (offs : nat -> nat -> Q * Q) (e : nat) (ps : list mpricing) (os : list (outcome state)) : Prop :=
  match ps, os with
  | [], [] => True
  | p :: r, o :: t => own_rows offs e p o /\ seq_own offs (S e) r t
  | _, _ => False
  end.

(* the lookup never fails, and next_level calls for higher levels (appends behind) do not change it *)
Lemma manager_used_some base e l : exists t, manager_used base e l = Some t.
Proof. unfold manager_used. destruct (nth_error (managers_at e base l) l) eqn:E; [eauto|].
  apply nth_error_None in E. unfold managers_at in E. rewrite app_length, map_length, seq_length in E. lia. Qed.
Lemma lookup_stable base e l K : (l <= K)%nat -> nth_error (managers_at e base K) l = nth_error (managers_at e base l) l.
Proof. intros H. unfold managers_at. replace (S K) with (S l + (K - l))%nat by lia. rewrite seq_app, map_app, app_assoc.
  apply nth_error_app1. rewrite app_length, map_length, seq_length. lia. Qed.

Lemma manager_used_reset e prev l : manager_used (base_of true prev) e l = Some (e, l).
Proof. unfold manager_used, managers_at, base_of. cbn [app].
  rewrite (nth_error_nth' _ (e, l)) by (rewrite map_length, seq_length; lia). f_equal.
  rewrite (nth_indep _ (e, l) ((fun k => (e, k)) 0%nat)) by (rewrite map_length, seq_length; lia).
  rewrite (map_nth (fun k => (e, k)) (seq 0 (S l)) 0%nat l). rewrite seq_nth by lia. reflexivity. Qed.

(* repaired engine: whatever managers earlier pricings left behind, pricing number e holds, on every level l, exactly
   its own samples seen through the manager (e, l) created for it *)
Theorem engine_reuse offs : forall ps e prev, seq_own offs e ps (run_seq offs true e prev ps).
Proof. induction ps as [|p r IH]; intros e prev; simpl; [exact I|]. split; [|apply IH].
  pose proof (rows_are_samples (mp_sample offs (base_of true prev) e p) (mp_cost p) (mp_alloc p) (mp_conv p) (mp_garbage p)
                (mp_df p) (mp_notional p) (mp_level_max p) (mp_fuel p) (mp_L0 p) (mp_N0 p)) as H.
  unfold final_ok in H. unfold own_rows.
  destruct (price_run _ _ _ _ _ _ _ _ _ _ _ _); try exact I;
    (eapply all_lev_impl; [|exact H]; intros l v [Hc Hr]; split; [exact Hc|]; rewrite Hr; unfold samples_of;
     apply map_ext; intros i; unfold mp_sample; rewrite manager_used_reset; reflexivity). Qed.

(* before the repair (list only appended to): the second pricing sees level 0 through the manager of the FIRST pricing *)
Definition w_pricing : mpricing :=
  mkMP w_sample (fun _ _ => 1) (tab_alloc [[2; 2]]%Z) (tab_conv [true]) const_garbage 1 1 3 10 1 2.
Lemma stale_manager_before_repair :
  exists o0 o1 s v, run_seq pm_offs false 0 [] [w_pricing; w_pricing] = [o0; o1] /\ o1 = Converged s /\
    nth_error (levels s) 0 = Some v /\
    map (fun r => Qred (fst r)) (lrows v) = [1; 2]       (* offset of manager (0,0): 0, instead of 1/2 for manager (1,0) *)
    /\ ~ own_rows pm_offs 1 w_pricing o1.
Proof. eexists. eexists. eexists. eexists. split; [vm_compute; reflexivity|]. split; [reflexivity|]. split; [reflexivity|].
  split; [vm_compute; reflexivity|]. intros [[_ H] _]. vm_compute in H. discriminate H. Qed.

(* C05 (wave 5) -- proofs about Model/MlmcVec.v: the multilevel engine with vector payoffs, control variates and the
   multi-process merge.  All statements are for ALL oracles, initial levels / sample sizes / maximum levels and fuels. *)
From Coq Require Import List ZArith QArith Qabs Qminmax Bool Lia Setoid Morphisms Permutation.
From RV Require Import Base.QB Model.McStats Model.Mlmc Model.MlmcVec Proofs.C07_StatsLemmas Proofs.C07_McStats Proofs.C05_Mlmc.
Import ListNotations.
Open Scope Q_scope.

(* indexed Forall, any element type *)
Fixpoint all_ix {T : Type} (P : nat -> T -> Prop) (l : nat) (vs : list T) : Prop :=
  match vs with
  | [] => True
  | v :: r => P l v /\ all_ix P (S l) r
  end.
Lemma all_ix_impl {T} (P Q : nat -> T -> Prop) : (forall l v, P l v -> Q l v) -> forall vs l, all_ix P l vs -> all_ix Q l vs.
Proof. intros H vs. induction vs as [|v r IH]; simpl; intros l; [trivial|]. intros [H1 H2]. split; auto. Qed.
Lemma all_ix_app {T} (P : nat -> T -> Prop) vs ws : forall l, all_ix P l (vs ++ ws) <-> all_ix P l vs /\ all_ix P (l + length vs) ws.
Proof. induction vs as [|v r IH]; simpl; intros l.
  - rewrite Nat.add_0_r. tauto.
  - rewrite IH. replace (S l + length r)%nat with (l + S (length r))%nat by lia. tauto. Qed.
Lemma all_ix_map {T U} (P : nat -> T -> Prop) (Q : nat -> U -> Prop) (f : T -> U) : (forall l v, P l v -> Q l (f v)) ->
  forall vs l, all_ix P l vs -> all_ix Q l (map f vs).
Proof. intros H vs. induction vs as [|v r IH]; simpl; intros l; [trivial|]. intros [H1 H2]. split; auto. Qed.
Lemma all_ix_nth {T} (P : nat -> T -> Prop) vs : forall l k v, all_ix P l vs -> nth_error vs k = Some v -> P (l + k)%nat v.
Proof. induction vs as [|x r IH]; intros l k v H E; [destruct k; discriminate|]. destruct H as [H1 H2]. destruct k as [|k]; simpl in E.
  - injection E as <-. now rewrite Nat.add_0_r.
  - replace (l + S k)%nat with (S l + k)%nat by lia. eauto. Qed.

(* ==================================================================== the generic engine *)
Section GInv.
  Context {A B C : Type}.
  Variable rowof : nat -> nat -> A.
  Variable coef : nat -> list A -> C.
  Variable adj : nat -> C -> A -> B.
  Variable zA : A.
  Variable zB : B.
  Variable cost : nat -> nat -> Q.
  Variable alloc : nat -> list Z.
  Variable conv : nat -> bool.
  Variable garbA : nat -> nat -> A.
  Variable garbB : nat -> nat -> B.
  Variable level_max : nat.

  Notation gloop0 := (gloop rowof coef adj zA zB cost alloc conv level_max).
  Notation drv := (derive coef adj).

  Definition gsamples (l n : nat) : list A := map (rowof l) (seq 0 n).
  Lemma gsamples_length l n : length (gsamples l n) = n.
  Proof. unfold gsamples. now rewrite map_length, seq_length. Qed.
  Lemma gsamples_add l n k : gsamples l (n + k) = gsamples l n ++ map (rowof l) (seq n k).
  Proof. unfold gsamples. now rewrite seq_app, map_app. Qed.
  Lemma derive_length l rows : length (drv l rows) = length rows.
  Proof. unfold derive. apply map_length. Qed.

  (* at a return: exactly the N simulated rows in order, and the with_cv rows are the adjustment of exactly those rows
     with the coefficients computed from exactly those rows *)
  Definition glev_done (l : nat) (v : glev A B) : Prop :=
    gcnt v = gN v /\ grows v = gsamples l (gN v) /\ gcv v = drv l (gsamples l (gN v)).
  Definition glev_head (l : nat) (v : glev A B) : Prop :=
    gcnt v = gN v /\ (exists P, grows v = gsamples l (gN v) ++ P /\ length P = gdN v)
    /\ (gdN v = O -> gcv v = drv l (gsamples l (gN v))).

  Lemma gdraw_spec l : forall k a b start c, length a = start -> length b = k ->
    gdraw rowof l start c k (a ++ b) = a ++ map (rowof l) (seq c k).
  Proof. induction k as [|k IH]; intros a b start c Ha Hb.
    - destruct b; [|discriminate]. reflexivity.
    - destruct b as [|x b]; [discriminate|]. simpl gdraw. rewrite <- Ha, set_nth_app.
      change (a ++ rowof l c :: b) with (a ++ [rowof l c] ++ b). rewrite app_assoc.
      rewrite (IH (a ++ [rowof l c]) b (S (length a)) (S c)).
      + rewrite <- app_assoc. reflexivity.
      + rewrite app_length. simpl. lia.
      + simpl in Hb. lia. Qed.

  Lemma grun_level_done l v : glev_head l v -> glev_done l (grun_level rowof coef adj cost l v).
  Proof. intros [Hc [[P [Hr Hp]] _]]. unfold glev_done, grun_level; cbn [gcnt gN grows gcv].
    assert (E : gdraw rowof l (gN v) (gcnt v) (gdN v) (grows v) = gsamples l (gN v + gdN v)).
    { rewrite Hr, Hc. rewrite (gdraw_spec l (gdN v) _ P (gN v) (gN v)); auto using gsamples_length. now rewrite gsamples_add. }
    rewrite E. split; [lia|]. split; reflexivity. Qed.

  Lemma grun_levels_done vs : forall l, all_ix glev_head l vs -> all_ix glev_done l (grun_levels rowof coef adj cost l vs).
  Proof. induction vs as [|v r IH]; simpl; intros l; [trivial|]. intros [H1 H2]. split; auto using grun_level_done. Qed.

  Lemma gset_dN_done Ns vs : forall l, all_ix glev_done l vs -> all_ix glev_done l (gset_dN Ns l vs).
  Proof. induction vs as [|v r IH]; simpl; intros l; [trivial|]. intros [H1 H2]. split; auto. Qed.

  Lemma gext_level_head l v : glev_done l v -> glev_head l (gext_level zA zB v).
  Proof. intros [Hc [Hr Hv]]. unfold glev_head, gext_level; cbn [gcnt gN grows gcv gdN]. split; [exact Hc|]. split.
    - exists (repeat zA (gdN v)). split; [|apply repeat_length]. rewrite Hr. apply extend_exact. apply gsamples_length.
    - intros H0. rewrite Hv. unfold extend. rewrite derive_length, gsamples_length, H0, Nat.add_0_r, Nat.sub_diag. apply app_nil_r. Qed.

  Lemma gext_level_head_head l v : glev_head l v -> glev_head l (gext_level zA zB v).
  Proof. intros [Hc [[P [Hr Hp]] Hv]]. unfold glev_head, gext_level; cbn [gcnt gN grows gcv gdN]. split; [exact Hc|]. split.
    - exists P. split; [|exact Hp]. unfold extend. rewrite Hr, app_length, gsamples_length, Hp, Nat.sub_diag. simpl. now rewrite app_nil_r.
    - intros H0. rewrite (Hv H0). unfold extend. rewrite derive_length, gsamples_length, H0, Nat.add_0_r, Nat.sub_diag. apply app_nil_r. Qed.

  Lemma gnew_level_done l : glev_done l (@gnew_level A B).
  Proof. repeat split. Qed.

  Lemma gtotal_dN_zero (vs : list (glev A B)) : gtotal_dN vs = O -> Forall (fun v => gdN v = O) vs.
  Proof. induction vs as [|v r IH]; simpl; intros H; constructor; [lia|apply IH; lia]. Qed.

  Lemma ghead_no_demand_done vs : forall l, Forall (fun v : glev A B => gdN v = O) vs -> all_ix glev_head l vs -> all_ix glev_done l vs.
  Proof. induction vs as [|v r IH]; simpl; intros l HF; [trivial|]. inversion HF as [|? ? Hz HF']; subst.
    intros [[Hc [[P [Hr Hp]] Hv]] Hrest]. split; [|auto]. split; [exact Hc|]. split; [|auto].
    destruct P; [|simpl in Hp; lia]. now rewrite app_nil_r in Hr. Qed.

  Definition gfinal_ok (o : outcome (gstate A B)) : Prop :=
    match o with
    | Converged s | Fallthrough s => all_ix glev_done 0 (glevels s)
    | OutOfFuel => True
    end.

  Theorem gloop_rows_are_samples : forall fuel s, all_ix glev_head 0 (glevels s) -> gfinal_ok (gloop0 fuel s).
  Proof. induction fuel as [|f IH]; intros s Hs; simpl; [exact I|].
    destruct (Nat.eqb (gtotal_dN (glevels s)) 0) eqn:E0.
    - simpl. apply Nat.eqb_eq in E0. apply ghead_no_demand_done; auto using gtotal_dN_zero.
    - pose proof (grun_levels_done _ _ Hs) as Hd.
      pose proof (gset_dN_done (alloc (gnalloc s)) _ _ Hd) as Hd1.
      destruct (gwithin_one_pct _) eqn:E1.
      + destruct (conv (gnconv s) || _)%bool eqn:E2.
        * simpl. exact Hd1.
        * apply IH. simpl. apply (all_ix_map glev_done glev_head); [apply gext_level_head|].
          apply gset_dN_done. apply all_ix_app. split; [exact Hd1|]. simpl. split; [apply gnew_level_done|exact I].
      + apply IH. simpl. apply (all_ix_map glev_done glev_head); [apply gext_level_head|]. exact Hd1. Qed.

  Lemma ginit_levels_head N0 : forall n l, all_ix glev_head l (map (ginit_level garbA garbB N0) (seq l n)).
  Proof. induction n as [|n IH]; intros l; simpl; [exact I|]. split; [|apply IH].
    split; [reflexivity|]. split.
    - exists (map (garbA l) (seq 0 N0)). simpl. split; [reflexivity|]. now rewrite map_length, seq_length.
    - simpl. intros ->. reflexivity. Qed.

  Theorem grows_are_samples fuel L0 N0 :
    gfinal_ok (gprice_run rowof coef adj zA zB cost alloc conv garbA garbB level_max fuel L0 N0).
  Proof. apply gloop_rows_are_samples. apply ginit_levels_head. Qed.

  Theorem gfixed_rows_are_samples L0 Lmax N vs :
    gfixed_run rowof coef adj zA zB cost garbA garbB L0 Lmax N = Some vs ->
    length vs = S Lmax /\ all_ix glev_done 0 vs /\ Forall (fun v => gN v = N) vs.
  Proof. unfold gfixed_run. destruct (Nat.ltb Lmax L0) eqn:E; [discriminate|]. apply Nat.ltb_ge in E.
    set (ini := map (ginit_level garbA garbB N) (seq 0 (S L0))).
    set (add := map (fun _ : nat => @mkG A B O N O 0 [] [] []) (seq (S L0) (Lmax - L0))).
    intros H. assert (Hv : vs = grun_levels rowof coef adj cost 0 (map (gext_level zA zB) (ini ++ add))) by congruence. clear H. subst vs.
    assert (Hh : all_ix glev_head 0 (map (gext_level zA zB) (ini ++ add))).
    { rewrite map_app. apply all_ix_app. split.
      - apply (all_ix_map glev_head glev_head); [apply gext_level_head_head|]. apply (ginit_levels_head N).
      - subst add. rewrite map_map. generalize (0 + length (map (gext_level zA zB) ini))%nat. generalize (S L0) (Lmax - L0)%nat. intros a n. revert a.
        induction n as [|n IH]; intros a l; simpl; [exact I|]. split; [|apply IH].
        split; [reflexivity|]. split.
        + exists (repeat zA N). simpl. split; [unfold extend; simpl; now rewrite Nat.sub_0_r|apply repeat_length].
        + simpl. intros ->. reflexivity. }
    split; [|split].
    - assert (Hl : forall ws l, length (grun_levels rowof coef adj cost l ws) = length ws) by (induction ws; simpl; intros; auto).
      rewrite Hl, map_length, app_length. subst ini add. rewrite !map_length, !seq_length. lia.
    - now apply grun_levels_done.
    - assert (HN : Forall (fun v : glev A B => (gN v + gdN v)%nat = N) (map (gext_level zA zB) (ini ++ add))).
      { apply Forall_forall. intros v Hv. apply in_map_iff in Hv. destruct Hv as [w [<- Hw]]. simpl.
        apply in_app_or in Hw. destruct Hw as [Hw|Hw]; apply in_map_iff in Hw; destruct Hw as [k [<- _]]; reflexivity. }
      revert HN. generalize (map (gext_level zA zB) (ini ++ add)). generalize 0%nat at 1.
      intros l ws. revert l. induction ws as [|w ws IH]; intros l HF; simpl; constructor; inversion HF; subst; auto. Qed.
End GInv.

(* ==================================================================== simulation: a projection of the generic engine IS a run of Model/Mlmc.v *)
Section Sim.
  Context {A B C : Type}.
  Variable rowof : nat -> nat -> A.
  Variable coef : nat -> list A -> C.
  Variable adj : nat -> C -> A -> B.
  Variable zA : A.
  Variable zB : B.
  Variable cost : nat -> nat -> Q.
  Variable alloc : nat -> list Z.
  Variable conv : nat -> bool.
  Variable garbA : nat -> nat -> A.
  Variable garbB : nat -> nat -> B.
  Variable level_max : nat.
  (* the scalar view *)
  Variable pr : A -> row.
  Variable smp : nat -> nat -> Q * Q.
  Variables df notional : Q.
  Hypothesis pr_rowof : forall l n, pr (rowof l n) = mk_row df notional l (smp l n).
  Hypothesis pr_zero : pr zA = zero_row.

  Definition plev (v : glev A B) : lev := mkLev (gN v) (gdN v) (gcnt v) (gcost v) (map pr (grows v)) (gpasses v).
  Definition pstate (s : gstate A B) : state := mkState (map plev (glevels s)) (gnalloc s) (gnconv s).
  Definition pout (o : outcome (gstate A B)) : outcome state :=
    match o with Converged s => Converged (pstate s) | Fallthrough s => Fallthrough (pstate s) | OutOfFuel => OutOfFuel end.

  Lemma map_set_nth {T U} (f : T -> U) i v (s : list T) : map f (set_nth i v s) = set_nth i (f v) (map f s).
  Proof. revert i. induction s as [|x s IH]; intros [|i]; simpl; try reflexivity. now rewrite IH. Qed.

  Lemma pdraw l : forall k start c s,
    map pr (gdraw rowof l start c k s) = draw smp df notional l start c k (map pr s).
  Proof. induction k as [|k IH]; intros start c s; simpl; [reflexivity|]. rewrite IH, map_set_nth, pr_rowof. reflexivity. Qed.

  Lemma prun_level l v : plev (grun_level rowof coef adj cost l v) = run_level smp cost df notional l (plev v).
  Proof. unfold plev, grun_level, run_level; simpl. now rewrite pdraw. Qed.
  Lemma prun_levels vs : forall l, map plev (grun_levels rowof coef adj cost l vs) = run_levels smp cost df notional l (map plev vs).
  Proof. induction vs as [|v r IH]; intros l; simpl; [reflexivity|]. now rewrite prun_level, IH. Qed.
  Lemma pset_dN Ns vs : forall l, map plev (gset_dN Ns l vs) = set_dN Ns l (map plev vs).
  Proof. induction vs as [|v r IH]; intros l; simpl; [reflexivity|]. now rewrite IH. Qed.
  Lemma map_rep {T U} (f : T -> U) x n : map f (repeat x n) = repeat (f x) n.
  Proof. induction n; simpl; [reflexivity|]. now rewrite IHn. Qed.
  Lemma pext v : plev (gext_level zA zB v) = ext_level (plev v).
  Proof. unfold plev, gext_level, ext_level, extend; simpl. rewrite map_app, map_rep, map_length, pr_zero. reflexivity. Qed.
  Lemma pmap_ext vs : map plev (map (gext_level zA zB) vs) = map ext_level (map plev vs).
  Proof. rewrite !map_map. apply map_ext. intros v. apply pext. Qed.
  Lemma pwithin vs : gwithin_one_pct vs = within_one_pct (map plev vs).
  Proof. unfold gwithin_one_pct, within_one_pct. induction vs as [|v r IH]; [reflexivity|]. cbn [forallb map]. f_equal. exact IH. Qed.
  Lemma ptotal vs : gtotal_dN vs = total_dN (map plev vs).
  Proof. induction vs as [|v r IH]; simpl; [reflexivity|]. now rewrite IH. Qed.

  Theorem gloop_simulates : forall fuel s,
    pout (gloop rowof coef adj zA zB cost alloc conv level_max fuel s)
    = loop smp cost alloc conv df notional level_max 0 fuel (pstate s).
  Proof. induction fuel as [|f IH]; intros s; [reflexivity|]. cbn [gloop loop]. cbn [pstate levels nalloc nconv].
    rewrite <- ptotal. destruct (Nat.eqb (gtotal_dN (glevels s)) 0); [reflexivity|].
    rewrite <- prun_levels, <- pset_dN, <- pwithin, map_length.
    destruct (gwithin_one_pct _).
    - destruct (conv (gnconv s) || _)%bool.
      + cbn [pout pstate glevels gnalloc gnconv]. reflexivity.
      + rewrite IH. unfold pstate at 1. cbn [glevels gnalloc gnconv]. rewrite pmap_ext, pset_dN, map_app. reflexivity.
    - rewrite IH. unfold pstate at 1. cbn [glevels gnalloc gnconv]. rewrite pmap_ext. reflexivity. Qed.
End Sim.

(* ==================================================================== vector payoff + control variates *)
Lemma map_as_seq {T U} (g : T -> U) (R : list T) dflt : map g R = map (fun i => g (nth i R dflt)) (seq 0 (length R)).
Proof. induction R as [|x R IH]; [reflexivity|]. cbn [length map seq nth]. f_equal. rewrite <- seq_shift, map_map. exact IH. Qed.

Lemma nth_map_seq_gen {U} (g : nat -> U) n j dflt : (j < n)%nat -> nth j (map g (seq 0 n)) dflt = g j.
Proof. intros H. rewrite (nth_indep _ dflt (g 0%nat)) by (now rewrite map_length, seq_length).
  rewrite (map_nth g (seq 0 n) 0%nat j). now rewrite seq_nth. Qed.

Section ConcreteProofs.
  Variable sample : nat -> nat -> Q * Q.
  Variable pay : nat -> Q -> Q.
  Variable d : nat.
  Variable ctl : nat -> nat -> Q -> Q.
  Variable cnot : nat -> Q.
  Variable nc : nat.
  Variable prices : nat -> nat -> Q.
  Variable bst : nat -> (nat -> nat -> Q) -> (nat -> Q) -> list Q.
  Variables df notional : Q.

  Notation rowof := (srow_of sample pay d ctl cnot nc df notional).
  Notation coefc := (coef_c d bst).
  Notation adjc := (adj_c d prices).

  (* one entry of the with_cv array: Y_i - b (X_i - price) in the sense of Model/McStats.v (C07), with b = the regression rule
     applied to the columns of exactly the rows R *)
  Lemma adj_entry l (R : list srow) i j : (j < d)%nat ->
    comp j (adjc l (coefc l R) (nth i R ([], []))) =
      (cv_adj (bst (length R) (Xv fst j R) (Yv fst j R)) (fun k => prices k j) (Xv fst j R) (Yv fst j R) i,
       cv_adj (bst (length R) (Xv snd j R) (Yv snd j R)) (fun k => prices k j) (Xv snd j R) (Yv snd j R) i).
  Proof. intros Hj. unfold comp, adj_c, coef_c. rewrite (nth_map_seq_gen _ d j zero_row Hj). cbv zeta.
    rewrite (nth_map_seq_gen _ d j ([], []) Hj). reflexivity. Qed.

  Lemma adjusted_column (side : row -> Q) l (R : list srow) j : (j < d)%nat ->
    map (fun r => side (comp j r)) (derive coefc adjc l R) =
    map (fun i => side (comp j (adjc l (coefc l R) (nth i R ([], []))))) (seq 0 (length R)).
  Proof. intros Hj. unfold derive. rewrite map_map.
    exact (map_as_seq (fun x : srow => side (comp j (adjc l (coefc l R) x))) R ([], [])). Qed.

  (* the mean of the adjusted column is the textbook control-variate estimator  mean Y - b (mean X - price) *)
  Lemma adjusted_mean l (R : list srow) j : (j < d)%nat -> (0 < length R)%nat ->
    let n := length R in
    mean (map (fun r => fst (comp j r)) (derive coefc adjc l R))
      == En n (Yv fst j R) - dotf (bst n (Xv fst j R) (Yv fst j R)) (fun k => En n (Xv fst j R k) - prices k j) 0
    /\ mean (map (fun r => snd (comp j r)) (derive coefc adjc l R))
      == En n (Yv snd j R) - dotf (bst n (Xv snd j R) (Yv snd j R)) (fun k => En n (Xv snd j R k) - prices k j) 0.
  Proof. intros Hj Hn n. split.
    - rewrite (adjusted_column fst l R j Hj), mean_spec. unfold qlen. rewrite map_length, seq_length.
      rewrite (map_ext _ (cv_adj (bst n (Xv fst j R) (Yv fst j R)) (fun k => prices k j) (Xv fst j R) (Yv fst j R)))
        by (intros i; now rewrite adj_entry).
      apply (cv_mean_full n Hn).
    - rewrite (adjusted_column snd l R j Hj), mean_spec. unfold qlen. rewrite map_length, seq_length.
      rewrite (map_ext _ (cv_adj (bst n (Xv snd j R) (Yv snd j R)) (fun k => prices k j) (Xv snd j R) (Yv snd j R)))
        by (intros i; now rewrite adj_entry).
      apply (cv_mean_full n Hn). Qed.

  Section Run.
    Variable cost : nat -> nat -> Q.
    Variable alloc : nat -> list Z.
    Variable conv : nat -> bool.
    Variable garbA : nat -> nat -> srow.
    Variable garbB : nat -> nat -> vrow.
    Variable level_max : nat.

    Notation vrun := (gprice_run rowof coefc adjc (zero_srow d nc) (repeat zero_row d) cost alloc conv garbA garbB level_max).

    Definition vec_level_ok (l : nat) (v : glev srow vrow) : Prop :=
      gcnt v = gN v /\ grows v = map (rowof l) (seq 0 (gN v)) /\ gcv v = derive coefc adjc l (map (rowof l) (seq 0 (gN v))).

    Theorem vec_rows_are_samples fuel L0 N0 :
      match vrun fuel L0 N0 with
      | Converged s | Fallthrough s => all_ix vec_level_ok 0 (glevels s)
      | OutOfFuel => True
      end.
    Proof. exact (grows_are_samples rowof coefc adjc (zero_srow d nc) (repeat zero_row d) cost alloc conv garbA garbB level_max fuel L0 N0). Qed.

    (* what price() and mlmc_results read when there are controls: per level, component j of the with_cv rows is
       Y - b (X - price) entry by entry, and its mean is the textbook control-variate estimator, all over exactly the
       N_l simulated rows *)
    Definition cv_level_ok (l : nat) (v : glev srow vrow) : Prop :=
      let R := map (rowof l) (seq 0 (gN v)) in
      let n := gN v in
      length (gcv v) = n /\
      forall j, (j < d)%nat ->
        (forall i, (i < n)%nat ->
           comp j (nth i (gcv v) []) =
             (cv_adj (bst n (Xv fst j R) (Yv fst j R)) (fun k => prices k j) (Xv fst j R) (Yv fst j R) i,
              cv_adj (bst n (Xv snd j R) (Yv snd j R)) (fun k => prices k j) (Xv snd j R) (Yv snd j R) i))
        /\ ((0 < n)%nat ->
            mean (map (fun r => fst (comp j r)) (gcv v))
              == En n (Yv fst j R) - dotf (bst n (Xv fst j R) (Yv fst j R)) (fun k => En n (Xv fst j R k) - prices k j) 0
            /\ mean (map (fun r => snd (comp j r)) (gcv v))
              == En n (Yv snd j R) - dotf (bst n (Xv snd j R) (Yv snd j R)) (fun k => En n (Xv snd j R k) - prices k j) 0).

    Lemma vec_ok_cv_ok l v : vec_level_ok l v -> cv_level_ok l v.
    Proof. intros [_ [_ Hv]]. unfold cv_level_ok. cbv zeta. set (R := map (rowof l) (seq 0 (gN v))) in *.
      assert (HR : length R = gN v) by (unfold R; now rewrite map_length, seq_length).
      split; [rewrite Hv, derive_length; exact HR|]. intros j Hj. split.
      - intros i Hi. rewrite Hv. unfold derive.
        rewrite (nth_indep _ [] (adjc l (coefc l R) ([], []))) by (rewrite map_length; lia).
        rewrite map_nth. rewrite <- HR. now apply adj_entry.
      - intros Hn. rewrite Hv. rewrite <- HR. apply adjusted_mean; [exact Hj|lia]. Qed.

    Theorem cv_rows_textbook fuel L0 N0 :
      match vrun fuel L0 N0 with
      | Converged s | Fallthrough s => all_ix cv_level_ok 0 (glevels s)
      | OutOfFuel => True
      end.
    Proof. pose proof (vec_rows_are_samples fuel L0 N0) as H. destruct (vrun fuel L0 N0); try exact I;
      (eapply all_ix_impl; [|exact H]; apply vec_ok_cv_ok). Qed.

    (* every payoff component j of the vector engine IS the run of Model/Mlmc.v on the scalar payoff pay_j: same control
       flow, same N_l / counts / costs / passes, and its rows are component j of the stored rows *)
    Definition smp_j (j : nat) (l n : nat) : Q * Q := (pay j (fst (sample l n)), pay j (snd (sample l n))).
    Definition pr_j (j : nat) (r : srow) : row := comp j (fst r).

    Theorem component_is_scalar_run j fuel L0 N0 : (j < d)%nat ->
      pout (pr_j j) (vrun fuel L0 N0)
      = price_run (smp_j j) cost alloc conv (fun l n => pr_j j (garbA l n)) df notional level_max 0 fuel L0 N0.
    Proof. intros Hj. unfold gprice_run, price_run.
      rewrite (gloop_simulates rowof coefc adjc (zero_srow d nc) (repeat zero_row d) cost alloc conv level_max (pr_j j) (smp_j j) df notional).
      - f_equal. unfold pstate, ginit_state, init_state. cbn [glevels gnalloc gnconv]. f_equal.
        rewrite map_map. apply map_ext. intros l. unfold plev, ginit_level, init_level. cbn [gN gdN gcnt gcost grows gpasses].
        now rewrite map_map.
      - intros l n. unfold pr_j, srow_of, srow_at, comp. cbn [fst]. now rewrite (nth_map_seq_gen _ d j zero_row Hj).
      - unfold pr_j, zero_srow, comp. cbn [fst]. apply nth_repeat. Qed.

    (* hence every theorem of Properties/C05.v about component 0 holds for every component; the estimator: *)
    Corollary component_price j fuel L0 N0 s : (j < d)%nat ->
      (vrun fuel L0 N0 = Converged s \/ vrun fuel L0 N0 = Fallthrough s) ->
      mlmc_price (map (plev (pr_j j)) (glevels s)) == sum_level_means (smp_j j) df notional 0 (map (plev (pr_j j)) (glevels s))
      /\ forall x, snd (mk_row df notional 0 x) == 0.
    Proof. intros Hj H. pose proof (component_is_scalar_run j fuel L0 N0 Hj) as E.
      apply (price_is_sum_of_means_full (smp_j j) cost alloc conv (fun l n => pr_j j (garbA l n)) df notional level_max fuel L0 N0 (pstate (pr_j j) s)).
      destruct H as [H|H]; rewrite H in E; simpl in E; [left|right]; now rewrite <- E. Qed.
  End Run.
End ConcreteProofs.

(* ==================================================================== multi-process branch *)
Lemma Qsum_perm a b : Permutation a b -> Qsum a == Qsum b.
Proof. induction 1; simpl; try reflexivity.
  - now rewrite IHPermutation.
  - ring.
  - now rewrite IHPermutation1. Qed.
Lemma mean_perm a b : Permutation a b -> mean a == mean b.
Proof. intros H. rewrite !mean_spec. unfold qlen. rewrite (Permutation_length H), (Qsum_perm _ _ H). reflexivity. Qed.
Lemma raw_perm (f : Q -> Q) a b : Permutation a b -> Qsum (map f a) / qlen a == Qsum (map f b) / qlen b.
Proof. intros H. unfold qlen. rewrite (Permutation_length H), (Qsum_perm _ _ (Permutation_map f H)). reflexivity. Qed.
Lemma perm_nil_iff {T} (a b : list T) : Permutation a b -> a = [] -> b = [].
Proof. intros H ->. now apply Permutation_nil. Qed.

(* every statistic mlmc_results reports is invariant under a permutation of the rows of a level *)
Theorem results_perm_invariant (v w : lev) : Permutation (lrows v) (lrows w) -> lcost v == lcost w -> lN v = lN w ->
  mean (fines v) - mean (coarses v) == mean (fines w) - mean (coarses w)
  /\ res_ml v == res_ml w /\ res_vl v == res_vl w /\ res_mean_level v == res_mean_level w
  /\ res_var_level v == res_var_level w /\ res_kurtosis v == res_kurtosis w /\ res_cl v == res_cl w.
Proof. intros HP Hc HN.
  assert (PF : Permutation (fines v) (fines w)) by (apply Permutation_map, HP).
  assert (PC : Permutation (coarses v) (coarses w)) by (apply Permutation_map, HP).
  assert (PD : Permutation (dps v) (dps w)) by (apply Permutation_map, HP).
  assert (M : forall a b, Permutation a b -> ncm1 a == ncm1 b) by (intros; now apply mean_perm).
  assert (R2 : forall a b, Permutation a b -> ncm2 a == ncm2 b).
  { intros a b H. destruct a as [|x a]; [apply Permutation_nil in H; subst b; reflexivity|].
    assert (Hb : b <> []) by (intro E; subst b; apply Permutation_sym, Permutation_nil in H; discriminate).
    rewrite (ncm2_raw (x :: a)) by discriminate. rewrite (ncm2_raw b Hb). now apply raw_perm. }
  assert (R3 : forall a b, Permutation a b -> ncm3 a == ncm3 b).
  { intros a b H. destruct a as [|x a]; [apply Permutation_nil in H; subst b; reflexivity|].
    assert (Hb : b <> []) by (intro E; subst b; apply Permutation_sym, Permutation_nil in H; discriminate).
    rewrite (ncm3_raw (x :: a)) by discriminate. rewrite (ncm3_raw b Hb). now apply raw_perm. }
  assert (R4 : forall a b, Permutation a b -> ncm4 a == ncm4 b).
  { intros a b H. destruct a as [|x a]; [apply Permutation_nil in H; subst b; reflexivity|].
    assert (Hb : b <> []) by (intro E; subst b; apply Permutation_sym, Permutation_nil in H; discriminate).
    rewrite (ncm4_raw (x :: a)) by discriminate. rewrite (ncm4_raw b Hb). now apply raw_perm. }
  split; [now rewrite (mean_perm _ _ PF), (mean_perm _ _ PC)|].
  unfold res_ml, res_vl, res_mean_level, res_var_level, res_kurtosis, res_cl.
  split; [apply Qabs_wd, M, PD|]. split; [apply Qmaxb_comp; unfold sq; now rewrite (R2 _ _ PD), (M _ _ PD)|].
  split; [now apply M|]. split; [unfold sq; now rewrite (R2 _ _ PF), (M _ _ PF)|].
  split; [|now rewrite Hc, HN].
  cbv zeta. unfold Qdiv. apply Qmult_comp.
  - unfold sq, fourth. rewrite (R4 _ _ PD), (R3 _ _ PD), (R2 _ _ PD), (M _ _ PD). reflexivity.
  - apply Qinv_comp. unfold sq. apply Qmult_comp; apply Qmaxb_comp; now rewrite (R2 _ _ PD), (M _ _ PD). Qed.

(* the engine whose pool hands the level's draws to the iteration indices through ANY assignment sigma: at every return
   level l holds, in iteration order, the rows of the draws sigma l 0 .. sigma l (N-1); when sigma l permutes 0..N-1
   (every draw of the level handed to exactly one iteration) the rows are a permutation of the simulated samples *)
Section MP.
  Context {A B C : Type}.
  Variable rowat : nat -> Q * Q -> A.
  Variable sample : nat -> nat -> Q * Q.
  Variable sigma : nat -> nat -> nat.
  Variable coef : nat -> list A -> C.
  Variable adj : nat -> C -> A -> B.
  Variable zA : A.
  Variable zB : B.
  Variable cost : nat -> nat -> Q.
  Variable alloc : nat -> list Z.
  Variable conv : nat -> bool.
  Variable garbA : nat -> nat -> A.
  Variable garbB : nat -> nat -> B.
  Variable level_max : nat.

  Definition mp_level_ok (l : nat) (v : glev A B) : Prop :=
    gcnt v = gN v /\ grows v = map (fun n => rowat l (sample l (sigma l n))) (seq 0 (gN v)) /\
    (Permutation (map (sigma l) (seq 0 (gN v))) (seq 0 (gN v)) ->
     Permutation (grows v) (map (fun n => rowat l (sample l n)) (seq 0 (gN v)))).

  Theorem mp_rows_permutation fuel L0 N0 :
    match gprice_run (mp_rowof rowat sample sigma) coef adj zA zB cost alloc conv garbA garbB level_max fuel L0 N0 with
    | Converged s | Fallthrough s => all_ix mp_level_ok 0 (glevels s)
    | OutOfFuel => True
    end.
  Proof. pose proof (grows_are_samples (mp_rowof rowat sample sigma) coef adj zA zB cost alloc conv garbA garbB level_max fuel L0 N0) as H.
    destruct (gprice_run _ _ _ _ _ _ _ _ _ _ _ _ _ _); try exact I;
    (eapply all_ix_impl; [|exact H]; intros l v [Hc [Hr _]]; split; [exact Hc|]; split; [exact Hr|]; intros HP; rewrite Hr; unfold gsamples, mp_rowof;
     rewrite <- (map_map (sigma l) (fun n => rowat l (sample l n))); now apply Permutation_map). Qed.
End MP.

(* ==================================================================== wave 8 (audit 5a B7): what price() / mlmc_results READ, tied to the rows
   Model/MlmcVec.v proj_lev / lev_of / gprice were evaluated by the correspondence (corr_cv) but occurred in no theorem.
   The first three lemmas are BOOKKEEPING (map fusion; stated so that the evaluated definitions are the ones the theorems speak about). *)
Lemma proj_lev_is_projection j v : proj_lev j v = plev (pr_j j) v.
Proof. reflexivity. Qed.
Lemma lev_of_no_controls j v : lev_of 0 j v = proj_lev j v.
Proof. unfold lev_of, proj_lev, reported_rows. now rewrite map_map. Qed.
Lemma gprice_is_mlmc_price nc vs : gprice nc vs = mlmc_price (map (lev_of nc 0) vs).
Proof. unfold gprice, vec_price, mlmc_price. rewrite !map_map. f_equal. apply map_ext. intros v.
  unfold fines, coarses, lev_of. cbn [lrows]. now rewrite !map_map. Qed.

(* without controls: the level records the code computes ml, vl, mean, var, kurtosis from (lev_of 0 j: component j of the rows
   _get_payoff_statistics selects) are the projections of the stored rows, and they satisfy results_ok for the samples pay_j of
   exactly the simulated paths; price() of the model is mlmc_price of the component-0 records *)
Theorem reported_results_no_controls sample pay d ctl cnot prices bst df notional cost alloc conv garbA garbB level_max j fuel L0 N0 s :
  (j < d)%nat ->
  (gprice_run (srow_of sample pay d ctl cnot 0 df notional) (coef_c d bst) (adj_c d prices) (zero_srow d 0)
              (repeat zero_row d) cost alloc conv garbA garbB level_max fuel L0 N0 = Converged s \/
   gprice_run (srow_of sample pay d ctl cnot 0 df notional) (coef_c d bst) (adj_c d prices) (zero_srow d 0)
              (repeat zero_row d) cost alloc conv garbA garbB level_max fuel L0 N0 = Fallthrough s) ->
  map (lev_of 0 j) (glevels s) = map (proj_lev j) (glevels s)
  /\ all_lev (results_ok (smp_j sample pay j) df notional) 0 (map (lev_of 0 j) (glevels s))
  /\ gprice 0 (glevels s) = mlmc_price (map (lev_of 0 0) (glevels s)).
Proof. intros Hj H.
  assert (E0 : map (lev_of 0 j) (glevels s) = map (proj_lev j) (glevels s)) by (apply map_ext; intros v; apply lev_of_no_controls).
  split; [exact E0|]. split.
  - rewrite E0.
    pose proof (component_is_scalar_run sample pay d ctl cnot 0 prices bst df notional cost alloc conv garbA garbB level_max j fuel L0 N0 Hj) as E.
    apply (results_from_same_rows (smp_j sample pay j) cost alloc conv (fun l n => pr_j j (garbA l n)) df notional level_max fuel L0 N0 (pstate (pr_j j) s)).
    destruct H as [H|H]; rewrite H in E; simpl in E; [left|right]; now rewrite <- E.
  - apply gprice_is_mlmc_price.
Qed.

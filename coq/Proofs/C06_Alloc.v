(* C06 -- proofs about the Giles allocation and bias test (real numbers), about the py2coq-generated
   definitions of Gen/GenC06Criteria.v lifted to lists in Model/Alloc.v. *)
From Coq Require Import Reals List Bool Lra Lia ZArith.
From Flocq Require Import Raux.
From RV Require Import Base.RB Base.RCeilMC Gen.GenC06Criteria Model.Alloc.
Import ListNotations.
Open Scope R_scope.

Definition var_share (rmse : R) : R := (1 - 1 / 4) * rmse ^ 2.       (* (1 - theta) * rmse**2 *)

Lemma var_share_pos rmse : 0 < rmse -> 0 < var_share rmse.
Proof. intros H. unfold var_share. assert (0 < rmse ^ 2) by (apply pow_lt; exact H). lra. Qed.

(* the generated scalar core: ceil of the optimum when it is a representable integer, the error value -1 (ValueError) otherwise *)
Lemma core_spec rmse v c T :
  giles_alloc_core rmse v c T = if Rltb (giles_optimal rmse v c T) int_bound then Rceil (giles_optimal rmse v c T) else -1.
Proof. unfold giles_alloc_core, giles_optimal, cost_used, int_bound.
  destruct (Rltb _ _); reflexivity. Qed.

Lemma int_bound_big : 4 <= int_bound.
Proof. unfold int_bound. replace (IZR 2 / IZR 1) with 2 by field.
  change 63%nat with (2 + 61)%nat. rewrite pow_add. assert (1 <= 2 ^ 61) by (apply pow_R1_Rle; lra). simpl (2 ^ 2). nra. Qed.

Lemma core_pos_cost rmse v c T : 0 < c -> sqrt (v / c) * T / var_share rmse < int_bound ->
  giles_alloc_core rmse v c T = Rceil (sqrt (v / c) * T / var_share rmse).
Proof. intros Hc Hb. rewrite core_spec. unfold giles_optimal, cost_used.
  destruct (Reqb c 0) eqn:E; [apply Reqb_true in E; lra|]. fold (var_share rmse).
  destruct (Rltb _ _) eqn:E2; [reflexivity|]. apply Rltb_false in E2. lra. Qed.

Lemma in_range_pos_cost rmse T : forall V C, Forall (fun c => 0 < c) C -> in_range rmse T V C ->
  length V = length C ->
  Forall2 (fun v c => sqrt (v / c) * T / var_share rmse < int_bound) V C.
Proof. induction V as [|v V IH]; intros [|c C] HC HR HL; simpl in HL; try discriminate; constructor.
  - destruct HR as [H _]. inversion HC; subst. unfold giles_optimal, cost_used in H.
    destruct (Reqb c 0) eqn:E; [apply Reqb_true in E; lra|]. exact H.
  - destruct HR as [_ HR]. inversion HC; subst. apply IH; auto. Qed.

Lemma Rsum_nonneg l : Forall (fun x => 0 <= x) l -> 0 <= Rsum l.
Proof. induction 1; simpl; lra. Qed.

Lemma S_of_nonneg V C : 0 <= S_of V C.
Proof. unfold S_of. revert C. induction V as [|v V IH]; intros [|c C]; simpl; try lra.
  pose proof (sqrt_pos (v * c)). specialize (IH C). lra. Qed.

Lemma S_of_cons v c V C : S_of (v :: V) (c :: C) = sqrt (v * c) + S_of V C.
Proof. reflexivity. Qed.

(* one level: V/N <= sqrt(V C) * B / T *)
Lemma level_budget v c n T B : 0 < v -> 0 < c -> 0 < T -> 0 < B -> sqrt (v / c) * T / B <= n ->
  v / n <= sqrt (v * c) * B / T.
Proof. intros Hv Hc HT HB Hn.
  assert (Hq : 0 < v / c) by (apply Rdiv_lt_0_compat; assumption).
  assert (Hs : 0 < sqrt (v / c)) by (apply sqrt_lt_R0; exact Hq).
  assert (Hx : 0 < sqrt (v / c) * T / B).
  { apply Rdiv_lt_0_compat; [apply Rmult_lt_0_compat|]; assumption. }
  assert (Hn0 : 0 < n) by lra.
  assert (Hprod : sqrt (v / c) * sqrt (v * c) = v).
  { rewrite <- sqrt_mult by (try apply Rlt_le; try assumption; apply Rmult_lt_0_compat; assumption).
    replace (v / c * (v * c)) with (v * v) by (field; lra). apply sqrt_square. lra. }
  assert (Hsc : 0 <= sqrt (v * c)) by apply sqrt_pos.
  (* v / n <= v / x  and  v / x = sqrt(vc) * B / T *)
  apply Rle_trans with (v / (sqrt (v / c) * T / B)).
  - unfold Rdiv at 1 2. apply Rmult_le_compat_l; [lra|]. apply Rinv_le_contravar; assumption.
  - right. rewrite <- Hprod at 1. field. repeat split; lra. Qed.

(* C06_budget, general form: ANY sample sizes that reach the real-valued optimum meet the variance budget *)
Theorem budget_general B T : 0 < B -> 0 < T -> forall V C N,
  Forall (fun v => 0 <= v) V -> Forall (fun c => 0 < c) C -> ge_bound T B V C N ->
  est_var V N <= S_of V C * B / T.
Proof. intros HB HT. induction V as [|v V IH]; intros [|c C] [|n N] HV HC HG; simpl in HG; try contradiction.
  - simpl. unfold S_of; simpl. lra.
  - inversion HV as [|? ? Hv HV']; inversion HC as [|? ? Hc HC']; subst. destruct HG as [Hn HG].
    specialize (IH C N HV' HC' HG). rewrite S_of_cons. simpl est_var.
    destruct (Rltb 0 v) eqn:E.
    + apply Rltb_true in E. pose proof (level_budget v c n T B E Hc HT HB Hn).
      replace ((sqrt (v * c) + S_of V C) * B / T) with (sqrt (v * c) * B / T + S_of V C * B / T) by (field; lra). lra.
    + pose proof (sqrt_pos (v * c)).
      assert (0 <= sqrt (v * c) * B / T).
      { apply Rmult_le_pos; [apply Rmult_le_pos; lra|]. apply Rlt_le, Rinv_0_lt_compat; exact HT. }
      replace ((sqrt (v * c) + S_of V C) * B / T) with (sqrt (v * c) * B / T + S_of V C * B / T) by (field; lra). lra. Qed.

Lemma alloc_ge_bound rmse T : forall V C, length V = length C -> Forall (fun c => 0 < c) C -> in_range rmse T V C ->
  ge_bound T (var_share rmse) V C (alloc_with rmse T V C).
Proof. induction V as [|v V IH]; intros [|c C] HL HC HR; simpl in HL; try discriminate; simpl; [exact I|].
  inversion HC; subst. destruct HR as [Hr HR]. split; [|apply IH; [lia|assumption|assumption]].
  rewrite core_pos_cost; [apply Rceil_ub|assumption|].
  unfold giles_optimal, cost_used in Hr. destruct (Reqb c 0) eqn:E; [apply Reqb_true in E; lra|]. exact Hr. Qed.

Lemma est_var_zero V : Forall (fun v => 0 <= v) V -> forall C N, S_of V C = 0 -> Forall (fun c => 0 < c) C ->
  length V = length C -> est_var V N = 0.
Proof. induction 1 as [|v V Hv HV IH]; intros [|c C] N HS HC HL; simpl in HL; try discriminate; [reflexivity|].
  destruct N as [|n N]; [reflexivity|]. simpl. rewrite S_of_cons in HS. inversion HC; subst.
  pose proof (sqrt_pos (v * c)). pose proof (S_of_nonneg V C).
  assert (Hz : sqrt (v * c) = 0) by lra. assert (HS' : S_of V C = 0) by lra.
  assert (v = 0). { apply sqrt_eq_0 in Hz; [|apply Rmult_le_pos; lra]. apply Rmult_integral in Hz. destruct Hz; lra. }
  subst v. destruct (Rltb 0 0) eqn:E; [apply Rltb_true in E; lra|]. rewrite (IH C N HS'); auto. lra. Qed.

(* C06_budget for the code's answer: ceil'ed Giles allocation, all vectors with positive costs, all rmse > 0, whenever the
   optimum is a representable integer on every level (otherwise the code raises ValueError) *)
Theorem budget rmse V C : 0 < rmse -> length V = length C ->
  Forall (fun v => 0 <= v) V -> Forall (fun c => 0 < c) C -> in_range rmse (S_of V C) V C ->
  est_var V (giles_alloc rmse V C) <= var_share rmse.
Proof. intros Hr HL HV HC HR. pose proof (var_share_pos rmse Hr) as HB. unfold giles_alloc.
  destruct (Req_dec (S_of V C) 0) as [E|E].
  - rewrite (est_var_zero V HV C _ E HC HL). lra.
  - pose proof (S_of_nonneg V C). assert (HT : 0 < S_of V C) by lra.
    pose proof (budget_general _ _ HB HT V C _ HV HC (alloc_ge_bound rmse (S_of V C) V C HL HC HR)) as Hb.
    replace (S_of V C * var_share rmse / S_of V C) with (var_share rmse) in Hb by (field; lra). exact Hb. Qed.

(* outside that range the answer is the error value: no wrapped integer is ever returned *)
Lemma core_out_of_range rmse v c T : int_bound <= giles_optimal rmse v c T -> giles_alloc_core rmse v c T = -1.
Proof. intros H. rewrite core_spec. destruct (Rltb _ _) eqn:E; [apply Rltb_true in E; lra|reflexivity]. Qed.

(* F-C06-2: a level with zero cost and positive variance is given N = 1 and the budget is exceeded *)
Lemma Rceil_eq x n : IZR (n - 1) < x <= IZR n -> Rceil x = IZR n.
Proof. intros H. unfold Rceil. f_equal. apply Zceil_imp. exact H. Qed.

Theorem budget_zero_cost_refuted :
  exists rmse V C, 0 < rmse /\ Forall (fun v => 0 <= v) V /\ Forall (fun c => 0 <= c) C /\
                   var_share rmse < est_var V (giles_alloc rmse V C).
Proof. exists 1, [1; 1], [1; 0]. split; [lra|]. split; [repeat constructor; lra|]. split; [repeat constructor; lra|].
  unfold giles_alloc, S_of. simpl sqrt_vc. simpl Rsum. rewrite Rmult_1_r, Rmult_0_r, sqrt_1, sqrt_0.
  simpl alloc_with. simpl est_var.
  destruct (Rltb 0 1) eqn:E; [|apply Rltb_false in E; lra]. clear E.
  set (big := IZR 1000000000000000000000000000000 / IZR 1).
  assert (Hbig : 4 <= big) by (unfold big; lra).
  assert (Hs : 0 < sqrt (1 / big) <= 1 / 2).
  { split; [apply sqrt_lt_R0; apply Rdiv_lt_0_compat; lra|].
    replace (1 / 2) with (sqrt (1 / 2 * (1 / 2))) by (apply sqrt_square; lra). apply sqrt_le_1_alt.
    apply Rle_trans with (1 / 4); [|lra]. unfold Rdiv. rewrite !Rmult_1_l. apply Rinv_le_contravar; lra. }
  pose proof int_bound_big as HI.
  assert (E0 : giles_optimal 1 1 1 (1 + (0 + 0)) = 4 / 3).
  { unfold giles_optimal, cost_used. destruct (Reqb 1 0) eqn:E; [apply Reqb_true in E; lra|].
    replace (1 / 1) with 1 by field. rewrite sqrt_1. field. }
  assert (E1 : giles_optimal 1 1 0 (1 + (0 + 0)) = sqrt (1 / big) * (1 + (0 + 0)) / ((1 - 1 / 4) * 1 ^ 2)).
  { unfold giles_optimal, cost_used. assert (Hq : Reqb 0 0 = true) by (apply Reqb_true; reflexivity). rewrite Hq. reflexivity. }
  rewrite !core_spec. rewrite E0, E1.
  assert (Hy1 : sqrt (1 / big) * (1 + (0 + 0)) / ((1 - 1 / 4) * 1 ^ 2) <= 1).
  { apply Rle_trans with ((1 / 2) * (1 + (0 + 0)) / ((1 - 1 / 4) * 1 ^ 2)); [|lra].
    apply Rmult_le_compat_r; [apply Rlt_le, Rinv_0_lt_compat; lra|]. apply Rmult_le_compat_r; lra. }
  destruct (Rltb (4 / 3) int_bound) eqn:R0; [|apply Rltb_false in R0; lra].
  destruct (Rltb (sqrt (1 / big) * (1 + (0 + 0)) / ((1 - 1 / 4) * 1 ^ 2)) int_bound) eqn:R1; [|apply Rltb_false in R1; lra].
  match goal with |- context [_ / Rceil ?x0 + (_ / Rceil ?x1 + 0)] => set (y0 := x0); set (y1 := x1) end.
  assert (H1 : Rceil y1 = 1).
  { apply (Rceil_eq _ 1%Z). simpl. unfold y1. split; [|exact Hy1].
    apply Rdiv_lt_0_compat; [|lra]. apply Rmult_lt_0_compat; lra. }
  rewrite H1.
  assert (H0 : 0 < Rceil y0).
  { eapply Rlt_le_trans; [|apply Rceil_ub]. unfold y0. lra. }
  assert (0 < 1 / Rceil y0) by (apply Rdiv_lt_0_compat; lra).
  unfold var_share. lra. Qed.

(* ------------------------------------------------------------------ the bias test *)
Lemma criteria_giles_spec alpha ml rmse :
  criteria_giles alpha ml rmse = true <-> giles_rem alpha ml <= sqrt (1 / 4) * rmse.
Proof. unfold criteria_giles, giles_rem. rewrite Rleb_true. reflexivity. Qed.

Lemma sqrt_quarter : sqrt (1 / 4) = 1 / 2.
Proof. replace (1 / 4) with (1 / 2 * (1 / 2)) by field. apply sqrt_square. lra. Qed.

Lemma nth_nonneg (l : list R) k : Forall (fun m => 0 <= m) l -> 0 <= nth k l 0.
Proof. intros H. revert k. induction H; intros [|k]; simpl; try lra; auto. Qed.

(* for absolute level means and a weak rate with 2^alpha > 1 (alpha > 0) the bias estimate is non-negative;
   for alpha = 0 the code divides by zero (inf/nan -> False), the real-number model is not meaningful there *)
Lemma giles_rem_nonneg alpha ml : Forall (fun m => 0 <= m) ml -> 1 < Rpower 2 alpha -> 0 <= giles_rem alpha ml.
Proof. intros H Ha. unfold giles_rem.
  assert (H1 : 0 <= nth (length ml - 1) ml 0) by now apply nth_nonneg.
  set (r1 := nth (length ml - 1) ml 0) in *.
  set (r2 := if Nat.leb 2 (length ml) then Rmax r1 (nth (length ml - 2) ml 0 / Rpower 2 alpha) else r1).
  assert (H2 : 0 <= r2) by (unfold r2; destruct (Nat.leb 2 (length ml)); [eapply Rle_trans; [exact H1|apply Rmax_l]|exact H1]).
  set (r3 := if Nat.leb 3 (length ml) then Rmax r2 (nth (length ml - 3) ml 0 / Rpower 2 (2 * alpha)) else r2).
  assert (H3 : 0 <= r3) by (unfold r3; destruct (Nat.leb 3 (length ml)); [eapply Rle_trans; [exact H2|apply Rmax_l]|exact H2]).
  apply Rmult_le_pos; [exact H3|]. apply Rlt_le, Rinv_0_lt_compat. lra. Qed.

(* squared bias tolerance + variance share = rmse^2: whenever the bias test passes (level means >= 0, 2^alpha > 1),
   bias^2 + (1 - theta) rmse^2 <= rmse^2 *)
Theorem bias_plus_variance alpha ml rmse : 0 <= rmse -> Forall (fun m => 0 <= m) ml -> 1 < Rpower 2 alpha ->
  criteria_giles alpha ml rmse = true ->
  (giles_rem alpha ml) ^ 2 + var_share rmse <= rmse ^ 2
  /\ (sqrt (1 / 4) * rmse) ^ 2 + var_share rmse = rmse ^ 2.
Proof. intros Hr Hm Ha Hc. pose proof (giles_rem_nonneg alpha ml Hm Ha) as H0.
  apply criteria_giles_spec in Hc. rewrite sqrt_quarter in *. unfold var_share. split; [|field].
  assert (giles_rem alpha ml ^ 2 <= (1 / 2 * rmse) ^ 2) by (apply pow_incr; lra). nra. Qed.

(* the tolerance before the repair (rmse / sqrt 2) did not fit: 1/2 + 3/4 > 1 *)
Lemma bias_plus_variance_before_repair rmse : 0 < rmse -> rmse ^ 2 < (rmse / sqrt 2) ^ 2 + var_share rmse.
Proof. intros H. unfold var_share. assert (Hs : sqrt 2 * sqrt 2 = 2) by (apply sqrt_sqrt; lra).
  assert (0 < sqrt 2) by (apply sqrt_lt_R0; lra).
  replace ((rmse / sqrt 2) ^ 2) with (rmse ^ 2 / (sqrt 2 * sqrt 2)) by (field; lra). rewrite Hs.
  assert (0 < rmse ^ 2) by (apply pow_lt; exact H). lra. Qed.

(* ------------------------------------------------------------------ helpers of the interval-certified case lemmas *)
Lemma Reqb_refl x : Reqb x x = true.
Proof. now apply Reqb_true. Qed.
Lemma Reqb_neq x y : x <> y -> Reqb x y = false.
Proof. intros H. destruct (Reqb x y) eqn:E; [apply Reqb_true in E; contradiction|reflexivity]. Qed.
Lemma Rceil_between x lo hi : (hi = lo + 1)%Z -> IZR lo < x <= IZR hi -> Rceil x = IZR hi.
Proof. intros -> H. apply Rceil_eq. replace (lo + 1 - 1)%Z with lo by ring. exact H. Qed.
Lemma cons_eq {A} (a a' : A) l l' : a = a' -> l = l' -> a :: l = a' :: l'.
Proof. now intros -> ->. Qed.
(* a level without variance gets no sample *)
Lemma core_zero_var rmse c T : giles_alloc_core rmse 0 c T = 0.
Proof. rewrite core_spec. assert (E : giles_optimal rmse 0 c T = 0) by (unfold giles_optimal, Rdiv; rewrite !Rmult_0_l, sqrt_0, !Rmult_0_l; reflexivity).
  rewrite E. pose proof int_bound_big. destruct (Rltb 0 int_bound) eqn:R; [exact (Rceil_IZR 0)|apply Rltb_false in R; lra]. Qed.
Lemma Rltb_intro x y : x < y -> Rltb x y = true.
Proof. apply Rltb_true. Qed.

(* ------------------------------------------------------------------ the quotients V_l / N_l are meaningful *)
(* est_var divides by N_l; Coq's x / 0 = 0 would make a level with variance and NO sample contribute nothing.  Under the
   hypotheses of the budget theorem that cannot happen: every level with variance gets at least one sample. *)
Fixpoint pos_where_var (V N : list R) : Prop :=
  match V, N with
  | v :: V', n :: N' => (0 < v -> 1 <= n) /\ pos_where_var V' N'
  | _, _ => True
  end.

Lemma alloc_with_pos rmse T : 0 < rmse -> 0 < T -> forall V C, length V = length C -> Forall (fun c => 0 < c) C ->
  in_range rmse T V C -> pos_where_var V (alloc_with rmse T V C).
Proof. intros Hr HT. induction V as [|v V IH]; intros [|c C] HL HC HR; simpl in HL; try discriminate; simpl; [exact I|].
  inversion HC; subst. destruct HR as [Hb HR]. split; [|apply IH; auto].
  intros Hv. unfold giles_optimal, cost_used in Hb. destruct (Reqb c 0) eqn:E; [apply Reqb_true in E; lra|].
  rewrite core_pos_cost by assumption.
  assert (Hx : 0 < sqrt (v / c) * T / var_share rmse).
  { apply Rdiv_lt_0_compat; [|now apply var_share_pos]. apply Rmult_lt_0_compat; [|exact HT].
    apply sqrt_lt_R0. now apply Rdiv_lt_0_compat. }
  pose proof (Rceil_ub (sqrt (v / c) * T / var_share rmse)) as Hu.
  unfold Rceil in *. assert (0 < IZR (Zceil (sqrt (v / c) * T / var_share rmse))) by lra.
  apply lt_IZR in H. apply (IZR_le 1). lia. Qed.

Lemma S_zero_no_variance V : Forall (fun v => 0 <= v) V -> forall C, S_of V C = 0 -> Forall (fun c => 0 < c) C ->
  length V = length C -> Forall (fun v => v = 0) V.
Proof. induction 1 as [|v V Hv HV IH]; intros [|c C] HS HC HL; simpl in HL; try discriminate; constructor.
  - rewrite S_of_cons in HS. inversion HC; subst. pose proof (sqrt_pos (v * c)). pose proof (S_of_nonneg V C).
    assert (Hz : sqrt (v * c) = 0) by lra. apply sqrt_eq_0 in Hz; [|apply Rmult_le_pos; lra].
    apply Rmult_integral in Hz. destruct Hz; lra.
  - rewrite S_of_cons in HS. inversion HC; subst. pose proof (sqrt_pos (v * c)). pose proof (S_of_nonneg V C).
    apply (IH C); auto. lra. Qed.

Theorem samples_where_variance rmse V C : 0 < rmse -> length V = length C ->
  Forall (fun v => 0 <= v) V -> Forall (fun c => 0 < c) C -> in_range rmse (S_of V C) V C ->
  pos_where_var V (giles_alloc rmse V C).
Proof. intros Hr HL HV HC HR. unfold giles_alloc. destruct (Req_dec (S_of V C) 0) as [E|E].
  - pose proof (S_zero_no_variance V HV C E HC HL) as HZ. clear - HZ.
    generalize (alloc_with rmse (S_of V C) V C). induction HZ; intros [|n N]; simpl; auto. split; [intros; lra|apply IHHZ].
  - pose proof (S_of_nonneg V C). apply alloc_with_pos; auto. lra. Qed.

(* C06 -- budget and loop composed: at a return from the convergence branch whose last allocation answer is the Giles
   allocation for (V, C), the estimator variance with the ACTUAL sample sizes is within 1% of the variance share. *)
From Coq Require Import Reals List Bool Lra Lia ZArith QArith.
From RV Require Import Base.RB Base.RCeilMC Gen.GenC06Criteria Model.Alloc Model.McStats Model.Mlmc Proofs.C06_Alloc Proofs.C06_Loop.
Import ListNotations.
Open Scope R_scope.

(* the 1% rule in real numbers: every N_l is non-negative and at most 1% below its target *)
Fixpoint within_pct (N Ns : list R) : Prop :=
  match N, Ns with
  | n :: N', ns :: Ns' => 0 <= n /\ 100 * (ns - n) <= n /\ within_pct N' Ns'
  | [], [] => True
  | _, _ => False
  end.

Lemma ge_bound_relaxed T B : 0 < B -> 0 <= T -> forall V C Ns N,
  Forall (fun v => 0 <= v) V -> Forall (fun c => 0 < c) C ->
  ge_bound T B V C Ns -> within_pct N Ns -> ge_bound T (101 / 100 * B) V C N.
Proof. intros HB HT. induction V as [|v V IH]; intros [|c C] [|ns Ns] [|n N] HV HC HG HW; simpl in *; try contradiction; auto.
  inversion HV; inversion HC; subst. destruct HG as [Hg HG]. destruct HW as [Hn [Hp HW]]. split; [|eapply IH; eauto].
  replace (sqrt (v / c) * T / (101 / 100 * B)) with (sqrt (v / c) * T / B * (100 / 101)) by (field; lra). lra. Qed.

Theorem budget_at_return rmse V C N : 0 < rmse -> length V = length C ->
  Forall (fun v => 0 <= v) V -> Forall (fun c => 0 < c) C -> in_range rmse (S_of V C) V C ->
  within_pct N (giles_alloc rmse V C) -> est_var V N <= 101 / 100 * var_share rmse.
Proof. intros Hr HL HV HC HR HW. pose proof (var_share_pos rmse Hr) as HB.
  destruct (Req_dec (S_of V C) 0) as [E|E].
  - rewrite (est_var_zero V HV C _ E HC HL). lra.
  - pose proof (S_of_nonneg V C). assert (HT : 0 < S_of V C) by lra.
    assert (HB' : 0 < 101 / 100 * var_share rmse) by lra.
    pose proof (ge_bound_relaxed _ _ HB (Rlt_le _ _ HT) V C _ N HV HC (alloc_ge_bound rmse (S_of V C) V C HL HC HR) HW) as HG.
    pose proof (budget_general _ _ HB' HT V C N HV HC HG) as Hb.
    replace (S_of V C * (101 / 100 * var_share rmse) / S_of V C) with (101 / 100 * var_share rmse) in Hb by (field; lra). exact Hb. Qed.

(* from the integer facts the loop theorem gives to the real 1% rule *)
Lemma pct_cast (n : nat) (ns : Z) : (100 * Z.to_nat (ns - Z.of_nat n) <= n)%nat -> 0 <= INR n /\ 100 * (IZR ns - INR n) <= INR n.
Proof. intros H. split; [apply pos_INR|]. rewrite INR_IZR_INZ. rewrite <- minus_IZR, <- mult_IZR. apply IZR_le. lia. Qed.

Lemma skipn_nth_cons (Ns : list Z) l : (l < length Ns)%nat -> skipn l Ns = nth l Ns 0%Z :: skipn (S l) Ns.
Proof. revert l. induction Ns as [|x Ns IH]; intros l H; simpl in H; [lia|]. destruct l; [reflexivity|]. simpl. apply IH. lia. Qed.

Lemma within_pct_of_loop Ns : forall vs l, dN_is Ns l vs -> Forall (fun v => (100 * ldN v <= lN v)%nat) vs ->
  (l + length vs = length Ns)%nat ->
  within_pct (map (fun v => INR (lN v)) vs) (map IZR (skipn l Ns)).
Proof. induction vs as [|v r IH]; intros l HD HF HL.
  - cbn [length map] in *. rewrite skipn_all2 by lia. exact I.
  - cbn [length] in HL. rewrite (skipn_nth_cons Ns l) by lia. cbn [map within_pct]. destruct HD as [Hd HD].
    inversion HF as [|? ? H1 HF']; subst.
    rewrite Hd in H1. destruct (pct_cast _ _ H1) as [P1 P2]. split; [exact P1|]. split; [exact P2|].
    apply IH; auto. lia. Qed.

(* the composed statement: a Converged return (C06_safety) whose last allocation answer is the (ceil'ed) Giles
   allocation of some V >= 0, C > 0: sum V_l / N_l <= 1.01 (1 - theta) rmse^2 for the sample sizes N_l actually used *)
Theorem budget_at_converged_return
  sample cost alloc conv garbage df notional level_max phantom fuel L0 N0 s rmse V C :
  (L0 <= level_max)%nat ->
  price_run sample cost alloc conv garbage df notional level_max phantom fuel L0 N0 = Converged s ->
  0 < rmse -> length V = length C -> Forall (fun v => 0 <= v) V -> Forall (fun c => 0 < c) C ->
  in_range rmse (S_of V C) V C ->
  length (alloc (nalloc s - 1)%nat) = length (levels s) ->
  map IZR (alloc (nalloc s - 1)%nat) = giles_alloc rmse V C ->
  est_var V (map (fun v => INR (lN v)) (levels s)) <= 101 / 100 * var_share rmse.
Proof. intros HL Hrun Hr Hlen HV HC HR Hal Heq.
  pose proof (price_safety sample cost alloc conv df notional level_max phantom fuel garbage L0 N0 HL) as S.
  rewrite Hrun in S. simpl in S. destruct S as [_ [Hpct [_ [_ [_ Hd]]]]].
  apply (budget_at_return rmse V C); auto. rewrite <- Heq.
  apply (within_pct_of_loop (alloc (nalloc s - 1)%nat) (levels s) 0%nat Hd Hpct). simpl. now rewrite Hal. Qed.

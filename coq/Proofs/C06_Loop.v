(* C06 -- safety and termination of the adaptive loop of Model/Mlmc.v (the state machine shared with C05),
   for ALL oracles (allocation answers, convergence answers, samples, costs). *)
From Coq Require Import List ZArith QArith Bool Lia.
From RV Require Import Base.QB Model.McStats Model.Mlmc.
Import ListNotations.
Open Scope nat_scope.

Section Safety.
  Variable sample : nat -> nat -> Q * Q.
  Variable cost : nat -> nat -> Q.
  Variable alloc : nat -> list Z.
  Variable conv : nat -> bool.
  Variables df notional : Q.
  Variable level_max : nat.
  Variable phantom : nat.
  Notation LOOP := (loop sample cost alloc conv df notional level_max phantom).
  Notation RUN := (run_levels sample cost df notional).

  Lemma run_levels_length vs : forall l, length (RUN l vs) = length vs.
  Proof. induction vs; simpl; intros; auto. Qed.
  Lemma set_dN_length Ns vs : forall l, length (set_dN Ns l vs) = length vs.
  Proof. induction vs; simpl; intros; auto. Qed.

  Lemma within_one_pct_spec vs : within_one_pct vs = true <-> Forall (fun v => 100 * ldN v <= lN v) vs.
  Proof. unfold within_one_pct. rewrite forallb_forall, Forall_forall. split; intros H v Hv; specialize (H v Hv).
    - now apply Nat.leb_le in H. - now apply Nat.leb_le. Qed.

  Lemma not_within_demand vs : within_one_pct vs = false -> total_dN vs <> 0.
  Proof. induction vs as [|v r IH]; simpl; [discriminate|]. intros H. apply andb_false_iff in H. destruct H as [H|H].
    - apply Nat.leb_gt in H. lia. - specialize (IH H). lia. Qed.

  Lemma total_dN_ext vs : total_dN (map ext_level vs) = total_dN vs.
  Proof. induction vs as [|v r IH]; simpl; [reflexivity|]. now rewrite IH. Qed.

  Lemma set_dN_app Ns a v : forall l, exists d,
    set_dN Ns l (a ++ [v]) = set_dN Ns l a ++ [mkLev (lN v) d (lcnt v) (lcost v) (lrows v) (lpasses v)].
  Proof. induction a as [|x a IH]; simpl; intros l.
    - eexists. reflexivity.
    - destruct (IH (S l)) as [d Hd]. exists d. now rewrite Hd. Qed.

  (* dNl = np.maximum(0, Ns - Nl) for the allocation answer Ns *)
  Fixpoint dN_is (Ns : list Z) (l : nat) (vs : list lev) : Prop :=
    match vs with
    | [] => True
    | v :: r => ldN v = Z.to_nat (nth l Ns 0%Z - Z.of_nat (lN v)) /\ dN_is Ns (S l) r
    end.
  Lemma set_dN_is Ns vs : forall l, dN_is Ns l (set_dN Ns l vs).
  Proof. induction vs as [|v r IH]; simpl; intros l; [exact I|]. split; [reflexivity|apply IH]. Qed.

  (* what a return of the repaired/unrepaired Engine.price guarantees *)
  Definition safe_outcome (o : outcome state) : Prop :=
    match o with
    | Converged s =>
        length (levels s) <= S level_max                              (* no level above the maximum *)
        /\ Forall (fun v => 100 * ldN v <= lN v) (levels s)          (* every level within 1% of its optimum *)
        /\ 1 <= nconv s
        /\ (conv (nconv s - 1) = true \/ length (levels s) - 1 = level_max)   (* bias test passed or L = level_max *)
        /\ 1 <= nalloc s /\ dN_is (alloc (nalloc s - 1)) 0 (levels s)   (* ldN = max(0, last allocation answer - N_l) *)
    | Fallthrough s => length (levels s) <= S level_max /\ total_dN (levels s) = 0
    | OutOfFuel => True
    end.

  Theorem safety : forall fuel s, 1 <= length (levels s) <= S level_max -> safe_outcome (LOOP fuel s).
  Proof. induction fuel as [|f IH]; intros s Hs; simpl; [exact I|].
    destruct (Nat.eqb (total_dN (levels s)) 0) eqn:E0.
    - simpl. apply Nat.eqb_eq in E0. lia.
    - set (vs1 := set_dN (alloc (nalloc s)) 0 (RUN 0 (levels s))).
      assert (Hl : length vs1 = length (levels s)) by (unfold vs1; now rewrite set_dN_length, run_levels_length).
      destruct (within_one_pct vs1) eqn:E1.
      + destruct (conv (nconv s) || Nat.eqb (length vs1 - 1) level_max)%bool eqn:E2.
        * simpl. rewrite Nat.sub_0_r. split; [lia|]. split; [now apply within_one_pct_spec|]. split; [lia|].
          split; [apply orb_true_iff in E2; destruct E2 as [E2|E2]; [left; exact E2|right; now apply Nat.eqb_eq in E2]|].
          split; [lia|]. rewrite Nat.sub_0_r. unfold vs1. apply set_dN_is.
        * apply IH. simpl. rewrite map_length, set_dN_length, app_length. simpl.
          apply orb_false_iff in E2. destruct E2 as [_ E2]. apply Nat.eqb_neq in E2. lia.
      + apply IH. simpl. rewrite map_length. lia. Qed.

  Corollary price_safety fuel garbage L0 N0 : L0 <= level_max ->
    safe_outcome (price_run sample cost alloc conv garbage df notional level_max phantom fuel L0 N0).
  Proof. intros H. apply safety. unfold init_state; simpl. rewrite map_length, seq_length. lia. Qed.

  (* the post-loop return happens only on the initial state or right after a level was added that got no sample *)
  Theorem fallthrough_characterised : forall fuel s s', LOOP fuel s = Fallthrough s' ->
    total_dN (levels s') = 0 /\
    (s' = s \/ exists pre v, levels s' = pre ++ [v] /\ lN v = phantom /\ lcnt v = 0 /\ ldN v = 0).
  Proof. induction fuel as [|f IH]; intros s s' H; simpl in H; [discriminate|].
    destruct (Nat.eqb (total_dN (levels s)) 0) eqn:E0.
    - injection H as <-. apply Nat.eqb_eq in E0. auto.
    - set (vs1 := set_dN (alloc (nalloc s)) 0 (RUN 0 (levels s))) in *.
      destruct (within_one_pct vs1) eqn:E1.
      + destruct (conv (nconv s) || Nat.eqb (length vs1 - 1) level_max)%bool; [discriminate|].
        destruct (IH _ _ H) as [Hz [Hs|Hs]]; [|auto].
        split; [exact Hz|]. right. subst s'. simpl in *.
        destruct (set_dN_app (alloc (S (nalloc s))) vs1 (new_level phantom) 0) as [d Hd].
        rewrite total_dN_ext, Hd in Hz. rewrite Hd, map_app. simpl.
        assert (G : forall a x, total_dN (a ++ [x]) = 0 -> ldN x = 0) by (induction a; simpl; intros; [lia|apply IHa; lia]).
        specialize (G _ _ Hz). simpl in G.
        eexists. eexists. split; [reflexivity|]. simpl. auto.
      + destruct (IH _ _ H) as [Hz [Hs|Hs]]; [|auto]. exfalso. subst s'. simpl in Hz. rewrite total_dN_ext in Hz.
        now apply not_within_demand in E1. Qed.
End Safety.

(* ------------------------------------------------------------------ witnesses of what is NOT guaranteed *)
Definition w2_sample (l n : nat) : Q * Q := (inject_Z (Z.of_nat (S n)), 0%Q).

(* the post-loop return: no bias test has passed, the maximum level is not reached (repaired code, phantom = 0):
   the level added after the failed bias test was allocated 0 samples *)
Lemma return_without_bias_test :
  exists s, price_run w2_sample (fun _ _ => 1%Q) (tab_alloc [[3; 3; 3]; [3; 3; 3; 0]]%Z) (fun _ => false) const_garbage 1%Q 1%Q 5 0 10 2 3
            = Fallthrough s /\ length (levels s) - 1 < 5 /\ nconv s = 1 /\ map lN (levels s) = [3; 3; 3; 0].
Proof. vm_compute. eexists. repeat split. lia. Qed.

(* initial level above the maximum level: levels above the maximum are simulated (L == level_max is never true) *)
Lemma level_above_maximum :
  exists s, price_run w2_sample (fun _ _ => 1%Q) (tab_alloc [[3; 3; 3; 3]]%Z) (fun _ => true) const_garbage 1%Q 1%Q 1 0 10 3 3
            = Converged s /\ map lN (levels s) = [3; 3; 3; 3] /\ 1 < length (levels s) - 1.
Proof. vm_compute. eexists. repeat split. lia. Qed.

(* ------------------------------------------------------------------ termination under bounded demand *)
Section Termination.
  Variable sample : nat -> nat -> Q * Q.
  Variable cost : nat -> nat -> Q.
  Variable alloc : nat -> list Z.
  Variable conv : nat -> bool.
  Variables df notional : Q.
  Variable level_max : nat.
  Notation LOOP := (loop sample cost alloc conv df notional level_max 0).
  Notation RUN := (run_levels sample cost df notional).

  Variable Bd : nat.                      (* bound on every allocation answer *)
  Hypothesis alloc_bounded : forall k l, (nth l (alloc k) 0 <= Z.of_nat Bd)%Z.
  Variable M : nat.
  Hypothesis Bd_le_M : Bd <= M.

  Definition slack (vs : list lev) : nat := fold_right (fun v a => (M - lN v) + a) 0 vs.
  Definition mu (vs : list lev) : nat := (S level_max - length vs) * M + slack vs.

  Lemma run_slack vs : forall l, Forall (fun v => lN v + ldN v <= M) vs ->
    slack (RUN l vs) + total_dN vs = slack vs /\ Forall (fun v => lN v <= M) (RUN l vs).
  Proof. induction vs as [|v r IH]; simpl; intros l H; [split; [reflexivity|constructor]|].
    inversion H as [|? ? Hv Hr]; subst. destruct (IH (S l) Hr) as [H1 H2]. split; [|constructor; [simpl; lia|exact H2]].
    simpl. lia. Qed.

  Lemma set_dN_slack k vs : forall l, Forall (fun v => lN v <= M) vs ->
    slack (set_dN (alloc k) l vs) = slack vs /\ Forall (fun v => lN v + ldN v <= M) (set_dN (alloc k) l vs).
  Proof. induction vs as [|v r IH]; simpl; intros l H; [split; [reflexivity|constructor]|].
    inversion H as [|? ? Hv Hr]; subst. destruct (IH (S l) Hr) as [H1 H2]. split; [simpl; lia|].
    constructor; [|exact H2]. simpl. pose proof (alloc_bounded k l). lia. Qed.

  Lemma ext_slack vs : slack (map ext_level vs) = slack vs.
  Proof. induction vs as [|v r IH]; simpl; [reflexivity|]. now rewrite IH. Qed.
  Lemma ext_bound vs : Forall (fun v => lN v + ldN v <= M) vs -> Forall (fun v => lN v + ldN v <= M) (map ext_level vs).
  Proof. induction 1; simpl; constructor; auto. Qed.
  Lemma slack_app vs v : slack (vs ++ [v]) = slack vs + (M - lN v).
  Proof. induction vs as [|x r IH]; simpl; [lia|]. rewrite IH. lia. Qed.

  Definition Inv (vs : list lev) : Prop := 1 <= length vs <= S level_max /\ Forall (fun v => lN v + ldN v <= M) vs.

  Lemma no_out_of_fuel : forall m s, Inv (levels s) -> mu (levels s) < m -> LOOP m s <> OutOfFuel.
  Proof. induction m as [|m IH]; intros s [Hlen Hb] Hmu; [lia|]. simpl.
    destruct (Nat.eqb (total_dN (levels s)) 0) eqn:E0; [discriminate|]. apply Nat.eqb_neq in E0.
    destruct (run_slack (levels s) 0 Hb) as [Hs1 Hb1].
    destruct (set_dN_slack (nalloc s) (RUN 0 (levels s)) 0 Hb1) as [Hs2 Hb2].
    set (vs1 := set_dN (alloc (nalloc s)) 0 (RUN 0 (levels s))) in *.
    assert (Hl : length vs1 = length (levels s)).
    { assert (G1 : forall Ns vs l, length (set_dN Ns l vs) = length vs) by (induction vs; simpl; intros; auto).
      assert (G2 : forall vs l, length (RUN l vs) = length vs) by (induction vs; simpl; intros; auto).
      unfold vs1. now rewrite G1, G2. }
    destruct (within_one_pct vs1) eqn:E1.
    - destruct (conv (nconv s) || Nat.eqb (length vs1 - 1) level_max)%bool eqn:E2; [discriminate|].
      apply orb_false_iff in E2. destruct E2 as [_ E2]. apply Nat.eqb_neq in E2.
      assert (Hb1' : Forall (fun v => lN v <= M) (vs1 ++ [new_level 0])).
      { apply Forall_app. split; [|repeat constructor; simpl; lia]. eapply Forall_impl; [|exact Hb2]. simpl. intros; lia. }
      destruct (set_dN_slack (S (nalloc s)) (vs1 ++ [new_level 0]) 0 Hb1') as [Hs3 Hb3].
      apply IH.
      + split; [|simpl; now apply ext_bound]. simpl. rewrite map_length.
        assert (G : forall Ns vs l, length (set_dN Ns l vs) = length vs) by (induction vs; simpl; intros; auto).
        rewrite G, app_length. simpl. lia.
      + unfold mu in *. simpl levels. rewrite map_length, ext_slack, Hs3, slack_app.
        assert (G : forall Ns vs l, length (set_dN Ns l vs) = length vs) by (induction vs; simpl; intros; auto).
        rewrite G, app_length. simpl length. simpl lN. rewrite Nat.sub_0_r.
        replace (S level_max - (length vs1 + 1)) with (S level_max - length vs1 - 1) by lia.
        assert (Ha : 1 <= S level_max - length vs1) by lia.
        remember (S level_max - length vs1) as a.
        assert ((a - 1) * M + M = a * M) by (destruct a; [lia|simpl; rewrite Nat.sub_0_r; lia]).
        rewrite Hl in Heqa. rewrite <- Heqa in Hmu. lia.
    - apply IH.
      + split; [simpl; rewrite map_length; lia|simpl; now apply ext_bound].
      + unfold mu in *. simpl levels. rewrite map_length, ext_slack, Hl. lia. Qed.

  Theorem terminates garbage L0 N0 : L0 <= level_max -> N0 <= M ->
    exists fuel, price_run sample cost alloc conv garbage df notional level_max 0 fuel L0 N0 <> OutOfFuel.
  Proof. intros HL HN. exists (S (mu (levels (init_state garbage L0 N0)))). apply no_out_of_fuel; [|lia].
    split; [unfold init_state; simpl; rewrite map_length, seq_length; lia|].
    unfold init_state; cbn [levels]. apply Forall_forall. intros v Hv. apply in_map_iff in Hv. destruct Hv as [l [<- _]]. simpl. lia. Qed.
End Termination.

(* every oracle whose allocation answers are bounded: the run returns (some fuel suffices) *)
Theorem termination_bounded_demand sample cost alloc conv garbage df notional level_max L0 N0 Bd :
  (forall k l, (nth l (alloc k) 0 <= Z.of_nat Bd)%Z) -> L0 <= level_max ->
  exists fuel, price_run sample cost alloc conv garbage df notional level_max 0 fuel L0 N0 <> OutOfFuel.
Proof. intros HB HL. apply (terminates sample cost alloc conv df notional level_max Bd HB (Nat.max N0 Bd)); lia. Qed.

(* no guard on the configuration any more: the repaired entry point refuses initial_level > maximum_level before simulating
   anything, and every other run is safe *)
Theorem never_above_maximum sample cost alloc conv garbage df notional level_max phantom fuel L0 N0 :
  match price_entry sample cost alloc conv garbage df notional level_max phantom fuel L0 N0 with
  | None => level_max < L0
  | Some o => L0 <= level_max /\ safe_outcome alloc conv level_max o
  end.
Proof. unfold price_entry. destruct (Nat.ltb level_max L0) eqn:E.
  - now apply Nat.ltb_lt in E.
  - apply Nat.ltb_ge in E. split; [exact E|]. now apply price_safety. Qed.

(* ------------------------------------------------------------------ statements as used by Properties/C06.v *)
Theorem price_safety_full sample cost alloc conv garbage df notional level_max phantom fuel L0 N0 : L0 <= level_max ->
  safe_outcome alloc conv level_max (price_run sample cost alloc conv garbage df notional level_max phantom fuel L0 N0).
Proof. intros. now apply price_safety. Qed.

Theorem return_without_bias_test_ex :
  exists sample cost alloc garbage s,
    price_run sample cost alloc (fun _ => false) garbage 1%Q 1%Q 5 0 10 2 3 = Fallthrough s
    /\ length (levels s) - 1 < 5 /\ nconv s = 1 /\ map lN (levels s) = [3; 3; 3; 0].
Proof. destruct return_without_bias_test as [s H]. do 4 eexists. exists s. exact H. Qed.

Theorem level_above_maximum_ex :
  exists sample cost alloc conv garbage s,
    price_run sample cost alloc conv garbage 1%Q 1%Q 1 0 10 3 3 = Converged s
    /\ map lN (levels s) = [3; 3; 3; 3] /\ 1 < length (levels s) - 1.
Proof. destruct level_above_maximum as [s H]. do 5 eexists. exists s. exact H. Qed.

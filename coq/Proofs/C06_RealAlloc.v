(* C06 -- (1) the error branch of the GENERATED allocation core is exactly the non-representable case;
          (2) termination of the loop of Model/Mlmc.v when the allocation oracle IS the generated Giles allocation
              (Gen/GenC06Criteria.giles_alloc_core lifted by Model/Alloc.giles_alloc) of variance / cost estimates that
              stay bounded from some pass on -- in particular of estimates that are fixed from some pass on. *)
From Coq Require Import Reals List Bool Lra Lia ZArith QArith.
From Flocq Require Import Raux.
From RV Require Import Base.RB Base.RCeilMC Gen.GenC06Criteria Model.Alloc Model.McStats Model.Mlmc Proofs.C06_Alloc Proofs.C06_Loop.
Import ListNotations.
Open Scope R_scope.

(* ------------------------------------------------------------------ (1) representable or error *)
Lemma var_share_nonneg rmse : 0 <= var_share rmse.
Proof. unfold var_share. pose proof (pow2_ge_0 rmse). lra. Qed.

Lemma Rdiv_nonneg a b : 0 <= a -> 0 <= b -> 0 <= a / b.
Proof. intros Ha Hb. destruct (Req_dec b 0) as [->|Hn]; [unfold Rdiv; rewrite Rinv_0; lra|].
  apply Rmult_le_pos; [exact Ha|]. apply Rlt_le, Rinv_0_lt_compat. lra. Qed.

Lemma optimal_nonneg rmse v c T : 0 <= T -> 0 <= giles_optimal rmse v c T.
Proof. intros HT. unfold giles_optimal. fold (var_share rmse). apply Rdiv_nonneg; [|apply var_share_nonneg].
  apply Rmult_le_pos; [apply sqrt_pos|exact HT]. Qed.

Lemma int_bound_IZR : int_bound = IZR (2 ^ 63).
Proof. unfold int_bound. replace (IZR 2 / IZR 1) with (IZR 2) by (unfold Rdiv; rewrite Rinv_1; ring).
  rewrite pow_IZR. f_equal. Qed.

(* for every rmse, variance, cost and S >= 0 (S is a sum of square roots): the answer is the error value -1 (ValueError in the
   code) EXACTLY when the optimum is not below 2^63; otherwise it is an integer in [0, 2^63], the least one >= the optimum *)
Theorem core_error_iff rmse v c T : 0 <= T ->
  (giles_alloc_core rmse v c T = -1 <-> int_bound <= giles_optimal rmse v c T)
  /\ (giles_optimal rmse v c T < int_bound ->
      exists z : Z, giles_alloc_core rmse v c T = IZR z /\ (0 <= z <= 2 ^ 63)%Z
                    /\ IZR z - 1 < giles_optimal rmse v c T <= IZR z).
Proof. intros HT. pose proof (optimal_nonneg rmse v c T HT) as H0. rewrite core_spec.
  destruct (Rltb (giles_optimal rmse v c T) int_bound) eqn:E.
  - apply Rltb_true in E. split.
    + split; [|lra]. intros H. pose proof (Rceil_nonneg _ H0). lra.
    + intros _. exists (Zceil (giles_optimal rmse v c T)). split; [reflexivity|]. split.
      * split; [apply le_IZR; apply (Rceil_nonneg _ H0)|]. apply Zceil_glb. rewrite <- int_bound_IZR. lra.
      * pose proof (Zceil_ub (giles_optimal rmse v c T)). pose proof (Zceil_lb (giles_optimal rmse v c T)). lra.
  - apply Rltb_false in E. split; [split; [lra|reflexivity]|lra]. Qed.

(* ------------------------------------------------------------------ (2) bounded estimates -> bounded answers *)
(* every entry of the generated allocation is -1 (error) or the ceil of an optimum; with sqrt(V_l / C'_l) <= Q on every level
   and S <= Smax all of them are below ceil(Q * Smax / B) *)
Definition ratio_le (Q : R) (v c : R) : Prop := sqrt (v / cost_used c) <= Q.

Lemma core_bounded rmse v c T Q Smax : 0 < rmse -> 0 <= T <= Smax -> ratio_le Q v c ->
  giles_alloc_core rmse v c T <= IZR (Z.max 0 (Zceil (Q * Smax / var_share rmse))).
Proof. intros Hr [HT HS] HQ. pose proof (var_share_pos rmse Hr) as HB. rewrite core_spec.
  assert (Hm : 0 <= IZR (Z.max 0 (Zceil (Q * Smax / var_share rmse)))) by (apply IZR_le; lia).
  destruct (Rltb _ _); [|lra].
  unfold Rceil. apply IZR_le. etransitivity; [|apply Z.le_max_r]. apply Zceil_le.
  unfold giles_optimal. fold (var_share rmse). unfold ratio_le in HQ.
  apply Rmult_le_compat_r; [apply Rlt_le, Rinv_0_lt_compat; exact HB|].
  pose proof (sqrt_pos (v / cost_used c)). apply Rmult_le_compat; lra. Qed.

Lemma alloc_with_bounded rmse T Q Smax : 0 < rmse -> 0 <= T <= Smax -> forall V C, Forall2 (ratio_le Q) V C ->
  forall l, nth l (alloc_with rmse T V C) 0 <= IZR (Z.max 0 (Zceil (Q * Smax / var_share rmse))).
Proof. intros Hr HT V C H. induction H as [|v c V C Hvc H IH]; intros l; cbn [alloc_with].
  - destruct l; simpl; apply IZR_le; lia.
  - destruct l as [|l]; cbn [nth]; [now apply core_bounded|apply IH]. Qed.

Lemma nth_map_IZR (L : list Z) l : nth l (map IZR L) 0 = IZR (nth l L 0%Z).
Proof. exact (map_nth IZR L 0%Z l). Qed.

(* finitely many arbitrary answers are bounded *)
Lemma list_bounded (L : list Z) : exists B : nat, forall l, (nth l L 0 <= Z.of_nat B)%Z.
Proof. induction L as [|x L [B HB]]; [exists O; intros [|l]; simpl; lia|].
  exists (Nat.max B (Z.to_nat x)). intros [|l]; simpl; [lia|]. specialize (HB l). lia. Qed.

Lemma prefix_bounded (alloc : nat -> list Z) k0 : exists B : nat, forall k l, (k < k0)%nat -> (nth l (alloc k) 0 <= Z.of_nat B)%Z.
Proof. induction k0 as [|k0 [B HB]]; [exists O; intros; lia|].
  destruct (list_bounded (alloc k0)) as [B' HB']. exists (Nat.max B B'). intros k l Hk.
  destruct (Nat.eq_dec k k0) as [->|Hn]; [specialize (HB' l); lia|]. specialize (HB k l ltac:(lia)). lia. Qed.

(* the loop terminates when, from some answer k0 on, the allocation oracle is the generated Giles allocation of estimates
   (V_k, C_k) -- of any length, zero costs allowed -- with sqrt(V/C') <= Q on every level and sum sqrt(V C) <= Smax *)
Theorem termination_bounded_estimates sample cost alloc conv garbage df notional level_max L0 N0 rmse Q Smax k0 :
  0 < rmse ->
  (forall k, (k0 <= k)%nat -> exists V C, map IZR (alloc k) = giles_alloc rmse V C
                                           /\ Forall2 (ratio_le Q) V C /\ S_of V C <= Smax) ->
  (L0 <= level_max)%nat ->
  exists fuel, price_run sample cost alloc conv garbage df notional level_max 0 fuel L0 N0 <> OutOfFuel.
Proof. intros Hr H HL. destruct (prefix_bounded alloc k0) as [B0 HB0].
  set (B1 := Z.max 0 (Zceil (Q * Smax / var_share rmse))).
  apply (termination_bounded_demand sample cost alloc conv garbage df notional level_max L0 N0 (Nat.max B0 (Z.to_nat B1))); [|exact HL].
  intros k l. destruct (Nat.lt_ge_cases k k0) as [Hk|Hk]; [specialize (HB0 k l Hk); lia|].
  destruct (H k Hk) as [V [C [E [HQ HS]]]].
  assert (X : IZR (nth l (alloc k) 0%Z) <= IZR B1).
  { rewrite <- nth_map_IZR, E. unfold giles_alloc. apply alloc_with_bounded; auto. split; [apply S_of_nonneg|exact HS]. }
  apply le_IZR in X. unfold B1 in *. lia. Qed.

(* ------------------------------------------------------------------ estimates fixed from some pass on *)
Lemma ratio_bound_exists : forall V C, length V = length C -> exists Q, Forall2 (ratio_le Q) V C.
Proof. induction V as [|v V IH]; intros [|c C] HL; simpl in HL; try discriminate; [exists 0; constructor|].
  destruct (IH C ltac:(lia)) as [Q HQ]. exists (Rmax Q (sqrt (v / cost_used c))). constructor; [apply Rmax_r|].
  clear - HQ. induction HQ; constructor; auto. unfold ratio_le in *. eapply Rle_trans; [eassumption|apply Rmax_l]. Qed.

Lemma Forall2_firstn {A B} (P : A -> B -> Prop) : forall n V C, Forall2 P V C -> Forall2 P (firstn n V) (firstn n C).
Proof. induction n as [|n IH]; intros V C H; [constructor|]. destruct H; cbn [firstn]; constructor; auto. Qed.

Lemma S_of_firstn : forall n V C, S_of (firstn n V) (firstn n C) <= S_of V C.
Proof. induction n as [|n IH]; intros V C; [cbn [firstn]; unfold S_of at 1; simpl; apply S_of_nonneg|].
  destruct V as [|v V], C as [|c C]; cbn [firstn]; try (unfold S_of; simpl; lra).
  rewrite !S_of_cons. specialize (IH V C). lra. Qed.

(* the level-l variance / cost estimates are V_l, C_l from answer k0 on (the number of levels still grows: answer k uses the
   first n_k levels); before k0 the answers are arbitrary *)
Theorem termination_fixed_estimates sample cost alloc conv garbage df notional level_max L0 N0 rmse Vfix Cfix k0 :
  0 < rmse -> length Vfix = length Cfix ->
  (forall k, (k0 <= k)%nat -> exists n, map IZR (alloc k) = giles_alloc rmse (firstn n Vfix) (firstn n Cfix)) ->
  (L0 <= level_max)%nat ->
  exists fuel, price_run sample cost alloc conv garbage df notional level_max 0 fuel L0 N0 <> OutOfFuel.
Proof. intros Hr HL H HL0. destruct (ratio_bound_exists Vfix Cfix HL) as [Q HQ].
  apply (termination_bounded_estimates sample cost alloc conv garbage df notional level_max L0 N0 rmse Q (S_of Vfix Cfix) k0 Hr); [|exact HL0].
  intros k Hk. destruct (H k Hk) as [n E]. exists (firstn n Vfix), (firstn n Cfix).
  split; [exact E|]. split; [now apply Forall2_firstn|apply S_of_firstn]. Qed.

(* non-vacuity: an oracle that IS the generated allocation of fixed estimates from the first answer on *)
Definition ex_V : list R := [4; 1; 1 / 4].
Definition ex_C : list R := [1; 2; 4].

(* the generated allocation is integer valued for ALL inputs, so an integer oracle equal to it always exists *)
Lemma giles_alloc_integral rmse V C : map IZR (map Zceil (giles_alloc rmse V C)) = giles_alloc rmse V C.
Proof. unfold giles_alloc. generalize (S_of V C) as T. revert C. induction V as [|v V IH]; intros [|c C] T; cbn [alloc_with map]; try reflexivity.
  f_equal; [|apply IH]. rewrite core_spec. destruct (Rltb _ _); [unfold Rceil; now rewrite Zceil_IZR|now rewrite Zceil_IZR]. Qed.

From Interval Require Import Tactic.
Lemma ex_alloc_value : giles_alloc 1 ex_V ex_C = [IZR 12; IZR 5; IZR 2].
Proof. unfold giles_alloc, S_of, ex_V, ex_C; cbn [sqrt_vc Rsum fold_right alloc_with].
  apply cons_eq; [|apply cons_eq; [|apply cons_eq; [|reflexivity]]].
  - unfold giles_alloc_core. rewrite Reqb_neq by lra. rewrite Rltb_intro by interval. cbn [negb].
    apply (Rceil_between _ 11 12); [reflexivity|split; interval].
  - unfold giles_alloc_core. rewrite Reqb_neq by lra. rewrite Rltb_intro by interval. cbn [negb].
    apply (Rceil_between _ 4 5); [reflexivity|split; interval].
  - unfold giles_alloc_core. rewrite Reqb_neq by lra. rewrite Rltb_intro by interval. cbn [negb].
    apply (Rceil_between _ 1 2); [reflexivity|split; interval].
Qed.

Lemma real_allocation_oracle_ex :
  exists alloc : nat -> list Z,
    (forall k, (0 <= k)%nat -> exists n, map IZR (alloc k) = giles_alloc 1 (firstn n ex_V) (firstn n ex_C))
    /\ alloc 0%nat = [12; 5; 2]%Z.
Proof. exists (fun _ => map Zceil (giles_alloc 1 ex_V ex_C)). split.
  - intros k _. exists 3%nat. apply giles_alloc_integral.
  - rewrite ex_alloc_value. cbn [map]. now rewrite !Zceil_IZR. Qed.

(* the error branch is met: rmse so small that the optimum exceeds 2^63 *)
Lemma core_error_ex : giles_alloc_core (1 / 2 ^ 40) 1 1 1 = -1.
Proof. assert (H01 : 0 <= 1) by lra. apply (proj1 (core_error_iff (1 / 2 ^ 40) 1 1 1 H01)). unfold giles_optimal, cost_used, int_bound.
  rewrite Reqb_neq by lra. interval. Qed.

(* C06 -- the rate regression of Engine.price: the model of np.linalg.lstsq (Model/Regress.v) IS least squares (for every
   number of levels and every observation vector), what the clamp of the GENERATED log2_regression guarantees, and the bias
   test with a regressed weak rate. *)
From Coq Require Import Reals List Bool Lra Lia.
From RV Require Import Base.RB Base.RCeilMC Gen.GenC06Criteria Gen.GenC06Regress Model.Alloc Model.Regress Proofs.C06_Alloc.
Import ListNotations.
Open Scope R_scope.

(* ------------------------------------------------------------------ sums *)
Lemma sum_by_cons f p ps : sum_by f (p :: ps) = f p + sum_by f ps.
Proof. reflexivity. Qed.

Lemma sum_by_nonneg f ps : (forall p, 0 <= f p) -> 0 <= sum_by f ps.
Proof. intros H. induction ps as [|p ps IH]; simpl; [lra|]. specialize (H p). lra. Qed.

Lemma sse_nonneg a b ps : 0 <= sse a b ps.
Proof. apply sum_by_nonneg. intros p. apply pow2_ge_0. Qed.

(* || mat (a,b) - y ||^2 as a quadratic form in (a, b) *)
Lemma sse_expand a b ps :
  sse a b ps = a * a * Sxx ps + 2 * a * b * Sx ps + b * b * Sn ps - 2 * a * Sxy ps - 2 * b * Sy ps + Syy ps.
Proof. unfold sse, Sxx, Sx, Sn, Sxy, Sy, Syy. induction ps as [|p ps IH]; [unfold sum_by; simpl; ring|]. rewrite !sum_by_cons, IH. ring. Qed.

Lemma Sn_nonneg ps : 0 <= Sn ps.
Proof. apply sum_by_nonneg. intros; lra. Qed.

(* n Sxx - Sx^2 grows by the squared distances to the new abscissa: the determinant of the normal equations is positive
   as soon as two abscissae differ *)
Definition sqdist (x : R) (ps : list (R * R)) : R := sum_by (fun q => (x - fst q) ^ 2) ps.
Lemma sqdist_expand x ps : sqdist x ps = Sxx ps - 2 * x * Sx ps + x * x * Sn ps.
Proof. unfold sqdist, Sxx, Sx, Sn. induction ps as [|p ps IH]; [unfold sum_by; simpl; ring|]. rewrite !sum_by_cons, IH. ring. Qed.
Lemma det_cons p ps : ols_det (p :: ps) = ols_det ps + sqdist (fst p) ps.
Proof. rewrite sqdist_expand. unfold ols_det, Sn, Sxx, Sx. rewrite !sum_by_cons. ring. Qed.
Lemma det_nonneg ps : 0 <= ols_det ps.
Proof. induction ps as [|p ps IH]; [unfold ols_det, Sn, Sxx, Sx; simpl; lra|].
  rewrite det_cons. assert (0 <= sqdist (fst p) ps) by (apply sum_by_nonneg; intros; apply pow2_ge_0). lra. Qed.

(* the rows built from consecutive level numbers: two or more rows -> determinant >= 1 *)
Lemma det_points_pos x y1 y2 r : 1 <= ols_det (points x (y1 :: y2 :: r)).
Proof. cbn [points]. rewrite det_cons. unfold sqdist. rewrite sum_by_cons. cbn [fst].
  pose proof (det_nonneg ((x + 1, y2) :: points (x + 1 + 1) r)).
  assert (0 <= sum_by (fun q => (x - fst q) ^ 2) (points (x + 1 + 1) r)) by (apply sum_by_nonneg; intros; apply pow2_ge_0).
  replace ((x - (x + 1)) ^ 2) with 1 by ring. lra. Qed.

Lemma Sn_points_pos x y r : 1 <= Sn (points x (y :: r)).
Proof. cbn [points]. unfold Sn. rewrite sum_by_cons. pose proof (Sn_nonneg (points (x + 1) r)). unfold Sn in *. lra. Qed.

(* ------------------------------------------------------------------ ordinary least squares *)
(* the excess of any line over the OLS line is a positive semi-definite form in the differences *)
Lemma ols_excess ps a b : ols_det ps <> 0 -> Sn ps <> 0 ->
  sse a b ps - sse (ols_slope ps) (ols_icpt ps) ps
  = (a - ols_slope ps) * (a - ols_slope ps) * Sxx ps + 2 * (a - ols_slope ps) * (b - ols_icpt ps) * Sx ps
    + (b - ols_icpt ps) * (b - ols_icpt ps) * Sn ps.
Proof. intros HD HN. rewrite !sse_expand. unfold ols_icpt, ols_slope. unfold ols_det in *. field. split; assumption. Qed.

Lemma psd_form n sx sxx da db : 0 < n -> 0 <= n * sxx - sx * sx ->
  0 <= da * da * sxx + 2 * da * db * sx + db * db * n.
Proof. intros Hn HD.
  assert (E : n * (da * da * sxx + 2 * da * db * sx + db * db * n) = (n * db + sx * da) ^ 2 + (n * sxx - sx * sx) * (da * da)) by ring.
  assert (0 <= (n * db + sx * da) ^ 2) by apply pow2_ge_0.
  assert (0 <= (n * sxx - sx * sx) * (da * da)) by (apply Rmult_le_pos; [lra|nra]).
  assert (0 <= n * (da * da * sxx + 2 * da * db * sx + db * db * n)) by lra.
  apply Rmult_le_reg_l with n; [exact Hn|]. lra. Qed.

Lemma pd_form n sx sxx da db : 0 < n -> 0 < n * sxx - sx * sx ->
  da * da * sxx + 2 * da * db * sx + db * db * n = 0 -> da = 0 /\ db = 0.
Proof. intros Hn HD E0.
  assert (E : n * (da * da * sxx + 2 * da * db * sx + db * db * n) = (n * db + sx * da) ^ 2 + (n * sxx - sx * sx) * (da * da)) by ring.
  rewrite E0, Rmult_0_r in E.
  assert (H1 : 0 <= (n * db + sx * da) ^ 2) by apply pow2_ge_0.
  assert (H2 : 0 <= (n * sxx - sx * sx) * (da * da)) by (apply Rmult_le_pos; [lra|nra]).
  assert (Z2 : (n * sxx - sx * sx) * (da * da) = 0) by lra.
  assert (Z1 : (n * db + sx * da) ^ 2 = 0) by lra.
  apply Rmult_integral in Z2. destruct Z2 as [Z2|Z2]; [lra|].
  assert (da = 0) by (apply Rmult_integral in Z2; destruct Z2; assumption). subst da.
  split; [reflexivity|]. rewrite Rmult_0_r, Rplus_0_r in Z1. simpl in Z1. rewrite Rmult_1_r in Z1.
  apply Rmult_integral in Z1. assert (n * db = 0) by (destruct Z1; assumption).
  apply Rmult_integral in H. destruct H; lra. Qed.

(* lstsq of the model is a least-squares solution for EVERY system built from consecutive levels (0, 1, 2 or more rows) *)
Theorem lstsq_minimises x ys a b :
  sse (fst (lstsq (points x ys))) (snd (lstsq (points x ys))) (points x ys) <= sse a b (points x ys).
Proof. destruct ys as [|y1 [|y2 r]].
  - cbn. unfold sse; simpl. lra.
  - cbn [points lstsq fst snd]. unfold sse; cbn [sum_by fold_right fst snd].
    assert (0 < x * x + 1) by nra.
    replace (x * y1 / (x * x + 1) * x + y1 / (x * x + 1) - y1) with 0 by (field; lra).
    pose proof (pow2_ge_0 (a * x + b - y1)). simpl in *. lra.
  - set (ps := points x (y1 :: y2 :: r)).
    assert (HD : 1 <= ols_det ps) by apply det_points_pos.
    assert (HN : 1 <= Sn ps) by apply Sn_points_pos.
    assert (E : lstsq ps = (ols_slope ps, ols_icpt ps)) by reflexivity. rewrite E. cbn [fst snd].
    pose proof (ols_excess ps a b ltac:(lra) ltac:(lra)) as X.
    pose proof (psd_form (Sn ps) (Sx ps) (Sxx ps) (a - ols_slope ps) (b - ols_icpt ps) ltac:(lra) ltac:(unfold ols_det in HD; lra)). lra. Qed.

(* ... and with two or more levels it is the ONLY one: the ordinary least-squares line *)
Theorem lstsq_unique x y1 y2 r a b : let ps := points x (y1 :: y2 :: r) in
  sse a b ps <= sse (fst (lstsq ps)) (snd (lstsq ps)) ps -> a = fst (lstsq ps) /\ b = snd (lstsq ps).
Proof. intros ps H.
  assert (HD : 1 <= ols_det ps) by apply det_points_pos.
  assert (HN : 1 <= Sn ps) by apply Sn_points_pos.
  assert (E : lstsq ps = (ols_slope ps, ols_icpt ps)) by reflexivity. rewrite E in *. cbn [fst snd] in *.
  pose proof (ols_excess ps a b ltac:(lra) ltac:(lra)) as X.
  pose proof (psd_form (Sn ps) (Sx ps) (Sxx ps) (a - ols_slope ps) (b - ols_icpt ps) ltac:(lra) ltac:(unfold ols_det in HD; lra)) as P.
  destruct (pd_form (Sn ps) (Sx ps) (Sxx ps) (a - ols_slope ps) (b - ols_icpt ps)) as [A B]; [lra|unfold ols_det in HD; lra|lra|].
  split; lra. Qed.

(* with a single level the system has one equation: the model's answer solves it exactly and has the smallest norm among
   the solutions (numpy's minimum-norm convention); in particular for x = 1 the "slope" is HALF the single observation *)
Theorem lstsq_single_level x y a b : a * x + b = y ->
  fst (lstsq (points x [y])) * x + snd (lstsq (points x [y])) = y
  /\ fst (lstsq (points x [y])) ^ 2 + snd (lstsq (points x [y])) ^ 2 <= a ^ 2 + b ^ 2.
Proof. intros H. cbn [points lstsq fst snd]. assert (Hp : 0 < x * x + 1) by nra. split; [field; lra|]. subst y.
  replace ((x * (a * x + b) / (x * x + 1)) ^ 2 + ((a * x + b) / (x * x + 1)) ^ 2) with ((a * x + b) ^ 2 / (x * x + 1)) by (field; lra).
  apply Rmult_le_reg_r with (x * x + 1); [exact Hp|].
  replace ((a * x + b) ^ 2 / (x * x + 1) * (x * x + 1)) with ((a * x + b) ^ 2) by (field; lra).
  assert (0 <= (a - b * x) ^ 2) by apply pow2_ge_0. nra. Qed.

(* ------------------------------------------------------------------ exact geometric decay is recovered *)
Lemma affine_sums c s : forall ys x, ys = map (fun p => c + s * fst p) (points x ys) ->
  Sy (points x ys) = c * Sn (points x ys) + s * Sx (points x ys)
  /\ Sxy (points x ys) = c * Sx (points x ys) + s * Sxx (points x ys).
Proof. induction ys as [|y r IH]; intros x H.
  - unfold Sy, Sn, Sx, Sxy, Sxx; simpl. split; ring.
  - cbn [points map fst] in H. injection H as Hy Hr. destruct (IH (x + 1) Hr) as [E1 E2].
    cbn [points]. unfold Sy, Sn, Sx, Sxy, Sxx in *. rewrite !sum_by_cons. cbn [fst snd]. rewrite E1, E2, Hy. split; ring. Qed.

(* observations that lie exactly on a line c + s * level (two or more levels): the fitted slope is s *)
Theorem lstsq_recovers_line c s x y1 y2 r : let ys := y1 :: y2 :: r in
  ys = map (fun p => c + s * fst p) (points x ys) -> fst (lstsq (points x ys)) = s.
Proof. intros ys H. destruct (affine_sums c s ys x H) as [E1 E2].
  assert (HD : 1 <= ols_det (points x ys)) by apply det_points_pos.
  assert (E : lstsq (points x ys) = (ols_slope (points x ys), ols_icpt (points x ys))) by reflexivity. rewrite E. cbn [fst].
  unfold ols_slope. rewrite E1, E2. unfold ols_det in *. field. lra. Qed.

(* ------------------------------------------------------------------ the clamp of the generated log2_regression *)
(* wave 7 (audit-4 B5): the generated definition matches on log2_slope_np: Some slope when every regressed entry is a positive
   real, None (numpy: x = nan, max(max_val, nan) = max_val) otherwise *)
Lemma all_positive_intro ys : Forall (fun y => 0 < y) ys -> all_positive ys = true.
Proof. unfold all_positive. induction 1 as [|y r Hy _ IH]; [reflexivity|]. cbn [forallb]. rewrite IH, Rltb_intro by exact Hy. reflexivity. Qed.
Lemma all_positive_elim ys : all_positive ys = true -> Forall (fun y => 0 < y) ys.
Proof. unfold all_positive. induction ys as [|y r IH]; [constructor|]. cbn [forallb]. intros H. apply andb_prop in H. destruct H as [H1 H2].
  constructor; [now apply Rltb_true|now apply IH]. Qed.
Lemma not_all_positive_intro ys : Exists (fun y => y <= 0) ys -> all_positive ys = false.
Proof. unfold all_positive. induction 1 as [y r Hy|y r _ IH]; cbn [forallb].
  - replace (Rltb 0 y) with false; [reflexivity|]. symmetry. now apply Rltb_false.
  - rewrite IH. apply andb_false_r. Qed.

Lemma regression_clamped l : 1 / 2 <= log2_regression l log2_regression_default_max_val.
Proof. unfold log2_regression, log2_regression_default_max_val. destruct (log2_slope_np (tl l)); [|lra].
  eapply Rle_trans; [|apply Rmax_l]. lra. Qed.

(* every regressed entry positive: the clamp of minus the least-squares slope *)
Lemma regression_is_clamped_slope l : all_positive (tl l) = true ->
  log2_regression l log2_regression_default_max_val = Rmax (1 / 2) (- log2_slope (tl l)).
Proof. intros H. unfold log2_regression, log2_slope_np, log2_regression_default_max_val. rewrite H. reflexivity. Qed.

(* the nan path: one regressed entry (index >= 1 of the array) is zero / negative -> the clamp value 1/2, whatever the others are *)
Lemma regression_nan_path l : Exists (fun y => y <= 0) (tl l) -> log2_regression l log2_regression_default_max_val = 1 / 2.
Proof. intros H. unfold log2_regression, log2_slope_np, log2_regression_default_max_val. rewrite (not_all_positive_intro _ H). reflexivity. Qed.

Lemma Rpower2_gt1 a : 0 < a -> 1 < Rpower 2 a.
Proof. intros H. rewrite <- (Rpower_O 2) by lra. apply Rpower_lt; lra. Qed.

(* whatever the level means are (zeros, a single level, none): the regressed weak rate makes 2^alpha - 1 > 0, in fact
   2^alpha >= sqrt 2: the bias test never divides by zero and never flips sign *)
Theorem regressed_rate_guard l : sqrt 2 <= Rpower 2 (log2_regression l log2_regression_default_max_val)
                                 /\ 1 < Rpower 2 (log2_regression l log2_regression_default_max_val).
Proof. pose proof (regression_clamped l) as H. split; [|apply Rpower2_gt1; lra].
  rewrite <- Rpower_sqrt by lra. apply Rle_Rpower; lra. Qed.

(* a configured rate is used as it is, a missing one is regressed in every pass *)
Lemma alpha_of_pass_spec cfg prev ml :
  alpha_of_pass cfg prev ml = match cfg with
                              | None => if all_positive (tl ml) then Rmax (1 / 2) (- log2_slope (tl ml)) else 1 / 2
                              | Some _ => prev end.
Proof. destruct cfg; [reflexivity|]. unfold alpha_of_pass. destruct (all_positive (tl ml)) eqn:E; [now apply regression_is_clamped_slope|].
  unfold log2_regression, log2_slope_np, log2_regression_default_max_val. rewrite E. reflexivity. Qed.

(* C06_bias_plus_variance without a hypothesis on alpha: the engine regresses it (configured rate None) *)
Theorem bias_plus_variance_regressed prev ml rmse : 0 <= rmse -> Forall (fun m => 0 <= m) ml ->
  let alpha := alpha_of_pass None prev ml in
  criteria_giles alpha ml rmse = true ->
  (giles_rem alpha ml) ^ 2 + (1 - 1 / 4) * rmse ^ 2 <= rmse ^ 2.
Proof. intros Hr Hm alpha Hc. apply (bias_plus_variance alpha ml rmse Hr Hm); [|exact Hc].
  apply (regressed_rate_guard ml). Qed.

(* exact geometric decay m_l = m * 2^(-a l) on levels 1.. (two or more of them): the regressed rate is max(1/2, a) *)
Lemma log2R_geometric m a x : 0 < m -> log2R (m * Rpower 2 (- a * x)) = log2R m + (- a) * x.
Proof. intros Hm. unfold log2R. assert (0 < ln 2) by (rewrite <- ln_1; apply ln_increasing; lra).
  rewrite ln_mult; [|exact Hm|unfold Rpower; apply exp_pos]. unfold Rpower. rewrite ln_exp. field. lra. Qed.

Lemma geometric_points m a : 0 < m -> forall n x,
  map log2R (map (fun p => m * Rpower 2 (- a * fst p)) (points x (repeat 0 n)))
  = map (fun p => log2R m + (- a) * fst p) (points x (map log2R (map (fun p => m * Rpower 2 (- a * fst p)) (points x (repeat 0 n))))).
Proof. intros Hm. induction n as [|n IH]; intros x; [reflexivity|].
  cbn [repeat points map fst]. f_equal; [apply log2R_geometric; exact Hm|]. apply IH. Qed.

Theorem regression_recovers_geometric_rate m0 m a n : 0 < m -> (2 <= n)%nat ->
  let ml := m0 :: map (fun p => m * Rpower 2 (- a * fst p)) (points 1 (repeat 0 n)) in
  log2_regression ml log2_regression_default_max_val = Rmax (1 / 2) a.
Proof. intros Hm Hn ml. rewrite regression_is_clamped_slope.
  2:{ apply all_positive_intro. unfold ml. cbn [tl]. apply Forall_forall. intros y Hy. apply in_map_iff in Hy. destruct Hy as [p [<- _]].
      apply Rmult_lt_0_compat; [exact Hm|unfold Rpower; apply exp_pos]. }
  f_equal. unfold ml. cbn [tl]. unfold log2_slope.
  pose proof (geometric_points m a Hm n 1) as G.
  destruct n as [|[|n]]; [lia|lia|].
  set (ys := map log2R (map (fun p => m * Rpower 2 (- a * fst p)) (points 1 (repeat 0 (S (S n)))))) in *.
  assert (exists y1 y2 r, ys = y1 :: y2 :: r) as [y1 [y2 [r E]]] by (unfold ys; cbn [repeat points map]; eauto).
  rewrite E in G |- *. rewrite (lstsq_recovers_line (log2R m) (- a) 1 y1 y2 r G). lra. Qed.

(* ------------------------------------------------------------------ the work-around *)
(* after the work-around with r = 2^rate > 0: nothing decreased, the first three levels are untouched, and from level 3 on
   each entry is at least half the previous one discounted by r -- so one positive entry at level 2 makes all later entries
   positive (their log2 is finite: the regression sees no -inf from level 3 on) *)
Lemma floor_chain_spec r : 0 < r -> forall l prev, 0 < prev ->
  Forall (fun m => 0 < m) (floor_chain r prev l)
  /\ Forall2 (fun m m' => m <= m') l (floor_chain r prev l).
Proof. intros Hr. induction l as [|m t IH]; intros prev Hp; cbn [floor_chain]; [split; constructor|].
  assert (Hq : 0 < 1 / 2 * prev / r) by (apply Rdiv_lt_0_compat; lra).
  assert (Hm : 0 < Rmax m (1 / 2 * prev / r)) by (eapply Rlt_le_trans; [exact Hq|apply Rmax_r]).
  destruct (IH _ Hm) as [A B]. split; constructor; auto. apply Rmax_l. Qed.

Theorem workaround_guarantee r m0 m1 m2 t : 0 < r -> 0 < m2 ->
  exists t', workaround r (m0 :: m1 :: m2 :: t) = m0 :: m1 :: m2 :: t'
             /\ Forall (fun m => 0 < m) t' /\ Forall2 (fun m m' => m <= m') t t'.
Proof. intros Hr H2. exists (floor_chain r m2 t). split; [reflexivity|]. now apply floor_chain_spec. Qed.

Lemma floor_chain_step r prev m t : floor_chain r prev (m :: t) = Rmax m (1 / 2 * prev / r) :: floor_chain r (Rmax m (1 / 2 * prev / r)) t.
Proof. reflexivity. Qed.

(* ------------------------------------------------------------------ non-vacuity *)
From Interval Require Import Tactic.
Definition ex_ml : list R := 1 :: map (fun p => 1 * Rpower 2 (Ropp 2 * fst p)) (points 1 (repeat 0 2)).
Lemma regressed_ex : alpha_of_pass None 0 ex_ml = 2 /\ Forall (fun m => 0 <= m) ex_ml /\ criteria_giles (alpha_of_pass None 0 ex_ml) ex_ml 1 = true.
Proof. assert (E : alpha_of_pass None 0 ex_ml = 2).
  { unfold alpha_of_pass, ex_ml. rewrite (regression_recovers_geometric_rate 1 1 2 2); [apply Rmax_right; lra|lra|lia]. }
  split; [exact E|]. split.
  - unfold ex_ml. cbn [repeat points map fst]. assert (P : forall t, 0 <= 1 * Rpower 2 t) by (intros t; unfold Rpower; pose proof (exp_pos (t * ln 2)); lra).
    constructor; [lra|]. constructor; [apply P|]. constructor; [apply P|constructor].
  - rewrite E. apply criteria_giles_spec. unfold giles_rem, ex_ml. cbn [repeat points map fst length Nat.sub Nat.leb nth].
    rewrite sqrt_quarter. apply Rmult_le_reg_r with (Rpower 2 2 - 1); [unfold Rpower; interval|].
    unfold Rdiv at 1. rewrite Rmult_assoc, Rinv_l by (unfold Rpower; interval). rewrite Rmult_1_r.
    repeat apply Rmax_lub; unfold Rpower; interval. Qed.

(* the single-level "regression" is half the single log, hence depends on the unit of the payoff *)
Lemma single_level_rate m0 m1 : 0 < m1 -> log2_regression [m0; m1] log2_regression_default_max_val = Rmax (1 / 2) (- (log2R m1 / 2)).
Proof. intros H1. rewrite regression_is_clamped_slope by (apply all_positive_intro; cbn [tl]; repeat constructor; exact H1).
  cbn [tl]. unfold log2_slope. cbn [map points lstsq fst]. f_equal. f_equal. field. Qed.

(* audit-4 B5 witness: level 1 has a zero mean (levels 1, 2 are not touched by the work-around).  numpy: log2 -> -inf, lstsq -> nan,
   max(0.5, nan) = 0.5; the model agrees (nan path), and with rmse = 0.2 (the double) the bias test FAILS, as in Python
   (bias estimate 0.427 > 0.1).  Before wave 7 the model said rate 1.5 (ln 0 = 0) and passed the test. *)
Definition nan_ml : list R := [3; 0; 1 / 4; 1 / 8].
Lemma nan_path_ex : forall prev, alpha_of_pass None prev nan_ml = 1 / 2
  /\ Forall (fun m => 0 <= m) nan_ml
  /\ criteria_giles (alpha_of_pass None prev nan_ml) nan_ml (3602879701896397 / 18014398509481984) = false.
Proof. intros prev. assert (E : alpha_of_pass None prev nan_ml = 1 / 2).
  { unfold alpha_of_pass, nan_ml. apply regression_nan_path. cbn [tl]. apply Exists_cons_hd. lra. }
  split; [exact E|]. split; [unfold nan_ml; repeat constructor; lra|]. rewrite E. unfold nan_ml.
  apply Bool.not_true_is_false. intro H. apply criteria_giles_spec in H. revert H. apply Rlt_not_le. unfold giles_rem; cbn [length Nat.sub Nat.leb nth].
  replace (Rmax (1/8) ((1/4) / Rpower 2 (1/2))) with ((1/4) / Rpower 2 (1/2)) by (symmetry; apply Rmax_right; unfold Rpower; interval).
  replace (Rmax ((1/4) / Rpower 2 (1/2)) (0 / Rpower 2 (2 * (1/2)))) with ((1/4) / Rpower 2 (1/2)) by (symmetry; apply Rmax_left; unfold Rpower; interval).
  unfold Rpower; interval. Qed.

(* C06, wave 7 (audit-4 B4 and top-10 #9):
   (1) the definitions GENERATED from the loop body of Engine.price (symbolic execution in source order, harness/py2coq_c06.py)
       are the compositions the hand reading of the code expects: the work-around precedes the regressions and uses the rates of
       the PREVIOUS pass, the regressions read the floored arrays, the allocation gets (floored vl, raw cl), the bias test gets
       (regressed alpha, floored ml), an added level is extrapolated with the rates regressed in THIS pass.  All by reflexivity:
       a re-ordering or a different argument in the source changes the generated term and breaks these lemmas.
   (2) termination of the loop when its oracles are TIED to the state (Model/MlmcTied.v): every allocation answer is the generated
       Giles allocation of the state's own res_vl / res_cl (one entry per level), and those estimates stay bounded. *)
From Coq Require Import Reals List ZArith QArith Qreals Bool Lra Lia.
From Flocq Require Import Raux.
From Interval Require Import Tactic.
From RV Require Import Base.QB Base.RB Base.RCeilMC Gen.GenC06Criteria Gen.GenC06Regress Model.Alloc Model.Regress Model.McStats Model.Mlmc Model.MlmcTied
                       Proofs.C06_Alloc Proofs.C06_Loop Proofs.C06_RealAlloc Proofs.C06_Regress.
Import ListNotations.

(* ------------------------------------------------------------------ (1) generated loop body = expected composition *)
Section Spec.
  Variables ca cb cg : option R.
  Variables a b g : R.
  Variables ml vl cl : list R.
  Local Open Scope R_scope.
  Let ml' := workaround (Rpower 2 a) ml.        (* floored with the weak rate of the previous pass *)
  Let vl' := workaround (Rpower 2 b) vl.
  Let a' := alpha_of_pass ca a ml'.             (* regressed from the FLOORED means (or the configured value) *)
  Let b' := beta_of_pass cb b vl'.
  Let g' := gamma_of_pass cg g cl.

  Lemma pass_alloc_spec : pass_alloc_V ca cb cg a b g ml vl cl = vl' /\ pass_alloc_C ca cb cg a b g ml vl cl = cl.
  Proof. split; reflexivity. Qed.
  Lemma pass_bias_spec : pass_bias_alpha ca cb cg a b g ml vl cl = a' /\ pass_bias_ml ca cb cg a b g ml vl cl = ml'.
  Proof. split; reflexivity. Qed.
  Lemma new_level_alloc_spec :
    new_level_alloc_V ca cb cg a b g ml vl cl = vl' ++ [last vl' 0 / Rpower 2 b']
    /\ new_level_alloc_C ca cb cg a b g ml vl cl = cl ++ [last cl 0 * Rpower 2 g'].
  Proof. split; reflexivity. Qed.
  Lemma pass_next_spec : pass_next_alpha ca cb cg a b g ml vl cl = a' /\ pass_next_beta ca cb cg a b g ml vl cl = b'
                         /\ pass_next_gamma ca cb cg a b g ml vl cl = g'.
  Proof. repeat split; reflexivity. Qed.
End Spec.

(* the number of entries handed to the allocation is the number of levels (resp. one more for the added level) *)
Lemma workaround_length r l : length (workaround r l) = length l.
Proof. destruct l as [|m0 [|m1 [|m2 t]]]; try reflexivity. cbn [workaround length]. do 3 f_equal.
  generalize m2. induction t as [|m t IH]; intros p; [reflexivity|]. cbn [floor_chain length]. f_equal. apply IH. Qed.

Lemma pass_alloc_lengths ca cb cg a b g vs :
  length (pass_alloc_V ca cb cg a b g (mlR vs) (vlR vs) (clR vs)) = length vs
  /\ length (pass_alloc_C ca cb cg a b g (mlR vs) (vlR vs) (clR vs)) = length vs
  /\ length (new_level_alloc_V ca cb cg a b g (mlR vs) (vlR vs) (clR vs)) = S (length vs)
  /\ length (new_level_alloc_C ca cb cg a b g (mlR vs) (vlR vs) (clR vs)) = S (length vs).
Proof. destruct (pass_alloc_spec ca cb cg a b g (mlR vs) (vlR vs) (clR vs)) as [-> ->].
  destruct (new_level_alloc_spec ca cb cg a b g (mlR vs) (vlR vs) (clR vs)) as [-> ->].
  rewrite !app_length, !workaround_length. unfold vlR, clR. rewrite !map_length. simpl. repeat split; lia. Qed.

Lemma alloc_with_length rmse T : forall V C n, length V = n -> length C = n -> length (alloc_with rmse T V C) = n.
Proof. induction V as [|v V IH]; intros [|c C] n HV HC; simpl in *; try lia. destruct n; [lia|]. f_equal. apply IH; lia. Qed.

(* ------------------------------------------------------------------ (2) termination of a tied run *)
Section TiedTermination.
  Variable sample : nat -> nat -> Q * Q.
  Variable cost : nat -> nat -> Q.
  Variable alloc : nat -> list Z.
  Variable conv : nat -> bool.
  Variables df notional : Q.
  Variable level_max : nat.
  Variable rmse : R.
  Variables ca cb cg : option R.
  Variables Qb Smax : R.
  Hypothesis Hr : (0 < rmse)%R.

  Definition bounded_estimates (V C : list R) : Prop := Forall2 (ratio_le Qb) V C /\ (S_of V C <= Smax)%R.
  Notation TIED := (tied sample cost alloc conv df notional level_max rmse ca cb cg bounded_estimates).
  Let B1 : Z := Z.max 0 (Zceil (Qb * Smax / var_share rmse)).
  Definition clip (k : nat) : list Z := map (Z.min B1) (alloc k).

  Lemma nth_clip L : forall l, (nth l (map (Z.min B1) L) 0 <= B1)%Z.
  Proof. assert (0 <= B1)%Z by (unfold B1; lia). induction L as [|x L IH]; intros [|l]; simpl; try lia. apply IH. Qed.

  Lemma clip_id L : Forall (fun x => (x <= B1)%Z) L -> map (Z.min B1) L = L.
  Proof. induction 1 as [|x L Hx _ IH]; [reflexivity|]. simpl. rewrite IH. f_equal. lia. Qed.

  (* an answer that is the Giles allocation of bounded estimates is not changed by clipping at B1 *)
  Lemma alloc_is_clip k V C : alloc_is alloc rmse bounded_estimates k V C -> clip k = alloc k.
  Proof. intros [E [HQ HS]]. unfold clip. apply clip_id. apply Forall_forall. intros x Hx.
    destruct (In_nth _ _ 0%Z Hx) as [l [_ <-]]. apply le_IZR. rewrite <- nth_map_IZR, E. unfold giles_alloc, B1.
    apply alloc_with_bounded; auto. split; [apply S_of_nonneg|exact HS]. Qed.

  Lemma tied_same_loop : forall fuel a b g s, TIED fuel a b g s ->
    loop sample cost alloc conv df notional level_max 0 fuel s = loop sample cost clip conv df notional level_max 0 fuel s.
  Proof. induction fuel as [|f IH]; intros a b g s H; [reflexivity|]. cbn [loop]. cbn [tied] in H.
    destruct (Nat.eqb (total_dN (levels s)) 0); [reflexivity|]. cbv zeta in H |- *.
    destruct H as [_ [Ha H]]. rewrite (alloc_is_clip _ _ _ Ha).
    destruct (within_one_pct _).
    - destruct H as [_ H]. destruct (conv (nconv s) || _)%bool; [reflexivity|].
      destruct H as [Hb H]. rewrite (alloc_is_clip _ _ _ Hb). eapply IH. exact H.
    - eapply IH. exact H. Qed.

  (* for every initial level <= maximum level: if, along the whole run, the allocation answers are the generated Giles allocation
     of the STATE's statistics and these satisfy sqrt(V_l / C'_l) <= Qb, sum sqrt(V C) <= Smax, the run returns *)
  Theorem termination_tied garbage L0 N0 : (L0 <= level_max)%nat ->
    (forall fuel, tied_run sample cost alloc conv df notional level_max rmse ca cb cg bounded_estimates garbage fuel L0 N0) ->
    exists fuel, price_run sample cost alloc conv garbage df notional level_max 0 fuel L0 N0 <> OutOfFuel.
  Proof. intros HL HT.
    destruct (termination_bounded_demand sample cost clip conv garbage df notional level_max L0 N0 (Z.to_nat B1)) as [fuel Hf].
    - intros k l. unfold clip. pose proof (nth_clip (alloc k) l). assert (0 <= B1)%Z by (unfold B1; lia). lia.
    - exact HL.
    - exists fuel. unfold price_run in *. unfold tied_run in HT. rewrite (tied_same_loop fuel _ _ _ _ (HT fuel)). exact Hf. Qed.

  (* the tie is not satisfiable by a foreign oracle: at the first pass the answer has exactly one entry per level *)
  Lemma tied_first_answer_length garbage L0 N0 fuel : (0 < N0)%nat ->
    tied_run sample cost alloc conv df notional level_max rmse ca cb cg bounded_estimates garbage (S fuel) L0 N0 ->
    length (alloc 0%nat) = S L0.
  Proof. intros HN H. unfold tied_run in H. cbn [tied] in H.
    assert (E : Nat.eqb (total_dN (levels (init_state garbage L0 N0))) 0 = false).
    { apply Nat.eqb_neq. unfold init_state. cbn [levels seq map total_dN fold_right init_level ldN]. lia. }
    rewrite E in H. cbv zeta in H. destruct H as [_ [[Ea _] _]].
    apply (f_equal (@length R)) in Ea. rewrite map_length in Ea. change (nalloc (init_state garbage L0 N0)) with 0%nat in Ea. rewrite Ea. unfold giles_alloc.
    match goal with |- length (alloc_with _ _ ?V ?C) = _ => assert (LV : length V = S L0 /\ length C = S L0) end.
    { destruct (pass_alloc_lengths ca cb cg (alpha_initial ca) (beta_initial cb) (gamma_initial cg)
                  (run_levels sample cost df notional 0 (levels (init_state garbage L0 N0)))) as [-> [-> _]].
      rewrite run_levels_length. unfold init_state. cbn [levels]. rewrite map_length, seq_length. auto. }
    destruct LV as [LV LC]. now apply alloc_with_length. Qed.
End TiedTermination.

(* ------------------------------------------------------------------ statements as used by Properties/C06.v *)
Theorem termination_tied_full :
  forall sample cost alloc conv garbage df notional level_max L0 N0 rmse cfg_alpha cfg_beta cfg_gamma Qb Smax,
    (0 < rmse)%R -> (L0 <= level_max)%nat ->
    (forall fuel, tied_run sample cost alloc conv df notional level_max rmse cfg_alpha cfg_beta cfg_gamma
                           (bounded_estimates Qb Smax) garbage fuel L0 N0) ->
    exists fuel, price_run sample cost alloc conv garbage df notional level_max 0 fuel L0 N0 <> OutOfFuel.
Proof. intros. now apply (termination_tied sample cost alloc conv df notional level_max rmse cfg_alpha cfg_beta cfg_gamma Qb Smax). Qed.

Theorem tied_answer_length_full :
  forall sample cost alloc conv garbage df notional level_max L0 N0 rmse cfg_alpha cfg_beta cfg_gamma Qb Smax fuel, (0 < N0)%nat ->
    tied_run sample cost alloc conv df notional level_max rmse cfg_alpha cfg_beta cfg_gamma (bounded_estimates Qb Smax) garbage (S fuel) L0 N0 ->
    length (alloc 0%nat) = S L0.
Proof. intros. now apply (tied_first_answer_length sample cost alloc conv df notional level_max rmse cfg_alpha cfg_beta cfg_gamma Qb Smax garbage L0 N0 fuel). Qed.

Theorem generated_loop_body_spec : forall ca cb cg a b g ml vl cl r,
  let ml' := workaround (Rpower 2 a) ml in let vl' := workaround (Rpower 2 b) vl in
  pass_alloc_V ca cb cg a b g ml vl cl = vl' /\ pass_alloc_C ca cb cg a b g ml vl cl = cl
  /\ pass_bias_alpha ca cb cg a b g ml vl cl = alpha_of_pass ca a ml' /\ pass_bias_ml ca cb cg a b g ml vl cl = ml'
  /\ new_level_alloc_V ca cb cg a b g ml vl cl = (vl' ++ [last vl' 0 / Rpower 2 (beta_of_pass cb b vl')])%R
  /\ new_level_alloc_C ca cb cg a b g ml vl cl = (cl ++ [last cl 0 * Rpower 2 (gamma_of_pass cg g cl)])%R
  /\ pass_next_alpha ca cb cg a b g ml vl cl = alpha_of_pass ca a ml' /\ pass_next_beta ca cb cg a b g ml vl cl = beta_of_pass cb b vl'
  /\ pass_next_gamma ca cb cg a b g ml vl cl = gamma_of_pass cg g cl
  /\ (alpha_initial None = 0 /\ beta_initial None = 0 /\ gamma_initial None = 0
      /\ alpha_initial (Some r) = r /\ beta_initial (Some r) = r /\ gamma_initial (Some r) = r)%R.
Proof. intros. repeat split; reflexivity. Qed.

(* ------------------------------------------------------------------ non-vacuity: a concrete run whose oracles ARE tied
   one level (initial = maximum level 0), N0 = 2, payoffs 0, 2, 0, 2, ... (level variance 1, mean 1), unit cost, rmse = 1/2, all
   three rates regressed (None): the Giles allocation of the state's (V, C) = ([1], [1]) is ceil(1 / (3/4 * 1/4)) = 6 in both
   passes, the regressed weak rate of a single level is the clamp 1/2 and the bias test fails (1/(sqrt 2 - 1) > 1/4): the run
   returns because L = level_max, after two passes, with N = [6] *)
Definition ex_sample (l n : nat) : Q * Q := if Nat.even n then (0%Q, 0%Q) else (2%Q, 0%Q).
Definition ex_cost (l n : nat) : Q := 1%Q.
Definition ex_alloc (k : nat) : list Z := [6%Z].
Definition ex_conv (j : nat) : bool := false.
Definition ex_garbage (l n : nat) : row := (0%Q, 0%Q).
Definition ex_vsA : list lev := Eval vm_compute in run_levels ex_sample ex_cost 1 1 0 (levels (init_state ex_garbage 0 2)).
Definition ex_sB : state := Eval vm_compute in mkState (map ext_level (set_dN (ex_alloc 0) 0 ex_vsA)) 1 0.
Definition ex_vsB : list lev := Eval vm_compute in run_levels ex_sample ex_cost 1 1 0 (levels ex_sB).

Local Open Scope R_scope.
Lemma ex_Q2R : Q2R 1 = 1 /\ Q2R (2 # 2) = 1 /\ Q2R (6 # 6) = 1.
Proof. unfold Q2R; simpl. repeat split; lra. Qed.

Lemma ex_giles : giles_alloc (1 / 2) [1] [1] = [IZR 6].
Proof. unfold giles_alloc, S_of; cbn [sqrt_vc Rsum fold_right alloc_with]. apply cons_eq; [|reflexivity].
  unfold giles_alloc_core. rewrite Reqb_neq by lra. rewrite Rltb_intro by interval. cbn [negb].
  apply (Rceil_between _ 5 6); [reflexivity|split; interval]. Qed.

Lemma ex_bounded : bounded_estimates 1 1 [1] [1].
Proof. split; [constructor; [|constructor]|].
  - unfold ratio_le, cost_used. rewrite Reqb_neq by lra. replace (1 / 1) with 1 by field. rewrite sqrt_1. lra.
  - unfold S_of; cbn [sqrt_vc Rsum fold_right]. rewrite Rmult_1_r, sqrt_1. lra. Qed.

Lemma ex_alloc_is k a b g m c : c = 1 ->
  alloc_is ex_alloc (1 / 2) (bounded_estimates 1 1) k (pass_alloc_V None None None a b g [m] [Q2R 1] [c]) (pass_alloc_C None None None a b g [m] [Q2R 1] [c]).
Proof. intros ->. destruct ex_Q2R as [-> _]. change (pass_alloc_V None None None a b g [m] [1] [1]) with [1]. change (pass_alloc_C None None None a b g [m] [1] [1]) with [1].
  split; [rewrite ex_giles; reflexivity|exact ex_bounded]. Qed.

Lemma ex_bias a b g v c : false = criteria_giles (pass_bias_alpha None None None a b g [Q2R 1] v c) (pass_bias_ml None None None a b g [Q2R 1] v c) (1 / 2).
Proof. destruct ex_Q2R as [-> _]. unfold pass_bias_alpha, pass_bias_ml, ml_after_workaround, alpha_of_pass. cbn [workaround].
  rewrite regression_is_clamped_slope by reflexivity. cbn [tl]. unfold log2_slope. cbn [map points lstsq fst].
  rewrite Rmax_left by lra. symmetry. apply Bool.not_true_is_false. intro H. apply criteria_giles_spec in H. revert H. apply Rlt_not_le.
  unfold giles_rem; cbn [length Nat.sub Nat.leb nth]. unfold Rpower; interval. Qed.

Lemma tied_run_ex : forall fuel,
  tied_run ex_sample ex_cost ex_alloc ex_conv 1 1 0 (1 / 2) None None None (bounded_estimates 1 1) ex_garbage fuel 0 2.
Proof. intros fuel. unfold tied_run. destruct fuel as [|f]; [exact I|]. cbn [tied].
  change (Nat.eqb (total_dN (levels (init_state ex_garbage 0 2))) 0) with false. cbv zeta.
  change (run_levels ex_sample ex_cost 1 1 0 (levels (init_state ex_garbage 0 2))) with ex_vsA.
  change (mlR ex_vsA) with [Q2R 1]. change (vlR ex_vsA) with [Q2R 1]. change (clR ex_vsA) with [Q2R (2 # 2)].
  split; [repeat constructor|]. split; [apply ex_alloc_is; apply ex_Q2R|].
  change (within_one_pct (set_dN (ex_alloc (nalloc (init_state ex_garbage 0 2))) 0 ex_vsA)) with false. cbv iota.
  change (mkState (map ext_level (set_dN (ex_alloc (nalloc (init_state ex_garbage 0 2))) 0 ex_vsA)) (S (nalloc (init_state ex_garbage 0 2))) (nconv (init_state ex_garbage 0 2))) with ex_sB.
  destruct f as [|f]; [exact I|]. cbn [tied].
  change (Nat.eqb (total_dN (levels ex_sB)) 0) with false. cbv zeta.
  change (run_levels ex_sample ex_cost 1 1 0 (levels ex_sB)) with ex_vsB.
  change (mlR ex_vsB) with [Q2R 1]. change (vlR ex_vsB) with [Q2R 1]. change (clR ex_vsB) with [Q2R (6 # 6)].
  split; [repeat constructor|]. split; [apply ex_alloc_is; apply ex_Q2R|].
  change (within_one_pct (set_dN (ex_alloc (nalloc ex_sB)) 0 ex_vsB)) with true. cbv iota.
  split; [apply ex_bias|].
  change (ex_conv (nconv ex_sB) || Nat.eqb (length (set_dN (ex_alloc (nalloc ex_sB)) 0 ex_vsB) - 1) 0)%bool with true. exact I. Qed.

Lemma tied_run_ex_returns :
  exists s, price_run ex_sample ex_cost ex_alloc ex_conv ex_garbage 1 1 0 0 2 0 2 = Converged s /\ map lN (levels s) = [6%nat] /\ nalloc s = 2%nat.
Proof. eexists. split; [vm_compute; reflexivity|]. split; reflexivity. Qed.

(* C07 -- control variates with ANY number k of controls (Model/McCv.v): optimality of every solution of the normal
   equations, uniqueness of the minimal-norm solution the code's lstsq returns, solvability of the normal equations. *)
From Coq Require Import List ZArith QArith Qabs Qminmax Bool Lia Setoid Morphisms.
From RV Require Import Base.QB Model.McStats Model.McCv Proofs.C07_StatsLemmas Proofs.C07_McStats.
Import ListNotations.
Open Scope Q_scope.

(* ------------------------------------------------------------------ coefficient vectors *)
Lemma vsub_length a : forall b, length a = length b -> length (vsub a b) = length a.
Proof. induction a as [|x a IH]; intros [|y b] H; simpl in *; try discriminate; [reflexivity|]. f_equal. apply IH. lia. Qed.

Lemma dotf_vsub a : forall b f k0, length a = length b -> dotf (vsub a b) f k0 == dotf a f k0 - dotf b f k0.
Proof. induction a as [|x a IH]; intros [|y b] f k0 H; simpl in *; try discriminate; [ring|].
  rewrite IH by lia. ring. Qed.

Lemma nth_vsub a : forall b j, length a = length b -> nth j (vsub a b) 0 == nth j a 0 - nth j b 0.
Proof. induction a as [|x a IH]; intros [|y b] j H; simpl in *; try discriminate.
  - destruct j; ring.
  - destruct j; [ring|]. apply IH. lia. Qed.

(* dotf only reads the index function on [k0, k0 + length) *)
Lemma dotf_ext_range l : forall f g k0, (forall j, (k0 <= j < k0 + length l)%nat -> f j == g j) -> dotf l f k0 == dotf l g k0.
Proof. induction l as [|x l IH]; intros f g k0 H; simpl; [reflexivity|].
  rewrite (H k0) by (simpl; lia). rewrite (IH f g (S k0)); [reflexivity|]. intros j Hj. apply H. simpl. lia. Qed.

Lemma dotf_zero_range l f k0 : (forall j, (k0 <= j < k0 + length l)%nat -> f j == 0) -> dotf l f k0 == 0.
Proof. intros H. rewrite (dotf_ext_range l f (fun _ => 0) k0 H). clear H. revert k0.
  induction l as [|x l IH]; intros k0; simpl; [reflexivity|]. rewrite IH. ring. Qed.

(* weighted sum of squares  sum_j d_j l_j^2 *)
Fixpoint wsq (d : nat -> Q) (l : list Q) (k0 : nat) : Q :=
  match l with
  | [] => 0
  | x :: r => d k0 * (x * x) + wsq d r (S k0)
  end.

Lemma dotf_wsq d l : forall k0, dotf l (fun j => d j * nth (j - k0) l 0) k0 == wsq d l k0.
Proof. induction l as [|x l IH]; intros k0; simpl; [reflexivity|].
  rewrite Nat.sub_diag. rewrite <- (IH (S k0)).
  rewrite (dotf_ext_range l (fun j => d j * nth (j - k0) (x :: l) 0) (fun j => d j * nth (j - S k0) l 0) (S k0)).
  - ring.
  - intros j Hj. replace (j - k0)%nat with (S (j - S k0)) by lia. reflexivity. Qed.

Lemma wsq_nonneg d l : forall k0, (forall j, (k0 <= j < k0 + length l)%nat -> 0 < d j) -> 0 <= wsq d l k0.
Proof. induction l as [|x l IH]; intros k0 H; simpl; [apply Qle_refl|].
  rewrite <- (Qplus_0_r 0). apply Qplus_le_compat.
  - apply Qmult_le_0_compat; [apply Qlt_le_weak, H; simpl; lia|apply Qsq_nonneg].
  - apply IH. intros j Hj. apply H. simpl. lia. Qed.

Lemma Qsq_zero x : x * x == 0 -> x == 0.
Proof. intros H. destruct (Qeq_dec x 0) as [E|E]; [exact E|]. exfalso.
  apply E. apply Qmult_integral in H. now destruct H. Qed.

Lemma wsq_zero d l : forall k0, (forall j, (k0 <= j < k0 + length l)%nat -> 0 < d j) -> wsq d l k0 == 0 ->
  forall i, (i < length l)%nat -> nth i l 0 == 0.
Proof. induction l as [|x l IH]; intros k0 H H0 i Hi; simpl in *; [lia|].
  assert (H1 : 0 <= d k0 * (x * x)) by (apply Qmult_le_0_compat; [apply Qlt_le_weak, H; lia|apply Qsq_nonneg]).
  assert (H2 : 0 <= wsq d l (S k0)) by (apply wsq_nonneg; intros j Hj; apply H; lia).
  assert (E1 : d k0 * (x * x) == 0).
  { apply Qle_antisym; [|exact H1]. rewrite <- H0. rewrite <- (Qplus_0_r (d k0 * (x * x))) at 1. apply Qplus_le_r. exact H2. }
  assert (E2 : wsq d l (S k0) == 0) by (rewrite E1 in H0; rewrite <- H0; ring).
  destruct i as [|i].
  - apply Qsq_zero. apply Qmult_integral in E1. destruct E1 as [E1|E1]; [|exact E1].
    exfalso. assert (Hp : 0 < d k0) by (apply H; lia). rewrite E1 in Hp. now apply Qlt_irrefl in Hp.
  - apply (IH (S k0)); [intros j Hj; apply H; lia|exact E2|lia]. Qed.

Section General.
  Variable n : nat.
  Hypothesis npos : (0 < n)%nat.
  Variable X : nat -> nat -> Q.

  Lemma sigma_row_cov b j : sigma_row n X b j == Cn n (X j) (Zlin b X).
  Proof. unfold sigma_row. rewrite (Cn_sym n npos (X j) (Zlin b X)). unfold Zlin.
    rewrite (Cn_dotf_l n npos b X (X j) 0). apply dotf_ext. intros k. apply (Cn_sym n npos). Qed.

  Lemma Zlin_vsub a b i : length a = length b -> Zlin (vsub a b) X i == Zlin a X i - Zlin b X i.
  Proof. intros H. unfold Zlin. now apply dotf_vsub. Qed.

  Lemma Cn_zero_of_rows l g : (forall j, (j < length l)%nat -> Cn n (X j) g == 0) -> Cn n (Zlin l X) g == 0.
  Proof. intros H. unfold Zlin. rewrite (Cn_dotf_l n npos l X g 0). apply dotf_zero_range. intros j Hj. apply H. lia. Qed.

  Lemma Cn_sub_sub f g : Cn n (fun i => f i - g i) (fun i => f i - g i) == Cn n f f - Cn n g f - Cn n f g + Cn n g g.
  Proof. rewrite (Cn_sub_l n npos). rewrite (Cn_sym n npos f), (Cn_sym n npos g). rewrite !(Cn_sub_l n npos).
    rewrite (Cn_sym n npos g f). ring. Qed.

  Variable Y : nat -> Q.

  (* the normal equations say: the adjusted sample is uncorrelated with every control *)
  Lemma normal_eq_orthogonal b p j : normal_eq n b X Y -> (j < length b)%nat -> Cn n (X j) (cv_adj b p X Y) == 0.
  Proof. intros Hne Hj. rewrite (Cn_sym n npos).
    rewrite (Cn_ext n npos _ (fun i => (Y i - Zlin b X i) + dotf b p 0) (X j) (X j)); [|intros; rewrite adj_as_shift; ring|reflexivity].
    rewrite (Cn_shift n npos), (Cn_sub_l n npos). rewrite (Cn_sym n npos Y), (Cn_sym n npos (Zlin b X)).
    rewrite <- sigma_row_cov. unfold sigma_row. rewrite (Hne j Hj). ring. Qed.

  (* and conversely *)
  Lemma orthogonal_normal_eq b p : (forall j, (j < length b)%nat -> Cn n (X j) (cv_adj b p X Y) == 0) -> normal_eq n b X Y.
  Proof. intros H j Hj. specialize (H j Hj). rewrite (Cn_sym n npos) in H.
    rewrite (Cn_ext n npos _ (fun i => (Y i - Zlin b X i) + dotf b p 0) (X j) (X j)) in H; [|intros; rewrite adj_as_shift; ring|reflexivity].
    rewrite (Cn_shift n npos), (Cn_sub_l n npos) in H. rewrite (Cn_sym n npos Y), (Cn_sym n npos (Zlin b X)) in H.
    rewrite <- sigma_row_cov in H. unfold sigma_row in H.
    unfold normal_eq. set (u := dotf b (fun k => Cn n (X j) (X k)) 0) in *. set (t := Cn n (X j) Y) in *.
    assert (Ht : t == u + (t - u)) by ring. rewrite Ht, H. ring. Qed.

  (* OPTIMALITY, any number of controls: a solution b of the normal equations minimises the sample variance of
     Y - b'.(X - p') over ALL coefficient vectors b' (and all centring prices):
     var(adj b') = var(adj b) + var((b' - b).X) *)
  Theorem cv_optimal b p b' p' : normal_eq n b X Y -> length b' = length b ->
    Cn n (cv_adj b' p' X Y) (cv_adj b' p' X Y)
    == Cn n (cv_adj b p X Y) (cv_adj b p X Y) + Cn n (Zlin (vsub b' b) X) (Zlin (vsub b' b) X)
    /\ Cn n (cv_adj b p X Y) (cv_adj b p X Y) <= Cn n (cv_adj b' p' X Y) (cv_adj b' p' X Y).
  Proof. intros Hne Hl.
    set (A := cv_adj b p X Y). set (E := Zlin (vsub b' b) X).
    assert (HA : forall i, cv_adj b' p' X Y i == (A i - E i) + (dotf b' p' 0 - dotf b p 0)).
    { intros i. unfold A, E. rewrite !adj_as_shift, (Zlin_vsub b' b i Hl). ring. }
    assert (HEA : Cn n E A == 0).
    { unfold E. apply Cn_zero_of_rows. intros j Hj. rewrite (vsub_length b' b Hl), Hl in Hj.
      unfold A. now apply normal_eq_orthogonal. }
    assert (Hv : Cn n (cv_adj b' p' X Y) (cv_adj b' p' X Y) == Cn n A A + Cn n E E).
    { rewrite (Cn_ext n npos _ _ _ _ HA HA). rewrite (Cn_shift n npos). rewrite (Cn_sym n npos). rewrite (Cn_shift n npos).
      rewrite Cn_sub_sub. rewrite (Cn_sym n npos A E), HEA. ring. }
    split; [exact Hv|]. rewrite Hv. rewrite <- (Qplus_0_r (Cn n A A)) at 1. apply Qplus_le_r. apply (Cn_nonneg n npos). Qed.

  (* UNIQUENESS of what lstsq returns (specification: solution of the normal equations of minimal norm on the correlation
     scale), any number of controls, collinear or not *)
  Theorem lstsq_spec_unique b w b' w' :
    lstsq_spec n b w X Y -> lstsq_spec n b' w' X Y -> length b = length b' ->
    (forall j, (j < length b)%nat -> 0 < Cn n (X j) (X j)) ->
    forall j, (j < length b)%nat -> nth j b 0 == nth j b' 0.
  Proof. intros [Hn [Hlw Hm]] [Hn' [Hlw' Hm']] Hl Hpos.
    set (e := vsub b b'). set (v := vsub w w').
    assert (Hle : length e = length b) by (apply vsub_length; exact Hl).
    assert (Hlww : length w = length w') by congruence.
    assert (Hlv : length v = length b) by (unfold v; rewrite (vsub_length w w' Hlww); exact Hlw).
    (* (i) Sigma e = 0 *)
    assert (H1 : forall j, (j < length b)%nat -> Cn n (X j) (Zlin e X) == 0).
    { intros j Hj. rewrite <- sigma_row_cov. unfold sigma_row, e. rewrite (dotf_vsub b b' _ 0%nat Hl).
      rewrite (Hn j Hj). rewrite (Hn' j) by (rewrite <- Hl; exact Hj). ring. }
    (* (ii) D e = Sigma v *)
    assert (H2 : forall j, (j < length b)%nat -> Cn n (X j) (X j) * nth j e 0 == Cn n (X j) (Zlin v X)).
    { intros j Hj. rewrite <- sigma_row_cov. unfold sigma_row, v, e. rewrite (dotf_vsub w w' _ 0%nat Hlww), (nth_vsub b b' j Hl).
      fold (sigma_row n X w j). fold (sigma_row n X w' j).
      rewrite <- (Hm j Hj). rewrite <- (Hm' j) by (rewrite <- Hl; exact Hj). ring. }
    (* (iii) e^T D e = e^T Sigma v = v^T Sigma e = 0 *)
    assert (H3 : wsq (fun j => Cn n (X j) (X j)) e 0 == 0).
    { rewrite <- dotf_wsq.
      rewrite (dotf_ext_range e _ (fun j => Cn n (X j) (Zlin v X)) 0%nat).
      2:{ intros j Hj. rewrite Nat.sub_0_r. apply H2. lia. }
      rewrite <- (Cn_dotf_l n npos e X (Zlin v X) 0). fold (Zlin e X). rewrite (Cn_sym n npos).
      apply Cn_zero_of_rows. intros j Hj. apply H1. lia. }
    intros j Hj.
    assert (E0 : nth j e 0 == 0).
    { apply (wsq_zero (fun j => Cn n (X j) (X j)) e 0%nat); [intros i Hi; apply Hpos; lia|exact H3|lia]. }
    unfold e in E0. rewrite (nth_vsub b b' j Hl) in E0. set (t := nth j b 0) in *. set (u := nth j b' 0) in *.
    assert (Ht : t == u + (t - u)) by ring. rewrite Ht, E0. ring. Qed.

  (* ------------------------------------------------------------------ the normal equations are always solvable *)
  Lemma normal_eq_resid b : normal_eq n b X Y <-> (forall j, (j < length b)%nat -> Cn n (X j) (fun i => Y i - Zlin b X i) == 0).
  Proof. split.
    - intros H j Hj. pose proof (normal_eq_orthogonal b (fun _ => 0) j H Hj) as H0.
      rewrite <- H0. apply (Cn_ext n npos); [reflexivity|]. intros i. rewrite adj_as_shift.
      rewrite (dotf_zero_range b (fun _ => 0) 0%nat) by reflexivity. ring.
    - intros H. apply (orthogonal_normal_eq b (fun _ => 0)). intros j Hj. rewrite <- (H j Hj).
      apply (Cn_ext n npos); [reflexivity|]. intros i. rewrite adj_as_shift.
      rewrite (dotf_zero_range b (fun _ => 0) 0%nat) by reflexivity. ring. Qed.
End General.

Section Solvable.
  Variable n : nat.
  Hypothesis npos : (0 < n)%nat.

  Lemma Cn_r_lin g f c h : Cn n g (fun i => f i - c * h i) == Cn n g f - c * Cn n g h.
  Proof. rewrite (Cn_sym n npos). rewrite (Cn_ext n npos _ (fun i => (- c) * h i + f i) g g); [|intros; ring|reflexivity].
    rewrite (Cn_lin_l n npos). rewrite (Cn_sym n npos h), (Cn_sym n npos f). ring. Qed.

  Lemma Cn_add_l f r g : Cn n (fun i => f i + r i) g == Cn n f g + Cn n r g.
  Proof. rewrite (Cn_ext n npos _ (fun i => 1 * f i + r i) g g); [|intros; ring|reflexivity]. rewrite (Cn_lin_l n npos). ring. Qed.

  (* Cauchy-Schwarz, the degenerate case: a sample without variance is uncorrelated with everything *)
  Lemma Cn_null f g : Cn n f f == 0 -> Cn n f g == 0.
  Proof. intros H0. destruct (Qeq_dec (Cn n f g) 0) as [E|E]; [exact E|]. exfalso.
    set (c := Cn n f g) in *. set (t := - (Cn n g g + 1) / (2 * c)).
    pose proof (Cn_nonneg n npos (fun i => t * f i + g i)) as Hp.
    assert (Hx : Cn n (fun i => t * f i + g i) (fun i => t * f i + g i) == t * t * Cn n f f + 2 * t * c + Cn n g g).
    { rewrite (Cn_lin_l n npos). rewrite (Cn_sym n npos f), (Cn_sym n npos g (fun i => t * f i + g i)).
      rewrite !(Cn_lin_l n npos). rewrite (Cn_sym n npos g f). fold c. ring. }
    rewrite Hx, H0 in Hp.
    assert (Hy : t * t * 0 + 2 * t * c + Cn n g g == -1) by (unfold t; field; exact E).
    rewrite Hy in Hp. revert Hp. apply Qlt_not_le. reflexivity. Qed.

  Lemma dotf_app a : forall l f k0, dotf (a ++ l) f k0 == dotf a f k0 + dotf l f (k0 + length a).
  Proof. induction a as [|x a IH]; intros l f k0; simpl.
    - rewrite Nat.add_0_r. ring.
    - rewrite IH. replace (S k0 + length a)%nat with (k0 + S (length a))%nat by lia. ring. Qed.

  Lemma dotf_map_scal c a : forall f k0, dotf (map (Qmult c) a) f k0 == c * dotf a f k0.
  Proof. induction a as [|x a IH]; intros f k0; simpl; [ring|]. rewrite IH. ring. Qed.

  Variable X : nat -> nat -> Q.

  (* EXISTENCE (Gram-Schmidt on the controls): for every number k of controls and every sample the normal equations
     Sigma_X b = Sigma_XY have a solution -- Sigma_XY lies in the range of Sigma_X, also when Sigma_X is singular.  So the
     least-squares problem lstsq solves is consistent and its minimiser is an exact solution. *)
  Theorem normal_eq_solvable k : forall Y, exists b, length b = k /\ normal_eq n b X Y.
  Proof. induction k as [|k IH]; intros Y.
    - exists []. split; [reflexivity|]. intros j Hj. simpl in Hj. lia.
    - destruct (IH (X k)) as [a [La Ha]]. destruct (IH Y) as [b0 [Lb Hb]].
      set (E := fun i => X k i - Zlin a X i). set (R0 := fun i => Y i - Zlin b0 X i).
      assert (HE : forall j, (j < k)%nat -> Cn n (X j) E == 0).
      { intros j Hj. apply (proj1 (normal_eq_resid n npos X (X k) a) Ha). now rewrite La. }
      assert (HR0 : forall j, (j < k)%nat -> Cn n (X j) R0 == 0).
      { intros j Hj. apply (proj1 (normal_eq_resid n npos X Y b0) Hb). now rewrite Lb. }
      set (vE := Cn n E E).
      set (c := if Qeq_dec vE 0 then 0 else Cn n E Y / vE).
      assert (Hc : c * vE == Cn n E Y).
      { unfold c. destruct (Qeq_dec vE 0) as [E0|E0].
        - rewrite (Cn_null E Y E0). ring.
        - field. exact E0. }
      set (b1 := vsub b0 (map (Qmult c) a)).
      assert (L1 : length b1 = k) by (unfold b1; rewrite vsub_length; [exact Lb|rewrite map_length; congruence]).
      exists (b1 ++ [c]). split; [rewrite app_length, L1; simpl; lia|].
      apply (proj2 (normal_eq_resid n npos X Y (b1 ++ [c]))). rewrite app_length, L1. simpl. intros j Hj.
      assert (HZ : forall i, Y i - Zlin (b1 ++ [c]) X i == R0 i - c * E i).
      { intros i. unfold Zlin at 1. rewrite dotf_app. simpl. rewrite L1. unfold b1.
        rewrite dotf_vsub by (rewrite map_length; congruence). rewrite dotf_map_scal. unfold R0, E, Zlin. ring. }
      rewrite (Cn_ext n npos (X j) (X j) _ _ (fun _ => Qeq_refl _) HZ). rewrite Cn_r_lin.
      assert (Hj' : (j < k)%nat \/ j = k) by lia. destruct Hj' as [Hj'|Hj'].
      + rewrite (HR0 j Hj'), (HE j Hj'). ring.
      + subst j.
        assert (HXk : forall i, X k i == E i + Zlin a X i) by (intros; unfold E; ring).
        assert (Za : forall g, (forall j, (j < k)%nat -> Cn n (X j) g == 0) -> Cn n (Zlin a X) g == 0).
        { intros g Hg. apply (Cn_zero_of_rows n npos). intros j Hj'. apply Hg. congruence. }
        assert (Zb : forall g, (forall j, (j < k)%nat -> Cn n (X j) g == 0) -> Cn n (Zlin b0 X) g == 0).
        { intros g Hg. apply (Cn_zero_of_rows n npos). intros j Hj'. apply Hg. congruence. }
        rewrite !(Cn_ext n npos (X k) _ _ _ HXk (fun _ => Qeq_refl _)). rewrite !Cn_add_l.
        rewrite (Za R0 HR0), (Za E HE). fold vE.
        unfold R0 at 1. rewrite (Cn_ext n npos E E _ (fun i => Y i - 1 * Zlin b0 X i)); [|reflexivity|intros; ring].
        rewrite Cn_r_lin. rewrite (Cn_sym n npos E (Zlin b0 X)), (Zb E HE). rewrite <- Hc. ring. Qed.
End Solvable.

(* ------------------------------------------------------------------ the code's b, any k *)
Lemma forallb_seq_spec (f : nat -> bool) k : forallb f (seq 0 k) = true -> forall j, (j < k)%nat -> f j = true.
Proof. intros H j Hj. rewrite forallb_forall in H. apply H. apply in_seq. lia. Qed.

Lemma normal_eqb_sound n b X Y : normal_eqb n b X Y = true -> normal_eq n b X Y.
Proof. intros H j Hj. apply Qeq_bool_eq. exact (forallb_seq_spec _ _ H j Hj). Qed.

Lemma minnorm_certb_sound n b w X : minnorm_certb n b w X = true -> minnorm_cert n b w X.
Proof. unfold minnorm_certb. intros H. apply andb_prop in H. destruct H as [H1 H2]. split; [now apply Nat.eqb_eq|].
  intros j Hj. apply Qeq_bool_eq. exact (forallb_seq_spec _ _ H2 j Hj). Qed.

(* what the vm_compute correspondence checks implies the specification the theorems are about *)
Lemma code_bb_sound n k b w X Y : code_bb n k b w X Y = true -> code_b n k b X Y.
Proof. unfold code_bb, code_b. intros H. apply andb_prop in H. destruct H as [H1 H2]. split; [now apply Nat.eqb_eq|].
  destruct (any_degenerate n k X).
  - apply Forall_forall. intros x Hx. rewrite forallb_forall in H2. apply Qeq_bool_eq. now apply H2.
  - apply andb_prop in H2. destruct H2 as [H2 H3]. exists w. split; [now apply normal_eqb_sound|now apply minnorm_certb_sound]. Qed.

Lemma dotf_all_zero b : Forall (fun x => x == 0) b -> forall f k0, dotf b f k0 == 0.
Proof. induction 1 as [|x l Hx _ IH]; intros f k0; simpl; [reflexivity|]. rewrite Hx, IH. ring. Qed.

Lemma any_degenerate_false n k X : any_degenerate n k X = false -> forall j, (j < k)%nat -> degenerate n (X j) = false.
Proof. unfold any_degenerate. intros H j Hj. destruct (degenerate n (X j)) eqn:E; [|reflexivity].
  assert (T : existsb (fun j => degenerate n (X j)) (seq 0 k) = true) by (apply existsb_exists; exists j; split; [apply in_seq; lia|exact E]).
  congruence. Qed.

(* COMPOSITION, any number of controls: with the b the code computes (guard included, collinear controls included)
   the adjusted sample never has more variance than the raw one; when the guard does not fire it has the LEAST variance
   among all Y - b'.(X - p'), and b is the only vector meeting the specification *)
Theorem cv_code_b_general n k b p X Y : (0 < n)%nat -> code_b n k b X Y ->
  Cn n (cv_adj b p X Y) (cv_adj b p X Y) <= Cn n Y Y
  /\ (any_degenerate n k X = false ->
      (forall b' p', length b' = k -> Cn n (cv_adj b p X Y) (cv_adj b p X Y) <= Cn n (cv_adj b' p' X Y) (cv_adj b' p' X Y))
      /\ (forall b', code_b n k b' X Y -> forall j, (j < k)%nat -> nth j b 0 == nth j b' 0)).
Proof. intros Hn [Hl Hb]. destruct (any_degenerate n k X) eqn:G.
  - split; [|discriminate]. rewrite (Cn_ext n Hn _ Y _ Y); [apply Qle_refl| |];
      intros i; unfold cv_adj; rewrite (dotf_all_zero b Hb); ring.
  - destruct Hb as [w Hs]. split.
    + apply (cv_variance n Hn b p X Y). exact (proj1 Hs).
    + intros _. split.
      * intros b' p' Hl'. apply (cv_optimal n Hn X Y b p b' p' (proj1 Hs)). congruence.
      * intros b' [Hl' Hb'] j Hj. rewrite G in Hb'. destruct Hb' as [w' Hs'].
        apply (lstsq_spec_unique n Hn X Y b w b' w' Hs Hs'); [congruence| |congruence].
        intros i Hi. apply (not_degenerate_pos n (X i) Hn). apply (any_degenerate_false n k X G). congruence. Qed.

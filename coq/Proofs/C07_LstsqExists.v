(* C07 -- EXISTENCE of what np.linalg.lstsq is specified to return, for every number k of controls and every sample:
   when no control is degenerate there are b and a certificate w with  Sigma b = Sigma_XY  and  diag(Sigma) b = Sigma w
   (Model/McCv.v lstsq_spec).  Together with lstsq_spec_unique (Proofs/C07_CvGeneral.v) the model has exactly ONE b* for
   every k, collinear controls or not.
   Proof: Gram-Schmidt for an ABSTRACT positive semi-definite symmetric bilinear form (gram_solvable; the sample
   covariance version is normal_eq_solvable), instantiated with the inner product  <u,v> = sum_l u_l v_l / Sigma_ll  on
   Q^k, the vectors being the columns of Sigma_X and the target  diag(Sigma) b0  for a solution b0 of the normal equations:
   the Gram matrix is then Sigma D^-1 Sigma, the right-hand side Sigma b0 = Sigma_XY, so  Sigma (D^-1 Sigma w) = Sigma_XY. *)
From Coq Require Import List ZArith QArith Qabs Qminmax Bool Lia Setoid Morphisms.
From RV Require Import Base.QB Model.McStats Model.McCv Proofs.C07_StatsLemmas Proofs.C07_McStats Proofs.C07_CvGeneral.
Import ListNotations.
Open Scope Q_scope.

Lemma dotf_app' a : forall l f k0, dotf (a ++ l) f k0 == dotf a f k0 + dotf l f (k0 + length a).
Proof. induction a as [|x a IH]; intros l f k0; simpl.
  - rewrite Nat.add_0_r. ring.
  - rewrite IH. replace (S k0 + length a)%nat with (k0 + S (length a))%nat by lia. ring. Qed.

Lemma dotf_scal_l c b : forall f k0, dotf b (fun i => c * f i) k0 == c * dotf b f k0.
Proof. induction b as [|x b IH]; intros f k0; simpl; [ring|]. rewrite IH. ring. Qed.

(* ------------------------------------------------------------------ Gram-Schmidt for an abstract semi-inner product *)
Section AbstractGram.
  Variable V : Type.
  Variable ip : V -> V -> Q.
  Variable vlin : Q -> V -> V -> V.            (* vlin c u v  stands for  c u + v *)
  Hypothesis ip_sym : forall u v, ip u v == ip v u.
  Hypothesis ip_lin : forall c u v g, ip (vlin c u v) g == c * ip u g + ip v g.
  Hypothesis ip_nonneg : forall u, 0 <= ip u u.
  Variable X : nat -> V.

  (* T - sum_i b_i X_(k0+i) *)
  Fixpoint resid (b : list Q) (T : V) (k0 : nat) : V :=
    match b with
    | [] => T
    | x :: r => vlin (- x) (X k0) (resid r T (S k0))
    end.

  Lemma ip_resid_l b : forall T k0 g, ip (resid b T k0) g == ip T g - dotf b (fun i => ip (X i) g) k0.
  Proof. induction b as [|x b IH]; intros T k0 g; simpl; [ring|]. rewrite ip_lin, IH. ring. Qed.

  Lemma ip_resid_r b T k0 g : ip g (resid b T k0) == ip g T - dotf b (fun i => ip g (X i)) k0.
  Proof. rewrite ip_sym, ip_resid_l, (ip_sym T g). rewrite (dotf_ext b (fun i => ip (X i) g) (fun i => ip g (X i)) k0); [reflexivity|].
    intros i. apply ip_sym. Qed.

  (* Cauchy-Schwarz, the degenerate case *)
  Lemma ip_null f g : ip f f == 0 -> ip f g == 0.
  Proof. intros H0. destruct (Qeq_dec (ip f g) 0) as [E|E]; [exact E|]. exfalso.
    set (c := ip f g) in *. set (t := - (ip g g + 1) / (2 * c)).
    pose proof (ip_nonneg (vlin t f g)) as Hp.
    assert (Hx : ip (vlin t f g) (vlin t f g) == t * t * ip f f + 2 * t * c + ip g g).
    { rewrite ip_lin. rewrite (ip_sym f (vlin t f g)), (ip_sym g (vlin t f g)). rewrite !ip_lin. rewrite (ip_sym g f). fold c. ring. }
    rewrite Hx, H0 in Hp.
    assert (Hy : t * t * 0 + 2 * t * c + ip g g == -1) by (unfold t; field; exact E).
    rewrite Hy in Hp. revert Hp. apply Qlt_not_le. reflexivity. Qed.

  (* the normal equations  G b = (<X_j, T>)_j  of a Gram matrix G_ji = <X_j, X_i> are solvable for every k and T *)
  Theorem gram_solvable k : forall T, exists b, length b = k /\
    forall j, (j < k)%nat -> dotf b (fun i => ip (X j) (X i)) 0 == ip (X j) T.
  Proof. induction k as [|k IH]; intros T.
    - exists []. split; [reflexivity|]. intros j Hj. lia.
    - destruct (IH (X k)) as [a [La Ha]]. destruct (IH T) as [b0 [Lb Hb]].
      set (E := resid a (X k) 0). set (R0 := resid b0 T 0).
      assert (HE : forall j, (j < k)%nat -> ip (X j) E == 0).
      { intros j Hj. unfold E. rewrite ip_resid_r, (Ha j Hj). ring. }
      assert (HR0 : forall j, (j < k)%nat -> ip (X j) R0 == 0).
      { intros j Hj. unfold R0. rewrite ip_resid_r, (Hb j Hj). ring. }
      set (vE := ip E E).
      set (c := if Qeq_dec vE 0 then 0 else ip E T / vE).
      assert (Hc : c * vE == ip E T).
      { unfold c. destruct (Qeq_dec vE 0) as [E0|E0].
        - rewrite (ip_null E T E0). ring.
        - field. exact E0. }
      set (b1 := vsub b0 (map (Qmult c) a)).
      assert (L1 : length b1 = k) by (unfold b1; rewrite vsub_length; [exact Lb|rewrite map_length; congruence]).
      exists (b1 ++ [c]). split; [rewrite app_length, L1; simpl; lia|].
      intros j Hj. rewrite dotf_app'. simpl. rewrite L1. unfold b1.
      rewrite dotf_vsub by (rewrite map_length; congruence). rewrite dotf_map_scal.
      assert (Hj' : (j < k)%nat \/ j = k) by lia. destruct Hj' as [Hj'|Hj'].
      + rewrite (Hb j Hj'), (Ha j Hj'). ring.
      + subst j.
        assert (A1 : ip E R0 == ip E T).
        { unfold R0. rewrite ip_resid_r. rewrite (dotf_zero_range b0); [ring|].
          intros i Hi. rewrite ip_sym. apply HE. lia. }
        assert (A2 : ip E R0 == ip (X k) T - dotf b0 (fun i => ip (X k) (X i)) 0).
        { unfold E at 1. rewrite ip_resid_l. rewrite (dotf_zero_range a); [|intros i Hi; apply HR0; lia].
          unfold R0. rewrite ip_resid_r. ring. }
        assert (H2 : vE == ip (X k) (X k) - dotf a (fun i => ip (X k) (X i)) 0).
        { unfold vE. unfold E at 1. rewrite ip_resid_l. rewrite (dotf_zero_range a); [|intros i Hi; apply HE; lia].
          unfold E. rewrite ip_resid_r. ring. }
        set (u := dotf b0 (fun i => ip (X k) (X i)) 0) in *. set (v := dotf a (fun i => ip (X k) (X i)) 0) in *.
        transitivity ((ip (X k) T - ip E T) + c * vE); [|rewrite Hc; ring].
        rewrite H2, <- A1, A2. ring. Qed.
End AbstractGram.

(* ------------------------------------------------------------------ the weighted inner product on Q^k *)
Lemma Sn_dotf k w (F : nat -> nat -> Q) : forall k0, Sn k (fun l => dotf w (fun i => F i l) k0) == dotf w (fun i => Sn k (F i)) k0.
Proof. induction w as [|x w IH]; intros k0; simpl.
  - rewrite Sn_const. ring.
  - rewrite (Sn_add k (fun l => x * F k0 l) (fun l => dotf w (fun i => F i l) (S k0))). rewrite Sn_scal, IH. reflexivity. Qed.

Lemma dotf_map_seq (h f : nat -> Q) k : forall k0, dotf (map h (seq k0 k)) f k0 == Qsum (map (fun l => h l * f l) (seq k0 k)).
Proof. induction k as [|k IH]; intros k0; simpl; [reflexivity|]. rewrite IH. reflexivity. Qed.

Lemma dotf_Qsum b f : forall k0, dotf b f k0 == Qsum (map (fun l => nth l b 0 * f (k0 + l)%nat) (seq 0 (length b))).
Proof. induction b as [|x b IH]; intros k0; simpl length; [reflexivity|].
  rewrite <- cons_seq, <- seq_shift. simpl. rewrite map_map, Nat.add_0_r, IH.
  apply Qplus_comp; [reflexivity|]. apply Qsum_map_ext. intros l. replace (k0 + S l)%nat with (S k0 + l)%nat by lia. reflexivity. Qed.

Section Weighted.
  Variable k : nat.
  Variable D : nat -> Q.
  Hypothesis Dpos : forall l, 0 < D l.

  Definition wip (u v : nat -> Q) : Q := Sn k (fun l => u l * v l / D l).
  Definition wlin (c : Q) (u v : nat -> Q) : nat -> Q := fun l => c * u l + v l.

  Lemma D_nz l : ~ D l == 0.
  Proof. intros E. pose proof (Dpos l) as H. rewrite E in H. now apply Qlt_irrefl in H. Qed.

  Lemma wip_sym u v : wip u v == wip v u.
  Proof. unfold wip. apply Sn_ext. intros l. unfold Qdiv. ring. Qed.

  Lemma wip_lin c u v g : wip (wlin c u v) g == c * wip u g + wip v g.
  Proof. unfold wip, wlin. rewrite <- Sn_scal.
    rewrite <- (Sn_add k (fun l => c * (u l * g l / D l)) (fun l => v l * g l / D l)).
    apply Sn_ext. intros l. unfold Qdiv. ring. Qed.

  Lemma wip_nonneg u : 0 <= wip u u.
  Proof. unfold wip, Sn. apply Qsum_map_nonneg. intros l. unfold Qdiv. apply Qmult_le_0_compat; [apply Qsq_nonneg|].
    apply Qinv_le_0_compat. apply Qlt_le_weak, Dpos. Qed.
End Weighted.

(* ------------------------------------------------------------------ existence of lstsq's answer *)
Section Exists.
  Variable n : nat.
  Hypothesis npos : (0 < n)%nat.
  Variable X : nat -> nat -> Q.
  Variable Y : nat -> Q.
  Variable k : nat.
  Hypothesis Xpos : forall j, (j < k)%nat -> 0 < Cn n (X j) (X j).

  Let Sig (l j : nat) : Q := Cn n (X l) (X j).
  Let D (l : nat) : Q := if Nat.ltb l k then Sig l l else 1.
  Let col (j : nat) : nat -> Q := fun l => Sig l j.

  Lemma D_pos l : 0 < D l.
  Proof. unfold D. destruct (Nat.ltb l k) eqn:E; [|reflexivity]. apply Xpos. now apply Nat.ltb_lt. Qed.

  Lemma D_diag l : (l < k)%nat -> D l = Cn n (X l) (X l).
  Proof. intros H. unfold D. apply Nat.ltb_lt in H. now rewrite H. Qed.

  Theorem lstsq_spec_exists : exists b w, length b = k /\ lstsq_spec n b w X Y.
  Proof.
    destruct (normal_eq_solvable n npos X k Y) as [b0 [L0 H0]].
    destruct (gram_solvable (nat -> Q) (wip k D) wlin (wip_sym k D) (wip_lin k D) (wip_nonneg k D D_pos) col k
                            (fun l => D l * nth l b0 0)) as [w [Lw Hw]].
    set (h := fun l => sigma_row n X w l / D l).
    exists (map h (seq 0 k)), w.
    assert (Lb : length (map h (seq 0 k)) = k) by (rewrite map_length; apply seq_length).
    split; [exact Lb|]. split.
    - (* Sigma (D^-1 Sigma w) = Sigma_XY *)
      intros j Hj. rewrite Lb in Hj. rewrite <- (H0 j) by (rewrite L0; exact Hj).
      rewrite dotf_map_seq. specialize (Hw j Hj).
      assert (R : wip k D (col j) (fun l => D l * nth l b0 0) == dotf b0 (fun i => Cn n (X j) (X i)) 0).
      { rewrite dotf_Qsum, L0. unfold wip, Sn. apply Qsum_map_ext. intros l. unfold col, Sig. simpl.
        rewrite (Cn_sym n npos (X l) (X j)). field. apply (D_nz D D_pos). }
      rewrite <- R, <- Hw.
      rewrite (dotf_ext w _ (fun i => Sn k (fun l => col j l * col i l / D l)) 0) by (intros i; reflexivity).
      rewrite <- (Sn_dotf k w (fun i l => col j l * col i l / D l) 0). unfold Sn. apply Qsum_map_ext. intros l.
      unfold h, sigma_row.
      rewrite (dotf_ext w (fun i => col j l * col i l / D l) (fun i => (col j l / D l) * Cn n (X l) (X i)) 0).
      2:{ intros i. unfold col, Sig, Qdiv. ring. }
      rewrite dotf_scal_l. unfold col, Sig. rewrite (Cn_sym n npos (X l) (X j)). unfold Qdiv. ring.
    - (* diag(Sigma) b = Sigma w *)
      split; [rewrite Lb; exact Lw|]. intros j Hj. rewrite Lb in Hj. rewrite (nth_map_seq h k j Hj). unfold h.
      rewrite <- (D_diag j Hj). field. apply (D_nz D D_pos). Qed.
End Exists.

Lemma nth_all_zero b : Forall (fun x => x == 0) b -> forall j, nth j b 0 == 0.
Proof. induction 1 as [|x l Hx _ IH]; intros [|j]; simpl; try reflexivity; [exact Hx|apply IH]. Qed.

(* COMPOSITION: for every sample and every number k of controls the specification of helper_compute_coefficients
   (guard, else lstsq) is met by exactly one coefficient vector *)
Theorem code_b_exists_unique n k X Y : (0 < n)%nat ->
  exists b, code_b n k b X Y /\ forall b', code_b n k b' X Y -> forall j, (j < k)%nat -> nth j b 0 == nth j b' 0.
Proof. intros Hn. destruct (any_degenerate n k X) eqn:G.
  - exists (repeat 0 k).
    assert (Hz : Forall (fun x => x == 0) (repeat 0 k)) by (apply Forall_forall; intros x Hx; apply repeat_spec in Hx; subst x; reflexivity).
    split.
    + split; [apply repeat_length|]. rewrite G. exact Hz.
    + intros b' [_ Hb'] j _. rewrite G in Hb'. rewrite (nth_all_zero _ Hz j), (nth_all_zero _ Hb' j). reflexivity.
  - destruct (lstsq_spec_exists n Hn X Y k) as [b [w [Lb Hs]]].
    { intros j Hj. apply (not_degenerate_pos n (X j) Hn). exact (any_degenerate_false n k X G j Hj). }
    assert (Hc : code_b n k b X Y) by (split; [exact Lb|]; rewrite G; exists w; exact Hs).
    exists b. split; [exact Hc|]. intros b' Hc'.
    exact (proj2 (proj2 (cv_code_b_general n k b (fun _ => 0) X Y Hn Hc) G) b' Hc'). Qed.

(* audit5a B10, in the auditor's form: the lstsq branch of code_b is INHABITED for every sample on which the guard does not fire
   (corollary of lstsq_spec_exists: `not degenerate` gives a positive sample variance) *)
Corollary lstsq_answer_exists_nondegenerate n X Y k : (0 < n)%nat -> any_degenerate n k X = false ->
  exists b w, length b = k /\ lstsq_spec n b w X Y.
Proof. intros Hn G. apply (lstsq_spec_exists n Hn X Y k).
  intros j Hj. apply (not_degenerate_pos n (X j) Hn). exact (any_degenerate_false n k X G j Hj). Qed.

(* UNCONDITIONAL form of cv_code_b_general (its hypothesis `code_b n k b X Y` discharged by code_b_exists_unique): for every
   sample, every k and all centring prices there IS a coefficient vector meeting the code's specification, every such vector gives
   var(adj) <= var Y, and -- guard not firing -- the least variance over all b', p'.  About the EXACT b of the specification (over Q);
   what numpy's float lstsq returns on nearly collinear controls is another matter (see THEOREM_NOTES, LEVEL_TEXT). *)
Theorem cv_code_b_unconditional n k X Y : (0 < n)%nat ->
  exists b, code_b n k b X Y
    /\ (forall p, Cn n (cv_adj b p X Y) (cv_adj b p X Y) <= Cn n Y Y)
    /\ (any_degenerate n k X = false ->
        forall p b' p', length b' = k -> Cn n (cv_adj b p X Y) (cv_adj b p X Y) <= Cn n (cv_adj b' p' X Y) (cv_adj b' p' X Y)).
Proof. intros Hn. destruct (code_b_exists_unique n k X Y Hn) as [b [Hc _]]. exists b. split; [exact Hc|]. split.
  - intros p. exact (proj1 (cv_code_b_general n k b p X Y Hn Hc)).
  - intros G p b' p' Hl. exact (proj1 (proj2 (cv_code_b_general n k b p X Y Hn Hc) G) b' p' Hl). Qed.

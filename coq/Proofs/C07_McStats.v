(* C07 -- proofs about the standard Monte-Carlo engine loop, the error estimate and the control-variate
   adjustment of Model/McStats.v.  For all paths, payoffs, sizes, coefficients. *)
From Coq Require Import List ZArith QArith Qabs Qminmax Bool Lia Setoid Morphisms.
From RV Require Import Base.QB Model.McStats Proofs.C07_StatsLemmas.
Import ListNotations.
Open Scope Q_scope.

(* ------------------------------------------------------------------ sums *)
Lemma Qsum_map_add {A} (f g : A -> Q) l : Qsum (map (fun i => f i + g i) l) == Qsum (map f l) + Qsum (map g l).
Proof. induction l as [|x l IH]; simpl; [ring|]. rewrite IH. ring. Qed.
Lemma Qsum_map_scal {A} a (f : A -> Q) l : Qsum (map (fun i => a * f i) l) == a * Qsum (map f l).
Proof. induction l as [|x l IH]; simpl; [ring|]. rewrite IH. ring. Qed.
Lemma Qsum_map_const {A} (c : Q) (l : list A) : Qsum (map (fun _ => c) l) == qlen l * c.
Proof. induction l as [|x l IH]; [simpl; rewrite qlen_nil; ring|]. simpl map. simpl Qsum. rewrite IH, qlen_cons. ring. Qed.
Lemma Qsum_map_ext {A} (f g : A -> Q) l : (forall i, f i == g i) -> Qsum (map f l) == Qsum (map g l).
Proof. intros H. induction l as [|x l IH]; simpl; [reflexivity|]. now rewrite IH, H. Qed.
Lemma Qsum_map_nonneg {A} (f : A -> Q) l : (forall i, 0 <= f i) -> 0 <= Qsum (map f l).
Proof. intros H. induction l as [|x l IH]; simpl; [apply Qle_refl|]. rewrite <- (Qplus_0_r 0). apply Qplus_le_compat; auto. Qed.

Lemma Qsq_nonneg x : 0 <= x * x.
Proof. unfold Qle, Qmult; simpl. rewrite Z.mul_1_r. apply Z.square_nonneg. Qed.

Lemma nth_map_seq (f : nat -> Q) d j : (j < d)%nat -> nth j (map f (seq 0 d)) 0 = f j.
Proof. intros H. rewrite (nth_indep _ 0 (f 0%nat)) by (rewrite map_length, seq_length; exact H).
  rewrite (map_nth f (seq 0 d) 0%nat j). now rewrite seq_nth. Qed.

(* ------------------------------------------------------------------ the engine loop *)
Section Std.
  Variable payoff : Q -> list Q.
  Variable path : nat -> Q.
  Variables df notional : Q.
  Notation srow := (std_row payoff path df notional).

  Lemma set_nth_app' {A} (v : A) (a : list A) b (r : list A) : set_nth (length a) v (a ++ b :: r) = a ++ v :: r.
  Proof. induction a as [|x a IH]; simpl; [reflexivity|]. now rewrite IH. Qed.

  Lemma std_loop_spec : forall k a b c, length a = c -> length b = k ->
    std_loop payoff path df notional (seq c k) (a ++ b) = a ++ map srow (seq c k).
  Proof. induction k as [|k IH]; intros a b c Ha Hb.
    - destruct b; [|discriminate]. reflexivity.
    - destruct b as [|x b]; [discriminate|]. subst c. simpl. rewrite set_nth_app'.
      change (a ++ srow (length a) :: b) with (a ++ [srow (length a)] ++ b). rewrite app_assoc.
      rewrite (IH (a ++ [srow (length a)]) b (S (length a))).
      + now rewrite <- app_assoc.
      + rewrite app_length. simpl. lia.
      + simpl in Hb. lia. Qed.

  (* whatever np.empty contained: after the loop row i is df * notional * payoff(path_i), each path once, in order *)
  Theorem engine_rows n init : length init = n ->
    std_engine payoff path df notional n init = map srow (seq 0 n).
  Proof. intros H. unfold std_engine. apply (std_loop_spec n [] init 0%nat); auto. Qed.

  Lemma column_rows j (d : nat) l : (forall i, length (payoff (path i)) = d) -> (j < d)%nat ->
    column j (map srow l) = map (fun i => df * (notional * nth j (payoff (path i)) 0)) l.
  Proof. intros Hd Hj. unfold column. rewrite map_map. apply map_ext. intros i. unfold std_row.
    rewrite (nth_indep _ 0 (df * (notional * 0))); [|rewrite map_length, Hd; exact Hj].
    exact (map_nth (fun p => df * (notional * p)) (payoff (path i)) 0 j). Qed.

  Theorem price_is_df_mean n init d j :
    length init = n -> (forall i, length (payoff (path i)) = d) -> (j < d)%nat ->
    nth j (std_price d (std_engine payoff path df notional n init)) 0
    == df * notional * mean (map (fun i => nth j (payoff (path i)) 0) (seq 0 n)).
  Proof. intros Hn Hd Hj. rewrite (engine_rows n init Hn). unfold std_price, columns.
    rewrite map_map. rewrite (nth_map_seq (fun j => mean (column j (map srow (seq 0 n)))) d j Hj).
    rewrite (column_rows j d _ Hd Hj). rewrite !mean_spec, !qlen_map.
    rewrite (Qsum_map_ext _ (fun i => (df * notional) * nth j (payoff (path i)) 0)) by (intros; ring).
    rewrite Qsum_map_scal. unfold Qdiv. ring. Qed.
End Std.

(* ------------------------------------------------------------------ the error estimate *)
(* unbiased variance through the computational formula: sum (x - mean)^2 = sum x^2 - n mean^2 *)
Lemma var_unbiased_textbook l : (2 <= length l)%nat ->
  var_unbiased l == (Qsum (map sq l) - qlen l * sq (mean l)) / (qlen l - 1).
Proof. intros H. unfold var_unbiased. destruct l as [|x [|y l]]; simpl in H; try lia.
  set (L := x :: y :: l). unfold center. rewrite sum_sq_center. unfold Qdiv. apply Qmult_comp; [|reflexivity].
  assert (Hn : ~ qlen L == 0) by (apply qlen_nz; discriminate).
  pose proof (mean_spec L) as Hm. unfold sq. remember (mean L) as m. remember (qlen L) as n. remember (Qsum L) as S1.
  assert (HS : S1 == m * n) by (rewrite Hm; field; exact Hn). rewrite HS. ring. Qed.

Lemma mc_var_length d rows : length (mc_var_repaired d rows) = d.
Proof. unfold mc_var_repaired, columns. now rewrite !map_length, seq_length. Qed.

Theorem error_per_component d rows j : (j < d)%nat -> (2 <= length rows)%nat ->
  nth j (mc_var_repaired d rows) 0
  == (Qsum (map sq (column j rows)) - qlen rows * sq (mean (column j rows))) / (qlen rows - 1) / qlen rows.
Proof. intros Hj Hn. unfold mc_var_repaired, columns. rewrite map_map.
  rewrite (nth_map_seq (fun j => mc_var_col (qlen rows) (column j rows)) d j Hj).
  unfold mc_var_col. rewrite var_unbiased_textbook by (unfold column; now rewrite map_length).
  assert (E : qlen (column j rows) = qlen rows) by (unfold column; apply qlen_map). rewrite E. reflexivity. Qed.

(* behaviour before the repair: divisor rows*columns *)
Lemma error_vector_before_repair :
  let rows := [[0; 0]; [2; 2]] in
  nth 0 (mc_var_old 2 rows) 0 == 1 # 2 /\ nth 0 (mc_var_repaired 2 rows) 0 == 1.
Proof. vm_compute. split; reflexivity. Qed.

(* ------------------------------------------------------------------ control variates *)
Section CV.
  Variable n : nat.
  Hypothesis npos : (0 < n)%nat.

  Lemma qn_nz : ~ qnat n == 0.
  Proof. unfold qnat. intro E. assert (H : 0 < inject_Z (Z.of_nat n)) by (change 0 with (inject_Z 0); rewrite <- Zlt_Qlt; lia).
    rewrite E in H. now apply Qlt_irrefl in H. Qed.

  Lemma Sn_add f g : Sn n (fun i => f i + g i) == Sn n f + Sn n g.
  Proof. apply Qsum_map_add. Qed.
  Lemma Sn_scal a f : Sn n (fun i => a * f i) == a * Sn n f.
  Proof. apply Qsum_map_scal. Qed.
  Lemma Sn_const c : Sn n (fun _ => c) == qnat n * c.
  Proof. unfold Sn. rewrite Qsum_map_const. unfold qlen, qnat. now rewrite seq_length. Qed.
  Lemma Sn_ext f g : (forall i, f i == g i) -> Sn n f == Sn n g.
  Proof. apply Qsum_map_ext. Qed.

  Lemma En_ext f g : (forall i, f i == g i) -> En n f == En n g.
  Proof. intros H. unfold En. now rewrite (Sn_ext f g H). Qed.
  Lemma En_add f g : En n (fun i => f i + g i) == En n f + En n g.
  Proof. unfold En. rewrite Sn_add. unfold Qdiv. ring. Qed.
  Lemma En_scal a f : En n (fun i => a * f i) == a * En n f.
  Proof. unfold En. rewrite Sn_scal. unfold Qdiv. ring. Qed.
  Lemma En_const c : En n (fun _ => c) == c.
  Proof. unfold En. rewrite Sn_const. field. apply qn_nz. Qed.

  (* covariance: mean of products minus product of means *)
  Lemma Cn_alt f g : Cn n f g == En n (fun i => f i * g i) - En n f * En n g.
  Proof. unfold Cn. rewrite Qred_correct.
    rewrite (En_ext _ (fun i => f i * g i + ((- En n g) * f i + ((- En n f) * g i + En n f * En n g)))) by (intros; rewrite !Qred_correct; ring).
    rewrite !En_add, !En_scal, En_const. ring. Qed.

  Lemma Cn_ext f f' g g' : (forall i, f i == f' i) -> (forall i, g i == g' i) -> Cn n f g == Cn n f' g'.
  Proof. intros Hf Hg. rewrite !Cn_alt. rewrite (En_ext f f' Hf), (En_ext g g' Hg).
    rewrite (En_ext (fun i => f i * g i) (fun i => f' i * g' i)); [reflexivity|]. intros. now rewrite Hf, Hg. Qed.
  Lemma Cn_sym f g : Cn n f g == Cn n g f.
  Proof. rewrite !Cn_alt. rewrite (En_ext (fun i => f i * g i) (fun i => g i * f i)) by (intros; ring). ring. Qed.
  Lemma Cn_lin_l a f r g : Cn n (fun i => a * f i + r i) g == a * Cn n f g + Cn n r g.
  Proof. rewrite !Cn_alt.
    rewrite (En_ext (fun i => (a * f i + r i) * g i) (fun i => a * (f i * g i) + r i * g i)) by (intros; ring).
    rewrite !En_add, !En_scal. ring. Qed.
  Lemma Cn_sub_l f r g : Cn n (fun i => f i - r i) g == Cn n f g - Cn n r g.
  Proof. rewrite !Cn_alt.
    rewrite (En_ext (fun i => (f i - r i) * g i) (fun i => f i * g i + (-1) * (r i * g i))) by (intros; ring).
    rewrite (En_ext (fun i => f i - r i) (fun i => f i + (-1) * r i)) by (intros; ring).
    rewrite !En_add, !En_scal. ring. Qed.
  Lemma Cn_zero_l g : Cn n (fun _ => 0) g == 0.
  Proof. rewrite Cn_alt. rewrite (En_ext (fun i => 0 * g i) (fun _ => 0)) by (intros; ring). rewrite En_const. ring. Qed.
  Lemma Cn_shift c f g : Cn n (fun i => f i + c) g == Cn n f g.
  Proof. rewrite !Cn_alt. rewrite (En_ext (fun i => (f i + c) * g i) (fun i => f i * g i + c * g i)) by (intros; ring).
    rewrite !En_add, En_scal, En_const. ring. Qed.
  Lemma Cn_nonneg f : 0 <= Cn n f f.
  Proof. unfold Cn. rewrite Qred_correct. unfold En at 1. unfold Qdiv. apply Qmult_le_0_compat.
    - apply Qsum_map_nonneg. intros i. apply Qsq_nonneg.
    - apply Qinv_le_0_compat. unfold qnat. change 0 with (inject_Z 0). rewrite <- Zle_Qle. lia. Qed.

  (* ---- linear combinations of the controls *)
  Lemma dotf_ext b f g : forall k0, (forall k, f k == g k) -> dotf b f k0 == dotf b g k0.
  Proof. induction b as [|bk r IH]; simpl; intros k0 H; [reflexivity|]. now rewrite H, (IH (S k0) H). Qed.

  Lemma En_dotf b (F : nat -> nat -> Q) : forall k0,
    En n (fun i => dotf b (fun k => F k i) k0) == dotf b (fun k => En n (F k)) k0.
  Proof. induction b as [|bk r IH]; simpl; intros k0.
    - apply En_const.
    - rewrite En_add, En_scal, IH. reflexivity. Qed.

  Lemma Cn_dotf_l b (F : nat -> nat -> Q) g : forall k0,
    Cn n (fun i => dotf b (fun k => F k i) k0) g == dotf b (fun k => Cn n (F k) g) k0.
  Proof. induction b as [|bk r IH]; simpl; intros k0.
    - apply Cn_zero_l.
    - rewrite Cn_lin_l, IH. reflexivity. Qed.

  Lemma dotf_scal_sum b (f : nat -> Q) c : forall k0, dotf b (fun k => f k - c k) k0 == dotf b f k0 - dotf b c k0.
  Proof. induction b as [|bk r IH]; simpl; intros k0; [ring|]. rewrite IH. ring. Qed.

  Variable b : list Q.
  Variable p : nat -> Q.
  Variable X : nat -> nat -> Q.
  Variable Y : nat -> Q.
  Notation adj := (cv_adj b p X Y).
  Definition Zlin (i : nat) : Q := dotf b (fun k => X k i) 0.       (* b . X_i *)

  (* mean(adj) = mean Y - b . (mean X - price), for ANY b *)
  Theorem cv_mean : En n adj == En n Y - dotf b (fun k => En n (X k) - p k) 0.
  Proof. unfold cv_adj.
    rewrite (En_ext _ (fun i => Y i + (-1) * dotf b (fun k => X k i - p k) 0)) by (intros; ring).
    rewrite En_add, En_scal. rewrite (En_dotf b (fun k i => X k i - p k) 0).
    rewrite (dotf_ext b (fun k => En n (fun i => X k i - p k)) (fun k => En n (X k) - p k)); [ring|].
    intros k. rewrite (En_ext _ (fun i => X k i + (-1) * p k)) by (intros; ring). rewrite En_add, En_const. ring. Qed.

  Corollary cv_mean_unbiased : (forall k, En n (X k) == p k) -> En n adj == En n Y.
  Proof. intros H. rewrite cv_mean. rewrite (dotf_ext b _ (fun _ => 0)) by (intros k; rewrite H; ring).
    assert (Z0 : forall l k0, dotf l (fun _ => 0) k0 == 0) by (induction l; simpl; intros; [reflexivity|rewrite IHl; ring]).
    rewrite Z0. ring. Qed.

  Lemma adj_as_shift i : adj i == (Y i + (-1) * Zlin i) + dotf b p 0.
  Proof. unfold cv_adj, Zlin. rewrite dotf_scal_sum. ring. Qed.

  (* var(adj) = var Y - var(b.X) <= var Y whenever b solves the normal equations Sigma_X b = Sigma_XY *)
  Theorem cv_variance : normal_eq n b X Y ->
    Cn n adj adj == Cn n Y Y - Cn n Zlin Zlin /\ 0 <= Cn n Zlin Zlin /\ Cn n adj adj <= Cn n Y Y.
  Proof. intros Hne.
    assert (HZY : Cn n Zlin Y == Cn n Zlin Zlin).
    { unfold Zlin at 1 2. rewrite !(Cn_dotf_l b X _ 0).
      assert (G : forall l k0, (forall j, (k0 <= j < k0 + length l)%nat -> Cn n (X j) Y == Cn n (X j) Zlin) ->
                  dotf l (fun k => Cn n (X k) Y) k0 == dotf l (fun k => Cn n (X k) Zlin) k0).
      { induction l as [|x l IH]; simpl; intros k0 H; [reflexivity|]. rewrite (H k0) by lia. rewrite IH; [reflexivity|].
        intros j Hj. apply H. lia. }
      apply G. intros j Hj. rewrite <- (Hne j) by lia.
      rewrite (Cn_sym (X j) Zlin). unfold Zlin. rewrite (Cn_dotf_l b X (X j) 0).
      apply dotf_ext. intros k. apply Cn_sym. }
    assert (Hv : Cn n adj adj == Cn n Y Y - Cn n Zlin Zlin).
    { set (W := fun i => Y i - Zlin i).
      rewrite (Cn_ext adj (fun i => W i + dotf b p 0) adj (fun i => W i + dotf b p 0))
        by (intros; rewrite adj_as_shift; unfold W; ring).
      rewrite Cn_shift, (Cn_sym W), Cn_shift.
      unfold W at 1. rewrite Cn_sub_l. rewrite (Cn_sym Y W), (Cn_sym Zlin W). unfold W. rewrite !Cn_sub_l.
      rewrite (Cn_sym Y Zlin), HZY. ring. }
    split; [exact Hv|]. split; [apply Cn_nonneg|]. rewrite Hv.
    rewrite <- (Qplus_0_r (Cn n Y Y)) at 2. unfold Qminus. apply Qplus_le_r.
    rewrite <- (Qopp_involutive 0). apply Qopp_le_compat. apply Cn_nonneg. Qed.
End CV.

(* the code's fall-back b = 0 leaves the payoff unchanged *)
Lemma cv_adj_zero nc p X Y i : cv_adj (repeat 0 nc) p X Y i == Y i.
Proof. unfold cv_adj. assert (Z0 : forall l f k0, dotf (repeat 0 l) f k0 == 0) by (induction l; simpl; intros; [reflexivity|rewrite IHl; ring]).
  rewrite Z0. ring. Qed.

(* b_star of the model (closed forms for one / two controls) solves the normal equations when it is not the fall-back *)
Lemma En_sq_nonneg n x : (0 < n)%nat -> 0 <= En n (fun i => x i * x i).
Proof. intros Hn. unfold En, Qdiv. apply Qmult_le_0_compat.
  - apply Qsum_map_nonneg. intros i. apply Qsq_nonneg.
  - apply Qinv_le_0_compat. unfold qnat. change 0 with (inject_Z 0). rewrite <- Zle_Qle. lia. Qed.

Lemma not_degenerate_pos n x : (0 < n)%nat -> degenerate n x = false -> 0 < Cn n x x.
Proof. intros Hn H. unfold degenerate in H. apply Qle_bool_false in H.
  eapply Qle_lt_trans; [|exact H]. apply Qmult_le_0_compat; [discriminate|now apply En_sq_nonneg]. Qed.

Lemma b_star_1_normal n X Y : (0 < n)%nat -> degenerate n (X 0%nat) = false -> normal_eq n (b_star1 n X Y) X Y.
Proof. intros Hn Ht. unfold b_star1. rewrite Ht. intros j Hj. simpl in Hj. assert (j = 0%nat) by lia. subst j. simpl.
  pose proof (not_degenerate_pos n _ Hn Ht) as Hp.
  assert (Hs : ~ Cn n (X 0%nat) (X 0%nat) == 0) by (intro E; rewrite E in Hp; now apply Qlt_irrefl in Hp).
  field. exact Hs. Qed.

Lemma b_star_2_normal n X Y : (0 < n)%nat ->
  let a := Cn n (X 0%nat) (X 0%nat) in let c := Cn n (X 0%nat) (X 1%nat) in let d := Cn n (X 1%nat) (X 1%nat) in
  (degenerate n (X 0%nat) || degenerate n (X 1%nat))%bool = false -> ~ a * d - c * c == 0 ->
  normal_eq n (b_star2 n X Y) X Y.
Proof. intros Hn a c d Ht Hdet. unfold b_star2. fold a c d. rewrite Ht. intros j Hj. simpl in Hj.
  assert (Hc : Cn n (X 1%nat) (X 0%nat) == c) by apply (Cn_sym n Hn).
  destruct j as [|[|j]]; [| |lia]; simpl; fold a c d; rewrite ?Hc; field; exact Hdet. Qed.

(* ------------------------------------------------------------------ statements as used by Properties/C07.v *)
Theorem price_is_df_mean_full (payoff : Q -> list Q) (path : nat -> Q) df notional n init d j :
  length init = n -> (forall i, length (payoff (path i)) = d) -> (j < d)%nat ->
  std_engine payoff path df notional n init = map (std_row payoff path df notional) (seq 0 n)
  /\ nth j (std_price d (std_engine payoff path df notional n init)) 0
     == df * notional * mean (map (fun i => nth j (payoff (path i)) 0) (seq 0 n)).
Proof. intros. split; [now apply engine_rows|now apply price_is_df_mean]. Qed.

Theorem error_per_component_full d rows j : (j < d)%nat -> (2 <= length rows)%nat ->
  length (mc_var_repaired d rows) = d /\
  nth j (mc_var_repaired d rows) 0
  == (Qsum (map sq (column j rows)) - qlen rows * sq (mean (column j rows))) / (qlen rows - 1) / qlen rows.
Proof. intros. split; [apply mc_var_length|now apply error_per_component]. Qed.

Theorem cv_mean_full n : (0 < n)%nat -> forall b p X Y,
  En n (cv_adj b p X Y) == En n Y - dotf b (fun k => En n (X k) - p k) 0
  /\ ((forall k, En n (X k) == p k) -> En n (cv_adj b p X Y) == En n Y).
Proof. intros Hn b p X Y. split; [now apply cv_mean|now apply cv_mean_unbiased]. Qed.

Theorem b_star_normal n X Y : (0 < n)%nat ->
  (degenerate n (X 0%nat) = false -> normal_eq n (b_star1 n X Y) X Y)
  /\ (let a := Cn n (X 0%nat) (X 0%nat) in let c := Cn n (X 0%nat) (X 1%nat) in let d := Cn n (X 1%nat) (X 1%nat) in
      (degenerate n (X 0%nat) || degenerate n (X 1%nat))%bool = false -> ~ a * d - c * c == 0 ->
      normal_eq n (b_star2 n X Y) X Y).
Proof. intros Hn. split; [now apply b_star_1_normal|now apply b_star_2_normal]. Qed.

(* the code's b for one / two controls never increases the variance: composition of the two theorems above *)
Theorem cv_variance_with_code_b n p X Y : (0 < n)%nat ->
  Cn n (cv_adj (b_star1 n X Y) p X Y) (cv_adj (b_star1 n X Y) p X Y) <= Cn n Y Y
  /\ (~ Cn n (X 0%nat) (X 0%nat) * Cn n (X 1%nat) (X 1%nat) - Cn n (X 0%nat) (X 1%nat) * Cn n (X 0%nat) (X 1%nat) == 0 ->
      Cn n (cv_adj (b_star2 n X Y) p X Y) (cv_adj (b_star2 n X Y) p X Y) <= Cn n Y Y).
Proof. intros Hn. split.
  - destruct (degenerate n (X 0%nat)) eqn:E.
    + unfold b_star1. rewrite E. rewrite (Cn_ext n Hn _ Y _ Y) by (intros; apply (cv_adj_zero 1)). apply Qle_refl.
    + apply (cv_variance n Hn _ p X Y). now apply b_star_1_normal.
  - intros Hdet. destruct (degenerate n (X 0%nat) || degenerate n (X 1%nat))%bool eqn:E.
    + unfold b_star2. rewrite E. rewrite (Cn_ext n Hn _ Y _ Y) by (intros; apply (cv_adj_zero 2)). apply Qle_refl.
    + apply (cv_variance n Hn _ p X Y). now apply b_star_2_normal. Qed.

(* several pricings on one engine.  The engine's statistics are state; the model has BOTH behaviours of initialisation:
   keep = false (the code: a new MCStatistics, np.empty content arbitrary -- e.g. the previous rows) and keep = true (keep the
   old buffers and only extend them).  For keep = false every pricing holds exactly its own paths, for every garbage
   oracle and every previous state; keep = true does not (N = 2 paths, then M = 1). *)
Theorem price_seq_own_paths (garb : list (list Q) -> nat -> list Q) :
  forall ps prev,
    price_seq garb false prev ps = map (fun p => map (std_row (p_payoff p) (p_path p) (p_df p) (p_notional p)) (seq 0 (p_n p))) ps.
Proof. induction ps as [|p r IH]; intros prev; [reflexivity|]. simpl.
  unfold reprice at 1. unfold initialisation, np_empty.
  rewrite (engine_rows _ _ _ _ _ _ (eq_trans (map_length _ _) (seq_length _ _))). f_equal. apply IH. Qed.

Definition w_pr (n : nat) : pricing := mkPricing (fun x => [x]) (fun i => inject_Z (Z.of_nat (S i))) 1 1 n.
Lemma keeping_the_buffers_is_wrong :
  price_seq recycling_garb true [] [w_pr 2; w_pr 1] = [[[1]; [2]]; [[1]; [2]]]              (* second pricing: 1 own path + 1 stale row *)
  /\ price_seq recycling_garb false [] [w_pr 2; w_pr 1] = [[[1]; [2]]; [[1]]].
Proof. vm_compute. split; reflexivity. Qed.

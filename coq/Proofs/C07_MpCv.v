(* C07 -- control variates in BOTH branches of the standard engine's loop (Model/McStdCv.v): the payoff and control tables hold,
   at every index, the values of one and the same draw, for all delivery orders; and the control-variate coefficient, price and
   variance of a multi-process run (rows permuted by the pool) are those of the single-process run on the same paths. *)
From Coq Require Import List ZArith QArith Qabs Qminmax Bool Lia Setoid Morphisms Permutation.
From RV Require Import Base.QB Model.McStats Model.McCv Model.McStdFull Model.McStdCv
     Proofs.C07_StatsLemmas Proofs.C07_McStats Proofs.C07_CvGeneral Proofs.C07_StdFull.
Import ListNotations.
Open Scope Q_scope.

Lemma tbl_merge_writes {A} (row : nat -> A) sigma its : forall t,
  tbl_merge row (map (fun it => (it, sigma it)) its) t = writes (fun it => row (sigma it)) its t.
Proof. induction its as [|i its IH]; intros t; simpl; [reflexivity|]. now rewrite IH. Qed.

Lemma writes_full_gen {A} (d : A) (f : nat -> A) its s n : length s = n -> (forall k, (k < n)%nat -> In k its) ->
  writes f its s = map f (seq 0 n).
Proof. intros Hl Hc. apply (nth_ext _ _ d d); [now rewrite writes_length, map_length, seq_length|].
  intros k Hk. rewrite writes_length in Hk. rewrite (writes_nth f d its s k Hk).
  destruct (in_dec Nat.eq_dec k its) as [H|H]; [|exfalso; apply H, Hc; lia].
  rewrite (nth_indep _ d (f 0%nat)) by (rewrite map_length, seq_length; lia).
  rewrite (map_nth f (seq 0 n) 0%nat k). rewrite seq_nth by lia. reflexivity. Qed.

(* ALL delivery orders / chunkings / repetitions, every assignment sigma, whatever np.empty contained: row `it` of the payoff
   table and row `it` of the control table are the payoff and the controls of the SAME draw sigma it *)
Theorem mpcv_merge_any_order ycol crow its sigma gy gx n :
  length gy = n -> length gx = n -> Forall (fun it => (it < n)%nat) its -> (forall k, (k < n)%nat -> In k its) ->
  mpcv_engine ycol crow its sigma gy gx
  = (map (fun it => ycol (sigma it)) (seq 0 n), map (fun it => crow (sigma it)) (seq 0 n)).
Proof. intros H1 H2 _ Hc. unfold mpcv_engine. rewrite !tbl_merge_writes.
  f_equal; [now apply (writes_full_gen 0)|now apply (writes_full_gen [])]. Qed.

(* ------------------------------------------------------------------ sample moments are permutation invariant *)
Section Perm.
  Variable n : nat.
  Hypothesis npos : (0 < n)%nat.
  Variable sigma : nat -> nat.
  Hypothesis Hs : Permutation (map sigma (seq 0 n)) (seq 0 n).

  Lemma Sn_perm f : Sn n (fun i => f (sigma i)) == Sn n f.
  Proof. unfold Sn. rewrite <- (map_map sigma f (seq 0 n)). apply Qsum_perm. now apply Permutation_map. Qed.

  Lemma En_perm f : En n (fun i => f (sigma i)) == En n f.
  Proof. unfold En. now rewrite Sn_perm. Qed.

  Lemma Cn_perm f g : Cn n (fun i => f (sigma i)) (fun i => g (sigma i)) == Cn n f g.
  Proof. rewrite !(Cn_alt n npos). rewrite (En_perm f), (En_perm g), (En_perm (fun i => f i * g i)). reflexivity. Qed.

  Lemma degenerate_perm x : degenerate n (fun i => x (sigma i)) = degenerate n x.
  Proof. unfold degenerate. rewrite (Cn_perm x x), (En_perm (fun i => x i * x i)). reflexivity. Qed.

  Variable X : nat -> nat -> Q.
  Variable Y : nat -> Q.
  Notation Xs := (permX sigma X).
  Notation Ys := (permY sigma Y).

  Lemma any_degenerate_perm k : any_degenerate n k Xs = any_degenerate n k X.
  Proof. unfold any_degenerate. induction (seq 0 k) as [|j l IH]; simpl; [reflexivity|].
    unfold permX at 1. rewrite (degenerate_perm (X j)), IH. reflexivity. Qed.

  Lemma sigma_row_perm b j : sigma_row n Xs b j == sigma_row n X b j.
  Proof. unfold sigma_row. apply dotf_ext. intros k. apply (Cn_perm (X j) (X k)). Qed.

  Lemma normal_eq_perm b : normal_eq n b Xs Ys <-> normal_eq n b X Y.
  Proof. split; intros H j Hj; specialize (H j Hj).
    - change (sigma_row n X b j == Cn n (X j) Y). change (sigma_row n Xs b j == Cn n (Xs j) Ys) in H.
      rewrite <- sigma_row_perm, <- (Cn_perm (X j) Y). exact H.
    - change (sigma_row n Xs b j == Cn n (Xs j) Ys). change (sigma_row n X b j == Cn n (X j) Y) in H.
      rewrite sigma_row_perm. unfold permX, permY. rewrite (Cn_perm (X j) Y). exact H. Qed.

  Lemma minnorm_cert_perm b w : minnorm_cert n b w Xs <-> minnorm_cert n b w X.
  Proof. unfold minnorm_cert. split; intros [Hl H]; (split; [exact Hl|]); intros j Hj; specialize (H j Hj).
    - rewrite <- sigma_row_perm, <- (Cn_perm (X j) (X j)). exact H.
    - rewrite sigma_row_perm. unfold permX at 1 2. rewrite (Cn_perm (X j) (X j)). exact H. Qed.

  Lemma code_b_perm k b : code_b n k b Xs Ys <-> code_b n k b X Y.
  Proof. unfold code_b. rewrite any_degenerate_perm. destruct (any_degenerate n k X); [reflexivity|].
    split; intros [Hl [w [H1 H2]]]; (split; [exact Hl|]); exists w; split.
    - now apply normal_eq_perm. - now apply minnorm_cert_perm. - now apply normal_eq_perm. - now apply minnorm_cert_perm. Qed.

  (* MULTI-PROCESS = SINGLE-PROCESS with control variates: the pool only permutes the rows (sigma); the coefficient vector meeting
     the code's specification on the permuted tables meets it on the tables in simulation order, and the control-variate price
     and sample variance are the same numbers *)
  Theorem cv_multiprocess_same k b p : code_b n k b Xs Ys ->
    code_b n k b X Y
    /\ En n (cv_adj b p Xs Ys) == En n (cv_adj b p X Y)
    /\ Cn n (cv_adj b p Xs Ys) (cv_adj b p Xs Ys) == Cn n (cv_adj b p X Y) (cv_adj b p X Y).
  Proof. intros H. split; [now apply code_b_perm|].
    change (cv_adj b p Xs Ys) with (fun i => cv_adj b p X Y (sigma i)). split; [apply En_perm|apply Cn_perm]. Qed.
End Perm.

(* composed with existence/uniqueness: every coefficient vector the specification admits for the multi-process tables equals,
   component by component, the one of the single-process tables *)
Theorem cv_multiprocess_same_b n k sigma X Y b b1 : (0 < n)%nat -> Permutation (map sigma (seq 0 n)) (seq 0 n) ->
  code_b n k b (permX sigma X) (permY sigma Y) -> code_b n k b1 X Y -> any_degenerate n k X = false ->
  forall j, (j < k)%nat -> nth j b 0 == nth j b1 0.
Proof. intros Hn Hs Hb Hb1 G. apply (code_b_perm n Hn sigma Hs X Y k b) in Hb.
  exact (proj2 (proj2 (cv_code_b_general n k b (fun _ => 0) X Y Hn Hb) G) b1 Hb1). Qed.

(* Generic lemmas on the list statistics of Model/McStats.v (used by the proofs of C05 and C07). *)
From Coq Require Import List ZArith QArith Qabs Qminmax Bool Lia Setoid Morphisms.
From RV Require Import Base.QB Model.McStats.
Import ListNotations.
Open Scope Q_scope.

Lemma mean_spec l : mean l == Qsum l / qlen l.
Proof. unfold mean. apply Qred_correct. Qed.

Lemma qlen_map {A B} (f : A -> B) l : qlen (map f l) = qlen l.
Proof. unfold qlen. now rewrite map_length. Qed.

Lemma qlen_cons {A} (x : A) l : qlen (x :: l) == 1 + qlen l.
Proof. unfold qlen. simpl length. rewrite Nat2Z.inj_succ. unfold Z.succ. rewrite inject_Z_plus. ring. Qed.

Lemma qlen_nil {A} : qlen (@nil A) == 0.
Proof. reflexivity. Qed.

Lemma qlen_pos {A} (l : list A) : l <> [] -> 0 < qlen l.
Proof. destruct l; [congruence|]. intros _. unfold qlen. simpl length.
  change 0 with (inject_Z 0). rewrite <- Zlt_Qlt. lia. Qed.

Lemma qlen_nz {A} (l : list A) : l <> [] -> ~ qlen l == 0.
Proof. intros H E. apply qlen_pos in H. rewrite E in H. now apply Qlt_irrefl in H. Qed.

Lemma sum_sq_center m l :
  Qsum (map sq (map (fun x => x - m) l)) == Qsum (map sq l) - 2 * m * Qsum l + qlen l * m * m.
Proof. induction l as [|x l IH].
  - simpl. rewrite qlen_nil. ring.
  - simpl map. simpl Qsum. rewrite IH, qlen_cons. unfold sq. ring. Qed.

Lemma sum_cube_center m l :
  Qsum (map cube (map (fun x => x - m) l)) == Qsum (map cube l) - 3 * m * Qsum (map sq l) + 3 * m * m * Qsum l - qlen l * m * m * m.
Proof. induction l as [|x l IH].
  - simpl. rewrite qlen_nil. ring.
  - simpl map. simpl Qsum. rewrite IH, qlen_cons. unfold sq, cube. ring. Qed.

Lemma sum_fourth_center m l :
  Qsum (map fourth (map (fun x => x - m) l)) ==
  Qsum (map fourth l) - 4 * m * Qsum (map cube l) + 6 * m * m * Qsum (map sq l) - 4 * m * m * m * Qsum l + qlen l * m * m * m * m.
Proof. induction l as [|x l IH].
  - simpl. rewrite qlen_nil. ring.
  - simpl map. simpl Qsum. rewrite IH, qlen_cons. unfold sq, cube, fourth. ring. Qed.

Lemma m2c_spec l : m2c l == (Qsum (map sq l) - 2 * mean l * Qsum l + qlen l * mean l * mean l) / qlen l.
Proof. unfold m2c. rewrite mean_spec. unfold center. rewrite !qlen_map, sum_sq_center. reflexivity. Qed.
Lemma m3c_spec l : m3c l == (Qsum (map cube l) - 3 * mean l * Qsum (map sq l) + 3 * mean l * mean l * Qsum l - qlen l * mean l * mean l * mean l) / qlen l.
Proof. unfold m3c. rewrite mean_spec. unfold center. rewrite !qlen_map, sum_cube_center. reflexivity. Qed.
Lemma m4c_spec l : m4c l == (Qsum (map fourth l) - 4 * mean l * Qsum (map cube l) + 6 * mean l * mean l * Qsum (map sq l) - 4 * mean l * mean l * mean l * Qsum l + qlen l * mean l * mean l * mean l * mean l) / qlen l.
Proof. unfold m4c. rewrite mean_spec. unfold center. rewrite !qlen_map, sum_fourth_center. reflexivity. Qed.


Ltac moment_tac l H :=
  let Hm := fresh "Hm" in let Hn := fresh "Hn" in let HS := fresh "HS" in
  pose proof (mean_spec l) as Hm; pose proof (qlen_nz l H) as Hn;
  let m := fresh "m" in let n := fresh "n" in let S1 := fresh "S" in
  remember (mean l) as m eqn:Em; remember (qlen l) as n eqn:En; remember (Qsum l) as S1 eqn:ES; clear Em En ES;
  assert (HS : S1 == m * n) by (rewrite Hm; field; exact Hn);
  rewrite HS; field; exact Hn.

Lemma ncm2_raw l : l <> [] -> ncm2 l == raw2 l.
Proof. intros H. unfold ncm2, raw2. rewrite m2c_spec. unfold sq. moment_tac l H. Qed.
Lemma ncm3_raw l : l <> [] -> ncm3 l == raw3 l.
Proof. intros H. unfold ncm3, raw3. rewrite m3c_spec, m2c_spec. unfold sq, cube. moment_tac l H. Qed.
Lemma ncm4_raw l : l <> [] -> ncm4 l == raw4 l.
Proof. intros H. unfold ncm4, raw4. rewrite m4c_spec, m3c_spec, m2c_spec. unfold sq, cube, fourth. moment_tac l H. Qed.

(* C07 -- proofs about Model/McStdFull.v: the Monte-Carlo loop of the standard engine in both branches (single process /
   pool with callback), spot statistics, and what price / mc_stddev / get_variance report for n = 0, 1, >= 2. *)
From Coq Require Import List ZArith QArith Qabs Qminmax Bool Lia Setoid Morphisms Permutation.
From RV Require Import Base.QB Model.McStats Model.McStdFull Proofs.C07_StatsLemmas Proofs.C07_McStats.
Import ListNotations.
Open Scope Q_scope.

(* ------------------------------------------------------------------ writes into a numpy array *)
Section Writes.
  Context {A : Type}.
  Lemma set_nth_length (v : A) s : forall i, length (set_nth i v s) = length s.
  Proof. induction s as [|x s IH]; intros [|i]; simpl; auto. Qed.

  Lemma nth_set_nth (v d : A) s : forall i k,
    nth k (set_nth i v s) d = if (Nat.eqb i k && Nat.ltb k (length s))%bool then v else nth k s d.
  Proof. induction s as [|x s IH]; intros i k.
    - simpl. destruct i, k; simpl; try reflexivity. now rewrite andb_false_r.
    - destruct i as [|i], k as [|k]; simpl; try reflexivity. rewrite IH. reflexivity. Qed.

  Definition writes (f : nat -> A) (its : list nat) (s : list A) : list A := fold_left (fun s it => set_nth it (f it) s) its s.

  Lemma writes_length f its : forall s, length (writes f its s) = length s.
  Proof. induction its as [|i its IH]; intros s; simpl; [reflexivity|]. unfold writes in *. simpl. rewrite IH. apply set_nth_length. Qed.

  (* the value written at index `it` is a function of `it`: order, chunking and repetitions do not matter *)
  Lemma writes_nth f d its : forall s k, (k < length s)%nat ->
    nth k (writes f its s) d = if in_dec Nat.eq_dec k its then f k else nth k s d.
  Proof. induction its as [|i its IH]; intros s k Hk; [reflexivity|]. unfold writes in *. simpl fold_left.
    rewrite IH by (now rewrite set_nth_length). rewrite nth_set_nth.
    destruct (in_dec Nat.eq_dec k its) as [H|H]; destruct (in_dec Nat.eq_dec k (i :: its)) as [H'|H']; simpl in *; try reflexivity.
    - exfalso. apply H'. now right.
    - destruct H' as [E|E]; [|contradiction]. subst i. rewrite Nat.eqb_refl. simpl.
      apply Nat.ltb_lt in Hk. now rewrite Hk.
    - destruct (Nat.eqb i k) eqn:E; [|reflexivity]. apply Nat.eqb_eq in E. exfalso. apply H'. now left. Qed.
End Writes.

Lemma writes_full (f : nat -> list Q) its s n : length s = n -> (forall k, (k < n)%nat -> In k its) ->
  writes f its s = map f (seq 0 n).
Proof. intros Hl Hc. apply (nth_ext _ _ [] []); [now rewrite writes_length, map_length, seq_length|].
  intros k Hk. rewrite writes_length in Hk. rewrite (writes_nth f [] its s k Hk).
  destruct (in_dec Nat.eq_dec k its) as [H|H]; [|exfalso; apply H, Hc; lia].
  rewrite (nth_indep _ [] (f 0%nat)) by (rewrite map_length, seq_length; lia).
  rewrite (map_nth f (seq 0 n) 0%nat k). rewrite seq_nth by lia. reflexivity. Qed.

(* ------------------------------------------------------------------ permutation invariance of the statistics *)
Lemma Qsum_perm l l' : Permutation l l' -> Qsum l == Qsum l'.
Proof. induction 1; simpl; try rewrite IHPermutation; try ring. now rewrite IHPermutation1. Qed.

Lemma qlen_perm {A} (l l' : list A) : Permutation l l' -> qlen l = qlen l'.
Proof. intros H. unfold qlen. now rewrite (Permutation_length H). Qed.

Lemma mean_perm l l' : Permutation l l' -> mean l == mean l'.
Proof. intros H. rewrite !mean_spec. now rewrite (Qsum_perm _ _ H), (qlen_perm _ _ H). Qed.

Lemma var_unbiased_perm l l' : Permutation l l' -> var_unbiased l == var_unbiased l'.
Proof. intros H. pose proof (Permutation_length H) as HL.
  destruct l as [|x [|y l]].
  - apply Permutation_nil in H. subst. reflexivity.
  - apply Permutation_length_1_inv in H. subst. reflexivity.
  - destruct l' as [|x' [|y' l']]; try discriminate.
    rewrite !var_unbiased_textbook by (simpl; lia).
    rewrite (Qsum_perm _ _ (Permutation_map sq H)), (qlen_perm _ _ H). pose proof (mean_perm _ _ H) as Hm.
    unfold sq at 2 4. rewrite Hm. reflexivity. Qed.

Lemma column_perm j rows rows' : Permutation rows rows' -> Permutation (column j rows) (column j rows').
Proof. apply Permutation_map. Qed.

Lemma nth_columns_map (g : list Q -> Q) d rows j : (j < d)%nat -> nth j (map g (columns d rows)) 0 = g (column j rows).
Proof. intros Hj. unfold columns. rewrite map_map. apply (nth_map_seq (fun j => g (column j rows)) d j Hj). Qed.

(* price, error and variance depend on the rows only through each column as a multiset *)
Theorem stats_perm d rows rows' j : Permutation rows rows' -> (j < d)%nat ->
  nth j (std_price d rows) 0 == nth j (std_price d rows') 0
  /\ nth j (mc_var_repaired d rows) 0 == nth j (mc_var_repaired d rows') 0
  /\ nth j (map var_unbiased (columns d rows)) 0 == nth j (map var_unbiased (columns d rows')) 0.
Proof. intros H Hj. unfold std_price, mc_var_repaired. rewrite !nth_columns_map by exact Hj.
  pose proof (column_perm j _ _ H) as Hc. split; [now apply mean_perm|]. split; [|now apply var_unbiased_perm].
  unfold mc_var_col. now rewrite (var_unbiased_perm _ _ Hc), (qlen_perm _ _ H). Qed.

(* ------------------------------------------------------------------ the loop, both branches *)
Section Loop.
  Variable payoff : Q -> list Q.
  Variable path : nat -> Q.
  Variables df notional : Q.
  Notation srow := (std_row payoff path df notional).
  Notation merge := (mc_merge payoff path df notional).

  Lemma merge_writes sigma its : forall s,
    st_pay (merge (map (fun it => (it, sigma it)) its) s) = writes (fun it => srow (sigma it)) its (st_pay s)
    /\ st_spot (merge (map (fun it => (it, sigma it)) its) s) = option_map (writes (fun it => [path (sigma it)]) its) (st_spot s).
  Proof. induction its as [|i its IH]; intros s; simpl.
    - split; [reflexivity|]. now destruct (st_spot s).
    - destruct (IH (mc_add payoff path df notional i (sigma i) s)) as [H1 H2]. rewrite H1, H2. split; [reflexivity|].
      simpl. now destruct (st_spot s). Qed.

  (* ALL orders / chunkings / repetitions of the delivered results `its` (every index below n delivered, none beyond --
     numpy would raise IndexError), every assignment sigma of draws to iteration indices, whatever np.empty contained:
     row it of the payoff statistics is df * notional * payoff(path_(sigma it)), row it of the spot statistics (when on) is the
     spot of the SAME path, and switching the spot statistics on does not change the payoff rows *)
  Theorem merge_any_order spot_on its sigma g1 g2 n :
    length g1 = n -> length g2 = n -> Forall (fun it => (it < n)%nat) its -> (forall k, (k < n)%nat -> In k its) ->
    let s := mc_engine payoff path df notional spot_on its sigma g1 g2 in
    st_pay s = map (fun it => srow (sigma it)) (seq 0 n)
    /\ st_spot s = (if spot_on then Some (map (fun it => [path (sigma it)]) (seq 0 n)) else None).
  Proof. intros H1 H2 _ Hc s. unfold s, mc_engine. destruct (merge_writes sigma its (mc_init spot_on g1 g2)) as [E1 E2].
    rewrite E1, E2. unfold mc_init. simpl. split; [now apply writes_full|].
    destruct spot_on; simpl; [|reflexivity]. f_equal. now apply writes_full. Qed.

  (* the single-process loop is the instance its = 0..n-1, sigma = identity, and agrees with Model/McStats.std_engine *)
  Corollary single_process_instance spot_on g1 g2 n : length g1 = n -> length g2 = n ->
    st_pay (mc_engine payoff path df notional spot_on (seq 0 n) (fun i => i) g1 g2) = std_engine payoff path df notional n g1.
  Proof. intros H1 H2. rewrite (engine_rows payoff path df notional n g1 H1).
    apply (merge_any_order spot_on (seq 0 n) (fun i => i) g1 g2 n H1 H2).
    - apply Forall_forall. intros x Hx. apply in_seq in Hx. lia.
    - intros k Hk. apply in_seq. lia. Qed.

  (* repaired tree: mc_stddev() has a value with exactly one entry per payoff component for EVERY number of paths (0 and 1 included) *)
  Lemma stddev2_one_per_component d rows : exists e, mc_stddev2_reported d rows = Some e /\ length e = d.
  Proof. unfold mc_stddev2_reported. destruct rows as [|r0 [|r1 rows']];
    [exists (repeat 0 d); split; [reflexivity|apply repeat_length]..|].
    exists (mc_var_repaired d (r0 :: r1 :: rows')). split; [reflexivity|apply mc_var_length]. Qed.

  (* MULTI-PROCESS = SINGLE-PROCESS: if the pool hands every draw to exactly one iteration index (sigma permutes 0..n-1), the rows
     are a permutation of the single-process rows (each path once), and price, mc_stddev^2 and get_variance are the same *)
  Theorem multiprocess_same_statistics spot_on its sigma g1 g2 g1' g2' n d j :
    length g1 = n -> length g2 = n -> length g1' = n -> length g2' = n ->
    Forall (fun it => (it < n)%nat) its -> (forall k, (k < n)%nat -> In k its) ->
    Permutation (map sigma (seq 0 n)) (seq 0 n) -> (j < d)%nat ->
    let rows := st_pay (mc_engine payoff path df notional spot_on its sigma g1 g2) in
    let rows1 := st_pay (mc_engine payoff path df notional spot_on (seq 0 n) (fun i => i) g1' g2') in
    Permutation rows rows1
    /\ nth j (price_reported d rows) 0 == nth j (price_reported d rows1) 0
    /\ (forall e e1, mc_stddev2_reported d rows = Some e -> mc_stddev2_reported d rows1 = Some e1 -> nth j e 0 == nth j e1 0)
    /\ (exists e e1, mc_stddev2_reported d rows = Some e /\ mc_stddev2_reported d rows1 = Some e1 /\ length e = d /\ length e1 = d).
  Proof. intros H1 H2 H1' H2' Hf Hc Hs Hj rows rows1.
    assert (E : rows = map srow (map sigma (seq 0 n))).
    { unfold rows. rewrite (proj1 (merge_any_order spot_on its sigma g1 g2 n H1 H2 Hf Hc)). now rewrite map_map. }
    assert (E1 : rows1 = map srow (seq 0 n)).
    { unfold rows1. rewrite (single_process_instance spot_on g1' g2' n H1' H2'). now apply engine_rows. }
    assert (P : Permutation rows rows1) by (rewrite E, E1; now apply Permutation_map).
    pose proof (Permutation_length P) as PL.
    assert (L1 : length rows1 = n) by (rewrite E1, map_length, seq_length; reflexivity).
    destruct (stats_perm d rows rows1 j P Hj) as [S1 [S2 S3]].
    split; [exact P|]. split; [|split].
    - unfold price_reported. destruct rows as [|r0 rows']; destruct rows1 as [|r1 rows1']; simpl in PL; try discriminate; [reflexivity|exact S1].
    - intros e e1 He He1. unfold mc_stddev2_reported in *.
      destruct rows as [|r0 [|r0' rows']]; destruct rows1 as [|r1 [|r1' rows1']]; simpl in PL; try discriminate;
        inversion He; inversion He1; subst; [reflexivity|reflexivity|exact S2].
    - destruct (stddev2_one_per_component d rows) as [e [He Le]]. destruct (stddev2_one_per_component d rows1) as [e1 [He1 Le1]].
      exists e, e1. repeat split; assumption. Qed.

  (* ---- n = 0 and n = 1, as reported *)
  Theorem engine_small_n spot_on g1 g2 d j :
    (forall i, length (payoff (path i)) = d) -> (j < d)%nat ->
    (length g1 = 0%nat -> length g2 = 0%nat ->
       let rows := st_pay (mc_engine payoff path df notional spot_on (seq 0 0) (fun i => i) g1 g2) in
       rows = [] /\ nth j (price_reported d rows) 0 == 0 /\ length (price_reported d rows) = d
       /\ mc_stddev2_reported d rows = Some (repeat 0 d) /\ get_variance_reported d rows = None)
    /\ (length g1 = 1%nat -> length g2 = 1%nat ->
       let rows := st_pay (mc_engine payoff path df notional spot_on (seq 0 1) (fun i => i) g1 g2) in
       rows = [srow 0%nat] /\ nth j (price_reported d rows) 0 == df * notional * nth j (payoff (path 0%nat)) 0
       /\ mc_stddev2_reported d rows = Some (repeat 0 d) /\ get_variance_reported d rows = Some (repeat 0 d)).
  Proof. intros Hd Hj. split.
    - intros H1 H2 rows. assert (E : rows = []).
      { unfold rows. rewrite (single_process_instance spot_on g1 g2 0 H1 H2). now rewrite (engine_rows _ _ _ _ 0 g1 H1). }
      rewrite E. simpl. split; [reflexivity|]. split; [|split; [apply repeat_length|split; reflexivity]].
      clear -Hj. revert j Hj. induction d as [|d' IH]; intros j Hj; [lia|]. destruct j; simpl; [reflexivity|]. apply IH. lia.
    - intros H1 H2 rows. assert (E : rows = [srow 0%nat]).
      { unfold rows. rewrite (single_process_instance spot_on g1 g2 1 H1 H2). now rewrite (engine_rows _ _ _ _ 1 g1 H1). }
      rewrite E. split; [reflexivity|]. split; [|split; reflexivity].
      unfold price_reported.
      pose proof (price_is_df_mean payoff path df notional 1 g1 d j H1 Hd Hj) as P.
      rewrite (engine_rows _ _ _ _ 1 g1 H1) in P. simpl seq in P. simpl map in P. rewrite P.
      rewrite mean_spec. simpl. unfold qlen. simpl. field. Qed.
End Loop.

(* get_variance() and mc_stddev() for n >= 2: the unbiased sample variance per component, and the error^2 is that / n *)
Theorem get_variance_textbook d rows j : (j < d)%nat -> (2 <= length rows)%nat ->
  exists v e, get_variance_reported d rows = Some v /\ mc_stddev2_reported d rows = Some e
    /\ length v = d /\ length e = d
    /\ nth j v 0 == (Qsum (map sq (column j rows)) - qlen rows * sq (mean (column j rows))) / (qlen rows - 1)
    /\ nth j e 0 == nth j v 0 / qlen rows.
Proof. intros Hj Hn. destruct rows as [|r0 [|r1 rows]]; simpl in Hn; try lia.
  set (R := r0 :: r1 :: rows). exists (map var_unbiased (columns d R)), (mc_var_repaired d R).
  split; [reflexivity|]. split; [reflexivity|].
  split; [unfold columns; now rewrite !map_length, seq_length|]. split; [apply mc_var_length|].
  rewrite nth_columns_map by exact Hj.
  assert (Hc : (2 <= length (column j R))%nat) by (unfold column; rewrite map_length; simpl; lia).
  assert (Eq : qlen (column j R) = qlen R) by (unfold column; apply qlen_map).
  split.
  - rewrite (var_unbiased_textbook _ Hc). rewrite Eq. reflexivity.
  - unfold mc_var_repaired. rewrite nth_columns_map by exact Hj. reflexivity. Qed.

(* F-C07-6 (audit5a D4, FIXED in /repo 380d7c7): BEFORE the repair the reported error was not one number per payoff component for
   fewer than two paths.  Witness on the pre-repair definition mc_stddev2_reported_orig (kept in Model/McStdFull.v for this only):
   one path, two components: price() has two entries, mc_stddev() one; no path: price() has d entries, mc_stddev() no value (raised). *)
Lemma error_per_component_before_repair :
  (length (price_reported 2 [[2; 1]]) = 2%nat /\ mc_stddev2_reported_orig 2 [[2; 1]] = Some [0]
     /\ mc_stddev2_reported 2 [[2; 1]] = Some [0; 0])
  /\ (mc_stddev2_reported_orig 3 [] = None /\ length (price_reported 3 []) = 3%nat /\ mc_stddev2_reported 3 [] = Some [0; 0; 0]).
Proof. repeat split; vm_compute; reflexivity. Qed.

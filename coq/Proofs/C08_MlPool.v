(* Proofs for property C08 about the multilevel engine with worker pools (Model/RngMlPool.v). *)
From Coq Require Import ZArith List Bool Lia.
From RV Require Import Model.Rng Model.RngSim Model.RngMlPool Proofs.C08_Rng Proofs.C08_Sim.
Import ListNotations.
Open Scope Z_scope.

(* ------------------------------------------------------------------ prun, instruction by instruction *)
Lemma psamples_nil m st : psamples m [] st = [].
Proof. reflexivity. Qed.
Lemma pfinal_nil m st : pfinal m [] st = st.
Proof. reflexivity. Qed.

Lemma prun_par m o r st : prun m (PPar o :: r) st =
  (fst (snd (step st o)) ++ fst (fst (fst (prun m r (fst (step st o))))),
   snd (fst (fst (prun m r (fst (step st o))))),
   snd (snd (step st o)) ++ snd (fst (prun m r (fst (step st o)))),
   snd (prun m r (fst (step st o)))).
Proof. simpl. destruct (step st o) as [st' [e s]]. simpl. destruct (prun m r st') as [[[pe wl] sm] stf]. reflexivity. Qed.

Lemma prun_pool m slot lvl p r st : prun m (PPool slot lvl p :: r) st =
  (fst (fst (fst (prun m r st))), fst (pool_at m slot lvl st p) :: snd (fst (fst (prun m r st))),
   snd (pool_at m slot lvl st p) ++ snd (fst (prun m r st)), snd (prun m r st)).
Proof. simpl. destruct (pool_at m slot lvl st p) as [logs sms]. destruct (prun m r st) as [[[pe wl] sm] stf]. reflexivity. Qed.

Lemma psamples_par m o r st : psamples m (PPar o :: r) st = snd (snd (step st o)) ++ psamples m r (fst (step st o)).
Proof. unfold psamples. now rewrite prun_par. Qed.
Lemma pfinal_par m o r st : pfinal m (PPar o :: r) st = pfinal m r (fst (step st o)).
Proof. unfold pfinal. now rewrite prun_par. Qed.
Lemma psamples_pool m slot lvl p r st : psamples m (PPool slot lvl p :: r) st = snd (pool_at m slot lvl st p) ++ psamples m r st.
Proof. unfold psamples. now rewrite prun_pool. Qed.
Lemma pfinal_pool m slot lvl p r st : pfinal m (PPool slot lvl p :: r) st = pfinal m r st.
Proof. unfold pfinal. now rewrite prun_pool. Qed.

Lemma psamples_app m a : forall b st, psamples m (a ++ b) st = psamples m a st ++ psamples m b (pfinal m a st).
Proof.
  induction a as [|[o|slot lvl p] a IH]; intros b st; cbn [app].
  - reflexivity.
  - rewrite !psamples_par, pfinal_par, IH, app_assoc. reflexivity.
  - rewrite !psamples_pool, pfinal_pool, IH, app_assoc. reflexivity.
Qed.

Lemma pools_of_app a b : pools_of (a ++ b) = pools_of a ++ pools_of b.
Proof. induction a as [|[o|slot lvl p] a IH]; simpl; auto. now rewrite IH. Qed.
Lemma pools_of_par l : pools_of (map PPar l) = [].
Proof. induction l; simpl; auto. Qed.
Lemma quiet_pre m s n : forallb par_quiet (map PPar (pre m s n)) = true.
Proof. unfold pre. destruct (m_fixed m); reflexivity. Qed.

(* ------------------------------------------------------------------ jump-time mode: reduction to pools_samples *)
Lemma free_samples_indep ss : forall slot lvl slot' lvl' st st', s_gen st = s_gen st' ->
  map snd (samples (map (fun d => OSample slot false lvl d) ss) st)
  = map snd (samples (map (fun d => OSample slot' false lvl' d) ss) st')
  /\ s_gen (final (map (fun d => OSample slot false lvl d) ss) st)
     = s_gen (final (map (fun d => OSample slot' false lvl' d) ss) st').
Proof.
  induction ss as [|d ss IH]; intros slot lvl slot' lvl' st st' E.
  - unfold samples, final. simpl. auto.
  - cbn [map]. rewrite !samples_cons, !final_cons. cbn [step]. rewrite <- E.
    destruct (draws_run (s_gen st) d) as [[e2 r2] g']. cbn [fst snd].
    destruct (IH slot lvl slot' lvl' (mkSt g' (s_cid st) (s_slot st)) (mkSt g' (s_cid st') (s_slot st')) eq_refl) as [I1 I2].
    split; [|exact I2]. rewrite !map_app. cbn [map snd]. f_equal. exact I1.
Qed.

Lemma pool_chunks_at_jump nb d slot lvl parent parent' chunks : forall gens logs logs',
  map snd (snd (pool_chunks_at (mkMode false nb d) slot lvl parent gens logs chunks))
  = map snd (snd (pool_chunks (mkMode false nb d) parent' gens logs' chunks)).
Proof.
  induction chunks as [|[w ss] r IH]; intros gens logs logs'; [reflexivity|].
  cbn [pool_chunks_at pool_chunks]. unfold samples_ops. cbn [m_fixed].
  set (g := nth w gens (mkGen 0 0 0)).
  destruct (free_samples_indep ss slot lvl 0 (-1) (mkSt g (s_cid parent) (s_slot parent))
              (mkSt g (s_cid parent') (s_slot parent')) eq_refl) as [I1 I2].
  unfold samples, final in I1, I2.
  destruct (run (map (fun d0 => OSample slot false lvl d0) ss) (mkSt g (s_cid parent) (s_slot parent))) as [[es sm] stf].
  destruct (run (map (fun d0 => OSample 0 false (-1) d0) ss) (mkSt g (s_cid parent') (s_slot parent'))) as [[es' sm'] stf'].
  cbn [fst snd] in I1, I2. rewrite I2.
  specialize (IH (set_nth gens w (s_gen stf')) (set_nth logs w (nth w logs [] ++ es)) (set_nth logs' w (nth w logs' [] ++ es'))).
  destruct (pool_chunks_at (mkMode false nb d) slot lvl parent (set_nth gens w (s_gen stf')) (set_nth logs w (nth w logs [] ++ es)) r) as [l1 s1].
  destruct (pool_chunks (mkMode false nb d) parent' (set_nth gens w (s_gen stf')) (set_nth logs' w (nth w logs' [] ++ es')) r) as [l2 s2].
  simpl in *. rewrite !map_app. f_equal; assumption.
Qed.

Lemma jump_psamples g0 nb d ops : forallb par_quiet ops = true -> forall st,
  map snd (psamples (mkMode false nb d) ops st) = map snd (pools_samples g0 (mkMode false nb d) (pools_of ops)).
Proof.
  induction ops as [|[o|slot lvl p] r IH]; intros HQ st.
  - reflexivity.
  - cbn [forallb] in HQ. apply andb_true_iff in HQ. destruct HQ as [Ho Hr].
    rewrite psamples_par. cbn [pools_of]. rewrite map_app, (IH Hr).
    destruct o; try discriminate; reflexivity.
  - cbn [forallb par_quiet andb] in HQ. rewrite psamples_pool. cbn [pools_of]. rewrite map_app, (IH HQ).
    unfold pools_samples. cbn [flat_map]. rewrite map_app. f_equal.
    destruct p as [[pids now] chunks]. unfold pool_at, pool_wseeds, pool_run_pids, pool_run, pre. cbn [fst snd m_fixed run].
    pose proof (pool_chunks_at_jump nb d slot lvl st (init g0) chunks
                  (map (fun s => mkGen s 0 0) (map (fun pid => seed_of pid now) pids))
                  (map (fun s => [ESeed s]) (map (fun pid => seed_of pid now) pids))
                  (map (fun s => [ESeed s]) (map (fun pid => seed_of pid now) pids))) as H.
    destruct (pool_chunks (mkMode false nb d) (init g0) (map (fun s => mkGen s 0 0) (map (fun p => seed_of p now) pids))
                (map (fun s => [ESeed s]) (map (fun p => seed_of p now) pids)) chunks) as [lg sm]. exact H.
Qed.

(* jump-time mode, ANY interleaving of parent instructions (the parent never simulates) and pools on any slots and
   levels, from any parent state: if the (pid, clock) pairs of all workers of all pools are pairwise different, all
   samples of all pools, levels and passes use pairwise disjoint positions *)
Theorem mlpool_jump_disjoint_gen : forall nb d ops st, forallb par_quiet ops = true ->
  NoDup (pools_keys (pools_of ops)) -> Forall pool_ok (pools_of ops) ->
  NoDup (flat_map snd (psamples (mkMode false nb d) ops st)).
Proof.
  intros nb d ops st HQ HN HF.
  rewrite flat_map_concat_map, (jump_psamples (mkGen 0 0 0) nb d ops HQ st), <- flat_map_concat_map.
  apply pools_jump_mode_disjoint; auto.
Qed.

Lemma mlcp_levels_pools m n0 pools : forall lvl,
  pools_of (mlcp_levels m n0 lvl pools) = pools /\ forallb par_quiet (mlcp_levels m n0 lvl pools) = true.
Proof.
  induction pools as [|p r IH]; intros lvl; [split; reflexivity|].
  cbn [mlcp_levels]. destruct (IH (lvl + 1)) as [I1 I2].
  rewrite pools_of_app, pools_of_par, forallb_app, quiet_pre. cbn [app pools_of forallb par_quiet andb]. rewrite I1, I2. auto.
Qed.

Lemma mlcp_ops_pools m n0 pools : pools_of (mlcp_ops m n0 pools) = pools /\ forallb par_quiet (mlcp_ops m n0 pools) = true.
Proof.
  unfold mlcp_ops. rewrite pools_of_app, pools_of_par, forallb_app, map_app, forallb_app, quiet_pre. cbn [app map forallb par_quiet andb].
  destruct pools as [|p r]; [split; reflexivity|].
  destruct (mlcp_levels_pools m n0 r 1) as [I1 I2]. cbn [pools_of forallb par_quiet andb]. rewrite I1, I2. auto.
Qed.

Lemma mlpp_levels_pools m levels : forall cr lvl,
  pools_of (fst (mlpp_levels m cr lvl levels)) = levels /\ forallb par_quiet (fst (mlpp_levels m cr lvl levels)) = true.
Proof.
  induction levels as [|p r IH]; intros cr lvl; [split; reflexivity|].
  cbn [mlpp_levels]. specialize (IH (if cr <=? lvl then cr + 1 else cr) (lvl + 1)).
  destruct (mlpp_levels m (if cr <=? lvl then cr + 1 else cr) (lvl + 1) r) as [rest crf]. cbn [fst] in *. destruct IH as [I1 I2].
  rewrite pools_of_app, pools_of_par, forallb_app, map_app, forallb_app, quiet_pre.
  cbn [app pools_of forallb par_quiet andb]. rewrite I1, I2.
  split; [reflexivity|]. destruct (cr <=? lvl); [|reflexivity]. cbn [map forallb par_quiet andb]. rewrite quiet_pre. reflexivity.
Qed.

Lemma mlpp_passes_pools m ps : forall cr,
  pools_of (mlpp_passes m cr ps) = flat_map pp_levels ps /\ forallb par_quiet (mlpp_passes m cr ps) = true.
Proof.
  induction ps as [|p r IH]; intros cr; [split; reflexivity|].
  cbn [mlpp_passes flat_map]. destruct (mlpp_levels_pools m (pp_levels p) cr 0) as [L1 L2].
  destruct (mlpp_levels m cr 0 (pp_levels p)) as [body cr1]. cbn [fst] in *.
  destruct (pp_add p) as [mm|].
  - destruct (IH (cr1 + 1)) as [I1 I2].
    rewrite !pools_of_app, !forallb_app, L1, L2, I1, I2. cbn [map pools_of forallb par_quiet andb]. rewrite pools_of_par, quiet_pre. auto.
  - destruct (IH cr1) as [I1 I2]. rewrite pools_of_app, forallb_app, L1, L2, I1, I2. auto.
Qed.

Lemma mlpp_ops_pools m n0 ps : pools_of (mlpp_ops m n0 ps) = flat_map pp_levels ps /\ forallb par_quiet (mlpp_ops m n0 ps) = true.
Proof.
  unfold mlpp_ops. destruct (mlpp_passes_pools m ps 1) as [I1 I2].
  rewrite pools_of_app, pools_of_par, forallb_app, map_app, forallb_app, quiet_pre, I1, I2. auto.
Qed.

(* both multilevel entry points with worker pools, jump-time mode, every number of levels / pass history, every
   assignment of chunks to workers in every pool, every ambient parent state *)
Theorem mlpool_jump_mode_disjoint : forall nb d n0 g0,
  (forall pools, NoDup (pools_keys pools) -> Forall pool_ok pools ->
     NoDup (flat_map snd (psamples (mkMode false nb d) (mlcp_ops (mkMode false nb d) n0 pools) (init g0))))
  /\ (forall passes, NoDup (pools_keys (flat_map pp_levels passes)) -> Forall pool_ok (flat_map pp_levels passes) ->
     NoDup (flat_map snd (psamples (mkMode false nb d) (mlpp_ops (mkMode false nb d) n0 passes) (init g0)))).
Proof.
  intros nb d n0 g0. split.
  - intros pools HN HF. destruct (mlcp_ops_pools (mkMode false nb d) n0 pools) as [P Q].
    apply mlpool_jump_disjoint_gen; auto; rewrite P; auto.
  - intros passes HN HF. destruct (mlpp_ops_pools (mkMode false nb d) n0 passes) as [P Q].
    apply mlpool_jump_disjoint_gen; auto; rewrite P; auto.
Qed.

(* ------------------------------------------------------------------ fixed-date mode: F-C08-3 in the multilevel engine *)
Lemma Shared_app_l l x : Shared l -> Shared (l ++ x).
Proof.
  intros (l1 & a & l2 & b & l3 & p & -> & Ha & Hb & E). exists l1, a, l2, b, (l3 ++ x), p. repeat split; auto.
  rewrite <- app_assoc. cbn [app]. rewrite <- app_assoc. reflexivity.
Qed.
Lemma Shared_app_r l x : Shared l -> Shared (x ++ l).
Proof.
  intros (l1 & a & l2 & b & l3 & p & -> & Ha & Hb & E). exists (x ++ l1), a, l2, b, l3, p. repeat split; auto.
  now rewrite <- app_assoc.
Qed.
Lemma Shared_not_NoDup l : Shared l -> ~ NoDup (flat_map snd l).
Proof. intros (l1 & a & l2 & b & l3 & p & -> & Ha & Hb & E) HN. exact (nodup_flat_pairwise l1 l2 l3 a b p HN Ha Hb). Qed.

Definition has_row (st : state) (slot : Z) (p : pos) : Prop :=
  exists c rest more, q_pois (s_slot st slot) = (c, p :: rest) :: more.

Lemma pre_has_row st slot n nb d : 1 <= n -> 1 <= nb ->
  has_row (fst (step st (OPre slot n nb d))) slot (false, g_sid (s_gen st), g_np (s_gen st)).
Proof.
  intros Hn Hnb. unfold has_row. cbn [step fst s_slot]. rewrite set_slot_same. cbn [q_pois].
  unfold pois_rows. replace (Z.max 0 n) with n by lia. replace (Z.max 0 nb) with nb by lia.
  destruct (zrange_pos n Hn) as [r ->]. destruct (zrange_pos nb Hnb) as [r' ->]. cbn [map].
  replace (g_np (s_gen st) + 0 * n + 0) with (g_np (s_gen st)) by lia. do 3 eexists; reflexivity.
Qed.

Lemma copy_has_row st src dst x : has_row st src x -> has_row (fst (step st (OCopy src dst))) dst x.
Proof. unfold has_row. cbn [step fst s_slot]. now rewrite set_slot_same. Qed.

Lemma first_sample_at nb d slot lvl parent g c p rest more s ss :
  q_pois (s_slot parent slot) = (c, p :: rest) :: more ->
  exists a B, samples (samples_ops (mkMode true nb d) slot lvl (s :: ss)) (mkSt g (s_cid parent) (s_slot parent)) = a :: B
              /\ In p (snd a) /\ fst a = lvl.
Proof.
  intros Hq. unfold samples_ops. cbn [map]. rewrite samples_cons. cbn [step m_fixed s_slot s_gen].
  rewrite Hq. cbn [pop fst snd].
  destruct (draws_run g s) as [[e2 r2] g']. destruct (pop (q_brown (s_slot parent slot))) as [[e3 r3] qb].
  cbn [fst snd app]. eexists. eexists. split; [reflexivity|]. simpl. auto.
Qed.

Lemma pool_chunks_at_cons m slot lvl parent gens logs w ss r :
  exists gens' logs', snd (pool_chunks_at m slot lvl parent gens logs ((w, ss) :: r)) =
    samples (samples_ops m slot lvl ss) (mkSt (nth w gens (mkGen 0 0 0)) (s_cid parent) (s_slot parent))
    ++ snd (pool_chunks_at m slot lvl parent gens' logs' r).
Proof.
  cbn [pool_chunks_at]. unfold samples.
  destruct (run (samples_ops m slot lvl ss) (mkSt (nth w gens (mkGen 0 0 0)) (s_cid parent) (s_slot parent))) as [[es sm] stf].
  exists (set_nth gens w (s_gen stf)), (set_nth logs w (nth w logs [] ++ es)).
  destruct (pool_chunks_at m slot lvl parent (set_nth gens w (s_gen stf)) (set_nth logs w (nth w logs [] ++ es)) r) as [logs' sms].
  reflexivity.
Qed.

Lemma pool_chunks_at_hit nb d slot lvl parent c p rest more : q_pois (s_slot parent slot) = (c, p :: rest) :: more ->
  forall c0 gens logs w s ss r, exists A a B gens' logs',
    snd (pool_chunks_at (mkMode true nb d) slot lvl parent gens logs (c0 ++ (w, s :: ss) :: r))
    = A ++ a :: B ++ snd (pool_chunks_at (mkMode true nb d) slot lvl parent gens' logs' r) /\ In p (snd a) /\ fst a = lvl.
Proof.
  intros Hq. induction c0 as [|[w0 ss0] c0 IH]; intros gens logs w s ss r.
  - cbn [app]. destruct (pool_chunks_at_cons (mkMode true nb d) slot lvl parent gens logs w (s :: ss) r) as (g' & l' & ->).
    destruct (first_sample_at nb d slot lvl parent (nth w gens (mkGen 0 0 0)) c p rest more s ss Hq) as (a & B & -> & Hin & Hl).
    exists [], a, B, g', l'. split; auto.
  - cbn [app]. destruct (pool_chunks_at_cons (mkMode true nb d) slot lvl parent gens logs w0 ss0 (c0 ++ (w, s :: ss) :: r)) as (g' & l' & ->).
    destruct (IH g' l' w s ss r) as (A & a & B & g'' & l'' & -> & Hin & Hl).
    eexists (_ ++ A), a, B, g'', l''. rewrite <- app_assoc. split; auto.
Qed.

(* one pool on a slot whose Poisson deque starts with a row whose first variate is x: every schedule with two non-empty
   chunks makes two samples (of that level) consume x *)
Lemma pool_at_shared nb d slot lvl st p x : has_row st slot x -> two_chunks p ->
  Shared (snd (pool_at (mkMode true nb d) slot lvl st p)).
Proof.
  intros (c & rst & more & Hq) (c0 & w1 & s1 & ss1 & mid & w2 & s2 & ss2 & rest & E).
  unfold pool_at. rewrite E.
  destruct (pool_chunks_at_hit nb d slot lvl st c x rst more Hq c0
              (map (fun s => mkGen s 0 0) (pool_wseeds p)) (map (fun s => [ESeed s]) (pool_wseeds p)) w1 s1 ss1
              (mid ++ (w2, s2 :: ss2) :: rest)) as (A & a & B & g' & l' & E1 & Ha & La).
  destruct (pool_chunks_at_hit nb d slot lvl st c x rst more Hq mid g' l' w2 s2 ss2 rest) as (A' & b & B' & g'' & l'' & E2 & Hb & Lb).
  rewrite E2 in E1. rewrite E1.
  exists A, a, (B ++ A'), b, (B' ++ snd (pool_chunks_at (mkMode true nb d) slot lvl st g'' l'' rest)), x.
  rewrite <- app_assoc. repeat split; auto. congruence.
Qed.

Lemma two_chunks_total p : two_chunks p -> 1 <= pool_total p.
Proof.
  intros (c0 & w1 & s1 & ss1 & mid & w2 & s2 & ss2 & rest & E). unfold pool_total, len. rewrite E.
  rewrite flat_map_app, app_length. cbn [flat_map snd app length]. lia.
Qed.

Lemma Shared_par m o r : (forall st, Shared (psamples m r st)) -> forall st, Shared (psamples m (PPar o :: r) st).
Proof. intros H st. rewrite psamples_par. apply Shared_app_r, H. Qed.

(* pre_computation(n) on the slot, then the pool on that slot *)
Lemma level_shared nb d slot lvl n p rest : 1 <= nb -> 1 <= n ->
  (two_chunks p \/ forall st, Shared (psamples (mkMode true nb d) rest st)) ->
  forall st, Shared (psamples (mkMode true nb d) (PPar (OPre slot n nb d) :: PPool slot lvl p :: rest) st).
Proof.
  intros Hnb Hn [H2|HR] st; rewrite psamples_par, psamples_pool; apply Shared_app_r.
  - apply Shared_app_l. eapply pool_at_shared; [apply pre_has_row; auto|exact H2].
  - apply Shared_app_r, HR.
Qed.

Lemma level_shared_rest nb d slot lvl n p rest :
  (forall st, Shared (psamples (mkMode true nb d) rest st)) ->
  forall st, Shared (psamples (mkMode true nb d) (PPar (OPre slot n nb d) :: PPool slot lvl p :: rest) st).
Proof. intros HR st. rewrite psamples_par, psamples_pool. apply Shared_app_r, Shared_app_r, HR. Qed.

Lemma mlcp_levels_shared nb d n0 : 1 <= n0 -> 1 <= nb -> forall pools lvl, Exists two_chunks pools ->
  forall st, Shared (psamples (mkMode true nb d) (mlcp_levels (mkMode true nb d) n0 lvl pools) st).
Proof.
  intros Hn Hnb. induction pools as [|p r IH]; intros lvl HE; inversion HE as [? ? H2|? ? HR]; subst;
    cbn [mlcp_levels]; unfold pre; cbn [m_fixed m_nb m_dim map app].
  - apply level_shared; auto.
  - apply level_shared_rest. apply IH. exact HR.
Qed.

Lemma mlpp_levels_shared nb d : 1 <= nb -> forall levels cr lvl, Exists two_chunks levels ->
  forall st, Shared (psamples (mkMode true nb d) (fst (mlpp_levels (mkMode true nb d) cr lvl levels)) st).
Proof.
  intros Hnb. induction levels as [|p r IH]; intros cr lvl HE; inversion HE as [? ? H2|? ? HR]; subst;
    cbn [mlpp_levels]; specialize (IH (if cr <=? lvl then cr + 1 else cr) (lvl + 1));
    destruct (mlpp_levels (mkMode true nb d) (if cr <=? lvl then cr + 1 else cr) (lvl + 1) r) as [rest crf]; cbn [fst] in *;
    unfold pre; cbn [m_fixed m_nb m_dim]; destruct (cr <=? lvl); cbn [map app].
  - apply Shared_par, Shared_par. apply level_shared; auto. apply two_chunks_total; auto.
  - apply level_shared; auto. apply two_chunks_total; auto.
  - apply Shared_par, Shared_par. apply level_shared_rest. apply IH. exact HR.
  - apply level_shared_rest. apply IH. exact HR.
Qed.

Lemma mlpp_passes_shared nb d : 1 <= nb -> forall ps cr, Exists two_chunks (flat_map pp_levels ps) ->
  forall st, Shared (psamples (mkMode true nb d) (mlpp_passes (mkMode true nb d) cr ps) st).
Proof.
  intros Hnb. induction ps as [|p r IH]; intros cr HE st; cbn [flat_map] in HE; [inversion HE|].
  apply Exists_app in HE. cbn [mlpp_passes].
  pose proof (mlpp_levels_shared nb d Hnb (pp_levels p) cr 0) as HL.
  destruct (mlpp_levels (mkMode true nb d) cr 0 (pp_levels p)) as [body cr1]. cbn [fst] in HL.
  destruct (pp_add p) as [mm|]; rewrite psamples_app; destruct HE as [HE|HE].
  - apply Shared_app_l, HL, HE.
  - apply Shared_app_r. rewrite psamples_app. apply Shared_app_r. apply IH. exact HE.
  - apply Shared_app_l, HL, HE.
  - apply Shared_app_r. apply IH. exact HE.
Qed.

(* F-C08-3 lifted to the multilevel engine, for ALL schedules: fixed-date mode (at least one product date), pools.
   Constant run with n0 >= 1 paths per level, and adaptive price() with any pass history: as soon as ONE pool of the run
   (any level, any pass) serves two non-empty chunks -- any workers, any pids and clock values, anything before, between
   and after -- two samples of the same level consume the same pre-drawn variate. *)
Theorem mlpool_fixed_mode_share : forall nb d n0 g0, 1 <= nb ->
  (forall pools, 1 <= n0 -> Exists two_chunks pools ->
     Shared (psamples (mkMode true nb d) (mlcp_ops (mkMode true nb d) n0 pools) (init g0))
     /\ ~ NoDup (flat_map snd (psamples (mkMode true nb d) (mlcp_ops (mkMode true nb d) n0 pools) (init g0))))
  /\ (forall passes, Exists two_chunks (flat_map pp_levels passes) ->
     Shared (psamples (mkMode true nb d) (mlpp_ops (mkMode true nb d) n0 passes) (init g0))
     /\ ~ NoDup (flat_map snd (psamples (mkMode true nb d) (mlpp_ops (mkMode true nb d) n0 passes) (init g0)))).
Proof.
  intros nb d n0 g0 Hnb. split.
  - intros pools Hn HE.
    assert (S : Shared (psamples (mkMode true nb d) (mlcp_ops (mkMode true nb d) n0 pools) (init g0))).
    { unfold mlcp_ops, pre. cbn [m_fixed m_nb m_dim map app].
      destruct pools as [|p r]; [inversion HE|].
      rewrite !psamples_par. apply Shared_app_r, Shared_app_r. rewrite psamples_pool.
      inversion HE as [? ? H2|? ? HR]; subst.
      - apply Shared_app_l. eapply pool_at_shared; [|exact H2]. apply copy_has_row, pre_has_row; auto.
      - apply Shared_app_r. apply mlcp_levels_shared; auto. }
    split; [exact S|apply Shared_not_NoDup, S].
  - intros passes HE.
    assert (S : Shared (psamples (mkMode true nb d) (mlpp_ops (mkMode true nb d) n0 passes) (init g0))).
    { unfold mlpp_ops. rewrite psamples_app. apply Shared_app_r. apply mlpp_passes_shared; auto. }
    split; [exact S|apply Shared_not_NoDup, S].
Qed.

(* non-vacuity / concrete instance: two pools (levels 0 and 1) of two workers each, every pool with two non-empty chunks *)
Definition mlpool_demo : list poolspec :=
  [([101; 102], 1700000000, [(0%nat, [[(false, 1, false)]]); (1%nat, [[(false, 2, false)]])]);
   ([103; 104], 1700000000, [(1%nat, [[(false, 1, true)]]); (0%nat, [[(false, 1, false)]]); (1%nat, [[]])])].

(* ------------------------------------------------------------------ audit4 B2: honest form of jump_mode_exactly_once
   In the model (and in the tracer) the positions of a sample ARE the draws made between its begin and its end, so
   "drawn = consumed" can only say: no variate is drawn OUTSIDE a sample window (none by pre_computation, none between
   two samples, none after the last), and NoDup: no position is attributed to two samples or twice to one.  Whether a
   variate drawn inside a window is really used by the path is not expressible here.  Stated for every mode with
   m_fixed = false: the number of dates and the dimension play no role. *)
Theorem jump_mode_no_draw_outside_samples : forall seed t m g, m_fixed m = false ->
  (forall ss, drawn (events (std_ops seed t m ss) (init g)) = consumed (std_ops seed t m ss) (init g)
              /\ NoDup (drawn (events (std_ops seed t m ss) (init g))))
  /\ (forall n0 lv, drawn (events (mlc_ops seed t m n0 lv) (init g)) = consumed (mlc_ops seed t m n0 lv) (init g)
              /\ NoDup (drawn (events (mlc_ops seed t m n0 lv) (init g))))
  /\ (forall n0 ps, drawn (events (mlp_ops seed t m n0 ps) (init g)) = consumed (mlp_ops seed t m n0 ps) (init g)
              /\ NoDup (drawn (events (mlp_ops seed t m n0 ps) (init g)))).
Proof. intros seed t [f nb d] g H. simpl in H. subst f. exact (jump_mode_exactly_once seed t nb d g). Qed.

(* the same discipline is FALSE as soon as rows are pre-drawn: in fixed-date mode the standard engine draws all its
   Poisson and normal variates outside the sample windows (so the statement above has content: it fails for m_fixed = true) *)
Theorem fixed_mode_draws_outside_samples_refuted :
  exists seed t m ss g, m_fixed m = true /\ exists p, In p (drawn (events (std_ops seed t m ss) (init g)))
                                           /\ drawn (events (std_ops seed t m ss) (init g)) <> consumed (std_ops seed t m ss) (init g).
Proof.
  exists (Some 7), 0, fixed1, [[(false, 1, false)]; [(false, 1, false)]], (mkGen (-1) 0 0). split; [reflexivity|].
  exists (false, 7, 0). split; [vm_compute; auto|]. vm_compute. discriminate.
Qed.

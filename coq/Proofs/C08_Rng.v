(* Proofs for property C08 (randomness discipline) about Model/Rng.v.

   Main argument (single process, ops without re-seeding).  Invariant over the instruction list:
     NoDup (C ++ pend)  /\  every position of C ++ pend has the current seed id and an index below
     the generator's counter of its stream
   where C = positions consumed by the samples so far and pend = positions stored in the rows of
   the one deque pair that may still be popped (`cur`: the slot of the last pre_computation, moved
   by deepcopy).  A draw hands out positions at or above the counter, hence fresh; a pop moves a
   row from pend to C.  `lin` is the syntactic discipline the engines obey: a fixed-date sample
   pops from the current slot only, and there is no seed instruction after the first.
   The same invariant with creation numbers instead of counters gives NoDup of the popped tags. *)
From Coq Require Import ZArith List Bool Lia Permutation.
From RV Require Import Model.Rng.
Import ListNotations.
Open Scope Z_scope.

(* ------------------------------------------------------------------ generic list facts *)
Lemma pos_eq_dec : forall a b : pos, {a = b} + {a <> b}.
Proof. repeat decide equality. Defined.
Lemma tag_eq_dec : forall a b : tag, {a = b} + {a <> b}.
Proof. repeat decide equality. Defined.

Lemma NoDup_app_intro {A} (a b : list A) :
  NoDup a -> NoDup b -> (forall x, In x a -> ~ In x b) -> NoDup (a ++ b).
Proof.
  induction a as [|x a IH]; simpl; intros Ha Hb Hd; auto.
  inversion Ha; subst. constructor.
  - rewrite in_app_iff. intros [H|H]; [tauto|]. apply (Hd x); auto.
  - apply IH; auto; intros y Hy; apply Hd; auto.
Qed.

Lemma NoDup_app_l {A} (a b : list A) : NoDup (a ++ b) -> NoDup a.
Proof. induction a; simpl; intros H; [constructor|]. inversion H; subst. constructor; [rewrite in_app_iff in *; tauto|auto]. Qed.
Lemma NoDup_app_r {A} (a b : list A) : NoDup (a ++ b) -> NoDup b.
Proof. induction a; simpl; intros H; auto. inversion H; auto. Qed.
Lemma NoDup_app_disj {A} (a b : list A) x : NoDup (a ++ b) -> In x a -> ~ In x b.
Proof.
  induction a; simpl; intros H Ha; [tauto|]. inversion H; subst. destruct Ha as [->|Ha]; [rewrite in_app_iff in *; tauto|auto].
Qed.

Lemma NoDup_flat_map_intro {A B} (f : A -> list B) (l : list A) :
  NoDup l -> (forall a, In a l -> NoDup (f a)) ->
  (forall a a' b, In a l -> In a' l -> In b (f a) -> In b (f a') -> a = a') -> NoDup (flat_map f l).
Proof.
  induction l as [|x l IH]; simpl; intros Hl Hn Hd; [constructor|].
  inversion Hl; subst. apply NoDup_app_intro.
  - apply Hn; auto.
  - apply IH; auto. intros; eapply Hd; eauto.
  - intros b Hb Hin. apply in_flat_map in Hin. destruct Hin as [a' [Ha' Hb']].
    assert (x = a') by (eapply Hd; eauto). subst. tauto.
Qed.

Lemma NoDup_map_intro {A B} (f : A -> B) (l : list A) :
  NoDup l -> (forall a a', In a l -> In a' l -> f a = f a' -> a = a') -> NoDup (map f l).
Proof.
  induction l as [|x l IH]; simpl; intros Hl Hi; [constructor|].
  inversion Hl; subst. constructor.
  - rewrite in_map_iff. intros [a [Ha Hin]]. assert (a = x) by (apply Hi; auto). subst. tauto.
  - apply IH; auto.
Qed.

Lemma In_zrange n x : In x (zrange n) <-> 0 <= x < n.
Proof.
  unfold zrange. rewrite in_map_iff. split.
  - intros [k [<- Hk]]. apply in_seq in Hk. lia.
  - intros H. exists (Z.to_nat x). split; [lia|]. apply in_seq. lia.
Qed.
Lemma NoDup_zrange n : NoDup (zrange n).
Proof. unfold zrange. apply NoDup_map_intro; [apply seq_NoDup|]. intros; lia. Qed.
Lemma length_zrange n : length (zrange n) = Z.to_nat n.
Proof. unfold zrange. now rewrite map_length, seq_length. Qed.

Lemma In_block py sid from k p : In p (block py sid from k) <-> exists j, 0 <= j < k /\ p = (py, sid, from + j).
Proof.
  unfold block. rewrite in_map_iff. split.
  - intros [j [<- Hj]]. apply In_zrange in Hj. eauto.
  - intros [j [Hj ->]]. exists j. split; auto. now apply In_zrange.
Qed.
Lemma NoDup_block py sid from k : NoDup (block py sid from k).
Proof. unfold block. apply NoDup_map_intro; [apply NoDup_zrange|]. intros a a' _ _ H. inversion H. lia. Qed.

(* ------------------------------------------------------------------ freshness of what the generator hands out *)
Definition Bnd (g : gen) (l : list pos) : Prop :=
  forall py sd i, In (py, sd, i) l -> sd = g_sid g /\ i < ctr py g.

Definition Fresh (g g' : gen) (ps : list pos) : Prop :=
  g_sid g' = g_sid g /\ g_np g <= g_np g' /\ g_py g <= g_py g' /\ NoDup ps /\
  forall py sd i, In (py, sd, i) ps -> sd = g_sid g /\ ctr py g <= i < ctr py g'.

Lemma fresh_ext g g' l ps : Bnd g l -> NoDup l -> Fresh g g' ps -> NoDup (l ++ ps) /\ Bnd g' (l ++ ps).
Proof.
  intros Hb Hl (Hs & Hn & Hp & Hnd & Hr). split.
  - apply NoDup_app_intro; auto. intros [[py sd] i] H1 H2.
    destruct (Hb _ _ _ H1) as [_ H3]. destruct (Hr _ _ _ H2) as [_ H4]. lia.
  - intros py sd i H. rewrite in_app_iff in H. destruct H as [H|H].
    + destruct (Hb _ _ _ H) as [H1 H2]. split; [congruence|]. destruct py; simpl in *; lia.
    + destruct (Hr _ _ _ H) as [H1 H2]. split; [congruence|lia].
Qed.

Lemma Fresh_refl g : Fresh g g [].
Proof. unfold Fresh. split; [reflexivity|]. split; [lia|]. split; [lia|]. split; [constructor|]. intros py sd i []. Qed.

Lemma ctr_advance_same py k g : ctr py (advance py k g) = ctr py g + Z.max 0 k.
Proof. destruct py; reflexivity. Qed.
Lemma ctr_advance_other py k g : ctr (negb py) (advance py k g) = ctr (negb py) g.
Proof. destruct py; reflexivity. Qed.
Lemma sid_advance py k g : g_sid (advance py k g) = g_sid g.
Proof. destruct py; reflexivity. Qed.
Lemma np_advance py k g : g_np g <= g_np (advance py k g).
Proof. destruct py; simpl; lia. Qed.
Lemma py_advance py k g : g_py g <= g_py (advance py k g).
Proof. destruct py; simpl; lia. Qed.

Lemma Fresh_trans g1 g2 g3 p1 p2 : Fresh g1 g2 p1 -> Fresh g2 g3 p2 -> Fresh g1 g3 (p1 ++ p2).
Proof.
  intros (S1 & N1 & P1 & D1 & R1) (S2 & N2 & P2 & D2 & R2).
  assert (M1 : forall py, ctr py g1 <= ctr py g2) by (destruct py; simpl; lia).
  assert (M2 : forall py, ctr py g2 <= ctr py g3) by (destruct py; simpl; lia).
  repeat split; try lia; try congruence.
  - apply NoDup_app_intro; auto. intros [[py sd] i] H1 H2.
    destruct (R1 _ _ _ H1) as [_ H3]. destruct (R2 _ _ _ H2) as [_ H4]. lia.
  - rewrite in_app_iff in H. destruct H as [H|H]; [apply R1 in H|apply R2 in H]; destruct H; congruence.
  - rewrite in_app_iff in H. destruct H as [H|H]; [apply R1 in H|apply R2 in H]; destruct H as [_ H]; specialize (M1 py); specialize (M2 py); lia.
  - rewrite in_app_iff in H. destruct H as [H|H]; [apply R1 in H|apply R2 in H]; destruct H as [_ H]; specialize (M1 py); specialize (M2 py); lia.
Qed.

Lemma Fresh_block py k g : Fresh g (advance py k g) (block py (g_sid g) (ctr py g) k).
Proof.
  repeat split; auto using sid_advance, np_advance, py_advance, NoDup_block.
  - apply In_block in H. destruct H as [j [_ H]]. inversion H; auto.
  - apply In_block in H. destruct H as [j [Hj H]]. inversion H; subst. lia.
  - apply In_block in H. destruct H as [j [Hj H]]. inversion H; subst. rewrite ctr_advance_same. lia.
Qed.

Lemma draws_run_fresh ds : forall g es ps g', draws_run g ds = (es, ps, g') -> Fresh g g' ps.
Proof.
  induction ds as [|[[py k] dec] r IH]; simpl; intros g es ps g' H.
  - inversion H; subst. apply Fresh_refl.
  - destruct (draws_run (advance py k g) r) as [[es1 ps1] g1] eqn:E. inversion H; subst.
    apply IH in E. eapply Fresh_trans; [apply Fresh_block|exact E].
Qed.

Definition rowspos (q : list row) : list pos := flat_map snd q.
Definition rowstags (q : list row) : list tag := map fst q.

Lemma Fresh_pre g cb cp n nb w :
  0 <= n -> 0 <= nb -> 0 <= w ->
  Fresh g (advance false (n * nb + n * w) g)
        (rowspos (pois_rows cp (g_sid g) (g_np g) n nb) ++ rowspos (brown_rows cb (g_sid g) (g_np g + n * nb) n w)).
Proof.
  intros Hn Hnb Hw.
  assert (Hin_p : forall p, In p (rowspos (pois_rows cp (g_sid g) (g_np g) n nb)) ->
                  exists i k, 0 <= i < n /\ 0 <= k < nb /\ p = (false, g_sid g, g_np g + k * n + i)).
  { intros p H. unfold rowspos, pois_rows in H. rewrite flat_map_concat_map, map_map in H. simpl in H.
    rewrite <- flat_map_concat_map in H. apply in_flat_map in H. destruct H as [i [Hi H]].
    apply in_map_iff in H. destruct H as [k [<- Hk]]. apply In_zrange in Hi, Hk. eauto. }
  assert (Hin_b : forall p, In p (rowspos (brown_rows cb (g_sid g) (g_np g + n * nb) n w)) ->
                  exists i j, 0 <= i < n /\ 0 <= j < w /\ p = (false, g_sid g, g_np g + n * nb + i * w + j)).
  { intros p H. unfold rowspos, brown_rows in H. rewrite flat_map_concat_map, map_map in H. simpl in H.
    rewrite <- flat_map_concat_map in H. apply in_flat_map in H. destruct H as [i [Hi H]].
    apply In_block in H. destruct H as [j [Hj ->]]. apply In_zrange in Hi. eauto. }
  repeat split; auto using sid_advance, np_advance, py_advance.
  - apply NoDup_app_intro.
    + unfold rowspos, pois_rows. rewrite flat_map_concat_map, map_map. simpl. rewrite <- flat_map_concat_map.
      apply NoDup_flat_map_intro; [apply NoDup_zrange| |].
      * intros i Hi. apply NoDup_map_intro; [apply NoDup_zrange|].
        intros a a' Ha Ha' H. inversion H. apply In_zrange in Hi. nia.
      * intros i i' b Hi Hi' H1 H2. apply in_map_iff in H1, H2. destruct H1 as [k [<- Hk]]. destruct H2 as [k' [H2 Hk']].
        inversion H2. apply In_zrange in Hi, Hi', Hk, Hk'.
        assert (k' = k) by nia. subst. lia.
    + unfold rowspos, brown_rows. rewrite flat_map_concat_map, map_map. simpl. rewrite <- flat_map_concat_map.
      apply NoDup_flat_map_intro; [apply NoDup_zrange| |].
      * intros; apply NoDup_block.
      * intros i i' b Hi Hi' H1 H2. apply In_block in H1, H2. destruct H1 as [j [Hj ->]]. destruct H2 as [j' [Hj' H2]].
        inversion H2. apply In_zrange in Hi, Hi'. nia.
    + intros p H1 H2. apply Hin_p in H1. apply Hin_b in H2.
      destruct H1 as (i & k & Hi & Hk & ->). destruct H2 as (i' & j & Hi' & Hj & H2). inversion H2. nia.
  - rewrite in_app_iff in H. destruct H as [H|H]; [apply Hin_p in H|apply Hin_b in H];
      destruct H as (a & b & _ & _ & H); inversion H; auto.
  - rewrite in_app_iff in H. destruct H as [H|H]; [apply Hin_p in H|apply Hin_b in H];
      destruct H as (a & b & Ha & Hb & H); inversion H; subst; simpl; nia.
  - rewrite in_app_iff in H. destruct H as [H|H]; [apply Hin_p in H|apply Hin_b in H];
      destruct H as (a & b & Ha & Hb & H); inversion H; subst; simpl; nia.
Qed.

(* ------------------------------------------------------------------ the discipline the engines obey *)
Definition next_cur (cur : option Z) (o : op) : option Z :=
  match o with
  | OSeed _ => cur
  | OPre s _ _ _ => Some s
  | OCopy src dst =>
      match cur with
      | Some c => if c =? src then Some dst else if c =? dst then None else cur
      | None => None
      end
  | OSample _ _ _ _ => cur
  end.
Definition op_ok (cur : option Z) (o : op) : bool :=
  match o with
  | OSeed _ => false
  | OSample s true _ _ => match cur with Some c => c =? s | None => false end
  | _ => true
  end.
Fixpoint lin (ops : list op) (cur : option Z) : bool :=
  match ops with [] => true | o :: r => op_ok cur o && lin r (next_cur cur o) end.

Definition pend (st : state) (cur : option Z) : list pos :=
  match cur with None => [] | Some s => rowspos (q_pois (s_slot st s)) ++ rowspos (q_brown (s_slot st s)) end.
Definition Inv (st : state) (cur : option Z) (C : list pos) : Prop :=
  NoDup (C ++ pend st cur) /\ Bnd (s_gen st) (C ++ pend st cur).

Ltac count_nodup H :=
  let x := fresh "x" in
  apply (NoDup_count_occ pos_eq_dec); intro x;
  rewrite (NoDup_count_occ pos_eq_dec) in H; specialize (H x);
  repeat rewrite count_occ_app in *; simpl in *; repeat rewrite count_occ_app in *; lia.
Ltac bnd_incl H :=
  let py := fresh "py" in let sd := fresh "sd" in let i := fresh "i" in let Hi := fresh "Hi" in
  intros py sd i Hi; apply (H py sd i); repeat (rewrite in_app_iff in * ); simpl in *; repeat (rewrite in_app_iff in * ); tauto.

Lemma Bnd_sub g l l' : Bnd g l -> (forall p, In p l' -> In p l) -> Bnd g l'.
Proof. intros H Hs py sd i Hi. apply H. auto. Qed.

Lemma set_slot_same f s p : set_slot f s p s = p.
Proof. unfold set_slot. now rewrite Z.eqb_refl. Qed.
Lemma set_slot_other f s p z : z <> s -> set_slot f s p z = f z.
Proof. unfold set_slot. intros H. apply Z.eqb_neq in H. now rewrite H. Qed.

Lemma step_inv st cur C o :
  op_ok cur o = true -> Inv st cur C ->
  Inv (fst (step st o)) (next_cur cur o) (C ++ flat_map snd (snd (snd (step st o)))).
Proof.
  intros Hok [Hnd Hb]. destruct o as [s|slot n nb d|src dst|slot fixed lvl ds]; simpl in Hok; try discriminate.
  - (* OPre *)
    simpl. rewrite app_nil_r. unfold Inv, pend. simpl. rewrite set_slot_same. simpl.
    assert (HC : NoDup C) by (eapply NoDup_app_l; eauto).
    assert (HbC : Bnd (s_gen st) C) by (eapply Bnd_sub; eauto; intros; apply in_or_app; auto).
    eapply fresh_ext; [exact HbC|exact HC|].
    apply Fresh_pre; nia.
  - (* OCopy *)
    simpl. rewrite app_nil_r. unfold Inv in *. destruct cur as [c|]; simpl in *.
    + destruct (c =? src) eqn:E1.
      * apply Z.eqb_eq in E1. subst. unfold pend. simpl. rewrite set_slot_same. auto.
      * destruct (c =? dst) eqn:E2.
        -- simpl. rewrite app_nil_r. split; [eapply NoDup_app_l; eauto|].
           eapply Bnd_sub; eauto. intros; apply in_or_app; auto.
        -- apply Z.eqb_neq in E2. unfold pend. simpl. rewrite set_slot_other; auto.
    + auto.
  - (* OSample *)
    destruct fixed.
    + destruct cur as [c|]; [|discriminate]. apply Z.eqb_eq in Hok. subst c.
      unfold pend in Hnd, Hb. simpl.
      destruct (s_slot st slot) as [qb qp] eqn:Eslot. simpl in *.
      destruct (draws_run (s_gen st) ds) as [[e2 r2] g'] eqn:Ed.
      pose proof (draws_run_fresh _ _ _ _ _ Ed) as Hf.
      destruct (fresh_ext _ _ _ _ Hb Hnd Hf) as [Hnd' Hb'].
      destruct qp as [|rp restp]; destruct qb as [|rb restb]; simpl; unfold Inv, pend; simpl; rewrite set_slot_same; simpl;
        unfold rowspos in *; simpl in *; repeat rewrite app_nil_r in *;
        (split; [count_nodup Hnd'|bnd_incl Hb']).
    + simpl. destruct (draws_run (s_gen st) ds) as [[e2 r2] g'] eqn:Ed. simpl.
      pose proof (draws_run_fresh _ _ _ _ _ Ed) as Hf.
      destruct (fresh_ext _ _ _ _ Hb Hnd Hf) as [Hnd' Hb'].
      unfold Inv. assert (Hp : pend (mkSt g' (s_cid st) (s_slot st)) cur = pend st cur) by (destruct cur; reflexivity).
      simpl. rewrite Hp. repeat rewrite app_nil_r.
      split; [count_nodup Hnd'|bnd_incl Hb'].
Qed.

Lemma run_cons o r st :
  run (o :: r) st =
  (fst (snd (step st o)) ++ fst (fst (run r (fst (step st o)))),
   snd (snd (step st o)) ++ snd (fst (run r (fst (step st o)))),
   snd (run r (fst (step st o)))).
Proof.
  simpl. destruct (step st o) as [st' [e s]]. simpl. destruct (run r st') as [[es ss] stf]. reflexivity.
Qed.

Lemma consumed_cons o r st :
  consumed (o :: r) st = flat_map snd (snd (snd (step st o))) ++ consumed r (fst (step st o)).
Proof. unfold consumed, samples. rewrite run_cons. simpl. now rewrite flat_map_app. Qed.
Lemma events_cons o r st : events (o :: r) st = fst (snd (step st o)) ++ events r (fst (step st o)).
Proof. unfold events. now rewrite run_cons. Qed.
Lemma samples_cons o r st : samples (o :: r) st = snd (snd (step st o)) ++ samples r (fst (step st o)).
Proof. unfold samples. now rewrite run_cons. Qed.
Lemma final_cons o r st : final (o :: r) st = final r (fst (step st o)).
Proof. unfold final. now rewrite run_cons. Qed.

Lemma run_inv ops : forall st cur C, lin ops cur = true -> Inv st cur C -> NoDup (C ++ consumed ops st).
Proof.
  induction ops as [|o r IH]; intros st cur C Hl Hi.
  - unfold consumed, samples. simpl. rewrite app_nil_r. destruct Hi as [H _]. eapply NoDup_app_l; eauto.
  - simpl in Hl. apply andb_prop in Hl. destruct Hl as [Hok Hl].
    rewrite consumed_cons, app_assoc. eapply IH; eauto. apply step_inv; auto.
Qed.

(* ------------------------------------------------------------------ the same for the row tags *)
Definition pendt (st : state) (cur : option Z) : list tag :=
  match cur with None => [] | Some s => rowstags (q_pois (s_slot st s)) ++ rowstags (q_brown (s_slot st s)) end.
Definition BndT (st : state) (l : list tag) : Prop := forall c r, In (c, r) l -> c < s_cid st.
Definition InvT (st : state) (cur : option Z) (T : list tag) : Prop :=
  NoDup (T ++ pendt st cur) /\ BndT st (T ++ pendt st cur).

Lemma popped_app a b : popped (a ++ b) = popped a ++ popped b.
Proof. induction a as [|[] a IH]; simpl; auto. now rewrite IH. Qed.

(* the events of the fresh draws of a sample are draw / use events only *)
Definition du (e : ev) : bool := match e with EDraw _ _ _ _ | EUse _ => true | _ => false end.
Lemma du_map_use l : forallb du (map EUse l) = true.
Proof. induction l; simpl; auto. Qed.
Lemma draws_run_du ds : forall g, forallb du (fst (fst (draws_run g ds))) = true.
Proof.
  induction ds as [|[[py k] dec] r IH]; intros g; simpl; auto.
  specialize (IH (advance py k g)). destruct (draws_run (advance py k g) r) as [[es ps] g']. simpl in *.
  rewrite forallb_app, IH. destruct dec; simpl; [rewrite du_map_use|]; reflexivity.
Qed.
Lemma du_popped es : forallb du es = true -> popped es = [].
Proof. induction es as [|[] es IH]; simpl; intros H; try discriminate; auto. Qed.
Lemma popped_draws ds g : popped (fst (fst (draws_run g ds))) = [].
Proof. apply du_popped, draws_run_du. Qed.
Lemma popped_map_draw (f : Z -> ev) l : (forall j, exists a b c d, f j = EDraw a b c d) -> popped (map f l) = [].
Proof. intros H. induction l as [|x l IH]; simpl; auto. destruct (H x) as (a & b & c & d & ->). auto. Qed.

Ltac count_nodup_t H :=
  let x := fresh "x" in
  apply (NoDup_count_occ tag_eq_dec); intro x;
  rewrite (NoDup_count_occ tag_eq_dec) in H; specialize (H x);
  repeat rewrite count_occ_app in *; simpl in *; repeat rewrite count_occ_app in *;
  repeat match goal with |- context [tag_eq_dec ?a ?b] => destruct (tag_eq_dec a b) end;
  repeat match goal with H0 : context [tag_eq_dec ?a ?b] |- _ => destruct (tag_eq_dec a b) end; try lia.

Lemma tags_pois c sid p0 n nb : rowstags (pois_rows c sid p0 n nb) = map (fun i => (c, i)) (zrange n).
Proof. unfold rowstags, pois_rows. now rewrite map_map. Qed.
Lemma tags_brown c sid q0 n w : rowstags (brown_rows c sid q0 n w) = map (fun i => (c, i)) (zrange n).
Proof. unfold rowstags, brown_rows. now rewrite map_map. Qed.

Lemma step_invT st cur T o :
  op_ok cur o = true -> InvT st cur T ->
  InvT (fst (step st o)) (next_cur cur o) (T ++ popped (fst (snd (step st o)))).
Proof.
  intros Hok [Hnd Hb]. destruct o as [s|slot n nb d|src dst|slot fixed lvl ds]; simpl in Hok; try discriminate.
  - (* OPre *)
    simpl. rewrite popped_app. simpl. rewrite popped_map_draw by (intros; eauto). simpl. rewrite app_nil_r.
    unfold InvT, pendt. simpl. rewrite set_slot_same. simpl. rewrite tags_pois, tags_brown.
    assert (HT : NoDup T) by (eapply NoDup_app_l; eauto).
    assert (HbT : forall c r, In (c, r) T -> c < s_cid st) by (intros; eapply Hb; apply in_or_app; eauto).
    split.
    + apply NoDup_app_intro; auto.
      * apply NoDup_app_intro.
        -- apply NoDup_map_intro; [apply NoDup_zrange|]. intros a a' _ _ H; inversion H; auto.
        -- apply NoDup_map_intro; [apply NoDup_zrange|]. intros a a' _ _ H; inversion H; auto.
        -- intros x H1 H2. apply in_map_iff in H1, H2. destruct H1 as [i [<- _]]. destruct H2 as [j [H2 _]]. inversion H2. lia.
      * intros [c r] H1 H2. apply HbT in H1. rewrite in_app_iff in H2.
        destruct H2 as [H2|H2]; apply in_map_iff in H2; destruct H2 as [i [H2 _]]; inversion H2; lia.
    + intros c r H. simpl. rewrite !in_app_iff in H. destruct H as [H|[H|H]].
      * apply HbT in H. lia.
      * apply in_map_iff in H. destruct H as [i [H _]]. inversion H. lia.
      * apply in_map_iff in H. destruct H as [i [H _]]. inversion H. lia.
  - (* OCopy *)
    simpl. rewrite app_nil_r. unfold InvT in *. destruct cur as [c|]; simpl in *.
    + destruct (c =? src) eqn:E1.
      * apply Z.eqb_eq in E1. subst. unfold pendt. simpl. rewrite set_slot_same. auto.
      * destruct (c =? dst) eqn:E2.
        -- simpl. rewrite app_nil_r. split; [eapply NoDup_app_l; eauto|].
           intros a b H. eapply Hb. apply in_or_app; eauto.
        -- apply Z.eqb_neq in E2. unfold pendt. simpl. rewrite set_slot_other; auto.
    + auto.
  - destruct fixed.
    + destruct cur as [c|]; [|discriminate]. apply Z.eqb_eq in Hok. subst c.
      unfold pendt in Hnd, Hb. simpl.
      destruct (s_slot st slot) as [qb qp] eqn:Eslot. simpl in *.
      pose proof (popped_draws ds (s_gen st)) as Hpd.
      destruct (draws_run (s_gen st) ds) as [[e2 r2] g'] eqn:Ed. simpl in Hpd.
      destruct qp as [|rp restp]; destruct qb as [|rb restb]; simpl; repeat rewrite popped_app; rewrite Hpd; simpl;
        unfold InvT, pendt; simpl; rewrite set_slot_same; simpl; repeat rewrite app_nil_r;
        (split; [count_nodup_t Hnd | intros a b H; apply (Hb a b); repeat (rewrite in_app_iff in * ); simpl in *;
                                     repeat (rewrite in_app_iff in * ); tauto]).
    + simpl. pose proof (popped_draws ds (s_gen st)) as Hpd.
      destruct (draws_run (s_gen st) ds) as [[e2 r2] g'] eqn:Ed. simpl in *.
      rewrite popped_app, Hpd. simpl. rewrite app_nil_r.
      unfold InvT. assert (Hp : pendt (mkSt g' (s_cid st) (s_slot st)) cur = pendt st cur) by (destruct cur; reflexivity).
      rewrite Hp. split; auto.
Qed.

Lemma run_invT ops : forall st cur T, lin ops cur = true -> InvT st cur T -> NoDup (T ++ popped (events ops st)).
Proof.
  induction ops as [|o r IH]; intros st cur T Hl Hi.
  - unfold events. simpl. rewrite app_nil_r. destruct Hi as [H _]. eapply NoDup_app_l; eauto.
  - simpl in Hl. apply andb_prop in Hl. destruct Hl as [Hok Hl].
    rewrite events_cons, popped_app, app_assoc. eapply IH; eauto. apply step_invT; auto.
Qed.

(* ------------------------------------------------------------------ the variates compared by the coupling decisions *)
Lemma uses_app a b : uses (a ++ b) = uses a ++ uses b.
Proof. induction a as [|[] a IH]; simpl; auto. now rewrite IH. Qed.
Lemma uses_map_use l : uses (map EUse l) = l.
Proof. induction l; simpl; auto. now rewrite IHl. Qed.
Lemma uses_map_draw (f : Z -> ev) l : (forall j, exists a b c d, f j = EDraw a b c d) -> uses (map f l) = [].
Proof. intros H. induction l as [|x l IH]; simpl; auto. destruct (H x) as (a & b & c & d & ->). auto. Qed.
Lemma uses_pop q : uses (fst (fst (pop q))) = [].
Proof. destruct q; reflexivity. Qed.

Lemma Fresh_adv_nil py k g : Fresh g (advance py k g) [].
Proof.
  unfold Fresh. split; [apply sid_advance|]. split; [apply np_advance|]. split; [apply py_advance|].
  split; [constructor|]. intros a b c [].
Qed.

Lemma draws_run_uses ds : forall g es ps g', draws_run g ds = (es, ps, g') -> Fresh g g' (uses es).
Proof.
  induction ds as [|[[py k] dec] r IH]; simpl; intros g es ps g' H.
  - inversion H; subst. apply Fresh_refl.
  - destruct (draws_run (advance py k g) r) as [[es1 ps1] g1] eqn:E. inversion H; subst.
    apply IH in E. simpl. rewrite uses_app.
    eapply Fresh_trans; [|exact E].
    destruct dec; simpl; [rewrite uses_map_use; apply Fresh_block|apply Fresh_adv_nil].
Qed.

Definition InvU (st : state) (U : list pos) : Prop := NoDup U /\ Bnd (s_gen st) U.

Lemma step_invU st cur U o :
  op_ok cur o = true -> InvU st U -> InvU (fst (step st o)) (U ++ uses (fst (snd (step st o)))).
Proof.
  intros Hok [Hnd Hb]. destruct o as [s|slot n nb d|src dst|slot fixed lvl ds]; simpl in Hok; try discriminate.
  - simpl. rewrite uses_app. simpl. rewrite uses_map_draw by (intros; eauto). simpl.
    unfold InvU. simpl. apply (fresh_ext (s_gen st)); [exact Hb|exact Hnd|exact (Fresh_adv_nil false _ (s_gen st))].
  - simpl. rewrite app_nil_r. split; auto.
  - destruct fixed; simpl.
    + pose proof (uses_pop (q_pois (s_slot st slot))) as H1. pose proof (uses_pop (q_brown (s_slot st slot))) as H3.
      destruct (pop (q_pois (s_slot st slot))) as [[e1 r1] qp].
      destruct (draws_run (s_gen st) ds) as [[e2 r2] g'] eqn:Ed.
      destruct (pop (q_brown (s_slot st slot))) as [[e3 r3] qb]. simpl in *.
      rewrite !uses_app, H1, H3. simpl. rewrite app_nil_r.
      unfold InvU. simpl. apply (fresh_ext (s_gen st)); [exact Hb|exact Hnd|eapply draws_run_uses; eauto].
    + destruct (draws_run (s_gen st) ds) as [[e2 r2] g'] eqn:Ed. simpl.
      rewrite uses_app. simpl. rewrite app_nil_r.
      unfold InvU. simpl. apply (fresh_ext (s_gen st)); [exact Hb|exact Hnd|eapply draws_run_uses; eauto].
Qed.

Lemma run_invU ops : forall st cur U, lin ops cur = true -> InvU st U -> NoDup (U ++ uses (events ops st)).
Proof.
  induction ops as [|o r IH]; intros st cur U Hl Hi.
  - unfold events. simpl. rewrite app_nil_r. apply Hi.
  - simpl in Hl. apply andb_prop in Hl. destruct Hl as [Hok Hl].
    rewrite events_cons, uses_app, app_assoc. eapply IH; eauto. eapply step_invU; eauto.
Qed.

(* no seed instruction => no seed event *)
Lemma seeds_app a b : seeds (a ++ b) = seeds a ++ seeds b.
Proof. induction a as [|[] a IH]; simpl; auto. now rewrite IH. Qed.
Lemma du_seeds es : forallb du es = true -> seeds es = [].
Proof. induction es as [|[] es IH]; simpl; intros H; try discriminate; auto. Qed.
Lemma seeds_draws ds g : seeds (fst (fst (draws_run g ds))) = [].
Proof. apply du_seeds, draws_run_du. Qed.
Lemma seeds_map_draw (f : Z -> ev) l : (forall j, exists a b c d, f j = EDraw a b c d) -> seeds (map f l) = [].
Proof. intros H. induction l as [|x l IH]; simpl; auto. destruct (H x) as (a & b & c & d & ->). auto. Qed.
Lemma seeds_pop q : seeds (fst (fst (pop q))) = [].
Proof. destruct q; reflexivity. Qed.

Lemma lin_no_seed ops : forall st cur, lin ops cur = true -> seeds (events ops st) = [].
Proof.
  induction ops as [|o r IH]; intros st cur Hl; [reflexivity|].
  simpl in Hl. apply andb_prop in Hl. destruct Hl as [Hok Hl].
  rewrite events_cons, seeds_app. rewrite (IH _ _ Hl). rewrite app_nil_r.
  destruct o as [s|slot n nb d|src dst|slot fixed lvl ds]; simpl in Hok; try discriminate; simpl.
  - rewrite seeds_app. simpl. rewrite app_nil_r. apply seeds_map_draw. intros; eauto.
  - reflexivity.
  - destruct fixed.
    + pose proof (seeds_draws ds (s_gen st)) as Hd.
      destruct (pop (q_pois (s_slot st slot))) as [[e1 r1] qp] eqn:E1.
      destruct (draws_run (s_gen st) ds) as [[e2 r2] g'] eqn:E2.
      destruct (pop (q_brown (s_slot st slot))) as [[e3 r3] qb] eqn:E3. simpl in *.
      pose proof (seeds_pop (q_pois (s_slot st slot))) as H1. rewrite E1 in H1.
      pose proof (seeds_pop (q_brown (s_slot st slot))) as H3. rewrite E3 in H3. simpl in *.
      repeat rewrite seeds_app. rewrite H1, Hd, H3. reflexivity.
    + pose proof (seeds_draws ds (s_gen st)) as Hd.
      destruct (draws_run (s_gen st) ds) as [[e2 r2] g'] eqn:E2. simpl in *.
      rewrite seeds_app, Hd. reflexivity.
Qed.

(* ------------------------------------------------------------------ engines obey the discipline *)
Definition sc (ops : list op) : Prop := forall cur, lin ops cur = true.

Lemma lin_app a : forall b cur, lin a cur = true -> (forall cur', lin b cur' = true) -> lin (a ++ b) cur = true.
Proof.
  induction a as [|o a IH]; intros b cur Ha Hb; simpl; auto.
  simpl in Ha. apply andb_prop in Ha. destruct Ha as [H1 H2]. rewrite H1. simpl. apply IH; auto.
Qed.
Lemma sc_app a b : sc a -> sc b -> sc (a ++ b).
Proof. intros Ha Hb cur. apply lin_app; auto. Qed.
Lemma sc_nil : sc [].
Proof. intro; reflexivity. Qed.
Lemma sc_cons_copy src dst r : sc r -> sc (OCopy src dst :: r).
Proof. intros H cur. simpl. apply H. Qed.

Lemma lin_samples_fixed slot lvl ss : forall r, lin (map (fun d => OSample slot true lvl d) ss ++ r) (Some slot) = lin r (Some slot).
Proof. induction ss as [|d ss IH]; intros r; simpl; auto. rewrite Z.eqb_refl. simpl. apply IH. Qed.
Lemma lin_samples_free slot lvl ss : forall r cur, lin (map (fun d => OSample slot false lvl d) ss ++ r) cur = lin r cur.
Proof. induction ss as [|d ss IH]; intros r cur; simpl; auto. Qed.

Lemma sc_pre m s n : sc (pre m s n).
Proof. unfold pre. destruct (m_fixed m); intro cur; reflexivity. Qed.

Lemma sc_level m s n lvl ss r : sc r -> sc (pre m s n ++ samples_ops m s lvl ss ++ r).
Proof.
  intros Hr cur. unfold pre, samples_ops. destruct (m_fixed m); simpl.
  - rewrite lin_samples_fixed. apply Hr.
  - rewrite lin_samples_free. apply Hr.
Qed.

Lemma sc_std_body m ss : sc (pre m 0 (len ss) ++ samples_ops m 0 (-1) ss).
Proof. rewrite <- (app_nil_r (samples_ops m 0 (-1) ss)). apply sc_level, sc_nil. Qed.

Lemma sc_mlc_levels m n0 levels : forall lvl, sc (mlc_levels m n0 lvl levels).
Proof. induction levels as [|ss r IH]; intros lvl; simpl; [apply sc_nil|]. apply sc_level, IH. Qed.

Lemma sc_mlc_body m n0 levels : sc (mlc_body m n0 levels).
Proof.
  intro cur. unfold mlc_body, pre, samples_ops. destruct levels as [|ss r].
  - destruct (m_fixed m); reflexivity.
  - destruct (m_fixed m) eqn:E; simpl.
    + rewrite lin_samples_fixed. apply sc_mlc_levels.
    + rewrite lin_samples_free. apply sc_mlc_levels.
Qed.

Lemma sc_mlp_levels m levels : forall cr lvl r, sc r -> sc (fst (mlp_levels m cr lvl levels) ++ r).
Proof.
  induction levels as [|ss rest IH]; intros cr lvl r Hr; simpl; auto.
  destruct (mlp_levels m (if cr <=? lvl then cr + 1 else cr) (lvl + 1) rest) as [body crf] eqn:E. simpl.
  specialize (IH (if cr <=? lvl then cr + 1 else cr) (lvl + 1) r Hr). rewrite E in IH. simpl in IH.
  repeat rewrite <- app_assoc.
  destruct (cr <=? lvl).
  - simpl. apply sc_cons_copy. apply sc_app; [apply sc_pre|]. apply sc_level. exact IH.
  - simpl. apply sc_level. exact IH.
Qed.

Lemma sc_mlp_passes m ps : forall cr, sc (mlp_passes m cr ps).
Proof.
  induction ps as [|p r IH]; intros cr; simpl; [apply sc_nil|].
  pose proof (sc_mlp_levels m (p_levels p) cr 0) as H.
  destruct (mlp_levels m cr 0 (p_levels p)) as [body cr1]. simpl in H.
  destruct (p_add p) as [mm|].
  - apply H. apply sc_cons_copy. apply sc_app; [apply sc_pre|apply IH].
  - apply H. apply IH.
Qed.

Lemma sc_mlp_body m n0 ps : sc (mlp_body m n0 ps).
Proof. unfold mlp_body. apply sc_app; [apply sc_pre|]. apply sc_cons_copy, sc_mlp_passes. Qed.

(* ------------------------------------------------------------------ a run that seeds first and never again *)
Definition after_seed (s : Z) : state := mkSt (mkGen s 0 0) 1 (fun _ => empty_proc).

Lemma events_seed_first s body g : events (OSeed s :: body) (init g) = ESeed s :: events body (after_seed s).
Proof. rewrite events_cons. reflexivity. Qed.
Lemma samples_seed_first s body g : samples (OSeed s :: body) (init g) = samples body (after_seed s).
Proof. rewrite samples_cons. reflexivity. Qed.
Lemma consumed_seed_first s body g : consumed (OSeed s :: body) (init g) = consumed body (after_seed s).
Proof. unfold consumed. now rewrite samples_seed_first. Qed.
Lemma final_seed_first s body g : final (OSeed s :: body) (init g) = final body (after_seed s).
Proof. rewrite final_cons. reflexivity. Qed.

Definition disciplined (ops : list op) (st : state) (s : Z) : Prop :=
  NoDup (consumed ops st)
  /\ NoDup (popped (events ops st))
  /\ (exists rest, events ops st = ESeed s :: rest /\ seeds rest = [])
  /\ reseed_free (events ops st)
  /\ NoDup (uses (events ops st)).

Lemma seeds_in es s : In (ESeed s) es -> In s (seeds es).
Proof. induction es as [|[] es IH]; simpl; intros H; try tauto; destruct H as [H|H]; try discriminate; auto. inversion H; auto. Qed.

Lemma seed_first_disciplined s body g : sc body -> disciplined (OSeed s :: body) (init g) s.
Proof.
  intros Hsc. unfold disciplined. rewrite consumed_seed_first, events_seed_first. simpl.
  assert (Hs : seeds (events body (after_seed s)) = []) by (eapply lin_no_seed; apply (Hsc None)).
  repeat split.
  - apply (run_inv body (after_seed s) None []); [apply Hsc|]. split; simpl; [constructor|]. intros py sd i [].
  - apply (run_invT body (after_seed s) None []); [apply Hsc|]. split; simpl; [constructor|]. intros c r [].
  - eexists; split; [reflexivity|assumption].
  - intros pre0 s' post Heq p Hp. destruct pre0 as [|e pre0].
    + simpl in Hp. tauto.
    + simpl in Heq. inversion Heq; subst.
      assert (In (ESeed s') (events body (after_seed s))) by (rewrite H1; apply in_or_app; right; left; auto).
      apply seeds_in in H. rewrite Hs in H. destruct H.
  - apply (run_invU body (after_seed s) None []); [apply Hsc|]. split; simpl; [constructor|]. intros py sd i [].
Qed.

Theorem single_process_disjoint : forall seed t m g,
  (forall ss, disciplined (std_ops seed t m ss) (init g) (seed_choice seed false t))
  /\ (forall n0 levels, disciplined (mlc_ops seed t m n0 levels) (init g) (seed_choice seed false t))
  /\ (forall n0 passes, disciplined (mlp_ops seed t m n0 passes) (init g) (seed_choice seed false t)).
Proof.
  intros. split; [|split]; intros; apply seed_first_disciplined.
  - apply sc_std_body.
  - apply sc_mlc_body.
  - apply sc_mlp_body.
Qed.

(* pairwise form: two different samples of a run share no position *)
Lemma nodup_flat_pairwise (l1 l2 l3 : list sample) a b p :
  NoDup (flat_map snd (l1 ++ a :: l2 ++ b :: l3)) -> In p (snd a) -> ~ In p (snd b).
Proof.
  intros H Ha Hb. rewrite flat_map_app in H. apply NoDup_app_r in H. simpl in H.
  apply (NoDup_app_disj _ _ p) in H; auto. apply H. rewrite flat_map_app. apply in_or_app. right. simpl. apply in_or_app. auto.
Qed.

Theorem samples_pairwise_disjoint : forall ops st s, disciplined ops st s ->
  forall l1 a l2 b l3 p, samples ops st = l1 ++ a :: l2 ++ b :: l3 -> In p (snd a) -> ~ In p (snd b).
Proof.
  intros ops st s [H _] l1 a l2 b l3 p Heq. unfold consumed in H. rewrite Heq in H. eapply nodup_flat_pairwise; eauto.
Qed.

(* ------------------------------------------------------------------ rows are consumed exactly once *)
Lemma underflows_app a b : underflows (a ++ b) = (underflows a + underflows b)%nat.
Proof. induction a as [|[] a IH]; simpl; auto; try (now rewrite IH). Qed.
Lemma created_app a b : created (a ++ b) = created a ++ created b.
Proof. induction a as [|[] a IH]; simpl; auto; try (now rewrite IH, app_assoc). Qed.
Lemma du_underflows es : forallb du es = true -> underflows es = O.
Proof. induction es as [|[] es IH]; simpl; intros H; try discriminate; auto. Qed.
Lemma du_created es : forallb du es = true -> created es = [].
Proof. induction es as [|[] es IH]; simpl; intros H; try discriminate; auto. Qed.
Lemma underflows_draws ds g : underflows (fst (fst (draws_run g ds))) = O.
Proof. apply du_underflows, draws_run_du. Qed.
Lemma created_draws ds g : created (fst (fst (draws_run g ds))) = [].
Proof. apply du_created, draws_run_du. Qed.
Lemma underflows_map_draw (f : Z -> ev) l : (forall j, exists a b c d, f j = EDraw a b c d) -> underflows (map f l) = O.
Proof. intros H. induction l as [|x l IH]; simpl; auto. destruct (H x) as (a & b & c & d & ->). auto. Qed.
Lemma created_map_draw (f : Z -> ev) l : (forall j, exists a b c d, f j = EDraw a b c d) -> created (map f l) = [].
Proof. intros H. induction l as [|x l IH]; simpl; auto. destruct (H x) as (a & b & c & d & ->). auto. Qed.

Lemma run_app a : forall b st,
  events (a ++ b) st = events a st ++ events b (final a st)
  /\ samples (a ++ b) st = samples a st ++ samples b (final a st)
  /\ final (a ++ b) st = final b (final a st).
Proof.
  induction a as [|o a IH]; intros b st.
  - unfold events, samples, final. simpl. auto.
  - simpl app. rewrite !events_cons, !samples_cons, !final_cons.
    destruct (IH b (fst (step st o))) as (H1 & H2 & H3). rewrite H1, H2, H3. now rewrite !app_assoc.
Qed.
Lemma events_app a b st : events (a ++ b) st = events a st ++ events b (final a st).
Proof. apply run_app. Qed.
Lemma final_app a b st : final (a ++ b) st = final b (final a st).
Proof. apply run_app. Qed.

Definition blk_ok (es : list ev) : Prop := underflows es = O /\ forall t, In t (created es) <-> In t (popped es).
Lemma blk_ok_app a b : blk_ok a -> blk_ok b -> blk_ok (a ++ b).
Proof.
  intros [U1 C1] [U2 C2]. split.
  - rewrite underflows_app. lia.
  - intro t. rewrite created_app, popped_app, !in_app_iff, C1, C2. tauto.
Qed.
Lemma blk_ok_nil : blk_ok [].
Proof. split; simpl; tauto. Qed.

(* n fixed-date samples on a slot whose two deques hold n rows each *)
Lemma samples_fixed_block slot lvl ss : forall st qb qp,
  s_slot st slot = mkProc qb qp -> length qb = length ss -> length qp = length ss ->
  let ops := map (fun d => OSample slot true lvl d) ss in
  underflows (events ops st) = O /\ created (events ops st) = []
  /\ (forall t, In t (popped (events ops st)) <-> In t (rowstags qp) \/ In t (rowstags qb))
  /\ s_slot (final ops st) slot = mkProc [] []
  /\ s_cid (final ops st) = s_cid st.
Proof.
  induction ss as [|d ss IH]; intros st qb qp Hs Lb Lp; simpl.
  - destruct qb; [|discriminate]. destruct qp; [|discriminate]. unfold events, final. simpl. repeat split; auto; tauto.
  - destruct qb as [|rb restb]; [discriminate|]. destruct qp as [|rp restp]; [discriminate|].
    rewrite events_cons, final_cons. simpl. rewrite Hs. simpl.
    pose proof (underflows_draws d (s_gen st)) as Hu. pose proof (created_draws d (s_gen st)) as Hc.
    pose proof (popped_draws d (s_gen st)) as Hp.
    destruct (draws_run (s_gen st) d) as [[e2 r2] g'] eqn:Ed. simpl in *.
    set (st' := mkSt g' (s_cid st) (set_slot (s_slot st) slot (mkProc restb restp))).
    destruct (IH st' restb restp) as (I1 & I2 & I3 & I4 & I5); try (simpl in *; lia).
    { unfold st'. simpl. apply set_slot_same. }
    repeat split.
    + rewrite !underflows_app. simpl. rewrite Hu, I1. reflexivity.
    + rewrite !created_app. simpl. rewrite Hc, I2. reflexivity.
    + rewrite !popped_app. simpl. rewrite Hp. simpl. intros [H|[H|H]]; auto. apply I3 in H. tauto.
    + rewrite !popped_app. simpl. rewrite Hp. simpl. intros [[H|H]|[H|H]]; auto.
      * right; right. apply I3. auto.
      * right; right. apply I3. auto.
    + exact I4.
    + rewrite I5. reflexivity.
Qed.

Lemma length_brown_rows c sid q0 n w : length (brown_rows c sid q0 n w) = Z.to_nat n.
Proof. unfold brown_rows. now rewrite map_length, length_zrange. Qed.
Lemma length_pois_rows c sid p0 n nb : length (pois_rows c sid p0 n nb) = Z.to_nat n.
Proof. unfold pois_rows. now rewrite map_length, length_zrange. Qed.

Lemma len_max {A} (l : list A) : Z.to_nat (Z.max 0 (len l)) = length l.
Proof. unfold len. lia. Qed.

(* pre_computation(n) followed by n samples on the same slot *)
Lemma level_block_ok slot nb d lvl ss n st :
  len ss = n ->
  let ops := OPre slot n nb d :: map (fun dr => OSample slot true lvl dr) ss in
  blk_ok (events ops st) /\ s_slot (final ops st) slot = mkProc [] [].
Proof.
  intros Hn ops. unfold ops. rewrite events_cons, final_cons. subst n.
  set (st' := fst (step st (OPre slot (len ss) nb d))).
  destruct (samples_fixed_block slot lvl ss st'
              (brown_rows (s_cid st) (g_sid (s_gen st)) (g_np (s_gen st) + Z.max 0 (len ss) * Z.max 0 nb) (Z.max 0 (len ss)) (Z.max 0 d * Z.max 0 nb))
              (pois_rows (s_cid st + 1) (g_sid (s_gen st)) (g_np (s_gen st)) (Z.max 0 (len ss)) (Z.max 0 nb)))
    as (I1 & I2 & I3 & I4 & I5).
  { unfold st'. simpl. apply set_slot_same. }
  { rewrite length_brown_rows. apply len_max. }
  { rewrite length_pois_rows. apply len_max. }
  split; [|exact I4]. split.
  - rewrite underflows_app. simpl. rewrite underflows_app. simpl.
    rewrite underflows_map_draw by (intros; eauto). rewrite I1. reflexivity.
  - intro t. rewrite created_app, popped_app. simpl. rewrite created_app, popped_app. simpl.
    rewrite created_map_draw, popped_map_draw by (intros; eauto). simpl. rewrite I2, !app_nil_r.
    rewrite I3, tags_pois, tags_brown, in_app_iff. tauto.
Qed.

Definition rows_exactly_once (ops : list op) (st : state) (slot : Z) : Prop :=
  underflows (events ops st) = O
  /\ (forall t, In t (created (events ops st)) <-> In t (popped (events ops st)))
  /\ NoDup (popped (events ops st))
  /\ s_slot (final ops st) slot = mkProc [] [].

Lemma mlc_levels_ok nb d n0 levels : forall lvl st,
  Forall (fun ss => len ss = n0) levels ->
  s_slot st 1 = mkProc [] [] ->
  blk_ok (events (mlc_levels (mkMode true nb d) n0 lvl levels) st)
  /\ s_slot (final (mlc_levels (mkMode true nb d) n0 lvl levels) st) 1 = mkProc [] [].
Proof.
  induction levels as [|ss r IH]; intros lvl st HF Hs; simpl.
  - unfold events, final. simpl. split; [apply blk_ok_nil|auto].
  - inversion HF; subst. unfold pre, samples_ops. simpl.
    change (OPre 1 (len ss) nb d :: map (fun d0 => OSample 1 true lvl d0) ss ++ mlc_levels (mkMode true nb d) (len ss) (lvl + 1) r)
      with ((OPre 1 (len ss) nb d :: map (fun d0 => OSample 1 true lvl d0) ss) ++ mlc_levels (mkMode true nb d) (len ss) (lvl + 1) r).
    rewrite events_app, final_app.
    destruct (level_block_ok 1 nb d lvl ss (len ss) st eq_refl) as [B1 F1].
    destruct (IH (lvl + 1) _ H2 F1) as [B2 F2].
    split; [apply blk_ok_app; auto|exact F2].
Qed.

Theorem rows_exactly_once_engines : forall seed t nb d g,
  (forall ss, rows_exactly_once (std_ops seed t (mkMode true nb d) ss) (init g) 0)
  /\ (forall levels n0, levels <> [] -> Forall (fun ss => len ss = n0) levels ->
        rows_exactly_once (mlc_ops seed t (mkMode true nb d) n0 levels) (init g) 1).
Proof.
  intros. split.
  - intros ss. destruct (single_process_disjoint seed t (mkMode true nb d) g) as [H _].
    destruct (H ss) as (_ & Hnd & _).
    unfold rows_exactly_once. unfold std_ops in *. rewrite events_seed_first in *. rewrite final_seed_first.
    unfold pre, samples_ops in *. simpl in *.
    destruct (level_block_ok 0 nb d (-1) ss (len ss) (after_seed (seed_choice seed false t)) eq_refl) as [[U C] F].
    repeat split; auto; apply C.
  - intros levels n0 Hne HF. destruct (single_process_disjoint seed t (mkMode true nb d) g) as [_ [H _]].
    destruct (H n0 levels) as (_ & Hnd & _).
    unfold rows_exactly_once. unfold mlc_ops in *. rewrite events_seed_first in *. rewrite final_seed_first.
    destruct levels as [|ss r]; [congruence|]. inversion HF as [|? ? Hlen HF']; subst.
    unfold mlc_body, pre, samples_ops in *. simpl in *.
    set (s0 := after_seed (seed_choice seed false t)) in *.
    (* head: OPre 0 n; OCopy 0 1; samples of level 0 on slot 1 *)
    rewrite events_cons, final_cons in *. rewrite events_cons, final_cons in *.
    set (st1 := fst (step s0 (OPre 0 (len ss) nb d))) in *.
    set (st2 := fst (step st1 (OCopy 0 1))) in *.
    rewrite events_app, final_app in *.
    destruct (samples_fixed_block 1 0 ss st2
                (brown_rows (s_cid s0) (g_sid (s_gen s0)) (g_np (s_gen s0) + Z.max 0 (len ss) * Z.max 0 nb) (Z.max 0 (len ss)) (Z.max 0 d * Z.max 0 nb))
                (pois_rows (s_cid s0 + 1) (g_sid (s_gen s0)) (g_np (s_gen s0)) (Z.max 0 (len ss)) (Z.max 0 nb)))
      as (I1 & I2 & I3 & I4 & I5).
    { unfold st2, st1. simpl. rewrite set_slot_same. rewrite set_slot_same. reflexivity. }
    { rewrite length_brown_rows. apply len_max. }
    { rewrite length_pois_rows. apply len_max. }
    destruct (mlc_levels_ok nb d (len ss) r 1 _ HF' I4) as [[U2 C2] F2].
    rewrite tags_pois, tags_brown in I3. simpl in I3.
    repeat split; auto.
    + simpl. rewrite !underflows_app. simpl. rewrite underflows_map_draw by (intros; eauto). rewrite I1, U2. reflexivity.
    + simpl. rewrite !created_app, !popped_app. simpl. rewrite created_map_draw, popped_map_draw by (intros; eauto).
      simpl. rewrite I2. simpl. rewrite !in_app_iff. rewrite I3, <- C2. simpl. tauto.
    + simpl. rewrite !created_app, !popped_app. simpl. rewrite created_map_draw, popped_map_draw by (intros; eauto).
      simpl. rewrite I2. simpl. rewrite !in_app_iff. rewrite I3, <- C2. simpl. tauto.
Qed.

(* ------------------------------------------------------------------ worker pool, jump-time mode *)
Lemma samples_free_fresh slot lvl ss : forall st,
  let ops := map (fun d => OSample slot false lvl d) ss in
  Fresh (s_gen st) (s_gen (final ops st)) (consumed ops st).
Proof.
  induction ss as [|d ss IH]; intros st; simpl.
  - unfold final, consumed, samples. simpl. apply Fresh_refl.
  - rewrite final_cons, consumed_cons. simpl.
    destruct (draws_run (s_gen st) d) as [[e2 r2] g'] eqn:Ed. simpl. rewrite app_nil_r.
    eapply Fresh_trans; [eapply draws_run_fresh; eauto|].
    apply (IH (mkSt g' (s_cid st) (s_slot st))).
Qed.

Lemma nth_set_nth_same {A} (l : list A) : forall i x d, (i < length l)%nat -> nth i (set_nth l i x) d = x.
Proof. induction l as [|y l IH]; intros [|i] x d H; simpl in *; try lia; auto. apply IH. lia. Qed.
Lemma nth_set_nth_other {A} (l : list A) : forall i j x d, i <> j -> nth j (set_nth l i x) d = nth j l d.
Proof. induction l as [|y l IH]; intros [|i] [|j] x d H; simpl; auto; try congruence. Qed.
Lemma length_set_nth {A} (l : list A) : forall i x, length (set_nth l i x) = length l.
Proof. induction l as [|y l IH]; intros [|i] x; simpl; auto. Qed.

Definition PoolInv (wseeds : list Z) (gens : list gen) (C : list pos) : Prop :=
  length gens = length wseeds
  /\ (forall w, (w < length wseeds)%nat -> g_sid (nth w gens (mkGen 0 0 0)) = nth w wseeds 0)
  /\ NoDup C
  /\ (forall py sd i, In (py, sd, i) C ->
        exists w, (w < length wseeds)%nat /\ sd = nth w wseeds 0 /\ i < ctr py (nth w gens (mkGen 0 0 0))).

Lemma pool_chunks_jump nb d parent wseeds chunks : forall gens logs C,
  NoDup wseeds -> Forall (fun c : nat * list sched => (fst c < length wseeds)%nat) chunks ->
  PoolInv wseeds gens C ->
  NoDup (C ++ flat_map snd (snd (pool_chunks (mkMode false nb d) parent gens logs chunks))).
Proof.
  induction chunks as [|[w ss] r IH]; intros gens logs C Hws HF (HL & HS & HN & HB); simpl.
  - now rewrite app_nil_r.
  - inversion HF as [|? ? Hw HF']; subst. simpl in Hw.
    unfold samples_ops. simpl.
    set (g := nth w gens (mkGen 0 0 0)).
    set (st := mkSt g (s_cid parent) (s_slot parent)).
    pose proof (samples_free_fresh 0 (-1) ss st) as Hf. simpl in Hf.
    unfold consumed, samples, final in Hf.
    destruct (run (map (fun d0 => OSample 0 false (-1) d0) ss) st) as [[es sm] stf] eqn:Er. simpl in Hf.
    specialize (IH (set_nth gens w (s_gen stf)) (set_nth logs w (nth w logs [] ++ es)) (C ++ flat_map snd sm) Hws HF').
    destruct (pool_chunks (mkMode false nb d) parent (set_nth gens w (s_gen stf)) (set_nth logs w (nth w logs [] ++ es)) r) as [logs' sms] eqn:Ep.
    simpl in *. rewrite flat_map_app, app_assoc. apply IH.
    destruct Hf as (F1 & F2 & F3 & F4 & F5).
    assert (Hmono : forall py, ctr py g <= ctr py (s_gen stf)) by (destruct py; simpl; lia).
    repeat split.
    + rewrite length_set_nth. exact HL.
    + intros w' Hw'. destruct (Nat.eq_dec w w') as [->|Hne].
      * rewrite nth_set_nth_same by lia. rewrite F1. apply HS. exact Hw'.
      * rewrite nth_set_nth_other by exact Hne. apply HS. exact Hw'.
    + apply NoDup_app_intro; auto. intros [[py sd] i] H1 H2.
      destruct (HB _ _ _ H1) as (w' & Hw' & Hsd & Hi). destruct (F5 _ _ _ H2) as [Hsd2 Hi2].
      assert (w' = w).
      { apply (proj1 (NoDup_nth wseeds 0) Hws); auto. rewrite <- Hsd, Hsd2. unfold g. apply HS. exact Hw. }
      subst w'. fold g in Hi. lia.
    + intros py sd i H. rewrite in_app_iff in H. destruct H as [H|H].
      * destruct (HB _ _ _ H) as (w' & Hw' & Hsd & Hi). exists w'. repeat split; auto.
        destruct (Nat.eq_dec w w') as [->|Hne].
        -- rewrite nth_set_nth_same by lia. fold g in Hi. specialize (Hmono py). lia.
        -- rewrite nth_set_nth_other by exact Hne. exact Hi.
      * destruct (F5 _ _ _ H) as [Hsd Hi]. exists w. repeat split; auto.
        -- rewrite Hsd. unfold g. apply HS. exact Hw.
        -- rewrite nth_set_nth_same by lia. lia.
Qed.

Theorem pool_jump_mode_disjoint : forall g0 nb d n wseeds chunks,
  NoDup wseeds -> Forall (fun c : nat * list sched => (fst c < length wseeds)%nat) chunks ->
  NoDup (flat_map snd (snd (pool_run g0 (mkMode false nb d) n wseeds chunks))).
Proof.
  intros g0 nb d n wseeds chunks Hws HF. unfold pool_run, pre. simpl.
  pose proof (pool_chunks_jump nb d (init g0) wseeds chunks (map (fun s => mkGen s 0 0) wseeds)
                (map (fun s => [ESeed s]) wseeds) [] Hws HF) as H.
  destruct (pool_chunks (mkMode false nb d) (init g0) (map (fun s => mkGen s 0 0) wseeds) (map (fun s => [ESeed s]) wseeds) chunks)
    as [logs sms]. simpl in *. apply H.
  repeat split.
  - apply map_length.
  - intros w Hw. change (mkGen 0 0 0) with ((fun s => mkGen s 0 0) 0). rewrite map_nth. reflexivity.
  - constructor.
  - intros py sd i [].
Qed.

(* ------------------------------------------------------------------ seeded runs repeat *)
Theorem seeded_repeatable : forall s t m g1 g2,
  (forall ss, events (std_ops (Some s) t m ss) (init g1) = events (std_ops (Some s) t m ss) (init g2)
              /\ samples (std_ops (Some s) t m ss) (init g1) = samples (std_ops (Some s) t m ss) (init g2))
  /\ (forall n0 lv, events (mlc_ops (Some s) t m n0 lv) (init g1) = events (mlc_ops (Some s) t m n0 lv) (init g2)
              /\ samples (mlc_ops (Some s) t m n0 lv) (init g1) = samples (mlc_ops (Some s) t m n0 lv) (init g2))
  /\ (forall n0 ps, events (mlp_ops (Some s) t m n0 ps) (init g1) = events (mlp_ops (Some s) t m n0 ps) (init g2)
              /\ samples (mlp_ops (Some s) t m n0 ps) (init g1) = samples (mlp_ops (Some s) t m n0 ps) (init g2)).
Proof.
  intros. unfold std_ops, mlc_ops, mlp_ops. simpl seed_choice.
  split; [|split]; intros; split; rewrite ?events_seed_first, ?samples_seed_first; reflexivity.
Qed.

(* ------------------------------------------------------------------ a run does not depend on the state it starts in
   Rel cur a b: same generators, same creation counter, same deques in the current slot (if any).  The discipline `lin`
   (a fixed-date sample pops only from the slot whose deques the run itself created, or copied from such a slot) is what
   makes the rows a previous pricing left in the process object irrelevant. *)
Definition Rel (cur : option Z) (a b : state) : Prop :=
  s_gen a = s_gen b /\ s_cid a = s_cid b /\ forall c, cur = Some c -> s_slot a c = s_slot b c.

Lemma step_rel st1 st2 cur o : op_ok cur o = true -> Rel cur st1 st2 ->
  snd (step st1 o) = snd (step st2 o) /\ Rel (next_cur cur o) (fst (step st1 o)) (fst (step st2 o)).
Proof.
  intros Hok (Hg & Hc & Hs). destruct st1 as [g1 c1 f1], st2 as [g2 c2 f2]. simpl in Hg, Hc, Hs. subst g2 c2.
  destruct o as [s|slot n nb d|src dst|slot fixed lvl ds]; simpl in Hok; try discriminate.
  - simpl. split; [reflexivity|]. repeat split; simpl; auto. intros c E. inversion E; subst. now rewrite !set_slot_same.
  - simpl. split; [reflexivity|]. repeat split; simpl; auto. intros c E. destruct cur as [c0|]; [|discriminate].
    destruct (c0 =? src) eqn:E1.
    + inversion E; subst. apply Z.eqb_eq in E1. subst. rewrite !set_slot_same. apply Hs; auto.
    + destruct (c0 =? dst) eqn:E2; [discriminate|]. inversion E; subst. apply Z.eqb_neq in E2.
      rewrite !set_slot_other by auto. apply Hs; auto.
  - destruct fixed.
    + destruct cur as [c0|]; [|discriminate]. apply Z.eqb_eq in Hok. subst c0.
      simpl. rewrite <- (Hs slot eq_refl).
      destruct (pop (q_pois (f1 slot))) as [[e1 r1] qp]. destruct (draws_run g1 ds) as [[e2 r2] g'].
      destruct (pop (q_brown (f1 slot))) as [[e3 r3] qb]. simpl. split; [reflexivity|].
      repeat split; simpl; auto. intros c E. inversion E; subst. now rewrite !set_slot_same.
    + simpl. destruct (draws_run g1 ds) as [[e2 r2] g']. simpl. split; [reflexivity|]. repeat split; simpl; auto.
Qed.

Lemma run_rel ops : forall st1 st2 cur, lin ops cur = true -> Rel cur st1 st2 ->
  events ops st1 = events ops st2 /\ samples ops st1 = samples ops st2.
Proof.
  induction ops as [|o r IH]; intros st1 st2 cur Hl HR; [split; reflexivity|].
  simpl in Hl. apply andb_prop in Hl. destruct Hl as [Hok Hl].
  destruct (step_rel st1 st2 cur o Hok HR) as [E HR'].
  destruct (IH _ _ _ Hl HR') as [E1 E2].
  rewrite !events_cons, !samples_cons, E, E1, E2. split; reflexivity.
Qed.

(* a run that seeds first and then obeys the discipline: same events and samples from ANY two states -- any generator
   states and any contents of the deques (same creation counter: the tracer numbers the deques from the start of the run) *)
Theorem seeded_run_forgets_state : forall s body, sc body -> forall g1 g2 c f1 f2,
  events (OSeed s :: body) (mkSt g1 c f1) = events (OSeed s :: body) (mkSt g2 c f2)
  /\ samples (OSeed s :: body) (mkSt g1 c f1) = samples (OSeed s :: body) (mkSt g2 c f2).
Proof.
  intros s body Hsc g1 g2 c f1 f2. rewrite !events_cons, !samples_cons. simpl.
  destruct (run_rel body (mkSt (mkGen s 0 0) c f1) (mkSt (mkGen s 0 0) c f2) None (Hsc None)) as [E1 E2].
  { repeat split; auto. intros c0 E. discriminate. }
  rewrite E1, E2. split; reflexivity.
Qed.

Theorem engines_forget_state : forall s t m g1 g2 c f1 f2,
  (forall ss, events (std_ops (Some s) t m ss) (mkSt g1 c f1) = events (std_ops (Some s) t m ss) (mkSt g2 c f2)
              /\ samples (std_ops (Some s) t m ss) (mkSt g1 c f1) = samples (std_ops (Some s) t m ss) (mkSt g2 c f2))
  /\ (forall n0 lv, events (mlc_ops (Some s) t m n0 lv) (mkSt g1 c f1) = events (mlc_ops (Some s) t m n0 lv) (mkSt g2 c f2)
              /\ samples (mlc_ops (Some s) t m n0 lv) (mkSt g1 c f1) = samples (mlc_ops (Some s) t m n0 lv) (mkSt g2 c f2))
  /\ (forall n0 ps, events (mlp_ops (Some s) t m n0 ps) (mkSt g1 c f1) = events (mlp_ops (Some s) t m n0 ps) (mkSt g2 c f2)
              /\ samples (mlp_ops (Some s) t m n0 ps) (mkSt g1 c f1) = samples (mlp_ops (Some s) t m n0 ps) (mkSt g2 c f2)).
Proof.
  intros. unfold std_ops, mlc_ops, mlp_ops. simpl seed_choice.
  split; [|split]; intros; apply seeded_run_forgets_state.
  - apply sc_std_body.
  - apply sc_mlc_body.
  - apply sc_mlp_body.
Qed.

(* the discipline is needed: an "engine" that samples in fixed-date mode without a pre_computation of its own pops
   whatever rows were left behind, and its trace depends on them *)
Theorem leftover_rows_matter_refuted :
  exists s ops g c f1 f2, events (OSeed s :: ops) (mkSt g c f1) <> events (OSeed s :: ops) (mkSt g c f2).
Proof.
  exists 7, [OSample 0 true (-1) []], (mkGen (-1) 0 0), 1,
         (fun _ => empty_proc), (fun _ => mkProc [((0, 0), [(false, 3, 5)])] [((0, 0), [(false, 3, 4)])]).
  vm_compute. discriminate.
Qed.

(* adaptive run that obeys the discipline: an instruction violating it stops the run *)
Fixpoint garun (fuel : nat) (D : list op -> list ev -> option op) (st : state) (oh : list op) (hist : list ev) (cur : option Z)
  : list op * list ev * list sample :=
  match fuel with
  | O => (oh, hist, [])
  | S f =>
      match D oh hist with
      | None => (oh, hist, [])
      | Some o =>
          if op_ok cur o then
            let '(st', (e, s)) := step st o in
            let '(ops, h, ss) := garun f D st' (oh ++ [o]) (hist ++ e) (next_cur cur o) in
            (ops, h, s ++ ss)
          else (oh, hist, [])
      end
  end.

Lemma garun_rel fuel D : forall st1 st2 oh hist cur, Rel cur st1 st2 ->
  garun fuel D st1 oh hist cur = garun fuel D st2 oh hist cur.
Proof.
  induction fuel as [|f IH]; intros st1 st2 oh hist cur HR; simpl; [reflexivity|].
  destruct (D oh hist) as [o|]; [|reflexivity].
  destruct (op_ok cur o) eqn:Hok; [|reflexivity].
  destruct (step_rel st1 st2 cur o Hok HR) as [E HR'].
  destruct (step st1 o) as [a [e1 s1]]. destruct (step st2 o) as [b [e2 s2]]. simpl in E, HR'. inversion E; subst.
  now rewrite (IH a b _ _ _ HR').
Qed.

(* any engine that seeds first and then takes arbitrary decisions D within the discipline: nothing depends on the state
   (generators, leftover deques) the run starts in *)
Theorem seeded_adaptive_forgets_state : forall D fuel s c g1 g2 f1 f2,
  garun fuel D (fst (step (mkSt g1 c f1) (OSeed s))) [OSeed s] [ESeed s] None
  = garun fuel D (fst (step (mkSt g2 c f2) (OSeed s))) [OSeed s] [ESeed s] None.
Proof. intros. apply garun_rel. simpl. repeat split; auto. intros c0 E. discriminate. Qed.

(* ------------------------------------------------------------------ repeatability with derived schedules *)
(* an adaptive run is the run of the instructions it chose *)
Lemma arun_is_run fuel D : forall st oh hist,
  exists chosen, arun fuel D st oh hist = (oh ++ chosen, hist ++ events chosen st, samples chosen st).
Proof.
  induction fuel as [|f IH]; intros st oh hist; simpl.
  - exists []. unfold events, samples. simpl. now rewrite !app_nil_r.
  - destruct (D oh hist) as [o|].
    + destruct (step st o) as [st' [e s]] eqn:Es.
      destruct (IH st' (oh ++ [o]) (hist ++ e)) as [ch Hch]. rewrite Hch.
      exists (o :: ch). rewrite events_cons, samples_cons, Es. simpl. now rewrite <- !app_assoc.
    + exists []. unfold events, samples. simpl. now rewrite !app_nil_r.
Qed.

(* every later decision (instructions, schedules, levels, passes) is an arbitrary function of what has
   happened; as soon as the first instruction is the seed, the instructions chosen, the events and the
   samples are the same from any two ambient generator states *)
Theorem seeded_repeatable_adaptive : forall D fuel s g1 g2,
  D [] [] = Some (OSeed s) -> arun fuel D (init g1) [] [] = arun fuel D (init g2) [] [].
Proof. intros D [|f] s g1 g2 H; simpl; [reflexivity|]. rewrite H. reflexivity. Qed.

Lemma derive_samples_length val nxt n : forall fuel st slot fixed lvl,
  length (derive_samples val nxt n fuel st slot fixed lvl) = n.
Proof. induction n as [|k IH]; intros; simpl; auto. Qed.

Lemma derive_samples_rel val nxt n : forall fuel st1 st2 slot fixed lvl cur,
  Rel cur st1 st2 -> (fixed = true -> cur = Some slot) ->
  derive_samples val nxt n fuel st1 slot fixed lvl = derive_samples val nxt n fuel st2 slot fixed lvl.
Proof.
  induction n as [|k IH]; intros fuel st1 st2 slot fixed lvl cur HR Hc; simpl; [reflexivity|].
  assert (E : next_sched val nxt fuel st1 slot fixed = next_sched val nxt fuel st2 slot fixed).
  { unfold next_sched. destruct HR as (Hg & _ & Hs). rewrite Hg. destruct fixed; [|reflexivity].
    rewrite (Hs slot (Hc eq_refl)). reflexivity. }
  rewrite E. f_equal.
  assert (Hok : op_ok cur (OSample slot fixed lvl (next_sched val nxt fuel st2 slot fixed)) = true).
  { simpl. destruct fixed; [|reflexivity]. rewrite (Hc eq_refl). apply Z.eqb_refl. }
  destruct (step_rel st1 st2 cur _ Hok HR) as [_ HR']. simpl in HR'.
  eapply IH; eauto.
Qed.

(* standard engine, schedule DERIVED by the run from the values of the variates (val, nxt arbitrary), started from two
   ARBITRARY states of the process object (generators anywhere, deques holding whatever a previous pricing left; same
   creation counter): with a seed both runs derive the same schedule, have the same events, positions and values *)
Theorem std_seeded_repeatable_derived : forall val nxt fuel s t m n g1 g2 c f1 f2,
  let st1 := mkSt g1 c f1 in let st2 := mkSt g2 c f2 in
  let ss1 := std_derived_from val nxt fuel (Some s) t m n st1 in
  let ss2 := std_derived_from val nxt fuel (Some s) t m n st2 in
  ss1 = ss2
  /\ len ss1 = Z.of_nat n
  /\ events (std_ops (Some s) t m ss1) st1 = events (std_ops (Some s) t m ss2) st2
  /\ map (fun sm => map val (snd sm)) (samples (std_ops (Some s) t m ss1) st1)
     = map (fun sm => map val (snd sm)) (samples (std_ops (Some s) t m ss2) st2).
Proof.
  intros. assert (E : ss1 = ss2).
  { unfold ss1, ss2, std_derived_from. simpl seed_choice.
    change (snd (run (OSeed s :: pre m 0 (Z.of_nat n)) st1)) with (final (OSeed s :: pre m 0 (Z.of_nat n)) st1).
    change (snd (run (OSeed s :: pre m 0 (Z.of_nat n)) st2)) with (final (OSeed s :: pre m 0 (Z.of_nat n)) st2).
    apply (derive_samples_rel val nxt n fuel _ _ 0 (m_fixed m) (-1) (if m_fixed m then Some 0 else None)).
    - unfold st1, st2, pre. rewrite !final_cons. destruct (m_fixed m).
      + rewrite !final_cons. unfold final. simpl. repeat split; auto. intros c0 E0. inversion E0; subst. simpl. now rewrite !set_slot_same.
      + unfold final. simpl. repeat split; auto. intros c0 E0. discriminate.
    - intros H. rewrite H. reflexivity. }
  split; [exact E|]. split.
  - unfold ss1, std_derived_from, len. now rewrite derive_samples_length.
  - rewrite <- E. destruct (engines_forget_state s t m g1 g2 c f1 f2) as [H _]. destruct (H ss1) as [E1 E2].
    unfold st1, st2. rewrite E1, E2. split; reflexivity.
Qed.

(* before the fix (rows drawn before the seed): the derived schedule itself depends on the ambient state *)
Theorem std_derived_orig_refuted :
  exists val nxt fuel s t m n g1 g2,
    std_derived_orig val nxt fuel (Some s) t m n g1 <> std_derived_orig val nxt fuel (Some s) t m n g2.
Proof.
  exists (fun p => snd (fst p)),
         (fun seen => match seen with [v] => Some (false, Z.abs v, false) | _ => None end),
         3%nat, 7, 0, (mkMode true 1 1), 1%nat, (mkGen 1 0 0), (mkGen 2 0 0).
  vm_compute. discriminate.
Qed.

(* the trace of a seeded run does not depend on the clock either; that of an unseeded run depends on it only *)
Theorem seeded_ignores_clock : forall s t1 t2 m ss g,
  events (std_ops (Some s) t1 m ss) (init g) = events (std_ops (Some s) t2 m ss) (init g).
Proof. reflexivity. Qed.

(* ------------------------------------------------------------------ no pop on an empty deque *)
Definition nu (ops : list op) : Prop := forall st, underflows (events ops st) = O.
Lemma nu_app a b : nu a -> nu b -> nu (a ++ b).
Proof. intros Ha Hb st. rewrite events_app, underflows_app, Ha, Hb. reflexivity. Qed.
Lemma nu_nil : nu [].
Proof. intro st. reflexivity. Qed.
Lemma nu_cons_copy src dst r : nu r -> nu (OCopy src dst :: r).
Proof. intros H st. rewrite events_cons. simpl. apply H. Qed.
Lemma nu_pre m s n : nu (pre m s n).
Proof.
  unfold pre. destruct (m_fixed m); [|apply nu_nil]. intro st. rewrite events_cons. simpl.
  rewrite !underflows_app. simpl. rewrite underflows_map_draw by (intros; eauto). reflexivity.
Qed.
Lemma nu_samples_free slot lvl ss : nu (map (fun d => OSample slot false lvl d) ss).
Proof.
  induction ss as [|d ss IH]; intro st; simpl; [reflexivity|]. rewrite events_cons. simpl.
  pose proof (underflows_draws d (s_gen st)) as Hu.
  destruct (draws_run (s_gen st) d) as [[e2 r2] g'] eqn:Ed. simpl in *.
  rewrite !underflows_app. simpl. rewrite Hu. apply IH.
Qed.
Lemma nu_level m s lvl ss r : nu r -> nu (pre m s (len ss) ++ samples_ops m s lvl ss ++ r).
Proof.
  intros Hr. unfold pre, samples_ops. destruct (m_fixed m) eqn:E.
  - rewrite app_assoc. apply nu_app; [|exact Hr]. intro st.
    destruct (level_block_ok s (m_nb m) (m_dim m) lvl ss (len ss) st eq_refl) as [[U _] _]. exact U.
  - simpl. apply nu_app; [apply nu_samples_free|exact Hr].
Qed.
Lemma nu_mlp_levels m levels : forall cr lvl r, nu r -> nu (fst (mlp_levels m cr lvl levels) ++ r).
Proof.
  induction levels as [|ss rest IH]; intros cr lvl r Hr; simpl; auto.
  destruct (mlp_levels m (if cr <=? lvl then cr + 1 else cr) (lvl + 1) rest) as [body crf] eqn:E. simpl.
  specialize (IH (if cr <=? lvl then cr + 1 else cr) (lvl + 1) r Hr). rewrite E in IH. simpl in IH.
  repeat rewrite <- app_assoc.
  destruct (cr <=? lvl).
  - simpl. apply nu_cons_copy. apply nu_app; [apply nu_pre|]. apply nu_level. exact IH.
  - simpl. apply nu_level. exact IH.
Qed.
Lemma nu_mlp_passes m ps : forall cr, nu (mlp_passes m cr ps).
Proof.
  induction ps as [|p r IH]; intros cr; simpl; [apply nu_nil|].
  pose proof (nu_mlp_levels m (p_levels p) cr 0) as H.
  destruct (mlp_levels m cr 0 (p_levels p)) as [body cr1]. simpl in H.
  destruct (p_add p) as [mm|].
  - apply H. apply nu_cons_copy. apply nu_app; [apply nu_pre|apply IH].
  - apply H. apply IH.
Qed.

Lemma nu_seed_first s body g : nu body -> underflows (events (OSeed s :: body) (init g)) = O.
Proof. intros H. rewrite events_seed_first. simpl. apply H. Qed.

(* standard engine and adaptive multilevel price: never, for any schedule/history and either mode;
   constant multilevel run: when every level simulates n0 samples (what its loops do) *)
Theorem no_underflow : forall seed t m g,
  (forall ss, underflows (events (std_ops seed t m ss) (init g)) = O)
  /\ (forall n0 passes, underflows (events (mlp_ops seed t m n0 passes) (init g)) = O)
  /\ (forall nb d n0 levels, Forall (fun ss => len ss = n0) levels ->
        underflows (events (mlc_ops seed t (mkMode true nb d) n0 levels) (init g)) = O)
  /\ (forall nb d n0 levels, underflows (events (mlc_ops seed t (mkMode false nb d) n0 levels) (init g)) = O).
Proof.
  intros. split; [|split; [|split]].
  - intros ss. apply nu_seed_first. rewrite <- (app_nil_r (samples_ops m 0 (-1) ss)). apply nu_level, nu_nil.
  - intros n0 ps. apply nu_seed_first. unfold mlp_body. apply nu_app; [apply nu_pre|]. apply nu_cons_copy, nu_mlp_passes.
  - intros nb d n0 levels HF. destruct levels as [|ss r].
    + apply nu_seed_first. unfold mlc_body. apply nu_app; [apply nu_pre|]. apply nu_cons_copy, nu_nil.
    + destruct (rows_exactly_once_engines seed t nb d g) as [_ H].
      destruct (H (ss :: r) n0) as (U & _); [discriminate|exact HF|exact U].
  - intros nb d n0 levels. apply nu_seed_first. unfold mlc_body, pre. simpl.
    apply nu_cons_copy. destruct levels as [|ss r]; [apply nu_nil|].
    unfold samples_ops. simpl. apply nu_app; [apply nu_samples_free|].
    assert (G : forall lv l, nu (mlc_levels (mkMode false nb d) n0 l lv)).
    { induction lv as [|x lv IHl]; intros l; simpl; [apply nu_nil|]. unfold pre, samples_ops. simpl.
      apply nu_app; [apply nu_samples_free|apply IHl]. }
    apply G.
Qed.

(* the adaptive price(): "exactly once" is false: initialisation() and next_level() of an added level
   pre-draw rows that are replaced by the next pre_computation before any pop *)
Theorem adaptive_price_exactly_once_refuted :
  exists seed t m n0 passes g tg,
    In tg (created (events (mlp_ops seed t m n0 passes) (init g)))
    /\ ~ In tg (popped (events (mlp_ops seed t m n0 passes) (init g))).
Proof.
  exists (Some 7), 0, (mkMode true 1 1), 2, [mkPass [[[]]; [[]]] (Some 3); mkPass [[]; []; [[]]] None], (mkGen (-1) 0 0), (1, 0).
  split; vm_compute; [tauto|]. intros H. repeat (destruct H as [H|H]; [discriminate|]). exact H.
Qed.

(* ------------------------------------------------------------------ seeds of the worker processes *)
Lemma seed_of_inj now p q : 0 <= now < 2 ^ 32 -> seed_of p now = seed_of q now -> p = q.
Proof. unfold seed_of. lia. Qed.
Lemma seed_of_inj2 p q t u : 0 <= t < 2 ^ 32 -> 0 <= u < 2 ^ 32 -> seed_of p t = seed_of q u -> p = q /\ t = u.
Proof. unfold seed_of. lia. Qed.

Lemma NoDup_seed_of now pids : NoDup pids -> NoDup (map (fun p => seed_of p now) pids).
Proof. intros H. apply NoDup_map_intro; auto. intros a a' _ _ E. unfold seed_of in E. lia. Qed.

Theorem pool_jump_mode_disjoint_pids : forall g0 nb d n pids now chunks,
  NoDup pids -> Forall (fun c : nat * list sched => (fst c < length pids)%nat) chunks ->
  NoDup (flat_map snd (snd (pool_run_pids g0 (mkMode false nb d) n pids now chunks))).
Proof.
  intros. unfold pool_run_pids. apply pool_jump_mode_disjoint; [apply NoDup_seed_of; auto|].
  now rewrite map_length.
Qed.

(* the positions a pool consumes carry the seed ids of its workers *)
Lemma pool_chunks_jump_sids nb d parent wseeds chunks : forall gens logs,
  length gens = length wseeds ->
  (forall w, (w < length wseeds)%nat -> g_sid (nth w gens (mkGen 0 0 0)) = nth w wseeds 0) ->
  Forall (fun c : nat * list sched => (fst c < length wseeds)%nat) chunks ->
  forall p, In p (flat_map snd (snd (pool_chunks (mkMode false nb d) parent gens logs chunks))) -> In (snd (fst p)) wseeds.
Proof.
  induction chunks as [|[w ss] r IH]; intros gens logs HL HS HF p Hp; simpl in Hp; [destruct Hp|].
  inversion HF as [|? ? Hw HF']; subst. simpl in Hw.
  unfold samples_ops in Hp. simpl in Hp.
  set (g := nth w gens (mkGen 0 0 0)) in *.
  set (st := mkSt g (s_cid parent) (s_slot parent)) in *.
  pose proof (samples_free_fresh 0 (-1) ss st) as Hf. simpl in Hf. unfold consumed, samples, final in Hf.
  destruct (run (map (fun d0 => OSample 0 false (-1) d0) ss) st) as [[es sm] stf] eqn:Er. simpl in Hf.
  specialize (IH (set_nth gens w (s_gen stf)) (set_nth logs w (nth w logs [] ++ es))).
  destruct (pool_chunks (mkMode false nb d) parent (set_nth gens w (s_gen stf)) (set_nth logs w (nth w logs [] ++ es)) r) as [logs' sms] eqn:Ep.
  simpl in *. rewrite flat_map_app in Hp. apply in_app_or in Hp.
  destruct Hf as (F1 & _ & _ & _ & F5). destruct Hp as [Hp|Hp].
  - destruct p as [[py sd] i]. destruct (F5 _ _ _ Hp) as [Hsd _]. simpl. rewrite Hsd. unfold g. rewrite HS by exact Hw.
    apply nth_In. exact Hw.
  - apply IH; auto.
    + rewrite length_set_nth. exact HL.
    + intros w' Hw'. destruct (Nat.eq_dec w w') as [->|Hne].
      * rewrite nth_set_nth_same by lia. rewrite F1. apply HS. exact Hw'.
      * rewrite nth_set_nth_other by exact Hne. apply HS. exact Hw'.
Qed.

Lemma pool_run_pids_sids g0 nb d n pids now chunks :
  Forall (fun c : nat * list sched => (fst c < length pids)%nat) chunks ->
  forall p, In p (flat_map snd (snd (pool_run_pids g0 (mkMode false nb d) n pids now chunks))) ->
  exists pid, In pid pids /\ snd (fst p) = seed_of pid now.
Proof.
  intros HF p Hp. unfold pool_run_pids, pool_run, pre in Hp. simpl in Hp.
  pose proof (pool_chunks_jump_sids nb d (init g0) (map (fun q => seed_of q now) pids) chunks
                (map (fun s => mkGen s 0 0) (map (fun q => seed_of q now) pids))
                (map (fun s => [ESeed s]) (map (fun q => seed_of q now) pids))) as H.
  destruct (pool_chunks (mkMode false nb d) (init g0) (map (fun s => mkGen s 0 0) (map (fun q => seed_of q now) pids))
              (map (fun s => [ESeed s]) (map (fun q => seed_of q now) pids)) chunks) as [logs sms]. simpl in *.
  assert (Hin : In (snd (fst p)) (map (fun q => seed_of q now) pids)).
  { apply H; auto.
    - now rewrite !map_length.
    - intros w Hw. change (mkGen 0 0 0) with ((fun s => mkGen s 0 0) 0). rewrite map_nth. reflexivity.
    - now rewrite map_length. }
  apply in_map_iff in Hin. destruct Hin as [pid [E Hpid]]. eauto.
Qed.

Definition pool_ok (p : list Z * Z * list (nat * list sched)) : Prop :=
  0 <= snd (fst p) < 2 ^ 32 /\ Forall (fun c : nat * list sched => (fst c < length (fst (fst p)))%nat) (snd p).

Lemma pools_samples_keys g0 nb d pools : Forall pool_ok pools ->
  forall x, In x (flat_map snd (pools_samples g0 (mkMode false nb d) pools)) ->
  exists pid now, In (pid, now) (pools_keys pools) /\ 0 <= now < 2 ^ 32 /\ snd (fst x) = seed_of pid now.
Proof.
  induction pools as [|[[pids now] chunks] r IH]; intros HF x Hx; simpl in Hx; [destruct Hx|].
  inversion HF as [|? ? [Hn Hc] HF']; subst. simpl in Hn, Hc.
  unfold pools_samples in Hx. simpl in Hx. rewrite flat_map_app in Hx. apply in_app_or in Hx. destruct Hx as [Hx|Hx].
  - destruct (pool_run_pids_sids g0 nb d 0 pids now chunks Hc x Hx) as [pid [Hp E]].
    exists pid, now. repeat split; auto; try lia. unfold pools_keys. simpl. apply in_or_app. left. apply in_map_iff. eauto.
  - destruct (IH HF' x Hx) as (pid & nw & Hk & Hr & E). exists pid, nw. repeat split; auto; try lia.
    unfold pools_keys. simpl. apply in_or_app. right. exact Hk.
Qed.

(* successive pools of one run in jump-time mode: if the (pid, clock) pairs of all workers of all pools are pairwise
   different, all samples of all pools use disjoint positions *)
Theorem pools_jump_mode_disjoint : forall g0 nb d pools,
  NoDup (pools_keys pools) -> Forall pool_ok pools ->
  NoDup (flat_map snd (pools_samples g0 (mkMode false nb d) pools)).
Proof.
  induction pools as [|[[pids now] chunks] r IH]; intros HN HF; [constructor|].
  inversion HF as [|? ? [Hn Hc] HF']; subst. simpl in Hn, Hc.
  unfold pools_keys in HN. simpl in HN.
  unfold pools_samples. simpl. rewrite flat_map_app. apply NoDup_app_intro.
  - apply pool_jump_mode_disjoint_pids; auto.
    apply NoDup_app_l in HN. eapply NoDup_map_inv; eauto.
  - apply IH; auto. eapply NoDup_app_r; eauto.
  - intros x H1 H2.
    destruct (pool_run_pids_sids g0 nb d 0 pids now chunks Hc x H1) as [pid [Hp E1]].
    destruct (pools_samples_keys g0 nb d r HF' x H2) as (pid' & now' & Hk & Hr & E2).
    rewrite E1 in E2. apply seed_of_inj2 in E2; auto. destruct E2 as [-> ->].
    eapply NoDup_app_disj; [exact HN| |exact Hk]. apply in_map_iff. eauto.
Qed.

(* before: the product pid*now is reduced mod 123456789: two processes get the same seed exactly when
   123456789 divides (p - q) * now -- for every pair of pids when now is a multiple of 123456789 *)
Lemma seed_of_orig_collision p q now :
  seed_of_orig p now = seed_of_orig q now <-> (123456789 | (p - q) * now).
Proof.
  unfold seed_of_orig. split.
  - intros H. exists (p * now / 123456789 - q * now / 123456789).
    pose proof (Z.div_mod (p * now) 123456789). pose proof (Z.div_mod (q * now) 123456789). lia.
  - intros [k Hk]. replace (p * now) with (q * now + k * 123456789) by lia. apply Z_mod_plus_full.
Qed.

(* ------------------------------------------------------------------ witnesses *)
Fixpoint memb (x : pos) (l : list pos) : bool :=
  match l with
  | [] => false
  | y :: r => (Bool.eqb (fst (fst x)) (fst (fst y)) && (snd (fst x) =? snd (fst y)) && (snd x =? snd y)) || memb x r
  end.
Fixpoint dupb (l : list pos) : bool := match l with [] => false | x :: r => memb x r || dupb r end.
Lemma memb_In x l : memb x l = true -> In x l.
Proof.
  induction l as [|y r IH]; simpl; [discriminate|]. intros H. apply orb_prop in H. destruct H as [H|H]; auto.
  left. apply andb_prop in H. destruct H as [H H3]. apply andb_prop in H. destruct H as [H1 H2].
  apply Bool.eqb_prop in H1. apply Z.eqb_eq in H2, H3. destruct x as [[a b] c], y as [[a' b'] c']. simpl in *. congruence.
Qed.
Lemma dupb_sound l : dupb l = true -> ~ NoDup l.
Proof.
  induction l as [|x r IH]; simpl; [discriminate|]. intros H Hn. inversion Hn; subst.
  apply orb_prop in H. destruct H as [H|H]; [apply memb_In in H; tauto|]. apply IH; auto.
Qed.

Definition fixed1 := mkMode true 1 1.
Definition jump := mkMode false 1 1.

(* F-C08-1 (before the fix): the rows are drawn before the seed is applied: the positions a seeded
   run consumes depend on the ambient generator state; and when the ambient state comes from the
   same seed, pre-drawn rows and fresh draws are the same variates *)
Theorem preseed_draws_refuted :
  (exists s t m ss g1 g2, samples (std_ops_orig (Some s) t m ss) (init g1) <> samples (std_ops_orig (Some s) t m ss) (init g2))
  /\ (exists s t m ss g, ~ NoDup (consumed (std_ops_orig (Some s) t m ss) (init g))).
Proof.
  split.
  - exists 7, 0, fixed1, [[]], (mkGen 100 0 0), (mkGen 200 5 0). vm_compute. discriminate.
  - exists 7, 0, fixed1, [[(false, 1, false)]], (mkGen 7 0 0). apply dupb_sound. vm_compute. reflexivity.
Qed.

(* F-C08-2 (before the fix): compute_level_l re-seeds for every level: with a seed, and without one
   when two calls see the same clock value, two levels consume the same positions *)
Theorem reseed_per_level_refuted :
  (exists s m n0 levels g, ~ NoDup (consumed (mlc_ops_orig (Some s) m n0 levels) (init g))
                           /\ ~ reseed_free (events (mlc_ops_orig (Some s) m n0 levels) (init g)))
  /\ (exists t m n0 ss0 ss1 g, ~ NoDup (consumed (mlc_ops_orig None m n0 [(ss0, t); (ss1, t)]) (init g))).
Proof.
  split.
  - exists 7, jump, 1, [([[(false, 1, false)]], 0); ([[(false, 1, false)]], 0)], (mkGen (-1) 0 0). split.
    + apply dupb_sound. vm_compute. reflexivity.
    + intro H. vm_compute in H.
      specialize (H [ESeed 7; EBegin 0; EDraw false 7 0 1; EEnd] 7 [EBegin 1; EDraw false 7 0 1; EEnd] eq_refl (false, 7, 0)).
      apply H; [vm_compute; auto|reflexivity].
  - exists 12345, jump, 1, [[(false, 2, false)]], [[(false, 1, false)]], (mkGen (-1) 0 0). apply dupb_sound. vm_compute. reflexivity.
Qed.

(* F-C08-4 (before the fix): seed 0 is treated as "no seed": the run follows the clock *)
Theorem seed_zero_refuted :
  exists t1 t2 m ss g, samples (std_ops_orig (Some 0) t1 m ss) (init g) <> samples (std_ops_orig (Some 0) t2 m ss) (init g).
Proof. exists 1, 2, jump, [[(false, 1, false)]], (mkGen (-1) 0 0). vm_compute. discriminate. Qed.

(* F-C08-3 (delivered tree): every chunk of the worker pool starts from a copy of the same deques:
   two workers, distinctly seeded, one sample each: both consume row 0 of both deques *)
Definition pool_witness := pool_run (mkGen (-1) 0 0) fixed1 2 [11; 22] [(0%nat, [[(false, 1, false)]]); (1%nat, [[(false, 1, false)]])].
Theorem workers_share_rows_refuted :
  ~ NoDup (flat_map snd (snd pool_witness))
  /\ popped (nth 0 (snd (fst pool_witness)) []) = [(2, 0); (1, 0)]
  /\ popped (nth 1 (snd (fst pool_witness)) []) = [(2, 0); (1, 0)].
Proof. split; [apply dupb_sound; vm_compute; reflexivity|]. split; vm_compute; reflexivity. Qed.

(* F-C08-8 (before the fix: commit of fix-rng2): at now = k * 123456789 every worker gets seed 0 *)
Theorem worker_seeds_collide_refuted :
  (forall p q k, seed_of_orig p (k * 123456789) = seed_of_orig q (k * 123456789))
  /\ ~ NoDup (flat_map snd (snd (pool_run_pids_orig (mkGen (-1) 0 0) (mkMode false 1 1) 2 [4001; 4002] (13 * 123456789)
                                   [(0%nat, [[(false, 1, false)]]); (1%nat, [[(false, 1, false)]])]))).
Proof.
  split.
  - intros p q k. apply seed_of_orig_collision. exists ((p - q) * k). lia.
  - apply dupb_sound. vm_compute. reflexivity.
Qed.


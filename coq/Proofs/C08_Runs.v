(* Wave 8 (audit5a D2, finding F-C08-9): two unseeded pricings of one process whose clock reads fall into the same second *)
From Coq Require Import ZArith List Bool Lia.
From RV Require Import Model.Rng Model.RngRuns Proofs.C08_Rng.
Import ListNotations.
Open Scope Z_scope.

(* An unseeded run IS the run seeded with seed_of pid now (seed_choice None false T = T = seed_choice (Some T) false _):
   so the for-all part below is engines_forget_state TRANSPORTED through this equality -- the new content is only the
   reading: the seed of an unseeded run is a function of (pid, second), hence equal for two runs in the same second. *)
Lemma unseeded_is_seeded pid now m :
  (forall ss, std_unseeded pid now m ss = std_ops (Some (seed_of pid now)) 0 m ss)
  /\ (forall n0 lv, mlc_unseeded pid now m n0 lv = mlc_ops (Some (seed_of pid now)) 0 m n0 lv)
  /\ (forall n0 ps, mlp_unseeded pid now m n0 ps = mlp_ops (Some (seed_of pid now)) 0 m n0 ps).
Proof. repeat split. Qed.

Theorem unseeded_same_second_runs_identical : forall pid now m g,
  (forall ss, let ops := std_unseeded pid now m ss in let st2 := next_run_state (final ops (init g)) in
              events ops st2 = events ops (init g) /\ samples ops st2 = samples ops (init g))
  /\ (forall n0 lv, let ops := mlc_unseeded pid now m n0 lv in let st2 := next_run_state (final ops (init g)) in
              events ops st2 = events ops (init g) /\ samples ops st2 = samples ops (init g))
  /\ (forall n0 ps, let ops := mlp_unseeded pid now m n0 ps in let st2 := next_run_state (final ops (init g)) in
              events ops st2 = events ops (init g) /\ samples ops st2 = samples ops (init g)).
Proof.
  intros pid now m g.
  destruct (unseeded_is_seeded pid now m) as (E1 & E2 & E3).
  repeat split; intros; cbv zeta; rewrite ?E1, ?E2, ?E3; unfold next_run_state, init;
    match goal with |- context [final ?o ?s] => set (F := final o s) end;
    destruct (engines_forget_state (seed_of pid now) 0 m (s_gen F) g 1 (s_slot F) (fun _ => empty_proc)) as (H1 & H2 & H3);
    first [apply H1 | apply H2 | apply H3].
Qed.

(* the witness of F-C08-9: pid 4242, second 1700000000, standard engine, two paths; fixed-date mode (one date) and
   jump-time mode.  Against C08's clauses read over the two runs of the process: (1) positions consumed twice,
   (2) the second run's seed event moves the generators to a (seed id, position 0) that has produced variates. *)
Definition ss_pid := 4242.
Definition ss_now := 1700000000.
Definition ss_sched : list sched := [[(false, 1, false)]; [(false, 2, false)]].

Theorem unseeded_same_second_refuted :
  (let ops := std_unseeded ss_pid ss_now fixed1 ss_sched in
     ~ NoDup (two_runs_consumed ops ops (mkGen (-1) 0 0)) /\ ~ reseed_free (two_runs_events ops ops (mkGen (-1) 0 0)))
  /\ (let ops := std_unseeded ss_pid ss_now jump ss_sched in
     ~ NoDup (two_runs_consumed ops ops (mkGen (-1) 0 0)) /\ ~ reseed_free (two_runs_events ops ops (mkGen (-1) 0 0))).
Proof.
  split; cbv zeta; split.
  - apply dupb_sound. vm_compute. reflexivity.
  - intro H. set (s := seed_of ss_pid ss_now) in *.
    assert (E : exists pre post p, two_runs_events (std_unseeded ss_pid ss_now fixed1 ss_sched) (std_unseeded ss_pid ss_now fixed1 ss_sched) (mkGen (-1) 0 0)
                                  = pre ++ ESeed s :: post /\ In p (drawn pre) /\ snd (fst p) = s).
    { exists (events (std_unseeded ss_pid ss_now fixed1 ss_sched) (init (mkGen (-1) 0 0))),
             (tl (events (std_unseeded ss_pid ss_now fixed1 ss_sched)
                    (next_run_state (final (std_unseeded ss_pid ss_now fixed1 ss_sched) (init (mkGen (-1) 0 0)))))), (false, s, 0).
      split; [vm_compute; reflexivity|]. split; [vm_compute; auto|reflexivity]. }
    destruct E as (pre & post & p & E & Hin & Hs). exact (H pre s post E p Hin Hs).
  - apply dupb_sound. vm_compute. reflexivity.
  - intro H. set (s := seed_of ss_pid ss_now) in *.
    assert (E : exists pre post p, two_runs_events (std_unseeded ss_pid ss_now jump ss_sched) (std_unseeded ss_pid ss_now jump ss_sched) (mkGen (-1) 0 0)
                                  = pre ++ ESeed s :: post /\ In p (drawn pre) /\ snd (fst p) = s).
    { exists (events (std_unseeded ss_pid ss_now jump ss_sched) (init (mkGen (-1) 0 0))),
             (tl (events (std_unseeded ss_pid ss_now jump ss_sched)
                    (next_run_state (final (std_unseeded ss_pid ss_now jump ss_sched) (init (mkGen (-1) 0 0)))))), (false, s, 0).
      split; [vm_compute; reflexivity|]. split; [vm_compute; auto|reflexivity]. }
    destruct E as (pre & post & p & E & Hin & Hs). exact (H pre s post E p Hin Hs).
Qed.

(* a second later the seed ids differ (seed_of_inj2): the control the oracle runs on the implementation *)
Lemma unseeded_next_second_other_seed pid now : 0 <= now -> now + 1 < 2 ^ 32 -> seed_of pid now <> seed_of pid (now + 1).
Proof. intros H0 H1 E. apply seed_of_inj2 in E; lia. Qed.

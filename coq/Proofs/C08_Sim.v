(* Proofs for property C08 about the jump-time simulators (max-step, SDE, series representation), the copula coupling
   decisions and the fixed-date worker pool (Model/RngSim.v on top of Model/Rng.v). *)
From Coq Require Import ZArith List Bool Lia.
From RV Require Import Model.Rng Model.RngSim Proofs.C08_Rng.
Import ListNotations.
Open Scope Z_scope.

(* ------------------------------------------------------------------ drawn = consumed without pre-drawn rows *)
Lemma drawn_app a b : drawn (a ++ b) = drawn a ++ drawn b.
Proof. induction a as [|[] a IH]; simpl; auto. now rewrite IH, app_assoc. Qed.

Lemma drawn_map_use l : drawn (map EUse l) = [].
Proof. induction l; simpl; auto. Qed.

Lemma zrange_max k : zrange (Z.max 0 k) = zrange k.
Proof. unfold zrange. f_equal. f_equal. lia. Qed.

Lemma block_max py sid from k : block py sid from (Z.max 0 k) = block py sid from k.
Proof. unfold block. now rewrite zrange_max. Qed.

Lemma draws_run_drawn ds : forall g, drawn (fst (fst (draws_run g ds))) = snd (fst (draws_run g ds)).
Proof.
  induction ds as [|[[py k] dec] r IH]; intros g; simpl; auto.
  specialize (IH (advance py k g)). destruct (draws_run (advance py k g) r) as [[es ps] g']. simpl in *.
  rewrite drawn_app, IH, block_max. destruct dec; simpl; [rewrite drawn_map_use|]; reflexivity.
Qed.

Lemma jump_drawn_consumed ops : forall st, forallb jump_op ops = true -> drawn (events ops st) = consumed ops st.
Proof.
  induction ops as [|o r IH]; intros st H.
  - reflexivity.
  - simpl in H. apply andb_true_iff in H. destruct H as [Ho Hr].
    rewrite events_cons, consumed_cons, drawn_app, (IH _ Hr). f_equal.
    destruct o as [s|slot n nb d|src dst|slot fixed lvl ds]; simpl in *; try reflexivity; try discriminate.
    destruct fixed; [discriminate|].
    pose proof (draws_run_drawn ds (s_gen st)) as Hd.
    destruct (draws_run (s_gen st) ds) as [[e2 r2] g']. simpl in *.
    rewrite drawn_app, Hd. simpl. now rewrite !app_nil_r.
Qed.

Lemma jump_samples_ops nb d slot lvl ss : forallb jump_op (samples_ops (mkMode false nb d) slot lvl ss) = true.
Proof. unfold samples_ops. induction ss; simpl; auto. Qed.

Lemma jump_mlc_levels nb d n0 levels : forall lvl, forallb jump_op (mlc_levels (mkMode false nb d) n0 lvl levels) = true.
Proof.
  induction levels as [|ss r IH]; intros lvl; simpl; auto.
  rewrite forallb_app, jump_samples_ops. simpl. apply IH.
Qed.

Lemma jump_mlp_levels nb d levels : forall cr lvl, forallb jump_op (fst (mlp_levels (mkMode false nb d) cr lvl levels)) = true.
Proof.
  induction levels as [|ss r IH]; intros cr lvl; simpl; auto.
  specialize (IH (if cr <=? lvl then cr + 1 else cr) (lvl + 1)).
  destruct (mlp_levels (mkMode false nb d) (if cr <=? lvl then cr + 1 else cr) (lvl + 1) r) as [rest crf]. simpl in *.
  rewrite !forallb_app, jump_samples_ops, IH. destruct (cr <=? lvl); reflexivity.
Qed.

Lemma jump_mlp_passes nb d ps : forall cr, forallb jump_op (mlp_passes (mkMode false nb d) cr ps) = true.
Proof.
  induction ps as [|p r IH]; intros cr; simpl; auto.
  pose proof (jump_mlp_levels nb d (p_levels p) cr 0) as Hl.
  destruct (mlp_levels (mkMode false nb d) cr 0 (p_levels p)) as [body cr1]. simpl in Hl.
  destruct (p_add p); rewrite forallb_app, Hl; simpl; apply IH.
Qed.

(* jump-time mode, nb_of_processes = 1, all three entry points: the variates drawn from the generators during the run
   are, in order, exactly the variates consumed by the samples; with NoDup (single_process_disjoint): every variate
   drawn is consumed exactly once, by exactly one sample *)
Theorem jump_mode_exactly_once : forall seed t nb d g,
  let m := mkMode false nb d in
  (forall ss, drawn (events (std_ops seed t m ss) (init g)) = consumed (std_ops seed t m ss) (init g)
              /\ NoDup (drawn (events (std_ops seed t m ss) (init g))))
  /\ (forall n0 lv, drawn (events (mlc_ops seed t m n0 lv) (init g)) = consumed (mlc_ops seed t m n0 lv) (init g)
              /\ NoDup (drawn (events (mlc_ops seed t m n0 lv) (init g))))
  /\ (forall n0 ps, drawn (events (mlp_ops seed t m n0 ps) (init g)) = consumed (mlp_ops seed t m n0 ps) (init g)
              /\ NoDup (drawn (events (mlp_ops seed t m n0 ps) (init g)))).
Proof.
  intros seed t nb d g m.
  destruct (single_process_disjoint seed t m g) as (H1 & H2 & H3).
  assert (J1 : forall ss, forallb jump_op (std_ops seed t m ss) = true).
  { intros ss. unfold std_ops, pre, m. simpl. apply jump_samples_ops. }
  assert (J2 : forall n0 lv, forallb jump_op (mlc_ops seed t m n0 lv) = true).
  { intros n0 lv. unfold mlc_ops, mlc_body, pre, m. simpl. destruct lv as [|ss r]; simpl; auto.
    rewrite forallb_app, jump_samples_ops. apply jump_mlc_levels. }
  assert (J3 : forall n0 ps, forallb jump_op (mlp_ops seed t m n0 ps) = true).
  { intros n0 ps. unfold mlp_ops, mlp_body, pre, m. simpl. apply jump_mlp_passes. }
  split; [|split]; intros.
  - rewrite (jump_drawn_consumed _ _ (J1 ss)). split; auto. apply (H1 ss).
  - rewrite (jump_drawn_consumed _ _ (J2 n0 lv)). split; auto. apply (H2 n0 lv).
  - rewrite (jump_drawn_consumed _ _ (J3 n0 ps)). split; auto. apply (H3 n0 ps).
Qed.

(* ------------------------------------------------------------------ series representation *)
Lemma length_block py sid from k : Z.of_nat (length (block py sid from k)) = Z.max 0 k.
Proof. unfold block. rewrite map_length, length_zrange. lia. Qed.

Lemma draws_run_length ds : forall g, Z.of_nat (length (snd (fst (draws_run g ds)))) = sched_total ds.
Proof.
  induction ds as [|[[py k] dec] r IH]; intros g; simpl; auto.
  specialize (IH (advance py k g)). destruct (draws_run (advance py k g) r) as [[es ps] g']. simpl in *.
  rewrite app_length, Nat2Z.inj_add, length_block, IH. reflexivity.
Qed.

Lemma sched_total_app a b : sched_total (a ++ b) = sched_total a + sched_total b.
Proof. induction a as [|[[py k] dec] a IH]; simpl; auto. rewrite IH. lia. Qed.

Lemma slices_total l : Forall (fun ab : Z * Z => 0 <= fst ab /\ 0 <= snd ab) l ->
  sched_total (flat_map (fun ab : Z * Z => [npd (fst ab); npd (snd ab)]) l) = zsum (map fst l) + zsum (map snd l).
Proof.
  induction 1 as [|[a b] l [Ha Hb] _ IH]; [reflexivity|].
  unfold npd, zsum in *. cbn [flat_map map fst snd app sched_total fold_right] in *. rewrite IH.
  generalize (fold_right Z.add 0 (map fst l)) (fold_right Z.add 0 (map snd l)). intros x y. lia.
Qed.

Theorem series_sample_size : forall d, series_wf d ->
  sched_total (series_sched d) = 2 + 3 * (sr_n1 d + sr_n2 d) + Z.max (sr_n1 d) (sr_n2 d) + 2 * sr_nb d.
Proof.
  intros d (H1 & H2 & Hn & HF & S1 & S2). unfold series_sched.
  rewrite sched_total_app, sched_total_app, (slices_total _ HF), S1, S2. unfold npd. cbn [sched_total]. lia.
Qed.

Lemma series_wfb_ok d : series_wfb d = true -> series_wf d.
Proof.
  unfold series_wfb, series_wf. rewrite !andb_true_iff, !Z.leb_le, !Z.eqb_eq, forallb_forall.
  intros (((((A & B) & C) & D) & E) & F). repeat split; auto.
  apply Forall_forall. intros x Hx. specialize (D x Hx). rewrite andb_true_iff, !Z.leb_le in D. exact D.
Qed.

Lemma series_sizes ds : Forall series_wf ds -> forall st,
  map (fun s : sample => Z.of_nat (length (snd s))) (samples (map (fun d => OSample 0 false (-1) d) (map series_sched ds)) st)
  = map (fun d => 2 + 3 * (sr_n1 d + sr_n2 d) + Z.max (sr_n1 d) (sr_n2 d) + 2 * sr_nb d) ds.
Proof.
  induction 1 as [|d ds Hd _ IH]; intros st; [reflexivity|].
  cbn [map]. rewrite samples_cons. cbn [step].
  pose proof (draws_run_length (series_sched d) (s_gen st)) as HL.
  destruct (draws_run (s_gen st) (series_sched d)) as [[e2 r2] g'] eqn:Ed.
  cbn [fst snd app map] in *. rewrite IH. f_equal. rewrite HL. apply series_sample_size. exact Hd.
Qed.

(* the standard engine on a series-representation process: every sample consumes exactly
   2 + 3 (N1 + N2) + max (N1, N2) + 2 nb variates, all drawn during the sample; over the run no variate is drawn
   without being consumed and none is consumed twice *)
Theorem series_run_exactly_once : forall seed t ds g, Forall series_wf ds ->
  let ops := series_ops seed t ds in
  disciplined ops (init g) (seed_choice seed false t)
  /\ drawn (events ops (init g)) = consumed ops (init g)
  /\ map (fun s : sample => Z.of_nat (length (snd s))) (samples ops (init g))
     = map (fun d => 2 + 3 * (sr_n1 d + sr_n2 d) + Z.max (sr_n1 d) (sr_n2 d) + 2 * sr_nb d) ds.
Proof.
  intros seed t ds g Hwf ops. unfold ops, series_ops.
  destruct (single_process_disjoint seed t (mkMode false 1 2) g) as (H1 & _).
  destruct (jump_mode_exactly_once seed t 1 2 g) as (J1 & _).
  split; [apply H1|]. split; [apply J1|].
  unfold std_ops, pre, samples_ops. cbn [m_fixed app]. rewrite samples_seed_first. apply series_sizes. exact Hwf.
Qed.

(* ------------------------------------------------------------------ coupling decisions *)
Lemma draws_run_uses_count ds : dec_single ds = true ->
  forall g, Z.of_nat (length (uses (fst (fst (draws_run g ds))))) = sched_decisions ds.
Proof.
  induction ds as [|[[py k] dec] r IH]; intros H g; simpl in *; auto.
  apply andb_true_iff in H. destruct H as [Hd Hr]. specialize (IH Hr (advance py k g)).
  destruct (draws_run (advance py k g) r) as [[es ps] g']. simpl in *.
  destruct dec.
  - apply andb_true_iff in Hd. destruct Hd as [_ Hk]. apply Z.eqb_eq in Hk. subst k.
    rewrite uses_app, uses_map_use, app_length, Nat2Z.inj_add, IH. reflexivity.
  - simpl. rewrite IH. reflexivity.
Qed.

(* ------------------------------------------------------------------ F-C08-3 for every pool schedule *)
Lemma zrange_pos n : 1 <= n -> exists r, zrange n = 0 :: r.
Proof.
  intros H. unfold zrange. destruct (Z.to_nat n) as [|k] eqn:E; [lia|]. simpl. eauto.
Qed.

(* first variate of the first pre-drawn Poisson row *)
Definition row0_pos (g0 : gen) : pos := (false, g_sid g0, g_np g0).

Lemma parent_pois_head g0 nb d n : 1 <= n -> 1 <= nb ->
  exists c rest more, q_pois (s_slot (final (pre (mkMode true nb d) 0 n) (init g0)) 0) = (c, row0_pos g0 :: rest) :: more.
Proof.
  intros Hn Hnb. unfold pre, final. simpl.
  unfold pois_rows. replace (Z.max 0 n) with n by lia. replace (Z.max 0 nb) with nb by lia.
  destruct (zrange_pos n Hn) as [r ->]. destruct (zrange_pos nb Hnb) as [r' ->]. simpl.
  unfold row0_pos. replace (g_np g0 + 0 + 0) with (g_np g0) by lia. do 3 eexists. reflexivity.
Qed.

Lemma first_sample_of_chunk nb d parent g c p rest more s ss :
  q_pois (s_slot parent 0) = (c, p :: rest) :: more ->
  exists a B, samples (samples_ops (mkMode true nb d) 0 (-1) (s :: ss)) (mkSt g (s_cid parent) (s_slot parent)) = a :: B
              /\ In p (snd a).
Proof.
  intros Hq. unfold samples_ops. cbn [map]. rewrite samples_cons. cbn [step m_fixed s_slot s_gen].
  rewrite Hq. cbn [pop fst snd].
  destruct (draws_run g s) as [[e2 r2] g']. destruct (pop (q_brown (s_slot parent 0))) as [[e3 r3] qb].
  cbn [fst snd app]. eexists. eexists. split; [reflexivity|]. simpl. auto.
Qed.

Lemma pool_chunks_cons m parent gens logs w ss r :
  exists gens' logs', snd (pool_chunks m parent gens logs ((w, ss) :: r)) =
    samples (samples_ops m 0 (-1) ss) (mkSt (nth w gens (mkGen 0 0 0)) (s_cid parent) (s_slot parent))
    ++ snd (pool_chunks m parent gens' logs' r).
Proof.
  cbn [pool_chunks]. unfold samples.
  destruct (run (samples_ops m 0 (-1) ss) (mkSt (nth w gens (mkGen 0 0 0)) (s_cid parent) (s_slot parent))) as [[es sm] stf].
  exists (set_nth gens w (s_gen stf)), (set_nth logs w (nth w logs [] ++ es)).
  destruct (pool_chunks m parent (set_nth gens w (s_gen stf)) (set_nth logs w (nth w logs [] ++ es)) r) as [logs' sms].
  reflexivity.
Qed.

Lemma pool_chunks_hit nb d parent c p rest more : q_pois (s_slot parent 0) = (c, p :: rest) :: more ->
  forall c0 gens logs w s ss r, exists A a B gens' logs',
    snd (pool_chunks (mkMode true nb d) parent gens logs (c0 ++ (w, s :: ss) :: r))
    = A ++ a :: B ++ snd (pool_chunks (mkMode true nb d) parent gens' logs' r) /\ In p (snd a).
Proof.
  intros Hq. induction c0 as [|[w0 ss0] c0 IH]; intros gens logs w s ss r.
  - cbn [app]. destruct (pool_chunks_cons (mkMode true nb d) parent gens logs w (s :: ss) r) as (g' & l' & ->).
    destruct (first_sample_of_chunk nb d parent (nth w gens (mkGen 0 0 0)) c p rest more s ss Hq) as (a & B & -> & Hin).
    exists [], a, B, g', l'. split; auto.
  - cbn [app]. destruct (pool_chunks_cons (mkMode true nb d) parent gens logs w0 ss0 (c0 ++ (w, s :: ss) :: r)) as (g' & l' & ->).
    destruct (IH g' l' w s ss r) as (A & a & B & g'' & l'' & -> & Hin).
    eexists (_ ++ A), a, B, g'', l''. rewrite <- app_assoc. split; auto.
Qed.

(* F-C08-3 is not an accident of one schedule: in fixed-date mode (at least one pre-drawn row, at least one product
   date) EVERY pool schedule with two non-empty chunks -- whichever workers run them, in whatever order, whatever the
   worker seeds -- makes two samples consume the same pre-drawn variate (the first Poisson count of row 0) *)
Theorem pool_fixed_mode_chunks_share : forall g0 nb d n wseeds c0 w1 s1 ss1 mid w2 s2 ss2 rest,
  1 <= n -> 1 <= nb ->
  let sms := snd (pool_run g0 (mkMode true nb d) n wseeds (c0 ++ (w1, s1 :: ss1) :: mid ++ (w2, s2 :: ss2) :: rest)) in
  ~ NoDup (flat_map snd sms)
  /\ exists l1 a l2 b l3, sms = l1 ++ a :: l2 ++ b :: l3 /\ In (row0_pos g0) (snd a) /\ In (row0_pos g0) (snd b).
Proof.
  intros g0 nb d n wseeds c0 w1 s1 ss1 mid w2 s2 ss2 rest Hn Hnb sms.
  assert (E : exists l1 a l2 b l3, sms = l1 ++ a :: l2 ++ b :: l3 /\ In (row0_pos g0) (snd a) /\ In (row0_pos g0) (snd b)).
  { unfold sms, pool_run.
    destruct (parent_pois_head g0 nb d n Hn Hnb) as (c & rst & more & Hq). unfold final in Hq.
    destruct (run (pre (mkMode true nb d) 0 n) (init g0)) as [[pe x] parent]. cbn [snd] in Hq.
    destruct (pool_chunks_hit nb d parent c (row0_pos g0) rst more Hq c0
                (map (fun s => mkGen s 0 0) wseeds) (map (fun s => [ESeed s]) wseeds) w1 s1 ss1 (mid ++ (w2, s2 :: ss2) :: rest))
      as (A & a & B & g' & l' & E1 & Ha).
    destruct (pool_chunks_hit nb d parent c (row0_pos g0) rst more Hq mid g' l' w2 s2 ss2 rest)
      as (A' & b & B' & g'' & l'' & E2 & Hb).
    rewrite E2 in E1.
    destruct (pool_chunks (mkMode true nb d) parent (map (fun s => mkGen s 0 0) wseeds) (map (fun s => [ESeed s]) wseeds)
                (c0 ++ (w1, s1 :: ss1) :: mid ++ (w2, s2 :: ss2) :: rest)) as [logs sm]. cbn [snd] in *. subst sm.
    exists A, a, (B ++ A'), b, (B' ++ snd (pool_chunks (mkMode true nb d) parent g'' l'' rest)).
    rewrite <- app_assoc. auto. }
  split; [|exact E].
  destruct E as (l1 & a & l2 & b & l3 & -> & Ha & Hb). intros HN.
  exact (nodup_flat_pairwise l1 l2 l3 a b _ HN Ha Hb).
Qed.

(* non-vacuity / concrete instance of the series model: two samples, (N1,N2) = (2,1) and (0,3), 3 product intervals *)
Definition series_demo : list series_data :=
  [mkSer 2 1 [(1, 1); (1, 0)] 3; mkSer 0 3 [(0, 2); (0, 1)] 3].

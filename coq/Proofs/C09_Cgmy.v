(* C09 -- CGMY (partial): on an interval 0 < a <= b (and its mirror image) the closed forms built from
   __integrate_h_to_inf (activity alpha < 1, alpha <> 0) and __integrate_h_to_inf_for_xx (alpha <> 1) are the integrals
   of the density / of x * density.  The upper incomplete gamma function gamma(s) * gammaincc(s, x) enters through its
   derivative only: any G with G'(x) = - x^(s-1) exp(-x) on x > 0 (in particular Gupc g0 s, for every constant g0). *)
From Coq Require Import Reals Lra Psatz Bool.
From Coquelicot Require Import Coquelicot.
From RV Require Import Base.RB Base.RSpecial Gen.GenC09Vg Model.LevyClosedForms Proofs.C09_Generic Proofs.C09_Vg.
Open Scope R_scope.

Lemma Rpower_as_exp x y : Rpower x y = exp (y * ln x).
Proof. reflexivity. Qed.

(* t^(s-1) e^-t is continuous / integrable on the positive axis *)
Definition igf (s t : R) : R := Rpower t (s - 1) * exp (- t).
Lemma igf_continuous s t : 0 < t -> continuous (igf s) t.
Proof. intros H. unfold igf, Rpower. cont. Qed.
Lemma igf_ex_RInt s x y : 0 < x -> 0 < y -> ex_RInt (igf s) x y.
Proof.
  intros Hx Hy. apply (@ex_RInt_continuous R_CompleteNormedModule). intros z Hz. apply igf_continuous.
  assert (0 < Rmin x y) by (apply Rmin_pos; assumption). lra.
Qed.
Lemma Gupc_derive g0 s x : 0 < x -> is_derive (Gupc g0 s) x (- (Rpower x (s - 1) * exp (- x))).
Proof.
  intros Hx. unfold Gupc. fold (igf s).
  evar_last.
  - apply (@is_derive_minus R_AbsRing R_NormedModule).
    + apply (@is_derive_const R_AbsRing R_NormedModule).
    + apply (is_derive_RInt (igf s) (fun x => RInt (igf s) 1 x) 1 x).
      * assert (Hx2 : 0 < x / 2) by lra. exists (mkposreal _ Hx2). intros y Hy.
        apply (@RInt_correct R_CompleteNormedModule). apply igf_ex_RInt; [lra|].
        change (Rabs (y - x) < x / 2) in Hy. apply Rabs_def2 in Hy. lra.
      * apply igf_continuous. assumption.
  - unfold minus, plus, opp, zero; simpl. unfold igf. ring.
Qed.

Section Tail.
Variable G : R -> R -> R.
Hypothesis G_derive : forall s x, 0 < x -> is_derive (G s) x (- (Rpower x (s - 1) * exp (- x))).

(* d/dh cgmy_tail = - exp(-u h) / h^(1+alpha) *)
Lemma cgmy_tail_derive alpha u h : 0 < u -> 0 < h -> alpha <> 0 -> alpha <> 1 ->
  is_derive (fun h => cgmy_tail G alpha h u) h (- (exp (- u * h) / Rpower h (1 + alpha))).
Proof.
  intros Hu Hh Ha0 Ha1. assert (Huh : 0 < u * h) by nra.
  unfold cgmy_tail. cbv beta iota zeta. unfold Rpower.
  auto_derive.
  - repeat split; try assumption.
    + exists (- (Rpower (u * h) (2 - alpha - 1) * exp (- (u * h)))). apply G_derive. assumption.
    + apply Rmult_integral_contrapositive_currified; [assumption | apply Rgt_not_eq, exp_pos].
  - replace (Derive (fun x : R => G (2 - alpha) x) (u * h)) with (- (Rpower (u * h) (2 - alpha - 1) * exp (- (u * h))))
      by (symmetry; apply is_derive_unique; apply G_derive; assumption).
    unfold Rpower.
    replace (exp ((2 - alpha - 1) * ln (u * h))) with (u * h / exp (alpha * ln (u * h))).
    2:{ replace ((2 - alpha - 1) * ln (u * h)) with (ln (u * h) + - (alpha * ln (u * h))) by ring.
        rewrite exp_plus, exp_Ropp, exp_ln by assumption. reflexivity. }
    replace (exp ((1 + alpha) * ln h)) with (h * exp (alpha * ln h)).
    2:{ replace ((1 + alpha) * ln h) with (ln h + alpha * ln h) by ring. rewrite exp_plus, exp_ln by assumption. reflexivity. }
    replace (- u * h) with (- (u * h)) by ring.
    generalize (exp_pos (alpha * ln (u * h))) (exp_pos (alpha * ln h)) (exp_pos (- (u * h))).
    generalize (exp (alpha * ln (u * h))) (exp (alpha * ln h)) (exp (- (u * h))) (G (2 - alpha) (u * h)).
    intros P Q E GG HP HQ HE. field. repeat split; lra.
Qed.

(* d/dh cgmy_tail_x = - exp(-u h) / h^alpha *)
Lemma cgmy_tail_x_derive alpha u h : 0 < u -> 0 < h -> alpha <> 1 ->
  is_derive (fun h => cgmy_tail_x G alpha h u) h (- (exp (- u * h) / Rpower h alpha)).
Proof.
  intros Hu Hh Ha1. assert (Huh : 0 < u * h) by nra.
  unfold cgmy_tail_x. cbv beta iota zeta. unfold Rpower.
  auto_derive.
  - repeat split; try assumption.
    exists (- (Rpower (u * h) (2 - alpha - 1) * exp (- (u * h)))). apply G_derive. assumption.
  - replace (Derive (fun x : R => G (2 - alpha) x) (u * h)) with (- (Rpower (u * h) (2 - alpha - 1) * exp (- (u * h))))
      by (symmetry; apply is_derive_unique; apply G_derive; assumption).
    unfold Rpower. rewrite (ln_mult u h) by assumption.
    replace (exp ((2 - alpha - 1) * (ln u + ln h))) with (u * h / (exp (alpha * ln u) * exp (alpha * ln h))).
    2:{ replace ((2 - alpha - 1) * (ln u + ln h)) with (ln u + ln h + - (alpha * ln u) + - (alpha * ln h)) by ring.
        rewrite !exp_plus, !exp_Ropp, !exp_ln by assumption. field.
        split; apply Rgt_not_eq, exp_pos. }
    replace (exp ((alpha - 1) * ln u)) with (exp (alpha * ln u) / u).
    2:{ replace ((alpha - 1) * ln u) with (alpha * ln u + - ln u) by ring. rewrite exp_plus, exp_Ropp, exp_ln by assumption. reflexivity. }
    replace (exp ((1 - alpha) * ln h)) with (h / exp (alpha * ln h)).
    2:{ replace ((1 - alpha) * ln h) with (ln h + - (alpha * ln h)) by ring. rewrite exp_plus, exp_Ropp, exp_ln by assumption. reflexivity. }
    replace (- u * h) with (- (u * h)) by ring.
    generalize (exp_pos (alpha * ln u)) (exp_pos (alpha * ln h)) (exp_pos (- (u * h))).
    generalize (exp (alpha * ln u)) (exp (alpha * ln h)) (exp (- (u * h))).
    intros P Q E HP HQ HE. field. repeat split; lra.
Qed.
End Tail.

Lemma cgmy_nu_pos c g m y x : 0 < x -> cgmy_nu c g m y x = c * exp (- m * x) / Rpower x (1 + y).
Proof.
  intros H. unfold cgmy_nu. rb. rewrite Rabs_pos_eq by lra. replace (y + 1) with (1 + y) by ring. reflexivity.
Qed.
Lemma cgmy_nu_neg c g m y x : x < 0 -> cgmy_nu c g m y x = c * exp (g * x) / Rpower (- x) (1 + y).
Proof.
  intros H. unfold cgmy_nu. rb. rewrite Rabs_left by lra. replace (y + 1) with (1 + y) by ring.
  replace (- g * - x) with (g * x) by ring. reflexivity.
Qed.
Lemma cgmy_nu_nonneg c g m y x : 0 <= c -> 0 <= cgmy_nu c g m y x.
Proof.
  intros Hc. unfold cgmy_nu. destruct (Rltb x 0); [|destruct (Rltb 0 x); [|lra]];
    (apply Rmult_le_pos; [apply Rmult_le_pos; [assumption | left; apply exp_pos] | left; apply Rinv_0_lt_compat; apply exp_pos]).
Qed.

Section CgmyIntervals.
Variable G : R -> R -> R.
Hypothesis G_derive : forall s x, 0 < x -> is_derive (G s) x (- (Rpower x (s - 1) * exp (- x))).
Variables c g m y : R.
Hypothesis Hg : 0 < g.
Hypothesis Hm : 0 < m.

Lemma cont_pos_density k0 u k x : 0 < x -> continuous (fun x => k0 * (exp (- u * x) / Rpower x k)) x.
Proof. intros H. unfold Rpower. cont. repeat split; [assumption | apply Rgt_not_eq, exp_pos]. Qed.
Lemma cont_neg_density k0 u k x : x < 0 -> continuous (fun x => k0 * (exp (u * x) / Rpower (- x) k)) x.
Proof. intros H. unfold Rpower. cont. repeat split; [lra | apply Rgt_not_eq, exp_pos]. Qed.

Theorem cgmy_mass_pos_is_RInt a b : y <> 0 -> y <> 1 -> 0 < a -> a <= b ->
  is_RInt (fun x => x ^ 0 * cgmy_nu c g m y x) a b (cgmy_integrate_pos G c m y a b).
Proof.
  intros Hy0 Hy1 Ha Hab.
  apply is_RInt_ext_R with (f := fun x => c * (exp (- m * x) / Rpower x (1 + y))).
  { intros x Hx. rewrite Rmin_left, Rmax_right in Hx by assumption. rewrite cgmy_nu_pos by lra. simpl. unfold Rdiv. ring. }
  unfold cgmy_integrate_pos.
  replace (c * cgmy_tail G y a m - c * cgmy_tail G y b m) with (- c * cgmy_tail G y b m - - c * cgmy_tail G y a m) by ring.
  apply (is_RInt_derive_R (fun h => - c * cgmy_tail G y h m)).
  - intros x Hx. rewrite Rmin_left, Rmax_right in Hx by assumption. evar_last.
    + apply (is_derive_scal (fun h => cgmy_tail G y h m) x (- c)). apply cgmy_tail_derive; try assumption. lra.
    + unfold scal; simpl; unfold mult; simpl. ring.
  - intros x Hx. rewrite Rmin_left, Rmax_right in Hx by assumption. apply cont_pos_density. lra.
Qed.

Theorem cgmy_mass_neg_is_RInt a b : y <> 0 -> y <> 1 -> a <= b -> b < 0 ->
  is_RInt (fun x => x ^ 0 * cgmy_nu c g m y x) a b (cgmy_integrate_neg G c g y a b).
Proof.
  intros Hy0 Hy1 Hab Hb.
  apply is_RInt_ext_R with (f := fun x => c * (exp (g * x) / Rpower (- x) (1 + y))).
  { intros x Hx. rewrite Rmin_left, Rmax_right in Hx by assumption. rewrite cgmy_nu_neg by lra. simpl. unfold Rdiv. ring. }
  unfold cgmy_integrate_neg.
  apply (is_RInt_derive_R (fun x => c * cgmy_tail G y (- x) g)).
  - intros x Hx. rewrite Rmin_left, Rmax_right in Hx by assumption. evar_last.
    + apply (is_derive_scal (fun x => cgmy_tail G y (- x) g) x c).
      apply (is_derive_comp (fun h => cgmy_tail G y h g) (fun x => - x) x).
      * apply cgmy_tail_derive; try assumption; lra.
      * auto_derive; auto.
    + unfold scal; simpl; unfold mult; simpl. replace (- g * - x) with (g * x) by ring. unfold Rdiv. ring.
  - intros x Hx. rewrite Rmin_left, Rmax_right in Hx by assumption. apply cont_neg_density. lra.
Qed.

Theorem cgmy_x_pos_is_RInt a b : y <> 1 -> 0 < a -> a <= b ->
  is_RInt (fun x => x ^ 1 * cgmy_nu c g m y x) a b (cgmy_integrate_x_pos G c m y a b).
Proof.
  intros Hy1 Ha Hab.
  apply is_RInt_ext_R with (f := fun x => c * (exp (- m * x) / Rpower x y)).
  { intros x Hx. rewrite Rmin_left, Rmax_right in Hx by assumption. rewrite cgmy_nu_pos by lra.
    rewrite Rpower_plus, Rpower_1 by lra. simpl. field. split; [apply Rgt_not_eq, exp_pos | lra]. }
  unfold cgmy_integrate_x_pos.
  replace (c * (cgmy_tail_x G y a m - cgmy_tail_x G y b m)) with (- c * cgmy_tail_x G y b m - - c * cgmy_tail_x G y a m) by ring.
  apply (is_RInt_derive_R (fun h => - c * cgmy_tail_x G y h m)).
  - intros x Hx. rewrite Rmin_left, Rmax_right in Hx by assumption. evar_last.
    + apply (is_derive_scal (fun h => cgmy_tail_x G y h m) x (- c)). apply cgmy_tail_x_derive; try assumption. lra.
    + unfold scal; simpl; unfold mult; simpl. ring.
  - intros x Hx. rewrite Rmin_left, Rmax_right in Hx by assumption. apply cont_pos_density. lra.
Qed.

Theorem cgmy_x_neg_is_RInt a b : y <> 1 -> a <= b -> b < 0 ->
  is_RInt (fun x => x ^ 1 * cgmy_nu c g m y x) a b (cgmy_integrate_x_neg G c g y a b).
Proof.
  intros Hy1 Hab Hb.
  apply is_RInt_ext_R with (f := fun x => - c * (exp (g * x) / Rpower (- x) y)).
  { intros x Hx. rewrite Rmin_left, Rmax_right in Hx by assumption. rewrite cgmy_nu_neg by lra.
    rewrite Rpower_plus, Rpower_1 by lra. simpl. field. split; [apply Rgt_not_eq, exp_pos | lra]. }
  unfold cgmy_integrate_x_neg.
  replace (c * (cgmy_tail_x G y (- a) g - cgmy_tail_x G y (- b) g))
    with (- c * cgmy_tail_x G y (- b) g - - c * cgmy_tail_x G y (- a) g) by ring.
  apply (is_RInt_derive_R (fun x => - c * cgmy_tail_x G y (- x) g)).
  - intros x Hx. rewrite Rmin_left, Rmax_right in Hx by assumption. evar_last.
    + apply (is_derive_scal (fun x => cgmy_tail_x G y (- x) g) x (- c)).
      apply (is_derive_comp (fun h => cgmy_tail_x G y h g) (fun x => - x) x).
      * apply cgmy_tail_x_derive; try assumption; lra.
      * auto_derive; auto.
    + unfold scal; simpl; unfold mult; simpl. replace (- g * - x) with (g * x) by ring. unfold Rdiv. ring.
  - intros x Hx. rewrite Rmin_left, Rmax_right in Hx by assumption.
    apply cont_neg_density. lra.
Qed.
End CgmyIntervals.

(* ------------------------------------------------------------------ the closed forms with a single integral
   (used by the interval case lemmas of the correspondence; Gupc g0 = incomplete gamma up to the constant g0) *)
Lemma Gupc_diff g0 s x y : 0 < x -> 0 < y -> Gupc g0 s x - Gupc g0 s y = RInt (igf s) x y.
Proof.
  intros Hx Hy. unfold Gupc. fold (igf s).
  assert (H := RInt_Chasles (igf s) 1 x y (igf_ex_RInt s 1 x Rlt_0_1 Hx) (igf_ex_RInt s x y Hx Hy)).
  unfold plus in H; simpl in H. lra.
Qed.

Lemma cgmy_integrate_pos_as_RInt g0 c m y a b : 0 < m -> 0 < a -> 0 < b -> y <> 0 -> y <> 1 ->
  cgmy_integrate_pos (Gupc g0) c m y a b
  = c * (exp (- (m * a)) * (1 + m * a / (1 - y)) / (y * Rpower a y) - exp (- (m * b)) * (1 + m * b / (1 - y)) / (y * Rpower b y))
    - c * Rpower m y / (y * (1 - y)) * RInt (igf (2 - y)) (m * a) (m * b).
Proof.
  intros Hm Ha Hb Hy0 Hy1. rewrite <- Gupc_diff with (g0 := g0) by nra.
  unfold cgmy_integrate_pos, cgmy_tail. cbv beta iota zeta.
  rewrite <- !Rpower_mult_distr by assumption.
  assert (0 < Rpower a y) by apply exp_pos. assert (0 < Rpower b y) by apply exp_pos.
  field. repeat split; lra.
Qed.
Lemma cgmy_integrate_x_pos_as_RInt g0 c m y a b : 0 < m -> 0 < a -> 0 < b -> y <> 1 ->
  cgmy_integrate_x_pos (Gupc g0) c m y a b
  = c * ((Rpower a (1 - y) * exp (- (m * a)) - Rpower b (1 - y) * exp (- (m * b))) / (y - 1))
    - c * Rpower m (y - 1) / (y - 1) * RInt (igf (2 - y)) (m * a) (m * b).
Proof.
  intros Hm Ha Hb Hy1. rewrite <- Gupc_diff with (g0 := g0) by nra.
  unfold cgmy_integrate_x_pos, cgmy_tail_x. cbv beta iota zeta. field. lra.
Qed.
Lemma cgmy_integrate_neg_as_pos G c g y a b : cgmy_integrate_neg G c g y a b = cgmy_integrate_pos G c g y (- b) (- a).
Proof. reflexivity. Qed.
Lemma cgmy_integrate_x_neg_as_pos G c g y a b : cgmy_integrate_x_neg G c g y a b = - cgmy_integrate_x_pos G c g y (- b) (- a).
Proof. unfold cgmy_integrate_x_neg, cgmy_integrate_x_pos. ring. Qed.

(* ------------------------------------------------------------------ the branch structure the code executes, every y < 2 *)
Lemma E1c_derive c0 x : 0 < x -> is_derive (E1c c0) x (- (exp (- x) / x)).
Proof.
  intros Hx. unfold E1c.
  assert (Hc : forall t, 0 < t -> continuous (fun t => exp (- t) / t) t) by (intros t Ht; cont; lra).
  evar_last.
  - apply (@is_derive_minus R_AbsRing R_NormedModule).
    + apply (@is_derive_const R_AbsRing R_NormedModule).
    + apply (is_derive_RInt (fun t => exp (- t) / t) (fun x => RInt (fun t => exp (- t) / t) 1 x) 1 x).
      * assert (Hx2 : 0 < x / 2) by lra. exists (mkposreal _ Hx2). intros y Hy.
        apply (@RInt_correct R_CompleteNormedModule). apply (@ex_RInt_continuous R_CompleteNormedModule).
        change (Rabs (y - x) < x / 2) in Hy. apply Rabs_def2 in Hy.
        intros z Hz. apply Hc. assert (0 < Rmin 1 y) by (apply Rmin_pos; lra). lra.
      * apply Hc. assumption.
  - unfold minus, plus, opp, zero; simpl. ring.
Qed.

Section TailCode.
Variable E1 : R -> R.
Hypothesis E1_derive : forall x, 0 < x -> is_derive E1 x (- (exp (- x) / x)).
Variable G : R -> R -> R.
Hypothesis G_derive : forall s x, 0 < x -> is_derive (G s) x (- (Rpower x (s - 1) * exp (- x))).

Lemma E1_comp_derive u h : 0 < u -> 0 < h -> is_derive (fun h => E1 (u * h)) h (- (exp (- (u * h)) / h)).
Proof.
  intros Hu Hh. assert (Huh : 0 < u * h) by nra. evar_last.
  - apply (is_derive_comp E1 (fun h => u * h) h).
    + apply E1_derive. assumption.
    + auto_derive; auto.
  - unfold scal; simpl; unfold mult; simpl. field. split; lra.
Qed.

Lemma cgmy_tail_code_derive alpha u h : 0 < u -> 0 < h -> alpha < 2 ->
  is_derive (fun h => cgmy_tail_code E1 G alpha h u) h (- (exp (- u * h) / Rpower h (1 + alpha))).
Proof.
  intros Hu Hh Ha2. assert (Huh : 0 < u * h) by nra. unfold cgmy_tail_code.
  destruct (Req_dec alpha 0) as [E0 | N0].
  { subst alpha. rewrite Reqb_same. replace (1 + 0) with 1 by ring. rewrite Rpower_1 by assumption.
    replace (- u * h) with (- (u * h)) by ring. apply E1_comp_derive; assumption. }
  rewrite (Reqb_ne alpha 0) by assumption.
  destruct (Rle_dec 1 alpha) as [H1 | H1].
  - replace (Rleb 1 alpha) with true by (symmetry; apply Rleb_true; assumption).
    destruct (Req_dec (alpha - 1) 0) as [E1' | N1].
    + (* alpha = 1 *)
      rewrite E1'. rewrite Reqb_same. assert (alpha = 1) by lra. subst alpha.
      evar_last.
      * apply (@is_derive_minus R_AbsRing R_NormedModule).
        -- unfold Rpower. auto_derive; [|reflexivity]. repeat split; try assumption. apply Rgt_not_eq. apply Rmult_lt_0_compat; [lra | apply exp_pos].
        -- apply is_derive_scal. apply E1_comp_derive; assumption.
      * unfold minus, plus, opp, scal; simpl; unfold mult; simpl. unfold Rpower.
        replace (exp (1 * ln h)) with h by (rewrite Rmult_1_l, exp_ln; auto).
        replace (exp ((1 + 1) * ln h)) with (h * h).
        2:{ replace ((1 + 1) * ln h) with (ln h + ln h) by ring. rewrite exp_plus, exp_ln by assumption. reflexivity. }
        replace (- u * h) with (- (u * h)) by ring. field. lra.
    + (* 1 < alpha < 2: one recursion step *)
      rewrite (Reqb_ne (alpha - 1) 0) by assumption.
      evar_last.
      * apply (@is_derive_minus R_AbsRing R_NormedModule).
        -- unfold Rpower. auto_derive; [|reflexivity]. repeat split; try assumption. apply Rgt_not_eq. apply Rmult_lt_0_compat; [lra | apply exp_pos].
        -- apply is_derive_scal. apply (cgmy_tail_derive G G_derive (alpha - 1) u h); try assumption; lra.
      * unfold minus, plus, opp, scal; simpl; unfold mult; simpl. unfold Rpower.
        replace (exp ((1 + (alpha - 1)) * ln h)) with (exp (alpha * ln h)) by (f_equal; ring).
        replace (exp ((1 + alpha) * ln h)) with (h * exp (alpha * ln h)).
        2:{ replace ((1 + alpha) * ln h) with (ln h + alpha * ln h) by ring. rewrite exp_plus, exp_ln by assumption. reflexivity. }
        replace (- u * h) with (- (u * h)) by ring.
        generalize (exp_pos (alpha * ln h)) (exp_pos (- (u * h))). generalize (exp (alpha * ln h)) (exp (- (u * h))).
        intros Q E HQ HE. field. repeat split; lra.
  - replace (Rleb 1 alpha) with false by (symmetry; apply Rleb_false; lra).
    apply (cgmy_tail_derive G G_derive alpha u h); try assumption; lra.
Qed.

Lemma cgmy_tail_x_code_derive alpha u h : 0 < u -> 0 < h ->
  is_derive (fun h => cgmy_tail_x_code E1 G alpha h u) h (- (exp (- u * h) / Rpower h alpha)).
Proof.
  intros Hu Hh. unfold cgmy_tail_x_code. destruct (Req_dec alpha 1) as [E | N].
  - subst alpha. rewrite Reqb_same. rewrite Rpower_1 by assumption. replace (- u * h) with (- (u * h)) by ring.
    apply E1_comp_derive; assumption.
  - rewrite (Reqb_ne alpha 1) by assumption. apply (cgmy_tail_x_derive G G_derive alpha u h); assumption.
Qed.

Variables c g m y : R.
Hypothesis Hg : 0 < g.
Hypothesis Hm : 0 < m.
Hypothesis Hy : y < 2.

Theorem cgmy_mass_pos_code_is_RInt a b : 0 < a -> a <= b ->
  is_RInt (fun x => x ^ 0 * cgmy_nu c g m y x) a b (cgmy_mass_pos_code E1 G c m y a b).
Proof.
  intros Ha Hab.
  apply is_RInt_ext_R with (f := fun x => c * (exp (- m * x) / Rpower x (1 + y))).
  { intros x Hx. rewrite Rmin_left, Rmax_right in Hx by assumption. rewrite cgmy_nu_pos by lra. simpl. unfold Rdiv. ring. }
  unfold cgmy_mass_pos_code.
  replace (c * cgmy_tail_code E1 G y a m - c * cgmy_tail_code E1 G y b m)
    with (- c * cgmy_tail_code E1 G y b m - - c * cgmy_tail_code E1 G y a m) by ring.
  apply (is_RInt_derive_R (fun h => - c * cgmy_tail_code E1 G y h m)).
  - intros x Hx. rewrite Rmin_left, Rmax_right in Hx by assumption. evar_last.
    + apply (is_derive_scal (fun h => cgmy_tail_code E1 G y h m) x (- c)). apply cgmy_tail_code_derive; try assumption. lra.
    + unfold scal; simpl; unfold mult; simpl. ring.
  - intros x Hx. rewrite Rmin_left, Rmax_right in Hx by assumption. apply cont_pos_density. lra.
Qed.
Theorem cgmy_mass_neg_code_is_RInt a b : a <= b -> b < 0 ->
  is_RInt (fun x => x ^ 0 * cgmy_nu c g m y x) a b (cgmy_mass_neg_code E1 G c g y a b).
Proof.
  intros Hab Hb.
  apply is_RInt_ext_R with (f := fun x => c * (exp (g * x) / Rpower (- x) (1 + y))).
  { intros x Hx. rewrite Rmin_left, Rmax_right in Hx by assumption. rewrite cgmy_nu_neg by lra. simpl. unfold Rdiv. ring. }
  unfold cgmy_mass_neg_code.
  apply (is_RInt_derive_R (fun x => c * cgmy_tail_code E1 G y (- x) g)).
  - intros x Hx. rewrite Rmin_left, Rmax_right in Hx by assumption. evar_last.
    + apply (is_derive_scal (fun x => cgmy_tail_code E1 G y (- x) g) x c).
      apply (is_derive_comp (fun h => cgmy_tail_code E1 G y h g) (fun x => - x) x).
      * apply cgmy_tail_code_derive; try assumption; lra.
      * auto_derive; auto.
    + unfold scal; simpl; unfold mult; simpl. replace (- g * - x) with (g * x) by ring. unfold Rdiv. ring.
  - intros x Hx. rewrite Rmin_left, Rmax_right in Hx by assumption. apply cont_neg_density. lra.
Qed.
Theorem cgmy_x_pos_code_is_RInt a b : 0 < a -> a <= b ->
  is_RInt (fun x => x ^ 1 * cgmy_nu c g m y x) a b (cgmy_x_pos_code E1 G c m y a b).
Proof.
  intros Ha Hab.
  apply is_RInt_ext_R with (f := fun x => c * (exp (- m * x) / Rpower x y)).
  { intros x Hx. rewrite Rmin_left, Rmax_right in Hx by assumption. rewrite cgmy_nu_pos by lra.
    rewrite Rpower_plus, Rpower_1 by lra. simpl. field. split; [apply Rgt_not_eq, exp_pos | lra]. }
  unfold cgmy_x_pos_code.
  replace (c * (cgmy_tail_x_code E1 G y a m - cgmy_tail_x_code E1 G y b m))
    with (- c * cgmy_tail_x_code E1 G y b m - - c * cgmy_tail_x_code E1 G y a m) by ring.
  apply (is_RInt_derive_R (fun h => - c * cgmy_tail_x_code E1 G y h m)).
  - intros x Hx. rewrite Rmin_left, Rmax_right in Hx by assumption. evar_last.
    + apply (is_derive_scal (fun h => cgmy_tail_x_code E1 G y h m) x (- c)). apply cgmy_tail_x_code_derive; try assumption. lra.
    + unfold scal; simpl; unfold mult; simpl. ring.
  - intros x Hx. rewrite Rmin_left, Rmax_right in Hx by assumption. apply cont_pos_density. lra.
Qed.
Theorem cgmy_x_neg_code_is_RInt a b : a <= b -> b < 0 ->
  is_RInt (fun x => x ^ 1 * cgmy_nu c g m y x) a b (cgmy_x_neg_code E1 G c g y a b).
Proof.
  intros Hab Hb.
  apply is_RInt_ext_R with (f := fun x => - c * (exp (g * x) / Rpower (- x) y)).
  { intros x Hx. rewrite Rmin_left, Rmax_right in Hx by assumption. rewrite cgmy_nu_neg by lra.
    rewrite Rpower_plus, Rpower_1 by lra. simpl. field. split; [apply Rgt_not_eq, exp_pos | lra]. }
  unfold cgmy_x_neg_code.
  replace (c * (cgmy_tail_x_code E1 G y (- a) g - cgmy_tail_x_code E1 G y (- b) g))
    with (- c * cgmy_tail_x_code E1 G y (- b) g - - c * cgmy_tail_x_code E1 G y (- a) g) by ring.
  apply (is_RInt_derive_R (fun x => - c * cgmy_tail_x_code E1 G y (- x) g)).
  - intros x Hx. rewrite Rmin_left, Rmax_right in Hx by assumption. evar_last.
    + apply (is_derive_scal (fun x => cgmy_tail_x_code E1 G y (- x) g) x (- c)).
      apply (is_derive_comp (fun h => cgmy_tail_x_code E1 G y h g) (fun x => - x) x).
      * apply cgmy_tail_x_code_derive; try assumption; lra.
      * auto_derive; auto.
    + unfold scal; simpl; unfold mult; simpl. replace (- g * - x) with (g * x) by ring. unfold Rdiv. ring.
  - intros x Hx. rewrite Rmin_left, Rmax_right in Hx by assumption. apply cont_neg_density. lra.
Qed.
End TailCode.

(* ------------------------------------------------------------------ which branch the executed structure takes
   (used by the interval case lemmas; E1 = E1c c0, G = Gupc g0) *)
Section CodeBranches.
Variables (E1 : R -> R) (G : R -> R -> R) (c u y a b : R).
Lemma cgmy_mass_pos_code_lt1 : y <> 0 -> y < 1 -> cgmy_mass_pos_code E1 G c u y a b = cgmy_integrate_pos G c u y a b.
Proof.
  intros H0 H1. unfold cgmy_mass_pos_code, cgmy_integrate_pos, cgmy_tail_code.
  rewrite (Reqb_ne y 0) by assumption. replace (Rleb 1 y) with false by (symmetry; apply Rleb_false; lra). reflexivity.
Qed.
Lemma cgmy_mass_pos_code_rec : 1 < y -> cgmy_mass_pos_code E1 G c u y a b
  = c * (exp (- (u * a)) / (y * Rpower a y) - exp (- (u * b)) / (y * Rpower b y)) - u / y * cgmy_integrate_pos G c u (y - 1) a b.
Proof.
  intros H1. unfold cgmy_mass_pos_code, cgmy_integrate_pos, cgmy_tail_code.
  rewrite (Reqb_ne y 0) by lra. replace (Rleb 1 y) with true by (symmetry; apply Rleb_true; lra).
  rewrite (Reqb_ne (y - 1) 0) by lra. ring.
Qed.
Lemma cgmy_x_pos_code_ne1 : y <> 1 -> cgmy_x_pos_code E1 G c u y a b = cgmy_integrate_x_pos G c u y a b.
Proof. intros H1. unfold cgmy_x_pos_code, cgmy_integrate_x_pos, cgmy_tail_x_code. rewrite (Reqb_ne y 1) by assumption. reflexivity. Qed.
Lemma cgmy_mass_neg_code_as_pos : cgmy_mass_neg_code E1 G c u y a b = cgmy_mass_pos_code E1 G c u y (- b) (- a).
Proof. reflexivity. Qed.
Lemma cgmy_x_neg_code_as_pos : cgmy_x_neg_code E1 G c u y a b = - cgmy_x_pos_code E1 G c u y (- b) (- a).
Proof. unfold cgmy_x_neg_code, cgmy_x_pos_code. ring. Qed.
End CodeBranches.
Lemma cgmy_mass_pos_code_y0 c0 G c u a b : 0 < u -> 0 < a -> 0 < b ->
  cgmy_mass_pos_code (E1c c0) G c u 0 a b = c * RInt e1f (u * a) (u * b).
Proof.
  intros Hu Ha Hb. unfold cgmy_mass_pos_code, cgmy_tail_code. rewrite Reqb_same.
  rewrite <- (E1c_diff c0 (u * a) (u * b)) by nra. ring.
Qed.
Lemma cgmy_mass_pos_code_y1 c0 G c u a b : 0 < u -> 0 < a -> 0 < b ->
  cgmy_mass_pos_code (E1c c0) G c u 1 a b
  = c * (exp (- (u * a)) / a - exp (- (u * b)) / b) - c * u * RInt e1f (u * a) (u * b).
Proof.
  intros Hu Ha Hb. unfold cgmy_mass_pos_code, cgmy_tail_code.
  rewrite (Reqb_ne 1 0) by lra. replace (Rleb 1 1) with true by (symmetry; apply Rleb_true; lra).
  replace (1 - 1) with 0 by ring. rewrite Reqb_same. rewrite !Rpower_1 by assumption.
  rewrite <- (E1c_diff c0 (u * a) (u * b)) by nra. field. split; lra.
Qed.
Lemma cgmy_x_pos_code_y1 c0 G c u a b : 0 < u -> 0 < a -> 0 < b ->
  cgmy_x_pos_code (E1c c0) G c u 1 a b = c * RInt e1f (u * a) (u * b).
Proof.
  intros Hu Ha Hb. unfold cgmy_x_pos_code, cgmy_tail_x_code. rewrite Reqb_same.
  rewrite <- (E1c_diff c0 (u * a) (u * b)) by nra. ring.
Qed.

(* C09 (wave 6) -- the CGMY measure REGENERATED from cgmy.py (Gen.GenC09Cgmy, knots tied in Model/CgmyGen.v):
     * the generated definitions are the hand model of wave 5 on the domain of the theorems (h <> 0, alpha < 2), with
       Gup s x := Gamma s * gammaincc s x  -- so every theorem of Proofs/C09_Cgmy.v is restated on what py2coq reads in the source;
     * the unrolled self-calls never reach the default callee;
     * branch facts of the generated integrate (a point has mass 0; an interval of positive length that touches zero has infinite
       mass when y >= 0 and the code answers the token INF). *)
From Coq Require Import Reals Lra Psatz Bool.
From Coquelicot Require Import Coquelicot.
From RV Require Import Base.RB Base.RSpecial Gen.GenC09Cgmy Model.LevyClosedForms Model.CgmyGen
  Proofs.C09_Generic Proofs.C09_Vg Proofs.C09_Cgmy Proofs.C09_Instances Proofs.C09_GenericQuad.
Open Scope R_scope.

Lemma zero_over_one : IZR 0 / IZR 1 = 0.
Proof. field. Qed.
Lemma one_over_one : IZR 1 / IZR 1 = 1.
Proof. field. Qed.

Lemma cgmy_density_is_nu c g m y x : cgmy_density c g m y x = cgmy_nu c g m y x.
Proof. reflexivity. Qed.

Section Gen.
Variables (exp1 Gamma : R -> R) (gammaincc : R -> R -> R).
(* G is the product gamma(s) * gammaincc(s, x) the code forms (pointwise: no functional extensionality needed) *)
Variable G : R -> R -> R.
Hypothesis HG : forall s x, Gamma s * gammaincc s x = G s x.

(* ---------------------------------------------------------------- __integrate_h_to_inf *)
Lemma h_to_inf_F_lt1 rec alpha h u : h <> 0 -> alpha <> 0 -> alpha < 1 ->
  cgmy_h_to_inf_F exp1 Gamma gammaincc rec alpha h u = cgmy_tail G alpha h u.
Proof.
  intros Hh H0 H1. unfold cgmy_h_to_inf_F, cgmy_tail. cbv zeta. rewrite <- HG.
  rewrite (Reqb_ne alpha 0), (Reqb_ne h 0) by assumption. cbn [andb].
  replace (Rleb 1 alpha) with false by (symmetry; apply Rleb_false; lra).
  unfold Rdiv. ring.
Qed.

Lemma cgmy_h2inf_is_tail_code alpha h u : h <> 0 -> alpha < 2 ->
  cgmy_h2inf exp1 Gamma gammaincc alpha h u = cgmy_tail_code exp1 G alpha h u.
Proof.
  intros Hh H2. unfold cgmy_h2inf, cgmy_tail_code.
  destruct (Req_dec alpha 0) as [E0 | N0].
  { unfold cgmy_h_to_inf_F. cbv zeta. subst alpha. rewrite !Reqb_same. reflexivity. }
  destruct (Rle_dec 1 alpha) as [L1 | L1].
  - unfold cgmy_h_to_inf_F at 1. cbv zeta.
    rewrite (Reqb_ne alpha 0), (Reqb_ne h 0) by assumption. cbn [andb].
    replace (Rleb 1 alpha) with true by (symmetry; apply Rleb_true; lra).
    destruct (Req_dec (alpha - 1) 0) as [E1 | N1].
    + unfold cgmy_h_to_inf_F. cbv zeta. rewrite E1, !Reqb_same. unfold Rdiv. ring.
    + rewrite (Reqb_ne (alpha - 1) 0) by assumption.
      rewrite h_to_inf_F_lt1 by (try assumption; lra). unfold Rdiv. ring.
  - rewrite (Reqb_ne alpha 0) by assumption.
    replace (Rleb 1 alpha) with false by (symmetry; apply Rleb_false; lra).
    apply h_to_inf_F_lt1; try assumption; lra.
Qed.

(* the unrolling is complete: for alpha < 2 the default callee is never reached *)
Lemma cgmy_h2inf_unroll_complete d alpha h u : alpha < 2 ->
  cgmy_h_to_inf_F exp1 Gamma gammaincc (cgmy_h_to_inf_F exp1 Gamma gammaincc d) alpha h u = cgmy_h2inf exp1 Gamma gammaincc alpha h u.
Proof.
  intros H2. unfold cgmy_h2inf.
  unfold cgmy_h_to_inf_F at 1 3. cbv zeta.
  destruct (Reqb alpha 0); [reflexivity|].
  destruct (Reqb h 0 && Rltb alpha 0); [reflexivity|].
  destruct (Rleb 1 alpha); [|reflexivity].
  f_equal. f_equal.
  unfold cgmy_h_to_inf_F. cbv zeta.
  destruct (Reqb (alpha - 1) 0); [reflexivity|].
  destruct (Reqb h 0 && Rltb (alpha - 1) 0); [reflexivity|].
  replace (Rleb 1 (alpha - 1)) with false by (symmetry; apply Rleb_false; lra). reflexivity.
Qed.

(* ---------------------------------------------------------------- __integrate_h_to_inf_for_xx *)
Lemma cgmy_hxx_is_tail_x_code INF alpha h u : h <> 0 ->
  cgmy_h_to_inf_for_xx exp1 Gamma gammaincc INF alpha h u = cgmy_tail_x_code exp1 G alpha h u.
Proof.
  intros Hh. unfold cgmy_h_to_inf_for_xx, cgmy_tail_x_code, cgmy_tail_x. cbv zeta. rewrite <- HG.
  rewrite one_over_one, (Reqb_ne h 0) by assumption. cbn [andb].
  destruct (Reqb alpha 1); [reflexivity|]. unfold Rdiv. ring.
Qed.

(* ---------------------------------------------------------------- integrate / integrate_against_x on one side of zero *)
Lemma cgmy_integrate_is_pos_code INF c g m y a b : y < 2 -> 0 < a -> a <= b -> b < INF ->
  cgmy_integrate exp1 Gamma gammaincc INF c g m y a b = cgmy_mass_pos_code exp1 G c m y a b.
Proof.
  intros Hy Ha Hab Hb. unfold cgmy_integrate, cgmy_integrate_F at 1, cgmy_mass_pos_code.
  destruct (Req_dec a b) as [E | N].
  { subst b. rewrite Reqb_same, zero_over_one. ring. }
  rewrite (Reqb_ne a b) by assumption. rb. cbn [andb].
  rewrite (Reqb_ne b INF), (Reqb_ne a (- INF)) by lra.
  unfold cgmy_a2b, cgmy_a_to_b_F at 1. rb. cbn [andb].
  unfold cgmy_a2inf, cgmy_a_to_inf. rewrite !cgmy_h2inf_is_tail_code by (try assumption; lra). reflexivity.
Qed.

Lemma cgmy_integrate_is_neg_code INF c g m y a b : y < 2 -> - INF < a -> a <= b -> b < 0 ->
  cgmy_integrate exp1 Gamma gammaincc INF c g m y a b = cgmy_mass_neg_code exp1 G c g y a b.
Proof.
  intros Hy Ha Hab Hb. unfold cgmy_integrate, cgmy_integrate_F at 1, cgmy_mass_neg_code.
  destruct (Req_dec a b) as [E | N].
  { subst b. rewrite Reqb_same, zero_over_one. ring. }
  rewrite (Reqb_ne a b) by assumption. rb. cbn [andb]. rewrite ?andb_false_r. cbn [andb].
  rewrite (Reqb_ne b INF), (Reqb_ne a (- INF)) by lra.
  unfold cgmy_a2b, cgmy_a_to_b_F at 1. rb. cbn [andb].
  unfold cgmy_inf2b, cgmy_inf_to_b. rewrite !cgmy_h2inf_is_tail_code by (try assumption; lra). reflexivity.
Qed.

Lemma cgmy_integrate_x_is_pos_code INF c g m y a b : 0 < a -> a <= b -> b < INF ->
  cgmy_integrate_x exp1 Gamma gammaincc INF c g m y a b = cgmy_x_pos_code exp1 G c m y a b.
Proof.
  intros Ha Hab Hb. unfold cgmy_integrate_x, cgmy_integrate_x_F at 1, cgmy_x_pos_code. cbv zeta.
  destruct (Req_dec a b) as [E | N].
  { subst b. rewrite Reqb_same, zero_over_one. ring. }
  rewrite (Reqb_ne a b) by assumption. rb. rewrite (Reqb_ne b INF) by lra.
  rewrite !cgmy_hxx_is_tail_x_code by lra. reflexivity.
Qed.

Lemma cgmy_integrate_x_is_neg_code INF c g m y a b : - INF < a -> a <= b -> b < 0 ->
  cgmy_integrate_x exp1 Gamma gammaincc INF c g m y a b = cgmy_x_neg_code exp1 G c g y a b.
Proof.
  intros Ha Hab Hb. unfold cgmy_integrate_x, cgmy_integrate_x_F at 1, cgmy_x_neg_code. cbv zeta.
  destruct (Req_dec a b) as [E | N].
  { subst b. rewrite Reqb_same, zero_over_one. ring. }
  rewrite (Reqb_ne a b) by assumption. rb. rewrite (Reqb_ne a (- INF)) by lra.
  rewrite !cgmy_hxx_is_tail_x_code by lra. reflexivity.
Qed.

(* ---------------------------------------------------------------- the self-calls of integrate / integrate_against_x / a_to_b
   on (a, 0.0) and (0.0, b) never call themselves again: the result does not depend on the default callee *)
Lemma integrate_x_F_no_rec d d' INF c g m y a b : a = 0 \/ b = 0 ->
  cgmy_integrate_x_F exp1 Gamma gammaincc d INF c g m y a b = cgmy_integrate_x_F exp1 Gamma gammaincc d' INF c g m y a b.
Proof.
  intros H. unfold cgmy_integrate_x_F. cbv zeta.
  destruct (Reqb a b); [reflexivity|]. destruct H as [-> | ->].
  - rb. reflexivity.
  - destruct (Rleb 0 a); [reflexivity|]. rb. reflexivity.
Qed.
Lemma cgmy_integrate_x_unroll_complete d INF c g m y a b :
  cgmy_integrate_x_F exp1 Gamma gammaincc (cgmy_integrate_x_F exp1 Gamma gammaincc d INF c g m y) INF c g m y a b
  = cgmy_integrate_x exp1 Gamma gammaincc INF c g m y a b.
Proof.
  unfold cgmy_integrate_x. unfold cgmy_integrate_x_F at 1 3. cbv zeta. rewrite zero_over_one.
  destruct (Reqb a b); [reflexivity|]. destruct (Rleb 0 a); [reflexivity|]. destruct (Rleb b 0); [reflexivity|].
  f_equal; apply integrate_x_F_no_rec; auto.
Qed.

(* ---------------------------------------------------------------- branch facts of the generated integrate *)
Lemma cgmy_integrate_point INF c g m y a : cgmy_integrate exp1 Gamma gammaincc INF c g m y a a = 0.
Proof. unfold cgmy_integrate, cgmy_integrate_F at 1. rewrite Reqb_same. apply zero_over_one. Qed.

Lemma cgmy_integrate_infinite INF c g m y a b : a < b -> a <= 0 <= b -> 0 <= y ->
  cgmy_integrate exp1 Gamma gammaincc INF c g m y a b = INF.
Proof.
  intros Hab [Ha Hb] Hy. unfold cgmy_integrate, cgmy_integrate_F at 1.
  rewrite (Reqb_ne a b) by lra. rb. reflexivity.
Qed.
End Gen.

(* ---------------------------------------------------------------- the theorems of wave 5, restated on the generated definitions *)
Section Restated.
Variables (exp1 Gamma : R -> R) (gammaincc : R -> R -> R).
Hypothesis exp1_derive : forall x, 0 < x -> is_derive exp1 x (- (exp (- x) / x)).
Hypothesis Gup_derive : forall s x, 0 < x -> is_derive (fun x => Gamma s * gammaincc s x) x (- (Rpower x (s - 1) * exp (- x))).

Let G := Gup_of Gamma gammaincc.
Lemma G_derive : forall s x, 0 < x -> is_derive (G s) x (- (Rpower x (s - 1) * exp (- x))).
Proof. exact Gup_derive. Qed.
Lemma G_is_product : forall s x, Gamma s * gammaincc s x = G s x.
Proof. reflexivity. Qed.

Theorem c09_cgmy_gen_mass_pf INF c g m y : 0 < g -> 0 < m -> y < 2 ->
  (forall a b, 0 < a -> a <= b -> b < INF ->
     is_RInt (fun x => x ^ 0 * cgmy_density c g m y x) a b (cgmy_integrate exp1 Gamma gammaincc INF c g m y a b)) /\
  (forall a b, - INF < a -> a <= b -> b < 0 ->
     is_RInt (fun x => x ^ 0 * cgmy_density c g m y x) a b (cgmy_integrate exp1 Gamma gammaincc INF c g m y a b)).
Proof.
  intros Hg Hm Hy. split; intros a b H1 H2 H3.
  - rewrite (cgmy_integrate_is_pos_code exp1 Gamma gammaincc G G_is_product) by assumption.
    apply cgmy_mass_pos_code_is_RInt; first [assumption | exact G_derive].
  - rewrite (cgmy_integrate_is_neg_code exp1 Gamma gammaincc G G_is_product) by assumption.
    apply cgmy_mass_neg_code_is_RInt; first [assumption | exact G_derive].
Qed.

Theorem c09_cgmy_gen_x_pf INF c g m y : 0 < g -> 0 < m ->
  (forall a b, 0 < a -> a <= b -> b < INF ->
     is_RInt (fun x => x ^ 1 * cgmy_density c g m y x) a b (cgmy_integrate_x exp1 Gamma gammaincc INF c g m y a b)) /\
  (forall a b, - INF < a -> a <= b -> b < 0 ->
     is_RInt (fun x => x ^ 1 * cgmy_density c g m y x) a b (cgmy_integrate_x exp1 Gamma gammaincc INF c g m y a b)).
Proof.
  intros Hg Hm. split; intros a b H1 H2 H3.
  - rewrite (cgmy_integrate_x_is_pos_code exp1 Gamma gammaincc G G_is_product) by assumption.
    apply cgmy_x_pos_code_is_RInt; first [assumption | exact G_derive].
  - rewrite (cgmy_integrate_x_is_neg_code exp1 Gamma gammaincc G G_is_product) by assumption.
    apply cgmy_x_neg_code_is_RInt; first [assumption | exact G_derive].
Qed.
Theorem c09_cgmy_gen_additive_sign_pf INF c g m y : 0 <= c -> 0 < g -> 0 < m -> y < 2 ->
  let I := cgmy_integrate exp1 Gamma gammaincc INF c g m y in let Ix := cgmy_integrate_x exp1 Gamma gammaincc INF c g m y in
  (forall a b cc, 0 < a -> a <= b <= cc -> cc < INF ->
     I a cc = I a b + I b cc /\ Ix a cc = Ix a b + Ix b cc /\ 0 <= I a cc /\ 0 <= Ix a cc) /\
  (forall a b cc, - INF < a -> a <= b <= cc -> cc < 0 ->
     I a cc = I a b + I b cc /\ Ix a cc = Ix a b + Ix b cc /\ 0 <= I a cc /\ Ix a cc <= 0).
Proof.
  intros Hc Hg Hm Hy I Ix.
  destruct (cgmy_additive_sign exp1 G exp1_derive G_derive c g m y Hc Hg Hm Hy) as [Hp Hn].
  split; intros a b cc Ha [Hab Hbc] Hcc; unfold I, Ix.
  - rewrite !(cgmy_integrate_is_pos_code exp1 Gamma gammaincc G G_is_product) by lra.
    rewrite !(cgmy_integrate_x_is_pos_code exp1 Gamma gammaincc G G_is_product) by lra.
    apply Hp; [assumption | split; assumption].
  - rewrite !(cgmy_integrate_is_neg_code exp1 Gamma gammaincc G G_is_product) by lra.
    rewrite !(cgmy_integrate_x_is_neg_code exp1 Gamma gammaincc G G_is_product) by lra.
    apply Hn; [assumption | split; assumption].
Qed.
End Restated.

(* ---------------------------------------------------------------- statements of Properties/C09.v *)
Lemma c09_cgmy_gen_is_hand_model_pf : forall (exp1 Gamma : R -> R) (gammaincc : R -> R -> R) INF c g m y,
  (forall a b, 0 < a -> a <= b -> b < INF ->
     (y < 2 -> cgmy_integrate exp1 Gamma gammaincc INF c g m y a b = cgmy_mass_pos_code exp1 (Gup_of Gamma gammaincc) c m y a b) /\
     cgmy_integrate_x exp1 Gamma gammaincc INF c g m y a b = cgmy_x_pos_code exp1 (Gup_of Gamma gammaincc) c m y a b) /\
  (forall a b, - INF < a -> a <= b -> b < 0 ->
     (y < 2 -> cgmy_integrate exp1 Gamma gammaincc INF c g m y a b = cgmy_mass_neg_code exp1 (Gup_of Gamma gammaincc) c g y a b) /\
     cgmy_integrate_x exp1 Gamma gammaincc INF c g m y a b = cgmy_x_neg_code exp1 (Gup_of Gamma gammaincc) c g y a b).
Proof.
  intros exp1 Gamma gammaincc INF c g m y.
  assert (HG : forall s x, Gamma s * gammaincc s x = Gup_of Gamma gammaincc s x) by reflexivity.
  split; intros a b H1 H2 H3; split.
  - intros Hy. apply cgmy_integrate_is_pos_code; assumption.
  - apply cgmy_integrate_x_is_pos_code; assumption.
  - intros Hy. apply cgmy_integrate_is_neg_code; assumption.
  - apply cgmy_integrate_x_is_neg_code; assumption.
Qed.

Lemma c09_cgmy_gen_unroll_complete_pf : forall (exp1 Gamma : R -> R) (gammaincc : R -> R -> R),
  (forall d alpha h u, alpha < 2 ->
     cgmy_h_to_inf_F exp1 Gamma gammaincc (cgmy_h_to_inf_F exp1 Gamma gammaincc d) alpha h u = cgmy_h2inf exp1 Gamma gammaincc alpha h u) /\
  (forall d INF c g m y a b,
     cgmy_integrate_x_F exp1 Gamma gammaincc (cgmy_integrate_x_F exp1 Gamma gammaincc d INF c g m y) INF c g m y a b
     = cgmy_integrate_x exp1 Gamma gammaincc INF c g m y a b).
Proof.
  intros. split; intros.
  - apply cgmy_h2inf_unroll_complete. assumption.
  - apply cgmy_integrate_x_unroll_complete.
Qed.

Lemma c09_cgmy_gen_mass_branches_pf : forall (exp1 Gamma : R -> R) (gammaincc : R -> R -> R) INF c g m y,
  (forall a, cgmy_integrate exp1 Gamma gammaincc INF c g m y a a = 0) /\
  (forall a b, a < b -> a <= 0 <= b -> 0 <= y -> cgmy_integrate exp1 Gamma gammaincc INF c g m y a b = INF).
Proof. intros. split; intros. apply cgmy_integrate_point. apply cgmy_integrate_infinite; assumption. Qed.

Lemma c09_cgmy_gen_nonvacuous_pf : forall c0 g0,
  (forall x, 0 < x -> is_derive (E1c c0) x (- (exp (- x) / x))) /\
  (forall s x, 0 < x -> is_derive (fun x => (fun _ : R => 1) s * Gupc g0 s x) x (- (Rpower x (s - 1) * exp (- x)))) /\
  cgmy_integrate (E1c c0) (fun _ => 1) (Gupc g0) 9 1 3 5 (1 / 2) 1 2 = cgmy_mass_pos_code (E1c c0) (Gupc g0) 1 5 (1 / 2) 1 2 /\
  cgmy_integrate_x (E1c c0) (fun _ => 1) (Gupc g0) 9 1 3 5 (1 / 2) (-2) (-1) = cgmy_x_neg_code (E1c c0) (Gupc g0) 1 3 (1 / 2) (-2) (-1).
Proof.
  intros c0 g0. split; [|split; [|split]].
  - intros x Hx. apply E1c_derive. assumption.
  - intros s x Hx. apply (is_derive_ext (Gupc g0 s)); [intros t; symmetry; apply Rmult_1_l | apply Gupc_derive; assumption].
  - apply cgmy_integrate_is_pos_code; try lra. intros; ring.
  - apply cgmy_integrate_x_is_neg_code; try lra. intros; ring.
Qed.

(* C09 (wave 6) -- the CGMY measure REGENERATED from cgmy.py (Gen.GenC09Cgmy, knots tied in Model/CgmyGen.v):
     * the generated definitions are the hand model of wave 5 on the domain of the theorems (h <> 0, alpha < 2), with
       Gup s x := Gamma s * gammaincc s x  -- so every theorem of Proofs/C09_Cgmy.v is restated on what py2coq reads in the source;
     * the unrolled self-calls never reach the default callee;
     * branch facts of the generated integrate (a point has mass 0; an interval of positive length that touches zero has infinite
       mass when y >= 0 and the code answers the token INF). *)
From Coq Require Import Reals Lra Psatz Bool.
From Coquelicot Require Import Coquelicot.
From RV Require Import Base.RB Base.RSpecial Model.PyPow Gen.GenC09Cgmy Model.LevyClosedForms Model.CgmyGen
  Proofs.C09_Generic Proofs.C09_Vg Proofs.C09_Cgmy Proofs.C09_Instances Proofs.C09_GenericQuad.
Open Scope R_scope.

Lemma zero_over_one : IZR 0 / IZR 1 = 0.
Proof. field. Qed.
Lemma one_over_one : IZR 1 / IZR 1 = 1.
Proof. field. Qed.

Lemma cgmy_density_is_nu c g m y x : cgmy_density c g m y x = cgmy_nu c g m y x.
Proof. reflexivity. Qed.

Section Gen.
Variable sf : SpecialFns.
(* G is the product gamma(s) * gammaincc(s, x) the code forms (pointwise: no functional extensionality needed) *)
Variable G : R -> R -> R.
Hypothesis HG : forall s x, sf_Gamma sf s * sf_gammaincc sf s x = G s x.

(* ---------------------------------------------------------------- __integrate_h_to_inf *)
Lemma h_to_inf_F_lt1 rec alpha h u : h <> 0 -> u <> 0 -> alpha <> 0 -> alpha < 1 ->
  cgmy_h_to_inf_F sf rec alpha h u = cgmy_tail G alpha h u.
Proof.
  intros Hh Hu H0 H1. assert (Huh : u * h <> 0) by (apply Rmult_integral_contrapositive_currified; assumption).
  unfold cgmy_h_to_inf_F, cgmy_tail. cbv zeta. rewrite <- HG. rewrite !pypow_ne0 by assumption.
  rewrite (Reqb_ne alpha 0), (Reqb_ne h 0) by assumption. cbn [andb].
  replace (Rleb 1 alpha) with false by (symmetry; apply Rleb_false; lra).
  unfold Rdiv. ring.
Qed.

Lemma cgmy_h2inf_is_tail_code alpha h u : h <> 0 -> u <> 0 -> alpha < 2 ->
  cgmy_h2inf sf alpha h u = cgmy_tail_code (sf_exp1 sf) G alpha h u.
Proof.
  intros Hh Hu H2. unfold cgmy_h2inf, cgmy_tail_code.
  destruct (Req_dec alpha 0) as [E0 | N0].
  { unfold cgmy_h_to_inf_F. cbv zeta. subst alpha. rewrite !Reqb_same. reflexivity. }
  destruct (Rle_dec 1 alpha) as [L1 | L1].
  - unfold cgmy_h_to_inf_F at 1. cbv zeta.
    rewrite (Reqb_ne alpha 0), (Reqb_ne h 0) by assumption. cbn [andb].
    replace (Rleb 1 alpha) with true by (symmetry; apply Rleb_true; lra).
    destruct (Req_dec (alpha - 1) 0) as [E1 | N1].
    + unfold cgmy_h_to_inf_F. cbv zeta. rewrite E1, !Reqb_same. rewrite !pypow_ne0 by assumption. unfold Rdiv. ring.
    + rewrite (Reqb_ne (alpha - 1) 0) by assumption.
      rewrite h_to_inf_F_lt1 by (try assumption; lra). rewrite !pypow_ne0 by assumption. unfold Rdiv. ring.
  - rewrite (Reqb_ne alpha 0) by assumption.
    replace (Rleb 1 alpha) with false by (symmetry; apply Rleb_false; lra).
    apply h_to_inf_F_lt1; try assumption; lra.
Qed.

(* the unrolling is complete: for alpha < 2 the default callee is never reached *)
Lemma cgmy_h2inf_unroll_complete d alpha h u : alpha < 2 ->
  cgmy_h_to_inf_F sf (cgmy_h_to_inf_F sf d) alpha h u = cgmy_h2inf sf alpha h u.
Proof.
  intros H2. unfold cgmy_h2inf.
  unfold cgmy_h_to_inf_F at 1 3. cbv zeta.
  destruct (Reqb alpha 0); [reflexivity|].
  destruct (Reqb h 0 && Rltb alpha 0); [reflexivity|].
  destruct (Rleb 1 alpha); [|reflexivity].
  f_equal. f_equal.
  unfold cgmy_h_to_inf_F. cbv zeta.
  destruct (Reqb (alpha - 1) 0); [reflexivity|].
  destruct (Reqb h 0 && Rltb (alpha - 1) 0); [reflexivity|].
  replace (Rleb 1 (alpha - 1)) with false by (symmetry; apply Rleb_false; lra). reflexivity.
Qed.

(* ---------------------------------------------------------------- __integrate_h_to_inf_for_xx *)
Lemma cgmy_hxx_is_tail_x_code INF alpha h u : h <> 0 -> u <> 0 ->
  cgmy_h_to_inf_for_xx sf INF alpha h u = cgmy_tail_x_code (sf_exp1 sf) G alpha h u.
Proof.
  intros Hh Hu. unfold cgmy_h_to_inf_for_xx, cgmy_tail_x_code, cgmy_tail_x. cbv zeta. rewrite <- HG. rewrite !pypow_ne0 by assumption.
  rewrite one_over_one, (Reqb_ne h 0) by assumption. cbn [andb].
  destruct (Reqb alpha 1); [reflexivity|]. unfold Rdiv. ring.
Qed.

(* ---------------------------------------------------------------- integrate / integrate_against_x on one side of zero *)
Lemma cgmy_integrate_is_pos_code INF c g m y a b : m <> 0 -> y < 2 -> 0 < a -> a <= b -> b < INF ->
  cgmy_integrate sf INF c g m y a b = cgmy_mass_pos_code (sf_exp1 sf) G c m y a b.
Proof.
  intros Hm0 Hy Ha Hab Hb. unfold cgmy_integrate, cgmy_integrate_F at 1, cgmy_mass_pos_code.
  destruct (Req_dec a b) as [E | N].
  { subst b. rewrite Reqb_same, zero_over_one. ring. }
  rewrite (Reqb_ne a b) by assumption. rb. cbn [andb].
  rewrite (Reqb_ne b INF), (Reqb_ne a (- INF)) by lra.
  unfold cgmy_a2b, cgmy_a_to_b_F at 1. rb. cbn [andb].
  unfold cgmy_a2inf, cgmy_a_to_inf. rewrite !cgmy_h2inf_is_tail_code by (try assumption; lra). reflexivity.
Qed.

Lemma cgmy_integrate_is_neg_code INF c g m y a b : g <> 0 -> y < 2 -> - INF < a -> a <= b -> b < 0 ->
  cgmy_integrate sf INF c g m y a b = cgmy_mass_neg_code (sf_exp1 sf) G c g y a b.
Proof.
  intros Hg0 Hy Ha Hab Hb. unfold cgmy_integrate, cgmy_integrate_F at 1, cgmy_mass_neg_code.
  destruct (Req_dec a b) as [E | N].
  { subst b. rewrite Reqb_same, zero_over_one. ring. }
  rewrite (Reqb_ne a b) by assumption. rb. cbn [andb]. rewrite ?andb_false_r. cbn [andb].
  rewrite (Reqb_ne b INF), (Reqb_ne a (- INF)) by lra.
  unfold cgmy_a2b, cgmy_a_to_b_F at 1. rb. cbn [andb].
  unfold cgmy_inf2b, cgmy_inf_to_b. rewrite !cgmy_h2inf_is_tail_code by (try assumption; lra). reflexivity.
Qed.

Lemma cgmy_integrate_x_is_pos_code INF c g m y a b : m <> 0 -> 0 < a -> a <= b -> b < INF ->
  cgmy_integrate_x sf INF c g m y a b = cgmy_x_pos_code (sf_exp1 sf) G c m y a b.
Proof.
  intros Hm0 Ha Hab Hb. unfold cgmy_integrate_x, cgmy_integrate_x_F at 1, cgmy_x_pos_code. cbv zeta.
  destruct (Req_dec a b) as [E | N].
  { subst b. rewrite Reqb_same, zero_over_one. ring. }
  rewrite (Reqb_ne a b) by assumption. rb. rewrite (Reqb_ne b INF) by lra.
  rewrite !cgmy_hxx_is_tail_x_code by (first [assumption | lra]). reflexivity.
Qed.

Lemma cgmy_integrate_x_is_neg_code INF c g m y a b : g <> 0 -> - INF < a -> a <= b -> b < 0 ->
  cgmy_integrate_x sf INF c g m y a b = cgmy_x_neg_code (sf_exp1 sf) G c g y a b.
Proof.
  intros Hg0 Ha Hab Hb. unfold cgmy_integrate_x, cgmy_integrate_x_F at 1, cgmy_x_neg_code. cbv zeta.
  destruct (Req_dec a b) as [E | N].
  { subst b. rewrite Reqb_same, zero_over_one. ring. }
  rewrite (Reqb_ne a b) by assumption. rb. rewrite (Reqb_ne a (- INF)) by lra.
  rewrite !cgmy_hxx_is_tail_x_code by (first [assumption | lra]). reflexivity.
Qed.

(* ---------------------------------------------------------------- the self-calls of integrate / integrate_against_x / a_to_b
   on (a, 0.0) and (0.0, b) never call themselves again: the result does not depend on the default callee *)
Lemma integrate_x_F_no_rec d d' INF c g m y a b : a = 0 \/ b = 0 ->
  cgmy_integrate_x_F sf d INF c g m y a b = cgmy_integrate_x_F sf d' INF c g m y a b.
Proof.
  intros H. unfold cgmy_integrate_x_F. cbv zeta.
  destruct (Reqb a b); [reflexivity|]. destruct H as [-> | ->].
  - rb. reflexivity.
  - destruct (Rleb 0 a); [reflexivity|]. rb. reflexivity.
Qed.
Lemma cgmy_integrate_x_unroll_complete d INF c g m y a b :
  cgmy_integrate_x_F sf (cgmy_integrate_x_F sf d INF c g m y) INF c g m y a b
  = cgmy_integrate_x sf INF c g m y a b.
Proof.
  unfold cgmy_integrate_x. unfold cgmy_integrate_x_F at 1 3. cbv zeta. rewrite zero_over_one.
  destruct (Reqb a b); [reflexivity|]. destruct (Rleb 0 a); [reflexivity|]. destruct (Rleb b 0); [reflexivity|].
  f_equal; apply integrate_x_F_no_rec; auto.
Qed.

(* ---------------------------------------------------------------- branch facts of the generated integrate *)
Lemma cgmy_integrate_point INF c g m y a : cgmy_integrate sf INF c g m y a a = 0.
Proof. unfold cgmy_integrate, cgmy_integrate_F at 1. rewrite Reqb_same. apply zero_over_one. Qed.

Lemma cgmy_integrate_infinite INF c g m y a b : a < b -> a <= 0 <= b -> 0 <= y ->
  cgmy_integrate sf INF c g m y a b = INF.
Proof.
  intros Hab [Ha Hb] Hy. unfold cgmy_integrate, cgmy_integrate_F at 1.
  rewrite (Reqb_ne a b) by lra. rb. reflexivity.
Qed.
End Gen.

(* ---------------------------------------------------------------- the theorems of wave 5, restated on the generated definitions *)
Section Restated.
Variable sf : SpecialFns.
Hypothesis exp1_derive : forall x, 0 < x -> is_derive (sf_exp1 sf) x (- (exp (- x) / x)).
Hypothesis Gup_derive : forall s x, 0 < x -> is_derive (fun x => sf_Gamma sf s * sf_gammaincc sf s x) x (- (Rpower x (s - 1) * exp (- x))).

Let G := Gup_of sf.
Lemma G_derive : forall s x, 0 < x -> is_derive (G s) x (- (Rpower x (s - 1) * exp (- x))).
Proof. exact Gup_derive. Qed.
Lemma G_is_product : forall s x, sf_Gamma sf s * sf_gammaincc sf s x = G s x.
Proof. reflexivity. Qed.

Theorem c09_cgmy_gen_mass_pf INF c g m y : 0 < g -> 0 < m -> y < 2 ->
  (forall a b, 0 < a -> a <= b -> b < INF ->
     is_RInt (fun x => x ^ 0 * cgmy_density c g m y x) a b (cgmy_integrate sf INF c g m y a b)) /\
  (forall a b, - INF < a -> a <= b -> b < 0 ->
     is_RInt (fun x => x ^ 0 * cgmy_density c g m y x) a b (cgmy_integrate sf INF c g m y a b)).
Proof.
  intros Hg Hm Hy. split; intros a b H1 H2 H3.
  - rewrite (cgmy_integrate_is_pos_code sf G G_is_product) by (first [assumption | lra]).
    apply cgmy_mass_pos_code_is_RInt; first [assumption | exact G_derive].
  - rewrite (cgmy_integrate_is_neg_code sf G G_is_product) by (first [assumption | lra]).
    apply cgmy_mass_neg_code_is_RInt; first [assumption | exact G_derive].
Qed.

Theorem c09_cgmy_gen_x_pf INF c g m y : 0 < g -> 0 < m ->
  (forall a b, 0 < a -> a <= b -> b < INF ->
     is_RInt (fun x => x ^ 1 * cgmy_density c g m y x) a b (cgmy_integrate_x sf INF c g m y a b)) /\
  (forall a b, - INF < a -> a <= b -> b < 0 ->
     is_RInt (fun x => x ^ 1 * cgmy_density c g m y x) a b (cgmy_integrate_x sf INF c g m y a b)).
Proof.
  intros Hg Hm. split; intros a b H1 H2 H3.
  - rewrite (cgmy_integrate_x_is_pos_code sf G G_is_product) by (first [assumption | lra]).
    apply cgmy_x_pos_code_is_RInt; first [assumption | exact G_derive].
  - rewrite (cgmy_integrate_x_is_neg_code sf G G_is_product) by (first [assumption | lra]).
    apply cgmy_x_neg_code_is_RInt; first [assumption | exact G_derive].
Qed.
Theorem c09_cgmy_gen_additive_sign_pf INF c g m y : 0 <= c -> 0 < g -> 0 < m -> y < 2 ->
  let I := cgmy_integrate sf INF c g m y in let Ix := cgmy_integrate_x sf INF c g m y in
  (forall a b cc, 0 < a -> a <= b <= cc -> cc < INF ->
     I a cc = I a b + I b cc /\ Ix a cc = Ix a b + Ix b cc /\ 0 <= I a cc /\ 0 <= Ix a cc) /\
  (forall a b cc, - INF < a -> a <= b <= cc -> cc < 0 ->
     I a cc = I a b + I b cc /\ Ix a cc = Ix a b + Ix b cc /\ 0 <= I a cc /\ Ix a cc <= 0).
Proof.
  intros Hc Hg Hm Hy I Ix.
  destruct (cgmy_additive_sign (sf_exp1 sf) G exp1_derive G_derive c g m y Hc Hg Hm Hy) as [Hp Hn].
  split; intros a b cc Ha [Hab Hbc] Hcc; unfold I, Ix.
  - rewrite !(cgmy_integrate_is_pos_code sf G G_is_product) by lra.
    rewrite !(cgmy_integrate_x_is_pos_code sf G G_is_product) by lra.
    apply Hp; [assumption | split; assumption].
  - rewrite !(cgmy_integrate_is_neg_code sf G G_is_product) by lra.
    rewrite !(cgmy_integrate_x_is_neg_code sf G G_is_product) by lra.
    apply Hn; [assumption | split; assumption].
Qed.
End Restated.

(* ---------------------------------------------------------------- statements of Properties/C09.v *)
Lemma c09_cgmy_gen_is_hand_model_pf : forall (sf : SpecialFns) INF c g m y,
  (forall a b, m <> 0 -> 0 < a -> a <= b -> b < INF ->
     (y < 2 -> cgmy_integrate sf INF c g m y a b = cgmy_mass_pos_code (sf_exp1 sf) (Gup_of sf) c m y a b) /\
     cgmy_integrate_x sf INF c g m y a b = cgmy_x_pos_code (sf_exp1 sf) (Gup_of sf) c m y a b) /\
  (forall a b, g <> 0 -> - INF < a -> a <= b -> b < 0 ->
     (y < 2 -> cgmy_integrate sf INF c g m y a b = cgmy_mass_neg_code (sf_exp1 sf) (Gup_of sf) c g y a b) /\
     cgmy_integrate_x sf INF c g m y a b = cgmy_x_neg_code (sf_exp1 sf) (Gup_of sf) c g y a b).
Proof.
  intros sf INF c g m y.
  assert (HG : forall s x, sf_Gamma sf s * sf_gammaincc sf s x = Gup_of sf s x) by reflexivity.
  split; intros a b H0 H1 H2 H3; split.
  - intros Hy. apply cgmy_integrate_is_pos_code; assumption.
  - apply cgmy_integrate_x_is_pos_code; assumption.
  - intros Hy. apply cgmy_integrate_is_neg_code; assumption.
  - apply cgmy_integrate_x_is_neg_code; assumption.
Qed.

Lemma c09_cgmy_gen_unroll_complete_pf : forall (sf : SpecialFns),
  (forall d alpha h u, alpha < 2 ->
     cgmy_h_to_inf_F sf (cgmy_h_to_inf_F sf d) alpha h u = cgmy_h2inf sf alpha h u) /\
  (forall d INF c g m y a b,
     cgmy_integrate_x_F sf (cgmy_integrate_x_F sf d INF c g m y) INF c g m y a b
     = cgmy_integrate_x sf INF c g m y a b).
Proof.
  intros. split; intros.
  - apply cgmy_h2inf_unroll_complete. assumption.
  - apply cgmy_integrate_x_unroll_complete.
Qed.

Lemma c09_cgmy_gen_mass_branches_pf : forall (sf : SpecialFns) INF c g m y,
  (forall a, cgmy_integrate sf INF c g m y a a = 0) /\
  (forall a b, a < b -> a <= 0 <= b -> 0 <= y -> cgmy_integrate sf INF c g m y a b = INF).
Proof. intros. split; intros. apply cgmy_integrate_point. apply cgmy_integrate_infinite; assumption. Qed.

(* the instance used by the Examples and by the interval case lemmas: every function bound by NAME *)
Definition sf_inst (c0 g0 : R) : SpecialFns :=
  {| sf_exp1 := E1c c0; sf_Gamma := fun _ => 1; sf_gammaincc := Gupc g0; sf_gammainc := fun _ _ => 0; sf_quad_xx := fun _ _ => 0 |}.

Lemma c09_cgmy_gen_nonvacuous_pf : forall c0 g0,
  (forall x, 0 < x -> is_derive (sf_exp1 (sf_inst c0 g0)) x (- (exp (- x) / x))) /\
  (forall s x, 0 < x -> is_derive (fun x => sf_Gamma (sf_inst c0 g0) s * sf_gammaincc (sf_inst c0 g0) s x) x (- (Rpower x (s - 1) * exp (- x)))) /\
  cgmy_integrate (sf_inst c0 g0) 9 1 3 5 (1 / 2) 1 2 = cgmy_mass_pos_code (E1c c0) (Gupc g0) 1 5 (1 / 2) 1 2 /\
  cgmy_integrate_x (sf_inst c0 g0) 9 1 3 5 (1 / 2) (-2) (-1) = cgmy_x_neg_code (E1c c0) (Gupc g0) 1 3 (1 / 2) (-2) (-1).
Proof.
  intros c0 g0. split; [|split; [|split]].
  - intros x Hx. apply E1c_derive. assumption.
  - intros s x Hx. apply (is_derive_ext (Gupc g0 s)); [intros t; symmetry; apply Rmult_1_l | apply Gupc_derive; assumption].
  - apply cgmy_integrate_is_pos_code; try lra. intros; cbn; ring.
  - apply cgmy_integrate_x_is_neg_code; try lra. intros; cbn; ring.
Qed.

(* ================================================================ wave 8 (audit 5a B1): the END POINT 0.
   With `**` translated to pypow the generated first-moment helper has the code's value at h = 0 (alpha < 1: the branch every
   finite-variation CGMY chain drift uses, markovchain.py: integrate_against_x(-inf, -0.0) + integrate_against_x(0.0, inf)). *)
Section EndPoint.
Variable sf : SpecialFns.

(* the value the code computes at h = 0: h ** (1 - alpha) is 0.0, what is left is the gamma term at u * 0 *)
Lemma cgmy_hxx_at_zero INF alpha u : alpha < 1 -> u <> 0 ->
  cgmy_h_to_inf_for_xx sf INF alpha 0 u
  = Rpower u (alpha - 1) * (sf_Gamma sf (2 - alpha) * sf_gammaincc sf (2 - alpha) (u * 0)) / (1 - alpha).
Proof.
  intros Ha Hu. unfold cgmy_h_to_inf_for_xx. cbv zeta. rewrite one_over_one, Reqb_same.
  replace (Rltb 1 alpha) with false by (symmetry; apply Rltb_false; lra). cbn [andb].
  rewrite (Reqb_ne alpha 1) by lra. rewrite pypow_0_pos by lra. rewrite pypow_ne0 by assumption.
  field. lra.
Qed.

(* the same term with py2coq's former translation (Rpower 0 (1 - alpha) = 1) differs from it by exp(0)/(alpha - 1): the B1 gap *)
Lemma cgmy_hxx_at_zero_old_translation_gap alpha u : alpha < 1 ->
  (Rpower 0 (1 - alpha) * exp (- (u * 0)) - pypow 0 (1 - alpha) * exp (- (u * 0))) / (alpha - 1) = 1 / (alpha - 1).
Proof.
  intros Ha. destruct (Rpower_0_is_not_python (1 - alpha)) as [E1 E2]; [lra|]. rewrite E1, E2.
  rewrite Rmult_0_r, Ropp_0, exp_0. field. lra.
Qed.

(* integrate_against_x with an end point AT zero, the four shapes the drift uses: [0, b], [0, inf), [a, 0], (-inf, 0] *)
Lemma cgmy_integrate_x_from_zero INF c g m y b : y < 1 -> m <> 0 -> 0 < b -> b < INF ->
  cgmy_integrate_x sf INF c g m y 0 b
  = c * (Rpower m (y - 1) * (sf_Gamma sf (2 - y) * sf_gammaincc sf (2 - y) (m * 0)) / (1 - y) - cgmy_h_to_inf_for_xx sf INF y b m).
Proof.
  intros Hy Hm Hb HI. unfold cgmy_integrate_x, cgmy_integrate_x_F at 1. cbv zeta.
  rewrite (Reqb_ne 0 b) by lra. rb. rewrite (Reqb_ne b INF) by lra.
  rewrite cgmy_hxx_at_zero by assumption. reflexivity.
Qed.
Lemma cgmy_integrate_x_zero_to_inf INF c g m y : y < 1 -> m <> 0 -> 0 < INF ->
  cgmy_integrate_x sf INF c g m y 0 INF
  = c * (Rpower m (y - 1) * (sf_Gamma sf (2 - y) * sf_gammaincc sf (2 - y) (m * 0)) / (1 - y)).
Proof.
  intros Hy Hm HI. unfold cgmy_integrate_x, cgmy_integrate_x_F at 1. cbv zeta.
  rewrite (Reqb_ne 0 INF) by lra. rb. rewrite Reqb_same.
  rewrite cgmy_hxx_at_zero by assumption. reflexivity.
Qed.
Lemma cgmy_integrate_x_to_zero INF c g m y a : y < 1 -> g <> 0 -> - INF < a -> a < 0 ->
  cgmy_integrate_x sf INF c g m y a 0
  = c * (cgmy_h_to_inf_for_xx sf INF y (- a) g - Rpower g (y - 1) * (sf_Gamma sf (2 - y) * sf_gammaincc sf (2 - y) (g * 0)) / (1 - y)).
Proof.
  intros Hy Hg Ha Ha0. unfold cgmy_integrate_x, cgmy_integrate_x_F at 1. cbv zeta.
  rewrite (Reqb_ne a 0) by lra. rb. rewrite (Reqb_ne a (- INF)) by lra.
  rewrite Ropp_0. rewrite cgmy_hxx_at_zero by assumption. reflexivity.
Qed.
Lemma cgmy_integrate_x_minf_to_zero INF c g m y : y < 1 -> g <> 0 -> 0 < INF ->
  cgmy_integrate_x sf INF c g m y (- INF) 0
  = - c * (Rpower g (y - 1) * (sf_Gamma sf (2 - y) * sf_gammaincc sf (2 - y) (g * 0)) / (1 - y)).
Proof.
  intros Hy Hg HI. unfold cgmy_integrate_x, cgmy_integrate_x_F at 1. cbv zeta.
  rewrite (Reqb_ne (- INF) 0) by lra. rb. rewrite Reqb_same.
  rewrite Ropp_0. rewrite cgmy_hxx_at_zero by assumption. reflexivity.
Qed.
(* a straddling interval is the sum of the two end-point-at-zero calls (the self-calls of the code) *)
Lemma cgmy_integrate_x_straddle INF c g m y a b : a < 0 -> 0 < b ->
  cgmy_integrate_x sf INF c g m y a b = cgmy_integrate_x sf INF c g m y a 0 + cgmy_integrate_x sf INF c g m y 0 b.
Proof.
  intros Ha Hb. unfold cgmy_integrate_x at 1. unfold cgmy_integrate_x_F at 1. cbv zeta.
  rewrite (Reqb_ne a b) by lra. rb. rewrite zero_over_one.
  f_equal; unfold cgmy_integrate_x; apply integrate_x_F_no_rec; auto.
Qed.
End EndPoint.

(* what the end-point value MEANS: it is the limit of the code's own values on [a, b] as a decreases to 0 -- and those are the
   integrals of x * density over [a, b] (C09_cgmy_gen_x_partial) -- PROVIDED gamma(s) * gammaincc(s, .) is right-continuous at 0
   (true of the real function, whose value there is gamma(s): scipy.special.gammaincc(s, 0) = 1; the LOWER function gammainc has
   the value 0 there, see c09_cgmy_gen_endpoint_pf clause 3). *)
Lemma Rpower_to_zero p eps : 0 < p -> 0 < eps -> exists d, 0 < d /\ forall h, 0 < h < d -> Rpower h p < eps.
Proof.
  intros Hp He. exists (Rpower eps (/ p)). split; [apply exp_pos|]. intros h [H0 Hd].
  replace eps with (Rpower (Rpower eps (/ p)) p).
  - apply Rlt_Rpower_l; [assumption | split; assumption].
  - rewrite Rpower_mult. replace (/ p * p) with 1 by (field; lra). apply Rpower_1. assumption.
Qed.

Lemma c09_cgmy_gen_endpoint_pf : forall (sf : SpecialFns) INF c g m y, y < 1 -> 0 < m -> 0 < g -> 0 < INF ->
  (* 1: the four calls with an end point at zero, in closed form (value of the incomplete gamma at 0 kept symbolic) *)
  (let K u := Rpower u (y - 1) * (sf_Gamma sf (2 - y) * sf_gammaincc sf (2 - y) (u * 0)) / (1 - y) in
   (forall b, 0 < b -> b < INF -> cgmy_integrate_x sf INF c g m y 0 b = c * (K m - cgmy_h_to_inf_for_xx sf INF y b m)) /\
   cgmy_integrate_x sf INF c g m y 0 INF = c * K m /\
   (forall a, - INF < a -> a < 0 -> cgmy_integrate_x sf INF c g m y a 0 = c * (cgmy_h_to_inf_for_xx sf INF y (- a) g - K g)) /\
   cgmy_integrate_x sf INF c g m y (- INF) 0 = - c * K g) /\
  (* 2: a straddling interval is the sum of the two calls that end at zero *)
  (forall a b, a < 0 -> 0 < b ->
     cgmy_integrate_x sf INF c g m y a b = cgmy_integrate_x sf INF c g m y a 0 + cgmy_integrate_x sf INF c g m y 0 b) /\
  (* 3: under gammaincc(s, 0) = 1 (characterises the UPPER function: the lower one is 0 there) the half-line first moments are
        c gamma(2-y) m^(y-1) / (1-y) = c gamma(1-y) m^(y-1) and its mirror image: positive on the right, negative on the left *)
  (sf_gammaincc sf (2 - y) 0 = 1 -> 0 < sf_Gamma sf (2 - y) -> 0 < c ->
     cgmy_integrate_x sf INF c g m y 0 INF = c * sf_Gamma sf (2 - y) * Rpower m (y - 1) / (1 - y) /\
     0 < cgmy_integrate_x sf INF c g m y 0 INF /\ cgmy_integrate_x sf INF c g m y (- INF) 0 < 0) /\
  (* 4: right-continuity of gamma * gammaincc at 0 => the value at the end point 0 is the limit of the values on [a, b], a -> 0+ *)
  ((forall s eps, 0 < eps -> exists d, 0 < d /\ forall x, 0 < x < d ->
        Rabs (sf_Gamma sf s * sf_gammaincc sf s x - sf_Gamma sf s * sf_gammaincc sf s 0) < eps) ->
   forall b eps, 0 < b -> b < INF -> 0 < eps -> exists d, 0 < d /\ forall a, 0 < a < d ->
     Rabs (cgmy_integrate_x sf INF c g m y a b - cgmy_integrate_x sf INF c g m y 0 b) <= eps).
Proof.
  intros sf INF c g m y Hy Hm Hg HI.
  assert (Hm0 : m <> 0) by lra. assert (Hg0 : g <> 0) by lra.
  split; [|split; [|split]].
  - cbv zeta. repeat split.
    + intros b Hb HbI. apply cgmy_integrate_x_from_zero; assumption.
    + apply cgmy_integrate_x_zero_to_inf; assumption.
    + intros a Ha Ha0. apply cgmy_integrate_x_to_zero; assumption.
    + apply cgmy_integrate_x_minf_to_zero; assumption.
  - intros a b Ha Hb. apply cgmy_integrate_x_straddle; assumption.
  - intros H1 HG Hc.
    rewrite cgmy_integrate_x_zero_to_inf, cgmy_integrate_x_minf_to_zero by assumption.
    rewrite !Rmult_0_r, H1.
    assert (Pm : 0 < Rpower m (y - 1)) by apply exp_pos. assert (Pg : 0 < Rpower g (y - 1)) by apply exp_pos.
    assert (Q : 0 < / (1 - y)) by (apply Rinv_0_lt_compat; lra).
    split; [unfold Rdiv; ring|]. unfold Rdiv. split.
    + apply Rmult_lt_0_compat; [assumption|]. apply Rmult_lt_0_compat; [|assumption]. apply Rmult_lt_0_compat; [assumption|]. lra.
    + assert (0 < c * (Rpower g (y - 1) * (sf_Gamma sf (2 - y) * 1) * / (1 - y))); [|lra].
      apply Rmult_lt_0_compat; [assumption|]. apply Rmult_lt_0_compat; [|assumption]. apply Rmult_lt_0_compat; [assumption|]. lra.
  - intros Hcont b eps Hb HbI He.
    (* |I(a,b) - I(0,b)| = |c| |hxx(a) - hxx(0)|, hxx(a) - hxx(0) = (a^(1-y) e^{-ma} - m^(y-1) (G(ma) - G(0))) / (y - 1) *)
    set (C := Rabs c * / (1 - y) * (1 + Rpower m (y - 1))).
    assert (Q : 0 < / (1 - y)) by (apply Rinv_0_lt_compat; lra).
    assert (Pm : 0 < Rpower m (y - 1)) by apply exp_pos.
    assert (HC : 0 <= C) by (unfold C; apply Rmult_le_pos; [apply Rmult_le_pos; [apply Rabs_pos | lra] | lra]).
    set (e1 := eps / (C + 1)).
    assert (He1 : 0 < e1) by (unfold e1; apply Rdiv_lt_0_compat; lra).
    destruct (Rpower_to_zero (1 - y) e1) as [d1 [Hd1 P1]]; [lra | assumption |].
    destruct (Hcont (2 - y) e1 He1) as [d2 [Hd2 P2]].
    exists (Rmin b (Rmin d1 (d2 / m))). split.
    { apply Rmin_glb_lt; [assumption|]. apply Rmin_glb_lt; [assumption|]. apply Rdiv_lt_0_compat; assumption. }
    intros a [Ha0 Had].
    assert (Hab : a < b) by (eapply Rlt_le_trans; [exact Had | apply Rmin_l]).
    assert (Had1 : a < d1) by (eapply Rlt_le_trans; [exact Had |]; eapply Rle_trans; [apply Rmin_r | apply Rmin_l]).
    assert (Had2 : a < d2 / m) by (eapply Rlt_le_trans; [exact Had |]; eapply Rle_trans; [apply Rmin_r | apply Rmin_r]).
    assert (Hma : 0 < m * a < d2).
    { split; [apply Rmult_lt_0_compat; assumption|]. apply (Rmult_lt_compat_l m) in Had2; [|assumption].
      replace (m * (d2 / m)) with d2 in Had2 by (field; lra). assumption. }
    rewrite cgmy_integrate_x_from_zero by assumption.
    unfold cgmy_integrate_x, cgmy_integrate_x_F at 1. cbv zeta.
    rewrite (Reqb_ne a b) by lra. rb. rewrite (Reqb_ne b INF) by lra.
    set (Hb' := cgmy_h_to_inf_for_xx sf INF y b m).
    unfold cgmy_h_to_inf_for_xx at 1. cbv zeta. rewrite one_over_one, (Reqb_ne a 0) by lra. cbn [andb].
    rewrite (Reqb_ne y 1) by lra. rewrite !pypow_ne0 by lra.
    specialize (P1 a (conj Ha0 Had1)). specialize (P2 (m * a) Hma).
    rewrite Rmult_0_r.
    set (Ga := sf_Gamma sf (2 - y) * sf_gammaincc sf (2 - y) (m * a)) in *.
    set (G0 := sf_Gamma sf (2 - y) * sf_gammaincc sf (2 - y) 0) in *.
    set (P := Rpower a (1 - y)) in *. set (E := exp (- (m * a))).
    assert (HP : 0 < P) by apply exp_pos.
    assert (HE : 0 < E <= 1).
    { split; [apply exp_pos|]. unfold E. rewrite <- exp_0. destruct Hma as [Hma _].
      left. apply exp_increasing. lra. }
    replace (c * ((P * E - Rpower m (y - 1) * sf_Gamma sf (2 - y) * sf_gammaincc sf (2 - y) (m * a)) / (y - 1) - Hb')
             - c * (Rpower m (y - 1) * G0 / (1 - y) - Hb'))
      with (c * / (1 - y) * (Rpower m (y - 1) * (Ga - G0) - P * E)) by (unfold Ga, G0; field; lra).
    rewrite !Rabs_mult. rewrite (Rabs_pos_eq (/ (1 - y))) by lra.
    assert (B : Rabs (Rpower m (y - 1) * (Ga - G0) - P * E) <= (1 + Rpower m (y - 1)) * e1).
    { eapply Rle_trans; [apply Rabs_triang|]. rewrite Rabs_Ropp, !Rabs_mult.
      rewrite (Rabs_pos_eq (Rpower m (y - 1))), (Rabs_pos_eq P), (Rabs_pos_eq E) by lra.
      assert (P * E <= e1) by nra. assert (Rpower m (y - 1) * Rabs (Ga - G0) <= Rpower m (y - 1) * e1) by (apply Rmult_le_compat_l; lra).
      lra. }
    apply Rle_trans with (Rabs c * / (1 - y) * ((1 + Rpower m (y - 1)) * e1)).
    { apply Rmult_le_compat_l; [apply Rmult_le_pos; [apply Rabs_pos | lra] | exact B]. }
    replace (Rabs c * / (1 - y) * ((1 + Rpower m (y - 1)) * e1)) with (C * e1) by (unfold C; ring).
    unfold e1. apply Rle_trans with ((C + 1) * (eps / (C + 1))); [apply Rmult_le_compat_r; [apply Rlt_le; assumption | lra]|].
    right. field. lra.
Qed.

(* ---------------------------------------------------------------- wave 8 (audit 5a, dead definitions): the second-moment side.
   _xx_levy_measure is x^2 times the density at EVERY x (np.power stays Rpower; at x = 0 both sides are 0);
   integrate_against_xx hands every interval that does not straddle 0 to quad (sf_quad_xx: no theorem can say more than that);
   on a straddling interval it is the sum of two LOWER incomplete gamma terms (sf_gammainc), stated here as a closed form only. *)
Lemma cgmy_xx_density_is_xx_nu c g m y x : cgmy_xx_density c g m y x = x ^ 2 * cgmy_density c g m y x.
Proof.
  unfold cgmy_xx_density, cgmy_density. cbv zeta.
  destruct (Req_dec x 0) as [-> | N].
  { replace (Rltb 0 0) with false by (symmetry; apply Rltb_false; lra). ring. }
  assert (A : 0 < Rabs x) by (apply Rabs_pos_lt; assumption).
  assert (E : Rpower (Rabs x) (1 - y) = x ^ 2 * / Rpower (Rabs x) (y + 1)).
  { replace (1 - y) with (2 + - (y + 1)) by ring. rewrite Rpower_plus, Rpower_Ropp.
    replace 2 with (INR 2) at 1 by (simpl; ring). rewrite Rpower_pow by assumption. rewrite pow2_abs. reflexivity. }
  rewrite E. destruct (Rltb x 0); [unfold Rdiv; ring|]. destruct (Rltb 0 x); unfold Rdiv; ring.
Qed.

Lemma c09_cgmy_gen_xx_pf : forall (sf : SpecialFns) c g m y,
  (forall x, cgmy_xx_density c g m y x = x ^ 2 * cgmy_density c g m y x) /\
  (forall a b, ~ (a < 0 < b) -> cgmy_integrate_xx sf c g m y a b = sf_quad_xx sf a b) /\
  (forall a b, a < 0 < b -> m <> 0 -> g <> 0 ->
     cgmy_integrate_xx sf c g m y a b
     = c * sf_Gamma sf (2 - y) * sf_gammainc sf (2 - y) (m * b) / Rpower m (2 - y)
       + c * sf_Gamma sf (2 - y) * sf_gammainc sf (2 - y) (- g * a) / Rpower g (2 - y)).
Proof.
  intros sf c g m y. split; [|split].
  - intros x. apply cgmy_xx_density_is_xx_nu.
  - intros a b H. unfold cgmy_integrate_xx.
    destruct (Rltb a 0) eqn:Ea; destruct (Rltb 0 b) eqn:Eb; cbn [andb];
      try (apply Rltb_true in Ea; apply Rltb_true in Eb; exfalso; apply H; split; assumption);
      cbv zeta; destruct (Rltb 1 y); reflexivity.
  - intros a b [Ha Hb] Hm Hg. unfold cgmy_integrate_xx.
    replace (Rltb a 0) with true by (symmetry; apply Rltb_true; assumption).
    replace (Rltb 0 b) with true by (symmetry; apply Rltb_true; assumption). cbn [andb]. cbv zeta.
    rewrite (Reqb_ne m 0), (Reqb_ne g 0) by assumption. rewrite !pypow_ne0 by assumption. reflexivity.
Qed.

Lemma c09_cgmy_gen_endpoint_nonvacuous_pf :
  let sf := {| sf_exp1 := fun _ => 0; sf_Gamma := fun _ => 1; sf_gammaincc := fun _ x => exp (- x); sf_gammainc := fun _ _ => 0;
               sf_quad_xx := fun _ _ => 0 |} in
  sf_gammaincc sf (2 - 1 / 2) 0 = 1 /\ 0 < sf_Gamma sf (2 - 1 / 2) /\
  cgmy_integrate_x sf 9 1 3 5 (1 / 2) 0 9 = 1 * 1 * Rpower 5 (1 / 2 - 1) / (1 - 1 / 2) /\
  pypow 0 (1 - 1 / 2) = 0 /\ Rpower 0 (1 - 1 / 2) = 1.
Proof.
  intros sf. split; [cbn; rewrite Ropp_0; apply exp_0|]. split; [cbn; lra|]. split.
  - rewrite cgmy_integrate_x_zero_to_inf by lra. cbn. rewrite Rmult_0_r, Ropp_0, exp_0. field.
  - destruct (Rpower_0_is_not_python (1 - 1 / 2)) as [A B]; [lra|]. split; assumption.
Qed.

(* C09 -- what follows from "closed a b is the integral of f over [a,b]" alone:
   additivity over adjacent intervals, sign, and the truncated measure.  Instantiated per model in Properties/C09.v;
   these are exactly the `Section Measure` hypotheses used by the chain/coupling properties. *)
From Coq Require Import Reals Lra Bool.
From Coquelicot Require Import Coquelicot.
From RV Require Import Base.RB Gen.GenC09Trunc Model.LevyClosedForms.
Open Scope R_scope.

(* real-valued versions of Coquelicot lemmas (so that ring/field see ordinary R goals) and small tactics *)
Lemma is_RInt_ext_R (f g : R -> R) a b l :
  (forall x, Rmin a b < x < Rmax a b -> f x = g x) -> is_RInt f a b l -> is_RInt g a b l.
Proof. exact (@is_RInt_ext R_NormedModule f g a b l). Qed.
Lemma chasles_R (f : R -> R) a b c l1 l2 : is_RInt f a b l1 -> is_RInt f b c l2 -> is_RInt f a c (l1 + l2).
Proof. exact (is_RInt_Chasles f a b c l1 l2). Qed.
Lemma is_RInt_derive_R (f df : R -> R) a b :
  (forall x, Rmin a b <= x <= Rmax a b -> is_derive f x (df x)) ->
  (forall x, Rmin a b <= x <= Rmax a b -> continuous df x) -> is_RInt df a b (f b - f a).
Proof. exact (is_RInt_derive f df a b). Qed.
Lemma Reqb_ne x y : x <> y -> Reqb x y = false.
Proof. intros H. unfold Reqb. destruct (Req_EM_T x y); [contradiction | reflexivity]. Qed.
Lemma Reqb_same x : Reqb x x = true.
Proof. unfold Reqb. destruct (Req_EM_T x x); [reflexivity | contradiction]. Qed.
Ltac cont := apply (@ex_derive_continuous R_AbsRing R_NormedModule); auto_derive; auto.
Ltac rb :=
  repeat match goal with
  | |- context [Rltb ?x ?y] =>
      first [ replace (Rltb x y) with true by (symmetry; apply Rltb_true; lra)
            | replace (Rltb x y) with false by (symmetry; apply Rltb_false; lra) ]
  | |- context [Rleb ?x ?y] =>
      first [ replace (Rleb x y) with true by (symmetry; apply Rleb_true; lra)
            | replace (Rleb x y) with false by (symmetry; apply Rleb_false; lra) ]
  end.

Section Generic.
Variable f : R -> R.               (* x^n * nu x *)
Variable F : R -> R -> R.          (* the closed form *)
Variable D : R -> Prop.            (* admissible end points (e.g. finite: -INF < x < INF; or one side of zero) *)
Hypothesis HF : forall a b, a <= b -> D a -> D b -> is_RInt f a b (F a b).

Lemma closed_is_RInt a b : a <= b -> D a -> D b -> F a b = RInt f a b.
Proof. intros. symmetry. apply is_RInt_unique. apply HF; assumption. Qed.

Lemma closed_additive a b c : a <= b <= c -> D a -> D b -> D c -> F a c = F a b + F b c.
Proof.
  intros [Hab Hbc] Da Db Dc.
  rewrite (closed_is_RInt a c) by (try lra; assumption).
  apply is_RInt_unique. apply (is_RInt_Chasles f a b c); apply HF; assumption.
Qed.

Lemma closed_point a : D a -> F a a = 0.
Proof.
  intros Da. rewrite (closed_is_RInt a a) by (try lra; assumption).
  apply is_RInt_unique. apply (@is_RInt_point R_NormedModule).
Qed.

Lemma closed_nonneg a b : a <= b -> D a -> D b -> (forall x, a < x < b -> 0 <= f x) -> 0 <= F a b.
Proof. intros Hab Da Db Hf. apply (is_RInt_ge_0 f a b); auto. Qed.

Lemma closed_nonpos a b : a <= b -> D a -> D b -> (forall x, a < x < b -> f x <= 0) -> F a b <= 0.
Proof.
  intros Hab Da Db Hf.
  assert (H : 0 <= - F a b).
  { apply (is_RInt_ge_0 (fun x => - f x) a b); auto.
    - apply (is_RInt_opp f a b (F a b)). apply HF; assumption.
    - intros x Hx. specialize (Hf x Hx). lra. }
  lra.
Qed.
End Generic.

(* sign of x^n * nu(x) *)
Lemma pow_even_nonneg x n : Nat.even n = true -> 0 <= x ^ n.
Proof.
  intros H. apply Nat.even_spec in H. destruct H as [k ->].
  rewrite pow_mult. apply pow_le. apply pow2_ge_0.
Qed.
Lemma pow_odd_nonpos x n : x <= 0 -> Nat.even n = false -> x ^ n <= 0.
Proof.
  intros Hx H. assert (Ho : Nat.odd n = true) by (rewrite <- Nat.negb_even, H; reflexivity).
  apply Nat.odd_spec in Ho. destruct Ho as [k ->].
  replace (2 * k + 1)%nat with (S (2 * k)) by (rewrite Nat.add_1_r; reflexivity). simpl.
  assert (0 <= x ^ (2 * k)) by (rewrite pow_mult; apply pow_le; apply pow2_ge_0).
  rewrite <- (Rmult_0_l (x ^ (2 * k))). apply Rmult_le_compat_r; assumption.
Qed.

Section Sign.
Variable nu : R -> R.
Hypothesis nu_pos : forall x, 0 <= nu x.
Variable n : nat.
Variable F : R -> R -> R.
Variable D : R -> Prop.
Hypothesis HF : forall a b, a <= b -> D a -> D b -> is_RInt (fun x => x ^ n * nu x) a b (F a b).

Lemma sign_even a b : a <= b -> D a -> D b -> Nat.even n = true -> 0 <= F a b.
Proof.
  intros. apply (closed_nonneg _ F D HF); auto.
  intros x _. apply Rmult_le_pos; [apply pow_even_nonneg; assumption | apply nu_pos].
Qed.
Lemma sign_right a b : 0 <= a -> a <= b -> D a -> D b -> 0 <= F a b.
Proof.
  intros. apply (closed_nonneg _ F D HF); auto.
  intros x Hx. apply Rmult_le_pos; [apply pow_le; lra | apply nu_pos].
Qed.
Lemma sign_left_odd a b : a <= b -> b <= 0 -> D a -> D b -> Nat.even n = false -> F a b <= 0.
Proof.
  intros. apply (closed_nonpos _ F D HF); auto.
  intros x Hx. rewrite <- (Rmult_0_l (nu x)). apply Rmult_le_compat_r; [apply nu_pos|].
  apply pow_odd_nonpos; [lra | assumption].
Qed.
End Sign.

Lemma is_RInt_zero a b : is_RInt (fun _ : R => 0) a b 0.
Proof.
  evar (v : R).
  assert (H : is_RInt (fun _ : R => 0) a b v) by (apply (@is_RInt_const R_NormedModule)).
  assert (E : v = 0) by (unfold v, scal; simpl; unfold mult; simpl; ring).
  rewrite E in H. exact H.
Qed.

(* ------------------------------------------------------------------ TruncatedLevyMeasure *)
Lemma truncated_interval_eq l r a b : truncated_interval l r a b = (Rmax (Rmin a r) l, Rmin (Rmax b l) r).
Proof. reflexivity. Qed.

Lemma truncated_nu_outside nu l r x : x < l \/ r < x -> truncated_nu nu l r x = 0.
Proof.
  intros H. unfold truncated_nu. cbv zeta.
  destruct H as [H | H].
  - replace (Rltb x l) with true by (symmetry; apply Rltb_true; assumption).
    rewrite orb_true_r. field.
  - replace (Rltb r x) with true by (symmetry; apply Rltb_true; assumption).
    rewrite orb_true_l. field.
Qed.
Lemma truncated_nu_inside nu l r x : l <= x <= r -> truncated_nu nu l r x = nu x.
Proof.
  intros [H1 H2]. unfold truncated_nu. cbv zeta.
  replace (Rltb x l) with false by (symmetry; apply Rltb_false; assumption).
  replace (Rltb r x) with false by (symmetry; apply Rltb_false; assumption).
  reflexivity.
Qed.

Section Truncated.
Variable nu : R -> R.
Variable n : nat.
Variable F : R -> R -> R.
Variable P : R -> R -> Prop.       (* intervals on which the closed form is the integral (e.g. one side of zero for infinite activity) *)
Hypothesis HF : forall a b, a <= b -> P a b -> is_RInt (fun x => x ^ n * nu x) a b (F a b).
Variables l r : R.
Hypothesis Hlr : l <= r.

Let g := fun x => x ^ n * truncated_nu nu l r x.

Lemma trunc_zero_left a b : a <= b -> b <= l -> is_RInt g a b 0.
Proof.
  intros Hab Hb. apply is_RInt_ext with (f := fun _ => 0).
  - intros x Hx. rewrite Rmin_left, Rmax_right in Hx by assumption.
    unfold g. rewrite truncated_nu_outside by lra. symmetry; apply Rmult_0_r.
  - apply is_RInt_zero.
Qed.
Lemma trunc_zero_right a b : a <= b -> r <= a -> is_RInt g a b 0.
Proof.
  intros Hab Hb. apply is_RInt_ext with (f := fun _ => 0).
  - intros x Hx. rewrite Rmin_left, Rmax_right in Hx by assumption.
    unfold g. rewrite truncated_nu_outside by lra. symmetry; apply Rmult_0_r.
  - apply is_RInt_zero.
Qed.
Lemma trunc_inside a b : a <= b -> l <= a -> b <= r -> P a b -> is_RInt g a b (F a b).
Proof.
  intros Hab Ha Hb Pab. apply is_RInt_ext with (f := fun x => x ^ n * nu x).
  - intros x Hx. rewrite Rmin_left, Rmax_right in Hx by assumption.
    unfold g. rewrite truncated_nu_inside by lra. reflexivity.
  - apply HF; assumption.
Qed.
(* TruncatedLevyMeasure.integrate*(a,b) is the integral of x^n * (truncated density) over [a,b], i.e. the integral of
   x^n * nu over [a,b] /\ [l,r].  The closed form only needs to be valid on the CLIPPED interval, and only when that interval
   has positive length (so l < 0 < r is allowed for an infinite-activity mass as long as the clipped interval stays on one
   side of zero; an empty intersection returns 0 without consulting the closed form). *)
Lemma truncated_is_RInt a b : a <= b ->
  (fst (truncated_interval l r a b) < snd (truncated_interval l r a b) ->
   P (fst (truncated_interval l r a b)) (snd (truncated_interval l r a b))) ->
  is_RInt g a b (truncated_integrate F l r a b).
Proof.
  intros Hab. unfold truncated_integrate.
  replace (Rltb b a) with false by (symmetry; apply Rltb_false; assumption).
  rewrite truncated_interval_eq. cbn [fst snd].
  destruct (Rle_dec b l) as [Hbl | Hbl].
  { rewrite (Rmin_left a r), (Rmax_right a l), (Rmax_right b l), (Rmin_left l r) by lra.
    intros _. rewrite Reqb_same. apply trunc_zero_left; assumption. }
  apply Rnot_le_lt in Hbl.
  destruct (Rle_dec r a) as [Hra | Hra].
  { rewrite (Rmin_right a r), (Rmax_left r l), (Rmax_left b l), (Rmin_right b r) by lra.
    intros _. rewrite Reqb_same. apply trunc_zero_right; assumption. }
  apply Rnot_le_lt in Hra.
  rewrite (Rmin_left a r), (Rmax_left b l) by lra.
  destruct (Rle_dec a l) as [Hal | Hal]; destruct (Rle_dec b r) as [Hbr | Hbr].
  - rewrite (Rmax_right a l), (Rmin_left b r) by lra. intros Pab. rewrite (Reqb_ne l b) by lra.
    replace (F l b) with (plus 0 (F l b)) by (unfold plus; simpl; ring).
    apply (is_RInt_Chasles g a l b); [apply trunc_zero_left; lra | apply trunc_inside; try lra; apply Pab; lra].
  - apply Rnot_le_lt in Hbr. rewrite (Rmax_right a l), (Rmin_right b r) by lra. intros Pab.
    destruct (Req_dec l r) as [E | N].
    + rewrite E. rewrite Reqb_same.
      replace 0 with (plus 0 0) at 1 by (unfold plus; simpl; ring).
      apply (is_RInt_Chasles g a l b); [apply trunc_zero_left; lra | apply trunc_zero_right; lra].
    + rewrite (Reqb_ne l r) by assumption.
      replace (F l r) with (plus (plus 0 (F l r)) 0) by (unfold plus; simpl; ring).
      apply (is_RInt_Chasles g a r b); [|apply trunc_zero_right; lra].
      apply (is_RInt_Chasles g a l r); [apply trunc_zero_left; lra | apply trunc_inside; try lra; apply Pab; lra].
  - apply Rnot_le_lt in Hal. rewrite (Rmax_left a l), (Rmin_left b r) by lra. intros Pab.
    destruct (Req_dec a b) as [E | N].
    + subst b. rewrite Reqb_same. apply (@is_RInt_point R_NormedModule).
    + rewrite (Reqb_ne a b) by assumption. apply trunc_inside; try lra; apply Pab; lra.
  - apply Rnot_le_lt in Hal. apply Rnot_le_lt in Hbr. rewrite (Rmax_left a l), (Rmin_right b r) by lra. intros Pab.
    rewrite (Reqb_ne a r) by lra.
    replace (F a r) with (plus (F a r) 0) by (unfold plus; simpl; ring).
    apply (is_RInt_Chasles g a r b); [apply trunc_inside; try lra; apply Pab; lra | apply trunc_zero_right; lra].
Qed.
End Truncated.

(* the end-point-domain form (every end point admissible, e.g. finite for a finite-activity measure) *)
Lemma truncated_is_RInt_D (nu : R -> R) (n : nat) (F : R -> R -> R) (D : R -> Prop) :
  (forall a b, a <= b -> D a -> D b -> is_RInt (fun x => x ^ n * nu x) a b (F a b)) ->
  forall l r, l <= r -> D l -> D r -> forall a b, a <= b -> D a -> D b ->
  is_RInt (fun x => x ^ n * truncated_nu nu l r x) a b (truncated_integrate F l r a b).
Proof.
  intros HF l r Hlr Dl Dr a b Hab Da Db.
  apply (truncated_is_RInt nu n F (fun x y => D x /\ D y)); try assumption.
  - intros x y Hxy [Dx Dy]. apply HF; assumption.
  - intros _. rewrite truncated_interval_eq. cbn [fst snd]. split.
    + unfold Rmax, Rmin. destruct (Rle_dec a r); destruct (Rle_dec _ l); assumption.
    + unfold Rmax, Rmin. destruct (Rle_dec b l); destruct (Rle_dec _ r); assumption.
Qed.

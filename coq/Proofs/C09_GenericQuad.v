(* C09 -- proofs about the generic quadrature fall-backs (Model/LevyGenericQuad.v), the CGMY additivity / sign instance and the
   witness of finding F-C09-13. *)
From Coq Require Import Reals Lra Bool Arith.
From Coquelicot Require Import Coquelicot.
From RV Require Import Base.RB Base.RSpecial Gen.GenC09Trunc Model.LevyClosedForms Model.LevyGenericQuad
  Proofs.C09_Generic Proofs.C09_Cgmy Proofs.C09_Instances.
Open Scope R_scope.

Section GenericQuad.
Variable nu : R -> R.
Variable quad : nat -> R -> R -> R.
Hypothesis Hq : quad_spec nu quad.
Let f (n : nat) := fun x => x ^ n * nu x.

Lemma generic_integrate_n_is_RInt n a b : a <= b -> ex_RInt (f n) a b -> is_RInt (f n) a b (generic_integrate_n quad n a b).
Proof.
  intros Hab Hex. unfold generic_integrate_n. replace (Rltb b a) with false by (symmetry; apply Rltb_false; lra).
  apply Hq; assumption.
Qed.

Lemma generic_xn_F_oneside rec n a b : a <= b -> (b <= 0 \/ 0 <= a) -> ex_RInt (f n) a b ->
  is_RInt (f n) a b (generic_xn_F rec quad n a b).
Proof.
  intros Hab Hside Hex. unfold generic_xn_F.
  destruct n as [|[|[|n]]]; try (apply generic_integrate_n_is_RInt; assumption).
  replace (Rltb b a) with false by (symmetry; apply Rltb_false; lra).
  assert (Hb : Rltb a 0 && Rltb 0 b = false).
  { destruct Hside; [replace (Rltb 0 b) with false by (symmetry; apply Rltb_false; lra); apply andb_false_r
                    | replace (Rltb a 0) with false by (symmetry; apply Rltb_false; lra); reflexivity]. }
  rewrite Hb. apply Hq; assumption.
Qed.

Theorem generic_xn_is_RInt n a b : a <= b -> ex_RInt (f n) a b -> is_RInt (f n) a b (generic_xn quad n a b).
Proof.
  intros Hab Hex. unfold generic_xn.
  destruct (Rle_dec b 0) as [Hb|Hb]; [apply generic_xn_F_oneside; auto|].
  destruct (Rle_dec 0 a) as [Ha|Ha]; [apply generic_xn_F_oneside; auto|].
  assert (Ha0 : a < 0) by lra. assert (H0b : 0 < b) by lra.
  destruct n as [|[|[|n]]]; try (apply generic_integrate_n_is_RInt; assumption).
  unfold generic_xn_F at 1.
  replace (Rltb b a) with false by (symmetry; apply Rltb_false; lra).
  replace (Rltb a 0) with true by (symmetry; apply Rltb_true; lra).
  replace (Rltb 0 b) with true by (symmetry; apply Rltb_true; lra). cbn [andb].
  apply (chasles_R (f (S (S (S n)))) a 0 b).
  - apply generic_xn_F_oneside; [lra | left; lra |].
    apply (ex_RInt_Chasles_1 (f (S (S (S n)))) a 0 b); [lra | assumption].
  - apply generic_xn_F_oneside; [lra | right; lra |].
    apply (ex_RInt_Chasles_2 (f (S (S (S n)))) a 0 b); [lra | assumption].
Qed.

(* the callers: (1) additivity and sign = the `Section Measure` hypotheses of the chain properties; (2) the truncated measure *)
Hypothesis Hint : forall n a b, ex_RInt (f n) a b.      (* e.g. a density that is continuous on each side of zero and bounded *)

Lemma generic_xn_HF n : forall a b, a <= b -> anyR a -> anyR b -> is_RInt (f n) a b (generic_xn quad n a b).
Proof. intros a b Hab _ _. apply generic_xn_is_RInt; [assumption | apply Hint]. Qed.

Theorem generic_xn_additive_sign n a b c : (forall x, 0 <= nu x) -> a <= b <= c ->
  generic_xn quad n a c = generic_xn quad n a b + generic_xn quad n b c /\
  (Nat.even n = true -> 0 <= generic_xn quad n a c) /\
  (0 <= a -> 0 <= generic_xn quad n a c) /\
  (c <= 0 -> Nat.even n = false -> generic_xn quad n a c <= 0).
Proof.
  intros Hnu H. assert (Hac : a <= c) by lra.
  repeat split; intros.
  - apply (closed_additive _ _ anyR (generic_xn_HF n)); unfold anyR; auto.
  - apply (sign_even _ Hnu n _ anyR (generic_xn_HF n)); unfold anyR; auto.
  - apply (sign_right _ Hnu n _ anyR (generic_xn_HF n)); unfold anyR; auto.
  - apply (sign_left_odd _ Hnu n _ anyR (generic_xn_HF n)); unfold anyR; auto.
Qed.

Theorem generic_xn_truncated n l r a b : l <= r -> a <= b ->
  is_RInt (fun x => x ^ n * truncated_nu nu l r x) a b (truncated_integrate (generic_xn quad n) l r a b).
Proof.
  intros Hlr Hab.
  apply (truncated_is_RInt nu n (generic_xn quad n) (fun _ _ => True)); auto.
  intros a' b' Hab' _. apply generic_xn_is_RInt; [assumption | apply Hint].
Qed.
End GenericQuad.

(* the specification is satisfiable: the Riemann integral itself *)
Lemma quad_spec_RInt nu : quad_spec nu (fun n a b => RInt (fun x => x ^ n * nu x) a b).
Proof. intros n a b _ Hex. apply (RInt_correct (fun x => x ^ n * nu x) a b Hex). Qed.

Lemma c09_generic_nonvacuous_pf :
  let nu := fun x : R => 1 in let q := fun n a b => RInt (fun x => x ^ n * nu x) a b in
  quad_spec nu q /\ (forall n a b, ex_RInt (fun x => x ^ n * nu x) a b) /\
  generic_xn q 3 (-1) 2 = q 3%nat (-1) 0 + q 3%nat 0 2 /\ generic_xn q 3 (-2) (-1) = q 3%nat (-2) (-1) /\ generic_xn q 2 (-1) 2 = q 2%nat (-1) 2.
Proof.
  cbv zeta. split; [apply quad_spec_RInt|]. split.
  { intros n a b. apply (@ex_RInt_continuous R_CompleteNormedModule). intros x _. cont. }
  unfold generic_xn, generic_xn_F, generic_integrate_n. repeat split; rb; cbn [andb]; rb; cbn [andb]; reflexivity.
Qed.

(* ---------------------------------------------------------------- CGMY: additivity and sign on each side of zero *)
Section CgmyAddSign.
Variable E1 : R -> R.
Variable G : R -> R -> R.
Hypothesis HE1 : forall x, 0 < x -> is_derive E1 x (- (exp (- x) / x)).
Hypothesis HG : forall s x, 0 < x -> is_derive (G s) x (- (Rpower x (s - 1) * exp (- x))).
Variables c g m y : R.
Hypothesis Hc : 0 <= c.
Hypothesis Hg : 0 < g.
Hypothesis Hm : 0 < m.
Hypothesis Hy : y < 2.
Let posD (x : R) := 0 < x.
Let negD (x : R) := x < 0.

Lemma cgmy_mass_pos_HF : forall a b, a <= b -> posD a -> posD b -> is_RInt (fun x => x ^ 0 * cgmy_nu c g m y x) a b (cgmy_mass_pos_code E1 G c m y a b).
Proof. intros a b Hab Ha _. apply (proj1 (c09_cgmy_mass_pf E1 G HE1 HG c g m y Hg Hm Hy)); assumption. Qed.
Lemma cgmy_mass_neg_HF : forall a b, a <= b -> negD a -> negD b -> is_RInt (fun x => x ^ 0 * cgmy_nu c g m y x) a b (cgmy_mass_neg_code E1 G c g y a b).
Proof. intros a b Hab _ Hb. apply (proj2 (c09_cgmy_mass_pf E1 G HE1 HG c g m y Hg Hm Hy)); assumption. Qed.
Lemma cgmy_x_pos_HF : forall a b, a <= b -> posD a -> posD b -> is_RInt (fun x => x ^ 1 * cgmy_nu c g m y x) a b (cgmy_x_pos_code E1 G c m y a b).
Proof. intros a b Hab Ha _. apply (proj1 (c09_cgmy_x_pf E1 G HE1 HG c g m y Hg Hm)); assumption. Qed.
Lemma cgmy_x_neg_HF : forall a b, a <= b -> negD a -> negD b -> is_RInt (fun x => x ^ 1 * cgmy_nu c g m y x) a b (cgmy_x_neg_code E1 G c g y a b).
Proof. intros a b Hab _ Hb. apply (proj2 (c09_cgmy_x_pf E1 G HE1 HG c g m y Hg Hm)); assumption. Qed.

Theorem cgmy_additive_sign :
  (forall a b cc, 0 < a -> a <= b <= cc ->
     cgmy_mass_pos_code E1 G c m y a cc = cgmy_mass_pos_code E1 G c m y a b + cgmy_mass_pos_code E1 G c m y b cc /\
     cgmy_x_pos_code E1 G c m y a cc = cgmy_x_pos_code E1 G c m y a b + cgmy_x_pos_code E1 G c m y b cc /\
     0 <= cgmy_mass_pos_code E1 G c m y a cc /\ 0 <= cgmy_x_pos_code E1 G c m y a cc) /\
  (forall a b cc, cc < 0 -> a <= b <= cc ->
     cgmy_mass_neg_code E1 G c g y a cc = cgmy_mass_neg_code E1 G c g y a b + cgmy_mass_neg_code E1 G c g y b cc /\
     cgmy_x_neg_code E1 G c g y a cc = cgmy_x_neg_code E1 G c g y a b + cgmy_x_neg_code E1 G c g y b cc /\
     0 <= cgmy_mass_neg_code E1 G c g y a cc /\ cgmy_x_neg_code E1 G c g y a cc <= 0).
Proof.
  assert (Hnu : forall x, 0 <= cgmy_nu c g m y x) by (intros; apply cgmy_nu_nonneg; assumption).
  split; intros a b cc H0 H.
  - assert (Pa : posD a) by (unfold posD; lra). assert (Pb : posD b) by (unfold posD; lra). assert (Pc : posD cc) by (unfold posD; lra).
    assert (Hac : a <= cc) by lra.
    repeat split.
    + apply (closed_additive _ _ posD cgmy_mass_pos_HF); auto.
    + apply (closed_additive _ _ posD cgmy_x_pos_HF); auto.
    + apply (sign_even _ Hnu 0%nat _ posD cgmy_mass_pos_HF); auto.
    + apply (sign_right _ Hnu 1%nat _ posD cgmy_x_pos_HF); auto; lra.
  - assert (Pa : negD a) by (unfold negD; lra). assert (Pb : negD b) by (unfold negD; lra). assert (Pc : negD cc) by (unfold negD; lra).
    assert (Hac : a <= cc) by lra.
    repeat split.
    + apply (closed_additive _ _ negD cgmy_mass_neg_HF); auto.
    + apply (closed_additive _ _ negD cgmy_x_neg_HF); auto.
    + apply (sign_even _ Hnu 0%nat _ negD cgmy_mass_neg_HF); auto.
    + apply (sign_left_odd _ Hnu 1%nat _ negD cgmy_x_neg_HF); auto; lra.
Qed.
End CgmyAddSign.

(* ---------------------------------------------------------------- finding F-C09-13: a rate of zero *)
Lemma cgmy_rate0_raises G c y a b : y < 1 -> cgmy_x_neg_exec G c 0 y a b = None.
Proof.
  intros Hy. unfold cgmy_x_neg_exec, cgmy_tail_x_exec.
  assert (Hp : pypow 0 (y - 1) = None).
  { unfold pypow. rewrite Reqb_same. replace (Rltb (y - 1) 0) with true by (symmetry; apply Rltb_true; lra). reflexivity. }
  rewrite Hp. destruct (pypow (- a) (1 - y)); reflexivity.
Qed.

Lemma cgmy_rate0_integral : is_RInt (fun x => x ^ 1 * cgmy_nu 1 0 5 (/ 2) x) (-1) (- / 4) (-1).
Proof.
  set (F := fun x : R => 2 * exp (/ 2 * ln (- x))).
  set (dF := fun x : R => - exp (- / 2 * ln (- x))).
  assert (Hmin : Rmin (-1) (- / 4) = -1) by (apply Rmin_left; lra).
  assert (Hmax : Rmax (-1) (- / 4) = - / 4) by (apply Rmax_right; lra).
  assert (HI : is_RInt dF (-1) (- / 4) (F (- / 4) - F (-1))).
  { apply is_RInt_derive_R; rewrite Hmin, Hmax; intros x Hx; unfold F, dF.
    - auto_derive; [lra|]. replace (- / 2 * ln (- x)) with (/ 2 * ln (- x) - ln (- x)) by lra.
      unfold Rminus. rewrite exp_plus, exp_Ropp, exp_ln by lra. field. lra.
    - cont. lra. }
  assert (HF : F (- / 4) - F (-1) = -1).
  { unfold F. replace (- - / 4) with (/ 4) by lra. replace (- -1) with 1 by lra.
    rewrite ln_1, Rmult_0_r, exp_0.
    replace (exp (/ 2 * ln (/ 4))) with (Rpower (/ 4) (/ 2)) by reflexivity.
    rewrite Rpower_sqrt by lra. replace (/ 4) with (/ 2 * / 2) by lra. rewrite sqrt_square by lra. lra. }
  rewrite HF in HI.
  apply (is_RInt_ext_R dF); [|exact HI].
  rewrite Hmin, Hmax. intros x Hx. unfold dF. rewrite cgmy_nu_neg by lra. unfold Rpower.
  set (L := ln (- x)). assert (Hxe : x = - exp L) by (unfold L; rewrite exp_ln; lra).
  rewrite Hxe. replace (0 * - exp L) with 0 by ring. rewrite exp_0.
  replace ((1 + / 2) * L) with (L + / 2 * L) by lra. rewrite exp_plus.
  replace (- / 2 * L) with (- (/ 2 * L)) by lra. rewrite exp_Ropp.
  field. split; apply Rgt_not_eq, exp_pos.
Qed.

Theorem cgmy_rate0_refuted : exists c g m y a b v, 0 < c /\ 0 <= g /\ 0 <= m /\ 0 < y < 2 /\ a <= b /\ b < 0 /\
  is_RInt (fun x => x ^ 1 * cgmy_nu c g m y x) a b v /\ forall G, cgmy_x_neg_exec G c g y a b = None.
Proof.
  exists 1, 0, 5, (/ 2), (-1), (- / 4), (-1). repeat split; try lra.
  - exact cgmy_rate0_integral.
  - intros G. apply cgmy_rate0_raises. lra.
Qed.

(* ---------------------------------------------------------------- wave 7 (audit 4, A5): quad as a function of its integrand *)
Lemma quad_fn_spec_quad_spec Q nu : quad_fn_spec Q -> quad_spec nu (quad_of Q nu).
Proof. intros HQ n a b Hab Hex. unfold quad_of. apply (HQ (generic_integrand nu n) a b Hab Hex). Qed.

(* corollary of generic_xn_is_RInt: with scipy.quad specified on every integrand, the fall-back called with the code's integrand
   [generic_integrand nu n] returns the integral of x^n nu *)
Lemma generic_xn_integrand_is_RInt (Q : (R -> R) -> R -> R -> R) (nu : R -> R) : quad_fn_spec Q ->
  forall n a b, a <= b -> ex_RInt (generic_integrand nu n) a b ->
  is_RInt (fun x => x ^ n * nu x) a b (generic_xn (quad_of Q nu) n a b).
Proof. intros HQ n a b Hab Hex. apply generic_xn_is_RInt; [apply quad_fn_spec_quad_spec; exact HQ | exact Hab | exact Hex]. Qed.

(* the integrand matters: a quadrature handed x * nu (the callable x_nu) where the model says x^2 * nu returns another number,
   although [Q] meets its specification.  nu = 1 on [0, 2]: int x = 2, int x^2 = 8/3. *)
Lemma c09_generic_integrand_nonvacuous_pf :
  let nu := fun _ : R => 1 in let Q := fun (f : R -> R) a b => RInt f a b in
  quad_fn_spec Q /\ generic_integrand nu 2 3 = 9 /\ generic_integrand nu 1 3 = 3 /\
  generic_xn (quad_of Q nu) 2 0 2 = 8 / 3 /\ Q (generic_integrand nu 1) 0 2 = 2.
Proof.
  cbv zeta. split; [intros f a b _ Hex; apply (RInt_correct f a b Hex)|].
  split; [unfold generic_integrand; lra|]. split; [unfold generic_integrand; lra|].
  assert (H2 : is_RInt (fun x : R => x ^ 2 * 1) 0 2 (8 / 3)).
  { replace (8 / 3) with ((fun x => x ^ 3 / 3) 2 - (fun x => x ^ 3 / 3) 0) by (cbv beta; lra).
    apply (@is_RInt_derive R_CompleteNormedModule (fun x => x ^ 3 / 3) (fun x => x ^ 2 * 1)).
    - intros x _. auto_derive; [exact I | lra].
    - intros x _. cont. }
  assert (H1 : is_RInt (fun x : R => x ^ 1 * 1) 0 2 2).
  { replace 2 with ((fun x => x ^ 2 / 2) 2 - (fun x => x ^ 2 / 2) 0) at 2 by (cbv beta; lra).
    apply (@is_RInt_derive R_CompleteNormedModule (fun x => x ^ 2 / 2) (fun x => x ^ 1 * 1)).
    - intros x _. auto_derive; [exact I | lra].
    - intros x _. cont. }
  split.
  - unfold generic_xn, generic_xn_F, generic_integrate_n, quad_of, generic_integrand. rb.
    apply is_RInt_unique. exact H2.
  - unfold generic_integrand. apply is_RInt_unique. exact H1.
Qed.

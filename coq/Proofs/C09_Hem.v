(* C09 -- HEM (double-exponential) closed forms are the integrals of x^n * density, n = 0,1,2.
   All statements are about the py2coq-generated definitions of hem.py (Gen.GenC09Hem). *)
From Coq Require Import Reals Lra Bool.
From Coquelicot Require Import Coquelicot.
From RV Require Import Base.RB Gen.GenC09Hem Model.LevyClosedForms.
Open Scope R_scope.

Ltac cont := apply (@ex_derive_continuous R_AbsRing R_NormedModule); auto_derive; auto.
Ltac rb :=
  repeat match goal with
  | |- context [Rltb ?x ?y] =>
      first [ replace (Rltb x y) with true by (symmetry; apply Rltb_true; lra)
            | replace (Rltb x y) with false by (symmetry; apply Rltb_false; lra) ]
  | |- context [Rleb ?x ?y] =>
      first [ replace (Rleb x y) with true by (symmetry; apply Rleb_true; lra)
            | replace (Rleb x y) with false by (symmetry; apply Rleb_false; lra) ]
  end.

Lemma Reqb_false x y : x <> y -> Reqb x y = false.
Proof. intros H. unfold Reqb. destruct (Req_EM_T x y); [contradiction | reflexivity]. Qed.
Lemma Reqb_refl x : Reqb x x = true.
Proof. unfold Reqb. destruct (Req_EM_T x x); [reflexivity | contradiction]. Qed.

(* ------------------------------------------------------------------ density on each side of 0 *)
Lemma hem_nu_neg lam p e1 e2 x : x < 0 -> hem_nu lam p e1 e2 x = lam * ((1 - p) * e2 * exp (e2 * x)).
Proof. intros H. unfold hem_nu. cbv zeta. rb. ring. Qed.
Lemma hem_nu_pos lam p e1 e2 x : 0 < x -> hem_nu lam p e1 e2 x = lam * (p * e1 * exp (- e1 * x)).
Proof. intros H. unfold hem_nu. cbv zeta. rb. ring. Qed.
Lemma hem_nu_zero lam p e1 e2 : hem_nu lam p e1 e2 0 = 0.
Proof. unfold hem_nu. cbv zeta. rb. ring. Qed.
Lemma hem_nu_nonneg lam p e1 e2 x : 0 <= lam -> 0 <= p <= 1 -> 0 < e1 -> 0 < e2 -> 0 <= hem_nu lam p e1 e2 x.
Proof.
  intros Hl Hp H1 H2. destruct (Rtotal_order x 0) as [H | [H | H]].
  - rewrite hem_nu_neg by assumption. apply Rmult_le_pos; [assumption|].
    apply Rmult_le_pos; [apply Rmult_le_pos; lra | left; apply exp_pos].
  - subst. rewrite hem_nu_zero. lra.
  - rewrite hem_nu_pos by assumption. apply Rmult_le_pos; [assumption|].
    apply Rmult_le_pos; [apply Rmult_le_pos; lra | left; apply exp_pos].
Qed.

(* ------------------------------------------------------------------ which branch the closed forms take *)
Section Branches.
Variables INF lam p e1 e2 : R.

Lemma hem_integrate_neg a b : a <= b -> b <= 0 ->
  hem_integrate INF lam p e1 e2 a b = lam * (1 - p) * (exp (e2 * b) - exp (e2 * a)).
Proof. intros. unfold hem_integrate, hem_integrate_F. cbv zeta. rb. reflexivity. Qed.
Lemma hem_integrate_pos a b : a <= b -> 0 <= a -> 0 < b ->
  hem_integrate INF lam p e1 e2 a b = - lam * p * (exp (- e1 * b) - exp (- e1 * a)).
Proof. intros. unfold hem_integrate, hem_integrate_F. cbv zeta. rb. reflexivity. Qed.
Lemma hem_integrate_straddle a b : a < 0 -> 0 < b ->
  hem_integrate INF lam p e1 e2 a b = hem_integrate INF lam p e1 e2 a 0 + hem_integrate INF lam p e1 e2 0 b.
Proof.
  intros. unfold hem_integrate at 1. unfold hem_integrate_F at 1. cbv zeta. rb.
  replace (0 / 1) with 0 by field.
  rewrite (hem_integrate_neg a 0), (hem_integrate_pos 0 b) by lra.
  unfold hem_integrate_F. cbv zeta. rb. reflexivity.
Qed.

Lemma hem_integrate_x_neg a b : a <= b -> b <= 0 -> - INF < a ->
  hem_integrate_x INF lam p e1 e2 a b
  = lam * (1 - p) * (exp (e2 * b) * (b - 1 / e2) - exp (e2 * a) * (a - 1 / e2)).
Proof. intros. unfold hem_integrate_x, hem_integrate_x_F. cbv zeta. rb. rewrite Reqb_false by lra. reflexivity. Qed.
Lemma hem_integrate_x_pos a b : a <= b -> 0 <= a -> 0 < b -> b < INF ->
  hem_integrate_x INF lam p e1 e2 a b
  = - lam * p * (exp (- e1 * b) * (b + 1 / e1) - exp (- e1 * a) * (a + 1 / e1)).
Proof. intros. unfold hem_integrate_x, hem_integrate_x_F. cbv zeta. rb. rewrite Reqb_false by lra. reflexivity. Qed.
Lemma hem_integrate_x_left b : b <= 0 -> - INF <= b ->
  hem_integrate_x INF lam p e1 e2 (- INF) b = lam * (1 - p) * exp (e2 * b) * (b - 1 / e2).
Proof. intros. unfold hem_integrate_x, hem_integrate_x_F. cbv zeta. rb. rewrite Reqb_refl. reflexivity. Qed.
Lemma hem_integrate_x_right a : 0 <= a -> 0 < INF -> a <= INF ->
  hem_integrate_x INF lam p e1 e2 a INF = lam * p * exp (- e1 * a) * (a + 1 / e1).
Proof. intros. unfold hem_integrate_x, hem_integrate_x_F. cbv zeta. rb. rewrite Reqb_refl. reflexivity. Qed.
Lemma hem_integrate_x_straddle a b : a < 0 -> 0 < b -> - INF < a -> b < INF ->
  hem_integrate_x INF lam p e1 e2 a b = hem_integrate_x INF lam p e1 e2 a 0 + hem_integrate_x INF lam p e1 e2 0 b.
Proof.
  intros. unfold hem_integrate_x at 1. unfold hem_integrate_x_F at 1. cbv zeta. rb.
  replace (0 / 1) with 0 by field.
  rewrite (hem_integrate_x_neg a 0), (hem_integrate_x_pos 0 b) by lra.
  unfold hem_integrate_x_F. cbv zeta. rb. rewrite !Reqb_false by lra. reflexivity.
Qed.

Lemma hem_integrate_xx_neg a b : a <= b -> b <= 0 -> - INF < a ->
  hem_integrate_xx INF lam p e1 e2 a b
  = lam * (1 - p) * (exp (b * e2) * (b * e2 * (b * e2 - 2) + 2) - exp (a * e2) * (a * e2 * (a * e2 - 2) + 2)) / e2 ^ 2.
Proof. intros. unfold hem_integrate_xx, hem_integrate_xx_F. cbv zeta. rb. rewrite Reqb_false by lra. reflexivity. Qed.
Lemma hem_integrate_xx_pos a b : a <= b -> 0 <= a -> 0 < b -> b < INF ->
  hem_integrate_xx INF lam p e1 e2 a b
  = lam * p * (exp (- (a * e1)) * (a * e1 * (a * e1 + 2) + 2) + exp (- (b * e1)) * (- (b * e1) * (b * e1 + 2) - 2)) / e1 ^ 2.
Proof. intros. unfold hem_integrate_xx, hem_integrate_xx_F. cbv zeta. rb. rewrite Reqb_false by lra. reflexivity. Qed.
Lemma hem_integrate_xx_left b : b <= 0 -> - INF <= b ->
  hem_integrate_xx INF lam p e1 e2 (- INF) b = lam * (1 - p) * (exp (b * e2) * (b * e2 * (b * e2 - 2) + 2)) / e2 ^ 2.
Proof. intros. unfold hem_integrate_xx, hem_integrate_xx_F. cbv zeta. rb. rewrite Reqb_refl. reflexivity. Qed.
Lemma hem_integrate_xx_right a : 0 <= a -> 0 < INF -> a <= INF ->
  hem_integrate_xx INF lam p e1 e2 a INF = lam * p * (exp (- (a * e1)) * (a * e1 * (a * e1 + 2) + 2)) / e1 ^ 2.
Proof. intros. unfold hem_integrate_xx, hem_integrate_xx_F. cbv zeta. rb. rewrite Reqb_refl. reflexivity. Qed.
Lemma hem_integrate_xx_straddle a b : a < 0 -> 0 < b -> - INF < a -> b < INF ->
  hem_integrate_xx INF lam p e1 e2 a b = hem_integrate_xx INF lam p e1 e2 a 0 + hem_integrate_xx INF lam p e1 e2 0 b.
Proof.
  intros. unfold hem_integrate_xx at 1. unfold hem_integrate_xx_F at 1. cbv zeta. rb.
  replace (0 / 1) with 0 by field.
  rewrite (hem_integrate_xx_neg a 0), (hem_integrate_xx_pos 0 b) by lra.
  unfold hem_integrate_xx_F. cbv zeta. rb. rewrite !Reqb_false by lra. reflexivity.
Qed.

(* the unrolling of the self-call is complete: the default callee is never reached *)
Lemma hem_unroll_complete (d : R -> R -> R) a b :
  hem_integrate_F (hem_integrate_F d INF lam p e1 e2) INF lam p e1 e2 a b = hem_integrate INF lam p e1 e2 a b
  /\ hem_integrate_x_F (hem_integrate_x_F d INF lam p e1 e2) INF lam p e1 e2 a b = hem_integrate_x INF lam p e1 e2 a b
  /\ hem_integrate_xx_F (hem_integrate_xx_F d INF lam p e1 e2) INF lam p e1 e2 a b = hem_integrate_xx INF lam p e1 e2 a b.
Proof.
  unfold hem_integrate, hem_integrate_x, hem_integrate_xx.
  unfold hem_integrate_F, hem_integrate_x_F, hem_integrate_xx_F. cbv zeta.
  replace (0 / 1) with 0 by field.
  replace (Rleb 0 0) with true by (symmetry; apply Rleb_true; lra).
  destruct (Rltb b a); [repeat split|].
  destruct (Rleb b 0); [repeat split|].
  destruct (Rleb 0 a); [repeat split|].
  destruct (Rltb 0 a); destruct (Rltb b 0); repeat split.
Qed.
End Branches.

(* ------------------------------------------------------------------ one side of zero: fundamental theorem *)
Section OneSide.
Variables lam p e1 e2 : R.
Hypothesis He1 : e1 <> 0.
Hypothesis He2 : e2 <> 0.

Lemma is_RInt_hem_mass_neg a b : a <= b -> b <= 0 ->
  is_RInt (fun x => hem_nu lam p e1 e2 x) a b (lam * (1 - p) * (exp (e2 * b) - exp (e2 * a))).
Proof.
  intros Hab Hb.
  apply is_RInt_ext with (f := fun x => lam * ((1 - p) * e2 * exp (e2 * x))).
  { intros x Hx. rewrite Rmin_left, Rmax_right in Hx by assumption. rewrite hem_nu_neg by lra. reflexivity. }
  replace (lam * (1 - p) * (exp (e2 * b) - exp (e2 * a)))
    with (lam * (1 - p) * exp (e2 * b) - lam * (1 - p) * exp (e2 * a)) by ring.
  apply (is_RInt_derive (fun x => lam * (1 - p) * exp (e2 * x))).
  - intros x _. auto_derive; auto. ring.
  - intros x _. cont.
Qed.

Lemma is_RInt_hem_mass_pos a b : a <= b -> 0 <= a ->
  is_RInt (fun x => hem_nu lam p e1 e2 x) a b (- lam * p * (exp (- e1 * b) - exp (- e1 * a))).
Proof.
  intros Hab Ha.
  apply is_RInt_ext with (f := fun x => lam * (p * e1 * exp (- e1 * x))).
  { intros x Hx. rewrite Rmin_left, Rmax_right in Hx by assumption. rewrite hem_nu_pos by lra. reflexivity. }
  replace (- lam * p * (exp (- e1 * b) - exp (- e1 * a)))
    with (- lam * p * exp (- e1 * b) - - lam * p * exp (- e1 * a)) by ring.
  apply (is_RInt_derive (fun x => - lam * p * exp (- e1 * x))).
  - intros x _. auto_derive; auto. ring.
  - intros x _. cont.
Qed.

Lemma is_RInt_hem_x_neg a b : a <= b -> b <= 0 ->
  is_RInt (fun x => x * hem_nu lam p e1 e2 x) a b
          (lam * (1 - p) * (exp (e2 * b) * (b - 1 / e2) - exp (e2 * a) * (a - 1 / e2))).
Proof.
  intros Hab Hb.
  apply is_RInt_ext with (f := fun x => x * (lam * ((1 - p) * e2 * exp (e2 * x)))).
  { intros x Hx. rewrite Rmin_left, Rmax_right in Hx by assumption. rewrite hem_nu_neg by lra. reflexivity. }
  replace (lam * (1 - p) * (exp (e2 * b) * (b - 1 / e2) - exp (e2 * a) * (a - 1 / e2)))
    with (lam * (1 - p) * (exp (e2 * b) * (b - 1 / e2)) - lam * (1 - p) * (exp (e2 * a) * (a - 1 / e2))) by ring.
  apply (is_RInt_derive (fun x => lam * (1 - p) * (exp (e2 * x) * (x - 1 / e2)))).
  - intros x _. auto_derive; auto. field. assumption.
  - intros x _. cont.
Qed.

Lemma is_RInt_hem_x_pos a b : a <= b -> 0 <= a ->
  is_RInt (fun x => x * hem_nu lam p e1 e2 x) a b
          (- lam * p * (exp (- e1 * b) * (b + 1 / e1) - exp (- e1 * a) * (a + 1 / e1))).
Proof.
  intros Hab Ha.
  apply is_RInt_ext with (f := fun x => x * (lam * (p * e1 * exp (- e1 * x)))).
  { intros x Hx. rewrite Rmin_left, Rmax_right in Hx by assumption. rewrite hem_nu_pos by lra. reflexivity. }
  replace (- lam * p * (exp (- e1 * b) * (b + 1 / e1) - exp (- e1 * a) * (a + 1 / e1)))
    with (- lam * p * (exp (- e1 * b) * (b + 1 / e1)) - - lam * p * (exp (- e1 * a) * (a + 1 / e1))) by ring.
  apply (is_RInt_derive (fun x => - lam * p * (exp (- e1 * x) * (x + 1 / e1)))).
  - intros x _. auto_derive; auto. field. assumption.
  - intros x _. cont.
Qed.

Lemma is_RInt_hem_xx_neg a b : a <= b -> b <= 0 ->
  is_RInt (fun x => x ^ 2 * hem_nu lam p e1 e2 x) a b
    (lam * (1 - p) * (exp (b * e2) * (b * e2 * (b * e2 - 2) + 2) - exp (a * e2) * (a * e2 * (a * e2 - 2) + 2)) / e2 ^ 2).
Proof.
  intros Hab Hb.
  apply is_RInt_ext with (f := fun x => x ^ 2 * (lam * ((1 - p) * e2 * exp (e2 * x)))).
  { intros x Hx. rewrite Rmin_left, Rmax_right in Hx by assumption. rewrite hem_nu_neg by lra. reflexivity. }
  replace (lam * (1 - p) * (exp (b * e2) * (b * e2 * (b * e2 - 2) + 2) - exp (a * e2) * (a * e2 * (a * e2 - 2) + 2)) / e2 ^ 2)
    with (lam * (1 - p) * (exp (b * e2) * (b * e2 * (b * e2 - 2) + 2)) / e2 ^ 2
          - lam * (1 - p) * (exp (a * e2) * (a * e2 * (a * e2 - 2) + 2)) / e2 ^ 2) by (field; assumption).
  apply (is_RInt_derive (fun x => lam * (1 - p) * (exp (x * e2) * (x * e2 * (x * e2 - 2) + 2)) / e2 ^ 2)).
  - intros x _. auto_derive; auto. replace (x * e2) with (e2 * x) by ring. field. assumption.
  - intros x _. cont.
Qed.

Lemma is_RInt_hem_xx_pos a b : a <= b -> 0 <= a ->
  is_RInt (fun x => x ^ 2 * hem_nu lam p e1 e2 x) a b
    (lam * p * (exp (- (a * e1)) * (a * e1 * (a * e1 + 2) + 2) + exp (- (b * e1)) * (- (b * e1) * (b * e1 + 2) - 2)) / e1 ^ 2).
Proof.
  intros Hab Ha.
  apply is_RInt_ext with (f := fun x => x ^ 2 * (lam * (p * e1 * exp (- e1 * x)))).
  { intros x Hx. rewrite Rmin_left, Rmax_right in Hx by assumption. rewrite hem_nu_pos by lra. reflexivity. }
  replace (lam * p * (exp (- (a * e1)) * (a * e1 * (a * e1 + 2) + 2) + exp (- (b * e1)) * (- (b * e1) * (b * e1 + 2) - 2)) / e1 ^ 2)
    with (lam * p * (exp (- (b * e1)) * (- (b * e1) * (b * e1 + 2) - 2)) / e1 ^ 2
          - lam * p * (exp (- (a * e1)) * (- (a * e1) * (a * e1 + 2) - 2)) / e1 ^ 2) by (field; assumption).
  apply (is_RInt_derive (fun x => lam * p * (exp (- (x * e1)) * (- (x * e1) * (x * e1 + 2) - 2)) / e1 ^ 2)).
  - intros x _. auto_derive; auto. replace (- (x * e1)) with (- e1 * x) by ring. field. assumption.
  - intros x _. cont.
Qed.
End OneSide.

(* ------------------------------------------------------------------ all finite intervals a <= b (either side, or straddling 0) *)
Section Main.
Variables INF lam p e1 e2 : R.
Hypothesis He1 : e1 <> 0.
Hypothesis He2 : e2 <> 0.
Definition fin (x : R) : Prop := - INF < x < INF.

Lemma chasles_R (f : R -> R) a b c l1 l2 : is_RInt f a b l1 -> is_RInt f b c l2 -> is_RInt f a c (l1 + l2).
Proof. exact (is_RInt_Chasles f a b c l1 l2). Qed.
Lemma ext_pow0 (f : R -> R) a b l : is_RInt f a b l -> is_RInt (fun x => x ^ 0 * f x) a b l.
Proof. apply is_RInt_ext. intros x _. simpl. ring. Qed.
Lemma ext_pow1 (f : R -> R) a b l : is_RInt (fun x => x * f x) a b l -> is_RInt (fun x => x ^ 1 * f x) a b l.
Proof. apply is_RInt_ext. intros x _. simpl. ring. Qed.

Theorem hem_mass_is_RInt a b : a <= b ->
  is_RInt (fun x => x ^ 0 * hem_nu lam p e1 e2 x) a b (hem_integrate INF lam p e1 e2 a b).
Proof.
  intros Hab. apply ext_pow0.
  destruct (Rle_dec b 0) as [Hb | Hb].
  { rewrite hem_integrate_neg by assumption. apply is_RInt_hem_mass_neg; assumption. }
  apply Rnot_le_lt in Hb.
  destruct (Rle_dec 0 a) as [Ha | Ha].
  { rewrite hem_integrate_pos by assumption. apply is_RInt_hem_mass_pos; assumption. }
  apply Rnot_le_lt in Ha.
  rewrite hem_integrate_straddle by assumption.
  apply (chasles_R _ a 0 b).
  - rewrite hem_integrate_neg by lra. apply is_RInt_hem_mass_neg; lra.
  - rewrite hem_integrate_pos by lra. apply is_RInt_hem_mass_pos; lra.
Qed.

Theorem hem_x_is_RInt a b : a <= b -> fin a -> fin b ->
  is_RInt (fun x => x ^ 1 * hem_nu lam p e1 e2 x) a b (hem_integrate_x INF lam p e1 e2 a b).
Proof.
  intros Hab [Fa _] [_ Fb]. apply ext_pow1.
  destruct (Rle_dec b 0) as [Hb | Hb].
  { rewrite hem_integrate_x_neg by assumption. apply is_RInt_hem_x_neg; assumption. }
  apply Rnot_le_lt in Hb.
  destruct (Rle_dec 0 a) as [Ha | Ha].
  { rewrite hem_integrate_x_pos by assumption. apply is_RInt_hem_x_pos; assumption. }
  apply Rnot_le_lt in Ha.
  rewrite hem_integrate_x_straddle by assumption.
  apply (chasles_R _ a 0 b).
  - rewrite hem_integrate_x_neg by lra. apply is_RInt_hem_x_neg; lra.
  - rewrite hem_integrate_x_pos by lra. apply is_RInt_hem_x_pos; lra.
Qed.

Theorem hem_xx_is_RInt a b : a <= b -> fin a -> fin b ->
  is_RInt (fun x => x ^ 2 * hem_nu lam p e1 e2 x) a b (hem_integrate_xx INF lam p e1 e2 a b).
Proof.
  intros Hab [Fa _] [_ Fb].
  destruct (Rle_dec b 0) as [Hb | Hb].
  { rewrite hem_integrate_xx_neg by assumption. apply is_RInt_hem_xx_neg; assumption. }
  apply Rnot_le_lt in Hb.
  destruct (Rle_dec 0 a) as [Ha | Ha].
  { rewrite hem_integrate_xx_pos by assumption. apply is_RInt_hem_xx_pos; assumption. }
  apply Rnot_le_lt in Ha.
  rewrite hem_integrate_xx_straddle by assumption.
  apply (chasles_R _ a 0 b).
  - rewrite hem_integrate_xx_neg by lra. apply is_RInt_hem_xx_neg; lra.
  - rewrite hem_integrate_xx_pos by lra. apply is_RInt_hem_xx_pos; lra.
Qed.
End Main.

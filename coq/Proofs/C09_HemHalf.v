(* C09 -- HEM half-lines: the values the closed forms take at a = -inf / b = +inf are the limits of the finite integrals. *)
From Coq Require Import Reals Lra Psatz Bool.
From Coquelicot Require Import Coquelicot.
From RV Require Import Base.RB Gen.GenC09Hem Model.LevyClosedForms Proofs.C09_Generic Proofs.C09_Hem.
Open Scope R_scope.

Lemma Rbar_mult_pos_m e : 0 < e -> Rbar_mult e m_infty = m_infty.
Proof. intros H. apply is_Rbar_mult_unique. apply is_Rbar_mult_sym. apply is_Rbar_mult_m_infty_pos. simpl. exact H. Qed.
Lemma Rbar_mult_neg_p e : 0 < e -> Rbar_mult (- e) p_infty = m_infty.
Proof. intros H. apply is_Rbar_mult_unique. apply is_Rbar_mult_sym. apply is_Rbar_mult_p_infty_neg. simpl. lra. Qed.

Lemma lim_exp_m e : 0 < e -> is_lim (fun a => exp (e * a)) m_infty 0.
Proof.
  intros He. apply is_lim_ext with (f := fun y => exp (e * y + 0)); [intros; f_equal; ring|].
  apply (is_lim_comp_lin exp e 0 m_infty 0); [|lra]. rewrite Rbar_mult_pos_m by assumption. simpl. apply is_lim_exp_m.
Qed.
Lemma lim_xexp_m e : 0 < e -> is_lim (fun a => a * exp (e * a)) m_infty 0.
Proof.
  intros He. apply is_lim_ext with (f := fun y => / e * ((e * y + 0) * exp (e * y + 0))).
  { intros y. replace (e * y + 0) with (e * y) by ring. field. lra. }
  replace (Finite 0) with (Rbar_mult (/ e) 0) by (simpl; f_equal; ring).
  apply is_lim_scal_l. apply (is_lim_comp_lin (fun z => z * exp z) e 0 m_infty 0); [|lra].
  rewrite Rbar_mult_pos_m by assumption. simpl. apply is_lim_mul_exp_m.
Qed.
Lemma lim_x2exp_m e : 0 < e -> is_lim (fun a => a ^ 2 * exp (e * a)) m_infty 0.
Proof.
  intros He. apply is_lim_ext with (f := fun y => (y * exp (e / 2 * y)) * (y * exp (e / 2 * y))).
  { intros y. replace (e * y) with (e / 2 * y + e / 2 * y) by field. rewrite exp_plus. ring. }
  replace (Finite 0) with (Rbar_mult 0 0) by (simpl; f_equal; ring).
  apply is_lim_mult; try (apply lim_xexp_m; lra). simpl. exact I.
Qed.
(* the same at +infinity for exp(-e b) *)
Lemma lim_to_p (f : R -> R) l : is_lim f m_infty l -> is_lim (fun b => f (- b)) p_infty l.
Proof.
  intros H. apply is_lim_ext with (f := fun y => f (Ropp 1 * y + 0)); [intros; f_equal; ring|].
  apply (is_lim_comp_lin f (Ropp 1) 0 p_infty l); [|lra].
  replace (Rbar_plus (Rbar_mult (Ropp 1) p_infty) 0) with m_infty; [exact H|].
  rewrite (Rbar_mult_neg_p 1) by lra. reflexivity.
Qed.
Lemma lim_exp_p e : 0 < e -> is_lim (fun b => exp (- e * b)) p_infty 0.
Proof. intros He. apply is_lim_ext with (f := fun b => exp (e * - b)); [intros; f_equal; ring|]. apply (lim_to_p (fun a => exp (e * a))). apply lim_exp_m; assumption. Qed.
Lemma lim_xexp_p e : 0 < e -> is_lim (fun b => b * exp (- e * b)) p_infty 0.
Proof.
  intros He. apply is_lim_ext with (f := fun b => - 1 * (- b * exp (e * - b))).
  { intros y. replace (e * - y) with (- e * y) by ring. ring. }
  replace (Finite 0) with (Rbar_mult (- 1) 0) by (simpl; f_equal; ring).
  apply is_lim_scal_l. apply (lim_to_p (fun a => a * exp (e * a))). apply lim_xexp_m; assumption.
Qed.
Lemma lim_x2exp_p e : 0 < e -> is_lim (fun b => b ^ 2 * exp (- e * b)) p_infty 0.
Proof.
  intros He. apply is_lim_ext with (f := fun b => (- b) ^ 2 * exp (e * - b)).
  { intros y. replace (e * - y) with (- e * y) by ring. ring. }
  apply (lim_to_p (fun a => a ^ 2 * exp (e * a))). apply lim_x2exp_m; assumption.
Qed.

Lemma lim_scal0 (k : R) (g : R -> R) x : is_lim g x 0 -> is_lim (fun a => k * g a) x 0.
Proof. intros H. replace (Finite 0) with (Rbar_mult k 0) by (simpl; f_equal; ring). apply is_lim_scal_l. exact H. Qed.
Lemma lim_plus0 (f g : R -> R) x : is_lim f x 0 -> is_lim g x 0 -> is_lim (fun a => f a + g a) x 0.
Proof. intros Hf Hg. replace (Finite 0) with (Finite (0 + 0)) by (f_equal; ring). apply is_lim_plus'; assumption. Qed.
Lemma lim_quad0 (k2 k1 k0 : R) (E : R -> R) x :
  is_lim (fun a => a ^ 2 * E a) x 0 -> is_lim (fun a => a * E a) x 0 -> is_lim E x 0 ->
  is_lim (fun a => k2 * (a ^ 2 * E a) + k1 * (a * E a) + k0 * E a) x 0.
Proof. intros H2 H1 H0. apply lim_plus0; [apply lim_plus0|]; apply lim_scal0; assumption. Qed.
Lemma lim_K_minus (K c0 : R) (g : R -> R) x : is_lim g x 0 -> is_lim (fun a => K * (c0 - g a)) x (K * c0).
Proof.
  intros H. replace (Finite (K * c0)) with (Rbar_mult K (Finite (c0 - 0))) by (simpl; f_equal; ring).
  apply is_lim_scal_l. apply is_lim_minus'; [apply is_lim_const | exact H].
Qed.

Section HalfLines.
Variables INF lam p e1 e2 : R.
Hypothesis He1 : 0 < e1.
Hypothesis He2 : 0 < e2.
Let E2 := fun a => exp (e2 * a).
Let E1 := fun b => exp (- e1 * b).

Ltac lim_left b F :=
  apply is_lim_ext_loc with (f := F);
  [ exists b; intros a Ha; symmetry; apply is_RInt_unique | ].

(* ---- left half-lines (a -> -infinity), b <= 0 *)
Theorem hem_mass_left b : b <= 0 ->
  is_lim (fun a => RInt (fun x => x ^ 0 * hem_nu lam p e1 e2 x) a b) m_infty (hem_integrate_left lam p e2 b).
Proof.
  intros Hb. lim_left b (fun a => lam * (1 - p) * (exp (e2 * b) - E2 a)).
  - apply (ext_pow0). apply is_RInt_hem_mass_neg; lra.
  - unfold hem_integrate_left. apply lim_K_minus. apply lim_exp_m; assumption.
Qed.
Theorem hem_x_left b : b <= 0 -> - INF <= b ->
  is_lim (fun a => RInt (fun x => x ^ 1 * hem_nu lam p e1 e2 x) a b) m_infty (hem_integrate_x INF lam p e1 e2 (- INF) b).
Proof.
  intros Hb HI. rewrite hem_integrate_x_left by assumption.
  lim_left b (fun a => lam * (1 - p) * (exp (e2 * b) * (b - 1 / e2) - (0 * (a ^ 2 * E2 a) + 1 * (a * E2 a) + (- / e2) * E2 a))).
  - apply ext_pow1. replace (0 * (a ^ 2 * E2 a) + 1 * (a * E2 a) + - / e2 * E2 a) with (exp (e2 * a) * (a - 1 / e2)) by (unfold E2; field; lra).
    apply is_RInt_hem_x_neg; lra.
  - replace (lam * (1 - p) * exp (e2 * b) * (b - 1 / e2)) with (lam * (1 - p) * (exp (e2 * b) * (b - 1 / e2))) by ring.
    apply lim_K_minus. apply lim_quad0; [apply lim_x2exp_m | apply lim_xexp_m | apply lim_exp_m]; assumption.
Qed.
Theorem hem_xx_left b : b <= 0 -> - INF <= b ->
  is_lim (fun a => RInt (fun x => x ^ 2 * hem_nu lam p e1 e2 x) a b) m_infty (hem_integrate_xx INF lam p e1 e2 (- INF) b).
Proof.
  intros Hb HI. rewrite hem_integrate_xx_left by assumption.
  lim_left b (fun a => lam * (1 - p) / e2 ^ 2 * (exp (b * e2) * (b * e2 * (b * e2 - 2) + 2)
                        - (e2 ^ 2 * (a ^ 2 * E2 a) + (- 2 * e2) * (a * E2 a) + 2 * E2 a))).
  - replace (lam * (1 - p) / e2 ^ 2 * (exp (b * e2) * (b * e2 * (b * e2 - 2) + 2) - (e2 ^ 2 * (a ^ 2 * E2 a) + - 2 * e2 * (a * E2 a) + 2 * E2 a)))
      with (lam * (1 - p) * (exp (b * e2) * (b * e2 * (b * e2 - 2) + 2) - exp (a * e2) * (a * e2 * (a * e2 - 2) + 2)) / e2 ^ 2).
    2:{ unfold E2. replace (e2 * a) with (a * e2) by ring. field. lra. }
    apply is_RInt_hem_xx_neg; lra.
  - replace (lam * (1 - p) * (exp (b * e2) * (b * e2 * (b * e2 - 2) + 2)) / e2 ^ 2)
      with (lam * (1 - p) / e2 ^ 2 * (exp (b * e2) * (b * e2 * (b * e2 - 2) + 2))) by (field; lra).
    apply lim_K_minus. apply lim_quad0; [apply lim_x2exp_m | apply lim_xexp_m | apply lim_exp_m]; assumption.
Qed.

Ltac lim_right a F :=
  apply is_lim_ext_loc with (f := F);
  [ exists a; intros b Hb; symmetry; apply is_RInt_unique | ].

(* ---- right half-lines (b -> +infinity), 0 <= a *)
Theorem hem_mass_right a : 0 <= a ->
  is_lim (fun b => RInt (fun x => x ^ 0 * hem_nu lam p e1 e2 x) a b) p_infty (hem_integrate_right lam p e1 a).
Proof.
  intros Ha. lim_right a (fun b => lam * p * (exp (- e1 * a) - E1 b)).
  - apply ext_pow0. replace (lam * p * (exp (- e1 * a) - E1 b)) with (- lam * p * (exp (- e1 * b) - exp (- e1 * a))) by (unfold E1; ring).
    apply is_RInt_hem_mass_pos; lra.
  - unfold hem_integrate_right. apply lim_K_minus. apply lim_exp_p; assumption.
Qed.
Theorem hem_x_right a : 0 <= a -> 0 < INF -> a <= INF ->
  is_lim (fun b => RInt (fun x => x ^ 1 * hem_nu lam p e1 e2 x) a b) p_infty (hem_integrate_x INF lam p e1 e2 a INF).
Proof.
  intros Ha HI HaI. rewrite hem_integrate_x_right by assumption.
  lim_right a (fun b => lam * p * (exp (- e1 * a) * (a + 1 / e1) - (0 * (b ^ 2 * E1 b) + 1 * (b * E1 b) + / e1 * E1 b))).
  - apply ext_pow1.
    replace (lam * p * (exp (- e1 * a) * (a + 1 / e1) - (0 * (b ^ 2 * E1 b) + 1 * (b * E1 b) + / e1 * E1 b)))
      with (- lam * p * (exp (- e1 * b) * (b + 1 / e1) - exp (- e1 * a) * (a + 1 / e1))) by (unfold E1; field; lra).
    apply is_RInt_hem_x_pos; lra.
  - replace (lam * p * exp (- e1 * a) * (a + 1 / e1)) with (lam * p * (exp (- e1 * a) * (a + 1 / e1))) by ring.
    apply lim_K_minus. apply lim_quad0; [apply lim_x2exp_p | apply lim_xexp_p | apply lim_exp_p]; assumption.
Qed.
Theorem hem_xx_right a : 0 <= a -> 0 < INF -> a <= INF ->
  is_lim (fun b => RInt (fun x => x ^ 2 * hem_nu lam p e1 e2 x) a b) p_infty (hem_integrate_xx INF lam p e1 e2 a INF).
Proof.
  intros Ha HI HaI. rewrite hem_integrate_xx_right by assumption.
  lim_right a (fun b => lam * p / e1 ^ 2 * (exp (- (a * e1)) * (a * e1 * (a * e1 + 2) + 2)
                        - (e1 ^ 2 * (b ^ 2 * E1 b) + (2 * e1) * (b * E1 b) + 2 * E1 b))).
  - replace (lam * p / e1 ^ 2 * (exp (- (a * e1)) * (a * e1 * (a * e1 + 2) + 2) - (e1 ^ 2 * (b ^ 2 * E1 b) + 2 * e1 * (b * E1 b) + 2 * E1 b)))
      with (lam * p * (exp (- (a * e1)) * (a * e1 * (a * e1 + 2) + 2) + exp (- (b * e1)) * (- (b * e1) * (b * e1 + 2) - 2)) / e1 ^ 2).
    2:{ unfold E1. replace (- e1 * b) with (- (b * e1)) by ring. field. lra. }
    apply is_RInt_hem_xx_pos; lra.
  - replace (lam * p * (exp (- (a * e1)) * (a * e1 * (a * e1 + 2) + 2)) / e1 ^ 2)
      with (lam * p / e1 ^ 2 * (exp (- (a * e1)) * (a * e1 * (a * e1 + 2) + 2))) by (field; lra).
    apply lim_K_minus. apply lim_quad0; [apply lim_x2exp_p | apply lim_xexp_p | apply lim_exp_p]; assumption.
Qed.
End HalfLines.

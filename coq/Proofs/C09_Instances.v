(* C09 -- corollaries per model: additivity, sign, truncation (instances of Proofs/C09_Generic.v), and the witnesses that
   the code before the fix: commits did not satisfy the property. *)
From Coq Require Import Reals Lra Psatz Bool Arith.
From Coquelicot Require Import Coquelicot.
From RV Require Import Base.RB Base.RSpecial Gen.GenC09Hem Gen.GenC09Vg Gen.GenC09Merton Gen.GenC09Trunc Model.LevyClosedForms
  Proofs.C09_Generic Proofs.C09_Hem Proofs.C09_HemHalf Proofs.C09_XnExp Proofs.C09_Vg Proofs.C09_Merton Proofs.C09_Cgmy.
Open Scope R_scope.

Definition finite (INF x : R) : Prop := - INF < x < INF.
Definition anyR (x : R) : Prop := True.

Section Hem.
Variables INF lam p e1 e2 : R.
Hypothesis He1 : 0 < e1.
Hypothesis He2 : 0 < e2.
Let ne1 : e1 <> 0. Proof. lra. Qed.
Let ne2 : e2 <> 0. Proof. lra. Qed.

Lemma hem_mass_HF : forall a b, a <= b -> anyR a -> anyR b ->
  is_RInt (fun x => x ^ 0 * hem_nu lam p e1 e2 x) a b (hem_integrate INF lam p e1 e2 a b).
Proof. intros a b Hab _ _. apply hem_mass_is_RInt. assumption. Qed.
Lemma hem_x_HF : forall a b, a <= b -> finite INF a -> finite INF b ->
  is_RInt (fun x => x ^ 1 * hem_nu lam p e1 e2 x) a b (hem_integrate_x INF lam p e1 e2 a b).
Proof. intros a b Hab Fa Fb. apply hem_x_is_RInt; assumption. Qed.
Lemma hem_xx_HF : forall a b, a <= b -> finite INF a -> finite INF b ->
  is_RInt (fun x => x ^ 2 * hem_nu lam p e1 e2 x) a b (hem_integrate_xx INF lam p e1 e2 a b).
Proof. intros a b Hab Fa Fb. apply hem_xx_is_RInt; assumption. Qed.

Theorem hem_additive a b c : a <= b <= c -> finite INF a -> finite INF b -> finite INF c ->
  hem_integrate INF lam p e1 e2 a c = hem_integrate INF lam p e1 e2 a b + hem_integrate INF lam p e1 e2 b c /\
  hem_integrate_x INF lam p e1 e2 a c = hem_integrate_x INF lam p e1 e2 a b + hem_integrate_x INF lam p e1 e2 b c /\
  hem_integrate_xx INF lam p e1 e2 a c = hem_integrate_xx INF lam p e1 e2 a b + hem_integrate_xx INF lam p e1 e2 b c.
Proof.
  intros H Fa Fb Fc. repeat split.
  - apply (closed_additive _ _ anyR hem_mass_HF); unfold anyR; auto.
  - apply (closed_additive _ _ (finite INF) hem_x_HF); auto.
  - apply (closed_additive _ _ (finite INF) hem_xx_HF); auto.
Qed.

Theorem hem_sign a b : 0 <= lam -> 0 <= p <= 1 -> a <= b -> finite INF a -> finite INF b ->
  0 <= hem_integrate INF lam p e1 e2 a b /\ 0 <= hem_integrate_xx INF lam p e1 e2 a b /\
  (0 <= a -> 0 <= hem_integrate_x INF lam p e1 e2 a b) /\ (b <= 0 -> hem_integrate_x INF lam p e1 e2 a b <= 0).
Proof.
  intros Hl Hp Hab Fa Fb.
  assert (Hnu : forall x, 0 <= hem_nu lam p e1 e2 x) by (intros; apply hem_nu_nonneg; assumption).
  repeat split.
  - apply (sign_even _ Hnu 0%nat _ anyR hem_mass_HF); unfold anyR; auto.
  - apply (sign_even _ Hnu 2%nat _ (finite INF) hem_xx_HF); auto.
  - intros Ha. apply (sign_right _ Hnu 1%nat _ (finite INF) hem_x_HF); auto.
  - intros Hb. apply (sign_left_odd _ Hnu 1%nat _ (finite INF) hem_x_HF); auto.
Qed.

(* the truncated HEM measure *)
Theorem hem_truncated l r a b : l <= r -> a <= b -> finite INF l -> finite INF r -> finite INF a -> finite INF b ->
  is_RInt (fun x => x ^ 0 * truncated_nu (hem_nu lam p e1 e2) l r x) a b (truncated_integrate (hem_integrate INF lam p e1 e2) l r a b) /\
  is_RInt (fun x => x ^ 1 * truncated_nu (hem_nu lam p e1 e2) l r x) a b (truncated_integrate (hem_integrate_x INF lam p e1 e2) l r a b) /\
  is_RInt (fun x => x ^ 2 * truncated_nu (hem_nu lam p e1 e2) l r x) a b (truncated_integrate (hem_integrate_xx INF lam p e1 e2) l r a b).
Proof.
  intros Hlr Hab Fl Fr Fa Fb. repeat split.
  - apply (truncated_is_RInt_D _ 0%nat _ anyR hem_mass_HF l r Hlr I I a b Hab I I).
  - apply (truncated_is_RInt_D _ 1%nat _ (finite INF) hem_x_HF l r Hlr Fl Fr a b Hab Fa Fb).
  - apply (truncated_is_RInt_D _ 2%nat _ (finite INF) hem_xx_HF l r Hlr Fl Fr a b Hab Fa Fb).
Qed.
End Hem.

(* x^n exp(-alpha|x|), VG n-th moments, Merton: additivity and sign *)
Section Others.
Lemma xn_exp_HF n alpha : 0 < alpha -> forall a b, a <= b -> anyR a -> anyR b ->
  is_RInt (fun x => x ^ n * exp (- alpha * Rabs x)) a b (integral_xn_exp_minus_x n alpha a b).
Proof. intros Ha a b Hab _ _. apply xn_exp_is_RInt; assumption. Qed.

Theorem xn_exp_additive n alpha a b c : 0 < alpha -> a <= b <= c ->
  integral_xn_exp_minus_x n alpha a c = integral_xn_exp_minus_x n alpha a b + integral_xn_exp_minus_x n alpha b c.
Proof. intros Ha H. apply (closed_additive _ _ anyR (xn_exp_HF n alpha Ha)); unfold anyR; auto. Qed.

Theorem xn_exp_sign n alpha a b : 0 < alpha -> a <= b ->
  (Nat.even n = true -> 0 <= integral_xn_exp_minus_x n alpha a b) /\
  (0 <= a -> 0 <= integral_xn_exp_minus_x n alpha a b) /\
  (b <= 0 -> Nat.even n = false -> integral_xn_exp_minus_x n alpha a b <= 0).
Proof.
  intros Ha Hab.
  assert (Hnu : forall x, 0 <= exp (- alpha * Rabs x)) by (intros; left; apply exp_pos).
  repeat split; intros.
  - apply (sign_even _ Hnu n _ anyR (xn_exp_HF n alpha Ha)); unfold anyR; auto.
  - apply (sign_right _ Hnu n _ anyR (xn_exp_HF n alpha Ha)); unfold anyR; auto.
  - apply (sign_left_odd _ Hnu n _ anyR (xn_exp_HF n alpha Ha)); unfold anyR; auto.
Qed.

Lemma vg_xn_HF c lm lp n : 0 < lm -> 0 < lp -> (1 <= n)%nat -> forall a b, a <= b -> anyR a -> anyR b ->
  is_RInt (fun x => x ^ n * vg_nu c lm lp x) a b (vg_integrate_xn c lm lp n a b).
Proof. intros Hm Hp Hn a b Hab _ _. apply vg_xn_is_RInt; assumption. Qed.

Theorem vg_xn_additive_sign c lm lp n a b cc : 0 <= c -> 0 < lm -> 0 < lp -> (1 <= n)%nat -> a <= b <= cc ->
  vg_integrate_xn c lm lp n a cc = vg_integrate_xn c lm lp n a b + vg_integrate_xn c lm lp n b cc /\
  (Nat.even n = true -> 0 <= vg_integrate_xn c lm lp n a cc) /\
  (0 <= a -> 0 <= vg_integrate_xn c lm lp n a cc) /\
  (cc <= 0 -> Nat.even n = false -> vg_integrate_xn c lm lp n a cc <= 0).
Proof.
  intros Hc Hm Hp Hn H.
  assert (Hnu : forall x, 0 <= vg_nu c lm lp x) by (intros; apply vg_nu_nonneg; assumption).
  assert (Hac : a <= cc) by lra.
  repeat split; intros.
  - apply (closed_additive _ _ anyR (vg_xn_HF c lm lp n Hm Hp Hn)); unfold anyR; auto.
  - apply (sign_even _ Hnu n _ anyR (vg_xn_HF c lm lp n Hm Hp Hn)); unfold anyR; auto.
  - apply (sign_right _ Hnu n _ anyR (vg_xn_HF c lm lp n Hm Hp Hn)); unfold anyR; auto.
  - apply (sign_left_odd _ Hnu n _ anyR (vg_xn_HF c lm lp n Hm Hp Hn)); unfold anyR; auto.
Qed.

Lemma merton_mass_HF lam mu sj : 0 < sj -> forall a b, a <= b -> anyR a -> anyR b ->
  is_RInt (fun x => x ^ 0 * merton_nu lam mu sj x) a b (merton_integrate lam mu sj a b).
Proof. intros Hs a b _ _ _. apply merton_mass_is_RInt; assumption. Qed.
Lemma merton_x_HF lam mu sj : 0 < sj -> forall a b, a <= b -> anyR a -> anyR b ->
  is_RInt (fun x => x ^ 1 * merton_nu lam mu sj x) a b (merton_integrate_x lam mu sj a b).
Proof. intros Hs a b _ _ _. apply merton_x_is_RInt; assumption. Qed.

Theorem merton_additive_sign lam mu sj a b c : 0 <= lam -> 0 < sj -> a <= b <= c ->
  merton_integrate lam mu sj a c = merton_integrate lam mu sj a b + merton_integrate lam mu sj b c /\
  merton_integrate_x lam mu sj a c = merton_integrate_x lam mu sj a b + merton_integrate_x lam mu sj b c /\
  0 <= merton_integrate lam mu sj a c /\
  (0 <= a -> 0 <= merton_integrate_x lam mu sj a c) /\ (c <= 0 -> merton_integrate_x lam mu sj a c <= 0).
Proof.
  intros Hl Hs H.
  assert (Hnu : forall x, 0 <= merton_nu lam mu sj x) by (intros; apply merton_nu_nonneg; assumption).
  assert (Hac : a <= c) by lra.
  repeat split; intros.
  - apply (closed_additive _ _ anyR (merton_mass_HF lam mu sj Hs)); unfold anyR; auto.
  - apply (closed_additive _ _ anyR (merton_x_HF lam mu sj Hs)); unfold anyR; auto.
  - apply (sign_even _ Hnu 0%nat _ anyR (merton_mass_HF lam mu sj Hs)); unfold anyR; auto.
  - apply (sign_right _ Hnu 1%nat _ anyR (merton_x_HF lam mu sj Hs)); unfold anyR; auto.
  - apply (sign_left_odd _ Hnu 1%nat _ anyR (merton_x_HF lam mu sj Hs)); unfold anyR; auto.
Qed.
End Others.

(* ------------------------------------------------------------------ behaviour before the fix: commits (witnesses) *)
(* witnesses proved with exp_pos / exp_increasing only (no interval arithmetic: keeps coqchk of the C09 closure cheap) *)
Lemma exp_m_lt_1 x : 0 < x -> exp (- x) < 1.
Proof. intros H. rewrite <- exp_0. apply exp_increasing. lra. Qed.

(* closed values of the helpers for n = 0 and n = 2 *)
Lemma xn_helper_0 alpha u : alpha <> 0 -> xn_helper 0 alpha u = exp (- Rabs u * alpha) / alpha.
Proof. intros H. unfold xn_helper, helper_sum_fact_xk. simpl. field. assumption. Qed.
Lemma xn_helper_old_0 alpha u : alpha <> 0 -> xn_helper_old 0 alpha u = exp (- Rabs u * alpha) / alpha.
Proof. intros H. unfold xn_helper_old. simpl. field. assumption. Qed.
Lemma xn_helper_2 alpha u : alpha <> 0 -> 0 <= u * alpha ->
  xn_helper 2 alpha u = (2 + 2 * (u * alpha) + (u * alpha) ^ 2) * exp (- Rabs u * alpha) / alpha ^ 3.
Proof. intros H Hx. unfold xn_helper, helper_sum_fact_xk. simpl. rewrite (Rabs_pos_eq (u * alpha)) by assumption. field. assumption. Qed.
Lemma xn_helper_old_2 alpha u : alpha <> 0 -> 0 <= u * alpha ->
  xn_helper_old 2 alpha u = (2 + 2 * (u * alpha) + 4 * (u * alpha) ^ 2) * exp (- Rabs u * alpha) / alpha ^ 3.
Proof. intros H Hx. unfold xn_helper_old. simpl. rewrite (Rabs_pos_eq (u * alpha)) by assumption. field. assumption. Qed.

Theorem xn_exp_old_refuted :
  (exists n alpha a b, 0 < alpha /\ 0 <= a <= b /\ integral_xn_exp_old n alpha a b <> RInt (fun x => x ^ n * exp (- alpha * Rabs x)) a b) /\
  (exists n alpha a b, 0 < alpha /\ a <= b <= 0 /\ integral_xn_exp_old n alpha a b <> RInt (fun x => x ^ n * exp (- alpha * Rabs x)) a b).
Proof.
  split.
  - (* k! instead of 1/k!: n = 2, alpha = 1, [0,1]: the two values differ by -3 e^-1 *)
    exists 2%nat, 1, 0, 1. split; [lra|]. split; [lra|].
    rewrite (is_RInt_unique _ _ _ _ (xn_exp_is_RInt 2 1 0 1 ltac:(lra) ltac:(lra))).
    rewrite xn_exp_pos by lra. unfold integral_xn_exp_old.
    rewrite !xn_helper_2, !xn_helper_old_2 by lra.
    rewrite Rabs_R0, Rabs_R1. replace (- 0 * 1) with 0 by ring. rewrite exp_0.
    pose proof (exp_pos (- (1) * 1)). intros E. lra.
  - (* sign on the negative side: n = 0, alpha = 1, [-1,0]: old = e^-1 - 1 < 0 < 1 - e^-1 *)
    exists 0%nat, 1, (-1), 0. split; [lra|]. split; [lra|].
    rewrite (is_RInt_unique _ _ _ _ (xn_exp_is_RInt 0 1 (-1) 0 ltac:(lra) ltac:(lra))).
    rewrite xn_exp_neg by lra. unfold integral_xn_exp_old, sgn_even. simpl Nat.even. cbv iota.
    rewrite !xn_helper_0, !xn_helper_old_0 by lra.
    rewrite Rabs_R0. replace (Rabs (-1)) with 1 by (rewrite Rabs_left; lra).
    replace (- 0 * 1) with 0 by ring. rewrite exp_0.
    replace (- (1) * 1) with (- (1)) by ring. pose proof (exp_m_lt_1 1 Rlt_0_1). intros E. lra.
Qed.

Theorem base_xn0_old_refuted : exists lam p e1 e2 a b, a <= b /\
  base_integrate_xn_old (hem_integrate 0 lam p e1 e2) (hem_integrate_x 0 lam p e1 e2) (hem_integrate_xx 0 lam p e1 e2) (fun _ _ _ => 0) a b 0
  <> RInt (fun x => x ^ 0 * hem_nu lam p e1 e2 x) a b.
Proof.
  exists 1, 1, 1, 1, 1, 2. split; [lra|].
  rewrite (is_RInt_unique _ _ _ _ (hem_mass_is_RInt 0 1 1 1 1 1 2 ltac:(lra))).
  unfold base_integrate_xn_old. rewrite !hem_integrate_pos by lra.
  assert (H : exp (- (1) * 2) < exp (- (1) * 1)) by (apply exp_increasing; lra).
  intros E. lra.
Qed.

Theorem vg_xn_old_refuted : exists c lm lp n a b, 0 < lm /\ 0 < lp /\ (1 <= n)%nat /\ a <= b /\
  vg_integrate_xn_old integral_xn_exp_minus_x c lm lp n a b <> RInt (fun x => x ^ n * vg_nu c lm lp x) a b.
Proof.
  exists 1, 1, 2, 1%nat, (-1), 0. repeat split; try lra; auto.
  rewrite (is_RInt_unique _ _ _ _ (vg_xn_is_RInt 1 1 2 ltac:(lra) ltac:(lra) 1 (-1) 0 ltac:(auto) ltac:(lra))).
  rewrite vg_integrate_xn_neg by lra. unfold vg_integrate_xn_old.
  replace (Rltb 0 0) with false by (symmetry; apply Rltb_false; lra).
  rewrite !xn_exp_neg by lra. unfold sgn_even. simpl Nat.sub. simpl Nat.even. cbv iota.
  rewrite !xn_helper_0 by lra.
  rewrite Rabs_R0. replace (Rabs (-1)) with 1 by (rewrite Rabs_left; lra).
  replace (- 0 * 1) with 0 by ring. replace (- 0 * 2) with 0 by ring. rewrite exp_0.
  replace (- (1) * 1) with (- (1)) by ring. replace (- (1) * 2) with (- (2)) by ring.
  pose proof (exp_m_lt_1 1 Rlt_0_1). assert (H2 : exp (- (2)) < 1) by (apply exp_m_lt_1; lra).
  intros E. lra.
Qed.

(* truncation of an INFINITE-activity mass: l < 0 < r (every chain truncation) is allowed as long as the clipped interval
   [max a l, min b r] stays on one side of zero, where the VG mass is finite *)
Theorem vg_mass_truncated INF c lm lp c0 l r a b : 0 < lm -> 0 < lp -> 0 < INF -> l <= r -> a <= b ->
  let aa := fst (truncated_interval l r a b) in let bb := snd (truncated_interval l r a b) in
  (0 < aa \/ bb < 0) -> - INF < aa -> bb < INF ->
  is_RInt (fun x => x ^ 0 * truncated_nu (vg_nu c lm lp) l r x) a b (truncated_integrate (vg_integrate (E1c c0) INF c lm lp) l r a b).
Proof.
  intros Hm Hp HI Hlr Hab aa bb Hside Fa Fb.
  apply (truncated_is_RInt (vg_nu c lm lp) 0%nat _ (fun x y => (0 < x \/ y < 0) /\ - INF < x /\ y < INF)); try assumption.
  - intros x y Hxy (Hs & Fx & Fy). apply vg_mass_is_RInt; assumption.
  - intros _. fold aa bb. repeat split; assumption.
Qed.

(* ------------------------------------------------------------------ statements of Properties/C09.v assembled from the lemmas above *)
Lemma c09_hem_left_halfline_pf : forall INF lam p eta1 eta2, 0 < eta1 -> 0 < eta2 -> forall b, b <= 0 -> - INF <= b ->
  is_lim (fun a => RInt (fun x => x ^ 0 * hem_nu lam p eta1 eta2 x) a b) m_infty (hem_integrate_left lam p eta2 b) /\
  is_lim (fun a => RInt (fun x => x ^ 1 * hem_nu lam p eta1 eta2 x) a b) m_infty (hem_integrate_x INF lam p eta1 eta2 (- INF) b) /\
  is_lim (fun a => RInt (fun x => x ^ 2 * hem_nu lam p eta1 eta2 x) a b) m_infty (hem_integrate_xx INF lam p eta1 eta2 (- INF) b).
Proof. intros. repeat split; [apply hem_mass_left | apply hem_x_left | apply hem_xx_left]; assumption. Qed.
Lemma c09_hem_right_halfline_pf : forall INF lam p eta1 eta2, 0 < eta1 -> 0 < eta2 -> forall a, 0 <= a -> 0 < INF -> a <= INF ->
  is_lim (fun b => RInt (fun x => x ^ 0 * hem_nu lam p eta1 eta2 x) a b) p_infty (hem_integrate_right lam p eta1 a) /\
  is_lim (fun b => RInt (fun x => x ^ 1 * hem_nu lam p eta1 eta2 x) a b) p_infty (hem_integrate_x INF lam p eta1 eta2 a INF) /\
  is_lim (fun b => RInt (fun x => x ^ 2 * hem_nu lam p eta1 eta2 x) a b) p_infty (hem_integrate_xx INF lam p eta1 eta2 a INF).
Proof. intros. repeat split; [apply hem_mass_right | apply hem_x_right | apply hem_xx_right]; assumption. Qed.

Lemma c09_cgmy_mass_pf : forall (E1 : R -> R) (G : R -> R -> R),
  (forall x, 0 < x -> is_derive E1 x (- (exp (- x) / x))) ->
  (forall s x, 0 < x -> is_derive (G s) x (- (Rpower x (s - 1) * exp (- x)))) ->
  forall c g m y, 0 < g -> 0 < m -> y < 2 ->
  (forall a b, 0 < a -> a <= b -> is_RInt (fun x => x ^ 0 * cgmy_nu c g m y x) a b (cgmy_mass_pos_code E1 G c m y a b)) /\
  (forall a b, a <= b -> b < 0 -> is_RInt (fun x => x ^ 0 * cgmy_nu c g m y x) a b (cgmy_mass_neg_code E1 G c g y a b)).
Proof. intros. split; intros; [apply cgmy_mass_pos_code_is_RInt | apply cgmy_mass_neg_code_is_RInt]; assumption. Qed.
Lemma c09_cgmy_x_pf : forall (E1 : R -> R) (G : R -> R -> R),
  (forall x, 0 < x -> is_derive E1 x (- (exp (- x) / x))) ->
  (forall s x, 0 < x -> is_derive (G s) x (- (Rpower x (s - 1) * exp (- x)))) ->
  forall c g m y, 0 < g -> 0 < m ->
  (forall a b, 0 < a -> a <= b -> is_RInt (fun x => x ^ 1 * cgmy_nu c g m y x) a b (cgmy_x_pos_code E1 G c m y a b)) /\
  (forall a b, a <= b -> b < 0 -> is_RInt (fun x => x ^ 1 * cgmy_nu c g m y x) a b (cgmy_x_neg_code E1 G c g y a b)).
Proof. intros. split; intros; [apply cgmy_x_pos_code_is_RInt | apply cgmy_x_neg_code_is_RInt]; assumption. Qed.
Lemma c09_special_models_pf : forall c0 g0,
  (forall x, 0 < x -> is_derive (E1c c0) x (- (exp (- x) / x))) /\
  (forall s x, 0 < x -> is_derive (Gupc g0 s) x (- (Rpower x (s - 1) * exp (- x)))).
Proof. intros. split; intros; [apply E1c_derive | apply Gupc_derive]; assumption. Qed.

Lemma c09_sign_pf : forall (nu : R -> R), (forall x, 0 <= nu x) -> forall (n : nat) (F : R -> R -> R) (D : R -> Prop),
  (forall a b, a <= b -> D a -> D b -> is_RInt (fun x => x ^ n * nu x) a b (F a b)) ->
  forall a b, a <= b -> D a -> D b ->
  (Nat.even n = true -> 0 <= F a b) /\ (0 <= a -> 0 <= F a b) /\ (b <= 0 -> Nat.even n = false -> F a b <= 0).
Proof.
  intros nu Hnu n F D HF a b Hab Da Db. repeat split; intros.
  - apply (sign_even nu Hnu n F D HF); assumption.
  - apply (sign_right nu Hnu n F D HF); assumption.
  - apply (sign_left_odd nu Hnu n F D HF); assumption.
Qed.
Lemma c09_additive_sign_xn_exp_pf : forall n alpha a b c, 0 < alpha -> a <= b <= c ->
  integral_xn_exp_minus_x n alpha a c = integral_xn_exp_minus_x n alpha a b + integral_xn_exp_minus_x n alpha b c /\
  (Nat.even n = true -> 0 <= integral_xn_exp_minus_x n alpha a c) /\
  (0 <= a -> 0 <= integral_xn_exp_minus_x n alpha a c) /\
  (c <= 0 -> Nat.even n = false -> integral_xn_exp_minus_x n alpha a c <= 0).
Proof. intros n alpha a b c Ha H. split; [apply (xn_exp_additive n alpha a b c Ha H) | apply xn_exp_sign; [assumption | lra]]. Qed.
Lemma c09_truncated_density_pf : forall nu l r x,
  ((x < l \/ r < x) -> truncated_nu nu l r x = 0) /\ (l <= x <= r -> truncated_nu nu l r x = nu x).
Proof. intros. split; [apply truncated_nu_outside | apply truncated_nu_inside]. Qed.
Lemma c09_nonvacuous_pf : hem_integrate 9 3 (2/5) 10 5 (-1) 0 = 3 * (1 - 2/5) * (exp (5 * 0) - exp (5 * -1))
  /\ truncated_interval (-1) 2 (-3) 1 = (-1, 1).
Proof.
  split.
  - rewrite hem_integrate_neg by lra. reflexivity.
  - rewrite truncated_interval_eq. rewrite (Rmin_left (-3) 2), (Rmax_right (-3) (-1)), (Rmax_left 1 (-1)), (Rmin_left 1 2) by lra. reflexivity.
Qed.

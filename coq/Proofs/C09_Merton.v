(* C09 -- Merton closed forms (py2coq-generated from merton.py, Gen.GenC09Merton): mass, first and second moment
   through erf x = 2/sqrt(pi) int_0^x exp(-t^2) dt and the linear substitution z = (x - mu) / (sigma sqrt 2). *)
From Coq Require Import Reals Lra Psatz Bool.
From Coquelicot Require Import Coquelicot.
From RV Require Import Base.RB Base.RSpecial Gen.GenC09Merton Model.LevyClosedForms Proofs.C09_Generic.
Open Scope R_scope.

Definition gauss (t : R) : R := exp (- t ^ 2).
Lemma gauss_continuous t : continuous gauss t.
Proof. unfold gauss. cont. Qed.
Lemma gauss_ex_RInt a b : ex_RInt gauss a b.
Proof. apply (@ex_RInt_continuous R_CompleteNormedModule). intros z _. apply gauss_continuous. Qed.

Lemma sqrtPI_pos : 0 < sqrt PI.
Proof. apply sqrt_lt_R0. apply PI_RGT_0. Qed.
Lemma sqrt2_pos : 0 < sqrt 2.
Proof. apply sqrt_lt_R0. lra. Qed.
Lemma sqrt2PI : sqrt (2 * PI) = sqrt 2 * sqrt PI.
Proof. apply sqrt_mult; [lra | left; apply PI_RGT_0]. Qed.

Lemma erf_derive x : is_derive erf x (2 / sqrt PI * gauss x).
Proof.
  unfold erf. fold gauss.
  apply (is_derive_scal (fun x => RInt gauss 0 x) x (2 / sqrt PI) (gauss x)).
  apply (is_derive_RInt gauss (fun x => RInt gauss 0 x) 0 x).
  - exists (mkposreal 1 Rlt_0_1). intros y _. apply (@RInt_correct R_CompleteNormedModule). apply gauss_ex_RInt.
  - apply gauss_continuous.
Qed.
Lemma erf_diff x y : erf y - erf x = 2 / sqrt PI * RInt gauss x y.
Proof.
  unfold erf. fold gauss.
  assert (H := RInt_Chasles gauss 0 x y (gauss_ex_RInt 0 x) (gauss_ex_RInt x y)). unfold plus in H; simpl in H.
  rewrite <- H. ring.
Qed.

Section Merton.
Variables lam mu sj : R.
Hypothesis Hsj : 0 < sj.
Definition zz (x : R) : R := (x - mu) / (sj * sqrt 2).

Lemma zz_sq x : - (zz x) ^ 2 = - (x - mu) ^ 2 / (2 * sj ^ 2).
Proof.
  unfold zz. pose proof sqrt2_pos. assert (E : sqrt 2 * sqrt 2 = 2) by (apply sqrt_sqrt; lra).
  replace (2 * sj ^ 2) with (sqrt 2 * sqrt 2 * sj ^ 2) by (rewrite E; ring). field. split; lra.
Qed.

Lemma merton_nu_spec x : merton_nu lam mu sj x = lam / (sj * (sqrt 2 * sqrt PI)) * gauss (zz x).
Proof.
  unfold merton_nu, gauss. cbv beta iota zeta. rewrite sqrt2PI. rewrite zz_sq. reflexivity.
Qed.
Lemma merton_nu_nonneg x : 0 <= lam -> 0 <= merton_nu lam mu sj x.
Proof.
  intros Hl. rewrite merton_nu_spec. pose proof sqrt2_pos. pose proof sqrtPI_pos.
  apply Rmult_le_pos; [|left; apply exp_pos].
  apply Rmult_le_pos; [assumption|]. left. apply Rinv_0_lt_compat.
  apply Rmult_lt_0_compat; [assumption | apply Rmult_lt_0_compat; assumption].
Qed.

Lemma erf_aux_derive x : is_derive (merton_erf_aux mu sj) x (2 / sqrt PI * gauss (zz x) / (sj * sqrt 2)).
Proof.
  unfold merton_erf_aux. fold (zz x). pose proof sqrt2_pos.
  evar_last.
  - apply (is_derive_comp erf (fun x => (x - mu) / (sj * sqrt 2)) x).
    + apply erf_derive.
    + auto_derive; [nra | reflexivity].
  - unfold scal; simpl; unfold mult; simpl. fold (zz x). field. pose proof sqrtPI_pos. repeat split; lra.
Qed.

(* mass *)
Theorem merton_mass_is_RInt a b :
  is_RInt (fun x => x ^ 0 * merton_nu lam mu sj x) a b (merton_integrate lam mu sj a b).
Proof.
  pose proof sqrt2_pos. pose proof sqrtPI_pos.
  apply is_RInt_ext_R with (f := fun x => 1 / 2 * lam * (2 / sqrt PI * gauss (zz x) / (sj * sqrt 2))).
  { intros x _. rewrite merton_nu_spec. simpl. field. repeat split; lra. }
  unfold merton_integrate. cbv beta iota zeta.
  replace (1 / 2 * lam * (merton_erf_aux mu sj b - merton_erf_aux mu sj a))
    with (1 / 2 * lam * merton_erf_aux mu sj b - 1 / 2 * lam * merton_erf_aux mu sj a) by ring.
  apply (is_RInt_derive_R (fun x => 1 / 2 * lam * merton_erf_aux mu sj x)).
  - intros x _. apply (is_derive_scal (merton_erf_aux mu sj) x (1 / 2 * lam)). apply erf_aux_derive.
  - intros x _. unfold zz, gauss. cont.
Qed.

(* first moment *)
Definition fun_aux_x (x : R) : R :=
  1 / 2 * mu * merton_erf_aux mu sj x - sj / sqrt (2 * PI) * exp (- (x - mu) ^ 2 / (2 * sj ^ 2)).

Definition dens1 (x : R) : R := 1 / (sj * (sqrt 2 * sqrt PI)) * gauss (zz x).
Lemma merton_nu_dens1 x : merton_nu lam mu sj x = lam * dens1 x.
Proof. rewrite merton_nu_spec. unfold dens1. pose proof sqrt2_pos. pose proof sqrtPI_pos. field. repeat split; lra. Qed.
Lemma dens1_continuous x : continuous dens1 x.
Proof. unfold dens1, gauss, zz. pose proof sqrt2_pos. cont. Qed.

Lemma fun_aux_x_derive x : is_derive fun_aux_x x (x * dens1 x).
Proof.
  pose proof sqrt2_pos. pose proof sqrtPI_pos.
  unfold fun_aux_x. rewrite sqrt2PI.
  evar_last.
  - apply (@is_derive_minus R_AbsRing R_NormedModule).
    + apply (is_derive_scal (merton_erf_aux mu sj) x (1 / 2 * mu)). apply erf_aux_derive.
    + auto_derive; [repeat split; nra | reflexivity].
  - unfold minus, plus, opp, scal; simpl; unfold mult; simpl. unfold dens1, gauss. rewrite zz_sq.
    replace (- ((x + - mu) * ((x + - mu) * 1)) * / (2 * (sj * (sj * 1)))) with (- (x - mu) ^ 2 / (2 * sj ^ 2)) by (field; lra).
    field. repeat split; lra.
Qed.

Theorem merton_x_is_RInt a b :
  is_RInt (fun x => x ^ 1 * merton_nu lam mu sj x) a b (merton_integrate_x lam mu sj a b).
Proof.
  apply is_RInt_ext_R with (f := fun x => lam * (x * dens1 x)).
  { intros x _. rewrite merton_nu_dens1. simpl. ring. }
  replace (merton_integrate_x lam mu sj a b) with (lam * fun_aux_x b - lam * fun_aux_x a)
    by (unfold merton_integrate_x, fun_aux_x; cbv beta iota zeta; ring).
  apply (is_RInt_derive_R (fun x => lam * fun_aux_x x)).
  - intros x _. apply (is_derive_scal fun_aux_x x lam). apply fun_aux_x_derive.
  - intros x _. apply (continuous_scal_r lam (fun x => x * dens1 x)).
    apply (continuous_mult (fun x : R => x) dens1); [apply continuous_id | apply dens1_continuous].
Qed.

(* second moment (finite end points: x <> +-INF, the branch that keeps the exponential term) *)
Definition fun_aux_xx (x : R) : R :=
  1 / 2 * (mu ^ 2 + sj ^ 2) * merton_erf_aux mu sj x - sj / sqrt (2 * PI) * (mu + x) * exp (- (x - mu) ^ 2 / (2 * sj ^ 2)).

Lemma fun_aux_xx_derive x : is_derive fun_aux_xx x (x ^ 2 * dens1 x).
Proof.
  pose proof sqrt2_pos. pose proof sqrtPI_pos.
  unfold fun_aux_xx. rewrite sqrt2PI.
  evar_last.
  - apply (@is_derive_minus R_AbsRing R_NormedModule).
    + apply (is_derive_scal (merton_erf_aux mu sj) x (1 / 2 * (mu ^ 2 + sj ^ 2))). apply erf_aux_derive.
    + auto_derive; [repeat split; nra | reflexivity].
  - unfold minus, plus, opp, scal; simpl; unfold mult; simpl. unfold dens1, gauss. rewrite zz_sq.
    replace (- ((x + - mu) * ((x + - mu) * 1)) * / (2 * (sj * (sj * 1)))) with (- (x - mu) ^ 2 / (2 * sj ^ 2)) by (field; lra).
    field. repeat split; lra.
Qed.

Theorem merton_xx_is_RInt INF a b : - INF < a < INF -> - INF < b < INF ->
  is_RInt (fun x => x ^ 2 * merton_nu lam mu sj x) a b (merton_integrate_xx INF lam mu sj a b).
Proof.
  intros Fa Fb.
  apply is_RInt_ext_R with (f := fun x => lam * (x ^ 2 * dens1 x)).
  { intros x _. rewrite merton_nu_dens1. ring. }
  replace (merton_integrate_xx INF lam mu sj a b) with (lam * fun_aux_xx b - lam * fun_aux_xx a).
  2:{ unfold merton_integrate_xx, fun_aux_xx. cbv beta iota zeta. rewrite !Reqb_ne by lra. cbn [orb]. ring. }
  apply (is_RInt_derive_R (fun x => lam * fun_aux_xx x)).
  - intros x _. apply (is_derive_scal fun_aux_xx x lam). apply fun_aux_xx_derive.
  - intros x _. apply (continuous_scal_r lam (fun x => x ^ 2 * dens1 x)).
    apply (continuous_mult (fun x : R => x ^ 2) dens1); [cont | apply dens1_continuous].
Qed.
End Merton.

(* the closed forms with a single integral (used by the interval case lemmas of the correspondence) *)
Section AsRInt.
Variables lam mu sj : R.
Notation z := (fun x => (x - mu) / (sj * sqrt 2)).
Lemma merton_integrate_as_RInt a b :
  merton_integrate lam mu sj a b = 1 / 2 * lam * (2 / sqrt PI * RInt gauss (z a) (z b)).
Proof. unfold merton_integrate, merton_erf_aux. cbv beta iota zeta. rewrite erf_diff. reflexivity. Qed.
Lemma merton_integrate_x_as_RInt a b :
  merton_integrate_x lam mu sj a b
  = lam * (1 / 2 * mu * (2 / sqrt PI * RInt gauss (z a) (z b))
           - sj / sqrt (2 * PI) * (exp (- (b - mu) ^ 2 / (2 * sj ^ 2)) - exp (- (a - mu) ^ 2 / (2 * sj ^ 2)))).
Proof. unfold merton_integrate_x, merton_erf_aux. cbv beta iota zeta. rewrite <- erf_diff. ring. Qed.
Lemma merton_integrate_xx_as_RInt INF a b : - INF < a < INF -> - INF < b < INF ->
  merton_integrate_xx INF lam mu sj a b
  = lam * (1 / 2 * (mu ^ 2 + sj ^ 2) * (2 / sqrt PI * RInt gauss (z a) (z b))
           - sj / sqrt (2 * PI) * ((mu + b) * exp (- (b - mu) ^ 2 / (2 * sj ^ 2)) - (mu + a) * exp (- (a - mu) ^ 2 / (2 * sj ^ 2)))).
Proof.
  intros Fa Fb. unfold merton_integrate_xx, merton_erf_aux. cbv beta iota zeta. rewrite !Reqb_ne by lra. cbn [orb].
  rewrite <- erf_diff. ring.
Qed.
End AsRInt.

(* C09 -- Variance Gamma closed forms (py2coq-generated from variancegamma.py, Gen.GenC09Vg):
   first and second moments (elementary), mass through the exponential integral, n-th moments through tools/integral.py. *)
From Coq Require Import Reals Lra Psatz Bool Arith Lia.
From Coquelicot Require Import Coquelicot.
From RV Require Import Base.RB Base.RSpecial Gen.GenC09Vg Model.LevyClosedForms Proofs.C09_Generic Proofs.C09_XnExp.
Open Scope R_scope.

(* ------------------------------------------------------------------ density *)
Lemma vg_nu_pos c lm lp x : 0 < x -> vg_nu c lm lp x = c * exp (- lp * x) / x.
Proof. intros H. unfold vg_nu. cbv beta iota zeta. rb. reflexivity. Qed.
Lemma vg_nu_neg c lm lp x : x < 0 -> vg_nu c lm lp x = c * exp (lm * x) / (- x).
Proof.
  intros H. unfold vg_nu. cbv beta iota zeta. rb. rewrite Rabs_left by assumption.
  replace (- lm * - x) with (lm * x) by ring. reflexivity.
Qed.
Lemma vg_nu_zero c lm lp : vg_nu c lm lp 0 = 0.
Proof. unfold vg_nu. cbv beta iota zeta. rb. reflexivity. Qed.
Lemma vg_nu_nonneg c lm lp x : 0 <= c -> 0 <= vg_nu c lm lp x.
Proof.
  intros Hc. destruct (Rtotal_order x 0) as [H | [H | H]].
  - rewrite vg_nu_neg by assumption. apply Rmult_le_pos; [apply Rmult_le_pos; [assumption | left; apply exp_pos]|].
    left. apply Rinv_0_lt_compat. lra.
  - subst. rewrite vg_nu_zero. lra.
  - rewrite vg_nu_pos by assumption. apply Rmult_le_pos; [apply Rmult_le_pos; [assumption | left; apply exp_pos]|].
    left. apply Rinv_0_lt_compat. lra.
Qed.
(* x_nu is x * nu(x) *)
Lemma vg_x_nu_spec c lm lp x : vg_x_nu c lm lp x = x * vg_nu c lm lp x.
Proof.
  destruct (Rtotal_order x 0) as [H | [H | H]].
  - rewrite vg_nu_neg by assumption. unfold vg_x_nu. cbv beta iota zeta. rb. rewrite Rabs_left by assumption.
    replace (- lm * - x) with (lm * x) by ring. field. lra.
  - subst. rewrite vg_nu_zero. unfold vg_x_nu. cbv beta iota zeta. rb. ring.
  - rewrite vg_nu_pos by assumption. unfold vg_x_nu. cbv beta iota zeta. rb. field. lra.
Qed.

(* ------------------------------------------------------------------ branches of the first / second moment *)
Section Branches.
Variables INF c lm lp : R.
Lemma vg_integrate_x_pos a b : 0 <= a -> vg_integrate_x INF c lm lp a b = c * (exp (- lp * a) - exp (- lp * b)) / lp.
Proof. intros. unfold vg_integrate_x, vg_integrate_x_F. cbv beta iota zeta. rb. reflexivity. Qed.
Lemma vg_integrate_x_neg a b : a < 0 -> b <= 0 -> vg_integrate_x INF c lm lp a b = c * (exp (lm * a) - exp (lm * b)) / lm.
Proof. intros. unfold vg_integrate_x, vg_integrate_x_F. cbv beta iota zeta. rb. cbn [andb]. reflexivity. Qed.
Lemma vg_integrate_x_straddle a b : a < 0 -> 0 < b ->
  vg_integrate_x INF c lm lp a b = vg_integrate_x INF c lm lp a 0 + vg_integrate_x INF c lm lp 0 b.
Proof.
  intros. rewrite (vg_integrate_x_neg a 0), (vg_integrate_x_pos 0 b) by lra.
  unfold vg_integrate_x. unfold vg_integrate_x_F at 1. cbv beta iota zeta. rb. cbn [andb].
  replace (0 / 1) with 0 by field. unfold vg_integrate_x_F. cbv beta iota zeta. rb. cbn [andb]. reflexivity.
Qed.

Lemma vg_integrate_xx_pos a b : 0 <= a -> b < INF ->
  vg_integrate_xx INF c lm lp a b = c * ((a + 1 / lp) * exp (- lp * a) - (b + 1 / lp) * exp (- lp * b)) / lp.
Proof. intros. unfold vg_integrate_xx, vg_integrate_xx_F. cbv beta iota zeta. rb. rewrite Reqb_ne by lra. reflexivity. Qed.
Lemma vg_integrate_xx_neg a b : a < 0 -> b <= 0 -> - INF < a ->
  vg_integrate_xx INF c lm lp a b = - c * ((b - 1 / lm) * exp (lm * b) - (a - 1 / lm) * exp (lm * a)) / lm.
Proof. intros. unfold vg_integrate_xx, vg_integrate_xx_F. cbv beta iota zeta. rb. cbn [andb]. rewrite Reqb_ne by lra. reflexivity. Qed.
Lemma vg_integrate_xx_straddle a b : a < 0 -> 0 < b -> - INF < a -> b < INF ->
  vg_integrate_xx INF c lm lp a b = vg_integrate_xx INF c lm lp a 0 + vg_integrate_xx INF c lm lp 0 b.
Proof.
  intros. rewrite (vg_integrate_xx_neg a 0), (vg_integrate_xx_pos 0 b) by lra.
  unfold vg_integrate_xx. unfold vg_integrate_xx_F at 1. cbv beta iota zeta. rb. cbn [andb].
  replace (0 / 1) with 0 by field. unfold vg_integrate_xx_F. cbv beta iota zeta. rb. cbn [andb].
  rewrite !Reqb_ne by lra. reflexivity.
Qed.
End Branches.

(* ------------------------------------------------------------------ first and second moments: fundamental theorem *)
Section Moments.
Variables INF c lm lp : R.
Hypothesis Hlm : lm <> 0.
Hypothesis Hlp : lp <> 0.

Lemma is_RInt_vg_x_pos a b : 0 <= a -> a <= b ->
  is_RInt (fun x => x ^ 1 * vg_nu c lm lp x) a b (c * (exp (- lp * a) - exp (- lp * b)) / lp).
Proof.
  intros Ha Hab. apply is_RInt_ext_R with (f := fun x => c * exp (- lp * x)).
  { intros x Hx. rewrite Rmin_left, Rmax_right in Hx by assumption. rewrite vg_nu_pos by lra. field. lra. }
  replace (c * (exp (- lp * a) - exp (- lp * b)) / lp) with (- c * exp (- lp * b) / lp - - c * exp (- lp * a) / lp) by (field; assumption).
  apply (is_RInt_derive (fun x => - c * exp (- lp * x) / lp)).
  - intros x _. auto_derive; auto. field. assumption.
  - intros x _. cont.
Qed.
Lemma is_RInt_vg_x_neg a b : a <= b -> b <= 0 ->
  is_RInt (fun x => x ^ 1 * vg_nu c lm lp x) a b (c * (exp (lm * a) - exp (lm * b)) / lm).
Proof.
  intros Hab Hb. apply is_RInt_ext_R with (f := fun x => - c * exp (lm * x)).
  { intros x Hx. rewrite Rmin_left, Rmax_right in Hx by assumption. rewrite vg_nu_neg by lra. field. lra. }
  replace (c * (exp (lm * a) - exp (lm * b)) / lm) with (- c * exp (lm * b) / lm - - c * exp (lm * a) / lm) by (field; assumption).
  apply (is_RInt_derive (fun x => - c * exp (lm * x) / lm)).
  - intros x _. auto_derive; auto. field. assumption.
  - intros x _. cont.
Qed.

Theorem vg_x_is_RInt a b : a <= b ->
  is_RInt (fun x => x ^ 1 * vg_nu c lm lp x) a b (vg_integrate_x INF c lm lp a b).
Proof.
  intros Hab.
  destruct (Rle_dec 0 a) as [Ha | Ha].
  { rewrite vg_integrate_x_pos by assumption. apply is_RInt_vg_x_pos; assumption. }
  apply Rnot_le_lt in Ha.
  destruct (Rle_dec b 0) as [Hb | Hb].
  { rewrite vg_integrate_x_neg by assumption. apply is_RInt_vg_x_neg; assumption. }
  apply Rnot_le_lt in Hb. rewrite vg_integrate_x_straddle by assumption.
  apply (chasles_R _ a 0 b).
  - rewrite vg_integrate_x_neg by lra. apply is_RInt_vg_x_neg; lra.
  - rewrite vg_integrate_x_pos by lra. apply is_RInt_vg_x_pos; lra.
Qed.

Lemma is_RInt_vg_xx_pos a b : 0 <= a -> a <= b ->
  is_RInt (fun x => x ^ 2 * vg_nu c lm lp x) a b (c * ((a + 1 / lp) * exp (- lp * a) - (b + 1 / lp) * exp (- lp * b)) / lp).
Proof.
  intros Ha Hab. apply is_RInt_ext_R with (f := fun x => c * x * exp (- lp * x)).
  { intros x Hx. rewrite Rmin_left, Rmax_right in Hx by assumption. rewrite vg_nu_pos by lra. field. lra. }
  replace (c * ((a + 1 / lp) * exp (- lp * a) - (b + 1 / lp) * exp (- lp * b)) / lp)
    with (- c * (b + 1 / lp) * exp (- lp * b) / lp - - c * (a + 1 / lp) * exp (- lp * a) / lp) by (field; assumption).
  apply (is_RInt_derive (fun x => - c * (x + 1 / lp) * exp (- lp * x) / lp)).
  - intros x _. auto_derive; auto. field. assumption.
  - intros x _. cont.
Qed.
Lemma is_RInt_vg_xx_neg a b : a <= b -> b <= 0 ->
  is_RInt (fun x => x ^ 2 * vg_nu c lm lp x) a b (- c * ((b - 1 / lm) * exp (lm * b) - (a - 1 / lm) * exp (lm * a)) / lm).
Proof.
  intros Hab Hb. apply is_RInt_ext_R with (f := fun x => - c * x * exp (lm * x)).
  { intros x Hx. rewrite Rmin_left, Rmax_right in Hx by assumption. rewrite vg_nu_neg by lra. field. lra. }
  replace (- c * ((b - 1 / lm) * exp (lm * b) - (a - 1 / lm) * exp (lm * a)) / lm)
    with (- c * (b - 1 / lm) * exp (lm * b) / lm - - c * (a - 1 / lm) * exp (lm * a) / lm) by (field; assumption).
  apply (is_RInt_derive (fun x => - c * (x - 1 / lm) * exp (lm * x) / lm)).
  - intros x _. auto_derive; auto. field. assumption.
  - intros x _. cont.
Qed.

Theorem vg_xx_is_RInt a b : a <= b -> - INF < a -> b < INF ->
  is_RInt (fun x => x ^ 2 * vg_nu c lm lp x) a b (vg_integrate_xx INF c lm lp a b).
Proof.
  intros Hab Fa Fb.
  destruct (Rle_dec 0 a) as [Ha | Ha].
  { rewrite vg_integrate_xx_pos by assumption. apply is_RInt_vg_xx_pos; assumption. }
  apply Rnot_le_lt in Ha.
  destruct (Rle_dec b 0) as [Hb | Hb].
  { rewrite vg_integrate_xx_neg by assumption. apply is_RInt_vg_xx_neg; assumption. }
  apply Rnot_le_lt in Hb. rewrite vg_integrate_xx_straddle by assumption.
  apply (chasles_R _ a 0 b).
  - rewrite vg_integrate_xx_neg by lra. apply is_RInt_vg_xx_neg; lra.
  - rewrite vg_integrate_xx_pos by lra. apply is_RInt_vg_xx_pos; lra.
Qed.
End Moments.

(* ------------------------------------------------------------------ mass: exponential integral *)
Definition e1f (t : R) : R := exp (- t) / t.
Lemma e1f_continuous t : t <> 0 -> continuous e1f t.
Proof. intros H. unfold e1f. cont. Qed.
Lemma e1f_ex_RInt x y : 0 < x -> 0 < y -> ex_RInt e1f x y.
Proof.
  intros Hx Hy. apply (@ex_RInt_continuous R_CompleteNormedModule). intros z Hz. apply e1f_continuous.
  assert (0 < Rmin x y) by (apply Rmin_pos; assumption). lra.
Qed.
Lemma E1c_diff c0 x y : 0 < x -> 0 < y -> E1c c0 x - E1c c0 y = RInt e1f x y.
Proof.
  intros Hx Hy. unfold E1c. fold e1f.
  assert (H := RInt_Chasles e1f 1 x y (e1f_ex_RInt 1 x Rlt_0_1 Hx) (e1f_ex_RInt x y Hx Hy)).
  unfold plus in H; simpl in H. lra.
Qed.

Section Mass.
Variables INF c lm lp c0 : R.
Hypothesis Hlm : 0 < lm.
Hypothesis Hlp : 0 < lp.

Lemma vg_integrate_pospos a b : 0 < a -> a <= b -> b < INF ->
  vg_integrate (E1c c0) INF c lm lp a b = c * RInt e1f (lp * a) (lp * b).
Proof.
  intros Ha Hab Hb. unfold vg_integrate. cbv beta iota zeta.
  destruct (Req_dec a b) as [E | N].
  { subst b. rewrite Reqb_same. rewrite (@RInt_point R_CompleteNormedModule). unfold zero; simpl. field. }
  rewrite (Reqb_ne a b) by assumption.
  replace (Rleb a 0) with false by (symmetry; apply Rleb_false; lra). cbn [andb]. rewrite andb_false_r.
  rewrite !Reqb_ne by lra. rb. cbn [andb].
  rewrite E1c_diff by nra. reflexivity.
Qed.
Lemma vg_integrate_negneg a b : a <= b -> b < 0 -> - INF < a -> 0 < INF ->
  vg_integrate (E1c c0) INF c lm lp a b = c * RInt e1f (- lm * b) (- lm * a).
Proof.
  intros Hab Hb Ha HI. unfold vg_integrate. cbv beta iota zeta.
  destruct (Req_dec a b) as [E | N].
  { subst b. rewrite Reqb_same. rewrite (@RInt_point R_CompleteNormedModule). unfold zero; simpl. field. }
  rewrite (Reqb_ne a b) by assumption.
  replace (Rleb 0 b) with false by (symmetry; apply Rleb_false; lra). rewrite !andb_false_r.
  rewrite !Reqb_ne by lra. rb. cbn [andb].
  rewrite E1c_diff by nra. reflexivity.
Qed.

Lemma is_RInt_vg_mass_pos a b : 0 < a -> a <= b ->
  is_RInt (fun x => x ^ 0 * vg_nu c lm lp x) a b (c * RInt e1f (lp * a) (lp * b)).
Proof.
  intros Ha Hab.
  apply is_RInt_ext_R with (f := fun y => c * (lp * e1f (lp * y))).
  { intros x Hx. rewrite Rmin_left, Rmax_right in Hx by assumption. rewrite vg_nu_pos by lra. unfold e1f.
    replace (- (lp * x)) with (- lp * x) by ring. simpl. field. split; lra. }
  apply (is_RInt_scal (fun y => lp * e1f (lp * y)) a b c (RInt e1f (lp * a) (lp * b))).
  apply (is_RInt_comp e1f (fun y => lp * y) (fun _ => lp) a b).
  - intros x Hx. rewrite Rmin_left, Rmax_right in Hx by assumption. apply e1f_continuous. nra.
  - intros x _. split; [auto_derive; auto; ring | apply continuous_const].
Qed.
Lemma is_RInt_vg_mass_neg a b : a <= b -> b < 0 ->
  is_RInt (fun x => x ^ 0 * vg_nu c lm lp x) a b (c * RInt e1f (- lm * b) (- lm * a)).
Proof.
  intros Hab Hb.
  apply is_RInt_ext_R with (f := fun y => - c * (- lm * e1f (- lm * y))).
  { intros x Hx. rewrite Rmin_left, Rmax_right in Hx by assumption. rewrite vg_nu_neg by lra. unfold e1f.
    replace (- (- lm * x)) with (lm * x) by ring. simpl. field. split; lra. }
  replace (c * RInt e1f (- lm * b) (- lm * a)) with (- c * RInt e1f (- lm * a) (- lm * b)).
  2:{ rewrite <- (opp_RInt_swap e1f (- lm * b) (- lm * a)) by (apply e1f_ex_RInt; nra). unfold opp; simpl. ring. }
  apply (is_RInt_scal (fun y => - lm * e1f (- lm * y)) a b (- c) (RInt e1f (- lm * a) (- lm * b))).
  apply (is_RInt_comp e1f (fun y => - lm * y) (fun _ => - lm) a b).
  - intros x Hx. rewrite Rmin_left, Rmax_right in Hx by assumption. apply e1f_continuous. nra.
  - intros x _. split; [auto_derive; auto; ring | apply continuous_const].
Qed.

(* an interval of positive length whose closure contains 0 has infinite mass: the code returns +inf (the token INF) *)
Lemma vg_integrate_infinite exp1 a b : a < b -> a <= 0 <= b -> vg_integrate exp1 INF c lm lp a b = INF.
Proof. intros Hab [H1 H2]. unfold vg_integrate. cbv beta iota zeta. rewrite (Reqb_ne a b) by lra. rb. reflexivity. Qed.

(* mass over an interval on one side of zero (the integral over an interval touching or straddling 0 is infinite) *)
Theorem vg_mass_is_RInt a b : a <= b -> (0 < a \/ b < 0) -> - INF < a -> b < INF -> 0 < INF ->
  is_RInt (fun x => x ^ 0 * vg_nu c lm lp x) a b (vg_integrate (E1c c0) INF c lm lp a b).
Proof.
  intros Hab [Ha | Hb] Fa Fb HI.
  - rewrite vg_integrate_pospos by assumption. apply is_RInt_vg_mass_pos; assumption.
  - rewrite vg_integrate_negneg by assumption. apply is_RInt_vg_mass_neg; assumption.
Qed.
End Mass.

(* ------------------------------------------------------------------ n-th moments, n >= 1, through integral_xn_exp_minus_x *)
Section Xn.
Variables c lm lp : R.
Hypothesis Hlm : 0 < lm.
Hypothesis Hlp : 0 < lp.

Lemma vg_xn_integrand_pos n x : 0 < x -> x ^ (S n) * vg_nu c lm lp x = c * (x ^ n * exp (- lp * Rabs x)).
Proof. intros H. rewrite vg_nu_pos by assumption. rewrite Rabs_pos_eq by lra. simpl. field. lra. Qed.
Lemma vg_xn_integrand_neg n x : x < 0 -> x ^ (S n) * vg_nu c lm lp x = - c * (x ^ n * exp (- lm * Rabs x)).
Proof.
  intros H. rewrite vg_nu_neg by assumption. rewrite Rabs_left by assumption.
  replace (- lm * - x) with (lm * x) by ring. simpl. field. lra.
Qed.

Lemma vg_integrate_xn_pos n a b : 0 <= a -> a <= b -> 0 < b ->
  vg_integrate_xn c lm lp n a b = c * integral_xn_exp_minus_x (n - 1) lp a b.
Proof. intros. unfold vg_integrate_xn, vg_integrate_xn_F. rb. cbn [andb]. reflexivity. Qed.
Lemma vg_integrate_xn_neg n a b : a <= b -> b <= 0 ->
  vg_integrate_xn c lm lp n a b = - c * integral_xn_exp_minus_x (n - 1) lm a b.
Proof. intros. unfold vg_integrate_xn, vg_integrate_xn_F. rb. rewrite andb_false_r. reflexivity. Qed.
Lemma vg_integrate_xn_straddle n a b : a < 0 -> 0 < b ->
  vg_integrate_xn c lm lp n a b = vg_integrate_xn c lm lp n a 0 + vg_integrate_xn c lm lp n 0 b.
Proof.
  intros. rewrite (vg_integrate_xn_neg n a 0), (vg_integrate_xn_pos n 0 b) by lra.
  unfold vg_integrate_xn. unfold vg_integrate_xn_F at 1. rb. cbn [andb].
  unfold vg_integrate_xn_F. rb. cbn [andb]. reflexivity.
Qed.

Lemma is_RInt_vg_xn_pos n a b : 0 <= a -> a <= b ->
  is_RInt (fun x => x ^ (S n) * vg_nu c lm lp x) a b (c * integral_xn_exp_minus_x n lp a b).
Proof.
  intros Ha Hab. apply is_RInt_ext_R with (f := fun x => c * (x ^ n * exp (- lp * Rabs x))).
  { intros x Hx. rewrite Rmin_left, Rmax_right in Hx by assumption. symmetry. apply vg_xn_integrand_pos. lra. }
  apply (is_RInt_scal (fun x => x ^ n * exp (- lp * Rabs x)) a b c). apply xn_exp_is_RInt; assumption.
Qed.
Lemma is_RInt_vg_xn_neg n a b : a <= b -> b <= 0 ->
  is_RInt (fun x => x ^ (S n) * vg_nu c lm lp x) a b (- c * integral_xn_exp_minus_x n lm a b).
Proof.
  intros Hab Hb. apply is_RInt_ext_R with (f := fun x => - c * (x ^ n * exp (- lm * Rabs x))).
  { intros x Hx. rewrite Rmin_left, Rmax_right in Hx by assumption. symmetry. apply vg_xn_integrand_neg. lra. }
  apply (is_RInt_scal (fun x => x ^ n * exp (- lm * Rabs x)) a b (- c)). apply xn_exp_is_RInt; assumption.
Qed.

Theorem vg_xn_is_RInt n a b : (1 <= n)%nat -> a <= b ->
  is_RInt (fun x => x ^ n * vg_nu c lm lp x) a b (vg_integrate_xn c lm lp n a b).
Proof.
  intros Hn Hab. destruct n as [|n]; [lia|].
  assert (E : (S n - 1)%nat = n) by lia.
  destruct (Rle_dec b 0) as [Hb | Hb].
  { rewrite vg_integrate_xn_neg, E by assumption. apply is_RInt_vg_xn_neg; assumption. }
  apply Rnot_le_lt in Hb.
  destruct (Rle_dec 0 a) as [Ha | Ha].
  { rewrite vg_integrate_xn_pos, E by assumption. apply is_RInt_vg_xn_pos; assumption. }
  apply Rnot_le_lt in Ha. rewrite vg_integrate_xn_straddle by assumption.
  apply (chasles_R _ a 0 b).
  - rewrite vg_integrate_xn_neg, E by lra. apply is_RInt_vg_xn_neg; lra.
  - rewrite vg_integrate_xn_pos, E by lra. apply is_RInt_vg_xn_pos; lra.
Qed.
End Xn.

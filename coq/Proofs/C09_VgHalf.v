(* C09 (wave 6) -- VG half-lines: the values the closed forms of variancegamma.py take at a = -inf / b = +inf are the limits of the
   finite integrals.  Second moment: the code has explicit `b == np.inf` / `a == -np.inf` branches, so the statement is about the
   generated value itself.  First moment: the code evaluates the finite formula and relies on np.exp(-inf) = 0.0; the limit is the
   generated value with that one term removed (vg_x_*_value: the difference is exactly c exp(-lambda INF) / lambda). *)
From Coq Require Import Reals Lra Psatz Bool.
From Coquelicot Require Import Coquelicot.
From RV Require Import Base.RB Gen.GenC09Vg Model.LevyClosedForms Proofs.C09_Generic Proofs.C09_Hem Proofs.C09_HemHalf Proofs.C09_Vg.
Open Scope R_scope.

Section VgHalfLines.
Variables INF c lm lp : R.
Hypothesis Hlm : 0 < lm.
Hypothesis Hlp : 0 < lp.
Let Em := fun a => exp (lm * a).
Let Ep := fun b => exp (- lp * b).

Ltac lim_left b F :=
  apply is_lim_ext_loc with (f := F);
  [ exists b; intros a Ha; symmetry; apply is_RInt_unique | ].
Ltac lim_right a F :=
  apply is_lim_ext_loc with (f := F);
  [ exists a; intros b Hb; symmetry; apply is_RInt_unique | ].

Lemma vg_xx_right_value a : 0 <= a -> vg_integrate_xx INF c lm lp a INF = c * (a + 1 / lp) * exp (- lp * a) / lp.
Proof. intros. unfold vg_integrate_xx, vg_integrate_xx_F. cbv beta iota zeta. rb. rewrite Reqb_same. reflexivity. Qed.
Lemma vg_xx_left_value b : b <= 0 -> 0 < INF -> vg_integrate_xx INF c lm lp (- INF) b = - c * (b - 1 / lm) * exp (lm * b) / lm.
Proof. intros. unfold vg_integrate_xx, vg_integrate_xx_F. cbv beta iota zeta. rb. cbn [andb]. rewrite Reqb_same. reflexivity. Qed.

Theorem vg_xx_right a : 0 <= a ->
  is_lim (fun b => RInt (fun x => x ^ 2 * vg_nu c lm lp x) a b) p_infty (vg_integrate_xx INF c lm lp a INF).
Proof.
  intros Ha. rewrite vg_xx_right_value by assumption.
  lim_right a (fun b => c / lp * ((a + 1 / lp) * exp (- lp * a) - (0 * (b ^ 2 * Ep b) + 1 * (b * Ep b) + / lp * Ep b))).
  - replace (c / lp * ((a + 1 / lp) * exp (- lp * a) - (0 * (b ^ 2 * Ep b) + 1 * (b * Ep b) + / lp * Ep b)))
      with (c * ((a + 1 / lp) * exp (- lp * a) - (b + 1 / lp) * exp (- lp * b)) / lp) by (unfold Ep; field; lra).
    apply is_RInt_vg_xx_pos; lra.
  - replace (c * (a + 1 / lp) * exp (- lp * a) / lp) with (c / lp * ((a + 1 / lp) * exp (- lp * a))) by (field; lra).
    apply lim_K_minus. apply lim_quad0; [apply lim_x2exp_p | apply lim_xexp_p | apply lim_exp_p]; assumption.
Qed.

Theorem vg_xx_left b : b <= 0 -> 0 < INF ->
  is_lim (fun a => RInt (fun x => x ^ 2 * vg_nu c lm lp x) a b) m_infty (vg_integrate_xx INF c lm lp (- INF) b).
Proof.
  intros Hb HI. rewrite vg_xx_left_value by assumption.
  lim_left b (fun a => - c / lm * ((b - 1 / lm) * exp (lm * b) - (0 * (a ^ 2 * Em a) + 1 * (a * Em a) + (- / lm) * Em a))).
  - replace (- c / lm * ((b - 1 / lm) * exp (lm * b) - (0 * (a ^ 2 * Em a) + 1 * (a * Em a) + - / lm * Em a)))
      with (- c * ((b - 1 / lm) * exp (lm * b) - (a - 1 / lm) * exp (lm * a)) / lm) by (unfold Em; field; lra).
    apply is_RInt_vg_xx_neg; lra.
  - replace (- c * (b - 1 / lm) * exp (lm * b) / lm) with (- c / lm * ((b - 1 / lm) * exp (lm * b))) by (field; lra).
    apply lim_K_minus. apply lim_quad0; [apply lim_x2exp_m | apply lim_xexp_m | apply lim_exp_m]; assumption.
Qed.

(* first moment: limit of the finite integrals, and how the generated value at the token INF differs from it *)
Lemma vg_x_right_value a : 0 <= a -> vg_integrate_x INF c lm lp a INF = c * exp (- lp * a) / lp - c * exp (- lp * INF) / lp.
Proof. intros. rewrite vg_integrate_x_pos by assumption. field. lra. Qed.
Lemma vg_x_left_value b : b <= 0 -> 0 < INF -> vg_integrate_x INF c lm lp (- INF) b = - c * exp (lm * b) / lm + c * exp (lm * - INF) / lm.
Proof. intros. rewrite vg_integrate_x_neg by lra. field. lra. Qed.

Theorem vg_x_right a : 0 <= a ->
  is_lim (fun b => RInt (fun x => x ^ 1 * vg_nu c lm lp x) a b) p_infty (c * exp (- lp * a) / lp).
Proof.
  intros Ha.
  lim_right a (fun b => c / lp * (exp (- lp * a) - Ep b)).
  - replace (c / lp * (exp (- lp * a) - Ep b)) with (c * (exp (- lp * a) - exp (- lp * b)) / lp) by (unfold Ep; field; lra).
    apply is_RInt_vg_x_pos; lra.
  - replace (c * exp (- lp * a) / lp) with (c / lp * exp (- lp * a)) by (field; lra).
    apply lim_K_minus. apply lim_exp_p; assumption.
Qed.

Theorem vg_x_left b : b <= 0 ->
  is_lim (fun a => RInt (fun x => x ^ 1 * vg_nu c lm lp x) a b) m_infty (- c * exp (lm * b) / lm).
Proof.
  intros Hb.
  lim_left b (fun a => - c / lm * (exp (lm * b) - Em a)).
  - replace (- c / lm * (exp (lm * b) - Em a)) with (c * (exp (lm * a) - exp (lm * b)) / lm) by (unfold Em; field; lra).
    apply is_RInt_vg_x_neg; lra.
  - replace (- c * exp (lm * b) / lm) with (- c / lm * exp (lm * b)) by (field; lra).
    apply lim_K_minus. apply lim_exp_m; assumption.
Qed.
End VgHalfLines.

Lemma c09_vg_halflines_pf : forall INF c lm lp, 0 < lm -> 0 < lp -> 0 < INF ->
  (forall a, 0 <= a ->
     is_lim (fun b => RInt (fun x => x ^ 2 * vg_nu c lm lp x) a b) p_infty (vg_integrate_xx INF c lm lp a INF) /\
     is_lim (fun b => RInt (fun x => x ^ 1 * vg_nu c lm lp x) a b) p_infty (vg_integrate_x INF c lm lp a INF + c * exp (- lp * INF) / lp)) /\
  (forall b, b <= 0 ->
     is_lim (fun a => RInt (fun x => x ^ 2 * vg_nu c lm lp x) a b) m_infty (vg_integrate_xx INF c lm lp (- INF) b) /\
     is_lim (fun a => RInt (fun x => x ^ 1 * vg_nu c lm lp x) a b) m_infty (vg_integrate_x INF c lm lp (- INF) b - c * exp (lm * - INF) / lm)).
Proof.
  intros INF c lm lp Hlm Hlp HI. split.
  - intros a Ha. split; [apply vg_xx_right; assumption|].
    rewrite vg_x_right_value by assumption.
    replace (c * exp (- lp * a) / lp - c * exp (- lp * INF) / lp + c * exp (- lp * INF) / lp) with (c * exp (- lp * a) / lp) by ring.
    apply vg_x_right; assumption.
  - intros b Hb. split; [apply vg_xx_left; assumption|].
    rewrite vg_x_left_value by assumption.
    replace (- c * exp (lm * b) / lm + c * exp (lm * - INF) / lm - c * exp (lm * - INF) / lm) with (- c * exp (lm * b) / lm) by ring.
    apply vg_x_left; assumption.
Qed.

Lemma c09_vg_halflines_nonvacuous_pf :
  vg_integrate_xx 9 1 2 3 1 9 = 1 * (1 + 1 / 3) * exp (- 3 * 1) / 3 /\ vg_integrate_xx 9 1 2 3 (- 9) (-1) = - 1 * (-1 - 1 / 2) * exp (2 * -1) / 2.
Proof. split; [apply vg_xx_right_value | apply vg_xx_left_value]; lra. Qed.

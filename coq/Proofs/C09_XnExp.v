(* C09 -- tools/integral.py: integral of x^n exp(-alpha |x|) over [a,b] for every n (induction on n). *)
From Coq Require Import Reals Lra Bool Arith Lia.
From Coquelicot Require Import Coquelicot.
From RV Require Import Base.RB Model.LevyClosedForms Proofs.C09_Generic.
Open Scope R_scope.

Ltac cont := apply (@ex_derive_continuous R_AbsRing R_NormedModule); auto_derive; auto.

(* S n x = sum_{k<=n} n!/k! x^k, by its recurrence *)
Fixpoint Spoly (n : nat) (x : R) : R :=
  match n with
  | O => 1
  | S m => x ^ (S m) + INR (S m) * Spoly m x
  end.

Lemma INR_fact_pos n : 0 < INR (fact n).
Proof. apply lt_0_INR. apply lt_O_fact. Qed.

Lemma helper_is_Spoly n x : 0 <= x -> helper_sum_fact_xk n x = Spoly n x.
Proof.
  intros Hx. unfold helper_sum_fact_xk. induction n as [|n IH].
  - simpl. ring.
  - change (sum_pow_over_fact (S n) x) with (sum_pow_over_fact n x + Rabs x ^ (S n) / INR (fact (S n))).
    change (Spoly (S n) x) with (x ^ (S n) + INR (S n) * Spoly n x).
    rewrite <- IH. rewrite (Rabs_pos_eq x Hx).
    replace (fact (S n)) with (S n * fact n)%nat by reflexivity.
    rewrite mult_INR. field. split; [apply Rgt_not_eq, INR_fact_pos | apply not_0_INR; discriminate].
Qed.

Lemma helper_abs n x : helper_sum_fact_xk n x = helper_sum_fact_xk n (Rabs x).
Proof.
  unfold helper_sum_fact_xk. f_equal. induction n as [|n IH]; [reflexivity|].
  simpl. rewrite IH. rewrite Rabs_Rabsolu. reflexivity.
Qed.

(* derivative of Spoly: S_n' = S_n - x^n *)
Lemma Spoly_derive n x : is_derive (Spoly n) x (Spoly n x - x ^ n).
Proof.
  induction n as [|n IH].
  - simpl. replace (1 - 1) with 0 by ring. apply (@is_derive_const R_AbsRing R_NormedModule).
  - change (Spoly (S n)) with (fun x => x ^ (S n) + INR (S n) * Spoly n x).
    evar_last.
    + apply (@is_derive_plus R_AbsRing R_NormedModule).
      * apply (is_derive_pow (fun y => y) (S n) x 1). apply (@is_derive_id R_AbsRing).
      * apply is_derive_scal. exact IH.
    + change (plus ?u ?v) with (u + v). unfold scal; simpl; unfold mult; simpl.
      change (Spoly (S n) x) with (x ^ (S n) + INR (S n) * Spoly n x).
      ring.
Qed.

(* G n u = e^{-alpha u} S_n(alpha u) / alpha^{n+1}: the antiderivative of -u^n e^{-alpha u} *)
Definition Gxn (n : nat) (alpha u : R) : R := Spoly n (u * alpha) * exp (- u * alpha) / alpha ^ (n + 1).

Lemma Gxn_derive n alpha u : alpha <> 0 -> is_derive (Gxn n alpha) u (- (u ^ n * exp (- (alpha * u)))).
Proof.
  intros Ha. unfold Gxn.
  assert (Hp : alpha ^ (n + 1) <> 0) by (apply pow_nonzero; assumption).
  auto_derive.
  - exists (Spoly n (u * alpha) - (u * alpha) ^ n). apply Spoly_derive.
  - replace (Derive (fun x : R => Spoly n x) (u * alpha)) with (Spoly n (u * alpha) - (u * alpha) ^ n)
      by (symmetry; apply is_derive_unique; apply Spoly_derive).
    replace (- u * alpha) with (- (alpha * u)) by ring.
    rewrite Rpow_mult_distr. replace (n + 1)%nat with (S n) by lia. rewrite <- tech_pow_Rmult.
    field. split; [apply pow_nonzero|]; assumption.
Qed.

Lemma xn_helper_pos n alpha u : 0 < alpha -> 0 <= u -> xn_helper n alpha u = Gxn n alpha u.
Proof.
  intros Ha Hu. unfold xn_helper, Gxn. rewrite helper_is_Spoly by (apply Rmult_le_pos; lra).
  rewrite (Rabs_pos_eq u Hu). reflexivity.
Qed.
Lemma xn_helper_neg n alpha u : 0 < alpha -> u <= 0 -> xn_helper n alpha u = Gxn n alpha (- u).
Proof.
  intros Ha Hu. unfold xn_helper, Gxn. rewrite helper_abs.
  assert (E : Rabs (u * alpha) = - u * alpha).
  { rewrite Rabs_left1; [ring | nra]. }
  rewrite E. rewrite helper_is_Spoly by nra. rewrite (Rabs_left1 u Hu). reflexivity.
Qed.

(* one side of zero *)
Lemma is_RInt_xn_exp_pos n alpha a b : 0 < alpha -> 0 <= a -> a <= b ->
  is_RInt (fun x => x ^ n * exp (- alpha * Rabs x)) a b (xn_helper n alpha a - xn_helper n alpha b).
Proof.
  intros Ha H0 Hab. rewrite !xn_helper_pos by lra.
  apply is_RInt_ext with (f := fun x => x ^ n * exp (- (alpha * x))).
  { intros x Hx. rewrite Rmin_left, Rmax_right in Hx by assumption. rewrite Rabs_pos_eq by lra. f_equal. f_equal. ring. }
  replace (Gxn n alpha a - Gxn n alpha b) with (- Gxn n alpha b - - Gxn n alpha a) by ring.
  apply (is_RInt_derive (fun x => - Gxn n alpha x)).
  - intros x _. evar_last. apply (@is_derive_opp R_AbsRing R_NormedModule). apply Gxn_derive. lra.
    unfold opp; simpl. ring.
  - intros x _. cont.
Qed.

Definition sgn_even (n : nat) : R := if Nat.even n then 1 else -1.
Lemma pow_opp_sgn x n : (- x) ^ n = sgn_even n * x ^ n.
Proof.
  unfold sgn_even. induction n as [|n IH]; [simpl; ring|].
  rewrite Nat.even_succ, <- Nat.negb_even. simpl. rewrite IH. destruct (Nat.even n); simpl; ring.
Qed.

Lemma is_RInt_xn_exp_neg n alpha a b : 0 < alpha -> a <= b -> b <= 0 ->
  is_RInt (fun x => x ^ n * exp (- alpha * Rabs x)) a b
          (- sgn_even n * (xn_helper n alpha a - xn_helper n alpha b)).
Proof.
  intros Ha Hab Hb. rewrite !xn_helper_neg by lra.
  apply is_RInt_ext with (f := fun x => x ^ n * exp (alpha * x)).
  { intros x Hx. rewrite Rmin_left, Rmax_right in Hx by assumption. rewrite Rabs_left1 by lra. f_equal. f_equal. ring. }
  replace (- sgn_even n * (Gxn n alpha (- a) - Gxn n alpha (- b)))
    with (sgn_even n * Gxn n alpha (- b) - sgn_even n * Gxn n alpha (- a)) by ring.
  apply (is_RInt_derive (fun x => sgn_even n * Gxn n alpha (- x))).
  - intros x _. evar_last.
    + apply is_derive_scal. apply (is_derive_comp (Gxn n alpha) (fun x => - x) x).
      * apply Gxn_derive. lra.
      * auto_derive; auto.
    + unfold scal; simpl; unfold mult; simpl. rewrite pow_opp_sgn.
      replace (- (alpha * - x)) with (alpha * x) by ring.
      assert (sgn_even n * sgn_even n = 1) by (unfold sgn_even; destruct (Nat.even n); ring).
      transitivity (sgn_even n * sgn_even n * (x ^ n * exp (alpha * x))); [ring | rewrite H; ring].
  - intros x _. cont.
Qed.

(* ------------------------------------------------------------------ the model of integral_xn_exp_minus_x *)
Lemma xn_exp_pos n alpha a b : 0 < alpha -> 0 <= a -> a <= b -> 0 < b ->
  integral_xn_exp_minus_x n alpha a b = xn_helper n alpha a - xn_helper n alpha b.
Proof.
  intros. unfold integral_xn_exp_minus_x, xn_exp_F.
  replace (Rleb alpha 0) with false by (symmetry; apply Rleb_false; lra).
  replace (Rltb a 0) with false by (symmetry; apply Rltb_false; lra).
  replace (Rleb b 0) with false by (symmetry; apply Rleb_false; lra). reflexivity.
Qed.
Lemma xn_exp_neg n alpha a b : 0 < alpha -> a <= b -> b <= 0 ->
  integral_xn_exp_minus_x n alpha a b = - sgn_even n * (xn_helper n alpha a - xn_helper n alpha b).
Proof.
  intros. unfold integral_xn_exp_minus_x, xn_exp_F, sgn_even.
  replace (Rleb alpha 0) with false by (symmetry; apply Rleb_false; lra).
  replace (Rltb 0 b) with false by (symmetry; apply Rltb_false; lra).
  replace (Rleb b 0) with true by (symmetry; apply Rleb_true; lra).
  rewrite andb_false_r. cbn [andb]. destruct (Nat.even n); ring.
Qed.
Lemma xn_exp_point0 n alpha : 0 < alpha -> integral_xn_exp_minus_x n alpha 0 0 = 0.
Proof. intros. rewrite xn_exp_neg by lra. ring. Qed.
Lemma xn_exp_straddle n alpha a b : 0 < alpha -> a < 0 -> 0 < b ->
  integral_xn_exp_minus_x n alpha a b = integral_xn_exp_minus_x n alpha a 0 + integral_xn_exp_minus_x n alpha 0 b.
Proof.
  intros. rewrite (xn_exp_neg n alpha a 0), (xn_exp_pos n alpha 0 b) by lra.
  unfold integral_xn_exp_minus_x. unfold xn_exp_F at 1.
  replace (Rleb alpha 0) with false by (symmetry; apply Rleb_false; lra).
  replace (Rltb a 0) with true by (symmetry; apply Rltb_true; lra).
  replace (Rltb 0 b) with true by (symmetry; apply Rltb_true; lra). cbn [andb].
  unfold xn_exp_F, sgn_even.
  replace (Rleb alpha 0) with false by (symmetry; apply Rleb_false; lra).
  replace (Rltb 0 0) with false by (symmetry; apply Rltb_false; lra).
  replace (Rltb a 0) with true by (symmetry; apply Rltb_true; lra).
  replace (Rleb 0 0) with true by (symmetry; apply Rleb_true; lra).
  replace (Rleb b 0) with false by (symmetry; apply Rleb_false; lra).
  cbn [andb]. destruct (Nat.even n); ring.
Qed.

Theorem xn_exp_is_RInt n alpha a b : 0 < alpha -> a <= b ->
  is_RInt (fun x => x ^ n * exp (- alpha * Rabs x)) a b (integral_xn_exp_minus_x n alpha a b).
Proof.
  intros Ha Hab.
  destruct (Rle_dec b 0) as [Hb | Hb].
  { rewrite xn_exp_neg by assumption. apply is_RInt_xn_exp_neg; assumption. }
  apply Rnot_le_lt in Hb.
  destruct (Rle_dec 0 a) as [H0 | H0].
  { rewrite xn_exp_pos by assumption. apply is_RInt_xn_exp_pos; assumption. }
  apply Rnot_le_lt in H0.
  rewrite xn_exp_straddle by assumption.
  apply (is_RInt_Chasles (fun x => x ^ n * exp (- alpha * Rabs x)) a 0 b
           (integral_xn_exp_minus_x n alpha a 0) (integral_xn_exp_minus_x n alpha 0 b)).
  - rewrite xn_exp_neg by lra. apply is_RInt_xn_exp_neg; lra.
  - rewrite xn_exp_pos by lra. apply is_RInt_xn_exp_pos; lra.
Qed.

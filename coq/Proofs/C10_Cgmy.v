(* C10 -- CGMY cumulants (after the representation fixes): kappa'(0) = drift in every activity branch;
   kappa''(0) = cumulant2 for y not in {0,1} given the functional equation of the Gamma function. *)
From Coq Require Import Reals Lra Psatz Bool.
From Coquelicot Require Import Coquelicot.
From RV Require Import Base.RB Gen.GenC10Cgmy Model.LevyExponent Proofs.C10_Exponent.
Open Scope R_scope.

Section Cgmy.
Variables a c g m : R.
Hypothesis Hg : 0 < g.
Hypothesis Hm : 0 < m.

Lemma near0 (P : R -> Prop) : (forall s, - g < s < m -> P s) -> locally 0 P.
Proof.
  intros H. assert (Hmin : 0 < Rmin g m) by (apply Rmin_pos; assumption).
  exists (mkposreal _ Hmin). intros s Hs. apply ball_0 in Hs. cbn [pos] in Hs.
  pose proof (Rmin_l g m). pose proof (Rmin_r g m). apply H. lra.
Qed.

(* y = 0 *)
Definition K0 (CG : R) := kappa a 0 (cgmy_kappa_pj c g m 0 CG).
Lemma K0_derive CG : is_derive (K0 CG) 0 a.
Proof.
  apply is_derive_ext with (f := fun s => a * s + 0 ^ 2 * s ^ 2 / 2 + (- c * (ln (1 + s / g) + ln (1 - s / m)) - c * s * (1 / m - 1 / g))).
  { intros s. unfold K0, kappa. rewrite cgmy_pj_y0. reflexivity. }
  auto_derive.
  - rewrite !Rmult_0_l, Ropp_0, !Rplus_0_r. repeat split; lra.
  - field. split; lra.
Qed.

(* y = 1 *)
Definition K1 (CG : R) := kappa a 0 (cgmy_kappa_pj c g m 1 CG).
Lemma K1_derive CG : is_derive (K1 CG) 0 a.
Proof.
  apply is_derive_ext with (f := fun s => a * s + 0 ^ 2 * s ^ 2 / 2 +
     c * ((g + s) * ln (g + s) - g * ln g + (m - s) * ln (m - s) - m * ln m + s * (ln m - ln g))).
  { intros s. unfold K1, kappa. rewrite cgmy_pj_y1. reflexivity. }
  auto_derive.
  - repeat split; lra.
  - replace (g + 0) with g by ring. replace (m + - 0) with m by ring. field. split; lra.
Qed.

(* general y *)
Variables y CG : R.
Hypothesis Hy0 : y <> 0.
Hypothesis Hy1 : y <> 1.
Definition Ky := kappa a 0 (cgmy_kappa_pj c g m y CG).
Definition Ky1 (s : R) : R :=
  a + CG * (y * Rpower (g + s) (y - 1) - y * Rpower g (y - 1) - y * Rpower (m - s) (y - 1) + y * Rpower m (y - 1)).

Lemma Rpower_minus1 x k : 0 < x -> exp (k * ln x) * / x = exp ((k - 1) * ln x).
Proof. intros Hx. replace ((k - 1) * ln x) with (k * ln x + - ln x) by ring. rewrite exp_plus, exp_Ropp, exp_ln by assumption. reflexivity. Qed.

Lemma Ky_derive s : - g < s < m -> is_derive Ky s (Ky1 s).
Proof.
  intros Hs.
  apply is_derive_ext with (f := fun s => a * s + 0 ^ 2 * s ^ 2 / 2 +
     CG * (Rpower (g + s) y - s * y * Rpower g (y - 1) + Rpower (m - s) y + s * y * Rpower m (y - 1) - Rpower g y - Rpower m y)).
  { intros t. unfold Ky, kappa. rewrite cgmy_pj_gen by assumption. reflexivity. }
  unfold Ky1, Rpower. auto_derive.
  - repeat split; lra.
  - rewrite <- (Rpower_minus1 (g + s) y) by lra. rewrite <- (Rpower_minus1 (m - s) y) by lra.
    replace (m + - s) with (m - s) by ring. field. split; lra.
Qed.

Theorem cgmy_cumulant1_derive t : is_derive Ky 0 (cgmy_cumulant1 a y 1) /\ cgmy_cumulant1 a y t = t * cgmy_cumulant1 a y 1.
Proof.
  split.
  - replace (cgmy_cumulant1 a y 1) with (Ky1 0).
    + apply Ky_derive. lra.
    + unfold Ky1, cgmy_cumulant1. cbv beta iota zeta. replace (g + 0) with g by ring. replace (m - 0) with m by ring.
      destruct (Reqb y 1); ring.
  - unfold cgmy_cumulant1. cbv beta iota zeta. destruct (Reqb y 1); ring.
Qed.

(* second cumulant, given CG = c * Gamma(-y) and Gamma(2 - y) = (1 - y) * (- y) * Gamma(- y) *)
Theorem cgmy_cumulant2_derive (Gamma : R -> R) t :
  CG = c * Gamma (- y) -> Gamma (2 - y) = (1 - y) * (- y) * Gamma (- y) ->
  is_derive_n Ky 2 0 (cgmy_cumulant2 Gamma c g m y 1) /\
  cgmy_cumulant2 Gamma c g m y t = t * cgmy_cumulant2 Gamma c g m y 1.
Proof.
  intros HCG HG. split.
  - apply second_derive with (f1 := Ky1).
    + apply near0. intros s Hs. apply Ky_derive. assumption.
    + unfold Ky1, cgmy_cumulant2, Rpower. cbv beta iota zeta. auto_derive.
      * repeat split; lra.
      * rewrite HG, HCG. replace (g + 0) with g by ring. replace (m + - 0) with m by ring.
        replace (y - 2) with (y - 1 - 1) by ring.
        rewrite <- (Rpower_minus1 g (y - 1)) by lra. rewrite <- (Rpower_minus1 m (y - 1)) by lra.
        field. split; lra.
  - unfold cgmy_cumulant2. cbv beta iota zeta. ring.
Qed.
End Cgmy.

(* assembled statement for Properties/C10.v *)
Theorem cgmy_cumulants a c g m y CG (Gamma : R -> R) t : 0 < g -> 0 < m ->
  is_derive (kappa a 0 (cgmy_kappa_pj c g m 0 CG)) 0 a /\
  is_derive (kappa a 0 (cgmy_kappa_pj c g m 1 CG)) 0 a /\
  (y <> 0 -> y <> 1 ->
     (is_derive (kappa a 0 (cgmy_kappa_pj c g m y CG)) 0 (cgmy_cumulant1 a y 1) /\ cgmy_cumulant1 a y t = t * cgmy_cumulant1 a y 1) /\
     (CG = c * Gamma (- y) -> Gamma (2 - y) = (1 - y) * (- y) * Gamma (- y) ->
        is_derive_n (kappa a 0 (cgmy_kappa_pj c g m y CG)) 2 0 (cgmy_cumulant2 Gamma c g m y 1) /\
        cgmy_cumulant2 Gamma c g m y t = t * cgmy_cumulant2 Gamma c g m y 1)).
Proof.
  intros Hg Hm. split; [apply (K0_derive a c g m Hg Hm) | split; [apply (K1_derive a c g m Hg Hm)|]].
  intros Hy0 Hy1. split.
  - apply (cgmy_cumulant1_derive a c g m Hg Hm y CG Hy0 Hy1).
  - intros HCG HG. apply (cgmy_cumulant2_derive a c g m Hg Hm y CG Hy0 Hy1 Gamma t HCG HG).
Qed.

(* C10 (wave 6) -- the hand model kappa(s) = psi(-i s) of wave 1-5 IS the generated complex code of LevyModel.levy_exponent
   evaluated at x = -1j * s, for HEM and Variance Gamma (and for any pure-jump exponent whose complex code is real on the real axis). *)
From Coq Require Import Reals Lra Psatz Bool.
From Coquelicot Require Import Coquelicot.
From RV Require Import Base.RB Base.CxPair Gen.GenC10Hem Gen.GenC10Vg Gen.GenC10Cx Model.LevyExponent Model.LevyExponentCx Proofs.C10_HemCx Proofs.C10_VgCx.
Open Scope R_scope.

(* Python: x = -1j * s  (the complex constant -1j times the float s) *)
Definition minus_i_times (s : R) : C := Cmult (Copp Ci) (RtoC s).

Lemma i_times_minus_i s : Cmult Ci (minus_i_times s) = RtoC s.
Proof. unfold minus_i_times, Cmult, Copp, Ci, RtoC. simpl. f_equal; ring. Qed.

Theorem kappa_is_levy_exponent_c a sigma (pjc : C -> C) (pj : R -> R) s :
  pjc (RtoC s) = RtoC (pj s) ->
  levy_exponent_c a sigma pjc (minus_i_times s) = RtoC (kappa a sigma pj s).
Proof.
  intros H. unfold levy_exponent_c. cbv beta iota zeta. rewrite i_times_minus_i, H, Cpow_nat_2.
  unfold kappa, minus_i_times, Cmult, Cminus, Cplus, Copp, RtoC, Ci. simpl. f_equal; field.
Qed.

Lemma hem_pj_c_real lam p e1 e2 s : s <> e1 -> s <> - e2 -> hem_pj_c lam p e1 e2 (RtoC s) = RtoC (hem_pj lam p e1 e2 s).
Proof.
  intros H1 H2. unfold hem_pj_c, hem_pj. cbv beta iota zeta.
  unfold Cmult, Cminus, Cplus, Cdiv, Cinv, Copp, RtoC. simpl. f_equal; field; repeat split; try lra; nra.
Qed.

Definition vg_logarg (sigma nu theta s : R) : R := 1 - nu * (s * sigma) ^ 2 / 2 - theta * nu * s.
Lemma vg_pj_real_form sigma nu theta s : vg_pj sigma nu theta s = - ln (vg_logarg sigma nu theta s) / nu.
Proof. unfold vg_pj, vg_logarg. cbv beta iota zeta. f_equal. f_equal. f_equal. field. Qed.
Lemma vg_pj_c_real sigma nu theta s : nu <> 0 -> 0 < vg_logarg sigma nu theta s ->
  vg_pj_c sigma nu theta (RtoC s) = RtoC (vg_pj sigma nu theta s).
Proof.
  intros Hnu Hpos. rewrite vg_pj_real_form. unfold vg_pj_c. cbv beta iota zeta. rewrite Cpow_nat_2.
  set (z := Cminus _ _).
  assert (Hz : z = (vg_logarg sigma nu theta s, 0)).
  { unfold z, vg_logarg, Cmult, Cminus, Cplus, Copp, RtoC. simpl. f_equal; field. }
  rewrite Hz. unfold Cln_code, Cmod. simpl fst. simpl snd. rewrite atan2_pos by assumption.
  replace (0 / _) with 0 by (unfold Rdiv; ring). rewrite atan_0.
  replace (sqrt _) with (vg_logarg sigma nu theta s).
  2:{ symmetry. replace (_ ^ 2 + 0 ^ 2) with ((vg_logarg sigma nu theta s) ^ 2) by ring.
      rewrite <- Rsqr_pow2. apply sqrt_Rsqr. lra. }
  unfold Cdiv, Cinv, Cmult, Copp, RtoC. simpl. f_equal; field; assumption.
Qed.

Theorem kappa_is_generated_hem a sigma lam p e1 e2 s : s <> e1 -> s <> - e2 ->
  levy_exponent_c a sigma (hem_pj_c lam p e1 e2) (minus_i_times s) = RtoC (kappa a sigma (hem_pj lam p e1 e2) s).
Proof. intros H1 H2. apply kappa_is_levy_exponent_c. apply hem_pj_c_real; assumption. Qed.
Theorem kappa_is_generated_vg a sigma0 sigma nu theta s : nu <> 0 -> 0 < vg_logarg sigma nu theta s ->
  levy_exponent_c a sigma0 (vg_pj_c sigma nu theta) (minus_i_times s) = RtoC (kappa a sigma0 (vg_pj sigma nu theta) s).
Proof. intros H1 H2. apply kappa_is_levy_exponent_c. apply vg_pj_c_real; assumption. Qed.

(* non-vacuity: HEM lam = 1, p = 1/2, eta1 = 2, eta2 = 3 at u = 1 (non-real exponent), VG sigma = 1, nu = 2, theta = 0 at s = 1/2 *)
Lemma cx_example :
  CLp_re 1 (1 / 2) 2 1 = - (1 / 10) /\ CLp_im 1 (1 / 2) 2 1 = 1 / 5 /\ CLn_re 1 (1 / 2) 3 1 = - (1 / 20) /\ CLn_im 1 (1 / 2) 3 1 = - (3 / 20) /\
  psi_c 0 0 (hem_pj_c 1 (1 / 2) 2 3) 1 = (- (3 / 20), 1 / 20) /\
  0 < vg_logarg 1 2 0 (1 / 2) /\ vg_A 1 2 1 = 2 /\ vg_B 2 (1 / 2) 1 = - 1.
Proof.
  assert (E1 : CLp_re 1 (1 / 2) 2 1 = - (1 / 10)) by (unfold CLp_re; field).
  assert (E2 : CLp_im 1 (1 / 2) 2 1 = 1 / 5) by (unfold CLp_im; field).
  assert (E3 : CLn_re 1 (1 / 2) 3 1 = - (1 / 20)) by (unfold CLn_re; field).
  assert (E4 : CLn_im 1 (1 / 2) 3 1 = - (3 / 20)) by (unfold CLn_im; field).
  repeat split; try assumption.
  - rewrite psi_c_parts, hem_pj_c_parts by lra. unfold Cre, Cim, fst, snd. rewrite E1, E2, E3, E4. f_equal; field.
  - unfold vg_logarg. lra.
  - unfold vg_A. field.
  - unfold vg_B. field.
Qed.

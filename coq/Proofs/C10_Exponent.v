(* C10 -- exponent on the real axis: martingale identities and cumulants as derivatives at 0.
   hem_pj, merton_pj, vg_pj, cgmy_pj, the cumulants and the simulation drifts are py2coq-generated (Gen.GenC10 modules). *)
From Coq Require Import Reals Lra Psatz Bool.
From Coquelicot Require Import Coquelicot.
From RV Require Import Base.RB Gen.GenC10Triplet Gen.GenC10Hem Gen.GenC10Merton Gen.GenC10Vg Gen.GenC10Cgmy Gen.GenC10Bs Gen.GenC10Exp
  Model.LevyExponent Proofs.C10_Triplet.
Open Scope R_scope.

(* ------------------------------------------------------------------ martingale, characteristic-function route (true by construction) *)
Theorem martingale_cf log_spot r d a sigma pj t :
  expected_spot_cf log_spot r d a sigma pj t = exp log_spot * exp ((r - d) * t).
Proof.
  unfold expected_spot_cf, exp_model_drift, omega_of. rewrite <- !exp_plus. f_equal. ring.
Qed.

(* ------------------------------------------------------------------ martingale, direct-simulation route *)
Theorem martingale_direct_bs r d sigma : direct_growth (bs_process_drift r d sigma) sigma (bs_pj 1) = r - d.
Proof. unfold direct_growth, bs_process_drift, bs_pj. field. Qed.

Theorem martingale_direct_merton r d sigma lam mu_j sigma_j :
  direct_growth (merton_process_drift r d sigma lam mu_j sigma_j) sigma (merton_pj lam mu_j sigma_j 1) = r - d.
Proof.
  unfold direct_growth, merton_process_drift, merton_pj. cbv beta iota zeta.
  replace (mu_j * 1 + 1 / 2 * (sigma_j * 1) ^ 2) with (mu_j + 1 / 2 * sigma_j ^ 2) by ring. field.
Qed.

Theorem martingale_direct_hem r d sigma lam p eta1 eta2 : 1 < eta1 -> eta2 <> -1 ->
  direct_growth (hem_process_drift r d sigma lam eta1 (hem_xi p eta1 eta2)) sigma (hem_pj lam p eta1 eta2 1) = r - d.
Proof.
  intros H1 H2. unfold direct_growth, hem_process_drift, hem_xi, hem_pj.
  replace (Rleb eta1 1) with false by (symmetry; apply Rleb_false; lra).
  cbv beta iota zeta. field. split; lra.
Qed.

(* the simulated log-path is x0 + process_drift * t: the forward of the direct route is exp(x0) * exp((r-d) t) *)
Theorem forward_direct x0 pd sigma J0 r d t : direct_growth pd sigma J0 = r - d ->
  exp (deterministic_path x0 pd t) * exp (t * (sigma ^ 2 / 2 + J0)) = exp x0 * exp ((r - d) * t).
Proof.
  intros H. unfold deterministic_path. rewrite <- !exp_plus. f_equal. rewrite <- H. unfold direct_growth. ring.
Qed.

(* ------------------------------------------------------------------ cumulants = derivatives of kappa at 0 *)
Lemma second_derive (f f1 : R -> R) (x c2 : R) :
  locally x (fun s => is_derive f s (f1 s)) -> is_derive f1 x c2 -> is_derive_n f 2 x c2.
Proof.
  intros Hloc H1. change (is_derive (fun s => Derive f s) x c2).
  apply is_derive_ext_loc with (f := f1); [|exact H1].
  destruct Hloc as [eps He]. exists eps. intros s Hs. symmetry. apply is_derive_unique. apply He. exact Hs.
Qed.

Lemma ball_abs (x eps s : R) : ball x eps s -> Rabs (s - x) < eps.
Proof. intros H. exact H. Qed.
Lemma ball_0 (eps s : R) : ball 0 eps s -> - eps < s < eps.
Proof. intros H. apply ball_abs in H. replace (s - 0) with s in H by ring. apply Rabs_def2 in H. lra. Qed.

Section HemCumulants.
Variables a sigma lam p e1 e2 : R.
Hypothesis He1 : 0 < e1.
Hypothesis He2 : 0 < e2.
Let K := kappa a sigma (hem_pj lam p e1 e2).
Definition hem_K1 (s : R) : R := a + sigma ^ 2 * s + lam * (p * e1 / (e1 - s) ^ 2 - (1 - p) * e2 / (e2 + s) ^ 2).

Lemma hem_K_derive s : - e2 < s < e1 -> is_derive K s (hem_K1 s).
Proof.
  intros Hs. unfold K, kappa, hem_pj, hem_K1. cbv beta iota zeta. auto_derive.
  - repeat split; lra.
  - field. split; lra.
Qed.

Theorem hem_cumulant1_derive t : is_derive K 0 (hem_cumulant1 a lam p e1 e2 1) /\
  hem_cumulant1 a lam p e1 e2 t = t * hem_cumulant1 a lam p e1 e2 1.
Proof.
  split.
  - replace (hem_cumulant1 a lam p e1 e2 1) with (hem_K1 0).
    + apply hem_K_derive. lra.
    + unfold hem_K1, hem_cumulant1. cbv beta iota zeta. field. split; lra.
  - unfold hem_cumulant1. cbv beta iota zeta. ring.
Qed.

Theorem hem_cumulant2_derive t : is_derive_n K 2 0 (hem_cumulant2 sigma lam p e1 e2 1) /\
  hem_cumulant2 sigma lam p e1 e2 t = t * hem_cumulant2 sigma lam p e1 e2 1.
Proof.
  split.
  - apply second_derive with (f1 := hem_K1).
    + assert (Hm : 0 < Rmin e1 e2) by (apply Rmin_pos; assumption).
      exists (mkposreal _ Hm). intros s Hs. apply ball_0 in Hs. cbn [pos] in Hs.
      apply hem_K_derive.
      pose proof (Rmin_l e1 e2). pose proof (Rmin_r e1 e2). lra.
    + unfold hem_K1, hem_cumulant2. cbv beta iota zeta. auto_derive.
      * repeat split; try lra; apply Rgt_not_eq; nra.
      * field. split; lra.
  - unfold hem_cumulant2. cbv beta iota zeta. ring.
Qed.
End HemCumulants.

Section MertonCumulants.
Variables a sigma lam mu sj : R.
Let K := kappa a sigma (merton_pj lam mu sj).
Definition merton_K1 (s : R) : R := a + sigma ^ 2 * s + lam * ((mu + sj ^ 2 * s) * exp (mu * s + 1 / 2 * (sj * s) ^ 2)).

Lemma merton_K_derive s : is_derive K s (merton_K1 s).
Proof. unfold K, kappa, merton_pj, merton_K1. cbv beta iota zeta. auto_derive; auto. cbn [pow]. field. Qed.

Theorem merton_cumulant1_derive t : is_derive K 0 (merton_cumulant1 a lam mu sj 1) /\
  merton_cumulant1 a lam mu sj t = t * merton_cumulant1 a lam mu sj 1.
Proof.
  split.
  - replace (merton_cumulant1 a lam mu sj 1) with (merton_K1 0); [apply merton_K_derive|].
    unfold merton_K1, merton_cumulant1. cbv beta iota zeta.
    replace (mu * 0 + 1 / 2 * (sj * 0) ^ 2) with 0 by ring. rewrite exp_0. ring.
  - unfold merton_cumulant1. cbv beta iota zeta. ring.
Qed.

Theorem merton_cumulant2_derive t : is_derive_n K 2 0 (merton_cumulant2 sigma lam mu sj 1) /\
  merton_cumulant2 sigma lam mu sj t = t * merton_cumulant2 sigma lam mu sj 1.
Proof.
  split.
  - apply second_derive with (f1 := merton_K1).
    + exists (mkposreal 1 Rlt_0_1). intros s _. apply merton_K_derive.
    + unfold merton_K1, merton_cumulant2. cbv beta iota zeta. auto_derive; auto.
      replace (mu * 0 + 1 / 2 * (sj * 0 * (sj * 0 * 1))) with 0 by ring. rewrite exp_0. ring.
  - unfold merton_cumulant2. cbv beta iota zeta. ring.
Qed.
End MertonCumulants.

Section VgCumulants.
Variables a sigma0 sigma nu theta : R.      (* sigma0: diffusion coefficient of the triplet (0 for VG) *)
Hypothesis Hnu : nu <> 0.
Let K := kappa a sigma0 (vg_pj sigma nu theta).
Definition vg_arg (s : R) : R := 1 / 1 - 1 / 2 * nu * (s * sigma) ^ 2 - theta * nu * s.
Definition vg_K1 (s : R) : R := a + sigma0 ^ 2 * s + (nu * sigma ^ 2 * s + theta * nu) / vg_arg s / nu.

Lemma vg_K_derive s : 0 < vg_arg s -> is_derive K s (vg_K1 s).
Proof.
  intros Hs. unfold K, kappa, vg_pj, vg_K1. unfold vg_arg in *. cbv beta iota zeta. auto_derive.
  - repeat split; auto.
  - cbn [pow] in *. field. repeat split; try assumption; apply Rgt_not_eq; (lra || nra).
Qed.

Lemma vg_arg_near0 : locally 0 (fun s => 0 < vg_arg s).
Proof.
  assert (Hc : continuous vg_arg 0).
  { apply (@ex_derive_continuous R_AbsRing R_NormedModule). unfold vg_arg. auto_derive. auto. }
  assert (H0 : vg_arg 0 = 1) by (unfold vg_arg; field).
  specialize (Hc (fun y => 0 < y)). apply Hc.
  exists (mkposreal (1/2) ltac:(lra)). intros y Hy. apply ball_abs in Hy. simpl in Hy. rewrite H0 in Hy.
  apply Rabs_def2 in Hy. lra.
Qed.

Theorem vg_cumulant1_derive t : is_derive K 0 (vg_cumulant1 a sigma nu theta 1) /\
  vg_cumulant1 a sigma nu theta t = t * vg_cumulant1 a sigma nu theta 1.
Proof.
  split.
  - replace (vg_cumulant1 a sigma nu theta 1) with (vg_K1 0).
    + apply vg_K_derive. unfold vg_arg. lra.
    + unfold vg_K1, vg_arg, vg_cumulant1. field. repeat split; try assumption; lra.
  - unfold vg_cumulant1. ring.
Qed.

Theorem vg_cumulant2_derive t : sigma0 = 0 -> is_derive_n K 2 0 (vg_cumulant2 sigma nu theta 1) /\
  vg_cumulant2 sigma nu theta t = t * vg_cumulant2 sigma nu theta 1.
Proof.
  intros Hs0. split.
  - apply second_derive with (f1 := vg_K1).
    + destruct vg_arg_near0 as [eps He]. exists eps. intros s Hs. apply vg_K_derive. apply He. exact Hs.
    + unfold vg_K1, vg_arg, vg_cumulant2. cbv beta iota zeta. auto_derive.
      * repeat split; auto; lra.
      * subst sigma0. field. repeat split; try assumption; lra.
  - unfold vg_cumulant2. cbv beta iota zeta. ring.
Qed.
End VgCumulants.

(* ------------------------------------------------------------------ CGMY: which branch the exponent takes; cumulants (partial) *)
Lemma Reqb_false' x y : x <> y -> Reqb x y = false.
Proof. intros H. unfold Reqb. destruct (Req_EM_T x y); [contradiction | reflexivity]. Qed.
Lemma Reqb_true' x y : x = y -> Reqb x y = true.
Proof. intros H. unfold Reqb. destruct (Req_EM_T x y); [reflexivity | contradiction]. Qed.

Lemma cgmy_pj_dummies c g m y CG u v u' v' s : cgmy_pj c g m y CG u v s = cgmy_pj c g m y CG u' v' s.
Proof. unfold cgmy_pj. cbv beta iota zeta. destruct (Reqb y 0); [reflexivity|]. destruct (Reqb y (1 / 1)); reflexivity. Qed.

Lemma cgmy_pj_y0 c g m CG s :
  cgmy_kappa_pj c g m 0 CG s = - c * (ln (1 + s / g) + ln (1 - s / m)) - c * s * (1 / m - 1 / g).
Proof. unfold cgmy_kappa_pj, cgmy_pj. cbv beta iota zeta. rewrite Reqb_true' by reflexivity. cbv beta iota zeta. ring. Qed.
Lemma cgmy_pj_y1 c g m CG s :
  cgmy_kappa_pj c g m 1 CG s
  = c * ((g + s) * ln (g + s) - g * ln g + (m - s) * ln (m - s) - m * ln m + s * (ln m - ln g)).
Proof.
  unfold cgmy_kappa_pj, cgmy_pj. cbv beta iota zeta. rewrite Reqb_false' by lra. rewrite Reqb_true' by field.
  cbv beta iota zeta. ring.
Qed.
Lemma cgmy_pj_gen c g m y CG s : y <> 0 -> y <> 1 ->
  cgmy_kappa_pj c g m y CG s
  = CG * (Rpower (g + s) y - s * y * Rpower g (y - 1) + Rpower (m - s) y + s * y * Rpower m (y - 1) - Rpower g y - Rpower m y).
Proof.
  intros H0 H1. unfold cgmy_kappa_pj, cgmy_pj. cbv beta iota zeta. rewrite Reqb_false' by assumption.
  rewrite Reqb_false' by (intros E; apply H1; rewrite E; field).
  cbv beta iota zeta. ring.
Qed.

(* ------------------------------------------------------------------ martingale, Markov-chain route (algebra) *)
Section Ctmc.
Variables (INF : R) (m1 : R -> R -> R) (fv : bool) (a0 : R) (rep : Rep).
(* additivity of the first-moment function over (-inf,-1], [-1,1], [1,inf) split at 0 (C09_additive) *)
Hypothesis m1_add : fv = true -> m1 (- INF) (- 0) + m1 0 INF = m1 (- INF) (-1) + m1 (-1) 1 + m1 1 INF.

Lemma tilde_plus_mu_tilde :
  tilde_drift INF m1 fv a0 (rep_code rep) + ctmc_mu_tilde INF m1 fv = center_drift INF m1 fv a0 (rep_code rep).
Proof.
  unfold tilde_drift, center_drift, ctmc_mu_tilde. cbv beta iota zeta.
  destruct fv.
  - specialize (m1_add eq_refl). lra.
  - replace (- (1)) with (-1) by lra. ring.
Qed.

(* growth under the exact law of the measure the chain works with (first moments m1, compensated exponential moment Jc):
   r - d minus the difference between the exponent the martingale correction omega was computed from and the exponent
   kappa_chain(1) = center_drift(m1) + sigma^2/2 + Jc of the process the chain approximates.  Pure algebra. *)
Theorem ctmc_growth_algebra r d sigma (pj : R -> R) Jc mu_h :
  ctmc_growth_exact
    (ctmc_process_drift (exp_model_drift r d (omega_of a0 sigma pj)) (tilde_drift INF m1 fv a0 (rep_code rep))
                        (ctmc_mu_tilde INF m1 fv) mu_h) mu_h sigma Jc
  = r - d - (kappa a0 sigma pj 1 - (center_drift INF m1 fv a0 (rep_code rep) + sigma ^ 2 / 2 + Jc)).
Proof.
  unfold ctmc_growth_exact, ctmc_process_drift, exp_model_drift, omega_of. rewrite <- tilde_plus_mu_tilde. field.
Qed.

Theorem martingale_ctmc r d sigma (pj : R -> R) Jc mu_h :
  kappa a0 sigma pj 1 = center_drift INF m1 fv a0 (rep_code rep) + sigma ^ 2 / 2 + Jc ->
  ctmc_growth_exact
    (ctmc_process_drift (exp_model_drift r d (omega_of a0 sigma pj)) (tilde_drift INF m1 fv a0 (rep_code rep))
                        (ctmc_mu_tilde INF m1 fv) mu_h) mu_h sigma Jc = r - d.
Proof. intros Hrep. rewrite ctmc_growth_algebra, Hrep. ring. Qed.
End Ctmc.

(* H_rep for a model declared in the ZERO representation (finite variation) whose exponent is int (e^{s x} - 1) nu: at s = 1 *)
Lemma Hrep_zero_declared INF m1 a0 sigma (pj : R -> R) J0 Iall :
  pj 1 = J0 -> Iall = m1 (- INF) (-1) + m1 (-1) 1 + m1 1 INF ->
  kappa a0 sigma pj 1 = center_drift INF m1 true a0 (rep_code ZERO) + sigma ^ 2 / 2 + (J0 - Iall).
Proof.
  intros HJ HI. unfold kappa, center_drift. cbv beta iota zeta.
  rewrite (canonical_drift_spec INF m1 true a0 ZERO) by (left; reflexivity).
  unfold to_canonical, I11. rewrite HJ, HI. field.
Qed.

(* the chain truncates the measure first: conversions and mu_tilde use the first moments m1t of the TRUNCATED measure while
   omega comes from the un-truncated exponent.  For a model declared ZERO (finite variation) the growth rate under the exact
   truncated law (J0t = int_trunc (e^x - 1) nu) misses the forward by the exponential moment of the removed tails. *)
Theorem ctmc_truncation_bias_zero INF m1t a0 r d sigma (pj : R -> R) J0 J0t It mu_h :
  (m1t (- INF) (- 0) + m1t 0 INF = m1t (- INF) (-1) + m1t (-1) 1 + m1t 1 INF) ->
  pj 1 = J0 -> It = m1t (- INF) (-1) + m1t (-1) 1 + m1t 1 INF ->
  ctmc_growth_exact
    (ctmc_process_drift (exp_model_drift r d (omega_of a0 sigma pj)) (tilde_drift INF m1t true a0 (rep_code ZERO))
                        (ctmc_mu_tilde INF m1t true) mu_h) mu_h sigma (J0t - It)
  = r - d - (J0 - J0t).
Proof.
  intros Hadd HJ HI. rewrite (ctmc_growth_algebra INF m1t true a0 ZERO (fun _ => Hadd)).
  unfold kappa, center_drift. cbv beta iota zeta.
  rewrite (canonical_drift_spec INF m1t true a0 ZERO) by (left; reflexivity).
  unfold to_canonical, I11. rewrite HJ, HI. field.
Qed.
(* ... which is not zero as soon as the truncation removes mass with e^x - 1 of one sign: the CTMC route is not a martingale *)
Theorem ctmc_truncation_refuted : exists INF m1t a0 r d sigma (pj : R -> R) J0t It mu_h,
  (m1t (- INF) (- 0) + m1t 0 INF = m1t (- INF) (-1) + m1t (-1) 1 + m1t 1 INF) /\
  It = m1t (- INF) (-1) + m1t (-1) 1 + m1t 1 INF /\ J0t < pj 1 /\
  ctmc_growth_exact
    (ctmc_process_drift (exp_model_drift r d (omega_of a0 sigma pj)) (tilde_drift INF m1t true a0 (rep_code ZERO))
                        (ctmc_mu_tilde INF m1t true) mu_h) mu_h sigma (J0t - It) <> r - d.
Proof.
  exists 9, (fun _ _ => 0), 0, 0, 0, 0, (fun _ => 1), 0, 0, 0.
  split; [ring|]. split; [ring|]. split; [lra|].
  rewrite (ctmc_truncation_bias_zero 9 (fun _ _ => 0) 0 0 0 0 (fun _ => 1) 1 0 0 0); [lra | ring | reflexivity | ring].
Qed.

(* assembled statements for Properties/C10.v *)
Theorem hem_cumulants a sigma lam p eta1 eta2 : 0 < eta1 -> 0 < eta2 -> forall t,
  (is_derive (kappa a sigma (hem_pj lam p eta1 eta2)) 0 (hem_cumulant1 a lam p eta1 eta2 1)
   /\ hem_cumulant1 a lam p eta1 eta2 t = t * hem_cumulant1 a lam p eta1 eta2 1) /\
  (is_derive_n (kappa a sigma (hem_pj lam p eta1 eta2)) 2 0 (hem_cumulant2 sigma lam p eta1 eta2 1)
   /\ hem_cumulant2 sigma lam p eta1 eta2 t = t * hem_cumulant2 sigma lam p eta1 eta2 1).
Proof. intros. split; [apply hem_cumulant1_derive | apply hem_cumulant2_derive]; assumption. Qed.
Theorem merton_cumulants a sigma lam mu_j sigma_j t :
  (is_derive (kappa a sigma (merton_pj lam mu_j sigma_j)) 0 (merton_cumulant1 a lam mu_j sigma_j 1)
   /\ merton_cumulant1 a lam mu_j sigma_j t = t * merton_cumulant1 a lam mu_j sigma_j 1) /\
  (is_derive_n (kappa a sigma (merton_pj lam mu_j sigma_j)) 2 0 (merton_cumulant2 sigma lam mu_j sigma_j 1)
   /\ merton_cumulant2 sigma lam mu_j sigma_j t = t * merton_cumulant2 sigma lam mu_j sigma_j 1).
Proof. split; [apply merton_cumulant1_derive | apply merton_cumulant2_derive]. Qed.
Theorem vg_cumulants a sigma nu theta : nu <> 0 -> forall t,
  (is_derive (kappa a 0 (vg_pj sigma nu theta)) 0 (vg_cumulant1 a sigma nu theta 1)
   /\ vg_cumulant1 a sigma nu theta t = t * vg_cumulant1 a sigma nu theta 1) /\
  (is_derive_n (kappa a 0 (vg_pj sigma nu theta)) 2 0 (vg_cumulant2 sigma nu theta 1)
   /\ vg_cumulant2 sigma nu theta t = t * vg_cumulant2 sigma nu theta 1).
Proof. intros. split; [apply vg_cumulant1_derive | apply vg_cumulant2_derive]; auto. Qed.

(* C10 (wave 6) -- HEM: the characteristic exponent at a REAL argument u, computed by the generated complex code, is the
   Levy-Khintchine integral of the model's own density (declared ZERO): Re = int (cos(u x) - 1) nu, Im = int sin(u x) nu over both
   half-lines (improper integrals is_RInt_gen; antiderivatives of e^{-eta x} cos / sin). *)
From Coq Require Import Reals Lra Psatz Bool.
From Coquelicot Require Import Coquelicot.
From RV Require Import Base.RB Base.CxPair Gen.GenC09Hem Gen.GenC10Hem Gen.GenC10Cx Model.LevyExponent Model.LevyExponentCx
  Proofs.C09_Generic Proofs.C09_Hem Proofs.C09_HemHalf.
Open Scope R_scope.

(* ---------------------------------------------------------------- generic: antiderivative + limit at infinity = improper integral *)
Lemma RInt_gen_right (f F : R -> R) (Linf : R) :
  (forall b, 0 <= b -> is_RInt f 0 b (F b - F 0)) -> is_lim F p_infty Linf ->
  is_RInt_gen f (at_point 0) (Rbar_locally p_infty) (Linf - F 0).
Proof.
  intros HI HL P HP.
  assert (Hm : is_lim (fun b => F b - F 0) p_infty (Linf - F 0)).
  { apply is_lim_minus'; [exact HL | apply is_lim_const]. }
  assert (HQ : Rbar_locally p_infty (fun b => 0 <= b /\ P (F b - F 0))).
  { apply filter_and; [exists 0; intros; lra|]. apply Hm. exact HP. }
  apply (Filter_prod _ _ _ (fun a => a = 0) (fun b => 0 <= b /\ P (F b - F 0))).
  - reflexivity.
  - exact HQ.
  - intros a b Ha [Hb HPb]. simpl. subst a. exists (F b - F 0). split; [apply HI; exact Hb | exact HPb].
Qed.
Lemma RInt_gen_left (f F : R -> R) (Linf : R) :
  (forall a, a <= 0 -> is_RInt f a 0 (F 0 - F a)) -> is_lim F m_infty Linf ->
  is_RInt_gen f (Rbar_locally m_infty) (at_point 0) (F 0 - Linf).
Proof.
  intros HI HL P HP.
  assert (Hm : is_lim (fun a => F 0 - F a) m_infty (F 0 - Linf)).
  { apply is_lim_minus'; [apply is_lim_const | exact HL]. }
  assert (HQ : Rbar_locally m_infty (fun a => a <= 0 /\ P (F 0 - F a))).
  { apply filter_and; [exists 0; intros; lra|]. apply Hm. exact HP. }
  apply (Filter_prod _ _ _ (fun a => a <= 0 /\ P (F 0 - F a)) (fun b => b = 0)).
  - exact HQ.
  - reflexivity.
  - intros a b [Ha HPa] Hb. simpl. subst b. exists (F 0 - F a). split; [apply HI; exact Ha | exact HPa].
Qed.

(* a bounded function times a vanishing exponential vanishes *)
Lemma lim_exp_bounded_p e (g : R -> R) : 0 < e -> (forall x, -1 <= g x <= 1) -> is_lim (fun b => exp (- e * b) * g b) p_infty 0.
Proof.
  intros He Hg.
  apply (is_lim_le_le_loc (fun b => (-1) * exp (- e * b)) (fun b => 1 * exp (- e * b))).
  - exists 0. intros b _. pose proof (Hg b). pose proof (exp_pos (- e * b)). split; nra.
  - apply lim_scal0. apply lim_exp_p; assumption.
  - apply lim_scal0. apply lim_exp_p; assumption.
Qed.
Lemma lim_exp_bounded_m e (g : R -> R) : 0 < e -> (forall x, -1 <= g x <= 1) -> is_lim (fun a => exp (e * a) * g a) m_infty 0.
Proof.
  intros He Hg.
  apply (is_lim_le_le_loc (fun b => (-1) * exp (e * b)) (fun b => 1 * exp (e * b))).
  - exists 0. intros b _. pose proof (Hg b). pose proof (exp_pos (e * b)). split; nra.
  - apply lim_scal0. apply lim_exp_m; assumption.
  - apply lim_scal0. apply lim_exp_m; assumption.
Qed.

Section HemCx.
Variables lam p e1 e2 u : R.
Hypothesis He1 : 0 < e1.
Hypothesis He2 : 0 < e2.

Let D1 := e1 ^ 2 + u ^ 2.
Let D2 := e2 ^ 2 + u ^ 2.
Lemma D1_pos : 0 < e1 ^ 2 + u ^ 2. Proof. nra. Qed.
Lemma D2_pos : 0 < e2 ^ 2 + u ^ 2. Proof. nra. Qed.

Definition cx_re (x : R) : R := lk_integrand_re u x * hem_nu lam p e1 e2 x.
Definition cx_im (x : R) : R := lk_integrand_im ZERO true u x * hem_nu lam p e1 e2 x.

(* antiderivatives *)
Definition FpR (x : R) : R :=
  lam * p * e1 * (u / (e1 ^ 2 + u ^ 2) * (exp (- e1 * x) * sin (u * x)) + - e1 / (e1 ^ 2 + u ^ 2) * (exp (- e1 * x) * cos (u * x)) + / e1 * exp (- e1 * x)).
Definition FpI (x : R) : R :=
  lam * p * e1 * (- e1 / (e1 ^ 2 + u ^ 2) * (exp (- e1 * x) * sin (u * x)) + - u / (e1 ^ 2 + u ^ 2) * (exp (- e1 * x) * cos (u * x))).
Definition FnR (x : R) : R :=
  lam * (1 - p) * e2 * (u / (e2 ^ 2 + u ^ 2) * (exp (e2 * x) * sin (u * x)) + e2 / (e2 ^ 2 + u ^ 2) * (exp (e2 * x) * cos (u * x)) + - / e2 * exp (e2 * x)).
Definition FnI (x : R) : R :=
  lam * (1 - p) * e2 * (e2 / (e2 ^ 2 + u ^ 2) * (exp (e2 * x) * sin (u * x)) + - u / (e2 ^ 2 + u ^ 2) * (exp (e2 * x) * cos (u * x))).

Lemma cx_re_pos_RInt b : 0 <= b -> is_RInt cx_re 0 b (FpR b - FpR 0).
Proof.
  intros Hb. pose proof D1_pos as HD.
  apply is_RInt_ext_R with (f := fun x => lam * p * e1 * (exp (- e1 * x) * (cos (u * x) - 1))).
  { intros x Hx. rewrite Rmin_left, Rmax_right in Hx by assumption. unfold cx_re, lk_integrand_re.
    rewrite hem_nu_pos by lra. ring. }
  apply (is_RInt_derive_R FpR).
  - intros x _. unfold FpR. auto_derive; auto. field. split; lra.
  - intros x _. cont.
Qed.
Lemma cx_im_pos_RInt b : 0 <= b -> is_RInt cx_im 0 b (FpI b - FpI 0).
Proof.
  intros Hb. pose proof D1_pos as HD.
  apply is_RInt_ext_R with (f := fun x => lam * p * e1 * (exp (- e1 * x) * sin (u * x))).
  { intros x Hx. rewrite Rmin_left, Rmax_right in Hx by assumption. unfold cx_im, lk_integrand_im, h_rep.
    rewrite hem_nu_pos by lra. ring. }
  apply (is_RInt_derive_R FpI).
  - intros x _. unfold FpI. auto_derive; auto. field. lra.
  - intros x _. cont.
Qed.
Lemma cx_re_neg_RInt a : a <= 0 -> is_RInt cx_re a 0 (FnR 0 - FnR a).
Proof.
  intros Ha. pose proof D2_pos as HD.
  apply is_RInt_ext_R with (f := fun x => lam * (1 - p) * e2 * (exp (e2 * x) * (cos (u * x) - 1))).
  { intros x Hx. rewrite Rmin_left, Rmax_right in Hx by assumption. unfold cx_re, lk_integrand_re.
    rewrite hem_nu_neg by lra. ring. }
  apply (is_RInt_derive_R FnR).
  - intros x _. unfold FnR. auto_derive; auto. field. split; lra.
  - intros x _. cont.
Qed.
Lemma cx_im_neg_RInt a : a <= 0 -> is_RInt cx_im a 0 (FnI 0 - FnI a).
Proof.
  intros Ha. pose proof D2_pos as HD.
  apply is_RInt_ext_R with (f := fun x => lam * (1 - p) * e2 * (exp (e2 * x) * sin (u * x))).
  { intros x Hx. rewrite Rmin_left, Rmax_right in Hx by assumption. unfold cx_im, lk_integrand_im, h_rep.
    rewrite hem_nu_neg by lra. ring. }
  apply (is_RInt_derive_R FnI).
  - intros x _. unfold FnI. auto_derive; auto. field. lra.
  - intros x _. cont.
Qed.

Lemma sin_b x : -1 <= sin (u * x) <= 1. Proof. apply SIN_bound. Qed.
Lemma cos_b x : -1 <= cos (u * x) <= 1. Proof. apply COS_bound. Qed.

Lemma FpR_lim : is_lim FpR p_infty 0.
Proof.
  unfold FpR. apply lim_scal0. apply lim_plus0; [apply lim_plus0|]; apply lim_scal0.
  - apply (lim_exp_bounded_p e1 (fun x => sin (u * x))); [assumption | apply sin_b].
  - apply (lim_exp_bounded_p e1 (fun x => cos (u * x))); [assumption | apply cos_b].
  - apply lim_exp_p; assumption.
Qed.
Lemma FpI_lim : is_lim FpI p_infty 0.
Proof.
  unfold FpI. apply lim_scal0. apply lim_plus0; apply lim_scal0.
  - apply (lim_exp_bounded_p e1 (fun x => sin (u * x))); [assumption | apply sin_b].
  - apply (lim_exp_bounded_p e1 (fun x => cos (u * x))); [assumption | apply cos_b].
Qed.
Lemma FnR_lim : is_lim FnR m_infty 0.
Proof.
  unfold FnR. apply lim_scal0. apply lim_plus0; [apply lim_plus0|]; apply lim_scal0.
  - apply (lim_exp_bounded_m e2 (fun x => sin (u * x))); [assumption | apply sin_b].
  - apply (lim_exp_bounded_m e2 (fun x => cos (u * x))); [assumption | apply cos_b].
  - apply lim_exp_m; assumption.
Qed.
Lemma FnI_lim : is_lim FnI m_infty 0.
Proof.
  unfold FnI. apply lim_scal0. apply lim_plus0; apply lim_scal0.
  - apply (lim_exp_bounded_m e2 (fun x => sin (u * x))); [assumption | apply sin_b].
  - apply (lim_exp_bounded_m e2 (fun x => cos (u * x))); [assumption | apply cos_b].
Qed.

(* the four half-line integrals in closed form *)
Definition CLp_re : R := lam * p * (e1 ^ 2 / (e1 ^ 2 + u ^ 2) - 1).
Definition CLp_im : R := lam * p * (e1 * u / (e1 ^ 2 + u ^ 2)).
Definition CLn_re : R := lam * (1 - p) * (e2 ^ 2 / (e2 ^ 2 + u ^ 2) - 1).
Definition CLn_im : R := - (lam * (1 - p) * (e2 * u / (e2 ^ 2 + u ^ 2))).

Theorem hem_cx_re_right : is_RInt_gen cx_re (at_point 0) (Rbar_locally p_infty) CLp_re.
Proof.
  pose proof D1_pos as HD.
  replace CLp_re with (0 - FpR 0).
  - apply RInt_gen_right; [apply cx_re_pos_RInt | apply FpR_lim].
  - unfold CLp_re, FpR. rewrite !Rmult_0_r, sin_0, cos_0. replace (- e1 * 0) with 0 by ring. rewrite exp_0. field. split; lra.
Qed.
Theorem hem_cx_im_right : is_RInt_gen cx_im (at_point 0) (Rbar_locally p_infty) CLp_im.
Proof.
  pose proof D1_pos as HD.
  replace CLp_im with (0 - FpI 0).
  - apply RInt_gen_right; [apply cx_im_pos_RInt | apply FpI_lim].
  - unfold CLp_im, FpI. rewrite !Rmult_0_r, sin_0, cos_0. replace (- e1 * 0) with 0 by ring. rewrite exp_0. field. lra.
Qed.
Theorem hem_cx_re_left : is_RInt_gen cx_re (Rbar_locally m_infty) (at_point 0) CLn_re.
Proof.
  pose proof D2_pos as HD.
  replace CLn_re with (FnR 0 - 0).
  - apply RInt_gen_left; [apply cx_re_neg_RInt | apply FnR_lim].
  - unfold CLn_re, FnR. rewrite !Rmult_0_r, sin_0, cos_0, exp_0. field. split; lra.
Qed.
Theorem hem_cx_im_left : is_RInt_gen cx_im (Rbar_locally m_infty) (at_point 0) CLn_im.
Proof.
  pose proof D2_pos as HD.
  replace CLn_im with (FnI 0 - 0).
  - apply RInt_gen_left; [apply cx_im_neg_RInt | apply FnI_lim].
  - unfold CLn_im, FnI. rewrite !Rmult_0_r, sin_0, cos_0, exp_0. field. lra.
Qed.

(* the generated complex code at the argument i u *)
Theorem hem_pj_c_parts : hem_pj_c lam p e1 e2 (Cmult Ci (RtoC u)) = (CLn_re + CLp_re, CLn_im + CLp_im).
Proof.
  pose proof D1_pos as HD1. pose proof D2_pos as HD2.
  unfold hem_pj_c, CLn_re, CLp_re, CLn_im, CLp_im. cbv beta iota zeta.
  unfold Cmult, Cminus, Cplus, Cdiv, Cinv, Copp, Cmult, RtoC, Ci. simpl.
  f_equal; field; nra.
Qed.
End HemCx.

(* LevyModel.levy_exponent (generated) at a real argument, for ANY pure-jump exponent: Re psi = - sigma^2 u^2 / 2 + Re pj(i u),
   Im psi = a u + Im pj(i u) *)
Lemma psi_c_parts a sigma (pj : C -> C) u :
  psi_c a sigma pj u = (- (sigma ^ 2 * u ^ 2) / 2 + Cre (pj (Cmult Ci (RtoC u))), a * u + Cim (pj (Cmult Ci (RtoC u)))).
Proof.
  unfold psi_c, levy_exponent_c. cbv beta iota zeta. rewrite Cpow_nat_2.
  destruct (pj (Cmult Ci (RtoC u))) as [re im]. unfold Cre, Cim, Cmult, Cminus, Cplus, Copp, RtoC, Ci. simpl.
  f_equal; field.
Qed.

(* assembled: H_rep for HEM on the real u axis *)
Theorem hem_char_exponent_is_LK a sigma lam p e1 e2 u : 0 < e1 -> 0 < e2 ->
  let nu := hem_nu lam p e1 e2 in
  is_RInt_gen (fun x => lk_integrand_re u x * nu x) (Rbar_locally m_infty) (at_point 0) (CLn_re lam p e2 u) /\
  is_RInt_gen (fun x => lk_integrand_re u x * nu x) (at_point 0) (Rbar_locally p_infty) (CLp_re lam p e1 u) /\
  is_RInt_gen (fun x => lk_integrand_im ZERO true u x * nu x) (Rbar_locally m_infty) (at_point 0) (CLn_im lam p e2 u) /\
  is_RInt_gen (fun x => lk_integrand_im ZERO true u x * nu x) (at_point 0) (Rbar_locally p_infty) (CLp_im lam p e1 u) /\
  hem_pj_c lam p e1 e2 (Cmult Ci (RtoC u)) = (CLn_re lam p e2 u + CLp_re lam p e1 u, CLn_im lam p e2 u + CLp_im lam p e1 u) /\
  psi_c a sigma (hem_pj_c lam p e1 e2) u
  = (- (sigma ^ 2 * u ^ 2) / 2 + (CLn_re lam p e2 u + CLp_re lam p e1 u), a * u + (CLn_im lam p e2 u + CLp_im lam p e1 u)).
Proof.
  intros H1 H2 nu. repeat split.
  - apply (hem_cx_re_left lam p e1 e2 u H2).
  - apply (hem_cx_re_right lam p e1 e2 u H1).
  - apply (hem_cx_im_left lam p e1 e2 u H2).
  - apply (hem_cx_im_right lam p e1 e2 u H1).
  - apply hem_pj_c_parts; assumption.
  - rewrite psi_c_parts, hem_pj_c_parts by assumption. reflexivity.
Qed.

(* C10 -- HEM: the pure-jump exponent is the Levy-Khintchine integral of the model's own density in the declared
   (ZERO) representation, on the whole strip -eta2 < s < eta1 of the real axis (improper integral = limit of finite ones). *)
From Coq Require Import Reals Lra Psatz Bool.
From Coquelicot Require Import Coquelicot.
From RV Require Import Base.RB Gen.GenC09Hem Gen.GenC09Trunc Gen.GenC10Triplet Gen.GenC10Hem Gen.GenC10Exp Model.LevyClosedForms Model.LevyExponent
  Proofs.C09_Generic Proofs.C09_Hem Proofs.C09_HemHalf Proofs.C10_Triplet Proofs.C10_Exponent.
Open Scope R_scope.

Section HemLK.
Variables lam p e1 e2 s : R.
Hypothesis He1 : 0 < e1.
Hypothesis He2 : 0 < e2.
Hypothesis Hs : - e2 < s < e1.

Definition lk_hem (x : R) : R := lk_integrand ZERO true s x * hem_nu lam p e1 e2 x.

Definition Fp (x : R) : R := lam * p * (- (e1 / (e1 - s)) * exp (- (e1 - s) * x) + exp (- e1 * x)).
Definition Fn (x : R) : R := lam * (1 - p) * (e2 / (e2 + s) * exp ((e2 + s) * x) - exp (e2 * x)).

Lemma lk_hem_pos_RInt b : 0 <= b -> is_RInt lk_hem 0 b (Fp b - Fp 0).
Proof.
  intros Hb. apply is_RInt_ext_R with (f := fun x => lam * p * e1 * (exp (- (e1 - s) * x) - exp (- e1 * x))).
  { intros x Hx. rewrite Rmin_left, Rmax_right in Hx by assumption. unfold lk_hem, lk_integrand, h_rep.
    rewrite hem_nu_pos by lra. replace (- (e1 - s) * x) with (s * x + - e1 * x) by ring. rewrite exp_plus. ring. }
  apply (is_RInt_derive_R Fp).
  - intros x _. unfold Fp. auto_derive; auto. field. lra.
  - intros x _. cont.
Qed.
Lemma lk_hem_neg_RInt a : a <= 0 -> is_RInt lk_hem a 0 (Fn 0 - Fn a).
Proof.
  intros Ha. apply is_RInt_ext_R with (f := fun x => lam * (1 - p) * e2 * (exp ((e2 + s) * x) - exp (e2 * x))).
  { intros x Hx. rewrite Rmin_left, Rmax_right in Hx by assumption. unfold lk_hem, lk_integrand, h_rep.
    rewrite hem_nu_neg by lra. replace ((e2 + s) * x) with (s * x + e2 * x) by ring. rewrite exp_plus. ring. }
  apply (is_RInt_derive_R Fn).
  - intros x _. unfold Fn. auto_derive; auto. field. lra.
  - intros x _. cont.
Qed.

Definition Lp : R := lam * p * (e1 / (e1 - s) - 1).
Definition Ln : R := lam * (1 - p) * (e2 / (e2 + s) - 1).

Theorem hem_LK_right : is_lim (fun b => RInt lk_hem 0 b) p_infty Lp.
Proof.
  apply is_lim_ext_loc with (f := fun b => lam * p * ((e1 / (e1 - s) - 1) - (e1 / (e1 - s) * exp (- (e1 - s) * b) + (- 1) * exp (- e1 * b)))).
  { exists 0. intros b Hb. symmetry. apply is_RInt_unique.
    replace (lam * p * (e1 / (e1 - s) - 1 - (e1 / (e1 - s) * exp (- (e1 - s) * b) + -1 * exp (- e1 * b)))) with (Fp b - Fp 0).
    - apply lk_hem_pos_RInt. lra.
    - unfold Fp. replace (- (e1 - s) * 0) with 0 by ring. replace (- e1 * 0) with 0 by ring. rewrite exp_0. field. lra. }
  unfold Lp. apply lim_K_minus. apply lim_plus0; apply lim_scal0; apply lim_exp_p; lra.
Qed.
Theorem hem_LK_left : is_lim (fun a => RInt lk_hem a 0) m_infty Ln.
Proof.
  apply is_lim_ext_loc with (f := fun a => lam * (1 - p) * ((e2 / (e2 + s) - 1) - (e2 / (e2 + s) * exp ((e2 + s) * a) + (- 1) * exp (e2 * a)))).
  { exists 0. intros a Ha. symmetry. apply is_RInt_unique.
    replace (lam * (1 - p) * (e2 / (e2 + s) - 1 - (e2 / (e2 + s) * exp ((e2 + s) * a) + -1 * exp (e2 * a)))) with (Fn 0 - Fn a).
    - apply lk_hem_neg_RInt. lra.
    - unfold Fn. replace ((e2 + s) * 0) with 0 by ring. replace (e2 * 0) with 0 by ring. rewrite exp_0. field. lra. }
  unfold Ln. apply lim_K_minus. apply lim_plus0; apply lim_scal0; apply lim_exp_m; lra.
Qed.
Theorem hem_pj_is_LK : hem_pj lam p e1 e2 s = Ln + Lp.
Proof. unfold hem_pj, Ln, Lp. cbv beta iota zeta. field. split; lra. Qed.
End HemLK.

(* ------------------------------------------------------------------ HEM, Markov-chain route WITH content:
   Jc = int (e^x - 1 - x) nu(dx) is the limit of the finite integrals of the generated density, the first-moment function is
   the generated closed form hem_integrate_x, and (no truncation) the chain drift with the exact jump law grows at r - d. *)
Section HemCtmc.
Variables INF lam p e1 e2 : R.
Hypothesis He1 : 1 < e1.
Hypothesis He2 : 0 < e2.
Hypothesis HINF : 0 < INF.

Definition comp_hem (x : R) : R := (exp x - 1 - x) * hem_nu lam p e1 e2 x.
Definition JcP : R := Lp lam p e1 1 - lam * p / e1.
Definition JcN : R := Ln lam p e2 1 + lam * (1 - p) / e2.

Lemma comp_hem_split x : comp_hem x = lk_hem lam p e1 e2 1 x - x ^ 1 * hem_nu lam p e1 e2 x.
Proof. unfold comp_hem, lk_hem, lk_integrand, h_rep. simpl. replace (1 * x) with x by ring. ring. Qed.

Lemma comp_hem_right : is_lim (fun b => RInt comp_hem 0 b) p_infty JcP.
Proof.
  apply is_lim_ext_loc with (f := fun b => RInt (lk_hem lam p e1 e2 1) 0 b - RInt (fun x => x ^ 1 * hem_nu lam p e1 e2 x) 0 b).
  { exists 0. intros b Hb. symmetry. apply is_RInt_unique.
    apply is_RInt_ext_R with (f := fun x => lk_hem lam p e1 e2 1 x - x ^ 1 * hem_nu lam p e1 e2 x).
    { intros x _. symmetry. apply comp_hem_split. }
    apply (is_RInt_minus (lk_hem lam p e1 e2 1) (fun x => x ^ 1 * hem_nu lam p e1 e2 x) 0 b).
    - apply (@RInt_correct R_CompleteNormedModule). eexists. apply lk_hem_pos_RInt; lra.
    - apply (@RInt_correct R_CompleteNormedModule). eexists. apply ext_pow1. apply (is_RInt_hem_x_pos lam p e1 e2); lra. }
  unfold JcP. apply is_lim_minus'.
  - apply hem_LK_right; lra.
  - replace (lam * p / e1) with (hem_integrate_x INF lam p e1 e2 0 INF).
    + apply hem_x_right; lra.
    + rewrite hem_integrate_x_right by lra. replace (- e1 * 0) with 0 by ring. rewrite exp_0. field. lra.
Qed.
Lemma comp_hem_left : is_lim (fun a => RInt comp_hem a 0) m_infty JcN.
Proof.
  apply is_lim_ext_loc with (f := fun a => RInt (lk_hem lam p e1 e2 1) a 0 - RInt (fun x => x ^ 1 * hem_nu lam p e1 e2 x) a 0).
  { exists 0. intros a Ha. symmetry. apply is_RInt_unique.
    apply is_RInt_ext_R with (f := fun x => lk_hem lam p e1 e2 1 x - x ^ 1 * hem_nu lam p e1 e2 x).
    { intros x _. symmetry. apply comp_hem_split. }
    apply (is_RInt_minus (lk_hem lam p e1 e2 1) (fun x => x ^ 1 * hem_nu lam p e1 e2 x) a 0).
    - apply (@RInt_correct R_CompleteNormedModule). eexists. apply lk_hem_neg_RInt; lra.
    - apply (@RInt_correct R_CompleteNormedModule). eexists. apply ext_pow1. apply (is_RInt_hem_x_neg lam p e1 e2); lra. }
  unfold JcN. replace (Ln lam p e2 1 + lam * (1 - p) / e2) with (Ln lam p e2 1 - (- (lam * (1 - p) / e2))) by ring.
  apply is_lim_minus'.
  - apply hem_LK_left; lra.
  - replace (- (lam * (1 - p) / e2)) with (hem_integrate_x INF lam p e1 e2 (- INF) 0).
    + apply hem_x_left; lra.
    + rewrite hem_integrate_x_left by lra. replace (e2 * 0) with 0 by ring. rewrite exp_0. field. lra.
Qed.

Theorem hem_martingale_ctmc r d sigma mu_h :
  let m1 := hem_integrate_x INF lam p e1 e2 in
  let a0 := hem_a lam p e1 e2 in
  ctmc_growth_exact
    (ctmc_process_drift (exp_model_drift r d (omega_of a0 sigma (hem_pj lam p e1 e2))) (tilde_drift INF m1 true a0 (rep_code ZERO))
                        (ctmc_mu_tilde INF m1 true) mu_h) mu_h sigma (JcN + JcP) = r - d.
Proof.
  intros m1 a0.
  unfold ctmc_growth_exact, ctmc_process_drift, exp_model_drift, omega_of, kappa, ctmc_mu_tilde, tilde_drift.
  cbv beta iota zeta.
  rewrite (canonical_drift_spec INF m1 true a0 ZERO) by (left; reflexivity).
  unfold to_canonical, I11, m1. rewrite Ropp_0.
  rewrite hem_integrate_x_left, hem_integrate_x_right by lra.
  replace (e2 * 0) with 0 by ring. replace (- e1 * 0) with 0 by ring. rewrite exp_0.
  unfold JcN, JcP. rewrite (hem_pj_is_LK lam p e1 e2 1) by lra.
  unfold a0, hem_a. field. lra.
Qed.
End HemCtmc.

(* ------------------------------------------------------------------ HEM, Markov-chain route WITH the truncation the code applies.
   The chain works with nu_T = nu restricted to [l, r] (here -1 < l < 0 < r < 1, a grid inside (-1,1)): first moments through
   TruncatedLevyMeasure.integrate_against_x, i.e. m1t = truncated_integrate (generated hem_integrate_x) l r, and the exact law of
   the chain's jumps has compensated exponential moment Jct = int_l^r (e^x - 1 - x) hem_nu; omega still comes from the
   un-truncated exponent.  Everything below is about the generated density and closed forms, no free number. *)
Section HemCtmcTruncated.
Variables INF lam p e1 e2 l r : R.
Hypothesis He1 : 1 < e1.
Hypothesis He2 : 0 < e2.
Hypothesis Hl : -1 < l < 0.
Hypothesis Hr : 0 < r < 1.
Hypothesis HINF : 1 < INF.

Let F := hem_integrate_x INF lam p e1 e2.
Let m1t := truncated_integrate F l r.

Lemma m1t_clip a b aa bb : a <= b -> truncated_interval l r a b = (aa, bb) -> aa <> bb -> m1t a b = F aa bb.
Proof.
  intros Hab E N. unfold m1t, truncated_integrate.
  replace (Rltb b a) with false by (symmetry; apply Rltb_false; assumption).
  rewrite E. rewrite (Reqb_ne aa bb) by assumption. reflexivity.
Qed.
Lemma m1t_empty a b x : a <= b -> truncated_interval l r a b = (x, x) -> m1t a b = 0.
Proof.
  intros Hab E. unfold m1t, truncated_integrate.
  replace (Rltb b a) with false by (symmetry; apply Rltb_false; assumption).
  rewrite E. rewrite Reqb_same. reflexivity.
Qed.
Lemma m1t_mid : m1t (-1) 1 = F l r.
Proof.
  apply m1t_clip; [lra | | lra]. rewrite truncated_interval_eq.
  rewrite (Rmin_left (-1) r), (Rmax_right (-1) l), (Rmax_left 1 l), (Rmin_right 1 r) by lra. reflexivity.
Qed.
Lemma m1t_left_tail : m1t (- INF) (-1) = 0.
Proof.
  apply (m1t_empty _ _ l); [lra|]. rewrite truncated_interval_eq.
  rewrite (Rmin_left (- INF) r), (Rmax_right (- INF) l), (Rmax_right (-1) l), (Rmin_left l r) by lra. reflexivity.
Qed.
Lemma m1t_right_tail : m1t 1 INF = 0.
Proof.
  apply (m1t_empty _ _ r); [lra|]. rewrite truncated_interval_eq.
  rewrite (Rmin_right 1 r), (Rmax_left r l), (Rmax_left INF l), (Rmin_right INF r) by lra. reflexivity.
Qed.
Lemma m1t_neg : m1t (- INF) (- 0) = F l 0.
Proof.
  rewrite Ropp_0. apply m1t_clip; [lra | | lra]. rewrite truncated_interval_eq.
  rewrite (Rmin_left (- INF) r), (Rmax_right (- INF) l), (Rmax_left 0 l), (Rmin_left 0 r) by lra. reflexivity.
Qed.
Lemma m1t_pos : m1t 0 INF = F 0 r.
Proof.
  apply m1t_clip; [lra | | lra]. rewrite truncated_interval_eq.
  rewrite (Rmin_left 0 r), (Rmax_left 0 l), (Rmax_left INF l), (Rmin_right INF r) by lra. reflexivity.
Qed.
Lemma F_split : F l 0 + F 0 r = F l r.
Proof. unfold F. symmetry. apply hem_integrate_x_straddle; lra. Qed.

Definition J0t : R := (Fn lam p e2 1 0 - Fn lam p e2 1 l) + (Fp lam p e1 1 r - Fp lam p e1 1 0).

Lemma lk_hem_trunc_RInt : is_RInt (lk_hem lam p e1 e2 1) l r J0t.
Proof.
  unfold J0t. apply (chasles_R _ l 0 r).
  - apply lk_hem_neg_RInt; lra.
  - apply lk_hem_pos_RInt; lra.
Qed.
Lemma comp_hem_trunc_RInt : is_RInt (comp_hem lam p e1 e2) l r (J0t - F l r).
Proof.
  apply is_RInt_ext_R with (f := fun x => lk_hem lam p e1 e2 1 x - x ^ 1 * hem_nu lam p e1 e2 x).
  { intros x _. symmetry. apply comp_hem_split. }
  apply (is_RInt_minus (lk_hem lam p e1 e2 1) (fun x => x ^ 1 * hem_nu lam p e1 e2 x) l r).
  - apply lk_hem_trunc_RInt.
  - unfold F. apply hem_x_is_RInt; try lra; split; lra.
Qed.

(* the removed exponential moment, in closed form: right tail - |left tail| *)
Definition removed_tail : R :=
  lam * p * exp (- e1 * r) * (e1 / (e1 - 1) * exp r - 1) + lam * (1 - p) * exp (e2 * l) * (e2 / (e2 + 1) * exp l - 1).

Lemma removed_tail_spec : hem_pj lam p e1 e2 1 - J0t = removed_tail.
Proof.
  rewrite (hem_pj_is_LK lam p e1 e2 1) by lra. unfold J0t, Ln, Lp, Fn, Fp, removed_tail.
  replace (- (e1 - 1) * r) with (- e1 * r + r) by ring. replace ((e2 + 1) * l) with (e2 * l + l) by ring.
  rewrite !exp_plus. replace (- (e1 - 1) * 0) with 0 by ring. replace ((e2 + 1) * 0) with 0 by ring.
  replace (- e1 * 0) with 0 by ring. replace (e2 * 0) with 0 by ring. rewrite exp_0. field. split; lra.
Qed.

Theorem hem_ctmc_truncated r0 d sigma mu_h :
  ctmc_growth_exact
    (ctmc_process_drift (exp_model_drift r0 d (omega_of (hem_a lam p e1 e2) sigma (hem_pj lam p e1 e2)))
                        (tilde_drift INF m1t true (hem_a lam p e1 e2) (rep_code ZERO)) (ctmc_mu_tilde INF m1t true) mu_h)
    mu_h sigma (J0t - F l r)
  = r0 - d - removed_tail.
Proof.
  rewrite <- removed_tail_spec.
  apply (ctmc_truncation_bias_zero INF m1t (hem_a lam p e1 e2) r0 d sigma (hem_pj lam p e1 e2) (hem_pj lam p e1 e2 1) J0t (F l r) mu_h).
  - rewrite m1t_neg, m1t_pos, m1t_left_tail, m1t_mid, m1t_right_tail, F_split. ring.
  - reflexivity.
  - rewrite m1t_left_tail, m1t_mid, m1t_right_tail. ring.
Qed.

(* with upward jumps only (p = 1) the removed tail is strictly positive: the chain's forward is strictly below S0 exp((r-d)T) *)
Lemma removed_tail_pos : p = 1 -> 0 < lam -> 0 < removed_tail.
Proof.
  intros Hp Hlam. unfold removed_tail. rewrite Hp.
  replace (lam * (1 - 1) * exp (e2 * l) * (e2 / (e2 + 1) * exp l - 1)) with 0 by ring.
  assert (H1 : 1 < exp r) by (rewrite <- exp_0; apply exp_increasing; lra).
  assert (H2 : 1 < e1 / (e1 - 1)) by (apply Rmult_lt_reg_r with (e1 - 1); [lra | field_simplify; lra]).
  assert (H3 : 0 < e1 / (e1 - 1) * exp r - 1) by nra.
  pose proof (exp_pos (- e1 * r)).
  assert (0 < lam * 1 * exp (- e1 * r) * (e1 / (e1 - 1) * exp r - 1)) by (repeat apply Rmult_lt_0_compat; lra).
  lra.
Qed.
End HemCtmcTruncated.

(* assembled statements for Properties/C10.v *)
Theorem hem_exponent_is_LK lam p e1 e2 s : 0 < e1 -> 0 < e2 -> - e2 < s < e1 ->
  is_lim (fun a => RInt (fun x => lk_integrand ZERO true s x * hem_nu lam p e1 e2 x) a 0) m_infty (Ln lam p e2 s) /\
  is_lim (fun b => RInt (fun x => lk_integrand ZERO true s x * hem_nu lam p e1 e2 x) 0 b) p_infty (Lp lam p e1 s) /\
  hem_pj lam p e1 e2 s = Ln lam p e2 s + Lp lam p e1 s.
Proof.
  intros H1 H2 Hs. repeat split.
  - apply (hem_LK_left lam p e1 e2 s H2 Hs).
  - apply (hem_LK_right lam p e1 e2 s H1 Hs).
  - apply hem_pj_is_LK; assumption.
Qed.
Theorem hem_ctmc_route INF lam p e1 e2 r d sigma mu_h : 1 < e1 -> 0 < e2 -> 0 < INF ->
  is_lim (fun a => RInt (fun x => (exp x - 1 - x) * hem_nu lam p e1 e2 x) a 0) m_infty (JcN lam p e2) /\
  is_lim (fun b => RInt (fun x => (exp x - 1 - x) * hem_nu lam p e1 e2 x) 0 b) p_infty (JcP lam p e1) /\
  ctmc_growth_exact
    (ctmc_process_drift (exp_model_drift r d (omega_of (hem_a lam p e1 e2) sigma (hem_pj lam p e1 e2)))
       (tilde_drift INF (hem_integrate_x INF lam p e1 e2) true (hem_a lam p e1 e2) (rep_code ZERO))
       (ctmc_mu_tilde INF (hem_integrate_x INF lam p e1 e2) true) mu_h) mu_h sigma (JcN lam p e2 + JcP lam p e1) = r - d.
Proof.
  intros H1 H2 HI. repeat split.
  - apply (comp_hem_left INF lam p e1 e2); assumption.
  - apply (comp_hem_right INF lam p e1 e2); assumption.
  - apply (hem_martingale_ctmc INF lam p e1 e2 H1 H2 HI).
Qed.
Theorem hem_ctmc_truncated_route INF lam p e1 e2 l r r0 d sigma mu_h : 1 < e1 -> 0 < e2 -> -1 < l < 0 -> 0 < r < 1 -> 1 < INF ->
  let m1t := truncated_integrate (hem_integrate_x INF lam p e1 e2) l r in
  let Jct := J0t lam p e1 e2 l r - hem_integrate_x INF lam p e1 e2 l r in
  let growth := ctmc_growth_exact
    (ctmc_process_drift (exp_model_drift r0 d (omega_of (hem_a lam p e1 e2) sigma (hem_pj lam p e1 e2)))
                        (tilde_drift INF m1t true (hem_a lam p e1 e2) (rep_code ZERO)) (ctmc_mu_tilde INF m1t true) mu_h)
    mu_h sigma Jct in
  is_RInt (fun x => (exp x - 1 - x) * hem_nu lam p e1 e2 x) l r Jct /\
  growth = r0 - d - removed_tail lam p e1 e2 l r /\
  (p = 1 -> 0 < lam -> growth < r0 - d).
Proof.
  intros H1 H2 Hl Hr HI m1t Jct growth. repeat split.
  - apply (comp_hem_trunc_RInt INF lam p e1 e2 l r); assumption.
  - apply (hem_ctmc_truncated INF lam p e1 e2 l r H1 H2 Hl Hr HI).
  - intros Hp Hlam. unfold growth, m1t, Jct. rewrite (hem_ctmc_truncated INF lam p e1 e2 l r H1 H2 Hl Hr HI).
    pose proof (removed_tail_pos lam p e1 e2 l r H1 Hr Hp Hlam). lra.
Qed.

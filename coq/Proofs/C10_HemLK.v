(* C10 -- HEM: the pure-jump exponent is the Levy-Khintchine integral of the model's own density in the declared
   (ZERO) representation, on the whole strip -eta2 < s < eta1 of the real axis (improper integral = limit of finite ones). *)
From Coq Require Import Reals Lra Psatz Bool.
From Coquelicot Require Import Coquelicot.
From RV Require Import Base.RB Gen.GenC09Hem Gen.GenC10Triplet Gen.GenC10Hem Gen.GenC10Exp Model.LevyClosedForms Model.LevyExponent
  Proofs.C09_Generic Proofs.C09_Hem Proofs.C09_HemHalf Proofs.C10_Triplet.
Open Scope R_scope.

Section HemLK.
Variables lam p e1 e2 s : R.
Hypothesis He1 : 0 < e1.
Hypothesis He2 : 0 < e2.
Hypothesis Hs : - e2 < s < e1.

Definition lk_hem (x : R) : R := lk_integrand ZERO true s x * hem_nu lam p e1 e2 x.

Definition Fp (x : R) : R := lam * p * (- (e1 / (e1 - s)) * exp (- (e1 - s) * x) + exp (- e1 * x)).
Definition Fn (x : R) : R := lam * (1 - p) * (e2 / (e2 + s) * exp ((e2 + s) * x) - exp (e2 * x)).

Lemma lk_hem_pos_RInt b : 0 <= b -> is_RInt lk_hem 0 b (Fp b - Fp 0).
Proof.
  intros Hb. apply is_RInt_ext_R with (f := fun x => lam * p * e1 * (exp (- (e1 - s) * x) - exp (- e1 * x))).
  { intros x Hx. rewrite Rmin_left, Rmax_right in Hx by assumption. unfold lk_hem, lk_integrand, h_rep.
    rewrite hem_nu_pos by lra. replace (- (e1 - s) * x) with (s * x + - e1 * x) by ring. rewrite exp_plus. ring. }
  apply (is_RInt_derive_R Fp).
  - intros x _. unfold Fp. auto_derive; auto. field. lra.
  - intros x _. cont.
Qed.
Lemma lk_hem_neg_RInt a : a <= 0 -> is_RInt lk_hem a 0 (Fn 0 - Fn a).
Proof.
  intros Ha. apply is_RInt_ext_R with (f := fun x => lam * (1 - p) * e2 * (exp ((e2 + s) * x) - exp (e2 * x))).
  { intros x Hx. rewrite Rmin_left, Rmax_right in Hx by assumption. unfold lk_hem, lk_integrand, h_rep.
    rewrite hem_nu_neg by lra. replace ((e2 + s) * x) with (s * x + e2 * x) by ring. rewrite exp_plus. ring. }
  apply (is_RInt_derive_R Fn).
  - intros x _. unfold Fn. auto_derive; auto. field. lra.
  - intros x _. cont.
Qed.

Definition Lp : R := lam * p * (e1 / (e1 - s) - 1).
Definition Ln : R := lam * (1 - p) * (e2 / (e2 + s) - 1).

Theorem hem_LK_right : is_lim (fun b => RInt lk_hem 0 b) p_infty Lp.
Proof.
  apply is_lim_ext_loc with (f := fun b => lam * p * ((e1 / (e1 - s) - 1) - (e1 / (e1 - s) * exp (- (e1 - s) * b) + (- 1) * exp (- e1 * b)))).
  { exists 0. intros b Hb. symmetry. apply is_RInt_unique.
    replace (lam * p * (e1 / (e1 - s) - 1 - (e1 / (e1 - s) * exp (- (e1 - s) * b) + -1 * exp (- e1 * b)))) with (Fp b - Fp 0).
    - apply lk_hem_pos_RInt. lra.
    - unfold Fp. replace (- (e1 - s) * 0) with 0 by ring. replace (- e1 * 0) with 0 by ring. rewrite exp_0. field. lra. }
  unfold Lp. apply lim_K_minus. apply lim_plus0; apply lim_scal0; apply lim_exp_p; lra.
Qed.
Theorem hem_LK_left : is_lim (fun a => RInt lk_hem a 0) m_infty Ln.
Proof.
  apply is_lim_ext_loc with (f := fun a => lam * (1 - p) * ((e2 / (e2 + s) - 1) - (e2 / (e2 + s) * exp ((e2 + s) * a) + (- 1) * exp (e2 * a)))).
  { exists 0. intros a Ha. symmetry. apply is_RInt_unique.
    replace (lam * (1 - p) * (e2 / (e2 + s) - 1 - (e2 / (e2 + s) * exp ((e2 + s) * a) + -1 * exp (e2 * a)))) with (Fn 0 - Fn a).
    - apply lk_hem_neg_RInt. lra.
    - unfold Fn. replace ((e2 + s) * 0) with 0 by ring. replace (e2 * 0) with 0 by ring. rewrite exp_0. field. lra. }
  unfold Ln. apply lim_K_minus. apply lim_plus0; apply lim_scal0; apply lim_exp_m; lra.
Qed.
Theorem hem_pj_is_LK : hem_pj lam p e1 e2 s = Ln + Lp.
Proof. unfold hem_pj, Ln, Lp. cbv beta iota zeta. field. split; lra. Qed.
End HemLK.

(* ------------------------------------------------------------------ HEM, Markov-chain route WITH content:
   Jc = int (e^x - 1 - x) nu(dx) is the limit of the finite integrals of the generated density, the first-moment function is
   the generated closed form hem_integrate_x, and (no truncation) the chain drift with the exact jump law grows at r - d. *)
Section HemCtmc.
Variables INF lam p e1 e2 : R.
Hypothesis He1 : 1 < e1.
Hypothesis He2 : 0 < e2.
Hypothesis HINF : 0 < INF.

Definition comp_hem (x : R) : R := (exp x - 1 - x) * hem_nu lam p e1 e2 x.
Definition JcP : R := Lp lam p e1 1 - lam * p / e1.
Definition JcN : R := Ln lam p e2 1 + lam * (1 - p) / e2.

Lemma comp_hem_split x : comp_hem x = lk_hem lam p e1 e2 1 x - x ^ 1 * hem_nu lam p e1 e2 x.
Proof. unfold comp_hem, lk_hem, lk_integrand, h_rep. simpl. replace (1 * x) with x by ring. ring. Qed.

Lemma comp_hem_right : is_lim (fun b => RInt comp_hem 0 b) p_infty JcP.
Proof.
  apply is_lim_ext_loc with (f := fun b => RInt (lk_hem lam p e1 e2 1) 0 b - RInt (fun x => x ^ 1 * hem_nu lam p e1 e2 x) 0 b).
  { exists 0. intros b Hb. symmetry. apply is_RInt_unique.
    apply is_RInt_ext_R with (f := fun x => lk_hem lam p e1 e2 1 x - x ^ 1 * hem_nu lam p e1 e2 x).
    { intros x _. symmetry. apply comp_hem_split. }
    apply (is_RInt_minus (lk_hem lam p e1 e2 1) (fun x => x ^ 1 * hem_nu lam p e1 e2 x) 0 b).
    - apply (@RInt_correct R_CompleteNormedModule). eexists. apply lk_hem_pos_RInt; lra.
    - apply (@RInt_correct R_CompleteNormedModule). eexists. apply ext_pow1. apply (is_RInt_hem_x_pos lam p e1 e2); lra. }
  unfold JcP. apply is_lim_minus'.
  - apply hem_LK_right; lra.
  - replace (lam * p / e1) with (hem_integrate_x INF lam p e1 e2 0 INF).
    + apply hem_x_right; lra.
    + rewrite hem_integrate_x_right by lra. replace (- e1 * 0) with 0 by ring. rewrite exp_0. field. lra.
Qed.
Lemma comp_hem_left : is_lim (fun a => RInt comp_hem a 0) m_infty JcN.
Proof.
  apply is_lim_ext_loc with (f := fun a => RInt (lk_hem lam p e1 e2 1) a 0 - RInt (fun x => x ^ 1 * hem_nu lam p e1 e2 x) a 0).
  { exists 0. intros a Ha. symmetry. apply is_RInt_unique.
    apply is_RInt_ext_R with (f := fun x => lk_hem lam p e1 e2 1 x - x ^ 1 * hem_nu lam p e1 e2 x).
    { intros x _. symmetry. apply comp_hem_split. }
    apply (is_RInt_minus (lk_hem lam p e1 e2 1) (fun x => x ^ 1 * hem_nu lam p e1 e2 x) a 0).
    - apply (@RInt_correct R_CompleteNormedModule). eexists. apply lk_hem_neg_RInt; lra.
    - apply (@RInt_correct R_CompleteNormedModule). eexists. apply ext_pow1. apply (is_RInt_hem_x_neg lam p e1 e2); lra. }
  unfold JcN. replace (Ln lam p e2 1 + lam * (1 - p) / e2) with (Ln lam p e2 1 - (- (lam * (1 - p) / e2))) by ring.
  apply is_lim_minus'.
  - apply hem_LK_left; lra.
  - replace (- (lam * (1 - p) / e2)) with (hem_integrate_x INF lam p e1 e2 (- INF) 0).
    + apply hem_x_left; lra.
    + rewrite hem_integrate_x_left by lra. replace (e2 * 0) with 0 by ring. rewrite exp_0. field. lra.
Qed.

Theorem hem_martingale_ctmc r d sigma mu_h :
  let m1 := hem_integrate_x INF lam p e1 e2 in
  let a0 := hem_a lam p e1 e2 in
  ctmc_growth_exact
    (ctmc_process_drift (exp_model_drift r d (omega_of a0 sigma (hem_pj lam p e1 e2))) (tilde_drift INF m1 true a0 (rep_code ZERO))
                        (ctmc_mu_tilde INF m1 true) mu_h) mu_h sigma (JcN + JcP) = r - d.
Proof.
  intros m1 a0.
  unfold ctmc_growth_exact, ctmc_process_drift, exp_model_drift, omega_of, kappa, ctmc_mu_tilde, tilde_drift.
  cbv beta iota zeta.
  rewrite (canonical_drift_spec INF m1 true a0 ZERO) by (left; reflexivity).
  unfold to_canonical, I11, m1. rewrite Ropp_0.
  rewrite hem_integrate_x_left, hem_integrate_x_right by lra.
  replace (e2 * 0) with 0 by ring. replace (- e1 * 0) with 0 by ring. rewrite exp_0.
  unfold JcN, JcP. rewrite (hem_pj_is_LK lam p e1 e2 1) by lra.
  unfold a0, hem_a. field. lra.
Qed.
End HemCtmc.

(* assembled statements for Properties/C10.v *)
Theorem hem_exponent_is_LK lam p e1 e2 s : 0 < e1 -> 0 < e2 -> - e2 < s < e1 ->
  is_lim (fun a => RInt (fun x => lk_integrand ZERO true s x * hem_nu lam p e1 e2 x) a 0) m_infty (Ln lam p e2 s) /\
  is_lim (fun b => RInt (fun x => lk_integrand ZERO true s x * hem_nu lam p e1 e2 x) 0 b) p_infty (Lp lam p e1 s) /\
  hem_pj lam p e1 e2 s = Ln lam p e2 s + Lp lam p e1 s.
Proof.
  intros H1 H2 Hs. repeat split.
  - apply (hem_LK_left lam p e1 e2 s H2 Hs).
  - apply (hem_LK_right lam p e1 e2 s H1 Hs).
  - apply hem_pj_is_LK; assumption.
Qed.
Theorem hem_ctmc_route INF lam p e1 e2 r d sigma mu_h : 1 < e1 -> 0 < e2 -> 0 < INF ->
  is_lim (fun a => RInt (fun x => (exp x - 1 - x) * hem_nu lam p e1 e2 x) a 0) m_infty (JcN lam p e2) /\
  is_lim (fun b => RInt (fun x => (exp x - 1 - x) * hem_nu lam p e1 e2 x) 0 b) p_infty (JcP lam p e1) /\
  ctmc_growth_exact
    (ctmc_process_drift (exp_model_drift r d (omega_of (hem_a lam p e1 e2) sigma (hem_pj lam p e1 e2)))
       (tilde_drift INF (hem_integrate_x INF lam p e1 e2) true (hem_a lam p e1 e2) (rep_code ZERO))
       (ctmc_mu_tilde INF (hem_integrate_x INF lam p e1 e2) true) mu_h) mu_h sigma (JcN lam p e2 + JcP lam p e1) = r - d.
Proof.
  intros H1 H2 HI. repeat split.
  - apply (comp_hem_left INF lam p e1 e2); assumption.
  - apply (comp_hem_right INF lam p e1 e2); assumption.
  - apply (hem_martingale_ctmc INF lam p e1 e2 H1 H2 HI).
Qed.

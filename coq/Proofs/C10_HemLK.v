(* C10 -- HEM: the pure-jump exponent is the Levy-Khintchine integral of the model's own density in the declared
   (ZERO) representation, on the whole strip -eta2 < s < eta1 of the real axis (improper integral = limit of finite ones). *)
From Coq Require Import Reals Lra Psatz Bool.
From Coquelicot Require Import Coquelicot.
From RV Require Import Base.RB Gen.GenC09Hem Gen.GenC10Hem Model.LevyClosedForms Model.LevyExponent
  Proofs.C09_Generic Proofs.C09_Hem Proofs.C09_HemHalf.
Open Scope R_scope.

Section HemLK.
Variables lam p e1 e2 s : R.
Hypothesis He1 : 0 < e1.
Hypothesis He2 : 0 < e2.
Hypothesis Hs : - e2 < s < e1.

Definition lk_hem (x : R) : R := lk_integrand ZERO true s x * hem_nu lam p e1 e2 x.

Definition Fp (x : R) : R := lam * p * (- (e1 / (e1 - s)) * exp (- (e1 - s) * x) + exp (- e1 * x)).
Definition Fn (x : R) : R := lam * (1 - p) * (e2 / (e2 + s) * exp ((e2 + s) * x) - exp (e2 * x)).

Lemma lk_hem_pos_RInt b : 0 <= b -> is_RInt lk_hem 0 b (Fp b - Fp 0).
Proof.
  intros Hb. apply is_RInt_ext_R with (f := fun x => lam * p * e1 * (exp (- (e1 - s) * x) - exp (- e1 * x))).
  { intros x Hx. rewrite Rmin_left, Rmax_right in Hx by assumption. unfold lk_hem, lk_integrand, h_rep.
    rewrite hem_nu_pos by lra. replace (- (e1 - s) * x) with (s * x + - e1 * x) by ring. rewrite exp_plus. ring. }
  apply (is_RInt_derive_R Fp).
  - intros x _. unfold Fp. auto_derive; auto. field. lra.
  - intros x _. cont.
Qed.
Lemma lk_hem_neg_RInt a : a <= 0 -> is_RInt lk_hem a 0 (Fn 0 - Fn a).
Proof.
  intros Ha. apply is_RInt_ext_R with (f := fun x => lam * (1 - p) * e2 * (exp ((e2 + s) * x) - exp (e2 * x))).
  { intros x Hx. rewrite Rmin_left, Rmax_right in Hx by assumption. unfold lk_hem, lk_integrand, h_rep.
    rewrite hem_nu_neg by lra. replace ((e2 + s) * x) with (s * x + e2 * x) by ring. rewrite exp_plus. ring. }
  apply (is_RInt_derive_R Fn).
  - intros x _. unfold Fn. auto_derive; auto. field. lra.
  - intros x _. cont.
Qed.

Definition Lp : R := lam * p * (e1 / (e1 - s) - 1).
Definition Ln : R := lam * (1 - p) * (e2 / (e2 + s) - 1).

Theorem hem_LK_right : is_lim (fun b => RInt lk_hem 0 b) p_infty Lp.
Proof.
  apply is_lim_ext_loc with (f := fun b => lam * p * ((e1 / (e1 - s) - 1) - (e1 / (e1 - s) * exp (- (e1 - s) * b) + (- 1) * exp (- e1 * b)))).
  { exists 0. intros b Hb. symmetry. apply is_RInt_unique.
    replace (lam * p * (e1 / (e1 - s) - 1 - (e1 / (e1 - s) * exp (- (e1 - s) * b) + -1 * exp (- e1 * b)))) with (Fp b - Fp 0).
    - apply lk_hem_pos_RInt. lra.
    - unfold Fp. replace (- (e1 - s) * 0) with 0 by ring. replace (- e1 * 0) with 0 by ring. rewrite exp_0. field. lra. }
  unfold Lp. apply lim_K_minus. apply lim_plus0; apply lim_scal0; apply lim_exp_p; lra.
Qed.
Theorem hem_LK_left : is_lim (fun a => RInt lk_hem a 0) m_infty Ln.
Proof.
  apply is_lim_ext_loc with (f := fun a => lam * (1 - p) * ((e2 / (e2 + s) - 1) - (e2 / (e2 + s) * exp ((e2 + s) * a) + (- 1) * exp (e2 * a)))).
  { exists 0. intros a Ha. symmetry. apply is_RInt_unique.
    replace (lam * (1 - p) * (e2 / (e2 + s) - 1 - (e2 / (e2 + s) * exp ((e2 + s) * a) + -1 * exp (e2 * a)))) with (Fn 0 - Fn a).
    - apply lk_hem_neg_RInt. lra.
    - unfold Fn. replace ((e2 + s) * 0) with 0 by ring. replace (e2 * 0) with 0 by ring. rewrite exp_0. field. lra. }
  unfold Ln. apply lim_K_minus. apply lim_plus0; apply lim_scal0; apply lim_exp_m; lra.
Qed.
Theorem hem_pj_is_LK : hem_pj lam p e1 e2 s = Ln + Lp.
Proof. unfold hem_pj, Ln, Lp. cbv beta iota zeta. field. split; lra. Qed.
End HemLK.

(* assembled statement for Properties/C10.v *)
Theorem hem_exponent_is_LK lam p e1 e2 s : 0 < e1 -> 0 < e2 -> - e2 < s < e1 ->
  is_lim (fun a => RInt (fun x => lk_integrand ZERO true s x * hem_nu lam p e1 e2 x) a 0) m_infty (Ln lam p e2 s) /\
  is_lim (fun b => RInt (fun x => lk_integrand ZERO true s x * hem_nu lam p e1 e2 x) 0 b) p_infty (Lp lam p e1 s) /\
  hem_pj lam p e1 e2 s = Ln lam p e2 s + Lp lam p e1 s.
Proof.
  intros H1 H2 Hs. repeat split.
  - apply (hem_LK_left lam p e1 e2 s H2 Hs).
  - apply (hem_LK_right lam p e1 e2 s H1 Hs).
  - apply hem_pj_is_LK; assumption.
Qed.

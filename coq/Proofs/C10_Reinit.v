(* C10 -- the calibration sequence (deepcopy the parameters, set an attribute, Parameters.initialisation(), rebuild the model):
   the cached constants as initialisation() RE-DERIVES them are the ones the exponent / drift / density theorems are stated with.
   hem_reinit_xi, vg_reinit_*, cgmy_reinit_* are py2coq translations of HEMParameters / VGParameters / CGMYParameters.initialisation,
   hem_xi, vg_init_*, cgmy_init_* those of the __init__ methods; cgmy_pj reads p._GpowerY / p._MpowerY as Rpower g y / Rpower m y
   (specs/C10.py) and p._CGammamY as its argument CGammamY. *)
From Coq Require Import Reals Lra Psatz Bool.
From Coquelicot Require Import Coquelicot.
From RV Require Import Base.RB Gen.GenC09Vg Gen.GenC10Hem Gen.GenC10Vg Gen.GenC10Cgmy Gen.GenC10Exp Gen.GenC10Triplet Model.LevyExponent
  Proofs.C10_Triplet Proofs.C10_Exponent Proofs.C10_VgLK.
Open Scope R_scope.

Lemma hem_reinit_is_init sigma p eta1 eta2 lam :
  hem_reinit_xi sigma p eta1 eta2 lam = hem_xi p eta1 eta2 /\ hem_init_xi sigma p eta1 eta2 lam = hem_xi p eta1 eta2.
Proof. split; reflexivity. Qed.

Lemma cgmy_reinit_is_init (Gamma : R -> R) c g m y :
  (cgmy_reinit_CGammamY Gamma c g m y = c * Gamma (- y) /\ cgmy_init_CGammamY Gamma c g m y = c * Gamma (- y)) /\
  (cgmy_reinit_GpowerY Gamma c g m y = Rpower g y /\ cgmy_init_GpowerY Gamma c g m y = Rpower g y) /\
  (cgmy_reinit_MpowerY Gamma c g m y = Rpower m y /\ cgmy_init_MpowerY Gamma c g m y = Rpower m y).
Proof. repeat split; reflexivity. Qed.

(* after the calibration sequence: the statements with the re-derived constants *)
Theorem after_initialisation :
  (forall r d sigma lam p eta1 eta2, 1 < eta1 -> eta2 <> -1 ->
     direct_growth (hem_process_drift r d sigma lam eta1 (hem_reinit_xi sigma p eta1 eta2 lam)) sigma (hem_pj lam p eta1 eta2 1) = r - d) /\
  (forall sigma nu theta s, 0 < sigma -> 0 < nu ->
     let c := vg_reinit_c sigma nu theta in let lm := vg_reinit_lambda_m sigma nu theta in let lp := vg_reinit_lambda_p sigma nu theta in
     - lm < s < lp ->
     is_RInt_gen (fun x => lk_integrand ZERO true s x * vg_nu c lm lp x) (Rbar_locally m_infty) (at_left 0) (VLn c lm s) /\
     is_RInt_gen (fun x => lk_integrand ZERO true s x * vg_nu c lm lp x) (at_right 0) (Rbar_locally p_infty) (VLp c lp s) /\
     kappa 0 0 (vg_pj sigma nu theta) s = VLn c lm s + VLp c lp s) /\
  (forall (Gamma : R -> R) c g m y,
     cgmy_reinit_CGammamY Gamma c g m y = cgmy_init_CGammamY Gamma c g m y /\
     cgmy_reinit_GpowerY Gamma c g m y = Rpower g y /\ cgmy_reinit_MpowerY Gamma c g m y = Rpower m y).
Proof.
  split; [|split].
  - intros. destruct (hem_reinit_is_init sigma p eta1 eta2 lam) as [-> _]. apply martingale_direct_hem; assumption.
  - intros sigma nu theta s Hs Hn. destruct (vg_reinit_is_init sigma nu theta) as (-> & -> & ->).
    intros c lm lp Hstrip. destruct (vg_exponent_is_LK sigma nu theta s Hs Hn Hstrip) as (A & B & C).
    split; [exact A | split; [exact B |]]. unfold kappa. rewrite C. subst c lm lp. field.
  - intros. repeat split.
Qed.

(* non-vacuity of the Variance Gamma statements: sigma = 1, nu = 2, theta = 0 gives c = 1/2, lambda_p = lambda_m = 1 and s = 1/2
   lies inside the strip, where the exponent is not zero *)
Lemma vg_example : vg_init_c 1 2 0 = / 2 /\ vg_init_lambda_p 1 2 0 = 1 /\ vg_init_lambda_m 1 2 0 = 1 /\
  - vg_init_lambda_m 1 2 0 < 1 / 2 < vg_init_lambda_p 1 2 0 /\ 0 < VLp (/ 2) 1 (1 / 2).
Proof.
  assert (E : sqrt (0 ^ 2 + 2 * 1 ^ 2 / 2) = 1) by (replace (0 ^ 2 + 2 * 1 ^ 2 / 2) with 1 by field; apply sqrt_1).
  assert (Ep : vg_init_lambda_p 1 2 0 = 1) by (unfold vg_init_lambda_p; cbv zeta; rewrite E; field).
  assert (Em : vg_init_lambda_m 1 2 0 = 1) by (unfold vg_init_lambda_m; cbv zeta; rewrite E; field).
  split; [unfold vg_init_c; cbv zeta; field|]. split; [exact Ep|]. split; [exact Em|]. rewrite Ep, Em. split; [lra|].
  unfold VLp. replace (1 / (1 - 1 / 2)) with 2 by field. pose proof ln_lt_2. lra.
Qed.

(* C10 (wave 6, seeded change C10_g) -- set_representation as generated from the source WITH its exception paths and statement order
   (Gen.GenC10SetRep: set_representation_gen returns (raised?, (self.a, self.representation) afterwards)):
     * a refused conversion (the call raises) leaves the state unchanged -- the raise happens before any assignment;
     * a conversion between admissible representations never raises and is the hand model Model.LevyExponent.set_representation;
     * a conversion is refused exactly when ZERO is requested for (or the current representation is ZERO of) an infinite-variation
       measure;
     * sequences that contain refused conversions (caught exceptions) are the hand model on the sub-sequence of admissible
       requests: path independence and reversibility extend to them. *)
From Coq Require Import Reals Lra Bool List.
From RV Require Import Base.RB Gen.GenC10Triplet Gen.GenC10SetRep Model.LevyExponent Proofs.C10_Triplet.
Import ListNotations.
Open Scope R_scope.

Section SetRepGen.
Variables (INF : R) (m1 : R -> R -> R) (fv : bool).

(* ---- statement order: whatever the arguments (even numbers that code no representation), a raising call changes nothing *)
Theorem set_representation_gen_refused_unchanged a rep target :
  fst (set_representation_gen INF m1 fv a rep target) = true -> snd (set_representation_gen INF m1 fv a rep target) = (a, rep).
Proof.
  unfold set_representation_gen. destruct (negb (Reqb target rep)); [|simpl; discriminate].
  match goal with |- context [if ?c then (true, (a, rep)) else _] => destruct c end; simpl; [reflexivity | discriminate].
Qed.

(* ---- which calls raise *)
Lemma canonical_drift_raises_spec a r : canonical_drift_raises INF m1 fv a (rep_code r) = (rep_eqb r ZERO && negb fv)%bool.
Proof. unfold canonical_drift_raises. destruct r; rcode; cbv zeta; try reflexivity. destruct fv; reflexivity. Qed.
Lemma zero_drift_raises_spec a r : zero_drift_raises INF m1 fv a (rep_code r) = negb fv.
Proof. unfold zero_drift_raises. rewrite canonical_drift_raises_spec. destruct fv; simpl; [|reflexivity]. rewrite andb_false_r. reflexivity. Qed.
Lemma center_drift_raises_spec a r : center_drift_raises INF m1 fv a (rep_code r) = (rep_eqb r ZERO && negb fv)%bool.
Proof. unfold center_drift_raises. rewrite canonical_drift_raises_spec. destruct (rep_eqb r ZERO && negb fv)%bool; reflexivity. Qed.
Lemma tilde_drift_raises_spec a r : tilde_drift_raises INF m1 fv a (rep_code r) = (rep_eqb r ZERO && negb fv)%bool.
Proof. unfold tilde_drift_raises. rewrite canonical_drift_raises_spec. destruct (rep_eqb r ZERO && negb fv)%bool; reflexivity. Qed.

Definition valid_repb (r : Rep) : bool := (fv || negb (rep_eqb r ZERO))%bool.
Lemma valid_repb_spec r : valid_repb r = true <-> valid_rep fv r.
Proof.
  unfold valid_repb, valid_rep. destruct fv; simpl; [split; auto|].
  destruct r; simpl; split; intros H; try reflexivity; try discriminate; try (right; discriminate).
  destruct H as [H | H]; [discriminate | contradiction].
Qed.

Lemma Reqb_code r r' : Reqb (rep_code r') (rep_code r) = rep_eqb r' r.
Proof. destruct r, r'; rcode; reflexivity. Qed.

(* the generated transformer in terms of the hand model: refused (state unchanged) iff some representation involved is not admissible *)
Theorem set_representation_gen_spec r' t : valid_rep fv (t_rep t) ->
  set_representation_gen INF m1 fv (t_a t) (rep_code (t_rep t)) (rep_code r')
  = if valid_repb r' then (false, (t_a (set_representation INF m1 fv r' t), rep_code (t_rep (set_representation INF m1 fv r' t))))
    else (true, (t_a t, rep_code (t_rep t))).
Proof.
  intros Hv. apply valid_repb_spec in Hv. unfold valid_repb in *.
  unfold set_representation_gen, set_representation. rewrite Reqb_code.
  destruct t as [a r]. cbn [t_a t_rep] in *.
  destruct r', r; cbn [rep_eqb negb]; rcode;
    change (IZR 1) with (rep_code ZERO); change (IZR 2) with (rep_code CENTER); change (IZR 3) with (rep_code ONEONE);
    change (IZR 4) with (rep_code TILDE);
    rewrite ?canonical_drift_raises_spec, ?zero_drift_raises_spec, ?center_drift_raises_spec, ?tilde_drift_raises_spec;
    cbn [rep_eqb andb negb orb drift_in t_a t_rep]; destruct fv; cbn [negb orb andb] in *; try discriminate; try reflexivity.
Qed.

Corollary set_representation_gen_admissible r' t : valid_rep fv (t_rep t) -> valid_rep fv r' ->
  set_representation_gen INF m1 fv (t_a t) (rep_code (t_rep t)) (rep_code r')
  = (false, (t_a (set_representation INF m1 fv r' t), rep_code (t_rep (set_representation INF m1 fv r' t)))).
Proof. intros Ht Hr. rewrite set_representation_gen_spec by assumption. apply valid_repb_spec in Hr. rewrite Hr. reflexivity. Qed.
Corollary set_representation_gen_refused r' t : valid_rep fv (t_rep t) -> ~ valid_rep fv r' ->
  set_representation_gen INF m1 fv (t_a t) (rep_code (t_rep t)) (rep_code r') = (true, (t_a t, rep_code (t_rep t))).
Proof.
  intros Ht Hr. rewrite set_representation_gen_spec by assumption. destruct (valid_repb r') eqn:E; [|reflexivity].
  apply valid_repb_spec in E. contradiction.
Qed.

(* ---- sequences on ONE triplet object, the caller catching the exceptions: the state after each request is the second component *)
Definition state_of (t : Triplet) : R * R := (t_a t, rep_code (t_rep t)).
Fixpoint run_gen (rs : list Rep) (st : R * R) : R * R :=
  match rs with
  | nil => st
  | r :: rs' => run_gen rs' (snd (set_representation_gen INF m1 fv (fst st) (snd st) (rep_code r)))
  end.

Theorem run_gen_spec rs t : valid_rep fv (t_rep t) ->
  run_gen rs (state_of t) = state_of (set_representations INF m1 fv (filter valid_repb rs) t).
Proof.
  revert t. induction rs as [|r rs IH]; intros t Ht; [reflexivity|].
  cbn [run_gen filter]. unfold state_of at 1 2. cbn [fst snd]. rewrite set_representation_gen_spec by assumption.
  destruct (valid_repb r) eqn:E; cbn [snd set_representations].
  - apply (IH (set_representation INF m1 fv r t)). rewrite set_representation_rep. apply valid_repb_spec. exact E.
  - apply (IH t). exact Ht.
Qed.

Lemma Forall_filter_valid rs : Forall (valid_rep fv) (filter valid_repb rs).
Proof.
  induction rs as [|r rs IH]; simpl; [constructor|]. destruct (valid_repb r) eqn:E; [|exact IH].
  constructor; [apply valid_repb_spec; exact E | exact IH].
Qed.

(* path independence and reversibility WITH refused requests in the sequence: whatever was asked (and possibly refused) before, an
   admissible request r gives what it gives on the original triplet, and asking for the original representation restores (a, rep) *)
Theorem run_gen_path_independent rs r t : valid_rep fv (t_rep t) -> valid_rep fv r ->
  run_gen (rs ++ [r]) (state_of t) = state_of (set_representation INF m1 fv r t).
Proof.
  intros Ht Hr. rewrite run_gen_spec by assumption. rewrite filter_app. cbn [filter].
  apply valid_repb_spec in Hr as Hb. rewrite Hb.
  assert (E : forall l t0, set_representations INF m1 fv (l ++ [r]) t0 = set_representation INF m1 fv r (set_representations INF m1 fv l t0)).
  { induction l as [|x l IHl]; intros t0; simpl; [reflexivity | apply IHl]. }
  rewrite E. rewrite conversions_path_independent; [reflexivity | assumption | apply Forall_filter_valid | assumption].
Qed.
Theorem run_gen_reversible rs t : valid_rep fv (t_rep t) -> run_gen (rs ++ [t_rep t]) (state_of t) = state_of t.
Proof.
  intros Ht. rewrite run_gen_path_independent by assumption. unfold set_representation.
  replace (rep_eqb (t_rep t) (t_rep t)) with true; [reflexivity|]. symmetry. apply rep_eqb_true. reflexivity.
Qed.
(* closed form of the state after ANY sequence of requests (refused ones included): the last admissible request decides *)
Lemma last_cons (A : Type) (x : A) l d : last (x :: l) d = last l x.
Proof. revert x d. induction l as [|y l IH]; intros x d; [reflexivity|]. change (last (x :: y :: l) d) with (last (y :: l) d). rewrite !IH. reflexivity. Qed.
Lemma set_representations_rep l t : t_rep (set_representations INF m1 fv l t) = last l (t_rep t).
Proof.
  revert t. induction l as [|r l IH]; intros t; [reflexivity|]. cbn [set_representations]. rewrite IH, set_representation_rep, last_cons. reflexivity.
Qed.
Theorem run_gen_state rs t : valid_rep fv (t_rep t) ->
  run_gen rs (state_of t) =
  (of_canonical INF m1 fv (last (filter valid_repb rs) (t_rep t)) (canonical_of INF m1 fv t), rep_code (last (filter valid_repb rs) (t_rep t))).
Proof.
  intros Ht. rewrite run_gen_spec by assumption. unfold state_of.
  destruct (set_representations_canonical INF m1 fv (filter valid_repb rs) t Ht (Forall_filter_valid rs)) as [E V].
  rewrite <- (set_representations_rep (filter valid_repb rs) t). f_equal.
  rewrite <- E. unfold canonical_of. symmetry. apply of_to_canonical.
Qed.
(* the first cumulant (mean rate) read off the state: center drift = canonical drift + tail first moments; unchanged by every request,
   refused or not *)
Theorem run_gen_center_drift rs t : valid_rep fv (t_rep t) ->
  canonical_of INF m1 fv (set_representations INF m1 fv (filter valid_repb rs) t) = canonical_of INF m1 fv t.
Proof. intros Ht. apply set_representations_canonical; [assumption | apply Forall_filter_valid]. Qed.
End SetRepGen.

(* non-vacuity: infinite variation, CENTER; ZERO is refused (state unchanged), then TILDE is granted *)
Example set_representation_gen_example INF m1 :
  set_representation_gen INF m1 false 5 (rep_code CENTER) (rep_code ZERO) = (true, (5, rep_code CENTER)) /\
  run_gen INF m1 false [ZERO; TILDE] (state_of (mkTriplet 5 CENTER)) = (5 - (m1 (- INF) (-1) + m1 1 INF), rep_code TILDE).
Proof.
  split.
  - apply (set_representation_gen_refused INF m1 false ZERO (mkTriplet 5 CENTER)).
    + right; discriminate.
    + intros [H | H]; [discriminate | apply H; reflexivity].
  - rewrite run_gen_spec by (right; discriminate). cbn [filter valid_repb rep_eqb orb negb set_representations].
    unfold state_of. rewrite set_representation_rep, set_representation_a by (right; discriminate).
    unfold canonical_of, to_canonical, of_canonical, Tails. cbn [t_a t_rep]. repeat f_equal; try ring.
Qed.

(* C10 -- LevyTriplet drift conversions: path independence and reversibility.
   canonical_drift / zero_drift / center_drift / tilde_drift are the py2coq-generated definitions (Gen.GenC10Triplet). *)
From Coq Require Import Reals Lra Bool List.
From RV Require Import Base.RB Gen.GenC10Triplet Model.LevyExponent.
Import ListNotations.
Open Scope R_scope.

Lemma Reqb_IZR_true n : Reqb (IZR n) (IZR n) = true.
Proof. unfold Reqb. destruct (Req_EM_T (IZR n) (IZR n)); [reflexivity | contradiction]. Qed.
Lemma Reqb_IZR_false n m : n <> m -> Reqb (IZR n) (IZR m) = false.
Proof. intros H. unfold Reqb. destruct (Req_EM_T (IZR n) (IZR m)) as [E | E]; [|reflexivity]. apply eq_IZR in E. contradiction. Qed.

Ltac rcode := unfold rep_code;
  repeat (rewrite Reqb_IZR_true || (rewrite Reqb_IZR_false by discriminate)); cbn [negb orb andb].

Section Conv.
Variables (INF : R) (m1 : R -> R -> R) (fv : bool).

(* the ZERO representation only exists for jumps of finite variation: the code raises ValueError otherwise
   (modelled as the value 0), so every statement carries this guard on the representations involved *)
Definition valid_rep (r : Rep) : Prop := fv = true \/ r <> ZERO.

(* the generated conversions compute what they are documented to compute *)
Lemma canonical_drift_spec a r : valid_rep r -> canonical_drift INF m1 fv a (rep_code r) = to_canonical INF m1 fv r a.
Proof.
  intros Hv. unfold canonical_drift, to_canonical, I11, Tails. destruct r; rcode; cbv zeta; try reflexivity.
  - destruct Hv as [-> | Hv]; [cbn; reflexivity | contradiction].
  - destruct fv; ring.
Qed.

Lemma drift_in_spec r' t : valid_rep r' -> valid_rep (t_rep t) ->
  drift_in INF m1 fv r' t = of_canonical INF m1 fv r' (to_canonical INF m1 fv (t_rep t) (t_a t)).
Proof.
  intros Hv' Hv.
  unfold drift_in, zero_drift, center_drift, tilde_drift. destruct r'; cbv zeta; rewrite ?canonical_drift_spec by assumption;
    unfold of_canonical, I11, Tails; try reflexivity; try ring.
  - destruct Hv' as [-> | Hv']; [cbn; ring | contradiction].
  - destruct fv; ring.
Qed.

(* infinite variation: asking for (or starting from) the ZERO representation is the modelled ValueError *)
Lemma zero_needs_finite_variation a r : fv = false ->
  zero_drift INF m1 fv a (rep_code r) = 0 /\ canonical_drift INF m1 fv a (rep_code ZERO) = 0.
Proof. intros ->. split; [unfold zero_drift; reflexivity | unfold canonical_drift; rcode; reflexivity]. Qed.

Lemma of_to_canonical r a : of_canonical INF m1 fv r (to_canonical INF m1 fv r a) = a.
Proof. unfold of_canonical, to_canonical. destruct r; try destruct fv; ring. Qed.
Lemma to_of_canonical r c : to_canonical INF m1 fv r (of_canonical INF m1 fv r c) = c.
Proof. unfold of_canonical, to_canonical. destruct r; try destruct fv; ring. Qed.

Definition canonical_of (t : Triplet) : R := to_canonical INF m1 fv (t_rep t) (t_a t).

Lemma rep_eqb_true r r' : rep_eqb r r' = true <-> r = r'.
Proof. destruct r, r'; simpl; split; intros H; try reflexivity; try discriminate. Qed.

(* a conversion never changes the canonical drift, and lands in the requested representation *)
Lemma set_representation_canonical r t : valid_rep r -> valid_rep (t_rep t) ->
  canonical_of (set_representation INF m1 fv r t) = canonical_of t.
Proof.
  intros Hr Ht. unfold set_representation. destruct (rep_eqb r (t_rep t)) eqn:E; [reflexivity|].
  unfold canonical_of. simpl. rewrite drift_in_spec by assumption. apply to_of_canonical.
Qed.
Lemma set_representation_rep r t : t_rep (set_representation INF m1 fv r t) = r.
Proof.
  unfold set_representation. destruct (rep_eqb r (t_rep t)) eqn:E; [|reflexivity].
  apply rep_eqb_true in E. symmetry. exact E.
Qed.
Lemma set_representation_a r t : valid_rep r -> valid_rep (t_rep t) ->
  t_a (set_representation INF m1 fv r t) = of_canonical INF m1 fv r (canonical_of t).
Proof.
  intros Hr Ht. unfold set_representation. destruct (rep_eqb r (t_rep t)) eqn:E.
  - apply rep_eqb_true in E. subst r. unfold canonical_of. symmetry. apply of_to_canonical.
  - simpl. apply drift_in_spec; assumption.
Qed.

Lemma triplet_ext t t' : t_a t = t_a t' -> t_rep t = t_rep t' -> t = t'.
Proof. destruct t, t'; simpl; intros -> ->; reflexivity. Qed.

(* any sequence of (admissible) representation changes followed by r gives what the direct change to r gives *)
Lemma set_representations_canonical rs t : valid_rep (t_rep t) -> Forall valid_rep rs ->
  canonical_of (set_representations INF m1 fv rs t) = canonical_of t /\ valid_rep (t_rep (set_representations INF m1 fv rs t)).
Proof.
  revert t. induction rs as [|r rs IH]; intros t Ht Hrs; simpl; [split; [reflexivity | assumption]|].
  inversion Hrs as [|? ? Hr Hrs']; subst.
  destruct (IH (set_representation INF m1 fv r t)) as [E V]; [rewrite set_representation_rep; assumption | assumption |].
  split; [|exact V]. rewrite E. apply set_representation_canonical; assumption.
Qed.

Theorem conversions_path_independent rs r t : valid_rep (t_rep t) -> Forall valid_rep rs -> valid_rep r ->
  set_representation INF m1 fv r (set_representations INF m1 fv rs t) = set_representation INF m1 fv r t.
Proof.
  intros Ht Hrs Hr. destruct (set_representations_canonical rs t Ht Hrs) as [E V].
  apply triplet_ext.
  - rewrite !set_representation_a by assumption. rewrite E. reflexivity.
  - rewrite !set_representation_rep. reflexivity.
Qed.

Theorem conversions_path_independent_3 r1 r2 r3 t : valid_rep (t_rep t) -> valid_rep r1 -> valid_rep r2 -> valid_rep r3 ->
  set_representation INF m1 fv r3 (set_representation INF m1 fv r2 (set_representation INF m1 fv r1 t))
  = set_representation INF m1 fv r3 t.
Proof. intros Ht H1 H2 H3. apply (conversions_path_independent [r1; r2] r3 t); auto. Qed.

(* reversible: coming back to the original representation restores the triplet (drift included) *)
Theorem conversions_reversible rs t : valid_rep (t_rep t) -> Forall valid_rep rs ->
  set_representation INF m1 fv (t_rep t) (set_representations INF m1 fv rs t) = t.
Proof.
  intros Ht Hrs. rewrite conversions_path_independent by assumption. unfold set_representation.
  replace (rep_eqb (t_rep t) (t_rep t)) with true; [reflexivity|].
  symmetry. apply rep_eqb_true. reflexivity.
Qed.
End Conv.

(* assembled statements for Properties/C10.v *)
Theorem set_representation_meaning INF m1 fv r t : valid_rep fv r -> valid_rep fv (t_rep t) ->
  t_rep (set_representation INF m1 fv r t) = r /\
  t_a (set_representation INF m1 fv r t) = of_canonical INF m1 fv r (to_canonical INF m1 fv (t_rep t) (t_a t)).
Proof. intros. split; [apply set_representation_rep | apply set_representation_a; assumption]. Qed.
Example conversions_example INF m1 :
  t_a (set_representation INF m1 true CENTER (set_representation INF m1 true ONEONE (mkTriplet 5 ZERO)))
  = 5 + m1 (-1) 1 + (m1 (- INF) (-1) + m1 1 INF).
Proof.
  assert (V : forall r, valid_rep true r) by (intros; left; reflexivity).
  rewrite set_representation_a, set_representation_canonical by apply V.
  unfold canonical_of, to_canonical, of_canonical, I11, Tails. simpl. ring.
Qed.
(* non-vacuity of the guard: without it the statement is false in the model (infinite variation, through ZERO) *)
Example conversions_need_guard : exists INF m1 t,
  set_representation INF m1 false CENTER (set_representation INF m1 false ZERO t) <> set_representation INF m1 false CENTER t.
Proof.
  exists 0, (fun _ _ => 1), (mkTriplet 5 ONEONE). unfold set_representation. cbn [t_rep rep_eqb t_a drift_in].
  intros E. apply (f_equal t_a) in E. cbn [t_a] in E.
  unfold center_drift, zero_drift, canonical_drift in E. cbn [negb] in E. revert E. rcode. cbv zeta. rcode. lra.
Qed.

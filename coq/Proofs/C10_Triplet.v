(* C10 -- LevyTriplet drift conversions: path independence and reversibility.
   canonical_drift / zero_drift / center_drift / tilde_drift are the py2coq-generated definitions (Gen.GenC10Triplet). *)
From Coq Require Import Reals Lra Bool List.
From RV Require Import Base.RB Gen.GenC10Triplet Model.LevyExponent.
Import ListNotations.
Open Scope R_scope.

Lemma Reqb_IZR_true n : Reqb (IZR n) (IZR n) = true.
Proof. unfold Reqb. destruct (Req_EM_T (IZR n) (IZR n)); [reflexivity | contradiction]. Qed.
Lemma Reqb_IZR_false n m : n <> m -> Reqb (IZR n) (IZR m) = false.
Proof. intros H. unfold Reqb. destruct (Req_EM_T (IZR n) (IZR m)) as [E | E]; [|reflexivity]. apply eq_IZR in E. contradiction. Qed.

Ltac rcode := unfold rep_code;
  repeat (rewrite Reqb_IZR_true || (rewrite Reqb_IZR_false by discriminate)); cbn [negb orb andb].

Section Conv.
Variables (INF : R) (m1 : R -> R -> R) (fv : bool).
Notation canon := (fun a r => canonical_drift INF m1 fv a (rep_code r)).

(* the generated conversions compute what they are documented to compute *)
Lemma canonical_drift_spec a r : canonical_drift INF m1 fv a (rep_code r) = to_canonical INF m1 fv r a.
Proof.
  unfold canonical_drift, to_canonical, I11, Tails. destruct r; rcode; cbv zeta; try reflexivity.
  destruct fv; ring.
Qed.

Lemma drift_in_spec r' t : drift_in INF m1 fv r' t = of_canonical INF m1 fv r' (to_canonical INF m1 fv (t_rep t) (t_a t)).
Proof.
  unfold drift_in, zero_drift, center_drift, tilde_drift. destruct r'; cbv zeta; rewrite ?canonical_drift_spec;
    unfold of_canonical, I11, Tails; try reflexivity; try ring.
  destruct fv; ring.
Qed.

Lemma of_to_canonical r a : of_canonical INF m1 fv r (to_canonical INF m1 fv r a) = a.
Proof. unfold of_canonical, to_canonical. destruct r; try destruct fv; ring. Qed.
Lemma to_of_canonical r c : to_canonical INF m1 fv r (of_canonical INF m1 fv r c) = c.
Proof. unfold of_canonical, to_canonical. destruct r; try destruct fv; ring. Qed.

Definition canonical_of (t : Triplet) : R := to_canonical INF m1 fv (t_rep t) (t_a t).

Lemma rep_eqb_true r r' : rep_eqb r r' = true <-> r = r'.
Proof. destruct r, r'; simpl; split; intros H; try reflexivity; try discriminate. Qed.

(* a conversion never changes the canonical drift, and lands in the requested representation *)
Lemma set_representation_canonical r t : canonical_of (set_representation INF m1 fv r t) = canonical_of t.
Proof.
  unfold set_representation. destruct (rep_eqb r (t_rep t)) eqn:E; [reflexivity|].
  unfold canonical_of. simpl. rewrite drift_in_spec. apply to_of_canonical.
Qed.
Lemma set_representation_rep r t : t_rep (set_representation INF m1 fv r t) = r.
Proof.
  unfold set_representation. destruct (rep_eqb r (t_rep t)) eqn:E; [|reflexivity].
  apply rep_eqb_true in E. symmetry. exact E.
Qed.
Lemma set_representation_a r t :
  t_a (set_representation INF m1 fv r t) = of_canonical INF m1 fv r (canonical_of t).
Proof.
  unfold set_representation. destruct (rep_eqb r (t_rep t)) eqn:E.
  - apply rep_eqb_true in E. subst r. unfold canonical_of. symmetry. apply of_to_canonical.
  - simpl. apply drift_in_spec.
Qed.

Lemma triplet_ext t t' : t_a t = t_a t' -> t_rep t = t_rep t' -> t = t'.
Proof. destruct t, t'; simpl; intros -> ->; reflexivity. Qed.

(* any sequence of representation changes followed by r gives what the direct change to r gives *)
Lemma set_representations_canonical rs t : canonical_of (set_representations INF m1 fv rs t) = canonical_of t.
Proof.
  revert t. induction rs as [|r rs IH]; intros t; simpl; [reflexivity|].
  rewrite IH. apply set_representation_canonical.
Qed.

Theorem conversions_path_independent rs r t :
  set_representation INF m1 fv r (set_representations INF m1 fv rs t) = set_representation INF m1 fv r t.
Proof.
  apply triplet_ext.
  - rewrite !set_representation_a. rewrite set_representations_canonical. reflexivity.
  - rewrite !set_representation_rep. reflexivity.
Qed.

Theorem conversions_path_independent_3 r1 r2 r3 t :
  set_representation INF m1 fv r3 (set_representation INF m1 fv r2 (set_representation INF m1 fv r1 t))
  = set_representation INF m1 fv r3 t.
Proof. exact (conversions_path_independent [r1; r2] r3 t). Qed.

(* reversible: coming back to the original representation restores the triplet (drift included) *)
Theorem conversions_reversible rs t :
  set_representation INF m1 fv (t_rep t) (set_representations INF m1 fv rs t) = t.
Proof.
  rewrite conversions_path_independent. unfold set_representation.
  replace (rep_eqb (t_rep t) (t_rep t)) with true; [reflexivity|].
  symmetry. apply rep_eqb_true. reflexivity.
Qed.
End Conv.

(* assembled statements for Properties/C10.v *)
Theorem set_representation_meaning INF m1 fv r t :
  t_rep (set_representation INF m1 fv r t) = r /\
  t_a (set_representation INF m1 fv r t) = of_canonical INF m1 fv r (to_canonical INF m1 fv (t_rep t) (t_a t)).
Proof. split; [apply set_representation_rep | apply set_representation_a]. Qed.
Example conversions_example INF m1 :
  t_a (set_representation INF m1 true CENTER (set_representation INF m1 true ONEONE (mkTriplet 5 ZERO)))
  = 5 + m1 (-1) 1 + (m1 (- INF) (-1) + m1 1 INF).
Proof. rewrite set_representation_a, set_representation_canonical. unfold canonical_of, to_canonical, of_canonical, I11, Tails. simpl. ring. Qed.

(* C10 (wave 6) -- Variance Gamma: the generated complex code of levy_exponent_pure_jump at the argument i u (u real) in closed
   form: the argument of numpy's complex log is z = A + i B with A = 1 + nu sigma^2 u^2 / 2 >= 1 (so the principal angle is
   atan(B/A)) and B = - theta nu u; Re = - ln|z| / nu, Im = - atan(B/A) / nu. *)
From Coq Require Import Reals Lra Psatz Bool.
From Coquelicot Require Import Coquelicot.
From RV Require Import Base.RB Base.CxPair Gen.GenC10Vg Gen.GenC10Cx Model.LevyExponent Model.LevyExponentCx Proofs.C10_VgLK Proofs.C10_HemCx.
Open Scope R_scope.

Definition vg_A (sigma nu u : R) : R := 1 + nu * sigma ^ 2 * u ^ 2 / 2.
Definition vg_B (nu theta u : R) : R := - (theta * nu * u).

Lemma vg_A_pos sigma nu u : 0 < nu -> 1 <= vg_A sigma nu u.
Proof. intros H. unfold vg_A. assert (0 <= nu * (sigma * u) ^ 2) by (apply Rmult_le_pos; [lra | apply pow2_ge_0]). nra. Qed.

Theorem vg_pj_c_parts sigma nu theta u : 0 < nu ->
  vg_pj_c sigma nu theta (Cmult Ci (RtoC u))
  = (- ln (sqrt (vg_A sigma nu u ^ 2 + vg_B nu theta u ^ 2)) / nu, - atan (vg_B nu theta u / vg_A sigma nu u) / nu).
Proof.
  intros Hnu. pose proof (vg_A_pos sigma nu u Hnu) as HA.
  unfold vg_pj_c. cbv beta iota zeta. rewrite Cpow_nat_2.
  set (z := Cminus _ _).
  assert (Hz : z = (vg_A sigma nu u, vg_B nu theta u)).
  { unfold z, vg_A, vg_B, Cmult, Cminus, Cplus, Copp, RtoC, Ci. simpl. f_equal; field. }
  rewrite Hz. unfold Cln_code, Cmod. simpl fst. simpl snd. rewrite atan2_pos by lra.
  unfold Cdiv, Cinv, Cmult, Copp, RtoC. simpl. f_equal; field; lra.
Qed.


(* ---------------------------------------------------------------- the modulus in the constants of the Levy density:
   |z|^2 = (1 + u^2/lambda_p^2)(1 + u^2/lambda_m^2), so Re = -(c/2) ln(1 + u^2/lambda_m^2) - (c/2) ln(1 + u^2/lambda_p^2), the closed forms of the
   integrals of (cos(u x) - 1) vg_nu over the two half-lines (the integral identities themselves are NOT proved here) *)
Lemma ln_sqrt_half x : 0 < x -> ln (sqrt x) = ln x / 2.
Proof.
  intros Hx. assert (Hs : 0 < sqrt x) by (apply sqrt_lt_R0; assumption).
  assert (E : ln x = ln (sqrt x) + ln (sqrt x)).
  { rewrite <- ln_mult by assumption. rewrite sqrt_sqrt by lra. reflexivity. }
  lra.
Qed.

Section VgMod.
Variables sigma nu theta u : R.
Hypothesis Hsig : 0 < sigma.
Hypothesis Hnu : 0 < nu.
Let lp := vg_init_lambda_p sigma nu theta.
Let lm := vg_init_lambda_m sigma nu theta.

Lemma vg_modulus : vg_A sigma nu u ^ 2 + vg_B nu theta u ^ 2 = (1 + u ^ 2 / lp ^ 2) * (1 + u ^ 2 / lm ^ 2).
Proof.
  pose proof (vg_lp_pos sigma nu theta Hsig Hnu) as Hlp. pose proof (vg_lm_pos sigma nu theta Hsig Hnu) as Hlm.
  pose proof (vg_lplm sigma nu theta Hsig Hnu) as HP. pose proof (vg_lm_lp sigma nu theta Hsig) as HD.
  fold lp in Hlp, HP, HD. fold lm in Hlm, HP, HD.
  replace ((1 + u ^ 2 / lp ^ 2) * (1 + u ^ 2 / lm ^ 2))
    with (1 + u ^ 2 * ((lm - lp) ^ 2 + 2 * (lp * lm)) / (lp * lm) ^ 2 + u ^ 4 / (lp * lm) ^ 2) by (field; lra).
  rewrite HP, HD. unfold vg_A, vg_B. field. lra.
Qed.

(* the real part of the generated complex exponent at i u in the constants of the Levy measure *)
Theorem vg_pj_c_re : Cre (vg_pj_c sigma nu theta (Cmult Ci (RtoC u)))
  = - (/ nu / 2) * ln (1 + u ^ 2 / lp ^ 2) + - (/ nu / 2) * ln (1 + u ^ 2 / lm ^ 2).
Proof.
  pose proof (vg_lp_pos sigma nu theta Hsig Hnu) as Hlp. pose proof (vg_lm_pos sigma nu theta Hsig Hnu) as Hlm.
  fold lp in Hlp. fold lm in Hlm.
  assert (H1 : 0 < 1 + u ^ 2 / lp ^ 2).
  { assert (0 <= u ^ 2 / lp ^ 2) by (apply Rmult_le_pos; [apply pow2_ge_0 | left; apply Rinv_0_lt_compat; nra]). lra. }
  assert (H2 : 0 < 1 + u ^ 2 / lm ^ 2).
  { assert (0 <= u ^ 2 / lm ^ 2) by (apply Rmult_le_pos; [apply pow2_ge_0 | left; apply Rinv_0_lt_compat; nra]). lra. }
  rewrite vg_pj_c_parts by assumption. unfold Cre, fst. rewrite vg_modulus.
  rewrite ln_sqrt_half by (apply Rmult_lt_0_compat; assumption). rewrite ln_mult by assumption. field. lra.
Qed.
End VgMod.

(* assembled: in the generated constants c, lambda_p, lambda_m of VGParameters (the constants of the Levy density) *)
Theorem vg_char_exponent_re sigma nu theta u : 0 < sigma -> 0 < nu ->
  let c := vg_init_c sigma nu theta in let lm := vg_init_lambda_m sigma nu theta in let lp := vg_init_lambda_p sigma nu theta in
  0 < lp /\ 0 < lm /\
  vg_A sigma nu u ^ 2 + vg_B nu theta u ^ 2 = (1 + u ^ 2 / lp ^ 2) * (1 + u ^ 2 / lm ^ 2) /\
  Cre (vg_pj_c sigma nu theta (Cmult Ci (RtoC u))) = - (c / 2) * ln (1 + u ^ 2 / lm ^ 2) + - (c / 2) * ln (1 + u ^ 2 / lp ^ 2).
Proof.
  intros Hs Hn c lm lp. repeat split.
  - apply vg_lp_pos; assumption.
  - apply vg_lm_pos; assumption.
  - apply vg_modulus; assumption.
  - rewrite (vg_pj_c_re sigma nu theta u Hs Hn). unfold c, vg_init_c, lm, lp. cbv zeta. field. lra.
Qed.

(* C10 -- Variance Gamma: the pure-jump exponent IS the Levy-Khintchine integral of the model's own density in the declared
   (ZERO) representation, on the whole strip -lambda_m < s < lambda_p of the real axis.  The integrand (e^{s x} - 1) c e^{-lp x} / x
   is singular at 0 and the half-line is unbounded: the improper integral is Coquelicot's is_RInt_gen with the filters
   at_right 0 / Rbar_locally p_infty (resp. m_infty / at_left 0).  Genuine proof (no hypothesis on special functions): FRULLANI --
     int_a^b (e^{-A x} - e^{-B x}) / x dx = G(a) - G(b),   G(x) = int_{A x}^{B x} e^{-u}/u du   (substitution + Chasles),
     e^{-B x} ln(B/A) <= G(x) <= e^{-A x} ln(B/A)           (monotonicity of the integral),
   hence G(a) -> ln(B/A) (a -> 0+) and G(b) -> 0 (b -> +oo) with explicit rates.
   The density vg_nu is the py2coq translation of _VGLevyMeasure.__call__ (Gen.GenC09Vg), the exponent vg_pj that of
   VarianceGammaModel.levy_exponent_pure_jump, and the constants c, lambda_p, lambda_m those of VGParameters.__init__ /
   VGParameters.initialisation (Gen.GenC10Vg). *)
From Coq Require Import Reals Lra Psatz Bool.
From Coquelicot Require Import Coquelicot.
From RV Require Import Base.RB Base.RSpecial Gen.GenC09Vg Gen.GenC10Vg Gen.GenC10Triplet Model.LevyClosedForms Model.LevyExponent
  Proofs.C09_Generic Proofs.C09_HemHalf Proofs.C09_Vg.
Open Scope R_scope.

(* ------------------------------------------------------------------ Frullani *)

Lemma is_RInt_inv_scal k x y : 0 < x -> 0 < y -> is_RInt (fun u => k / u) x y (k * ln (y / x)).
Proof.
  intros Hx Hy.
  replace (k * ln (y / x)) with (k * ln y - k * ln x).
  2:{ unfold Rdiv. rewrite ln_mult, ln_Rinv by (try apply Rinv_0_lt_compat; lra). ring. }
  apply (is_RInt_derive_R (fun u => k * ln u)).
  - intros u Hu. assert (0 < Rmin x y) by (apply Rmin_pos; assumption). auto_derive; [lra | field; lra].
  - intros u Hu. assert (0 < Rmin x y) by (apply Rmin_pos; assumption).
    apply (continuous_scal_r k (fun u => / u)). apply continuous_Rinv_comp. apply continuous_id. lra.
Qed.

Lemma e1f_sandwich_le x y : 0 < x -> x <= y -> exp (- y) * ln (y / x) <= RInt e1f x y <= exp (- x) * ln (y / x).
Proof.
  intros Hx Hxy. assert (Hy : 0 < y) by lra. split.
  - rewrite <- (is_RInt_unique _ _ _ _ (is_RInt_inv_scal (exp (- y)) x y Hx Hy)).
    apply RInt_le; [assumption | eexists; apply is_RInt_inv_scal; assumption | apply e1f_ex_RInt; assumption |].
    intros u Hu. unfold e1f. apply Rmult_le_compat_r; [left; apply Rinv_0_lt_compat; lra|].
    destruct (Req_dec u y) as [->|N]; [lra|]. left. apply exp_increasing. lra.
  - rewrite <- (is_RInt_unique _ _ _ _ (is_RInt_inv_scal (exp (- x)) x y Hx Hy)).
    apply RInt_le; [assumption | apply e1f_ex_RInt; assumption | eexists; apply is_RInt_inv_scal; assumption |].
    intros u Hu. unfold e1f. apply Rmult_le_compat_r; [left; apply Rinv_0_lt_compat; lra|].
    left. apply exp_increasing. lra.
Qed.

Lemma e1f_sandwich x y : 0 < x -> 0 < y -> exp (- y) * ln (y / x) <= RInt e1f x y <= exp (- x) * ln (y / x).
Proof.
  intros Hx Hy. destruct (Rle_dec x y) as [H|H]; [apply e1f_sandwich_le; assumption|].
  assert (Hyx : y <= x) by lra.
  destruct (e1f_sandwich_le y x Hy Hyx) as [L U].
  assert (E : ln (x / y) = - ln (y / x)).
  { unfold Rdiv. rewrite !ln_mult, !ln_Rinv by (try apply Rinv_0_lt_compat; lra). ring. }
  rewrite <- (opp_RInt_swap e1f y x) by (apply e1f_ex_RInt; assumption). unfold opp; simpl.
  rewrite E in L, U. split; nra.
Qed.

(* G x = int_{A x}^{B x} exp(-u)/u du *)
Definition Gfr (A B x : R) : R := RInt e1f (A * x) (B * x).

Lemma exp_m_lin t : 0 <= t -> 0 <= 1 - exp (- t) <= t.
Proof.
  intros Ht. split.
  - assert (exp (- t) <= exp 0) by (destruct (Req_dec t 0) as [->|N]; [rewrite Ropp_0; lra | left; apply exp_increasing; lra]).
    rewrite exp_0 in H. lra.
  - pose proof (exp_ineq1_le (- t)). lra.
Qed.
Lemma exp_m_inv t : 0 < t -> 0 < exp (- t) < / t.
Proof.
  intros Ht. split; [apply exp_pos|]. rewrite exp_Ropp. apply Rinv_lt_contravar.
  - apply Rmult_lt_0_compat; [lra | apply exp_pos].
  - pose proof (exp_ineq1 t). lra.
Qed.

Lemma Gfr_small A B x : 0 < A -> 0 < B -> 0 < x -> Rabs (Gfr A B x - ln (B / A)) <= Rabs (ln (B / A)) * ((A + B) * x).
Proof.
  intros HA HB Hx. unfold Gfr.
  assert (HAx : 0 < A * x) by nra. assert (HBx : 0 < B * x) by nra.
  destruct (e1f_sandwich (A * x) (B * x) HAx HBx) as [L U].
  replace (B * x / (A * x)) with (B / A) in L, U by (field; lra).
  set (l := ln (B / A)) in *. set (G := RInt e1f (A * x) (B * x)) in *.
  destruct (exp_m_lin (A * x)) as [a1 a2]; [lra|]. destruct (exp_m_lin (B * x)) as [b1 b2]; [lra|].
  unfold Rabs. destruct (Rcase_abs (G - l)); destruct (Rcase_abs l); nra.
Qed.
Lemma Gfr_large A B x : 0 < A -> 0 < B -> 0 < x -> Rabs (Gfr A B x) <= Rabs (ln (B / A)) * ((/ A + / B) / x).
Proof.
  intros HA HB Hx. unfold Gfr.
  assert (HAx : 0 < A * x) by nra. assert (HBx : 0 < B * x) by nra.
  destruct (e1f_sandwich (A * x) (B * x) HAx HBx) as [L U].
  replace (B * x / (A * x)) with (B / A) in L, U by (field; lra).
  set (l := ln (B / A)) in *. set (G := RInt e1f (A * x) (B * x)) in *.
  destruct (exp_m_inv (A * x) HAx) as [a1 a2]. destruct (exp_m_inv (B * x) HBx) as [b1 b2].
  replace ((/ A + / B) / x) with (/ (A * x) + / (B * x)) by (field; lra).
  unfold Rabs. destruct (Rcase_abs G); destruct (Rcase_abs l); nra.
Qed.

Lemma Gfr_chasles A B a b : 0 < A -> 0 < B -> 0 < a -> 0 < b ->
  RInt e1f (A * a) (A * b) - RInt e1f (B * a) (B * b) = Gfr A B a - Gfr A B b.
Proof.
  intros HA HB Ha Hb. unfold Gfr.
  assert (P : forall u v, 0 < u -> 0 < v -> 0 < u * v) by (intros; nra).
  assert (H1 := RInt_Chasles e1f (A * a) (B * a) (B * b) (e1f_ex_RInt _ _ (P _ _ HA Ha) (P _ _ HB Ha)) (e1f_ex_RInt _ _ (P _ _ HB Ha) (P _ _ HB Hb))).
  assert (H2 := RInt_Chasles e1f (A * a) (A * b) (B * b) (e1f_ex_RInt _ _ (P _ _ HA Ha) (P _ _ HA Hb)) (e1f_ex_RInt _ _ (P _ _ HA Hb) (P _ _ HB Hb))).
  unfold plus in H1, H2; simpl in H1, H2. lra.
Qed.

Lemma frullani_core c A B : 0 < A -> 0 < B -> forall eps : R, 0 < eps -> exists d T0, 0 < d /\ d <= T0 /\
  forall e T, 0 < e < d -> T0 < T -> Rabs (c * (Gfr A B e - Gfr A B T) - c * ln (B / A)) < eps.
Proof.
  intros HA HB eps Heps. set (K := Rabs c * Rabs (ln (B / A))).
  assert (HK : 0 <= K) by (apply Rmult_le_pos; apply Rabs_pos).
  assert (HiA : 0 < / A) by (apply Rinv_0_lt_compat; lra). assert (HiB : 0 < / B) by (apply Rinv_0_lt_compat; lra).
  set (K1 := K * (A + B) + 1). set (K2 := K * (/ A + / B) + 1).
  assert (HK1 : 0 < K1) by (unfold K1; nra). assert (HK2 : 0 < K2) by (unfold K2; nra).
  set (d := eps / (2 * K1)). assert (Hd : 0 < d) by (apply Rdiv_lt_0_compat; lra).
  assert (HT : 0 < 2 * K2 / eps) by (apply Rdiv_lt_0_compat; lra).
  exists d, (2 * K2 / eps + d). split; [assumption|]. split; [lra|].
  intros e T He HTT. assert (HTpos : 0 < T) by lra.
  replace (c * (Gfr A B e - Gfr A B T) - c * ln (B / A)) with (c * ((Gfr A B e - ln (B / A)) - Gfr A B T)) by ring.
  rewrite Rabs_mult.
  pose proof (Gfr_small A B e HA HB (proj1 He)) as S1. pose proof (Gfr_large A B T HA HB HTpos) as S2.
  pose proof (Rabs_triang (Gfr A B e - ln (B / A)) (- Gfr A B T)) as Tr. rewrite Rabs_Ropp in Tr.
  unfold Rminus at 1.
  assert (E1 : K * (A + B) * e < eps / 2).
  { apply Rle_lt_trans with (K1 * e); [unfold K1; nra|]. apply Rlt_le_trans with (K1 * d); [nra|]. unfold d. right. field. lra. }
  assert (E2 : K * (/ A + / B) / T < eps / 2).
  { apply Rle_lt_trans with (K2 / T).
    - unfold Rdiv. apply Rmult_le_compat_r; [left; apply Rinv_0_lt_compat; lra | unfold K2; lra].
    - apply Rmult_lt_reg_r with T; [lra|]. unfold Rdiv. rewrite Rmult_assoc, Rinv_l by lra.
      assert (2 * K2 / eps * eps = 2 * K2) by (field; lra). nra. }
  pose proof (Rabs_pos c) as Hc.
  assert (B1 : Rabs c * Rabs (Gfr A B e - ln (B / A)) <= K * (A + B) * e).
  { unfold K. rewrite !Rmult_assoc. apply Rmult_le_compat_l; [assumption|]. lra. }
  assert (B2 : Rabs c * Rabs (Gfr A B T) <= K * (/ A + / B) / T).
  { unfold K, Rdiv. rewrite !Rmult_assoc. apply Rmult_le_compat_l; [assumption|]. unfold Rdiv in S2. lra. }
  assert (Rabs c * Rabs (Gfr A B e - ln (B / A) + - Gfr A B T) <= Rabs c * (Rabs (Gfr A B e - ln (B / A)) + Rabs (Gfr A B T)))
    by (apply Rmult_le_compat_l; assumption).
  lra.
Qed.


Section VgLK.
Variables c lm lp s : R.
Hypothesis Hlm : 0 < lm.
Hypothesis Hlp : 0 < lp.
Hypothesis Hs : - lm < s < lp.

Definition lk_vg (x : R) : R := lk_integrand ZERO true s x * vg_nu c lm lp x.

Lemma lk_vg_pos_RInt a b : 0 < a -> a <= b -> is_RInt lk_vg a b (c * (Gfr (lp - s) lp a - Gfr (lp - s) lp b)).
Proof.
  intros Ha Hab. rewrite <- Gfr_chasles by lra.
  apply is_RInt_ext_R with (f := fun x => x ^ 0 * vg_nu c lm (lp - s) x - x ^ 0 * vg_nu c lm lp x).
  { intros x Hx. rewrite Rmin_left, Rmax_right in Hx by assumption. unfold lk_vg, lk_integrand, h_rep. rewrite !vg_nu_pos by lra.
    replace (- (lp - s) * x) with (s * x + - lp * x) by ring. rewrite exp_plus. simpl. field. lra. }
  replace (c * (RInt e1f ((lp - s) * a) ((lp - s) * b) - RInt e1f (lp * a) (lp * b)))
    with (c * RInt e1f ((lp - s) * a) ((lp - s) * b) - c * RInt e1f (lp * a) (lp * b)) by ring.
  apply (is_RInt_minus (fun x => x ^ 0 * vg_nu c lm (lp - s) x) (fun x => x ^ 0 * vg_nu c lm lp x) a b).
  - apply is_RInt_vg_mass_pos; lra.
  - apply is_RInt_vg_mass_pos; lra.
Qed.
Lemma lk_vg_neg_RInt a b : a <= b -> b < 0 -> is_RInt lk_vg a b (c * (Gfr (lm + s) lm (- b) - Gfr (lm + s) lm (- a))).
Proof.
  intros Hab Hb. rewrite <- Gfr_chasles by lra.
  apply is_RInt_ext_R with (f := fun x => x ^ 0 * vg_nu c (lm + s) lp x - x ^ 0 * vg_nu c lm lp x).
  { intros x Hx. rewrite Rmin_left, Rmax_right in Hx by assumption. unfold lk_vg, lk_integrand, h_rep. rewrite !vg_nu_neg by lra.
    replace ((lm + s) * x) with (s * x + lm * x) by ring. rewrite exp_plus. simpl. field. lra. }
  replace (c * (RInt e1f ((lm + s) * - b) ((lm + s) * - a) - RInt e1f (lm * - b) (lm * - a)))
    with (c * RInt e1f (- (lm + s) * b) (- (lm + s) * a) - c * RInt e1f (- lm * b) (- lm * a)).
  2:{ replace ((lm + s) * - b) with (- (lm + s) * b) by ring. replace ((lm + s) * - a) with (- (lm + s) * a) by ring.
      replace (lm * - b) with (- lm * b) by ring. replace (lm * - a) with (- lm * a) by ring. ring. }
  apply (is_RInt_minus (fun x => x ^ 0 * vg_nu c (lm + s) lp x) (fun x => x ^ 0 * vg_nu c lm lp x) a b).
  - apply is_RInt_vg_mass_neg; lra.
  - apply is_RInt_vg_mass_neg; lra.
Qed.

Definition VLp : R := c * ln (lp / (lp - s)).
Definition VLn : R := c * ln (lm / (lm + s)).

Theorem vg_LK_right : is_RInt_gen lk_vg (at_right 0) (Rbar_locally p_infty) VLp.
Proof.
  intros P [eps HP].
  destruct (frullani_core c (lp - s) lp ltac:(lra) Hlp eps (cond_pos eps)) as (d & T0 & Hd & HdT & Hb).
  apply (Filter_prod _ _ _ (fun e => 0 < e < d) (fun T => T0 < T)).
  - exists (mkposreal d Hd). intros y Hy Hy0. unfold ball in Hy; simpl in Hy. unfold AbsRing_ball, abs, minus, plus, opp in Hy; simpl in Hy.
    apply Rabs_def2 in Hy. simpl in *. lra.
  - exists T0. intros x Hx. exact Hx.
  - intros e T He HT. simpl. exists (c * (Gfr (lp - s) lp e - Gfr (lp - s) lp T)). split.
    + apply lk_vg_pos_RInt; lra.
    + apply HP. unfold ball; simpl. unfold AbsRing_ball, abs, minus, plus, opp; simpl. apply (Hb e T He HT).
Qed.
Theorem vg_LK_left : is_RInt_gen lk_vg (Rbar_locally m_infty) (at_left 0) VLn.
Proof.
  intros P [eps HP].
  destruct (frullani_core c (lm + s) lm ltac:(lra) Hlm eps (cond_pos eps)) as (d & T0 & Hd & HdT & Hb).
  apply (Filter_prod _ _ _ (fun a => a < - T0) (fun b => - d < b < 0)).
  - exists (- T0). intros x Hx. exact Hx.
  - exists (mkposreal d Hd). intros y Hy Hy0. unfold ball in Hy; simpl in Hy. unfold AbsRing_ball, abs, minus, plus, opp in Hy; simpl in Hy.
    apply Rabs_def2 in Hy. simpl in *. lra.
  - intros a b Ha Hbb. simpl. exists (c * (Gfr (lm + s) lm (- b) - Gfr (lm + s) lm (- a))). split.
    + apply lk_vg_neg_RInt; lra.
    + apply HP. unfold ball; simpl. unfold AbsRing_ball, abs, minus, plus, opp; simpl. apply (Hb (- b) (- a)); lra.
Qed.
End VgLK.

(* ------------------------------------------------------------------ the generated constants of VGParameters *)

Section VgConst.
Variables sigma nu theta : R.
Hypothesis Hsig : 0 < sigma.
Hypothesis Hnu : 0 < nu.
Let lp := vg_init_lambda_p sigma nu theta.
Let lm := vg_init_lambda_m sigma nu theta.
Let D := theta ^ 2 + 2 * sigma ^ 2 / nu.

Lemma vgD_pos : theta ^ 2 < D.
Proof. unfold D. assert (0 < 2 * sigma ^ 2 / nu) by (apply Rdiv_lt_0_compat; nra). lra. Qed.
Lemma vg_sqrtD : Rabs theta < sqrt D.
Proof.
  rewrite <- sqrt_Rsqr_abs. apply sqrt_lt_1; [apply Rle_0_sqr | | ].
  - pose proof vgD_pos. pose proof (pow2_ge_0 theta). lra.
  - unfold Rsqr. pose proof vgD_pos. lra.
Qed.
Lemma vg_lp_eq : lp = (sqrt D - theta) / sigma ^ 2.
Proof. unfold lp, vg_init_lambda_p, D. cbv zeta. field. lra. Qed.
Lemma vg_lm_eq : lm = (sqrt D + theta) / sigma ^ 2.
Proof. unfold lm, vg_init_lambda_m, D. cbv zeta. field. lra. Qed.
Lemma vg_lp_pos : 0 < lp.
Proof. rewrite vg_lp_eq. apply Rdiv_lt_0_compat; [|nra]. pose proof vg_sqrtD. pose proof (Rle_abs theta). lra. Qed.
Lemma vg_lm_pos : 0 < lm.
Proof. rewrite vg_lm_eq. apply Rdiv_lt_0_compat; [|nra]. pose proof vg_sqrtD. pose proof (Rle_abs (- theta)). rewrite Rabs_Ropp in H0. lra. Qed.
Lemma vg_lplm : lp * lm = 2 / (nu * sigma ^ 2).
Proof.
  rewrite vg_lp_eq, vg_lm_eq.
  assert (S : sqrt D * sqrt D = D) by (apply sqrt_sqrt; pose proof vgD_pos; pose proof (pow2_ge_0 theta); lra).
  replace ((sqrt D - theta) / sigma ^ 2 * ((sqrt D + theta) / sigma ^ 2)) with ((sqrt D * sqrt D - theta ^ 2) / (sigma ^ 2 * sigma ^ 2)) by (field; lra).
  rewrite S. unfold D. field. split; lra.
Qed.
Lemma vg_lm_lp : lm - lp = 2 * theta / sigma ^ 2.
Proof. rewrite vg_lp_eq, vg_lm_eq. field. lra. Qed.

Lemma vg_pj_is_LK s : - lm < s < lp ->
  vg_pj sigma nu theta s = vg_init_c sigma nu theta * ln (lm / (lm + s)) + vg_init_c sigma nu theta * ln (lp / (lp - s)).
Proof.
  intros Hs. pose proof vg_lp_pos as Hp. pose proof vg_lm_pos as Hm.
  unfold vg_pj, vg_init_c. cbv zeta.
  rewrite <- Rmult_plus_distr_l, <- ln_mult by (apply Rdiv_lt_0_compat; lra).
  replace (lm / (lm + s) * (lp / (lp - s))) with (/ ((lm + s) * (lp - s) / (lp * lm))) by (field; repeat split; lra).
  rewrite ln_Rinv by (apply Rdiv_lt_0_compat; nra).
  replace ((lm + s) * (lp - s) / (lp * lm)) with (1 - (lm - lp) * s / (lp * lm) - s ^ 2 / (lp * lm)) by (field; split; lra).
  rewrite vg_lplm, vg_lm_lp.
  replace (1 - 2 * theta / sigma ^ 2 * s / (2 / (nu * sigma ^ 2)) - s ^ 2 / (2 / (nu * sigma ^ 2)))
    with (1 / 1 - 1 / 2 * nu * (s * sigma) ^ 2 - theta * nu * s) by (field; split; lra).
  field. lra.
Qed.
End VgConst.

(* ------------------------------------------------------------------ assembled statements for Properties/C10.v *)
Theorem vg_exponent_is_LK sigma nu theta s : 0 < sigma -> 0 < nu ->
  let c := vg_init_c sigma nu theta in let lm := vg_init_lambda_m sigma nu theta in let lp := vg_init_lambda_p sigma nu theta in
  - lm < s < lp ->
  is_RInt_gen (fun x => lk_integrand ZERO true s x * vg_nu c lm lp x) (Rbar_locally m_infty) (at_left 0) (VLn c lm s) /\
  is_RInt_gen (fun x => lk_integrand ZERO true s x * vg_nu c lm lp x) (at_right 0) (Rbar_locally p_infty) (VLp c lp s) /\
  vg_pj sigma nu theta s = VLn c lm s + VLp c lp s.
Proof.
  intros Hsig Hnu c lm lp Hs.
  pose proof (vg_lp_pos sigma nu theta Hsig Hnu) as Hp. pose proof (vg_lm_pos sigma nu theta Hsig Hnu) as Hm.
  repeat split.
  - apply vg_LK_left; assumption.
  - apply vg_LK_right; assumption.
  - unfold VLn, VLp. apply vg_pj_is_LK; assumption.
Qed.

(* the constants as VGParameters.initialisation() re-derives them (calibration sequence) are those of __init__ *)
Lemma vg_reinit_is_init sigma nu theta :
  vg_reinit_c sigma nu theta = vg_init_c sigma nu theta /\
  vg_reinit_lambda_p sigma nu theta = vg_init_lambda_p sigma nu theta /\
  vg_reinit_lambda_m sigma nu theta = vg_init_lambda_m sigma nu theta.
Proof. repeat split. Qed.

(* ------------------------------------------------------------------ the NON-exponential VG model simulated directly
   (LevyModel.process_drift = levy_triplet.a = 0, declared ZERO: jumps not compensated): the mean rate
   process_drift + int x nu(dx) is cumulant1(1) = theta; the first moment is the limit of the integrals of x * vg_nu. *)
Section VgMean.
Variables sigma nu theta : R.
Hypothesis Hsig : 0 < sigma.
Hypothesis Hnu : 0 < nu.
Let c := vg_init_c sigma nu theta.
Let lm := vg_init_lambda_m sigma nu theta.
Let lp := vg_init_lambda_p sigma nu theta.

Lemma vg_mean_right : is_lim (fun b => RInt (fun x => x ^ 1 * vg_nu c lm lp x) 0 b) p_infty (c / lp).
Proof.
  pose proof (vg_lp_pos sigma nu theta Hsig Hnu) as Hp. fold lp in Hp.
  apply is_lim_ext_loc with (f := fun b => c / lp * (1 - exp (- lp * b))).
  { exists 0. intros b Hb. symmetry. apply is_RInt_unique.
    replace (c / lp * (1 - exp (- lp * b))) with (c * (exp (- lp * 0) - exp (- lp * b)) / lp)
      by (replace (- lp * 0) with 0 by ring; rewrite exp_0; field; lra).
    apply (is_RInt_vg_x_pos c lm lp); lra. }
  assert (L := lim_K_minus (c / lp) 1 (fun b => exp (- lp * b)) p_infty (lim_exp_p lp Hp)). rewrite Rmult_1_r in L. exact L.
Qed.
Lemma vg_mean_left : is_lim (fun a => RInt (fun x => x ^ 1 * vg_nu c lm lp x) a 0) m_infty (- c / lm).
Proof.
  pose proof (vg_lm_pos sigma nu theta Hsig Hnu) as Hm. fold lm in Hm.
  apply is_lim_ext_loc with (f := fun a => - c / lm * (1 - exp (lm * a))).
  { exists 0. intros a Ha. symmetry. apply is_RInt_unique.
    replace (- c / lm * (1 - exp (lm * a))) with (c * (exp (lm * a) - exp (lm * 0)) / lm)
      by (replace (lm * 0) with 0 by ring; rewrite exp_0; field; lra).
    apply (is_RInt_vg_x_neg c lm lp); lra. }
  assert (L := lim_K_minus (- c / lm) 1 (fun a => exp (lm * a)) m_infty (lim_exp_m lm Hm)). rewrite Rmult_1_r in L. exact L.
Qed.
Lemma vg_mean_rate : levy_process_drift 0 + (- c / lm + c / lp) = vg_cumulant1 0 sigma nu theta 1.
Proof.
  pose proof (vg_lp_pos sigma nu theta Hsig Hnu) as Hp. pose proof (vg_lm_pos sigma nu theta Hsig Hnu) as Hm.
  pose proof (vg_lplm sigma nu theta Hsig Hnu) as E1. pose proof (vg_lm_lp sigma nu theta Hsig) as E2.
  fold lp in Hp, E1, E2. fold lm in Hm, E1, E2.
  unfold levy_process_drift, vg_cumulant1.
  replace (- c / lm + c / lp) with (c * (lm - lp) / (lp * lm)) by (field; split; lra).
  rewrite E1, E2. unfold c, vg_init_c. cbv zeta. field. repeat split; lra.
Qed.
End VgMean.

Theorem vg_levy_mean_rate sigma nu theta : 0 < sigma -> 0 < nu ->
  let c := vg_init_c sigma nu theta in let lm := vg_init_lambda_m sigma nu theta in let lp := vg_init_lambda_p sigma nu theta in
  is_lim (fun a => RInt (fun x => x ^ 1 * vg_nu c lm lp x) a 0) m_infty (- c / lm) /\
  is_lim (fun b => RInt (fun x => x ^ 1 * vg_nu c lm lp x) 0 b) p_infty (c / lp) /\
  levy_process_drift 0 + (- c / lm + c / lp) = vg_cumulant1 0 sigma nu theta 1 /\
  vg_cumulant1 0 sigma nu theta 1 = theta.
Proof.
  intros Hs Hn c lm lp. split; [|split; [|split]].
  - apply vg_mean_left; assumption.
  - apply vg_mean_right; assumption.
  - apply vg_mean_rate; assumption.
  - unfold vg_cumulant1. ring.
Qed.

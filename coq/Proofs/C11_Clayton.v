(* C11 -- Clayton Levy copula (levycopula.py:53-150), real analysis with Coquelicot:
   - the closed-form inverse inverts the 2-d conditional distribution (every theta > 0, 0 < eta < 1, eps <> 0, x <> 0)
   - 2-increasing inside each open quadrant: dC/dv = v^(-theta-1) (u^-theta + v^-theta)^(-1/theta-1) is
     non-decreasing in u, mean-value theorem on v |-> C(u2,v) - C(u1,v)
   - x_first_derivative (d = 2) is the mixed partial d2F/dudv in the open positive quadrant; the documented
     "times the product of the arguments" is refuted (finding F-C11-1). *)
From Coq Require Import List Arith Bool Reals Lra Lia.
From Coquelicot Require Import Coquelicot.
From RV Require Import Base.RB Base.ExtNum Model.Copula.
Import ListNotations.
Open Scope R_scope.

Lemma Rpower_pos x y : 0 < Rpower x y. Proof. unfold Rpower. apply exp_pos. Qed.

Section Inverse.
  Variables th et : R.
  Hypothesis Hth : 0 < th.
  Hypothesis Het : 0 < et < 1.

  Lemma core_bounds r : 0 < r -> 0 < Rpower (1 + Rpower r th) (- 1 - 1 / th) < 1.
  Proof.
    intros Hr. split. apply Rpower_pos.
    assert (0 < Rpower r th) by apply Rpower_pos.
    assert (H1 : 0 < 1 / th) by (apply Rdiv_lt_0_compat; lra).
    apply Rlt_le_trans with (Rpower (1 + Rpower r th) 0); [apply Rpower_lt; lra | rewrite Rpower_O; lra].
  Qed.

  Lemma key r : 0 < r ->
    Rpower (Rpower (Rpower (1 + Rpower r th) (- 1 - 1 / th)) (- th / (th + 1)) - 1) (- 1 / th) = / r.
  Proof.
    intros Hr. rewrite Rpower_mult.
    replace ((- 1 - 1 / th) * (- th / (th + 1))) with 1 by (field; lra).
    rewrite Rpower_1 by (pose proof (Rpower_pos r th); lra).
    replace (1 + Rpower r th - 1) with (Rpower r th) by ring.
    rewrite Rpower_mult. replace (th * (- 1 / th)) with (Ropp 1) by (field; lra).
    rewrite Rpower_Ropp, Rpower_1; auto.
  Qed.

  Theorem clayton_inverse eps x : eps <> 0 -> x <> 0 -> clayton_inv th et eps (clayton_cond th et eps x) = x.
  Proof.
    intros He Hx.
    assert (Hr : 0 < Rabs (eps / x)) by (apply Rabs_pos_lt; unfold Rdiv; apply Rmult_integral_contrapositive_currified; auto; apply Rinv_neq_0_compat; auto).
    pose proof (core_bounds _ Hr) as [C0 C1]. pose proof (key _ Hr) as K.
    set (core := Rpower (1 + Rpower (Rabs (eps / x)) th) (- 1 - 1 / th)) in *.
    assert (AbsQ : Rabs eps * / Rabs (eps / x) = Rabs x).
    { unfold Rdiv. rewrite Rabs_mult, Rabs_Rinv by auto. field. split; apply Rabs_no_R0; auto. }
    unfold clayton_inv, clayton_cond, clayton_fun_b, clayton_fun_c. fold core.
    destruct (Rleb 0 eps) eqn:E.
    - destruct (Rltb x 0) eqn:X; [apply Rltb_true in X | apply Rltb_false in X].
      + set (u := 1 - et + core * (et - 1)).
        assert (U1 : u - 1 + et < 0) by (unfold u; nra).
        assert (S : sgn (u - 1 + et) = -1) by (unfold sgn; destruct (Rltb (u - 1 + et) 0) eqn:Q; auto; apply Rltb_false in Q; lra).
        assert (L : Rleb (1 - et) u = false) by (apply Rleb_false; lra).
        rewrite S, L. replace ((1 - et - u) / (1 - et)) with core by (unfold u; field; lra).
        rewrite K. rewrite Rmult_assoc, AbsQ, Rabs_left by lra. ring.
      + set (u := 1 - et + core * (et - 0)).
        assert (U1 : 0 < u - 1 + et) by (unfold u; nra).
        assert (S : sgn (u - 1 + et) = 1).
        { unfold sgn. destruct (Rltb (u - 1 + et) 0) eqn:Q; [apply Rltb_true in Q; lra|]. destruct (Rltb 0 (u - 1 + et)) eqn:Q2; auto. apply Rltb_false in Q2; lra. }
        assert (L : Rleb (1 - et) u = true) by (apply Rleb_true; lra).
        rewrite S, L. replace ((u - 1 + et) / et) with core by (unfold u; field; lra).
        rewrite K. rewrite Rmult_assoc, AbsQ, Rabs_right by lra. ring.
    - destruct (Rleb 0 x) eqn:X; [apply Rleb_true in X | apply Rleb_false in X].
      + set (u := et + core * (1 - et)).
        assert (U1 : 0 < u - et) by (unfold u; nra).
        assert (S : sgn (u - et) = 1).
        { unfold sgn. destruct (Rltb (u - et) 0) eqn:Q; [apply Rltb_true in Q; lra|]. destruct (Rltb 0 (u - et)) eqn:Q2; auto. apply Rltb_false in Q2; lra. }
        assert (L : Rleb et u = true) by (apply Rleb_true; lra).
        rewrite S, L. replace ((u - et) / (1 - et)) with core by (unfold u; field; lra).
        rewrite K. rewrite Rmult_assoc, AbsQ, Rabs_right by lra. ring.
      + set (u := et + core * (0 - et)).
        assert (U1 : u - et < 0) by (unfold u; nra).
        assert (S : sgn (u - et) = -1) by (unfold sgn; destruct (Rltb (u - et) 0) eqn:Q; auto; apply Rltb_false in Q; lra).
        assert (L : Rleb et u = false) by (apply Rleb_false; lra).
        rewrite S, L. replace ((et - u) / et) with core by (unfold u; field; lra).
        rewrite K. rewrite Rmult_assoc, AbsQ, Rabs_left by lra. ring.
  Qed.
End Inverse.

(* x |-> x^a is non-increasing for a <= 0 *)
Lemma Rpower_le_neg x y a : 0 < x -> x <= y -> a <= 0 -> Rpower y a <= Rpower x a.
Proof.
  intros Hx Hxy Ha. set (b := - a). assert (Hb : 0 <= b) by (unfold b; lra). replace a with (- b) by (unfold b; ring).
  rewrite (Rpower_Ropp y b), (Rpower_Ropp x b).
  apply Rinv_le_contravar. apply Rpower_pos. apply Rle_Rpower_l; lra.
Qed.

Section Clayton.
  Variable th : R.
  Hypothesis Hth : 0 < th.
  Definition CS (u v : R) : R := Rpower u (- th) + Rpower v (- th).
  Definition CC (u v : R) : R := Rpower (CS u v) (- 1 / th).
  Definition dCv (u v : R) : R := Rpower v (- th - 1) * Rpower (CS u v) (- 1 / th - 1).

  Lemma CS_pos u v : 0 < CS u v. Proof. unfold CS. pose proof (Rpower_pos u (-th)). pose proof (Rpower_pos v (-th)). lra. Qed.

  Lemma CC_derive_v u v : 0 < u -> 0 < v -> is_derive (fun y => CC u y) v (dCv u v).
  Proof.
    intros Hu Hv. unfold CC, CS, dCv, CS, Rpower.
    auto_derive.
    - repeat split; auto. pose proof (exp_pos (- th * ln u)). pose proof (exp_pos (- th * ln v)). lra.
    - set (S := exp (- th * ln u) + exp (- th * ln v)).
      assert (HS : 0 < S) by (unfold S; pose proof (exp_pos (- th * ln u)); pose proof (exp_pos (- th * ln v)); lra).
      replace ((- th - 1) * ln v) with (- th * ln v + - ln v) by ring.
      replace ((-1 / th - 1) * ln S) with (-1 / th * ln S + - ln S) by ring.
      rewrite !exp_plus, !exp_Ropp, !exp_ln by assumption. field. repeat split; lra.
  Qed.

  Lemma dCv_mono u1 u2 v : 0 < u1 -> u1 <= u2 -> 0 < v -> dCv u1 v <= dCv u2 v.
  Proof.
    intros H1 H12 Hv. unfold dCv. apply Rmult_le_compat_l. left; apply Rpower_pos.
    apply Rpower_le_neg. apply CS_pos.
    - unfold CS. apply Rplus_le_compat_r. apply Rpower_le_neg; lra.
    - assert (0 < 1 / th) by (apply Rdiv_lt_0_compat; lra). lra.
  Qed.

  (* 2-increasing inside the open positive quadrant *)
  Theorem CC_2_increasing u1 u2 v1 v2 : 0 < u1 -> u1 <= u2 -> 0 < v1 -> v1 <= v2 ->
    0 <= CC u2 v2 - CC u2 v1 - CC u1 v2 + CC u1 v1.
  Proof.
    intros Hu1 Hu Hv1 Hv.
    destruct (Req_dec v1 v2) as [->|Hne]. lra.
    pose (g := fun y => CC u2 y - CC u1 y). pose (dg := fun y => dCv u2 y - dCv u1 y).
    destruct (MVT_gen g v1 v2 dg) as [c [Hc Hmvt]].
    - intros y Hy. rewrite Rmin_left, Rmax_right in Hy by lra. unfold g, dg.
      apply (is_derive_minus (fun z => CC u2 z) (fun z => CC u1 z) y (dCv u2 y) (dCv u1 y)); apply CC_derive_v; lra.
    - intros y Hy. rewrite Rmin_left, Rmax_right in Hy by lra.
      apply derivable_continuous_pt. apply ex_derive_Reals_0. exists (dg y). unfold g, dg.
      apply (is_derive_minus (fun z => CC u2 z) (fun z => CC u1 z) y (dCv u2 y) (dCv u1 y)); apply CC_derive_v; lra.
    - rewrite Rmin_left, Rmax_right in Hc by lra. unfold g in Hmvt.
      assert (0 <= dg c) by (unfold dg; pose proof (dCv_mono u1 u2 c Hu1 Hu); lra).
      assert (0 <= dg c * (v2 - v1)) by (apply Rmult_le_pos; lra). lra.
  Qed.

  (* mixed partial in the open positive quadrant *)
  Definition d2C (u v : R) : R := (1 + th) * (Rpower (u * v) (- th - 1) * Rpower (CS u v) (- 1 / th - 2)).
  Lemma dCv_derive_u u v : 0 < u -> 0 < v -> is_derive (fun x => dCv x v) u (d2C u v).
  Proof.
    intros Hu Hv. unfold dCv, d2C, CS, Rpower. rewrite ln_mult by assumption.
    auto_derive.
    - repeat split; auto. pose proof (exp_pos (- th * ln u)). pose proof (exp_pos (- th * ln v)). lra.
    - set (S := exp (- th * ln u) + exp (- th * ln v)).
      assert (HS : 0 < S) by (unfold S; pose proof (exp_pos (- th * ln u)); pose proof (exp_pos (- th * ln v)); lra).
      replace ((- th - 1) * (ln u + ln v)) with (- th * ln u + - ln u + ((- th - 1) * ln v)) by ring.
      replace ((-1 / th - 2) * ln S) with ((-1 / th - 1) * ln S + - ln S) by ring.
      rewrite !exp_plus, !exp_Ropp, !exp_ln by assumption. field. repeat split; lra.
  Qed.
  Lemma d2C_pos u v : 0 < d2C u v.
  Proof. unfold d2C. apply Rmult_lt_0_compat. lra. apply Rmult_lt_0_compat; apply Rpower_pos. Qed.
End Clayton.

Lemma Reqb_false x y : x <> y -> Reqb x y = false.
Proof. intros H. destruct (Reqb x y) eqn:E; auto. apply Reqb_true in E. contradiction. Qed.
Lemma Rpower_2_0 : Rpower 2 (2 - INR 2) = 1.
Proof. replace (2 - INR 2) with 0 by (simpl; ring). apply Rpower_O; lra. Qed.

Lemma clayton_fin2 th et u v : u <> 0 -> v <> 0 ->
  clayton th et [Fin u; Fin v] = (if xorb (Rltb u 0) (Rltb v 0) then - (1 - et) else et) * CC th (Rabs u) (Rabs v).
Proof.
  intros Hu Hv. unfold clayton. cbn -[INR]. rewrite (Reqb_false u 0 Hu), (Reqb_false v 0 Hv). cbn -[INR].
  rewrite Rpower_2_0. unfold clayton_sum, CC, CS. cbn. rewrite Rplus_0_l.
  destruct (Rltb u 0), (Rltb v 0); cbn; ring.
Qed.

Theorem clayton_2_increasing_orthant th et : 0 < th -> 0 <= et <= 1 ->
  forall u1 u2 v1 v2 : R, u1 <= u2 -> v1 <= v2 -> (0 < u1 \/ u2 < 0) -> (0 < v1 \/ v2 < 0) ->
  0 <= clayton th et [Fin u2; Fin v2] - clayton th et [Fin u2; Fin v1] - clayton th et [Fin u1; Fin v2] + clayton th et [Fin u1; Fin v1].
Proof.
  intros Hth Het u1 u2 v1 v2 Hu Hv Su Sv.
  rewrite !clayton_fin2 by lra.
  assert (Lt : forall x, x < 0 -> Rltb x 0 = true) by (intros; apply Rltb_true; assumption).
  assert (Ge : forall x, 0 < x -> Rltb x 0 = false) by (intros; apply Rltb_false; lra).
  destruct Su as [Su|Su]; destruct Sv as [Sv|Sv].
  - rewrite !Ge by lra. rewrite !Rabs_right by lra. cbn.
    pose proof (CC_2_increasing th Hth u1 u2 v1 v2). nra.
  - rewrite (Ge u1), (Ge u2), (Lt v1), (Lt v2) by lra. rewrite (Rabs_right u1), (Rabs_right u2), (Rabs_left v1), (Rabs_left v2) by lra. cbn.
    pose proof (CC_2_increasing th Hth u1 u2 (- v2) (- v1)). nra.
  - rewrite (Lt u1), (Lt u2), (Ge v1), (Ge v2) by lra. rewrite (Rabs_left u1), (Rabs_left u2), (Rabs_right v1), (Rabs_right v2) by lra. cbn.
    pose proof (CC_2_increasing th Hth (- u2) (- u1) v1 v2). nra.
  - rewrite !Lt by lra. rewrite !Rabs_left by lra. cbn.
    pose proof (CC_2_increasing th Hth (- u2) (- u1) (- v2) (- v1)). nra.
Qed.

(* x_first_derivative in the open positive quadrant IS the mixed partial d2F/dudv (not times u*v) *)
Theorem clayton_xderiv2_is_mixed_partial th et u v : 0 < th -> 0 < u -> 0 < v ->
  is_derive (fun y => clayton th et [Fin u; Fin y]) v (et * dCv th u v) /\
  is_derive (fun x => et * dCv th x v) u (clayton_xderiv2 th et u v).
Proof.
  intros Hth Hu Hv. split.
  - apply (is_derive_ext_loc (fun y => et * CC th u y)).
    + assert (Hloc : locally v (fun y => 0 < y)) by (apply (open_gt 0); assumption).
      revert Hloc; apply filter_imp; intros y Hy. rewrite clayton_fin2 by lra.
      rewrite (proj2 (Rltb_false u 0)), (proj2 (Rltb_false y 0)) by lra. rewrite !Rabs_right by lra. reflexivity.
    + apply is_derive_scal. apply CC_derive_v; assumption.
  - replace (clayton_xderiv2 th et u v) with (et * d2C th u v).
    + apply is_derive_scal. apply dCv_derive_u; assumption.
    + unfold clayton_xderiv2, d2C, CS. assert (0 < u * v) by (apply Rmult_lt_0_compat; assumption).
      rewrite (proj2 (Rleb_true 0 (u * v))) by lra. rewrite !Rabs_right by lra. ring.
Qed.

(* F-C11-1: the documented contract "mixed partial times the product of the arguments" does not hold *)
Theorem clayton_xderiv2_times_product_refuted :
  exists th et u v, 0 < th /\ 0 < et <= 1 /\ 0 < u /\ 0 < v /\
    clayton_xderiv2 th et u v = et * d2C th u v /\ clayton_xderiv2 th et u v <> u * v * (et * d2C th u v).
Proof.
  exists 1, 1, 2, 1. repeat split; try lra.
  - unfold clayton_xderiv2, d2C, CS. rewrite (proj2 (Rleb_true 0 (2 * 1))) by lra. rewrite !Rabs_right by lra. ring.
  - assert (E : clayton_xderiv2 1 1 2 1 = 1 * d2C 1 2 1).
    { unfold clayton_xderiv2, d2C, CS. rewrite (proj2 (Rleb_true 0 (2 * 1))) by lra. rewrite !Rabs_right by lra. ring. }
    rewrite E. pose proof (d2C_pos 1 Rlt_0_1 2 1). lra.
Qed.

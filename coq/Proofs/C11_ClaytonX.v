(* C11 (wave 6) -- ClaytonCopula.__call__ on all-infinite vectors (model clayton_x, Model/CopulaX6.v). *)
From Coq Require Import List Arith Bool Reals Lra Lia.
From RV Require Import Base.RB Base.ExtNum Model.Copula Model.CopulaX Model.CopulaX6.
Import ListNotations.
Open Scope R_scope.

Lemma sign_prod_all_inf_gen (us : list (ext R)) b : all_inf RNum us = true ->
  fold_left xorb (map ext_negative us) b = xorb b (Nat.odd (count_ninf RNum us)).
Proof.
  revert b. induction us as [|u us IH]; intros b H. cbn. destruct b; reflexivity.
  unfold all_inf in H. cbn [forallb] in H. apply andb_true_iff in H. destruct H as [Hu Hus]. cbn [map fold_left]. rewrite (IH _ Hus).
  unfold count_ninf. cbn [filter]. destruct u; cbn in Hu; try discriminate Hu; cbn [ext_negative length].
  - fold (count_ninf RNum us). rewrite Nat.odd_succ, <- Nat.negb_odd. destruct b, (Nat.odd (count_ninf RNum us)); reflexivity.
  - fold (count_ninf RNum us). destruct b; reflexivity.
Qed.
Lemma sign_prod_all_inf (us : list (ext R)) : all_inf RNum us = true -> sign_prod_neg us = Nat.odd (count_ninf RNum us).
Proof. intros H. unfold sign_prod_neg. rewrite sign_prod_all_inf_gen by auto. destruct (Nat.odd (count_ninf RNum us)); reflexivity. Qed.

(* Clayton on all-infinite vectors, 0 < eta < 1: +inf when the number of -inf entries is even, -inf when it is odd; always defined *)
Theorem clayton_x_all_inf th et us : 0 < et < 1 -> all_inf RNum us = true ->
  clayton_x_defined et us = true /\ clayton_x th et us = if Nat.even (count_ninf RNum us) then PInf else NInf.
Proof.
  intros Het H. unfold clayton_x_defined, clayton_x, clayton_factor. rewrite H, (sign_prod_all_inf us H), <- Nat.negb_odd.
  destruct (Nat.odd (count_ninf RNum us)); cbn.
  - rewrite (proj2 (Rltb_false 0 (- (1 - et)))) by lra. split; auto. destruct (Reqb (- (1 - et)) 0) eqn:E; auto. apply Reqb_true in E. lra.
  - rewrite (proj2 (Rltb_true 0 et)) by lra. split; auto. destruct (Reqb et 0) eqn:E; auto. apply Reqb_true in E. lra.
Qed.
(* eta in {0,1}: exactly the sign patterns whose factor is 0 are undefined (nan in the code) *)
Theorem clayton_x_undefined_iff et us : 0 <= et <= 1 -> all_inf RNum us = true ->
  (clayton_x_defined et us = false <-> (et = 0 /\ Nat.even (count_ninf RNum us) = true) \/ (et = 1 /\ Nat.odd (count_ninf RNum us) = true)).
Proof.
  intros Het H. unfold clayton_x_defined, clayton_factor. rewrite H, (sign_prod_all_inf us H), <- Nat.negb_odd. cbn.
  destruct (Nat.odd (count_ninf RNum us)); cbn; rewrite negb_false_iff, Reqb_true; split; intros; try lra; intuition (try discriminate; lra).
Qed.
Theorem clayton_x_finite th et us : all_inf RNum us = false -> clayton_x_defined et us = true /\ clayton_x th et us = Fin (clayton th et us).
Proof. intros H. unfold clayton_x_defined, clayton_x. rewrite H. split; reflexivity. Qed.

From Coq Require Import List Arith Bool Reals Lra Lia.
From Coquelicot Require Import Coquelicot.
From RV Require Import Base.RB Base.ExtNum Model.Copula Proofs.C11_Clayton.
Import ListNotations.
Open Scope R_scope.

(* ---- the 2-d Clayton conditional distribution x |-> F_eps(x) is a distribution function (x <> 0, eps <> 0) --------- *)
Section CondDist.
  Variables th et : R.
  Hypothesis Hth : 0 < th.
  Hypothesis Het : 0 <= et <= 1.
  Definition ccore (eps x : R) : R := Rpower (1 + Rpower (Rabs (eps / x)) th) (- 1 - 1 / th).

  Lemma ccore_bounds eps x : eps <> 0 -> x <> 0 -> 0 < ccore eps x < 1.
  Proof.
    intros He Hx. apply core_bounds; auto. apply Rabs_pos_lt. unfold Rdiv. apply Rmult_integral_contrapositive_currified; auto. apply Rinv_neq_0_compat; auto.
  Qed.
  Lemma ccore_mono eps x y : eps <> 0 -> x <> 0 -> y <> 0 -> Rabs x <= Rabs y -> ccore eps x <= ccore eps y.
  Proof.
    intros He Hx Hy Hxy. unfold ccore.
    assert (Ax : 0 < Rabs x) by (apply Rabs_pos_lt; auto). assert (Ay : 0 < Rabs y) by (apply Rabs_pos_lt; auto).
    assert (Ae : 0 < Rabs eps) by (apply Rabs_pos_lt; auto).
    assert (Q : Rabs (eps / y) <= Rabs (eps / x)).
    { unfold Rdiv. rewrite !Rabs_mult, !Rabs_Rinv by auto. apply Rmult_le_compat_l. lra. apply Rinv_le_contravar; lra. }
    assert (Qy : 0 < Rabs (eps / y)) by (apply Rabs_pos_lt; unfold Rdiv; apply Rmult_integral_contrapositive_currified; auto; apply Rinv_neq_0_compat; auto).
    assert (P : Rpower (Rabs (eps / y)) th <= Rpower (Rabs (eps / x)) th) by (apply Rle_Rpower_l; lra).
    apply Rpower_le_neg.
    - pose proof (Rpower_pos (Rabs (eps / y)) th). lra.
    - lra.
    - assert (0 < 1 / th) by (apply Rdiv_lt_0_compat; lra). lra.
  Qed.

  Lemma cond_neg eps x : x < 0 -> clayton_cond th et eps x =
     if Rleb 0 eps then (1 - et) * (1 - ccore eps x) else et * (1 - ccore eps x).
  Proof. intros Hx. unfold clayton_cond. fold (ccore eps x). rewrite (proj2 (Rltb_true x 0)), (proj2 (Rleb_false 0 x)) by lra.
    destruct (Rleb 0 eps); ring. Qed.
  Lemma cond_pos eps x : 0 < x -> clayton_cond th et eps x =
     if Rleb 0 eps then 1 - et + et * ccore eps x else et + (1 - et) * ccore eps x.
  Proof. intros Hx. unfold clayton_cond. fold (ccore eps x). rewrite (proj2 (Rltb_false x 0)), (proj2 (Rleb_true 0 x)) by lra.
    destruct (Rleb 0 eps); ring. Qed.

  Theorem cond_range eps x : eps <> 0 -> x <> 0 -> 0 <= clayton_cond th et eps x <= 1.
  Proof.
    intros He Hx. pose proof (ccore_bounds eps x He Hx) as [C0 C1].
    destruct (Rlt_dec x 0); [rewrite cond_neg by lra | rewrite cond_pos by lra]; destruct (Rleb 0 eps); split; nra.
  Qed.
  Theorem cond_monotone eps x y : eps <> 0 -> x <> 0 -> y <> 0 -> x <= y -> clayton_cond th et eps x <= clayton_cond th et eps y.
  Proof.
    intros He Hx Hy Hxy. pose proof (ccore_bounds eps x He Hx) as [X0 X1]. pose proof (ccore_bounds eps y He Hy) as [Y0 Y1].
    destruct (Rlt_dec x 0); destruct (Rlt_dec y 0).
    - rewrite !cond_neg by lra. assert (ccore eps y <= ccore eps x) by (apply ccore_mono; auto; rewrite !Rabs_left by lra; lra).
      destruct (Rleb 0 eps); nra.
    - rewrite cond_neg, cond_pos by lra. destruct (Rleb 0 eps); nra.
    - lra.
    - rewrite !cond_pos by lra. assert (ccore eps x <= ccore eps y) by (apply ccore_mono; auto; rewrite !Rabs_right by lra; lra).
      destruct (Rleb 0 eps); nra.
  Qed.
End CondDist.

Section RightInverse.
  Variables th et : R.
  Hypothesis Hth : 0 < th.
  Hypothesis Het : 0 < et < 1.

  Lemma Rpower_gt1 c a : 0 < c < 1 -> 0 < a -> 1 < Rpower c (- a).
  Proof.
    intros [C0 C1] Ha. unfold Rpower. rewrite <- exp_0. apply exp_increasing.
    assert (ln c < 0) by (rewrite <- ln_1; apply ln_increasing; lra). nra.
  Qed.
  Lemma inv_core eps c X : eps <> 0 -> 0 < c < 1 ->
    Rabs X = Rabs eps * Rpower (Rpower c (- th / (th + 1)) - 1) (- 1 / th) -> ccore th eps X = c.
  Proof.
    intros He Hc HX. unfold ccore.
    assert (G : 1 < Rpower c (- th / (th + 1))).
    { replace (- th / (th + 1)) with (- (th / (th + 1))) by (field; lra). apply Rpower_gt1; auto. apply Rdiv_lt_0_compat; lra. }
    set (g := Rpower c (- th / (th + 1))) in *. set (w := Rpower (g - 1) (- 1 / th)) in *.
    assert (Hw : 0 < w) by apply Rpower_pos. assert (Ae : 0 < Rabs eps) by (apply Rabs_pos_lt; auto).
    assert (Xn : X <> 0) by (intro; subst X; rewrite Rabs_R0 in HX; nra).
    assert (Q : Rabs (eps / X) = / w).
    { unfold Rdiv. rewrite Rabs_mult, Rabs_Rinv, HX by auto. field. split; lra. }
    rewrite Q. assert (Ew : / w = Rpower w (Ropp 1)) by (rewrite Rpower_Ropp, Rpower_1; auto). rewrite Ew.
    rewrite Rpower_mult. unfold w. rewrite Rpower_mult.
    replace (-1 / th * (Ropp 1 * th)) with 1 by (field; lra). rewrite Rpower_1 by lra.
    replace (1 + (g - 1)) with g by ring. unfold g. rewrite Rpower_mult.
    replace (- th / (th + 1) * (- 1 - 1 / th)) with 1 by (field; lra). apply Rpower_1; lra.
  Qed.

  Theorem cond_right_inverse eps u : eps <> 0 -> 0 < u < 1 -> u <> (if Rleb 0 eps then 1 - et else et) ->
    clayton_cond th et eps (clayton_inv th et eps u) = u.
  Proof.
    intros He Hu Hj.
    assert (Ae : 0 < Rabs eps) by (apply Rabs_pos_lt; auto).
    assert (SG : forall z, 0 < z -> sgn z = 1).
    { intros z Hz. unfold sgn. rewrite (proj2 (Rltb_false z 0)), (proj2 (Rltb_true 0 z)) by lra. reflexivity. }
    assert (SL : forall z, z < 0 -> sgn z = -1) by (intros z Hz; unfold sgn; rewrite (proj2 (Rltb_true z 0)) by lra; reflexivity).
    unfold clayton_inv, clayton_fun_b, clayton_fun_c. destruct (Rleb 0 eps) eqn:E.
    - destruct (Rle_dec (1 - et) u) as [L|L].
      + assert (1 - et < u) by lra. rewrite (proj2 (Rleb_true (1 - et) u)) by lra. rewrite SG by lra.
        set (c := (u - 1 + et) / et). assert (Hc : 0 < c < 1) by (unfold c; split; [apply Rdiv_lt_0_compat; lra | apply Rmult_lt_reg_r with et; [lra|]; unfold Rdiv; rewrite Rmult_assoc, Rinv_l by lra; lra]).
        set (w := Rpower (Rpower c (- th / (th + 1)) - 1) (- 1 / th)). assert (Hw : 0 < w) by apply Rpower_pos.
        assert (Xp : 0 < 1 * Rabs eps * w) by nra.
        rewrite (cond_pos th et _ _ Xp), E.
        rewrite (inv_core eps c _ He Hc) by (rewrite Rabs_right by lra; unfold w; ring). unfold c. field. lra.
      + assert (u < 1 - et) by lra. rewrite (proj2 (Rleb_false (1 - et) u)) by lra. rewrite SL by lra.
        set (c := (1 - et - u) / (1 - et)). assert (Hc : 0 < c < 1) by (unfold c; split; [apply Rdiv_lt_0_compat; lra | apply Rmult_lt_reg_r with (1 - et); [lra|]; unfold Rdiv; rewrite Rmult_assoc, Rinv_l by lra; lra]).
        set (w := Rpower (Rpower c (- th / (th + 1)) - 1) (- 1 / th)). assert (Hw : 0 < w) by apply Rpower_pos.
        assert (Xn : -1 * Rabs eps * w < 0) by nra.
        rewrite (cond_neg th et _ _ Xn), E.
        rewrite (inv_core eps c _ He Hc) by (rewrite Rabs_left by lra; unfold w; ring). unfold c. field. lra.
    - destruct (Rle_dec et u) as [L|L].
      + assert (et < u) by lra. rewrite (proj2 (Rleb_true et u)) by lra. rewrite SG by lra.
        set (c := (u - et) / (1 - et)). assert (Hc : 0 < c < 1) by (unfold c; split; [apply Rdiv_lt_0_compat; lra | apply Rmult_lt_reg_r with (1 - et); [lra|]; unfold Rdiv; rewrite Rmult_assoc, Rinv_l by lra; lra]).
        set (w := Rpower (Rpower c (- th / (th + 1)) - 1) (- 1 / th)). assert (Hw : 0 < w) by apply Rpower_pos.
        assert (Xp : 0 < 1 * Rabs eps * w) by nra.
        rewrite (cond_pos th et _ _ Xp), E.
        rewrite (inv_core eps c _ He Hc) by (rewrite Rabs_right by lra; unfold w; ring). unfold c. field. lra.
      + assert (u < et) by lra. rewrite (proj2 (Rleb_false et u)) by lra. rewrite SL by lra.
        set (c := (et - u) / et). assert (Hc : 0 < c < 1) by (unfold c; split; [apply Rdiv_lt_0_compat; lra | apply Rmult_lt_reg_r with et; [lra|]; unfold Rdiv; rewrite Rmult_assoc, Rinv_l by lra; lra]).
        set (w := Rpower (Rpower c (- th / (th + 1)) - 1) (- 1 / th)). assert (Hw : 0 < w) by apply Rpower_pos.
        assert (Xn : -1 * Rabs eps * w < 0) by nra.
        rewrite (cond_neg th et _ _ Xn), E.
        rewrite (inv_core eps c _ He Hc) by (rewrite Rabs_left by lra; unfold w; ring). unfold c. field. lra.
  Qed.


  Lemma inv_sign eps u : eps <> 0 -> 0 < u < 1 ->
    ((if Rleb 0 eps then 1 - et else et) < u -> 0 < clayton_inv th et eps u) /\
    (u < (if Rleb 0 eps then 1 - et else et) -> clayton_inv th et eps u < 0).
  Proof.
    intros He Hu. assert (Ae : 0 < Rabs eps) by (apply Rabs_pos_lt; auto).
    unfold clayton_inv, clayton_fun_b, sgn.
    set (w := Rpower (Rpower (clayton_fun_c et eps u) (- th / (th + 1)) - 1) (- 1 / th)). assert (Hw : 0 < w) by apply Rpower_pos.
    destruct (Rleb 0 eps); split; intros H.
    - rewrite (proj2 (Rltb_false (u - 1 + et) 0)), (proj2 (Rltb_true 0 (u - 1 + et))) by lra. nra.
    - rewrite (proj2 (Rltb_true (u - 1 + et) 0)) by lra. nra.
    - rewrite (proj2 (Rltb_false (u - et) 0)), (proj2 (Rltb_true 0 (u - et))) by lra. nra.
    - rewrite (proj2 (Rltb_true (u - et) 0)) by lra. nra.
  Qed.

  (* limits 0 at -inf and 1 at +inf: every level below 1 is exceeded, every level above 0 is undercut, from some point on *)
  Theorem cond_limits eps delta : eps <> 0 -> 0 < delta ->
    exists M, 0 < M /\ (forall x, M < x -> 1 - delta <= clayton_cond th et eps x <= 1) /\
              (forall x, x < - M -> 0 <= clayton_cond th et eps x <= delta).
  Proof.
    intros He Hd. set (j := if Rleb 0 eps then 1 - et else et).
    assert (Hj : 0 < j < 1) by (unfold j; destruct (Rleb 0 eps); lra).
    set (hi := 1 - Rmin (delta / 2) ((1 - j) / 2)). set (lo := Rmin (delta / 2) (j / 2)).
    assert (Hhi : j < hi < 1 /\ 1 - delta <= hi).
    { unfold hi. destruct (Rle_dec (delta / 2) ((1 - j) / 2)); [rewrite Rmin_left by lra | rewrite Rmin_right by lra]; lra. }
    assert (Hlo : 0 < lo < j /\ lo <= delta).
    { unfold lo. destruct (Rle_dec (delta / 2) (j / 2)); [rewrite Rmin_left by lra | rewrite Rmin_right by lra]; lra. }
    assert (Het' : 0 <= et <= 1) by lra.
    pose proof (cond_right_inverse eps hi He ltac:(lra) ltac:(fold j; lra)) as Rh.
    pose proof (cond_right_inverse eps lo He ltac:(lra) ltac:(fold j; lra)) as Rl.
    pose proof (proj1 (inv_sign eps hi He ltac:(lra)) ltac:(fold j; lra)) as Ph.
    pose proof (proj2 (inv_sign eps lo He ltac:(lra)) ltac:(fold j; lra)) as Pl.
    set (xh := clayton_inv th et eps hi) in *. set (xl := clayton_inv th et eps lo) in *.
    exists (Rmax xh (- xl)). split; [|split].
    - apply Rlt_le_trans with xh; [lra | apply Rmax_l].
    - intros x Hx. assert (xh < x) by (eapply Rle_lt_trans; [apply Rmax_l | exact Hx]).
      pose proof (cond_monotone th et Hth Het' eps xh x He ltac:(lra) ltac:(lra) ltac:(lra)).
      pose proof (cond_range th et Hth Het' eps x He ltac:(lra)). lra.
    - intros x Hx. assert (x < xl) by (pose proof (Rmax_r xh (- xl)); lra).
      pose proof (cond_monotone th et Hth Het' eps x xl He ltac:(lra) ltac:(lra) ltac:(lra)).
      pose proof (cond_range th et Hth Het' eps x He ltac:(lra)). lra.
  Qed.
End RightInverse.

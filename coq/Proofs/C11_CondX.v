(* C11 (wave 5) -- the Clayton conditional distribution on the EXTENDED domain (Model/CopulaX.v: clayton_cond_x):
   x in {-inf} u R u {+inf}, eps any real (0 included), with numpy's conventions np.power(0, theta) = 0, eps / 0 = inf,
   (1 + inf) ** negative = 0 written out.  Agreement with the finite model clayton_cond, exact values at +-inf / eps = 0 / x = 0,
   range, monotone on the whole extended line, and the extended values ARE the limits (is_lim at +-inf, continuity at 0),
   for every theta > 0, every eta in [0,1] (the earlier cond_limits needed 0 < eta < 1). *)
From Coq Require Import List Arith Bool Reals Lra Lia.
From Coquelicot Require Import Coquelicot.
From RV Require Import Base.RB Base.ExtNum Model.Copula Model.CopulaX Proofs.C11_Clayton Proofs.C11_CondDist.
Import ListNotations.
Open Scope R_scope.

Lemma Reqb_refl0 x : Reqb x x = true. Proof. apply Reqb_true; reflexivity. Qed.
Lemma Rpower_1_l a : Rpower 1 a = 1. Proof. unfold Rpower. rewrite ln_1, Rmult_0_r. apply exp_0. Qed.

Section CondX.
  Variables th et : R.
  Hypothesis Hth : 0 < th.

  (* ---- the extended model on the pieces ------------------------------------------------------------------------ *)
  Lemma core_x_fin eps x : eps <> 0 -> x <> 0 -> cond_core_x th eps (Fin x) = ccore th eps x.
  Proof.
    intros He Hx. unfold cond_core_x, abs_ratio. rewrite (Reqb_false x 0 Hx). cbn.
    assert (Rabs (eps / x) <> 0).
    { apply Rabs_no_R0. unfold Rdiv. apply Rmult_integral_contrapositive_currified; auto. apply Rinv_neq_0_compat; auto. }
    rewrite (Reqb_false _ 0 H). reflexivity.
  Qed.
  Lemma core_x_eps0 x : x <> 0 -> cond_core_x th 0 (Fin x) = 1.
  Proof.
    intros Hx. unfold cond_core_x, abs_ratio. rewrite (Reqb_false x 0 Hx). cbn.
    replace (Rabs (0 / x)) with 0 by (unfold Rdiv; rewrite Rmult_0_l, Rabs_R0; reflexivity).
    rewrite Reqb_refl0. cbn. rewrite Rplus_0_r. apply Rpower_1_l.
  Qed.
  Lemma core_x_zero eps : cond_core_x th eps (Fin 0) = 0.
  Proof. unfold cond_core_x, abs_ratio. rewrite Reqb_refl0. reflexivity. Qed.
  Lemma core_x_inf eps : cond_core_x th eps PInf = 1 /\ cond_core_x th eps NInf = 1.
  Proof. unfold cond_core_x; cbn. rewrite Reqb_refl0. cbn. rewrite Rplus_0_r, Rpower_1_l. auto. Qed.

  Lemma core_x_range eps x : cond_defined eps x = true -> 0 <= cond_core_x th eps x <= 1.
  Proof.
    intros D. destruct x as [|v|].
    - rewrite (proj2 (core_x_inf eps)). lra.
    - destruct (Req_dec v 0) as [->|Hv]. rewrite core_x_zero; lra.
      destruct (Req_dec eps 0) as [->|He]. rewrite core_x_eps0 by auto; lra.
      rewrite core_x_fin by auto. pose proof (ccore_bounds th Hth eps v He Hv). lra.
    - rewrite (proj1 (core_x_inf eps)). lra.
  Qed.

  (* agreement with the finite model of Model/Copula.v where that one applies *)
  Theorem cond_x_agrees eps x : eps <> 0 -> x <> 0 -> clayton_cond_x th et eps (Fin x) = clayton_cond th et eps x.
  Proof. intros He Hx. unfold clayton_cond_x, clayton_cond. rewrite core_x_fin by auto. reflexivity. Qed.

  (* x = +-inf: exactly 1 / 0, for EVERY eps (0 included) and every eta *)
  Theorem cond_x_at_inf eps : clayton_cond_x th et eps PInf = 1 /\ clayton_cond_x th et eps NInf = 0.
  Proof.
    unfold clayton_cond_x. destruct (core_x_inf eps) as [-> ->]. cbn. destruct (Rleb 0 eps); split; ring.
  Qed.
  (* eps = 0 (np.power(0, theta) = 0): the unit step at 0 *)
  Theorem cond_x_eps0 x : x <> 0 -> clayton_cond_x th et 0 (Fin x) = if Rltb x 0 then 0 else 1.
  Proof.
    intros Hx. unfold clayton_cond_x. rewrite core_x_eps0 by auto. rewrite (proj2 (Rleb_true 0 0)) by lra. cbn.
    destruct (Rltb x 0); ring.
  Qed.
  (* x = 0, eps <> 0 (eps / 0 = +-inf, (1 + inf) ** negative = 0): the plateau value *)
  Theorem cond_x_at_zero eps : clayton_cond_x th et eps (Fin 0) = if Rleb 0 eps then 1 - et else et.
  Proof. unfold clayton_cond_x. rewrite core_x_zero. destruct (Rleb 0 eps); ring. Qed.

  Hypothesis Het : 0 <= et <= 1.

  Theorem cond_x_range eps x : cond_defined eps x = true -> 0 <= clayton_cond_x th et eps x <= 1.
  Proof.
    intros D. pose proof (core_x_range eps x D) as [C0 C1]. unfold clayton_cond_x.
    destruct (Rleb 0 eps); [destruct (@xlt0 RNum x) | destruct (@xge0 RNum x)]; split; nra.
  Qed.

  (* negative side / non-negative side in terms of the core *)
  Lemma cond_x_neg eps x : @xlt0 RNum x = true -> clayton_cond_x th et eps x =
     (if Rleb 0 eps then 1 - et else et) * (1 - cond_core_x th eps x).
  Proof.
    intros Hx. unfold clayton_cond_x. rewrite Hx.
    assert (G : @xge0 RNum x = false).
    { destruct x as [|v|]; simpl in *; try discriminate; auto. apply Rltb_true in Hx. apply Rleb_false. lra. }
    rewrite G. destruct (Rleb 0 eps); ring.
  Qed.
  Lemma cond_x_nonneg eps x : @xlt0 RNum x = false -> clayton_cond_x th et eps x =
     (if Rleb 0 eps then 1 - et else et) + (if Rleb 0 eps then et else 1 - et) * cond_core_x th eps x.
  Proof.
    intros Hx. unfold clayton_cond_x. rewrite Hx.
    assert (G : @xge0 RNum x = true).
    { destruct x as [|v|]; simpl in *; try discriminate; auto. apply Rltb_false in Hx. apply Rleb_true. lra. }
    rewrite G. destruct (Rleb 0 eps); ring.
  Qed.

  (* the core is monotone in |x| on the extended domain: 0 at x = 0, 1 at +-inf *)
  Lemma core_x_mono_pos eps x y : cond_defined eps x = true -> cond_defined eps y = true ->
    @xlt0 RNum x = false -> @xleb RNum x y = true -> cond_core_x th eps x <= cond_core_x th eps y.
  Proof.
    intros Dx Dy Hx L. destruct y as [|b|]; [destruct x; discriminate | | rewrite (proj1 (core_x_inf eps)); apply core_x_range; auto].
    destruct x as [|a|]; try discriminate. simpl in Hx, L. apply Rltb_false in Hx. apply Rleb_true in L.
    destruct (Req_dec a 0) as [->|Ha]. rewrite core_x_zero. apply core_x_range; auto.
    assert (Hb : b <> 0) by lra.
    destruct (Req_dec eps 0) as [->|He]. rewrite !core_x_eps0 by auto; lra.
    rewrite !core_x_fin by auto. apply ccore_mono; auto. rewrite !Rabs_right by lra. lra.
  Qed.
  Lemma core_x_mono_neg eps x y : cond_defined eps x = true -> cond_defined eps y = true ->
    @xlt0 RNum y = true -> @xleb RNum x y = true -> cond_core_x th eps y <= cond_core_x th eps x.
  Proof.
    intros Dx Dy Hy L. destruct x as [|a|]; [rewrite (proj2 (core_x_inf eps)); apply core_x_range; auto | | destruct y; discriminate].
    destruct y as [|b|]; try discriminate. simpl in Hy, L. apply Rltb_true in Hy. apply Rleb_true in L.
    assert (Ha : a <> 0) by lra. assert (Hb : b <> 0) by lra.
    destruct (Req_dec eps 0) as [->|He]. rewrite !core_x_eps0 by auto; lra.
    rewrite !core_x_fin by auto. apply ccore_mono; auto. rewrite !Rabs_left by lra. lra.
  Qed.

  (* non-decreasing on the WHOLE extended line: -inf, negatives, 0, positives, +inf; every eps (0 included) *)
  Theorem cond_x_monotone eps x y : cond_defined eps x = true -> cond_defined eps y = true ->
    @xleb RNum x y = true -> clayton_cond_x th et eps x <= clayton_cond_x th et eps y.
  Proof.
    intros Dx Dy L.
    pose proof (core_x_range eps x Dx) as [X0 X1]. pose proof (core_x_range eps y Dy) as [Y0 Y1].
    destruct (@xlt0 RNum x) eqn:Sx; destruct (@xlt0 RNum y) eqn:Sy.
    - rewrite !cond_x_neg by auto. pose proof (core_x_mono_neg eps x y Dx Dy Sy L). destruct (Rleb 0 eps); nra.
    - rewrite cond_x_neg, cond_x_nonneg by auto. destruct (Rleb 0 eps); nra.
    - exfalso. destruct x as [|a|], y as [|b|]; simpl in *; try discriminate.
      apply Rltb_false in Sx. apply Rltb_true in Sy. apply Rleb_true in L. lra.
    - rewrite !cond_x_nonneg by auto. pose proof (core_x_mono_pos eps x y Dx Dy Sx L). destruct (Rleb 0 eps); nra.
  Qed.

  (* the values at +-inf ARE the limits of the finite values, for every eps and every eta in [0,1] *)
  Lemma core_to_1 eps delta : eps <> 0 -> 0 < delta -> exists M, 0 < M /\ forall x, M < Rabs x -> 1 - delta < ccore th eps x.
  Proof.
    intros He Hd. set (c := Rmax (/ 2) (1 - delta / 2)).
    assert (Hc : 0 < c < 1 /\ 1 - delta < c).
    { unfold c. destruct (Rle_dec (/ 2) (1 - delta / 2)); [rewrite Rmax_right by lra | rewrite Rmax_left by lra]; lra. }
    set (X := Rabs eps * Rpower (Rpower c (- th / (th + 1)) - 1) (- 1 / th)).
    assert (Ae : 0 < Rabs eps) by (apply Rabs_pos_lt; auto).
    assert (HX : 0 < X) by (unfold X; apply Rmult_lt_0_compat; [lra | apply Rpower_pos]).
    exists X. split; auto. intros x Hx.
    assert (E : ccore th eps X = c) by (apply (inv_core th Hth eps c X He); [lra | rewrite Rabs_right by lra; reflexivity]).
    assert (x <> 0) by (intro; subst; rewrite Rabs_R0 in Hx; lra).
    pose proof (ccore_mono th Hth eps X x He ltac:(lra) H ltac:(rewrite (Rabs_right X) by lra; lra)). lra.
  Qed.

  Theorem cond_x_limits eps :
    is_lim (fun x => clayton_cond_x th et eps (Fin x)) p_infty (clayton_cond_x th et eps PInf) /\
    is_lim (fun x => clayton_cond_x th et eps (Fin x)) m_infty (clayton_cond_x th et eps NInf).
  Proof.
    destruct (cond_x_at_inf eps) as [-> ->].
    destruct (Req_dec eps 0) as [->|He].
    - split; apply is_lim_spec; intros d; [exists 0 | exists 0]; intros x Hx; rewrite cond_x_eps0 by lra.
      + rewrite (proj2 (Rltb_false x 0)) by lra. replace (1 - 1) with 0 by ring. rewrite Rabs_R0. apply (RIneq.cond_pos d).
      + rewrite (proj2 (Rltb_true x 0)) by lra. replace (0 - 0) with 0 by ring. rewrite Rabs_R0. apply (RIneq.cond_pos d).
    - split; apply is_lim_spec; intros d; destruct (core_to_1 eps d He (RIneq.cond_pos d)) as [M [HM HC]].
      + exists M. intros x Hx. assert (Hx0 : x <> 0) by lra. rewrite cond_x_agrees by auto.
        pose proof (HC x ltac:(rewrite Rabs_right by lra; lra)). pose proof (ccore_bounds th Hth eps x He Hx0).
        rewrite (C11_CondDist.cond_pos th et) by lra. apply Rabs_def1; destruct (Rleb 0 eps); nra.
      + exists (- M). intros x Hx. assert (Hx0 : x <> 0) by lra. rewrite cond_x_agrees by auto.
        pose proof (HC x ltac:(rewrite Rabs_left by lra; lra)). pose proof (ccore_bounds th Hth eps x He Hx0).
        rewrite (C11_CondDist.cond_neg th et) by lra. apply Rabs_def1; destruct (Rleb 0 eps); nra.
  Qed.

  (* x = 0, eps <> 0: the value the IEEE arithmetic produces (eps / 0 = inf, (1 + inf) ** negative = 0) is the two-sided limit:
     the conditional distribution is continuous at 0 *)
  Lemma core_to_0 eps delta : eps <> 0 -> 0 < delta -> exists M, 0 < M /\ forall x, x <> 0 -> Rabs x < M -> ccore th eps x < delta.
  Proof.
    intros He Hd. set (c := Rmin (/ 2) (delta / 2)).
    assert (Hc : 0 < c < 1 /\ c < delta).
    { unfold c. destruct (Rle_dec (/ 2) (delta / 2)); [rewrite Rmin_left by lra | rewrite Rmin_right by lra]; lra. }
    set (X := Rabs eps * Rpower (Rpower c (- th / (th + 1)) - 1) (- 1 / th)).
    assert (Ae : 0 < Rabs eps) by (apply Rabs_pos_lt; auto).
    assert (HX : 0 < X) by (unfold X; apply Rmult_lt_0_compat; [lra | apply Rpower_pos]).
    exists X. split; auto. intros x Hx0 Hx.
    assert (E : ccore th eps X = c) by (apply (inv_core th Hth eps c X He); [lra | rewrite Rabs_right by lra; reflexivity]).
    pose proof (ccore_mono th Hth eps x X He Hx0 ltac:(lra) ltac:(rewrite (Rabs_right X) by lra; lra)). lra.
  Qed.
  Theorem cond_x_continuous_at_zero eps : eps <> 0 ->
    is_lim (fun x => clayton_cond_x th et eps (Fin x)) 0 (clayton_cond_x th et eps (Fin 0)).
  Proof.
    intros He. rewrite cond_x_at_zero. apply is_lim_spec. intros d.
    destruct (core_to_0 eps d He (RIneq.cond_pos d)) as [M [HM HC]].
    exists (mkposreal M HM). intros x Hb Hx0. change (Rabs (x + - 0) < M) in Hb. rewrite Ropp_0, Rplus_0_r in Hb.
    rewrite cond_x_agrees by auto. pose proof (HC x Hx0 Hb). pose proof (ccore_bounds th Hth eps x He Hx0).
    destruct (Rlt_dec x 0).
    - rewrite (C11_CondDist.cond_neg th et) by lra. apply Rabs_def1; destruct (Rleb 0 eps); nra.
    - rewrite (C11_CondDist.cond_pos th et) by lra. apply Rabs_def1; destruct (Rleb 0 eps); nra.
  Qed.
End CondX.

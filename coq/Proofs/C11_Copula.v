(* C11 -- the Levy copulas are Levy copulas: grounded, uniform margins, d-increasing
   (independent: d = 2, 3; completely dependent: d = 2; Clayton: see C11_Clayton.v).
   Models: Model/Copula.v (the piecewise-linear copulas over a Num, here at RNum; Clayton over R). *)
From Coq Require Import List Arith Bool Reals Lra Lia.
From RV Require Import Base.RB Base.ExtNum Model.Copula.
Import ListNotations.
Open Scope R_scope.

Lemma Rltb_irrefl x : Rltb x x = false. Proof. apply Rltb_false. lra. Qed.

Ltac rb := repeat match goal with
  | |- context[Rltb ?a ?b] => let E := fresh "E" in destruct (Rltb a b) eqn:E; [apply Rltb_true in E | apply Rltb_false in E]
  | |- context[Rleb ?a ?b] => let E := fresh "E" in destruct (Rleb a b) eqn:E; [apply Rleb_true in E | apply Rleb_false in E]
  | |- context[Reqb ?a ?b] => let E := fresh "E" in destruct (Reqb a b) eqn:E; [apply Reqb_true in E | idtac]
  end; cbn.

(* ---------- grounded ---------- *)
Lemma indep_grounded2 v : indep RNum [Fin 0; v] = 0 /\ indep RNum [v; Fin 0] = 0.
Proof. split; destruct v; cbn; ring. Qed.
Lemma indep_grounded3 u v : indep RNum [Fin 0; u; v] = 0 /\ indep RNum [u; Fin 0; v] = 0 /\ indep RNum [u; v; Fin 0] = 0.
Proof. repeat split; destruct u, v; cbn; ring. Qed.
Lemma dep_grounded2 v : dep RNum [Fin 0; v] = 0 /\ dep RNum [v; Fin 0] = 0.
Proof. split; destruct v; cbn; rewrite ?Rltb_irrefl; cbn; rb; try reflexivity; try lra. Qed.
Lemma dep_grounded3 u v : dep RNum [Fin 0; u; v] = 0 /\ dep RNum [u; Fin 0; v] = 0 /\ dep RNum [u; v; Fin 0] = 0.
Proof. repeat split; destruct u, v; cbn; rewrite ?Rltb_irrefl; cbn; rb; try reflexivity; try lra. Qed.
Lemma Reqb_refl x : Reqb x x = true. Proof. apply Reqb_true. reflexivity. Qed.
Lemma clayton_grounded2 th et v : clayton th et [Fin 0; v] = 0 /\ clayton th et [v; Fin 0] = 0.
Proof. unfold clayton; split; cbn; rewrite Reqb_refl; cbn; rewrite ?orb_true_r; reflexivity. Qed.
Lemma clayton_grounded3 th et u v : clayton th et [Fin 0; u; v] = 0 /\ clayton th et [u; Fin 0; v] = 0 /\ clayton th et [u; v; Fin 0] = 0.
Proof. unfold clayton; repeat split; cbn; rewrite Reqb_refl; cbn; rewrite ?orb_true_r; reflexivity. Qed.

(* ---------- margins ---------- *)
Lemma indep_margins2 (u : R) : margin RNum (indep RNum) [0%nat] 2 [Fin u] = u /\ margin RNum (indep RNum) [1%nat] 2 [Fin u] = u.
Proof. split; cbn; ring. Qed.
Lemma indep_margins3 (u : R) : margin RNum (indep RNum) [0%nat] 3 [Fin u] = u /\ margin RNum (indep RNum) [1%nat] 3 [Fin u] = u /\ margin RNum (indep RNum) [2%nat] 3 [Fin u] = u.
Proof. repeat split; cbn; ring. Qed.
Lemma dep_margins2 (u : R) : margin RNum (dep RNum) [0%nat] 2 [Fin u] = u /\ margin RNum (dep RNum) [1%nat] 2 [Fin u] = u.
Proof. split; cbn; rb; lra. Qed.
Lemma dep_margins3 (u : R) : margin RNum (dep RNum) [0%nat] 3 [Fin u] = u /\ margin RNum (dep RNum) [1%nat] 3 [Fin u] = u /\ margin RNum (dep RNum) [2%nat] 3 [Fin u] = u.
Proof. repeat split; cbn; rb; lra. Qed.

Lemma Rpower_inv_theta a th : 0 < a -> 0 < th -> Rpower (Rpower a (- th)) (- 1 / th) = a.
Proof. intros Ha Ht. rewrite Rpower_mult. replace (- th * (- 1 / th)) with 1 by (field; lra). apply Rpower_1; exact Ha. Qed.
Lemma Rpower_2_0 : Rpower 2 (2 - INR 2) = 1.
Proof. replace (2 - INR 2) with 0 by (simpl; ring). apply Rpower_O; lra. Qed.
Lemma Rpower_2_m1 : Rpower 2 (2 - INR 3) = / 2.
Proof. replace (2 - INR 3) with (Ropp 1) by (simpl; ring). rewrite Rpower_Ropp, Rpower_1; lra. Qed.

Lemma clayton_margins2 th et (u : R) : 0 < th ->
  margin RNum (clayton th et) [0%nat] 2 [Fin u] = u /\ margin RNum (clayton th et) [1%nat] 2 [Fin u] = u.
Proof.
  intros Ht. unfold clayton. split; cbn -[INR]; rewrite ?Rpower_2_0.
  all: destruct (Reqb u 0) eqn:Z; [apply Reqb_true in Z; subst; cbn; ring|].
  all: assert (u <> 0) by (intro; subst; rewrite Reqb_refl in Z; discriminate).
  all: cbn; replace (0 + Rpower (Rabs u) (- th) + 0) with (Rpower (Rabs u) (- th)) by ring;
       replace (0 + 0 + Rpower (Rabs u) (- th)) with (Rpower (Rabs u) (- th)) by ring;
       rewrite (Rpower_inv_theta (Rabs u) th) by (try apply Rabs_pos_lt; assumption).
  all: destruct (Rltb u 0) eqn:S; [apply Rltb_true in S; rewrite (Rabs_left u) by lra | apply Rltb_false in S; rewrite (Rabs_right u) by lra]; cbn; ring.
Qed.

Lemma clayton_margins3 th et (u : R) : 0 < th ->
  margin RNum (clayton th et) [0%nat] 3 [Fin u] = u /\ margin RNum (clayton th et) [1%nat] 3 [Fin u] = u /\
  margin RNum (clayton th et) [2%nat] 3 [Fin u] = u.
Proof.
  intros Ht. unfold clayton. repeat split; cbn -[INR]; rewrite ?Rpower_2_m1.
  all: destruct (Reqb u 0) eqn:Z; [apply Reqb_true in Z; subst; cbn; ring|].
  all: assert (u <> 0) by (intro; subst; rewrite Reqb_refl in Z; discriminate).
  all: cbn; replace (0 + Rpower (Rabs u) (- th) + 0 + 0) with (Rpower (Rabs u) (- th)) by ring;
       replace (0 + 0 + Rpower (Rabs u) (- th) + 0) with (Rpower (Rabs u) (- th)) by ring;
       replace (0 + 0 + 0 + Rpower (Rabs u) (- th)) with (Rpower (Rabs u) (- th)) by ring;
       rewrite (Rpower_inv_theta (Rabs u) th) by (try apply Rabs_pos_lt; assumption).
  all: destruct (Rltb u 0) eqn:S; [apply Rltb_true in S; rewrite (Rabs_left u) by lra | apply Rltb_false in S; rewrite (Rabs_right u) by lra]; cbn; field.
Qed.

(* ---------- increasing: independent ---------- *)
Ltac xle_hyps := repeat match goal with
  | H : @xleb RNum (Fin _) (Fin _) = true |- _ => cbn in H; apply Rleb_true in H
  | H : @xleb RNum _ _ = true |- _ => cbn in H; try discriminate H; clear H
  end.
Lemma indep_increasing2 u1 u2 v1 v2 : @xleb RNum u1 u2 = true -> @xleb RNum v1 v2 = true ->
  (finite_side u1 u2 || finite_side v1 v2)%bool = true ->
  0 <= indep RNum [u2; v2] - indep RNum [u2; v1] - indep RNum [u1; v2] + indep RNum [u1; v1].
Proof. intros Hu Hv Hf. destruct u1, u2, v1, v2; try discriminate Hf; xle_hyps; cbn; lra. Qed.
Lemma indep_increasing3 u1 u2 v1 v2 w1 w2 : @xleb RNum u1 u2 = true -> @xleb RNum v1 v2 = true -> @xleb RNum w1 w2 = true ->
  (finite_side u1 u2 || finite_side v1 v2 || finite_side w1 w2)%bool = true ->
  0 <= indep RNum [u2; v2; w2] - indep RNum [u2; v2; w1] - indep RNum [u2; v1; w2] + indep RNum [u2; v1; w1]
       - indep RNum [u1; v2; w2] + indep RNum [u1; v2; w1] + indep RNum [u1; v1; w2] - indep RNum [u1; v1; w1].
Proof. intros Hu Hv Hw Hf. destruct u1, u2, v1, v2, w1, w2; try discriminate Hf; xle_hyps; cbn; lra. Qed.

Lemma dep_increasing2 u1 u2 v1 v2 : @xleb RNum u1 u2 = true -> @xleb RNum v1 v2 = true ->
  (finite_side u1 u2 || finite_side v1 v2)%bool = true ->
  0 <= dep RNum [u2; v2] - dep RNum [u2; v1] - dep RNum [u1; v2] + dep RNum [u1; v1].
Proof. intros Hu Hv Hf. destruct u1, u2, v1, v2; try discriminate Hf; xle_hyps; cbn; unfold emin, emax; cbn; rb; lra. Qed.

(* ---------- assembled: the piecewise-linear copulas satisfy the hypotheses of C12_nonneg ---------- *)
Theorem indep_copula2_ok : copula2_ok (indep RNum).
Proof. split; [exact indep_grounded2 | split; [exact indep_increasing2 | exact indep_margins2]]. Qed.
Theorem indep_copula3_ok : copula3_ok (indep RNum).
Proof. split; [exact indep_grounded3 | split; [exact indep_increasing3 | exact indep_margins3]]. Qed.
Theorem dep_copula2_ok : copula2_ok (dep RNum).
Proof. split; [exact dep_grounded2 | split; [exact dep_increasing2 | exact dep_margins2]]. Qed.

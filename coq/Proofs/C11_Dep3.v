(* C11 -- the completely dependent copula is 3-increasing: min of three on the closed positive octant (case analysis),
   dep = dep o (positive clamp) + dep o (negative clamp), reflection of the negative octant. *)
From Coq Require Import List Arith Bool Reals Lra Lia.
From RV Require Import Base.RB Base.ExtNum Model.Copula Proofs.C12_Mass Proofs.C11_Copula.
Import ListNotations.
Open Scope R_scope.

(* min of three extended non-negative numbers, as the dependent copula computes it on the closed positive octant *)
Definition m3 (a b c : ext R) : R := fin_val RNum (emin RNum (emin RNum a b) c).
Lemma dep3_nonneg a b c : @xlt0 RNum a = false -> @xlt0 RNum b = false -> @xlt0 RNum c = false ->
  (is_fin RNum a || is_fin RNum b || is_fin RNum c)%bool = true -> dep RNum [a; b; c] = m3 a b c.
Proof.
  intros Ha Hb Hc Hf. unfold m3.
  destruct a as [|a|], b as [|b|], c as [|c|]; try discriminate; cbn in *; unfold emin, emax; cbn;
    repeat match goal with
    | H : Rltb _ _ = false |- _ => apply Rltb_false in H
    end; rb; try reflexivity; try lra; rb; cbn; lra.
Qed.

Ltac rbp := repeat (match goal with
  | |- context[Rleb ?a ?b] => let E := fresh "E" in destruct (Rleb a b) eqn:E; [apply Rleb_true in E | apply Rleb_false in E]; cbn [fin_val xleb nleb RNum]; try lra
  end).
Lemma m3_inc u1 u2 v1 v2 w1 w2 :
  @xlt0 RNum u1 = false -> @xlt0 RNum v1 = false -> @xlt0 RNum w1 = false ->
  @xleb RNum u1 u2 = true -> @xleb RNum v1 v2 = true -> @xleb RNum w1 w2 = true ->
  (finite_side u1 u2 || finite_side v1 v2 || finite_side w1 w2)%bool = true ->
  0 <= m3 u2 v2 w2 - m3 u2 v2 w1 - m3 u2 v1 w2 + m3 u2 v1 w1 - m3 u1 v2 w2 + m3 u1 v2 w1 + m3 u1 v1 w2 - m3 u1 v1 w1.
Proof.
  intros Nu Nv Nw Lu Lv Lw Hf. unfold m3, emin.
  destruct u1 as [|a1|], u2 as [|a2|]; try discriminate; destruct v1 as [|b1|], v2 as [|b2|]; try discriminate;
  destruct w1 as [|c1|], w2 as [|c2|]; try discriminate; cbn in *;
  repeat match goal with
    | H : Rltb _ _ = false |- _ => apply Rltb_false in H
    | H : Rleb _ _ = true |- _ => apply Rleb_true in H
    end; try lra; cbn [fin_val xleb nleb RNum]; rbp.
Qed.

(* ---- the whole domain: dep = (dep on the positive clamp) + (dep on the negative clamp) ---------------------- *)
Definition clp (x : ext R) : ext R := if @xlt0 RNum x then Fin 0 else x.
Definition cln (x : ext R) : ext R := if @xlt0 RNum x then x else Fin 0.
Definition rfl (x : ext R) : ext R := match x with NInf => PInf | Fin v => Fin (- v) | PInf => NInf end.

Lemma xneg_lt0 (x : ext R) : xneg RNum x = @xlt0 RNum x. Proof. destruct x; reflexivity. Qed.
Lemma xpos_lt0 (x : ext R) : @xlt0 RNum x = true -> xpos RNum x = false.
Proof. destruct x; simpl; try congruence. intros H. apply Rltb_true in H. apply Rltb_false. lra. Qed.
Lemma dep3_mixed u v w : (xpos RNum u && xpos RNum v && xpos RNum w)%bool = false ->
  (@xlt0 RNum u && @xlt0 RNum v && @xlt0 RNum w)%bool = false -> dep RNum [u; v; w] = 0.
Proof. intros Hp Hn. unfold dep. cbn [forallb]. rewrite (xneg_lt0 u), (xneg_lt0 v), (xneg_lt0 w), !andb_true_r.
  replace (xpos RNum u && (xpos RNum v && xpos RNum w))%bool with false by (rewrite andb_assoc; auto).
  replace (@xlt0 RNum u && (@xlt0 RNum v && @xlt0 RNum w))%bool with false by (rewrite andb_assoc; auto). reflexivity. Qed.
Lemma dep3_split u v w : dep RNum [u; v; w] = dep RNum [clp u; clp v; clp w] + dep RNum [cln u; cln v; cln w].
Proof.
  unfold clp, cln. pose proof (dep_grounded3) as G.
  destruct (@xlt0 RNum u) eqn:U; destruct (@xlt0 RNum v) eqn:V; destruct (@xlt0 RNum w) eqn:W;
    rewrite ?(proj1 (G _ _)), ?(proj1 (proj2 (G _ _))), ?(proj2 (proj2 (G _ _))); try (rewrite ?Rplus_0_l, ?Rplus_0_r; reflexivity);
    rewrite dep3_mixed; try (rewrite ?Rplus_0_l; reflexivity); rewrite ?U, ?V, ?W, ?(xpos_lt0 _ U), ?(xpos_lt0 _ V), ?(xpos_lt0 _ W), ?andb_false_r; reflexivity.
Qed.

Lemma dep3_nonpos a b c : @xgt0 RNum a = false -> @xgt0 RNum b = false -> @xgt0 RNum c = false ->
  (is_fin RNum a || is_fin RNum b || is_fin RNum c)%bool = true -> dep RNum [a; b; c] = - m3 (rfl a) (rfl b) (rfl c).
Proof.
  intros Ha Hb Hc Hf. unfold m3.
  destruct a as [|a|], b as [|b|], c as [|c|]; try discriminate; cbn in *; unfold emin, emax; cbn;
    repeat match goal with
    | H : Rltb _ _ = false |- _ => apply Rltb_false in H
    end; rb; try lra; rb; cbn; try lra; rb; cbn; lra.
Qed.

Lemma clp_nonneg x : @xlt0 RNum (clp x) = false.
Proof. unfold clp. destruct (@xlt0 RNum x) eqn:E; auto. simpl. apply Rltb_irrefl. Qed.
Lemma cln_nonpos x : @xgt0 RNum (cln x) = false.
Proof. unfold cln. destruct (@xlt0 RNum x) eqn:E. destruct x; simpl in *; try congruence. apply Rltb_true in E. apply Rltb_false. lra.
  simpl. apply Rltb_irrefl. Qed.
Lemma clp_mono x y : @xleb RNum x y = true -> @xleb RNum (clp x) (clp y) = true.
Proof. unfold clp. intros L. destruct (@xlt0 RNum y) eqn:Y. rewrite (lt0_mono _ _ L Y). simpl. apply Rleb_true; lra.
  destruct (@xlt0 RNum x) eqn:X; auto. destruct y; simpl in *; try congruence. apply Rltb_false in Y. apply Rleb_true; lra. Qed.
Lemma rfl_cln_mono x y : @xleb RNum x y = true -> @xleb RNum (rfl (cln y)) (rfl (cln x)) = true.
Proof. unfold cln. intros L. destruct (@xlt0 RNum y) eqn:Y.
  - rewrite (lt0_mono _ _ L Y). destruct x, y; simpl in *; try congruence. apply Rleb_true in L. apply Rleb_true. lra.
  - destruct (@xlt0 RNum x) eqn:X. destruct x; simpl in *; try congruence. apply Rltb_true in X. apply Rleb_true. lra.
    simpl. apply Rleb_true; lra. Qed.
Lemma rfl_cln_nonneg x : @xlt0 RNum (rfl (cln x)) = false.
Proof. unfold cln. destruct (@xlt0 RNum x) eqn:X. destruct x; simpl in *; try congruence. apply Rltb_true in X. apply Rltb_false. lra.
  simpl. apply Rltb_false. lra. Qed.
Lemma fin_clp x : is_fin RNum x = true -> is_fin RNum (clp x) = true.
Proof. unfold clp. destruct (@xlt0 RNum x); auto. Qed.
Lemma fin_cln x : is_fin RNum x = true -> is_fin RNum (cln x) = true.
Proof. unfold cln. destruct (@xlt0 RNum x); auto. Qed.
Lemma fin_rfl x : is_fin RNum x = true -> is_fin RNum (rfl x) = true.
Proof. destruct x; auto. Qed.

Theorem dep_increasing3 u1 u2 v1 v2 w1 w2 : @xleb RNum u1 u2 = true -> @xleb RNum v1 v2 = true -> @xleb RNum w1 w2 = true ->
  (finite_side u1 u2 || finite_side v1 v2 || finite_side w1 w2)%bool = true ->
  0 <= dep RNum [u2; v2; w2] - dep RNum [u2; v2; w1] - dep RNum [u2; v1; w2] + dep RNum [u2; v1; w1]
       - dep RNum [u1; v2; w2] + dep RNum [u1; v2; w1] + dep RNum [u1; v1; w2] - dep RNum [u1; v1; w1].
Proof.
  intros Lu Lv Lw Hf.
  assert (FIN : forall a b c, In a [u1; u2] -> In b [v1; v2] -> In c [w1; w2] ->
            is_fin RNum a = true \/ is_fin RNum b = true \/ is_fin RNum c = true).
  { intros a b c Ha Hb Hc. apply orb_true_iff in Hf. unfold finite_side in Hf.
    destruct Hf as [Hf|Hf]; [apply orb_true_iff in Hf; destruct Hf as [Hf|Hf]|]; apply andb_prop in Hf; destruct Hf as [F1 F2].
    - left. simpl in Ha. destruct Ha as [<-|[<-|[]]]; assumption.
    - right; left. simpl in Hb. destruct Hb as [<-|[<-|[]]]; assumption.
    - right; right. simpl in Hc. destruct Hc as [<-|[<-|[]]]; assumption. }
  assert (POS : forall a b c, In a [u1; u2] -> In b [v1; v2] -> In c [w1; w2] ->
            dep RNum [clp a; clp b; clp c] = m3 (clp a) (clp b) (clp c)).
  { intros a b c Ha Hb Hc. apply dep3_nonneg; try apply clp_nonneg.
    destruct (FIN a b c Ha Hb Hc) as [F|[F|F]]; rewrite (fin_clp _ F); rewrite ?orb_true_r; reflexivity. }
  assert (NEG : forall a b c, In a [u1; u2] -> In b [v1; v2] -> In c [w1; w2] ->
            dep RNum [cln a; cln b; cln c] = - m3 (rfl (cln a)) (rfl (cln b)) (rfl (cln c))).
  { intros a b c Ha Hb Hc. apply dep3_nonpos; try apply cln_nonpos.
    destruct (FIN a b c Ha Hb Hc) as [F|[F|F]]; rewrite (fin_cln _ F); rewrite ?orb_true_r; reflexivity. }
  rewrite (dep3_split u2 v2 w2), (dep3_split u2 v2 w1), (dep3_split u2 v1 w2), (dep3_split u2 v1 w1),
          (dep3_split u1 v2 w2), (dep3_split u1 v2 w1), (dep3_split u1 v1 w2), (dep3_split u1 v1 w1).
  rewrite !POS, !NEG by (simpl; auto).
  assert (fs : forall f a b, (forall x, is_fin RNum x = true -> is_fin RNum (f x) = true) -> finite_side a b = true -> finite_side (f a) (f b) = true).
  { intros f a b Hfn H. unfold finite_side in *. apply andb_prop in H. destruct H as [A B]. rewrite (Hfn _ A), (Hfn _ B). reflexivity. }
  assert (Hfp : (finite_side (clp u1) (clp u2) || finite_side (clp v1) (clp v2) || finite_side (clp w1) (clp w2))%bool = true).
  { apply orb_true_iff in Hf. destruct Hf as [Hf|Hf]; [apply orb_true_iff in Hf; destruct Hf as [Hf|Hf]|];
      rewrite (fs clp _ _ fin_clp Hf); rewrite ?orb_true_r; reflexivity. }
  assert (Hfn : (finite_side (rfl (cln u2)) (rfl (cln u1)) || finite_side (rfl (cln v2)) (rfl (cln v1)) || finite_side (rfl (cln w2)) (rfl (cln w1)))%bool = true).
  { assert (sw : forall a b, finite_side a b = true -> finite_side (rfl (cln b)) (rfl (cln a)) = true).
    { intros a b H. unfold finite_side in *. apply andb_prop in H. destruct H as [A B]. rewrite (fin_rfl _ (fin_cln _ A)), (fin_rfl _ (fin_cln _ B)). reflexivity. }
    apply orb_true_iff in Hf. destruct Hf as [Hf|Hf]; [apply orb_true_iff in Hf; destruct Hf as [Hf|Hf]|];
      rewrite (sw _ _ Hf); rewrite ?orb_true_r; reflexivity. }
  pose proof (m3_inc (clp u1) (clp u2) (clp v1) (clp v2) (clp w1) (clp w2) (clp_nonneg _) (clp_nonneg _) (clp_nonneg _)
                (clp_mono _ _ Lu) (clp_mono _ _ Lv) (clp_mono _ _ Lw) Hfp) as P.
  pose proof (m3_inc (rfl (cln u2)) (rfl (cln u1)) (rfl (cln v2)) (rfl (cln v1)) (rfl (cln w2)) (rfl (cln w1))
                (rfl_cln_nonneg _) (rfl_cln_nonneg _) (rfl_cln_nonneg _)
                (rfl_cln_mono _ _ Lu) (rfl_cln_mono _ _ Lv) (rfl_cln_mono _ _ Lw) Hfn) as Q.
  lra.
Qed.
Theorem dep_copula3_ok : copula3_ok (dep RNum).
Proof. split; [exact dep_grounded3 | split; [exact dep_increasing3 | exact dep_margins3]]. Qed.

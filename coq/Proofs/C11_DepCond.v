(* C11 (wave 6) -- DependentComponentsCopula.conditional_distribution (model dep_cond = number of +inf entries): a counter;
   range, monotonicity, and where it is / is not the xi-derivative of the volume of the strip (xi, xi+h] x (-inf, x]. *)
From Coq Require Import List Arith Bool Reals Lra Lia.
From RV Require Import Base.RB Base.ExtNum Model.Copula Model.CopulaX Model.CopulaX6 Proofs.C11_Copula.
Import ListNotations.
Open Scope R_scope.

Lemma dep_cond_cons {A} (t : ext A) x : dep_cond (t :: x) = ((match t with PInf => 1 | _ => 0 end) + dep_cond x)%nat.
Proof. unfold dep_cond. cbn. destruct t; reflexivity. Qed.

Lemma dep_cond_le_length {A} (x : list (ext A)) : (dep_cond x <= length x)%nat.
Proof. induction x as [|t x IH]. apply Nat.le_refl. rewrite dep_cond_cons. cbn [length]. destruct t; lia. Qed.

Lemma dep_cond_all {A} (x : list (ext A)) : dep_cond x = length x <-> Forall (fun t => t = PInf) x.
Proof.
  induction x as [|t x IH]. split; [constructor | reflexivity].
  rewrite dep_cond_cons. cbn [length]. pose proof (dep_cond_le_length x). split.
  - intros H0. destruct t; try lia. constructor. reflexivity. apply IH. lia.
  - intros H0. inversion H0 as [|? ? Ht Hx]; subst. apply IH in Hx. lia.
Qed.

Lemma dep_cond_monotone (x y : list (ext R)) : Forall2 (fun a b => @xleb RNum a b = true) x y -> (dep_cond x <= dep_cond y)%nat.
Proof.
  induction 1 as [|a b x y Hab _ IH]. apply Nat.le_refl.
  rewrite !dep_cond_cons. destruct a, b; cbn in Hab; try discriminate Hab; lia.
Qed.

Lemma dep_cond_single (t : ext R) : dep_cond [t] = if @xleb RNum PInf t then 1%nat else 0%nat.
Proof. destruct t; reflexivity. Qed.


Lemma dep_strip_inf xi h : 0 < h -> dep_strip xi h PInf = h * INR (dep_cond [@PInf R]) /\ dep_strip xi h NInf = h * INR (dep_cond [@NInf R]).
Proof.
  intros Hh. unfold dep_strip, volume. cbn. unfold emin, emax; cbn. split; rb; lra.
Qed.

Lemma dep_strip_fin xi h x : 0 < h -> 0 < xi \/ xi + h < 0 ->
  (x <= xi -> dep_strip xi h (Fin x) = h * INR (dep_cond [Fin x])) /\
  (xi + h <= x -> dep_strip xi h (Fin x) = h /\ dep_cond [Fin x] = 0%nat).
Proof.
  intros Hh Hs. unfold dep_strip, volume. cbn. unfold emin, emax; cbn. split; [intros Hx | intros Hx; split; [|reflexivity]]; rb; lra.
Qed.

(* C11 (wave 5) -- the py2coq-generated Clayton conditional distribution and closed-form inverse (Gen/GenC11Clayton.v, regenerated
   from rpylib/distribution/levycopula.py on every run) ARE the hand models clayton_cond / clayton_inv of Model/Copula.v, for all
   arguments; hence the theorems of C11_CondDist.v / C11_Clayton.v / C11_CondX.v speak about the current source text. *)
From Coq Require Import List Arith Bool Reals Lra.
From RV Require Import Base.RB Base.ExtNum Model.Copula Model.CopulaX Gen.GenC11Clayton Proofs.C11_Clayton Proofs.C11_CondDist Proofs.C11_CondX.
Open Scope R_scope.

Theorem gen_cond_is_model th et eps x : gen_clayton_cond th et eps x = clayton_cond th et eps x.
Proof. unfold gen_clayton_cond, clayton_cond. destruct (Rleb 0 eps); [destruct (Rltb x 0) | destruct (Rleb 0 x)]; reflexivity. Qed.

Theorem gen_inv_is_model th et eps u : gen_clayton_inv th et eps u = clayton_inv th et eps u.
Proof.
  unfold gen_clayton_inv, clayton_inv, clayton_fun_b, clayton_fun_c, np_where, np_sign, sgn.
  destruct (Rleb 0 eps); [destruct (Rleb (1 - et) u) | destruct (Rleb et u)]; reflexivity.
Qed.

(* the headline facts, restated on the generated definitions *)
Theorem gen_clayton_facts th et : 0 < th ->
  (forall eps x, gen_clayton_cond th et eps x = clayton_cond th et eps x) /\
  (forall eps u, gen_clayton_inv th et eps u = clayton_inv th et eps u) /\
  (forall eps x, eps <> 0 -> x <> 0 -> clayton_cond_x th et eps (Fin x) = gen_clayton_cond th et eps x) /\
  (0 < et < 1 -> forall eps x, eps <> 0 -> x <> 0 -> gen_clayton_inv th et eps (gen_clayton_cond th et eps x) = x) /\
  (0 < et < 1 -> forall eps u, eps <> 0 -> 0 < u < 1 -> u <> (if Rleb 0 eps then 1 - et else et) ->
     gen_clayton_cond th et eps (gen_clayton_inv th et eps u) = u) /\
  (0 <= et <= 1 -> forall eps x y, eps <> 0 -> x <> 0 -> y <> 0 -> x <= y ->
     0 <= gen_clayton_cond th et eps x /\ gen_clayton_cond th et eps x <= gen_clayton_cond th et eps y /\ gen_clayton_cond th et eps y <= 1).
Proof.
  intros Hth. split; [|split; [|split; [|split; [|split]]]].
  - intros. apply gen_cond_is_model.
  - intros. apply gen_inv_is_model.
  - intros. rewrite gen_cond_is_model. apply cond_x_agrees; assumption.
  - intros Het eps x He Hx. rewrite gen_cond_is_model, gen_inv_is_model. apply clayton_inverse; assumption.
  - intros Het eps u He Hu Hj. rewrite gen_inv_is_model, gen_cond_is_model. apply cond_right_inverse; assumption.
  - intros Het eps x y He Hx Hy Hxy. rewrite !gen_cond_is_model.
    pose proof (cond_range th et Hth Het eps x He Hx). pose proof (cond_range th et Hth Het eps y He Hy).
    pose proof (cond_monotone th et Hth Het eps x y He Hx Hy Hxy). lra.
Qed.

(* C11 -- d-increasingness of the Clayton copula on all of (-inf, inf]^d (rectangles with a finite side), d = 2, 3.
   1. finite differences of J(t) = t^(-beta): D1 <= 0, D2 >= 0, D3 <= 0 (mean value theorem, Coquelicot);
   2. the Clayton kernel in "p-coordinates" p = |u|^(-theta) (p = 0 for u = +-inf, a flag for u = 0): Ke2_inc, Ke3_inc;
   3. assembly across quadrants / octants (assemble2, assemble3): split every coordinate interval at 0, groundedness on the
      axes, weights eta, 1 - eta >= 0 with the sign (-1)^(number of reflected coordinates);
   4. clayton_copula2_ok, clayton_copula3_ok. *)
From Coq Require Import List Arith Bool Reals Lra Lia.
From Coquelicot Require Import Coquelicot.
From RV Require Import Base.RB Base.ExtNum Model.Copula Proofs.C12_Mass Proofs.C11_Copula Proofs.C11_Clayton.
Import ListNotations.
Open Scope R_scope.

(* ---- finite differences of J(t) = t^(-beta), beta > 0, t > 0: D1 <= 0, D2 >= 0, D3 <= 0 ---------------- *)
Section Diff.
  Variable be : R.
  Hypothesis Hbe : 0 < be.
  Definition J (t : R) : R := Rpower t (- be).
  Definition dJ (t : R) : R := - be * Rpower t (- be - 1).

  Lemma J_derive t : 0 < t -> is_derive J t (dJ t).
  Proof.
    intros Ht. unfold J, dJ, Rpower. auto_derive. assumption.
    replace ((- be - 1) * ln t) with (- be * ln t + - ln t) by ring.
    rewrite exp_plus, exp_Ropp, exp_ln by assumption. field. lra.
  Qed.
  Lemma J_pos t : 0 < J t. Proof. apply Rpower_pos. Qed.
  Lemma D1 s t : 0 < s -> s <= t -> J t <= J s.
  Proof. intros. unfold J. apply Rpower_le_neg; lra. Qed.
  Lemma dJ_mono s t : 0 < s -> s <= t -> dJ s <= dJ t.
  Proof. intros. unfold dJ. assert (Rpower t (- be - 1) <= Rpower s (- be - 1)) by (apply Rpower_le_neg; lra). nra. Qed.
End Diff.

(* generic: if g' = dg on [a,b] then sign information on dg transfers to g b - g a *)
Lemma mvt_sign (g dg : R -> R) a b : a <= b -> (forall x, a <= x <= b -> is_derive g x (dg x)) ->
  exists c, a <= c <= b /\ g b - g a = dg c * (b - a).
Proof.
  intros Hab Hd. destruct (Req_dec a b) as [->|Hne]. exists b; split; [lra | ring].
  destruct (MVT_gen g a b dg) as [c [Hc E]].
  - intros x Hx. rewrite Rmin_left, Rmax_right in Hx by lra. apply Hd; lra.
  - intros x Hx. rewrite Rmin_left, Rmax_right in Hx by lra. apply derivable_continuous_pt. apply ex_derive_Reals_0. exists (dg x). apply Hd; lra.
  - rewrite Rmin_left, Rmax_right in Hc by lra. exists c; auto.
Qed.

(* D2: for s11 > 0, dx, dy >= 0 :  J(s11+dx+dy) - J(s11+dx) - J(s11+dy) + J(s11) >= 0 *)
Lemma D2 be s dx dy : 0 < be -> 0 < s -> 0 <= dx -> 0 <= dy ->
  0 <= J be (s + dx + dy) - J be (s + dx) - J be (s + dy) + J be s.
Proof.
  intros Hbe Hs Hx Hy.
  pose (g := fun x => J be (x + dy) - J be x). pose (dg := fun x => dJ be (x + dy) - dJ be x).
  destruct (mvt_sign g dg s (s + dx)) as [c [Hc E]]. lra.
  - intros x Hx'. unfold g, dg.
    apply (is_derive_minus (fun z => J be (z + dy)) (fun z => J be z) x (dJ be (x + dy)) (dJ be x)).
    + evar_last. apply (is_derive_comp (J be) (fun z => z + dy) x (dJ be (x + dy)) 1).
      apply J_derive; lra. auto_derive; auto; ring. unfold scal; simpl; unfold mult; simpl; ring.
    + apply J_derive; lra.
  - unfold g in E. assert (0 <= dg c) by (unfold dg; pose proof (dJ_mono be Hbe c (c + dy)); lra).
    assert (0 <= dg c * (s + dx - s)) by (apply Rmult_le_pos; lra).
    replace (s + dx + dy) with (s + dx + dy) by ring. lra.
Qed.

(* D3: third difference <= 0 *)
Lemma D3 be s dx dy dz : 0 < be -> 0 < s -> 0 <= dx -> 0 <= dy -> 0 <= dz ->
  J be (s + dx + dy + dz) - J be (s + dx + dy) - J be (s + dx + dz) + J be (s + dx)
  - J be (s + dy + dz) + J be (s + dy) + J be (s + dz) - J be s <= 0.
Proof.
  intros Hbe Hs Hx Hy Hz.
  pose (g := fun x => J be (x + dy + dz) - J be (x + dy) - J be (x + dz) + J be x).
  pose (dg := fun x => dJ be (x + dy + dz) - dJ be (x + dy) - dJ be (x + dz) + dJ be x).
  destruct (mvt_sign g dg s (s + dx)) as [c [Hc E]]. lra.
  - intros x Hx'. unfold g, dg.
    assert (Hd : forall k, 0 <= k -> is_derive (fun z => J be (z + k)) x (dJ be (x + k))).
    { intros k Hk. evar_last. apply (is_derive_comp (J be) (fun z => z + k) x (dJ be (x + k)) 1).
      apply J_derive; lra. auto_derive; auto; ring. unfold scal; simpl; unfold mult; simpl; ring. }
    apply (is_derive_plus (fun z => J be (z + dy + dz) - J be (z + dy) - J be (z + dz)) (J be) x).
    + apply (is_derive_minus (fun z => J be (z + dy + dz) - J be (z + dy)) (fun z => J be (z + dz)) x).
      * apply (is_derive_minus (fun z => J be (z + dy + dz)) (fun z => J be (z + dy)) x).
        -- apply (is_derive_ext (fun z => J be (z + (dy + dz)))). intros; f_equal; ring.
           replace (x + dy + dz) with (x + (dy + dz)) by ring. apply Hd; lra.
        -- apply Hd; lra.
      * apply Hd; lra.
    + apply J_derive; lra.
  - (* dg c = -be * D2 at exponent be+1 <= 0 *)
    assert (Hdg : dg c <= 0).
    { unfold dg, dJ. pose proof (D2 (be + 1) c dy dz ltac:(lra) ltac:(lra) Hy Hz) as H2. unfold J in H2.
      replace (- (be + 1)) with (- be - 1) in H2 by ring. nra. }
    assert (dg c * (s + dx - s) <= 0) by (replace (s + dx - s) with dx by ring; nra).
    unfold g in E. replace (s + dx + dy + dz) with (s + dx + dy + dz) by ring. lra.
Qed.

(* ---- the Clayton kernel in "p-coordinates": an argument is either 0 (flag true: kernel value 0) or carries p = x^(-theta) >= 0
        (p = 0 for x = +inf); K = J(sum of p).  A coordinate interval (lower, upper] has lower flag zl / p-value pl >= pu. ------- *)
Definition Ke2 be (a b : bool * R) : R := if (fst a || fst b)%bool then 0 else J be (snd a + snd b).
Definition Ke3 be (a b c : bool * R) : R := if (fst a || fst b || fst c)%bool then 0 else J be (snd a + snd b + snd c).
Definition side_ok (zl zu : bool) (pl pu : R) : Prop :=
  (zu = true -> zl = true) /\ (zl = false -> pu <= pl) /\ (zu = false -> 0 <= pu).

Lemma Ke2_inc be zl1 zu1 pl1 pu1 zl2 zu2 pl2 pu2 : 0 < be ->
  side_ok zl1 zu1 pl1 pu1 -> side_ok zl2 zu2 pl2 pu2 -> ((zu1 || zu2)%bool = true \/ 0 < pu1 + pu2) ->
  0 <= Ke2 be (zu1, pu1) (zu2, pu2) - Ke2 be (zu1, pu1) (zl2, pl2) - Ke2 be (zl1, pl1) (zu2, pu2) + Ke2 be (zl1, pl1) (zl2, pl2).
Proof.
  intros Hbe [A1 [B1 C1]] [A2 [B2 C2]] Hb. unfold Ke2. cbn [fst snd].
  destruct zu1; [rewrite (A1 eq_refl); cbn; lra|]. destruct zu2; [rewrite (A2 eq_refl); rewrite !orb_true_r; cbn; lra|].
  destruct Hb as [Hb|Hb]; [discriminate|]. specialize (C1 eq_refl). specialize (C2 eq_refl).
  destruct zl1, zl2; cbn.
  - pose proof (J_pos be (pu1 + pu2)). lra.
  - specialize (B2 eq_refl). pose proof (D1 be Hbe (pu1 + pu2) (pu1 + pl2)). lra.
  - specialize (B1 eq_refl). pose proof (D1 be Hbe (pu1 + pu2) (pl1 + pu2)). lra.
  - specialize (B1 eq_refl). specialize (B2 eq_refl).
    pose proof (D2 be (pu1 + pu2) (pl1 - pu1) (pl2 - pu2) Hbe Hb ltac:(lra) ltac:(lra)) as H.
    replace (pu1 + pu2 + (pl1 - pu1) + (pl2 - pu2)) with (pl1 + pl2) in H by ring.
    replace (pu1 + pu2 + (pl1 - pu1)) with (pl1 + pu2) in H by ring.
    replace (pu1 + pu2 + (pl2 - pu2)) with (pu1 + pl2) in H by ring. lra.
Qed.

Lemma Ke3_inc be zl1 zu1 pl1 pu1 zl2 zu2 pl2 pu2 zl3 zu3 pl3 pu3 : 0 < be ->
  side_ok zl1 zu1 pl1 pu1 -> side_ok zl2 zu2 pl2 pu2 -> side_ok zl3 zu3 pl3 pu3 ->
  ((zu1 || zu2 || zu3)%bool = true \/ 0 < pu1 + pu2 + pu3) ->
  0 <= Ke3 be (zu1, pu1) (zu2, pu2) (zu3, pu3) - Ke3 be (zu1, pu1) (zu2, pu2) (zl3, pl3)
       - Ke3 be (zu1, pu1) (zl2, pl2) (zu3, pu3) + Ke3 be (zu1, pu1) (zl2, pl2) (zl3, pl3)
       - Ke3 be (zl1, pl1) (zu2, pu2) (zu3, pu3) + Ke3 be (zl1, pl1) (zu2, pu2) (zl3, pl3)
       + Ke3 be (zl1, pl1) (zl2, pl2) (zu3, pu3) - Ke3 be (zl1, pl1) (zl2, pl2) (zl3, pl3).
Proof.
  intros Hbe [A1 [B1 C1]] [A2 [B2 C2]] [A3 [B3 C3]] Hb. unfold Ke3. cbn [fst snd].
  destruct zu1; [rewrite (A1 eq_refl); cbn; lra|].
  destruct zu2; [rewrite (A2 eq_refl); cbn; rewrite ?orb_true_r; cbn; lra|].
  destruct zu3; [rewrite (A3 eq_refl); cbn; rewrite ?orb_true_r; cbn; lra|].
  destruct Hb as [Hb|Hb]; [discriminate|]. specialize (C1 eq_refl). specialize (C2 eq_refl). specialize (C3 eq_refl).
  set (s := pu1 + pu2 + pu3) in *.
  destruct zl1, zl2, zl3; cbn; try specialize (B1 eq_refl); try specialize (B2 eq_refl); try specialize (B3 eq_refl).
  - pose proof (J_pos be s). lra.
  - pose proof (D1 be Hbe s (pu1 + pu2 + pl3)). unfold s in *. lra.
  - pose proof (D1 be Hbe s (pu1 + pl2 + pu3)). unfold s in *. lra.
  - pose proof (D2 be s (pl2 - pu2) (pl3 - pu3) Hbe Hb ltac:(lra) ltac:(lra)) as H. unfold s in *.
    replace (pu1 + pu2 + pu3 + (pl2 - pu2) + (pl3 - pu3)) with (pu1 + pl2 + pl3) in H by ring.
    replace (pu1 + pu2 + pu3 + (pl2 - pu2)) with (pu1 + pl2 + pu3) in H by ring.
    replace (pu1 + pu2 + pu3 + (pl3 - pu3)) with (pu1 + pu2 + pl3) in H by ring. lra.
  - pose proof (D1 be Hbe s (pl1 + pu2 + pu3)). unfold s in *. lra.
  - pose proof (D2 be s (pl1 - pu1) (pl3 - pu3) Hbe Hb ltac:(lra) ltac:(lra)) as H. unfold s in *.
    replace (pu1 + pu2 + pu3 + (pl1 - pu1) + (pl3 - pu3)) with (pl1 + pu2 + pl3) in H by ring.
    replace (pu1 + pu2 + pu3 + (pl1 - pu1)) with (pl1 + pu2 + pu3) in H by ring.
    replace (pu1 + pu2 + pu3 + (pl3 - pu3)) with (pu1 + pu2 + pl3) in H by ring. lra.
  - pose proof (D2 be s (pl1 - pu1) (pl2 - pu2) Hbe Hb ltac:(lra) ltac:(lra)) as H. unfold s in *.
    replace (pu1 + pu2 + pu3 + (pl1 - pu1) + (pl2 - pu2)) with (pl1 + pl2 + pu3) in H by ring.
    replace (pu1 + pu2 + pu3 + (pl1 - pu1)) with (pl1 + pu2 + pu3) in H by ring.
    replace (pu1 + pu2 + pu3 + (pl2 - pu2)) with (pu1 + pl2 + pu3) in H by ring. lra.
  - pose proof (D3 be s (pl1 - pu1) (pl2 - pu2) (pl3 - pu3) Hbe Hb ltac:(lra) ltac:(lra) ltac:(lra)) as H. unfold s in *.
    replace (pu1 + pu2 + pu3 + (pl1 - pu1) + (pl2 - pu2) + (pl3 - pu3)) with (pl1 + pl2 + pl3) in H by ring.
    replace (pu1 + pu2 + pu3 + (pl1 - pu1) + (pl2 - pu2)) with (pl1 + pl2 + pu3) in H by ring.
    replace (pu1 + pu2 + pu3 + (pl1 - pu1) + (pl3 - pu3)) with (pl1 + pu2 + pl3) in H by ring.
    replace (pu1 + pu2 + pu3 + (pl1 - pu1)) with (pl1 + pu2 + pu3) in H by ring.
    replace (pu1 + pu2 + pu3 + (pl2 - pu2) + (pl3 - pu3)) with (pu1 + pl2 + pl3) in H by ring.
    replace (pu1 + pu2 + pu3 + (pl2 - pu2)) with (pu1 + pl2 + pu3) in H by ring.
    replace (pu1 + pu2 + pu3 + (pl3 - pu3)) with (pu1 + pu2 + pl3) in H by ring. lra.
Qed.

(* ---- assembly across quadrants: a copula of the form  cop [u; v] = c(u<0, v<0) * K (e u) (e v)  with a kernel K that is
        2-increasing in the encoded coordinates is 2-increasing on all of (-inf, inf]^2 (rectangles with a finite side) ------ *)
Section Assemble2.
  Variable e : ext R -> bool * R.
  Variable K : bool * R -> bool * R -> R.
  Variable c : bool -> bool -> R.
  Variable cop : list (ext R) -> R.
  Hypothesis e0 : fst (e (Fin 0)) = true.
  Hypothesis e_nn : forall u, 0 <= snd (e u).
  Hypothesis e_P : forall u1 u2, @xleb RNum u1 u2 = true -> @xlt0 RNum u1 = false ->
    (fst (e u2) = true -> fst (e u1) = true) /\ (fst (e u1) = false -> snd (e u2) <= snd (e u1)).
  Hypothesis e_N : forall u1 u2, @xleb RNum u1 u2 = true -> @xlt0 RNum u2 = true ->
    (fst (e u1) = true -> fst (e u2) = true) /\ (fst (e u2) = false -> snd (e u1) <= snd (e u2)).
  Hypothesis e_fin : forall u, is_fin RNum u = true -> fst (e u) = true \/ 0 < snd (e u).
  Hypothesis K_zero : forall a b, (fst a || fst b)%bool = true -> K a b = 0.
  Hypothesis K_inc : forall zl1 zu1 pl1 pu1 zl2 zu2 pl2 pu2,
    side_ok zl1 zu1 pl1 pu1 -> side_ok zl2 zu2 pl2 pu2 -> ((zu1 || zu2)%bool = true \/ 0 < pu1 + pu2) ->
    0 <= K (zu1, pu1) (zu2, pu2) - K (zu1, pu1) (zl2, pl2) - K (zl1, pl1) (zu2, pu2) + K (zl1, pl1) (zl2, pl2).
  Hypothesis rep : forall u v, cop [u; v] = c (@xlt0 RNum u) (@xlt0 RNum v) * K (e u) (e v).
  Hypothesis c_sign : 0 <= c false false /\ c false true <= 0 /\ c true false <= 0 /\ 0 <= c true true.

  (* the three kinds of parts of a coordinate interval, as side_ok facts *)
  Lemma part_P u1 u2 : @xleb RNum u1 u2 = true -> @xlt0 RNum u1 = false ->
    side_ok (fst (e u1)) (fst (e u2)) (snd (e u1)) (snd (e u2)).
  Proof. intros L H. destruct (e_P u1 u2 L H) as [A B]. repeat split; auto. Qed.
  Lemma part_N u1 u2 : @xleb RNum u1 u2 = true -> @xlt0 RNum u2 = true ->
    side_ok (fst (e u2)) (fst (e u1)) (snd (e u2)) (snd (e u1)).
  Proof. intros L H. destruct (e_N u1 u2 L H) as [A B]. repeat split; auto. Qed.
  Lemma part_0 u : side_ok (fst (e (Fin 0))) (fst (e u)) (snd (e (Fin 0))) (snd (e u)).
  Proof. rewrite e0. repeat split; auto; discriminate. Qed.
  Lemma Kpair a b : K a b = K (fst a, snd a) (fst b, snd b). Proof. destruct a, b; reflexivity. Qed.
  Lemma K0l b : K (e (Fin 0)) b = 0. Proof. apply K_zero. rewrite e0. reflexivity. Qed.
  Lemma K0r a : K a (e (Fin 0)) = 0. Proof. apply K_zero. rewrite e0. apply orb_true_r. Qed.
  (* base condition from a finite upper end *)
  Lemma base_l u v : is_fin RNum u = true -> (fst (e u) || fst (e v))%bool = true \/ 0 < snd (e u) + snd (e v).
  Proof. intros F. destruct (e_fin u F) as [H|H]. left; rewrite H; reflexivity. right. pose proof (e_nn v). lra. Qed.
  Lemma base_r u v : is_fin RNum v = true -> (fst (e u) || fst (e v))%bool = true \/ 0 < snd (e u) + snd (e v).
  Proof. intros F. destruct (e_fin v F) as [H|H]. left; rewrite H; apply orb_true_r. right. pose proof (e_nn u). lra. Qed.

  Theorem assemble2 : forall u1 u2 v1 v2, @xleb RNum u1 u2 = true -> @xleb RNum v1 v2 = true ->
    (finite_side u1 u2 || finite_side v1 v2)%bool = true ->
    0 <= cop [u2; v2] - cop [u2; v1] - cop [u1; v2] + cop [u1; v1].
  Proof.
    intros u1 u2 v1 v2 Lu Lv Hf. rewrite !rep. destruct c_sign as [cpp [cpn [cnp cnn]]].
    assert (BASE : forall a b, In a [u1; u2] -> In b [v1; v2] -> (fst (e a) || fst (e b))%bool = true \/ 0 < snd (e a) + snd (e b)).
    { intros a b Ha Hb. apply orb_true_iff in Hf. unfold finite_side in Hf. destruct Hf as [Hf|Hf]; apply andb_prop in Hf; destruct Hf as [F1 F2].
      - apply base_l. simpl in Ha. destruct Ha as [<-|[<-|[]]]; assumption.
      - apply base_r. simpl in Hb. destruct Hb as [<-|[<-|[]]]; assumption. }
    assert (BASE0l : forall b, In b [v1; v2] -> (fst (e (Fin 0)) || fst (e b))%bool = true \/ 0 < snd (e (Fin 0)) + snd (e b)) by (intros; left; rewrite e0; reflexivity).
    destruct (@xlt0 RNum u2) eqn:U2; [pose proof (lt0_mono _ _ Lu U2) as U1; rewrite U1 | destruct (@xlt0 RNum u1) eqn:U1];
    (destruct (@xlt0 RNum v2) eqn:V2; [pose proof (lt0_mono _ _ Lv V2) as V1; rewrite V1 | destruct (@xlt0 RNum v1) eqn:V1]).
    - (* u: N, v: N *)
      pose proof (K_inc _ _ _ _ _ _ _ _ (part_N u1 u2 Lu U2) (part_N v1 v2 Lv V2) (BASE u1 v1 ltac:(simpl; auto) ltac:(simpl; auto))) as I1; rewrite <- !Kpair in I1.
      rewrite ?K0l, ?K0r in *. nra.
    - (* u: N, v: S *)
      pose proof (K_inc _ _ _ _ _ _ _ _ (part_N u1 u2 Lu U2) (part_0 v2) (BASE u1 v2 ltac:(simpl; auto) ltac:(simpl; auto))) as I1; rewrite <- !Kpair in I1.
      pose proof (K_inc _ _ _ _ _ _ _ _ (part_N u1 u2 Lu U2) (part_0 v1) (BASE u1 v1 ltac:(simpl; auto) ltac:(simpl; auto))) as I2; rewrite <- !Kpair in I2.
      rewrite ?K0l, ?K0r in *. nra.
    - (* u: N, v: P *)
      pose proof (K_inc _ _ _ _ _ _ _ _ (part_N u1 u2 Lu U2) (part_P v1 v2 Lv V1) (BASE u1 v2 ltac:(simpl; auto) ltac:(simpl; auto))) as I1; rewrite <- !Kpair in I1.
      rewrite ?K0l, ?K0r in *. nra.
    - (* u: S, v: N *)
      pose proof (K_inc _ _ _ _ _ _ _ _ (part_0 u2) (part_N v1 v2 Lv V2) (BASE u2 v1 ltac:(simpl; auto) ltac:(simpl; auto))) as I1; rewrite <- !Kpair in I1.
      pose proof (K_inc _ _ _ _ _ _ _ _ (part_0 u1) (part_N v1 v2 Lv V2) (BASE u1 v1 ltac:(simpl; auto) ltac:(simpl; auto))) as I2; rewrite <- !Kpair in I2.
      rewrite ?K0l, ?K0r in *. nra.
    - (* u: S, v: S *)
      pose proof (K_inc _ _ _ _ _ _ _ _ (part_0 u2) (part_0 v2) (BASE u2 v2 ltac:(simpl; auto) ltac:(simpl; auto))) as I1; rewrite <- !Kpair in I1.
      pose proof (K_inc _ _ _ _ _ _ _ _ (part_0 u2) (part_0 v1) (BASE u2 v1 ltac:(simpl; auto) ltac:(simpl; auto))) as I2; rewrite <- !Kpair in I2.
      pose proof (K_inc _ _ _ _ _ _ _ _ (part_0 u1) (part_0 v2) (BASE u1 v2 ltac:(simpl; auto) ltac:(simpl; auto))) as I3; rewrite <- !Kpair in I3.
      pose proof (K_inc _ _ _ _ _ _ _ _ (part_0 u1) (part_0 v1) (BASE u1 v1 ltac:(simpl; auto) ltac:(simpl; auto))) as I4; rewrite <- !Kpair in I4.
      rewrite ?K0l, ?K0r in *. nra.
    - (* u: S, v: P *)
      pose proof (K_inc _ _ _ _ _ _ _ _ (part_0 u2) (part_P v1 v2 Lv V1) (BASE u2 v2 ltac:(simpl; auto) ltac:(simpl; auto))) as I1; rewrite <- !Kpair in I1.
      pose proof (K_inc _ _ _ _ _ _ _ _ (part_0 u1) (part_P v1 v2 Lv V1) (BASE u1 v2 ltac:(simpl; auto) ltac:(simpl; auto))) as I2; rewrite <- !Kpair in I2.
      rewrite ?K0l, ?K0r in *. nra.
    - (* u: P, v: N *)
      pose proof (K_inc _ _ _ _ _ _ _ _ (part_P u1 u2 Lu U1) (part_N v1 v2 Lv V2) (BASE u2 v1 ltac:(simpl; auto) ltac:(simpl; auto))) as I1; rewrite <- !Kpair in I1.
      rewrite ?K0l, ?K0r in *. nra.
    - (* u: P, v: S *)
      pose proof (K_inc _ _ _ _ _ _ _ _ (part_P u1 u2 Lu U1) (part_0 v2) (BASE u2 v2 ltac:(simpl; auto) ltac:(simpl; auto))) as I1; rewrite <- !Kpair in I1.
      pose proof (K_inc _ _ _ _ _ _ _ _ (part_P u1 u2 Lu U1) (part_0 v1) (BASE u2 v1 ltac:(simpl; auto) ltac:(simpl; auto))) as I2; rewrite <- !Kpair in I2.
      rewrite ?K0l, ?K0r in *. nra.
    - (* u: P, v: P *)
      pose proof (K_inc _ _ _ _ _ _ _ _ (part_P u1 u2 Lu U1) (part_P v1 v2 Lv V1) (BASE u2 v2 ltac:(simpl; auto) ltac:(simpl; auto))) as I1; rewrite <- !Kpair in I1.
      rewrite ?K0l, ?K0r in *. nra.
  Qed.
End Assemble2.

(* ---- Clayton in encoded coordinates ------------------------------------------------------------------------- *)
Definition enc (th : R) (u : ext R) : bool * R :=
  match u with Fin v => (Reqb v 0, Rpower (Rabs v) (- th)) | _ => (false, 0) end.
Lemma Reqb_false' x y : x <> y -> Reqb x y = false.
Proof. intros H. destruct (Reqb x y) eqn:E; auto. apply Reqb_true in E. contradiction. Qed.
Lemma Reqb_refl' x : Reqb x x = true. Proof. apply Reqb_true; reflexivity. Qed.

Section EncFacts.
  Variable th : R.
  Hypothesis Hth : 0 < th.
  Lemma enc0 : fst (enc th (Fin 0)) = true. Proof. simpl. apply Reqb_refl'. Qed.
  Lemma enc_nn u : 0 <= snd (enc th u).
  Proof. destruct u; simpl; try lra. left; apply Rpower_pos. Qed.
  Lemma enc_P u1 u2 : @xleb RNum u1 u2 = true -> @xlt0 RNum u1 = false ->
    (fst (enc th u2) = true -> fst (enc th u1) = true) /\ (fst (enc th u1) = false -> snd (enc th u2) <= snd (enc th u1)).
  Proof.
    destruct u1 as [|a|], u2 as [|b|]; simpl; try discriminate; intros L H.
    - apply Rleb_true in L. apply Rltb_false in H. split.
      + intros E. apply Reqb_true in E. apply Reqb_true. lra.
      + intros E. assert (a <> 0) by (intro; subst; rewrite Reqb_refl' in E; discriminate).
        rewrite (Rabs_right a), (Rabs_right b) by lra. apply Rpower_le_neg; lra.
    - split; [discriminate|]. intros _. left; apply Rpower_pos.
    - split; [discriminate|]. intros _. lra.
  Qed.
  Lemma enc_N u1 u2 : @xleb RNum u1 u2 = true -> @xlt0 RNum u2 = true ->
    (fst (enc th u1) = true -> fst (enc th u2) = true) /\ (fst (enc th u2) = false -> snd (enc th u1) <= snd (enc th u2)).
  Proof.
    destruct u1 as [|a|], u2 as [|b|]; simpl; try discriminate; intros L H.
    - split; [discriminate|]. intros _. lra.
    - split; [discriminate|]. intros _. left; apply Rpower_pos.
    - apply Rleb_true in L. apply Rltb_true in H. split.
      + intros E. apply Reqb_true in E. lra.
      + intros _. rewrite (Rabs_left a), (Rabs_left b) by lra. apply Rpower_le_neg; lra.
  Qed.
  Lemma enc_fin u : is_fin RNum u = true -> fst (enc th u) = true \/ 0 < snd (enc th u).
  Proof. destruct u; simpl; try discriminate. intros _. right. apply Rpower_pos. Qed.
End EncFacts.

Lemma Ke2_zero be a b : (fst a || fst b)%bool = true -> Ke2 be a b = 0.
Proof. intros H. unfold Ke2. rewrite H. reflexivity. Qed.
Lemma Ke3_zero be a b c : (fst a || fst b || fst c)%bool = true -> Ke3 be a b c = 0.
Proof. intros H. unfold Ke3. rewrite H. reflexivity. Qed.

Definition cl_c2 (et : R) (s t : bool) : R := if xorb s t then - (1 - et) else et.
Lemma xlt0_negative (u : ext R) : ext_negative u = @xlt0 RNum u. Proof. destruct u; reflexivity. Qed.
Lemma clayton2_enc th et u v : 0 < th ->
  clayton th et [u; v] = cl_c2 et (@xlt0 RNum u) (@xlt0 RNum v) * Ke2 (1 / th) (enc th u) (enc th v).
Proof.
  intros Hth. assert (EE : forall x, Rpower x (IZR (-1) / th) = Rpower x (- (1 / th))) by (intros; f_equal; field; lra).
  unfold clayton, Ke2, cl_c2, sign_prod_neg, clayton_sum, J.
  destruct u as [|a|], v as [|b|]; cbn -[INR Rpower]; rewrite ?Rpower_2_0, ?EE;
    repeat match goal with |- context[Reqb ?x 0] => destruct (Reqb x 0) end;
    repeat match goal with |- context[Rltb ?x 0] => destruct (Rltb x 0) end; cbn -[Rpower]; rewrite ?Rplus_0_l, ?Rplus_0_r; try ring.
Qed.

Theorem clayton_increasing2 th et : 0 < th -> 0 <= et <= 1 ->
  forall u1 u2 v1 v2, @xleb RNum u1 u2 = true -> @xleb RNum v1 v2 = true ->
  (finite_side u1 u2 || finite_side v1 v2)%bool = true ->
  0 <= clayton th et [u2; v2] - clayton th et [u2; v1] - clayton th et [u1; v2] + clayton th et [u1; v1].
Proof.
  intros Hth Het. assert (Hbe : 0 < 1 / th) by (apply Rdiv_lt_0_compat; lra).
  apply (assemble2 (enc th) (Ke2 (1 / th)) (cl_c2 et) (clayton th et)).
  - apply enc0.
  - apply enc_nn.
  - apply enc_P; assumption.
  - apply enc_N; assumption.
  - apply enc_fin.
  - apply Ke2_zero.
  - intros. apply Ke2_inc; assumption.
  - intros. apply clayton2_enc; assumption.
  - unfold cl_c2; simpl. lra.
Qed.
Theorem clayton_copula2_ok th et : 0 < th -> 0 <= et <= 1 -> copula2_ok (clayton th et).
Proof. intros Hth Het. split; [apply clayton_grounded2 | split; [apply clayton_increasing2; assumption | intros; apply clayton_margins2; assumption]]. Qed.

(* ---- assembly across octants, d = 3 ------------------------------------------------------------------------ *)
Section Assemble3.
  Variable e : ext R -> bool * R.
  Variable K : bool * R -> bool * R -> bool * R -> R.
  Variable c : bool -> bool -> bool -> R.
  Variable cop : list (ext R) -> R.
  Hypothesis e0 : fst (e (Fin 0)) = true.
  Hypothesis e_nn : forall u, 0 <= snd (e u).
  Hypothesis e_P : forall u1 u2, @xleb RNum u1 u2 = true -> @xlt0 RNum u1 = false ->
    (fst (e u2) = true -> fst (e u1) = true) /\ (fst (e u1) = false -> snd (e u2) <= snd (e u1)).
  Hypothesis e_N : forall u1 u2, @xleb RNum u1 u2 = true -> @xlt0 RNum u2 = true ->
    (fst (e u1) = true -> fst (e u2) = true) /\ (fst (e u2) = false -> snd (e u1) <= snd (e u2)).
  Hypothesis e_fin : forall u, is_fin RNum u = true -> fst (e u) = true \/ 0 < snd (e u).
  Hypothesis K_zero : forall a b d, (fst a || fst b || fst d)%bool = true -> K a b d = 0.
  Hypothesis K_inc : forall zl1 zu1 pl1 pu1 zl2 zu2 pl2 pu2 zl3 zu3 pl3 pu3,
    side_ok zl1 zu1 pl1 pu1 -> side_ok zl2 zu2 pl2 pu2 -> side_ok zl3 zu3 pl3 pu3 ->
    ((zu1 || zu2 || zu3)%bool = true \/ 0 < pu1 + pu2 + pu3) ->
    0 <= K (zu1, pu1) (zu2, pu2) (zu3, pu3) - K (zu1, pu1) (zu2, pu2) (zl3, pl3)
         - K (zu1, pu1) (zl2, pl2) (zu3, pu3) + K (zu1, pu1) (zl2, pl2) (zl3, pl3)
         - K (zl1, pl1) (zu2, pu2) (zu3, pu3) + K (zl1, pl1) (zu2, pu2) (zl3, pl3)
         + K (zl1, pl1) (zl2, pl2) (zu3, pu3) - K (zl1, pl1) (zl2, pl2) (zl3, pl3).
  Hypothesis rep : forall u v w, cop [u; v; w] = c (@xlt0 RNum u) (@xlt0 RNum v) (@xlt0 RNum w) * K (e u) (e v) (e w).
  Hypothesis c_sign : 0 <= c false false false /\ c true false false <= 0 /\ c false true false <= 0 /\ c false false true <= 0 /\
                      0 <= c true true false /\ 0 <= c true false true /\ 0 <= c false true true /\ c true true true <= 0.

  Lemma p3_P u1 u2 : @xleb RNum u1 u2 = true -> @xlt0 RNum u1 = false -> side_ok (fst (e u1)) (fst (e u2)) (snd (e u1)) (snd (e u2)).
  Proof. intros L H. destruct (e_P u1 u2 L H) as [A B]. repeat split; auto. Qed.
  Lemma p3_N u1 u2 : @xleb RNum u1 u2 = true -> @xlt0 RNum u2 = true -> side_ok (fst (e u2)) (fst (e u1)) (snd (e u2)) (snd (e u1)).
  Proof. intros L H. destruct (e_N u1 u2 L H) as [A B]. repeat split; auto. Qed.
  Lemma p3_0 u : side_ok (fst (e (Fin 0))) (fst (e u)) (snd (e (Fin 0))) (snd (e u)).
  Proof. rewrite e0. repeat split; auto; discriminate. Qed.
  Lemma K3pair a b d : K a b d = K (fst a, snd a) (fst b, snd b) (fst d, snd d). Proof. destruct a, b, d; reflexivity. Qed.
  Lemma K30a b d : K (e (Fin 0)) b d = 0. Proof. apply K_zero. rewrite e0. reflexivity. Qed.
  Lemma K30b a d : K a (e (Fin 0)) d = 0. Proof. apply K_zero. rewrite e0. rewrite orb_true_r. reflexivity. Qed.
  Lemma K30c a b : K a b (e (Fin 0)) = 0. Proof. apply K_zero. rewrite e0. apply orb_true_r. Qed.

  Theorem assemble3 : forall u1 u2 v1 v2 w1 w2, @xleb RNum u1 u2 = true -> @xleb RNum v1 v2 = true -> @xleb RNum w1 w2 = true ->
    (finite_side u1 u2 || finite_side v1 v2 || finite_side w1 w2)%bool = true ->
    0 <= cop [u2; v2; w2] - cop [u2; v2; w1] - cop [u2; v1; w2] + cop [u2; v1; w1]
         - cop [u1; v2; w2] + cop [u1; v2; w1] + cop [u1; v1; w2] - cop [u1; v1; w1].
  Proof.
    intros u1 u2 v1 v2 w1 w2 Lu Lv Lw Hf. rewrite !rep.
    destruct c_sign as [c000 [c100 [c010 [c001 [c110 [c101 [c011 c111]]]]]]].
    assert (BASE : forall a b d, In a [u1; u2] -> In b [v1; v2] -> In d [w1; w2] ->
              (fst (e a) || fst (e b) || fst (e d))%bool = true \/ 0 < snd (e a) + snd (e b) + snd (e d)).
    { intros a b d Ha Hb Hd. pose proof (e_nn a). pose proof (e_nn b). pose proof (e_nn d).
      assert (Fx : is_fin RNum a = true \/ is_fin RNum b = true \/ is_fin RNum d = true).
      { apply orb_true_iff in Hf. unfold finite_side in Hf. destruct Hf as [Hf|Hf]; [apply orb_true_iff in Hf; destruct Hf as [Hf|Hf]|];
          apply andb_prop in Hf; destruct Hf as [F1 F2].
        - left. simpl in Ha. destruct Ha as [<-|[<-|[]]]; assumption.
        - right; left. simpl in Hb. destruct Hb as [<-|[<-|[]]]; assumption.
        - right; right. simpl in Hd. destruct Hd as [<-|[<-|[]]]; assumption. }
      destruct Fx as [F|[F|F]]; destruct (e_fin _ F) as [Z|Z]; try (left; rewrite Z; rewrite ?orb_true_r; reflexivity); right; lra. }
    destruct (@xlt0 RNum u2) eqn:U2; [pose proof (lt0_mono _ _ Lu U2) as U1; rewrite U1 | destruct (@xlt0 RNum u1) eqn:U1];
    (destruct (@xlt0 RNum v2) eqn:V2; [pose proof (lt0_mono _ _ Lv V2) as V1; rewrite V1 | destruct (@xlt0 RNum v1) eqn:V1]);
    (destruct (@xlt0 RNum w2) eqn:W2; [pose proof (lt0_mono _ _ Lw W2) as W1; rewrite W1 | destruct (@xlt0 RNum w1) eqn:W1]).
    - (* u: N, v: N, w: N *)
      pose proof (K_inc _ _ _ _ _ _ _ _ _ _ _ _ (p3_N u1 u2 Lu U2) (p3_N v1 v2 Lv V2) (p3_N w1 w2 Lw W2) (BASE u1 v1 w1 ltac:(simpl; auto) ltac:(simpl; auto) ltac:(simpl; auto))) as I1; rewrite <- !K3pair in I1; rewrite ?K30a, ?K30b, ?K30c in I1.
      assert (P1 := Rmult_le_pos (- (c true true true)) _ ltac:(lra) I1).
      rewrite ?K30a, ?K30b, ?K30c. clear BASE. lra.
    - (* u: N, v: N, w: S *)
      pose proof (K_inc _ _ _ _ _ _ _ _ _ _ _ _ (p3_N u1 u2 Lu U2) (p3_N v1 v2 Lv V2) (p3_0 w2) (BASE u1 v1 w2 ltac:(simpl; auto) ltac:(simpl; auto) ltac:(simpl; auto))) as I1; rewrite <- !K3pair in I1; rewrite ?K30a, ?K30b, ?K30c in I1.
      assert (P1 := Rmult_le_pos (c true true false) _ c110 I1).
      pose proof (K_inc _ _ _ _ _ _ _ _ _ _ _ _ (p3_N u1 u2 Lu U2) (p3_N v1 v2 Lv V2) (p3_0 w1) (BASE u1 v1 w1 ltac:(simpl; auto) ltac:(simpl; auto) ltac:(simpl; auto))) as I2; rewrite <- !K3pair in I2; rewrite ?K30a, ?K30b, ?K30c in I2.
      assert (P2 := Rmult_le_pos (- (c true true true)) _ ltac:(lra) I2).
      rewrite ?K30a, ?K30b, ?K30c. clear BASE. lra.
    - (* u: N, v: N, w: P *)
      pose proof (K_inc _ _ _ _ _ _ _ _ _ _ _ _ (p3_N u1 u2 Lu U2) (p3_N v1 v2 Lv V2) (p3_P w1 w2 Lw W1) (BASE u1 v1 w2 ltac:(simpl; auto) ltac:(simpl; auto) ltac:(simpl; auto))) as I1; rewrite <- !K3pair in I1; rewrite ?K30a, ?K30b, ?K30c in I1.
      assert (P1 := Rmult_le_pos (c true true false) _ c110 I1).
      rewrite ?K30a, ?K30b, ?K30c. clear BASE. lra.
    - (* u: N, v: S, w: N *)
      pose proof (K_inc _ _ _ _ _ _ _ _ _ _ _ _ (p3_N u1 u2 Lu U2) (p3_0 v2) (p3_N w1 w2 Lw W2) (BASE u1 v2 w1 ltac:(simpl; auto) ltac:(simpl; auto) ltac:(simpl; auto))) as I1; rewrite <- !K3pair in I1; rewrite ?K30a, ?K30b, ?K30c in I1.
      assert (P1 := Rmult_le_pos (c true false true) _ c101 I1).
      pose proof (K_inc _ _ _ _ _ _ _ _ _ _ _ _ (p3_N u1 u2 Lu U2) (p3_0 v1) (p3_N w1 w2 Lw W2) (BASE u1 v1 w1 ltac:(simpl; auto) ltac:(simpl; auto) ltac:(simpl; auto))) as I2; rewrite <- !K3pair in I2; rewrite ?K30a, ?K30b, ?K30c in I2.
      assert (P2 := Rmult_le_pos (- (c true true true)) _ ltac:(lra) I2).
      rewrite ?K30a, ?K30b, ?K30c. clear BASE. lra.
    - (* u: N, v: S, w: S *)
      pose proof (K_inc _ _ _ _ _ _ _ _ _ _ _ _ (p3_N u1 u2 Lu U2) (p3_0 v2) (p3_0 w2) (BASE u1 v2 w2 ltac:(simpl; auto) ltac:(simpl; auto) ltac:(simpl; auto))) as I1; rewrite <- !K3pair in I1; rewrite ?K30a, ?K30b, ?K30c in I1.
      assert (P1 := Rmult_le_pos (- (c true false false)) _ ltac:(lra) I1).
      pose proof (K_inc _ _ _ _ _ _ _ _ _ _ _ _ (p3_N u1 u2 Lu U2) (p3_0 v2) (p3_0 w1) (BASE u1 v2 w1 ltac:(simpl; auto) ltac:(simpl; auto) ltac:(simpl; auto))) as I2; rewrite <- !K3pair in I2; rewrite ?K30a, ?K30b, ?K30c in I2.
      assert (P2 := Rmult_le_pos (c true false true) _ c101 I2).
      pose proof (K_inc _ _ _ _ _ _ _ _ _ _ _ _ (p3_N u1 u2 Lu U2) (p3_0 v1) (p3_0 w2) (BASE u1 v1 w2 ltac:(simpl; auto) ltac:(simpl; auto) ltac:(simpl; auto))) as I3; rewrite <- !K3pair in I3; rewrite ?K30a, ?K30b, ?K30c in I3.
      assert (P3 := Rmult_le_pos (c true true false) _ c110 I3).
      pose proof (K_inc _ _ _ _ _ _ _ _ _ _ _ _ (p3_N u1 u2 Lu U2) (p3_0 v1) (p3_0 w1) (BASE u1 v1 w1 ltac:(simpl; auto) ltac:(simpl; auto) ltac:(simpl; auto))) as I4; rewrite <- !K3pair in I4; rewrite ?K30a, ?K30b, ?K30c in I4.
      assert (P4 := Rmult_le_pos (- (c true true true)) _ ltac:(lra) I4).
      rewrite ?K30a, ?K30b, ?K30c. clear BASE. lra.
    - (* u: N, v: S, w: P *)
      pose proof (K_inc _ _ _ _ _ _ _ _ _ _ _ _ (p3_N u1 u2 Lu U2) (p3_0 v2) (p3_P w1 w2 Lw W1) (BASE u1 v2 w2 ltac:(simpl; auto) ltac:(simpl; auto) ltac:(simpl; auto))) as I1; rewrite <- !K3pair in I1; rewrite ?K30a, ?K30b, ?K30c in I1.
      assert (P1 := Rmult_le_pos (- (c true false false)) _ ltac:(lra) I1).
      pose proof (K_inc _ _ _ _ _ _ _ _ _ _ _ _ (p3_N u1 u2 Lu U2) (p3_0 v1) (p3_P w1 w2 Lw W1) (BASE u1 v1 w2 ltac:(simpl; auto) ltac:(simpl; auto) ltac:(simpl; auto))) as I2; rewrite <- !K3pair in I2; rewrite ?K30a, ?K30b, ?K30c in I2.
      assert (P2 := Rmult_le_pos (c true true false) _ c110 I2).
      rewrite ?K30a, ?K30b, ?K30c. clear BASE. lra.
    - (* u: N, v: P, w: N *)
      pose proof (K_inc _ _ _ _ _ _ _ _ _ _ _ _ (p3_N u1 u2 Lu U2) (p3_P v1 v2 Lv V1) (p3_N w1 w2 Lw W2) (BASE u1 v2 w1 ltac:(simpl; auto) ltac:(simpl; auto) ltac:(simpl; auto))) as I1; rewrite <- !K3pair in I1; rewrite ?K30a, ?K30b, ?K30c in I1.
      assert (P1 := Rmult_le_pos (c true false true) _ c101 I1).
      rewrite ?K30a, ?K30b, ?K30c. clear BASE. lra.
    - (* u: N, v: P, w: S *)
      pose proof (K_inc _ _ _ _ _ _ _ _ _ _ _ _ (p3_N u1 u2 Lu U2) (p3_P v1 v2 Lv V1) (p3_0 w2) (BASE u1 v2 w2 ltac:(simpl; auto) ltac:(simpl; auto) ltac:(simpl; auto))) as I1; rewrite <- !K3pair in I1; rewrite ?K30a, ?K30b, ?K30c in I1.
      assert (P1 := Rmult_le_pos (- (c true false false)) _ ltac:(lra) I1).
      pose proof (K_inc _ _ _ _ _ _ _ _ _ _ _ _ (p3_N u1 u2 Lu U2) (p3_P v1 v2 Lv V1) (p3_0 w1) (BASE u1 v2 w1 ltac:(simpl; auto) ltac:(simpl; auto) ltac:(simpl; auto))) as I2; rewrite <- !K3pair in I2; rewrite ?K30a, ?K30b, ?K30c in I2.
      assert (P2 := Rmult_le_pos (c true false true) _ c101 I2).
      rewrite ?K30a, ?K30b, ?K30c. clear BASE. lra.
    - (* u: N, v: P, w: P *)
      pose proof (K_inc _ _ _ _ _ _ _ _ _ _ _ _ (p3_N u1 u2 Lu U2) (p3_P v1 v2 Lv V1) (p3_P w1 w2 Lw W1) (BASE u1 v2 w2 ltac:(simpl; auto) ltac:(simpl; auto) ltac:(simpl; auto))) as I1; rewrite <- !K3pair in I1; rewrite ?K30a, ?K30b, ?K30c in I1.
      assert (P1 := Rmult_le_pos (- (c true false false)) _ ltac:(lra) I1).
      rewrite ?K30a, ?K30b, ?K30c. clear BASE. lra.
    - (* u: S, v: N, w: N *)
      pose proof (K_inc _ _ _ _ _ _ _ _ _ _ _ _ (p3_0 u2) (p3_N v1 v2 Lv V2) (p3_N w1 w2 Lw W2) (BASE u2 v1 w1 ltac:(simpl; auto) ltac:(simpl; auto) ltac:(simpl; auto))) as I1; rewrite <- !K3pair in I1; rewrite ?K30a, ?K30b, ?K30c in I1.
      assert (P1 := Rmult_le_pos (c false true true) _ c011 I1).
      pose proof (K_inc _ _ _ _ _ _ _ _ _ _ _ _ (p3_0 u1) (p3_N v1 v2 Lv V2) (p3_N w1 w2 Lw W2) (BASE u1 v1 w1 ltac:(simpl; auto) ltac:(simpl; auto) ltac:(simpl; auto))) as I2; rewrite <- !K3pair in I2; rewrite ?K30a, ?K30b, ?K30c in I2.
      assert (P2 := Rmult_le_pos (- (c true true true)) _ ltac:(lra) I2).
      rewrite ?K30a, ?K30b, ?K30c. clear BASE. lra.
    - (* u: S, v: N, w: S *)
      pose proof (K_inc _ _ _ _ _ _ _ _ _ _ _ _ (p3_0 u2) (p3_N v1 v2 Lv V2) (p3_0 w2) (BASE u2 v1 w2 ltac:(simpl; auto) ltac:(simpl; auto) ltac:(simpl; auto))) as I1; rewrite <- !K3pair in I1; rewrite ?K30a, ?K30b, ?K30c in I1.
      assert (P1 := Rmult_le_pos (- (c false true false)) _ ltac:(lra) I1).
      pose proof (K_inc _ _ _ _ _ _ _ _ _ _ _ _ (p3_0 u2) (p3_N v1 v2 Lv V2) (p3_0 w1) (BASE u2 v1 w1 ltac:(simpl; auto) ltac:(simpl; auto) ltac:(simpl; auto))) as I2; rewrite <- !K3pair in I2; rewrite ?K30a, ?K30b, ?K30c in I2.
      assert (P2 := Rmult_le_pos (c false true true) _ c011 I2).
      pose proof (K_inc _ _ _ _ _ _ _ _ _ _ _ _ (p3_0 u1) (p3_N v1 v2 Lv V2) (p3_0 w2) (BASE u1 v1 w2 ltac:(simpl; auto) ltac:(simpl; auto) ltac:(simpl; auto))) as I3; rewrite <- !K3pair in I3; rewrite ?K30a, ?K30b, ?K30c in I3.
      assert (P3 := Rmult_le_pos (c true true false) _ c110 I3).
      pose proof (K_inc _ _ _ _ _ _ _ _ _ _ _ _ (p3_0 u1) (p3_N v1 v2 Lv V2) (p3_0 w1) (BASE u1 v1 w1 ltac:(simpl; auto) ltac:(simpl; auto) ltac:(simpl; auto))) as I4; rewrite <- !K3pair in I4; rewrite ?K30a, ?K30b, ?K30c in I4.
      assert (P4 := Rmult_le_pos (- (c true true true)) _ ltac:(lra) I4).
      rewrite ?K30a, ?K30b, ?K30c. clear BASE. lra.
    - (* u: S, v: N, w: P *)
      pose proof (K_inc _ _ _ _ _ _ _ _ _ _ _ _ (p3_0 u2) (p3_N v1 v2 Lv V2) (p3_P w1 w2 Lw W1) (BASE u2 v1 w2 ltac:(simpl; auto) ltac:(simpl; auto) ltac:(simpl; auto))) as I1; rewrite <- !K3pair in I1; rewrite ?K30a, ?K30b, ?K30c in I1.
      assert (P1 := Rmult_le_pos (- (c false true false)) _ ltac:(lra) I1).
      pose proof (K_inc _ _ _ _ _ _ _ _ _ _ _ _ (p3_0 u1) (p3_N v1 v2 Lv V2) (p3_P w1 w2 Lw W1) (BASE u1 v1 w2 ltac:(simpl; auto) ltac:(simpl; auto) ltac:(simpl; auto))) as I2; rewrite <- !K3pair in I2; rewrite ?K30a, ?K30b, ?K30c in I2.
      assert (P2 := Rmult_le_pos (c true true false) _ c110 I2).
      rewrite ?K30a, ?K30b, ?K30c. clear BASE. lra.
    - (* u: S, v: S, w: N *)
      pose proof (K_inc _ _ _ _ _ _ _ _ _ _ _ _ (p3_0 u2) (p3_0 v2) (p3_N w1 w2 Lw W2) (BASE u2 v2 w1 ltac:(simpl; auto) ltac:(simpl; auto) ltac:(simpl; auto))) as I1; rewrite <- !K3pair in I1; rewrite ?K30a, ?K30b, ?K30c in I1.
      assert (P1 := Rmult_le_pos (- (c false false true)) _ ltac:(lra) I1).
      pose proof (K_inc _ _ _ _ _ _ _ _ _ _ _ _ (p3_0 u2) (p3_0 v1) (p3_N w1 w2 Lw W2) (BASE u2 v1 w1 ltac:(simpl; auto) ltac:(simpl; auto) ltac:(simpl; auto))) as I2; rewrite <- !K3pair in I2; rewrite ?K30a, ?K30b, ?K30c in I2.
      assert (P2 := Rmult_le_pos (c false true true) _ c011 I2).
      pose proof (K_inc _ _ _ _ _ _ _ _ _ _ _ _ (p3_0 u1) (p3_0 v2) (p3_N w1 w2 Lw W2) (BASE u1 v2 w1 ltac:(simpl; auto) ltac:(simpl; auto) ltac:(simpl; auto))) as I3; rewrite <- !K3pair in I3; rewrite ?K30a, ?K30b, ?K30c in I3.
      assert (P3 := Rmult_le_pos (c true false true) _ c101 I3).
      pose proof (K_inc _ _ _ _ _ _ _ _ _ _ _ _ (p3_0 u1) (p3_0 v1) (p3_N w1 w2 Lw W2) (BASE u1 v1 w1 ltac:(simpl; auto) ltac:(simpl; auto) ltac:(simpl; auto))) as I4; rewrite <- !K3pair in I4; rewrite ?K30a, ?K30b, ?K30c in I4.
      assert (P4 := Rmult_le_pos (- (c true true true)) _ ltac:(lra) I4).
      rewrite ?K30a, ?K30b, ?K30c. clear BASE. lra.
    - (* u: S, v: S, w: S *)
      pose proof (K_inc _ _ _ _ _ _ _ _ _ _ _ _ (p3_0 u2) (p3_0 v2) (p3_0 w2) (BASE u2 v2 w2 ltac:(simpl; auto) ltac:(simpl; auto) ltac:(simpl; auto))) as I1; rewrite <- !K3pair in I1; rewrite ?K30a, ?K30b, ?K30c in I1.
      assert (P1 := Rmult_le_pos (c false false false) _ c000 I1).
      pose proof (K_inc _ _ _ _ _ _ _ _ _ _ _ _ (p3_0 u2) (p3_0 v2) (p3_0 w1) (BASE u2 v2 w1 ltac:(simpl; auto) ltac:(simpl; auto) ltac:(simpl; auto))) as I2; rewrite <- !K3pair in I2; rewrite ?K30a, ?K30b, ?K30c in I2.
      assert (P2 := Rmult_le_pos (- (c false false true)) _ ltac:(lra) I2).
      pose proof (K_inc _ _ _ _ _ _ _ _ _ _ _ _ (p3_0 u2) (p3_0 v1) (p3_0 w2) (BASE u2 v1 w2 ltac:(simpl; auto) ltac:(simpl; auto) ltac:(simpl; auto))) as I3; rewrite <- !K3pair in I3; rewrite ?K30a, ?K30b, ?K30c in I3.
      assert (P3 := Rmult_le_pos (- (c false true false)) _ ltac:(lra) I3).
      pose proof (K_inc _ _ _ _ _ _ _ _ _ _ _ _ (p3_0 u2) (p3_0 v1) (p3_0 w1) (BASE u2 v1 w1 ltac:(simpl; auto) ltac:(simpl; auto) ltac:(simpl; auto))) as I4; rewrite <- !K3pair in I4; rewrite ?K30a, ?K30b, ?K30c in I4.
      assert (P4 := Rmult_le_pos (c false true true) _ c011 I4).
      pose proof (K_inc _ _ _ _ _ _ _ _ _ _ _ _ (p3_0 u1) (p3_0 v2) (p3_0 w2) (BASE u1 v2 w2 ltac:(simpl; auto) ltac:(simpl; auto) ltac:(simpl; auto))) as I5; rewrite <- !K3pair in I5; rewrite ?K30a, ?K30b, ?K30c in I5.
      assert (P5 := Rmult_le_pos (- (c true false false)) _ ltac:(lra) I5).
      pose proof (K_inc _ _ _ _ _ _ _ _ _ _ _ _ (p3_0 u1) (p3_0 v2) (p3_0 w1) (BASE u1 v2 w1 ltac:(simpl; auto) ltac:(simpl; auto) ltac:(simpl; auto))) as I6; rewrite <- !K3pair in I6; rewrite ?K30a, ?K30b, ?K30c in I6.
      assert (P6 := Rmult_le_pos (c true false true) _ c101 I6).
      pose proof (K_inc _ _ _ _ _ _ _ _ _ _ _ _ (p3_0 u1) (p3_0 v1) (p3_0 w2) (BASE u1 v1 w2 ltac:(simpl; auto) ltac:(simpl; auto) ltac:(simpl; auto))) as I7; rewrite <- !K3pair in I7; rewrite ?K30a, ?K30b, ?K30c in I7.
      assert (P7 := Rmult_le_pos (c true true false) _ c110 I7).
      pose proof (K_inc _ _ _ _ _ _ _ _ _ _ _ _ (p3_0 u1) (p3_0 v1) (p3_0 w1) (BASE u1 v1 w1 ltac:(simpl; auto) ltac:(simpl; auto) ltac:(simpl; auto))) as I8; rewrite <- !K3pair in I8; rewrite ?K30a, ?K30b, ?K30c in I8.
      assert (P8 := Rmult_le_pos (- (c true true true)) _ ltac:(lra) I8).
      rewrite ?K30a, ?K30b, ?K30c. clear BASE. lra.
    - (* u: S, v: S, w: P *)
      pose proof (K_inc _ _ _ _ _ _ _ _ _ _ _ _ (p3_0 u2) (p3_0 v2) (p3_P w1 w2 Lw W1) (BASE u2 v2 w2 ltac:(simpl; auto) ltac:(simpl; auto) ltac:(simpl; auto))) as I1; rewrite <- !K3pair in I1; rewrite ?K30a, ?K30b, ?K30c in I1.
      assert (P1 := Rmult_le_pos (c false false false) _ c000 I1).
      pose proof (K_inc _ _ _ _ _ _ _ _ _ _ _ _ (p3_0 u2) (p3_0 v1) (p3_P w1 w2 Lw W1) (BASE u2 v1 w2 ltac:(simpl; auto) ltac:(simpl; auto) ltac:(simpl; auto))) as I2; rewrite <- !K3pair in I2; rewrite ?K30a, ?K30b, ?K30c in I2.
      assert (P2 := Rmult_le_pos (- (c false true false)) _ ltac:(lra) I2).
      pose proof (K_inc _ _ _ _ _ _ _ _ _ _ _ _ (p3_0 u1) (p3_0 v2) (p3_P w1 w2 Lw W1) (BASE u1 v2 w2 ltac:(simpl; auto) ltac:(simpl; auto) ltac:(simpl; auto))) as I3; rewrite <- !K3pair in I3; rewrite ?K30a, ?K30b, ?K30c in I3.
      assert (P3 := Rmult_le_pos (- (c true false false)) _ ltac:(lra) I3).
      pose proof (K_inc _ _ _ _ _ _ _ _ _ _ _ _ (p3_0 u1) (p3_0 v1) (p3_P w1 w2 Lw W1) (BASE u1 v1 w2 ltac:(simpl; auto) ltac:(simpl; auto) ltac:(simpl; auto))) as I4; rewrite <- !K3pair in I4; rewrite ?K30a, ?K30b, ?K30c in I4.
      assert (P4 := Rmult_le_pos (c true true false) _ c110 I4).
      rewrite ?K30a, ?K30b, ?K30c. clear BASE. lra.
    - (* u: S, v: P, w: N *)
      pose proof (K_inc _ _ _ _ _ _ _ _ _ _ _ _ (p3_0 u2) (p3_P v1 v2 Lv V1) (p3_N w1 w2 Lw W2) (BASE u2 v2 w1 ltac:(simpl; auto) ltac:(simpl; auto) ltac:(simpl; auto))) as I1; rewrite <- !K3pair in I1; rewrite ?K30a, ?K30b, ?K30c in I1.
      assert (P1 := Rmult_le_pos (- (c false false true)) _ ltac:(lra) I1).
      pose proof (K_inc _ _ _ _ _ _ _ _ _ _ _ _ (p3_0 u1) (p3_P v1 v2 Lv V1) (p3_N w1 w2 Lw W2) (BASE u1 v2 w1 ltac:(simpl; auto) ltac:(simpl; auto) ltac:(simpl; auto))) as I2; rewrite <- !K3pair in I2; rewrite ?K30a, ?K30b, ?K30c in I2.
      assert (P2 := Rmult_le_pos (c true false true) _ c101 I2).
      rewrite ?K30a, ?K30b, ?K30c. clear BASE. lra.
    - (* u: S, v: P, w: S *)
      pose proof (K_inc _ _ _ _ _ _ _ _ _ _ _ _ (p3_0 u2) (p3_P v1 v2 Lv V1) (p3_0 w2) (BASE u2 v2 w2 ltac:(simpl; auto) ltac:(simpl; auto) ltac:(simpl; auto))) as I1; rewrite <- !K3pair in I1; rewrite ?K30a, ?K30b, ?K30c in I1.
      assert (P1 := Rmult_le_pos (c false false false) _ c000 I1).
      pose proof (K_inc _ _ _ _ _ _ _ _ _ _ _ _ (p3_0 u2) (p3_P v1 v2 Lv V1) (p3_0 w1) (BASE u2 v2 w1 ltac:(simpl; auto) ltac:(simpl; auto) ltac:(simpl; auto))) as I2; rewrite <- !K3pair in I2; rewrite ?K30a, ?K30b, ?K30c in I2.
      assert (P2 := Rmult_le_pos (- (c false false true)) _ ltac:(lra) I2).
      pose proof (K_inc _ _ _ _ _ _ _ _ _ _ _ _ (p3_0 u1) (p3_P v1 v2 Lv V1) (p3_0 w2) (BASE u1 v2 w2 ltac:(simpl; auto) ltac:(simpl; auto) ltac:(simpl; auto))) as I3; rewrite <- !K3pair in I3; rewrite ?K30a, ?K30b, ?K30c in I3.
      assert (P3 := Rmult_le_pos (- (c true false false)) _ ltac:(lra) I3).
      pose proof (K_inc _ _ _ _ _ _ _ _ _ _ _ _ (p3_0 u1) (p3_P v1 v2 Lv V1) (p3_0 w1) (BASE u1 v2 w1 ltac:(simpl; auto) ltac:(simpl; auto) ltac:(simpl; auto))) as I4; rewrite <- !K3pair in I4; rewrite ?K30a, ?K30b, ?K30c in I4.
      assert (P4 := Rmult_le_pos (c true false true) _ c101 I4).
      rewrite ?K30a, ?K30b, ?K30c. clear BASE. lra.
    - (* u: S, v: P, w: P *)
      pose proof (K_inc _ _ _ _ _ _ _ _ _ _ _ _ (p3_0 u2) (p3_P v1 v2 Lv V1) (p3_P w1 w2 Lw W1) (BASE u2 v2 w2 ltac:(simpl; auto) ltac:(simpl; auto) ltac:(simpl; auto))) as I1; rewrite <- !K3pair in I1; rewrite ?K30a, ?K30b, ?K30c in I1.
      assert (P1 := Rmult_le_pos (c false false false) _ c000 I1).
      pose proof (K_inc _ _ _ _ _ _ _ _ _ _ _ _ (p3_0 u1) (p3_P v1 v2 Lv V1) (p3_P w1 w2 Lw W1) (BASE u1 v2 w2 ltac:(simpl; auto) ltac:(simpl; auto) ltac:(simpl; auto))) as I2; rewrite <- !K3pair in I2; rewrite ?K30a, ?K30b, ?K30c in I2.
      assert (P2 := Rmult_le_pos (- (c true false false)) _ ltac:(lra) I2).
      rewrite ?K30a, ?K30b, ?K30c. clear BASE. lra.
    - (* u: P, v: N, w: N *)
      pose proof (K_inc _ _ _ _ _ _ _ _ _ _ _ _ (p3_P u1 u2 Lu U1) (p3_N v1 v2 Lv V2) (p3_N w1 w2 Lw W2) (BASE u2 v1 w1 ltac:(simpl; auto) ltac:(simpl; auto) ltac:(simpl; auto))) as I1; rewrite <- !K3pair in I1; rewrite ?K30a, ?K30b, ?K30c in I1.
      assert (P1 := Rmult_le_pos (c false true true) _ c011 I1).
      rewrite ?K30a, ?K30b, ?K30c. clear BASE. lra.
    - (* u: P, v: N, w: S *)
      pose proof (K_inc _ _ _ _ _ _ _ _ _ _ _ _ (p3_P u1 u2 Lu U1) (p3_N v1 v2 Lv V2) (p3_0 w2) (BASE u2 v1 w2 ltac:(simpl; auto) ltac:(simpl; auto) ltac:(simpl; auto))) as I1; rewrite <- !K3pair in I1; rewrite ?K30a, ?K30b, ?K30c in I1.
      assert (P1 := Rmult_le_pos (- (c false true false)) _ ltac:(lra) I1).
      pose proof (K_inc _ _ _ _ _ _ _ _ _ _ _ _ (p3_P u1 u2 Lu U1) (p3_N v1 v2 Lv V2) (p3_0 w1) (BASE u2 v1 w1 ltac:(simpl; auto) ltac:(simpl; auto) ltac:(simpl; auto))) as I2; rewrite <- !K3pair in I2; rewrite ?K30a, ?K30b, ?K30c in I2.
      assert (P2 := Rmult_le_pos (c false true true) _ c011 I2).
      rewrite ?K30a, ?K30b, ?K30c. clear BASE. lra.
    - (* u: P, v: N, w: P *)
      pose proof (K_inc _ _ _ _ _ _ _ _ _ _ _ _ (p3_P u1 u2 Lu U1) (p3_N v1 v2 Lv V2) (p3_P w1 w2 Lw W1) (BASE u2 v1 w2 ltac:(simpl; auto) ltac:(simpl; auto) ltac:(simpl; auto))) as I1; rewrite <- !K3pair in I1; rewrite ?K30a, ?K30b, ?K30c in I1.
      assert (P1 := Rmult_le_pos (- (c false true false)) _ ltac:(lra) I1).
      rewrite ?K30a, ?K30b, ?K30c. clear BASE. lra.
    - (* u: P, v: S, w: N *)
      pose proof (K_inc _ _ _ _ _ _ _ _ _ _ _ _ (p3_P u1 u2 Lu U1) (p3_0 v2) (p3_N w1 w2 Lw W2) (BASE u2 v2 w1 ltac:(simpl; auto) ltac:(simpl; auto) ltac:(simpl; auto))) as I1; rewrite <- !K3pair in I1; rewrite ?K30a, ?K30b, ?K30c in I1.
      assert (P1 := Rmult_le_pos (- (c false false true)) _ ltac:(lra) I1).
      pose proof (K_inc _ _ _ _ _ _ _ _ _ _ _ _ (p3_P u1 u2 Lu U1) (p3_0 v1) (p3_N w1 w2 Lw W2) (BASE u2 v1 w1 ltac:(simpl; auto) ltac:(simpl; auto) ltac:(simpl; auto))) as I2; rewrite <- !K3pair in I2; rewrite ?K30a, ?K30b, ?K30c in I2.
      assert (P2 := Rmult_le_pos (c false true true) _ c011 I2).
      rewrite ?K30a, ?K30b, ?K30c. clear BASE. lra.
    - (* u: P, v: S, w: S *)
      pose proof (K_inc _ _ _ _ _ _ _ _ _ _ _ _ (p3_P u1 u2 Lu U1) (p3_0 v2) (p3_0 w2) (BASE u2 v2 w2 ltac:(simpl; auto) ltac:(simpl; auto) ltac:(simpl; auto))) as I1; rewrite <- !K3pair in I1; rewrite ?K30a, ?K30b, ?K30c in I1.
      assert (P1 := Rmult_le_pos (c false false false) _ c000 I1).
      pose proof (K_inc _ _ _ _ _ _ _ _ _ _ _ _ (p3_P u1 u2 Lu U1) (p3_0 v2) (p3_0 w1) (BASE u2 v2 w1 ltac:(simpl; auto) ltac:(simpl; auto) ltac:(simpl; auto))) as I2; rewrite <- !K3pair in I2; rewrite ?K30a, ?K30b, ?K30c in I2.
      assert (P2 := Rmult_le_pos (- (c false false true)) _ ltac:(lra) I2).
      pose proof (K_inc _ _ _ _ _ _ _ _ _ _ _ _ (p3_P u1 u2 Lu U1) (p3_0 v1) (p3_0 w2) (BASE u2 v1 w2 ltac:(simpl; auto) ltac:(simpl; auto) ltac:(simpl; auto))) as I3; rewrite <- !K3pair in I3; rewrite ?K30a, ?K30b, ?K30c in I3.
      assert (P3 := Rmult_le_pos (- (c false true false)) _ ltac:(lra) I3).
      pose proof (K_inc _ _ _ _ _ _ _ _ _ _ _ _ (p3_P u1 u2 Lu U1) (p3_0 v1) (p3_0 w1) (BASE u2 v1 w1 ltac:(simpl; auto) ltac:(simpl; auto) ltac:(simpl; auto))) as I4; rewrite <- !K3pair in I4; rewrite ?K30a, ?K30b, ?K30c in I4.
      assert (P4 := Rmult_le_pos (c false true true) _ c011 I4).
      rewrite ?K30a, ?K30b, ?K30c. clear BASE. lra.
    - (* u: P, v: S, w: P *)
      pose proof (K_inc _ _ _ _ _ _ _ _ _ _ _ _ (p3_P u1 u2 Lu U1) (p3_0 v2) (p3_P w1 w2 Lw W1) (BASE u2 v2 w2 ltac:(simpl; auto) ltac:(simpl; auto) ltac:(simpl; auto))) as I1; rewrite <- !K3pair in I1; rewrite ?K30a, ?K30b, ?K30c in I1.
      assert (P1 := Rmult_le_pos (c false false false) _ c000 I1).
      pose proof (K_inc _ _ _ _ _ _ _ _ _ _ _ _ (p3_P u1 u2 Lu U1) (p3_0 v1) (p3_P w1 w2 Lw W1) (BASE u2 v1 w2 ltac:(simpl; auto) ltac:(simpl; auto) ltac:(simpl; auto))) as I2; rewrite <- !K3pair in I2; rewrite ?K30a, ?K30b, ?K30c in I2.
      assert (P2 := Rmult_le_pos (- (c false true false)) _ ltac:(lra) I2).
      rewrite ?K30a, ?K30b, ?K30c. clear BASE. lra.
    - (* u: P, v: P, w: N *)
      pose proof (K_inc _ _ _ _ _ _ _ _ _ _ _ _ (p3_P u1 u2 Lu U1) (p3_P v1 v2 Lv V1) (p3_N w1 w2 Lw W2) (BASE u2 v2 w1 ltac:(simpl; auto) ltac:(simpl; auto) ltac:(simpl; auto))) as I1; rewrite <- !K3pair in I1; rewrite ?K30a, ?K30b, ?K30c in I1.
      assert (P1 := Rmult_le_pos (- (c false false true)) _ ltac:(lra) I1).
      rewrite ?K30a, ?K30b, ?K30c. clear BASE. lra.
    - (* u: P, v: P, w: S *)
      pose proof (K_inc _ _ _ _ _ _ _ _ _ _ _ _ (p3_P u1 u2 Lu U1) (p3_P v1 v2 Lv V1) (p3_0 w2) (BASE u2 v2 w2 ltac:(simpl; auto) ltac:(simpl; auto) ltac:(simpl; auto))) as I1; rewrite <- !K3pair in I1; rewrite ?K30a, ?K30b, ?K30c in I1.
      assert (P1 := Rmult_le_pos (c false false false) _ c000 I1).
      pose proof (K_inc _ _ _ _ _ _ _ _ _ _ _ _ (p3_P u1 u2 Lu U1) (p3_P v1 v2 Lv V1) (p3_0 w1) (BASE u2 v2 w1 ltac:(simpl; auto) ltac:(simpl; auto) ltac:(simpl; auto))) as I2; rewrite <- !K3pair in I2; rewrite ?K30a, ?K30b, ?K30c in I2.
      assert (P2 := Rmult_le_pos (- (c false false true)) _ ltac:(lra) I2).
      rewrite ?K30a, ?K30b, ?K30c. clear BASE. lra.
    - (* u: P, v: P, w: P *)
      pose proof (K_inc _ _ _ _ _ _ _ _ _ _ _ _ (p3_P u1 u2 Lu U1) (p3_P v1 v2 Lv V1) (p3_P w1 w2 Lw W1) (BASE u2 v2 w2 ltac:(simpl; auto) ltac:(simpl; auto) ltac:(simpl; auto))) as I1; rewrite <- !K3pair in I1; rewrite ?K30a, ?K30b, ?K30c in I1.
      assert (P1 := Rmult_le_pos (c false false false) _ c000 I1).
      rewrite ?K30a, ?K30b, ?K30c. clear BASE. lra.
  Qed.
End Assemble3.

Definition cl_c3 (et : R) (s1 s2 s3 : bool) : R := / 2 * (if xorb (xorb s1 s2) s3 then - (1 - et) else et).
Lemma clayton3_enc th et u v w : 0 < th ->
  clayton th et [u; v; w] = cl_c3 et (@xlt0 RNum u) (@xlt0 RNum v) (@xlt0 RNum w) * Ke3 (1 / th) (enc th u) (enc th v) (enc th w).
Proof.
  intros Hth. assert (EE : forall x, Rpower x (IZR (-1) / th) = Rpower x (- (1 / th))) by (intros; f_equal; field; lra).
  unfold clayton, Ke3, cl_c3, sign_prod_neg, clayton_sum, J.
  destruct u as [|a|], v as [|b|], w as [|d|]; cbn -[INR Rpower]; rewrite ?Rpower_2_m1, ?EE;
    repeat match goal with |- context[Reqb ?x 0] => destruct (Reqb x 0) end;
    repeat match goal with |- context[Rltb ?x 0] => destruct (Rltb x 0) end; cbn -[Rpower]; rewrite ?Rplus_0_l, ?Rplus_0_r; try ring.
Qed.

Theorem clayton_increasing3 th et : 0 < th -> 0 <= et <= 1 ->
  forall u1 u2 v1 v2 w1 w2, @xleb RNum u1 u2 = true -> @xleb RNum v1 v2 = true -> @xleb RNum w1 w2 = true ->
  (finite_side u1 u2 || finite_side v1 v2 || finite_side w1 w2)%bool = true ->
  0 <= clayton th et [u2; v2; w2] - clayton th et [u2; v2; w1] - clayton th et [u2; v1; w2] + clayton th et [u2; v1; w1]
       - clayton th et [u1; v2; w2] + clayton th et [u1; v2; w1] + clayton th et [u1; v1; w2] - clayton th et [u1; v1; w1].
Proof.
  intros Hth Het. assert (Hbe : 0 < 1 / th) by (apply Rdiv_lt_0_compat; lra).
  apply (assemble3 (enc th) (Ke3 (1 / th)) (cl_c3 et) (clayton th et)).
  - apply enc0.
  - apply enc_nn.
  - apply enc_P; assumption.
  - apply enc_N; assumption.
  - apply enc_fin.
  - apply Ke3_zero.
  - intros. apply Ke3_inc; assumption.
  - intros. apply clayton3_enc; assumption.
  - unfold cl_c3; simpl. lra.
Qed.
Theorem clayton_copula3_ok th et : 0 < th -> 0 <= et <= 1 -> copula3_ok (clayton th et).
Proof. intros Hth Het. split; [apply clayton_grounded3 | split; [apply clayton_increasing3; assumption | intros; apply clayton_margins3; assumption]]. Qed.

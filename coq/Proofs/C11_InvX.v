(* C11 (wave 6) -- the closed-form inverse conditional distribution on the closed interval [0,1] (model clayton_inv_x, Model/CopulaX6.v):
   exact values at u = 0, 1 and at the plateau value, two-sided inverse of clayton_cond_x on the whole extended line, monotone. *)
From Coq Require Import List Arith Bool Reals Lra Lia.
From Coquelicot Require Import Coquelicot.
From RV Require Import Base.RB Base.ExtNum Model.Copula Model.CopulaX Model.CopulaX6 Proofs.C11_Clayton Proofs.C11_CondDist Proofs.C11_CondX.
Import ListNotations.
Open Scope R_scope.

Lemma Reqb_neq x y : x <> y -> Reqb x y = false.
Proof. intros H. destruct (Reqb x y) eqn:E; auto. apply Reqb_true in E. contradiction. Qed.
Lemma Reqb_same x : Reqb x x = true. Proof. apply Reqb_true; reflexivity. Qed.

Section InvX.
  Variables th et : R.
  Hypothesis Hth : 0 < th.
  Hypothesis Het : 0 < et < 1.
  Definition plateau (eps : R) : R := if Rleb 0 eps then 1 - et else et.

  Lemma sgn_pos z : 0 < z -> sgn z = 1.
  Proof. intros Hz. unfold sgn. rewrite (proj2 (Rltb_false z 0)), (proj2 (Rltb_true 0 z)) by lra. reflexivity. Qed.
  Lemma sgn_neg z : z < 0 -> sgn z = -1.
  Proof. intros Hz. unfold sgn. rewrite (proj2 (Rltb_true z 0)) by lra. reflexivity. Qed.
  Lemma sgn_0 : sgn 0 = 0.
  Proof. unfold sgn. rewrite !(proj2 (Rltb_false 0 0)) by lra. reflexivity. Qed.

  Lemma fun_c_1 eps : clayton_fun_c et eps 1 = 1.
  Proof. unfold clayton_fun_c. destruct (Rleb 0 eps).
    rewrite (proj2 (Rleb_true (1 - et) 1)) by lra. field; lra. rewrite (proj2 (Rleb_true et 1)) by lra. field; lra. Qed.
  Lemma fun_c_0 eps : clayton_fun_c et eps 0 = 1.
  Proof. unfold clayton_fun_c. destruct (Rleb 0 eps).
    rewrite (proj2 (Rleb_false (1 - et) 0)) by lra. field; lra. rewrite (proj2 (Rleb_false et 0)) by lra. field; lra. Qed.
  Lemma fun_c_plateau eps : clayton_fun_c et eps (plateau eps) = 0.
  Proof. unfold clayton_fun_c, plateau. destruct (Rleb 0 eps).
    rewrite (proj2 (Rleb_true (1 - et) (1 - et))) by lra. field; lra. rewrite (proj2 (Rleb_true et et)) by lra. field; lra. Qed.
  Lemma fun_b_1 eps : clayton_fun_b et eps 1 = 1.
  Proof. unfold clayton_fun_b. destruct (Rleb 0 eps); apply sgn_pos; lra. Qed.
  Lemma fun_b_0 eps : clayton_fun_b et eps 0 = -1.
  Proof. unfold clayton_fun_b. destruct (Rleb 0 eps); apply sgn_neg; lra. Qed.
  Lemma fun_b_plateau eps : clayton_fun_b et eps (plateau eps) = 0.
  Proof. unfold clayton_fun_b, plateau. destruct (Rleb 0 eps).
    replace (1 - et - 1 + et) with 0 by ring. apply sgn_0. replace (et - et) with 0 by ring. apply sgn_0. Qed.
  Lemma fun_c_interior eps u : 0 < u < 1 -> u <> plateau eps -> 0 < clayton_fun_c et eps u < 1.
  Proof.
    intros Hu Hp. unfold clayton_fun_c, plateau in *. destruct (Rleb 0 eps).
    - destruct (Rleb (1 - et) u) eqn:E; [apply Rleb_true in E | apply Rleb_false in E].
      + split; [apply Rdiv_lt_0_compat; lra | apply Rmult_lt_reg_r with et; [lra|]; unfold Rdiv; rewrite Rmult_assoc, Rinv_l by lra; lra].
      + split; [apply Rdiv_lt_0_compat; lra | apply Rmult_lt_reg_r with (1 - et); [lra|]; unfold Rdiv; rewrite Rmult_assoc, Rinv_l by lra; lra].
    - destruct (Rleb et u) eqn:E; [apply Rleb_true in E | apply Rleb_false in E].
      + split; [apply Rdiv_lt_0_compat; lra | apply Rmult_lt_reg_r with (1 - et); [lra|]; unfold Rdiv; rewrite Rmult_assoc, Rinv_l by lra; lra].
      + split; [apply Rdiv_lt_0_compat; lra | apply Rmult_lt_reg_r with et; [lra|]; unfold Rdiv; rewrite Rmult_assoc, Rinv_l by lra; lra].
  Qed.

  Lemma Rpower_1_base a : Rpower 1 a = 1. Proof. unfold Rpower. rewrite ln_1, Rmult_0_r. apply exp_0. Qed.

  Lemma inv_w_c1 eps u : clayton_fun_c et eps u = 1 -> inv_w th et eps u = PInf.
  Proof. intros H. unfold inv_w, np_power0_neg. rewrite H, (Reqb_neq 1 0) by lra. rewrite Rpower_1_base. cbn.
    replace (1 - 1) with 0 by ring. rewrite Reqb_same. reflexivity. Qed.
  Lemma inv_w_c0 eps u : clayton_fun_c et eps u = 0 -> inv_w th et eps u = Fin 0.
  Proof. intros H. unfold inv_w, np_power0_neg. rewrite H, Reqb_same. reflexivity. Qed.
  Lemma inv_w_interior eps u : 0 < u < 1 -> u <> plateau eps ->
    inv_w th et eps u = Fin (Rpower (Rpower (clayton_fun_c et eps u) (- th / (th + 1)) - 1) (- 1 / th)).
  Proof.
    intros Hu Hp. pose proof (fun_c_interior eps u Hu Hp) as Hc. unfold inv_w, np_power0_neg. rewrite (Reqb_neq _ 0) by lra. cbn.
    assert (G : 1 < Rpower (clayton_fun_c et eps u) (- th / (th + 1))).
    { replace (- th / (th + 1)) with (- (th / (th + 1))) by (field; lra). apply Rpower_gt1; auto. apply Rdiv_lt_0_compat; lra. }
    rewrite (Reqb_neq _ 0) by lra. reflexivity.
  Qed.

  (* exact values of the code at the end points, at the plateau value and inside *)
  Theorem inv_x_at_1 eps : eps <> 0 -> clayton_inv_x th et eps 1 = PInf.
  Proof. intros He. assert (0 < Rabs eps) by (apply Rabs_pos_lt; auto). unfold clayton_inv_x. rewrite (inv_w_c1 eps 1 (fun_c_1 eps)), fun_b_1. cbn.
    rewrite (proj2 (Rltb_true 0 (1 * Rabs eps))) by lra. reflexivity. Qed.
  Theorem inv_x_at_0 eps : eps <> 0 -> clayton_inv_x th et eps 0 = NInf.
  Proof. intros He. assert (0 < Rabs eps) by (apply Rabs_pos_lt; auto). unfold clayton_inv_x. rewrite (inv_w_c1 eps 0 (fun_c_0 eps)), fun_b_0. cbn.
    rewrite (proj2 (Rltb_false 0 (-1 * Rabs eps))) by lra. reflexivity. Qed.
  Theorem inv_x_at_plateau eps : clayton_inv_x th et eps (plateau eps) = Fin 0.
  Proof. unfold clayton_inv_x. rewrite (inv_w_c0 eps _ (fun_c_plateau eps)), fun_b_plateau. cbn. f_equal. ring. Qed.
  Theorem inv_x_interior eps u : 0 < u < 1 -> u <> plateau eps -> clayton_inv_x th et eps u = Fin (clayton_inv th et eps u).
  Proof. intros Hu Hp. unfold clayton_inv_x. rewrite (inv_w_interior eps u Hu Hp). reflexivity. Qed.
  Theorem inv_x_defined eps u : eps <> 0 -> 0 <= u <= 1 -> inv_defined th et eps u = true.
  Proof.
    intros He Hu. assert (0 < Rabs eps) by (apply Rabs_pos_lt; auto). unfold inv_defined.
    destruct (Req_dec u 1) as [->|N1]. { rewrite fun_b_1, (Reqb_neq _ 0) by lra. reflexivity. }
    destruct (Req_dec u 0) as [->|N0]. { rewrite fun_b_0, (Reqb_neq _ 0) by lra. reflexivity. }
    destruct (Req_dec u (plateau eps)) as [->|Np]. { rewrite (inv_w_c0 eps _ (fun_c_plateau eps)). cbn. rewrite andb_false_r. reflexivity. }
    rewrite inv_w_interior by (auto; lra). cbn. rewrite andb_false_r. reflexivity.
  Qed.

  (* the conditional distribution of a finite non-zero x is strictly inside (0,1) and off the plateau value *)
  Lemma cond_strict eps x : eps <> 0 -> x <> 0 ->
    0 < clayton_cond th et eps x < 1 /\ clayton_cond th et eps x <> plateau eps.
  Proof.
    intros He Hx. pose proof (ccore_bounds th Hth eps x He Hx) as [C0 C1]. unfold plateau.
    destruct (Rlt_dec x 0); [rewrite cond_neg by lra | rewrite cond_pos by lra]; destruct (Rleb 0 eps); split; try split; nra.
  Qed.

  (* the closed-form inverse inverts the conditional distribution on the WHOLE extended line, x = -inf, 0, +inf included *)
  Theorem inv_x_left_inverse eps (x : ext R) : eps <> 0 -> clayton_inv_x th et eps (clayton_cond_x th et eps x) = x.
  Proof.
    intros He. assert (Het' : 0 <= et <= 1) by lra. destruct x as [|x|].
    - rewrite (proj2 (cond_x_at_inf th et eps)). apply inv_x_at_0; auto.
    - destruct (Req_dec x 0) as [->|Hx].
      + rewrite cond_x_at_zero. apply inv_x_at_plateau.
      + rewrite cond_x_agrees by auto. destruct (cond_strict eps x He Hx) as [R1 R2].
        rewrite inv_x_interior by auto. f_equal. apply clayton_inverse; auto.
    - rewrite (proj1 (cond_x_at_inf th et eps)). apply inv_x_at_1; auto.
  Qed.
  (* ... and is its right inverse on the closed interval [0,1], end points and plateau value included *)
  Theorem inv_x_right_inverse eps u : eps <> 0 -> 0 <= u <= 1 -> clayton_cond_x th et eps (clayton_inv_x th et eps u) = u.
  Proof.
    intros He Hu.
    destruct (Req_dec u 1) as [->|N1]. { rewrite inv_x_at_1 by auto. apply cond_x_at_inf. }
    destruct (Req_dec u 0) as [->|N0]. { rewrite inv_x_at_0 by auto. apply cond_x_at_inf. }
    destruct (Req_dec u (plateau eps)) as [->|Np]. { rewrite inv_x_at_plateau. apply cond_x_at_zero. }
    assert (Hu' : 0 < u < 1) by lra. rewrite inv_x_interior by auto.
    assert (clayton_inv th et eps u <> 0).
    { pose proof (inv_sign th et eps u He Hu') as [P N]. fold (plateau eps) in P, N.
      destruct (Rlt_dec (plateau eps) u). specialize (P ltac:(lra)). lra. assert (u < plateau eps) by lra. specialize (N ltac:(lra)). lra. }
    rewrite cond_x_agrees by auto. apply cond_right_inverse; auto.
  Qed.
  (* order: the extended inverse is non-decreasing on [0,1] -- it is the inverse of a non-decreasing bijection *)
  Theorem inv_x_monotone eps u v : eps <> 0 -> 0 <= u <= 1 -> 0 <= v <= 1 -> u < v ->
    @xleb RNum (clayton_inv_x th et eps u) (clayton_inv_x th et eps v) = true.
  Proof.
    intros He Hu Hv Huv. assert (Het' : 0 <= et <= 1) by lra.
    destruct (@xleb RNum (clayton_inv_x th et eps u) (clayton_inv_x th et eps v)) eqn:E; auto. exfalso.
    assert (L : @xleb RNum (clayton_inv_x th et eps v) (clayton_inv_x th et eps u) = true).
    { destruct (clayton_inv_x th et eps u), (clayton_inv_x th et eps v); cbn in *; try discriminate; auto. apply Rleb_false in E. apply Rleb_true. lra. }
    assert (D : forall w, cond_defined eps w = true). { intros w. destruct w; cbn; auto. rewrite (Reqb_neq eps 0) by auto. rewrite andb_false_r. reflexivity. }
    pose proof (cond_x_monotone th et Hth Het' eps _ _ (D _) (D _) L) as M.
    rewrite !inv_x_right_inverse in M by auto. lra.
  Qed.
End InvX.

Lemma inv_x_value_plateau th et eps u : 0 < et < 1 -> u = plateau et eps -> clayton_inv_x th et eps u = Fin 0.
Proof. intros Het ->. apply inv_x_at_plateau; auto. Qed.

From Coq Require Import List Arith Bool Reals Lra Lia.
From Coquelicot Require Import Coquelicot.
From RV Require Import Base.RB Base.ExtNum Model.Copula Proofs.C11_Clayton.
Import ListNotations.
Open Scope R_scope.

(* ---- mixed partial derivative of the 2-d Clayton copula in ALL four open quadrants ------------------------------
   d2F/dudv = sign(u) sign(v) * x_first_derivative(u, v): the code's value has the sign of u*v, the true mixed
   partial (the joint density factor) is positive everywhere. *)
Definition sg (x : R) : R := if Rltb x 0 then -1 else 1.
Definition clg (et u v : R) : R := if xorb (Rltb u 0) (Rltb v 0) then - (1 - et) else et.
Definition clD1 th et (u v : R) : R := clg et u v * (sg v * dCv th (Rabs u) (Rabs v)).

Lemma abs_sg x : x <> 0 -> Rabs x = sg x * x.
Proof. intros H. unfold sg. destruct (Rltb x 0) eqn:E; [apply Rltb_true in E; rewrite Rabs_left by lra | apply Rltb_false in E; rewrite Rabs_right by lra]; ring. Qed.
Lemma sg_loc v : v <> 0 -> locally v (fun y => y <> 0 /\ Rltb y 0 = Rltb v 0).
Proof.
  intros Hv. destruct (Rlt_dec v 0).
  - assert (L : locally v (fun y => y < 0)) by (apply (open_lt 0); assumption).
    revert L; apply filter_imp; intros y Hy. split. lra. rewrite (proj2 (Rltb_true y 0)), (proj2 (Rltb_true v 0)) by lra. reflexivity.
  - assert (L : locally v (fun y => 0 < y)) by (apply (open_gt 0); lra).
    revert L; apply filter_imp; intros y Hy. split. lra. rewrite (proj2 (Rltb_false y 0)), (proj2 (Rltb_false v 0)) by lra. reflexivity.
Qed.
Lemma sg_sq x : sg x * sg x = 1. Proof. unfold sg; destruct (Rltb x 0); ring. Qed.
Lemma sg_pos x : x <> 0 -> 0 < sg x * x.
Proof. intros H. rewrite <- abs_sg by auto. apply Rabs_pos_lt; auto. Qed.

Theorem clayton_mixed_partial th et u v : 0 < th -> u <> 0 -> v <> 0 ->
  is_derive (fun y => clayton th et [Fin u; Fin y]) v (clD1 th et u v) /\
  is_derive (fun x => clD1 th et x v) u (sg u * sg v * clayton_xderiv2 th et u v).
Proof.
  intros Hth Hu Hv. pose proof (sg_pos u Hu) as Pu. pose proof (sg_pos v Hv) as Pv. split.
  - apply (is_derive_ext_loc (fun y => clg et u v * CC th (Rabs u) (sg v * y))).
    + generalize (sg_loc v Hv). apply filter_imp. intros y [Hy Sy]. rewrite clayton_fin2 by auto.
      unfold clg. rewrite Sy. f_equal. f_equal. rewrite (abs_sg y Hy). unfold sg. rewrite Sy. reflexivity.
    + unfold clD1. apply is_derive_scal. rewrite (abs_sg v Hv).
      evar_last. apply (is_derive_comp (fun z => CC th (Rabs u) z) (fun y => sg v * y) v (dCv th (Rabs u) (sg v * v)) (sg v)).
      * apply CC_derive_v; auto. apply Rabs_pos_lt; auto.
      * auto_derive; auto. ring.
      * unfold scal; simpl; unfold mult; simpl. ring.
  - apply (is_derive_ext_loc (fun x => clg et u v * (sg v * dCv th (sg u * x) (Rabs v)))).
    + generalize (sg_loc u Hu). apply filter_imp. intros x [Hx Sx]. unfold clD1, clg. rewrite Sx. rewrite (abs_sg x Hx). unfold sg. rewrite Sx. reflexivity.
    + replace (sg u * sg v * clayton_xderiv2 th et u v) with (clg et u v * (sg v * (sg u * d2C th (sg u * u) (Rabs v)))).
      * apply is_derive_scal. apply is_derive_scal.
        evar_last. apply (is_derive_comp (fun z => dCv th z (Rabs v)) (fun x => sg u * x) u (d2C th (sg u * u) (Rabs v)) (sg u)).
        -- apply dCv_derive_u; auto. apply Rabs_pos_lt; auto.
        -- auto_derive; auto. ring.
        -- unfold scal; simpl; unfold mult; simpl. ring.
      * unfold clayton_xderiv2, d2C, CS. rewrite <- (abs_sg u Hu). rewrite Rabs_mult.
        assert (F : (if Rleb 0 (u * v) then et else - (1 - et)) = clg et u v).
        { unfold clg. destruct (Rltb u 0) eqn:A; destruct (Rltb v 0) eqn:B;
            [apply Rltb_true in A; apply Rltb_true in B | apply Rltb_true in A; apply Rltb_false in B
            | apply Rltb_false in A; apply Rltb_true in B | apply Rltb_false in A; apply Rltb_false in B]; cbn.
          - rewrite (proj2 (Rleb_true 0 (u * v))) by nra. reflexivity.
          - rewrite (proj2 (Rleb_false 0 (u * v))) by nra. reflexivity.
          - rewrite (proj2 (Rleb_false 0 (u * v))) by nra. reflexivity.
          - rewrite (proj2 (Rleb_true 0 (u * v))) by nra. reflexivity. }
        rewrite F. pose proof (sg_sq u). pose proof (sg_sq v). nra.
Qed.

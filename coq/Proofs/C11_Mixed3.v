(* C11 (wave 5) -- ClaytonCopula.x_first_derivative in d = 3 (any-dimension model clayton_xderiv of Model/CopulaX.v):
   the third mixed partial d3F/du dv dw of the 3-d Clayton copula in ALL eight open octants is
   sign(u) sign(v) sign(w) * x_first_derivative([u,v,w]) (three applications of is_derive), it is >= 0 (> 0 for 0 < eta < 1),
   and the any-dimension model specialises to the d = 2 model. *)
From Coq Require Import List Arith Bool Reals Lra Lia.
From Coquelicot Require Import Coquelicot.
From RV Require Import Base.RB Base.ExtNum Model.Copula Model.CopulaX Proofs.C11_Copula Proofs.C11_Clayton Proofs.C11_Mixed.
Import ListNotations.
Open Scope R_scope.

(* f o |.| near w <> 0 *)
Lemma abs_derive (f : R -> R) w df : w <> 0 -> is_derive f (Rabs w) df -> is_derive (fun z => f (Rabs z)) w (sg w * df).
Proof.
  intros Hw Hf.
  apply (is_derive_ext_loc (fun z => f (sg w * z))).
  - generalize (sg_loc w Hw). apply filter_imp. intros z [Hz Sz]. rewrite (abs_sg z Hz). unfold sg. rewrite Sz. reflexivity.
  - evar_last. apply (is_derive_comp f (fun z => sg w * z) w df (sg w)).
    + rewrite <- abs_sg by auto. exact Hf.
    + auto_derive; auto. ring.
    + unfold scal; simpl; unfold mult; simpl. ring.
Qed.

Section K3.
  Variable th : R.
  Hypothesis Hth : 0 < th.
  Definition S3 (a b c : R) : R := Rpower a (- th) + Rpower b (- th) + Rpower c (- th).
  Definition K3 (k a b c : R) : R := Rpower (S3 a b c) (- 1 / th - k).
  Lemma S3_pos a b c : 0 < S3 a b c.
  Proof. unfold S3. pose proof (Rpower_pos a (-th)). pose proof (Rpower_pos b (-th)). pose proof (Rpower_pos c (-th)). lra. Qed.
  Lemma Kgen_derive A k c : 0 <= A -> 0 < c ->
    is_derive (fun z => Rpower (A + Rpower z (- th)) (- 1 / th - k)) c
              ((1 + k * th) * (Rpower c (- th - 1) * Rpower (A + Rpower c (- th)) (- 1 / th - (k + 1)))).
  Proof.
    intros HA Hc. unfold Rpower.
    auto_derive.
    - repeat split; auto. pose proof (exp_pos (- th * ln c)). lra.
    - set (S := A + exp (- th * ln c)).
      assert (HS : 0 < S) by (unfold S; pose proof (exp_pos (- th * ln c)); lra).
      replace ((- th - 1) * ln c) with (- th * ln c + - ln c) by ring.
      replace ((-1 / th - (k + 1)) * ln S) with ((-1 / th - k) * ln S + - ln S) by ring.
      rewrite !exp_plus, !exp_Ropp, !exp_ln by assumption. field. repeat split; lra.
  Qed.
  Lemma K3_derive_c k a b c : 0 < c -> is_derive (fun z => K3 k a b z) c ((1 + k * th) * (Rpower c (- th - 1) * K3 (k + 1) a b c)).
  Proof.
    intros Hc. unfold K3, S3. apply Kgen_derive; auto.
    pose proof (Rpower_pos a (-th)). pose proof (Rpower_pos b (-th)). lra.
  Qed.
  Lemma K3_rot k a b c : K3 k a b c = K3 k c a b. Proof. unfold K3, S3. f_equal. ring. Qed.
  Lemma K3_swap k a b c : K3 k a b c = K3 k a c b. Proof. unfold K3, S3. f_equal. ring. Qed.
  Lemma K3_derive_b k a b c : 0 < b -> is_derive (fun y => K3 k a y c) b ((1 + k * th) * (Rpower b (- th - 1) * K3 (k + 1) a b c)).
  Proof. intros Hb. rewrite (K3_swap (k+1)). apply (is_derive_ext (fun y => K3 k a c y)). intros; apply K3_swap. apply K3_derive_c; auto. Qed.
  Lemma K3_derive_a k a b c : 0 < a -> is_derive (fun x => K3 k x b c) a ((1 + k * th) * (Rpower a (- th - 1) * K3 (k + 1) a b c)).
  Proof. intros Ha. rewrite <- (K3_rot (k+1) b c a). apply (is_derive_ext (fun x => K3 k b c x)). intros; apply K3_rot. apply K3_derive_c; auto. Qed.
End K3.

Definition c3 (et u v w : R) : R := / 2 * (if xorb (xorb (Rltb u 0) (Rltb v 0)) (Rltb w 0) then - (1 - et) else et).
Definition P3 th (x : R) : R := Rpower (Rabs x) (- th - 1).
Definition clD3_1 th et (u v w : R) : R := c3 et u v w * (sg w * (P3 th w * K3 th 1 (Rabs u) (Rabs v) (Rabs w))).
Definition clD3_2 th et (u v w : R) : R :=
  c3 et u v w * (sg w * (P3 th w * (sg v * ((1 + th) * (P3 th v * K3 th 2 (Rabs u) (Rabs v) (Rabs w)))))).

Lemma clayton_fin3 th et u v w : u <> 0 -> v <> 0 -> w <> 0 ->
  clayton th et [Fin u; Fin v; Fin w] = c3 et u v w * K3 th 0 (Rabs u) (Rabs v) (Rabs w).
Proof.
  intros Hu Hv Hw. unfold clayton. cbn -[INR]. rewrite (Reqb_false u 0 Hu), (Reqb_false v 0 Hv), (Reqb_false w 0 Hw). cbn -[INR].
  rewrite Rpower_2_m1. unfold clayton_sum, K3, S3, c3. cbn. rewrite Rplus_0_l. replace (-1 / th - 0) with (-1 / th) by ring.
  destruct (Rltb u 0), (Rltb v 0), (Rltb w 0); cbn; ring.
Qed.

Lemma sign3 et u v w : u <> 0 -> v <> 0 -> w <> 0 ->
  (if Rleb 0 (u * v * w) then et else - (1 - et)) = 2 * c3 et u v w.
Proof.
  intros Hu Hv Hw. unfold c3.
  destruct (Rltb u 0) eqn:A; [apply Rltb_true in A | apply Rltb_false in A];
  (destruct (Rltb v 0) eqn:B; [apply Rltb_true in B | apply Rltb_false in B]);
  (destruct (Rltb w 0) eqn:C; [apply Rltb_true in C | apply Rltb_false in C]); cbn.
  all: first [ assert (0 < u * v) by nra | assert (u * v < 0) by nra ].
  all: first [ assert (Q : u * v * w < 0) by nra; rewrite (proj2 (Rleb_false 0 (u * v * w))) by lra; field
             | assert (Q : 0 < u * v * w) by nra; rewrite (proj2 (Rleb_true 0 (u * v * w))) by lra; field ].
Qed.

Lemma xderiv3_closed th et u v w : 0 < th -> u <> 0 -> v <> 0 -> w <> 0 ->
  clayton_xderiv th et [u; v; w] =
  c3 et u v w * ((1 + th) * (1 + 2 * th)) * (P3 th u * P3 th v * P3 th w) * K3 th 3 (Rabs u) (Rabs v) (Rabs w).
Proof.
  intros Hth Hu Hv Hw. unfold clayton_xderiv. cbn -[INR Rpower]. rewrite (Reqb_false u 0 Hu), (Reqb_false v 0 Hv), (Reqb_false w 0 Hw). cbn -[INR Rpower].
  rewrite Rpower_2_m1. unfold theta_prod, K3, S3, P3. cbn -[Rpower].
  replace (1 * u * v * w) with (u * v * w) by ring. rewrite (sign3 et u v w) by auto.
  rewrite !Rabs_mult. pose proof (Rabs_pos_lt u Hu). pose proof (Rabs_pos_lt v Hv). pose proof (Rabs_pos_lt w Hw).
  rewrite <- !Rpower_mult_distr by (try apply Rmult_lt_0_compat; assumption).
  replace (-1 / th - (1 + 1 + 1)) with (-1 / th - 3) by ring.
  replace (0 + Rpower (Rabs u) (- th) + Rpower (Rabs v) (- th) + Rpower (Rabs w) (- th)) with (Rpower (Rabs u) (- th) + Rpower (Rabs v) (- th) + Rpower (Rabs w) (- th)) by ring.
  field.
Qed.

Theorem clayton_mixed_partial3 th et u v w : 0 < th -> u <> 0 -> v <> 0 -> w <> 0 ->
  is_derive (fun z => clayton th et [Fin u; Fin v; Fin z]) w (clD3_1 th et u v w) /\
  is_derive (fun y => clD3_1 th et u y w) v (clD3_2 th et u v w) /\
  is_derive (fun x => clD3_2 th et x v w) u (sg u * sg v * sg w * clayton_xderiv th et [u; v; w]).
Proof.
  intros Hth Hu Hv Hw.
  pose proof (Rabs_pos_lt u Hu) as Au. pose proof (Rabs_pos_lt v Hv) as Av. pose proof (Rabs_pos_lt w Hw) as Aw.
  split; [|split].
  - apply (is_derive_ext_loc (fun z => c3 et u v w * (fun t => K3 th 0 (Rabs u) (Rabs v) t) (Rabs z))).
    + generalize (sg_loc w Hw). apply filter_imp. intros z [Hz Sz]. rewrite clayton_fin3 by auto. unfold c3. rewrite Sz. reflexivity.
    + unfold clD3_1. apply is_derive_scal.
      evar_last. eapply (abs_derive (fun t => K3 th 0 (Rabs u) (Rabs v) t) w); [exact Hw | apply K3_derive_c; auto].
      unfold P3. replace (0 + 1) with 1 by ring. ring.
  - apply (is_derive_ext_loc (fun y => c3 et u v w * (sg w * (P3 th w * (fun t => K3 th 1 (Rabs u) t (Rabs w)) (Rabs y))))).
    + generalize (sg_loc v Hv). apply filter_imp. intros y [Hy Sy]. unfold clD3_1, c3. rewrite Sy. reflexivity.
    + unfold clD3_2. do 3 apply is_derive_scal.
      evar_last. eapply (abs_derive (fun t => K3 th 1 (Rabs u) t (Rabs w)) v); [exact Hv | apply K3_derive_b; auto].
      unfold P3. replace (1 + 1) with 2 by ring. ring.
  - replace (sg u * sg v * sg w * clayton_xderiv th et [u; v; w]) with
      (c3 et u v w * (sg w * (P3 th w * (sg v * ((1 + th) * (P3 th v * (sg u * ((1 + 2 * th) * (P3 th u * K3 th (2 + 1) (Rabs u) (Rabs v) (Rabs w))))))))))
      by (rewrite xderiv3_closed by auto; replace (2 + 1) with 3 by ring; ring).
    apply (is_derive_ext_loc (fun x => c3 et u v w * (sg w * (P3 th w * (sg v * ((1 + th) * (P3 th v * (fun t => K3 th 2 t (Rabs v) (Rabs w)) (Rabs x)))))))).
    + generalize (sg_loc u Hu). apply filter_imp. intros x [Hx Sx]. unfold clD3_2, c3. rewrite Sx. reflexivity.
    + do 6 apply is_derive_scal.
      apply (abs_derive (fun t => K3 th 2 t (Rabs v) (Rabs w)) u _ Hu). unfold P3. apply K3_derive_a; auto.
Qed.

(* the third mixed partial (the joint density factor) is non-negative in every open octant: sign(u v w) * x_first_derivative >= 0,
   i.e. the code's x_first_derivative carries the sign of u v w (F-C11-1 in d = 3) *)
Theorem clayton_mixed_partial3_nonneg th et u v w : 0 < th -> 0 <= et <= 1 -> u <> 0 -> v <> 0 -> w <> 0 ->
  0 <= sg u * sg v * sg w * clayton_xderiv th et [u; v; w] /\
  (0 < et < 1 -> 0 < sg u * sg v * sg w * clayton_xderiv th et [u; v; w]).
Proof.
  intros Hth Het Hu Hv Hw. rewrite xderiv3_closed by auto.
  assert (Pp : 0 < (1 + th) * (1 + 2 * th) * (P3 th u * P3 th v * P3 th w) * K3 th 3 (Rabs u) (Rabs v) (Rabs w)).
  { unfold P3, K3. repeat apply Rmult_lt_0_compat; try apply Rpower_pos; lra. }
  set (Q := (1 + th) * (1 + 2 * th) * (P3 th u * P3 th v * P3 th w) * K3 th 3 (Rabs u) (Rabs v) (Rabs w)) in *.
  replace (sg u * sg v * sg w * (c3 et u v w * ((1 + th) * (1 + 2 * th)) * (P3 th u * P3 th v * P3 th w) * K3 th 3 (Rabs u) (Rabs v) (Rabs w)))
    with ((sg u * sg v * sg w * c3 et u v w) * Q) by (unfold Q; ring).
  assert (S : sg u * sg v * sg w * c3 et u v w = / 2 * (if xorb (xorb (Rltb u 0) (Rltb v 0)) (Rltb w 0) then 1 - et else et)).
  { unfold c3, sg. destruct (Rltb u 0), (Rltb v 0), (Rltb w 0); cbn; field. }
  rewrite S. split.
  - apply Rmult_le_pos; [|lra]. destruct (xorb _ _); lra.
  - intros H. apply Rmult_lt_0_compat; [|lra]. destruct (xorb _ _); lra.
Qed.

(* the any-dimension model specialises to the d = 2 model of Model/Copula.v *)
Lemma clayton_xderiv_d2 th et u v : u <> 0 -> v <> 0 -> clayton_xderiv th et [u; v] = clayton_xderiv2 th et u v.
Proof.
  intros Hu Hv. unfold clayton_xderiv, clayton_xderiv2. cbn -[INR Rpower]. rewrite (Reqb_false u 0 Hu), (Reqb_false v 0 Hv). cbn -[INR Rpower].
  rewrite Rpower_2_0. unfold theta_prod. cbn -[Rpower]. replace (1 * u * v) with (u * v) by ring.
  replace (-1 / th - (1 + 1)) with (-1 / th - 2) by ring.
  replace (0 + Rpower (Rabs u) (- th) + Rpower (Rabs v) (- th)) with (Rpower (Rabs u) (- th) + Rpower (Rabs v) (- th)) by ring.
  ring.
Qed.
(* a zero entry: the code returns 0, in every dimension *)
Lemma clayton_xderiv_zero th et us : In 0 us -> clayton_xderiv th et us = 0.
Proof.
  intros H. unfold clayton_xderiv. replace (existsb (fun v => Reqb v 0) us) with true; auto.
  symmetry. apply existsb_exists. exists 0. split; auto. apply Reqb_true; reflexivity.
Qed.

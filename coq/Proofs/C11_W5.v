(* C11 (wave 5) -- assembled statements of Properties/C11.v (wave-5 theorems), proofs from C11_Mixed3.v / C11_CondX.v *)
From Coq Require Import List Arith Bool Reals Lra.
From Coquelicot Require Import Coquelicot.
From RV Require Import Base.RB Base.ExtNum Model.Copula Model.CopulaX Proofs.C11_Clayton Proofs.C11_Mixed Proofs.C11_Mixed3 Proofs.C11_CondX.
Import ListNotations.
Open Scope R_scope.

Lemma w5_mixed_derivative_3d : forall th et u v w, 0 < th -> u <> 0 -> v <> 0 -> w <> 0 ->
  (is_derive (fun z => clayton th et [Fin u; Fin v; Fin z]) w (clD3_1 th et u v w) /\
   is_derive (fun y => clD3_1 th et u y w) v (clD3_2 th et u v w) /\
   is_derive (fun x => clD3_2 th et x v w) u (sg u * sg v * sg w * clayton_xderiv th et [u; v; w])) /\
  (0 <= et <= 1 -> 0 <= sg u * sg v * sg w * clayton_xderiv th et [u; v; w]) /\
  (0 < et < 1 -> 0 < sg u * sg v * sg w * clayton_xderiv th et [u; v; w]).
Proof.
  intros th et u v w Hth Hu Hv Hw. split. apply clayton_mixed_partial3; assumption.
  split; intros Het.
  - apply clayton_mixed_partial3_nonneg; assumption.
  - apply clayton_mixed_partial3_nonneg; try assumption; lra.
Qed.

Lemma w5_conditional_distribution_extended : forall th et, 0 < th -> 0 <= et <= 1 ->
  (forall eps x, eps <> 0 -> x <> 0 -> clayton_cond_x th et eps (Fin x) = clayton_cond th et eps x) /\
  (forall eps, clayton_cond_x th et eps PInf = 1 /\ clayton_cond_x th et eps NInf = 0) /\
  (forall x, x <> 0 -> clayton_cond_x th et 0 (Fin x) = if Rltb x 0 then 0 else 1) /\
  (forall eps, clayton_cond_x th et eps (Fin 0) = if Rleb 0 eps then 1 - et else et) /\
  (forall eps x, cond_defined eps x = true -> 0 <= clayton_cond_x th et eps x <= 1) /\
  (forall eps x y, cond_defined eps x = true -> cond_defined eps y = true -> @xleb RNum x y = true ->
     clayton_cond_x th et eps x <= clayton_cond_x th et eps y) /\
  (forall eps, is_lim (fun x => clayton_cond_x th et eps (Fin x)) p_infty (clayton_cond_x th et eps PInf) /\
               is_lim (fun x => clayton_cond_x th et eps (Fin x)) m_infty (clayton_cond_x th et eps NInf)) /\
  (forall eps, eps <> 0 -> is_lim (fun x => clayton_cond_x th et eps (Fin x)) 0 (clayton_cond_x th et eps (Fin 0))).
Proof.
  intros th et Hth Het. repeat split.
  - intros. apply cond_x_agrees; assumption.
  - apply cond_x_at_inf; assumption.
  - apply cond_x_at_inf; assumption.
  - intros. apply cond_x_eps0; assumption.
  - intros. apply cond_x_at_zero; assumption.
  - apply cond_x_range; assumption.
  - apply cond_x_range; assumption.
  - intros. apply cond_x_monotone; assumption.
  - apply cond_x_limits; assumption.
  - apply cond_x_limits; assumption.
  - intros. apply cond_x_continuous_at_zero; assumption.
Qed.

Lemma w5_nonvacuous :
  (0 < 2 /\ 0 < / 4 < 1 /\ -1 <> 0 /\ 2 <> 0 /\ 3 <> 0 /\ clayton_xderiv 2 (/ 4) [-1; 2; 3] < 0) /\
  (cond_defined 0 (Fin 5) = true /\ clayton_cond_x 2 (/ 4) 0 (Fin 5) = 1 /\ clayton_cond_x 2 (/ 4) 0 (Fin (-5)) = 0) /\
  (clayton_cond_x 2 (/ 4) 3 (Fin 0) = 1 - / 4 /\ clayton_cond_x 2 (/ 4) (-3) (Fin 0) = / 4 /\
   clayton_cond_x 2 (/ 4) (-3) PInf = 1 /\ clayton_cond_x 2 (/ 4) 0 NInf = 0).
Proof.
  split; [|split].
  - repeat split; try lra.
    pose proof (proj2 (clayton_mixed_partial3_nonneg 2 (/ 4) (-1) 2 3 ltac:(lra) ltac:(lra) ltac:(lra) ltac:(lra) ltac:(lra)) ltac:(lra)) as H.
    unfold sg in H. rewrite (proj2 (Rltb_true (-1) 0)), (proj2 (Rltb_false 2 0)), (proj2 (Rltb_false 3 0)) in H by lra. lra.
  - split. { simpl. rewrite (proj2 (Reqb_true 0 0)) by reflexivity. destruct (Reqb 5 0) eqn:E; [apply Reqb_true in E; lra | reflexivity]. }
    split.
    + rewrite cond_x_eps0 by lra. rewrite (proj2 (Rltb_false 5 0)) by lra. reflexivity.
    + rewrite cond_x_eps0 by lra. rewrite (proj2 (Rltb_true (-5) 0)) by lra. reflexivity.
  - repeat split.
    + rewrite cond_x_at_zero. rewrite (proj2 (Rleb_true 0 3)) by lra. reflexivity.
    + rewrite cond_x_at_zero. rewrite (proj2 (Rleb_false 0 (-3))) by lra. reflexivity.
    + apply cond_x_at_inf; lra.
    + apply cond_x_at_inf; lra.
Qed.

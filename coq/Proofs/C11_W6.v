(* C11 (wave 6) -- the statements of Properties/C11.v added in wave 6, assembled from C11_DepCond.v, C11_InvX.v, C11_ClaytonX.v *)
From Coq Require Import List Arith Bool Reals Lra Lia.
From RV Require Import Base.RB Base.ExtNum Model.Copula Model.CopulaX Model.CopulaX6 Proofs.C11_DepCond Proofs.C11_InvX Proofs.C11_ClaytonX.
Import ListNotations.
Open Scope R_scope.

Lemma w6_dependent_conditional_counter :
  (forall x : list (ext R), (dep_cond x <= length x)%nat /\ (dep_cond x = length x <-> Forall (fun t => t = PInf) x)) /\
  (forall t : ext R, dep_cond [t] = if @xleb RNum PInf t then 1%nat else 0%nat) /\
  (forall x y : list (ext R), Forall2 (fun a b => @xleb RNum a b = true) x y -> (dep_cond x <= dep_cond y)%nat) /\
  (forall xi h, 0 < h -> dep_strip xi h PInf = h * INR (dep_cond [@PInf R]) /\ dep_strip xi h NInf = h * INR (dep_cond [@NInf R])) /\
  (forall xi h x, 0 < h -> 0 < xi \/ xi + h < 0 -> x <= xi -> dep_strip xi h (Fin x) = h * INR (dep_cond [Fin x])) /\
  (forall xi h x, 0 < h -> 0 < xi \/ xi + h < 0 -> xi + h <= x -> dep_strip xi h (Fin x) = h /\ dep_cond [Fin x] = 0%nat).
Proof.
  split; [|split; [|split; [|split; [|split]]]].
  - intros x. split. apply dep_cond_le_length. apply dep_cond_all.
  - apply dep_cond_single.
  - apply dep_cond_monotone.
  - apply dep_strip_inf.
  - intros xi h x Hh Hs. apply (dep_strip_fin xi h x Hh Hs).
  - intros xi h x Hh Hs. apply (dep_strip_fin xi h x Hh Hs).
Qed.

Lemma w6_dependent_conditional_refuted :
  exists xi h x, 0 < xi /\ 0 < h /\ dep_strip xi h (Fin x) = h /\ h * INR (dep_cond [Fin x]) <> dep_strip xi h (Fin x).
Proof.
  exists 1, 1, 3. assert (S1 : 0 < 1 \/ 1 + 1 < 0) by (left; lra). destruct (dep_strip_fin 1 1 3 ltac:(lra) S1) as [_ H]. destruct (H ltac:(lra)) as [H1 H2].
  repeat split; try lra. rewrite H1, H2. cbn. lra.
Qed.

Lemma w6_inverse_conditional_extended : forall th et eps, 0 < th -> 0 < et < 1 -> eps <> 0 ->
  (clayton_inv_x th et eps 1 = PInf /\ clayton_inv_x th et eps 0 = NInf /\
   clayton_inv_x th et eps (if Rleb 0 eps then 1 - et else et) = Fin 0) /\
  (forall u, 0 < u < 1 -> u <> (if Rleb 0 eps then 1 - et else et) -> clayton_inv_x th et eps u = Fin (clayton_inv th et eps u)) /\
  (forall u, 0 <= u <= 1 -> inv_defined th et eps u = true) /\
  (forall x : ext R, clayton_inv_x th et eps (clayton_cond_x th et eps x) = x) /\
  (forall u, 0 <= u <= 1 -> clayton_cond_x th et eps (clayton_inv_x th et eps u) = u) /\
  (forall u v, 0 <= u <= 1 -> 0 <= v <= 1 -> u < v -> @xleb RNum (clayton_inv_x th et eps u) (clayton_inv_x th et eps v) = true).
Proof.
  intros th et eps Hth Het He. split; [|split; [|split; [|split; [|split]]]].
  - split. apply inv_x_at_1; auto. split. apply inv_x_at_0; auto. apply (inv_x_at_plateau th et Het eps).
  - intros u Hu Hp. apply inv_x_interior; auto.
  - intros u Hu. apply inv_x_defined; auto.
  - intros x. apply inv_x_left_inverse; auto.
  - intros u Hu. apply inv_x_right_inverse; auto.
  - intros u v Hu Hv Huv. apply inv_x_monotone; auto.
Qed.

Lemma w6_clayton_all_infinite : forall th et us,
  (all_inf RNum us = false -> clayton_x_defined et us = true /\ clayton_x th et us = Fin (clayton th et us)) /\
  (0 < et < 1 -> all_inf RNum us = true ->
     clayton_x_defined et us = true /\ clayton_x th et us = if Nat.even (count_ninf RNum us) then PInf else NInf) /\
  (0 <= et <= 1 -> all_inf RNum us = true ->
     (clayton_x_defined et us = false <-> (et = 0 /\ Nat.even (count_ninf RNum us) = true) \/ (et = 1 /\ Nat.odd (count_ninf RNum us) = true))).
Proof.
  intros th et us. split; [|split]. apply clayton_x_finite. apply clayton_x_all_inf. apply clayton_x_undefined_iff.
Qed.

Lemma w6_nonvacuous :
  (dep_cond [@PInf R; Fin 2; PInf] = 2%nat /\ dep_strip 1 1 (Fin 3) = 1 /\ dep_strip (-3) 1 (Fin (-5)) = 0) /\
  (clayton_inv_x 2 (/ 4) 3 1 = PInf /\ clayton_inv_x 2 (/ 4) (-3) (/ 4) = Fin 0 /\ clayton_cond_x 2 (/ 4) 3 (clayton_inv_x 2 (/ 4) 3 (/ 2)) = / 2) /\
  (clayton_x 2 (/ 4) [NInf; PInf] = NInf /\ clayton_x 2 (/ 4) [NInf; NInf; PInf] = PInf /\
   clayton_x_defined 0 [@PInf R; PInf] = false /\ clayton_x_defined 1 [@PInf R; PInf] = true).
Proof.
  split; [|split].
  - split. reflexivity. assert (S1 : 0 < 1 \/ 1 + 1 < 0) by (left; lra). destruct (dep_strip_fin 1 1 3 ltac:(lra) S1) as [_ H]. destruct (H ltac:(lra)) as [H1 _].
    assert (S2 : 0 < -3 \/ -3 + 1 < 0) by (right; lra). destruct (dep_strip_fin (-3) 1 (-5) ltac:(lra) S2) as [H2 _]. specialize (H2 ltac:(lra)). split. exact H1. rewrite H2. change (dep_cond [Fin (-5)]) with 0%nat. cbn [INR]. lra.
  - assert (Het : 0 < / 4 < 1) by lra. split. apply inv_x_at_1; lra. split.
    + replace (/ 4) with (plateau (/ 4) (-3)) at 2. apply inv_x_at_plateau; lra. unfold plateau. rewrite (proj2 (Rleb_false 0 (-3))) by lra. reflexivity.
    + apply inv_x_right_inverse; lra.
  - assert (Het : 0 < / 4 < 1) by lra.
    destruct (clayton_x_all_inf 2 (/ 4) [NInf; PInf] Het eq_refl) as [_ A]. destruct (clayton_x_all_inf 2 (/ 4) [NInf; NInf; PInf] Het eq_refl) as [_ B].
    split. exact A. split. exact B. split.
    + apply (clayton_x_undefined_iff 0 [PInf; PInf]); [lra | reflexivity | left; split; reflexivity].
    + destruct (clayton_x_defined 1 [@PInf R; PInf]) eqn:E; auto. apply (clayton_x_undefined_iff 1 [PInf; PInf]) in E; [|lra|reflexivity].
      destruct E as [[E _]|[_ E]]. lra. discriminate E.
Qed.

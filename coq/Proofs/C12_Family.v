(* C12 -- the abstract hypotheses UI_inf / UI_one of Proofs/C12_Mass.v hold for the family the code builds
   (margin_tail_integral from any grounded copula function and marginal tails that vanish at +-inf), for every valid
   index list (NoDup, entries < d), d = 2 and 3. *)
From Coq Require Import List Arith Bool Reals Lra Lia.
From RV Require Import Base.RB Base.ExtNum Model.Copula Gen.GenC12Mass Model.MassNd Proofs.C12_Mass.
Import ListNotations.
Open Scope R_scope.

Definition okI (d : nat) (I : list nat) : Prop := NoDup I /\ Forall (fun i => (i < d)%nat) I.
Definition tails_inf (V : nat -> ext R -> ext R) : Prop := forall i, V i PInf = Fin 0 /\ V i NInf = Fin 0.
Definition grounded2 (cop : list (ext R) -> R) : Prop := forall v, cop [Fin 0; v] = 0 /\ cop [v; Fin 0] = 0.
Definition grounded3 (cop : list (ext R) -> R) : Prop := forall u v, cop [Fin 0; u; v] = 0 /\ cop [u; Fin 0; v] = 0 /\ cop [u; v; Fin 0] = 0.

Lemma okI_1 d i : (i < d)%nat -> okI d [i].
Proof. intros. split; repeat constructor; auto. Qed.
Lemma okI_2 d i j : (i < d)%nat -> (j < d)%nat -> i <> j -> okI d [i; j].
Proof. intros. split; repeat constructor; simpl; intuition. Qed.
Lemma okI_3 d i j k : (i < d)%nat -> (j < d)%nat -> (k < d)%nat -> i <> j -> i <> k -> j <> k -> okI d [i; j; k].
Proof. intros. split; repeat constructor; simpl; intuition. Qed.
Lemma okI_inv1 d i : okI d [i] -> (i < d)%nat.
Proof. intros [_ F]. inversion F; auto. Qed.
Lemma okI_inv2 d i j : okI d [i; j] -> (i < d)%nat /\ (j < d)%nat /\ i <> j.
Proof. intros [N F]. inversion F as [|? ? Fi F']; subst. inversion F'; subst. inversion N; subst. simpl in *. intuition. Qed.
Lemma okI_inv3 d i j k : okI d [i; j; k] -> (i < d)%nat /\ (j < d)%nat /\ (k < d)%nat /\ i <> j /\ i <> k /\ j <> k.
Proof. intros [N F]. inversion F as [|? ? Fi F']; subst. inversion F' as [|? ? Fj F'']; subst. inversion F''; subst.
  inversion N as [|? ? Ni N']; subst. inversion N'; subst. simpl in *. intuition. Qed.
Lemma okI_len d I : okI d I -> (length I <= d)%nat.
Proof.
  intros [N F]. rewrite <- (seq_length d 0). apply (NoDup_incl_length N (l' := seq 0 d)).
  intros i Hi. apply in_seq. rewrite Forall_forall in F. specialize (F i Hi). lia.
Qed.

Section Family.
  Variable V : nat -> ext R -> ext R.
  Variable cop : list (ext R) -> R.
  Hypothesis Vinf : tails_inf V.
  Notation U1 := (tail_val RNum V).

  Ltac small i := match goal with H : (i < _)%nat |- _ => let H' := fresh in
     (destruct i as [|[|[|i]]]; try lia) end.
  Lemma Vp i : V i PInf = Fin 0. Proof. apply Vinf. Qed.
  Lemma Vn i : V i NInf = Fin 0. Proof. apply Vinf. Qed.
  Ltac vin := rewrite ?Vp, ?Vn.

  Theorem mti_one d i x : (2 <= d)%nat -> margin_tail_integral RNum V cop d (Some [i]) [x] = U1 i x.
  Proof. intros Hd. unfold margin_tail_integral, nat_list_eqb. rewrite seq_length. cbn [length].
    destruct d as [|[|d]]; try lia. reflexivity. Qed.

  Theorem mti_inf2 : grounded2 cop -> forall I x, okI 2 I -> length x = length I -> existsb is_inf x = true ->
    margin_tail_integral RNum V cop 2 (Some I) x = 0.
  Proof.
    intros G I x Hok Hl Hinf. pose proof (okI_len _ _ Hok) as Hlen.
    destruct I as [|i [|j [|]]]; cbn [length] in *; try lia.
    - destruct x; [|discriminate]. discriminate.
    - apply okI_inv1 in Hok. destruct x as [|x0 [|]]; try discriminate. rewrite mti_one by lia. unfold tail_val.
      destruct x0; try discriminate; vin; reflexivity || (cbn; reflexivity).
    - apply okI_inv2 in Hok. destruct Hok as [Hi [Hj Hij]]. destruct x as [|x0 [|x1 [|]]]; try discriminate.
      destruct i as [|[|i]]; destruct j as [|[|j]]; try lia; destruct x0, x1; try discriminate; cbn; vin; rewrite ?(proj1 (G _)), ?(proj2 (G _)); ring.
  Qed.

  Theorem mti_inf3 : grounded3 cop -> forall I x, okI 3 I -> length x = length I -> existsb is_inf x = true ->
    margin_tail_integral RNum V cop 3 (Some I) x = 0.
  Proof.
    intros G I x Hok Hl Hinf. pose proof (okI_len _ _ Hok) as Hlen.
    assert (g1 : forall u v, cop [Fin 0; u; v] = 0) by (intros; apply G).
    assert (g2 : forall u v, cop [u; Fin 0; v] = 0) by (intros; apply G).
    assert (g3 : forall u v, cop [u; v; Fin 0] = 0) by (intros; apply G).
    destruct I as [|i [|j [|k [|]]]]; cbn [length] in *; try lia.
    - destruct x; [|discriminate]. discriminate.
    - apply okI_inv1 in Hok. destruct x as [|x0 [|]]; try discriminate. rewrite mti_one by lia. unfold tail_val.
      destruct x0; try discriminate; vin; reflexivity || (cbn; reflexivity).
    - apply okI_inv2 in Hok. destruct Hok as [Hi [Hj Hij]]. destruct x as [|x0 [|x1 [|]]]; try discriminate.
      destruct i as [|[|[|i]]]; destruct j as [|[|[|j]]]; try lia; destruct x0, x1; try discriminate; cbn; vin; rewrite ?g1, ?g2, ?g3; ring.
    - apply okI_inv3 in Hok. destruct Hok as [Hi [Hj [Hk [Hij [Hik Hjk]]]]]. destruct x as [|x0 [|x1 [|x2 [|]]]]; try discriminate.
      destruct i as [|[|[|i]]]; destruct j as [|[|[|j]]]; destruct k as [|[|[|k]]]; try lia;
        destruct x0, x1, x2; try discriminate; cbn; vin; rewrite ?g1, ?g2, ?g3; ring.
  Qed.
End Family.

(* ---- the abstract theorems of C12_Mass instantiated on the modelled family ------------------------------- *)
Section Model.
  Variable V : nat -> ext R -> ext R.
  Variable cop : list (ext R) -> R.
  Hypothesis Vinf : tails_inf V.
  Notation U1 := (tail_val RNum V).

  Lemma ok2_of d i1 i2 : (i1 < d)%nat -> (i2 < d)%nat -> i1 <> i2 -> ok2 (okI d) i1 i2.
  Proof. intros. unfold ok2. split; [apply okI_2; assumption | split; apply okI_1; assumption]. Qed.
  Lemma ok3_of d i1 i2 i3 : (i1 < d)%nat -> (i2 < d)%nat -> (i3 < d)%nat -> i1 <> i2 -> i1 <> i3 -> i2 <> i3 -> ok3 (okI d) i1 i2 i3.
  Proof. intros. unfold ok3. split; [apply okI_3; assumption|]. split; [apply okI_2; assumption|]. split; [apply okI_2; assumption|].
    split; [apply okI_2; assumption|]. split; [apply okI_1; assumption|]. split; apply okI_1; assumption. Qed.

  Section D2.
    Hypothesis G : grounded2 cop.
    Notation UI := (margin_tail_integral RNum V cop 2).
    Lemma one2 i x : okI 2 [i] -> UI (Some [i]) [x] = U1 i x. Proof. intros; apply mti_one; lia. Qed.
    Theorem model2_fast_agrees i1 i2 a1 a2 b1 b2 fuel : (i1 < 2)%nat -> (i2 < 2)%nat -> i1 <> i2 -> (2 <= fuel)%nat ->
      (straddles RNum a1 b1 && straddles RNum a2 b2)%bool = false ->
      fast_2d RNum U1 UI [a1; a2] [b1; b2] (Some [i1; i2]) = mass_nd RNum UI fuel [a1; a2] [b1; b2] [i1; i2].
    Proof. intros. apply (fast_2d_agrees U1 UI (okI 2) (mti_inf2 V cop Vinf G) one2); auto. apply ok2_of; auto. Qed.
    Theorem model2_margins a b : straddles RNum a b = false ->
      fast_2d RNum U1 UI [a; NInf] [b; PInf] None = fast_1d RNum U1 a b 0%nat /\
      fast_2d RNum U1 UI [NInf; a] [PInf; b] None = fast_1d RNum U1 a b 1%nat.
    Proof. intros H. rewrite !fast_2d_none. split.
      - eapply margin_2d_1 with (ok := okI 2); first [exact (mti_inf2 V cop Vinf G) | exact one2 | (apply ok2_of; lia) | assumption].
      - eapply margin_2d_2 with (ok := okI 2); first [exact (mti_inf2 V cop Vinf G) | exact one2 | (apply ok2_of; lia) | assumption]. Qed.
  End D2.
  Section D3.
    Hypothesis G : grounded3 cop.
    Notation UI := (margin_tail_integral RNum V cop 3).
    Lemma one3 i x : okI 3 [i] -> UI (Some [i]) [x] = U1 i x. Proof. intros; apply mti_one; lia. Qed.
    Theorem model3_fast_agrees i1 i2 i3 a1 a2 a3 b1 b2 b3 fuel : (i1 < 3)%nat -> (i2 < 3)%nat -> (i3 < 3)%nat ->
      i1 <> i2 -> i1 <> i3 -> i2 <> i3 -> (3 <= fuel)%nat ->
      (straddles RNum a1 b1 && straddles RNum a2 b2 && straddles RNum a3 b3)%bool = false ->
      fast_3d RNum U1 UI [a1; a2; a3] [b1; b2; b3] (Some [i1; i2; i3]) = mass_nd RNum UI fuel [a1; a2; a3] [b1; b2; b3] [i1; i2; i3].
    Proof. intros. apply (fast_3d_agrees U1 UI (okI 3) (mti_inf3 V cop Vinf G) one3); auto. apply ok3_of; auto. Qed.
    Theorem model3_pair_agrees i1 i2 a1 a2 b1 b2 fuel : (i1 < 3)%nat -> (i2 < 3)%nat -> i1 <> i2 -> (2 <= fuel)%nat ->
      (straddles RNum a1 b1 && straddles RNum a2 b2)%bool = false ->
      fast_3d RNum U1 UI [a1; a2] [b1; b2] (Some [i1; i2]) = mass_nd RNum UI fuel [a1; a2] [b1; b2] [i1; i2].
    Proof. intros. rewrite fast_3d_pair. apply (fast_2d_agrees U1 UI (okI 3) (mti_inf3 V cop Vinf G) one3); auto. apply ok2_of; auto. Qed.
    Theorem model3_margins a1 a2 b1 b2 : (straddles RNum a1 b1 && straddles RNum a2 b2)%bool = false ->
      fast_3d RNum U1 UI [a1; a2; NInf] [b1; b2; PInf] None = fast_2d RNum U1 UI [a1; a2] [b1; b2] (Some [0; 1]%nat) /\
      fast_3d RNum U1 UI [a1; NInf; a2] [b1; PInf; b2] None = fast_2d RNum U1 UI [a1; a2] [b1; b2] (Some [0; 2]%nat) /\
      fast_3d RNum U1 UI [NInf; a1; a2] [PInf; b1; b2] None = fast_2d RNum U1 UI [a1; a2] [b1; b2] (Some [1; 2]%nat).
    Proof. intros H. rewrite !fast_3d_none. assert (K : ok3 (okI 3) 0 1 2) by (apply ok3_of; lia). repeat split.
      - eapply margin_3d_3 with (ok := okI 3); first [exact (mti_inf3 V cop Vinf G) | exact one3 | exact K | assumption].
      - eapply margin_3d_2 with (ok := okI 3); first [exact (mti_inf3 V cop Vinf G) | exact one3 | exact K | assumption].
      - eapply margin_3d_1 with (ok := okI 3); first [exact (mti_inf3 V cop Vinf G) | exact one3 | exact K | assumption]. Qed.
  End D3.
End Model.

(* C12 -- the general recursion _mass_nd (hand model Model.MassNd.mass_nd) in ANY dimension.

   msem is the closed form of the recursion: the tensor product over the coordinates of the one-dimensional functionals
       non-straddling (x, y] :  g |-> g(x) - g(y)
       straddling     (x, y] :  g |-> g(drop) - (g(y) - g(+inf)) - (g(-inf) - g(x))         (drop = the margin without that coordinate)
   applied to the family F J p = UI (Some J) p.  mass_nd_msem proves  mass_nd = msem  for every dimension, every rectangle, every
   NoDup index list (induction on the fuel / number of straddling coordinates; the no-straddle leaf is the signed `volume`).
   Additivity under splitting ANY coordinate at ANY point and margin consistency (a coordinate ranging over the whole line drops
   out) then follow for every dimension by induction over the coordinates, for an ARBITRARY function family UI: both are identities of
   the inclusion-exclusion recursion itself (the eight-way sign split of a one-dimensional functional closes by `ring`), NOT facts
   about tail integrals -- no vanishing at infinity, no copula, no monotonicity is used (audit5b B2: the hypothesis the earlier
   statement carried was decorative).  What does need the copula -- non-negativity -- is in C12_Nonneg.v (d = 2, 3) and
   C12_Indep.v (independent copula, any d).  mass_nd with too little fuel returns 0 silently: the theorems carry the bound. *)
From Coq Require Import List Arith Bool Reals Lra Lia.
From RV Require Import Base.RB Base.ExtNum Model.Copula Gen.GenC12Mass Model.MassNd Proofs.C12_Mass.
Import ListNotations.
Open Scope R_scope.

Definition FT := list nat -> list (ext R) -> R.
Definition pre (i : nat) (v : ext R) (F : FT) : FT := fun J p => F (i :: J) (v :: p).

Fixpoint msem (a b : list (ext R)) (I : list nat) (F : FT) : R :=
  match a, b, I with
  | x :: a', y :: b', i :: I' =>
      if straddles RNum x y then
        msem a' b' I' F - (msem a' b' I' (pre i y F) - msem a' b' I' (pre i PInf F))
                        - (msem a' b' I' (pre i NInf F) - msem a' b' I' (pre i x F))
      else msem a' b' I' (pre i x F) - msem a' b' I' (pre i y F)
  | _, _, _ => F [] []
  end.

(* ---- volume: one coordinate at a time ------------------------------------------------------------------------------ *)
Fixpoint ssum (n : nat) (f : list (ext R) -> R) (cs : list (nat * list (ext R))) : R :=
  match cs with [] => 0 | c :: r => (if Nat.even (n - fst c) then f (snd c) else - f (snd c)) + ssum n f r end.
Lemma fold_ssum n f cs (acc : R) :
  fold_left (fun (res : RNum) (c : nat * list (ext R)) => if Nat.even (n - fst c) then nadd RNum res (f (snd c)) else nsub RNum res (f (snd c))) cs acc
  = acc + ssum n f cs.
Proof. revert acc. induction cs as [|c cs IH]; intros acc; cbn [fold_left ssum]. lra. rewrite IH. destruct (Nat.even (n - fst c)); cbn [RNum nadd nsub]; lra. Qed.
Lemma volume_ssum f (a b : list (ext R)) : volume RNum f a b = ssum (length a) f (corners a b).
Proof. unfold volume. rewrite fold_ssum. cbn [RNum n0]. lra. Qed.
Lemma ssum_app n f c1 c2 : ssum n f (c1 ++ c2) = ssum n f c1 + ssum n f c2.
Proof. induction c1; simpl. lra. rewrite IHc1. lra. Qed.
Lemma corners_fst (a b : list (ext R)) c : In c (corners a b) -> (fst c <= length a)%nat.
Proof.
  revert b c. induction a as [|x a IH]; intros b c H.
  - simpl in H. destruct H as [H|[]]. subst. simpl. lia.
  - destruct b as [|y b]. { simpl in H. destruct H as [H|[]]. subst. simpl. lia. }
    simpl in H. apply in_app_or in H. destruct H as [H|H]; apply in_map_iff in H; destruct H as [c0 [E H]]; subst; simpl;
      specialize (IH b c0 H); lia.
Qed.
Lemma ssum_map_lo n f x cs : (forall c, In c cs -> (fst c <= n)%nat) ->
  ssum (S n) f (map (fun c => (fst c, x :: snd c)) cs) = - ssum n (fun p => f (x :: p)) cs.
Proof.
  induction cs as [|c cs IH]; intros H; cbn [map ssum fst snd]. lra. rewrite IH by (intros; apply H; right; assumption).
  assert (L : (fst c <= n)%nat) by (apply H; left; reflexivity).
  replace (S n - fst c)%nat with (S (n - fst c)) by lia. rewrite Nat.even_succ, <- Nat.negb_even. destruct (Nat.even (n - fst c)); simpl; lra.
Qed.
Lemma ssum_map_hi n f y cs :
  ssum (S n) f (map (fun c => (S (fst c), y :: snd c)) cs) = ssum n (fun p => f (y :: p)) cs.
Proof. induction cs as [|c cs IH]; cbn [map ssum fst snd]. lra. rewrite IH. replace (S n - S (fst c))%nat with (n - fst c)%nat by lia. reflexivity. Qed.
Lemma volume_cons f x y (a b : list (ext R)) :
  volume RNum f (x :: a) (y :: b) = volume RNum (fun p => f (y :: p)) a b - volume RNum (fun p => f (x :: p)) a b.
Proof.
  rewrite !volume_ssum. cbn [length corners].
  rewrite ssum_app, ssum_map_lo by (intros c H; apply (corners_fst a b c H)). rewrite ssum_map_hi. lra.
Qed.

Definition eps (n : nat) (v : R) : R := if Nat.odd n then (- 1) * v else 1 * v.

Lemma msem_leaf : forall I (a b : list (ext R)) F, first_straddling RNum I a b = None -> length a = length I -> length b = length I ->
  msem a b I F = eps (length a) (volume RNum (F I) a b).
Proof.
  induction I as [|i I IH]; intros a b F Hn La Lb.
  - destruct a; [|discriminate]. destruct b; [|discriminate]. unfold eps, volume. simpl. lra.
  - destruct a as [|x a]; [discriminate|]. destruct b as [|y b]; [discriminate|]. cbn [first_straddling] in Hn.
    destruct (straddles RNum x y) eqn:S; [discriminate|]. cbn [msem]. rewrite S.
    simpl in La, Lb. rewrite (IH a b (pre i x F)), (IH a b (pre i y F)) by (auto; lia).
    rewrite (volume_cons (F (i :: I)) x y a b). unfold pre, eps. cbn [length]. rewrite Nat.odd_succ, <- Nat.negb_odd.
    destruct (Nat.odd (length a)); simpl; lra.
Qed.

(* ---- the straddle step, at any position --------------------------------------------------------------------------- *)
Lemma msem_straddle : forall a1 b1 I1 x y i a2 b2 I2 F, length a1 = length I1 -> length b1 = length I1 -> straddles RNum x y = true ->
  msem (a1 ++ x :: a2) (b1 ++ y :: b2) (I1 ++ i :: I2) F =
    msem (a1 ++ a2) (b1 ++ b2) (I1 ++ I2) F
    - msem (a1 ++ y :: a2) (b1 ++ PInf :: b2) (I1 ++ i :: I2) F
    - msem (a1 ++ NInf :: a2) (b1 ++ x :: b2) (I1 ++ i :: I2) F.
Proof.
  induction a1 as [|x0 a1 IH]; intros b1 I1 x y i a2 b2 I2 F La Lb S.
  - destruct I1; [|discriminate]. destruct b1; [|discriminate]. cbn [app msem]. rewrite S.
    unfold straddles in S. apply andb_prop in S. destruct S as [Sx Sy].
    assert (S1 : straddles RNum y PInf = false) by (unfold straddles; rewrite (ge0_lt0 y Sy); reflexivity).
    assert (S2 : straddles RNum NInf x = false) by (unfold straddles; rewrite (lt0_ge0 x Sx); apply andb_false_r).
    rewrite S1, S2. reflexivity.
  - destruct I1 as [|i0 I1]; [discriminate|]. destruct b1 as [|y0 b1]; [discriminate|]. simpl in La, Lb.
    cbn [app msem]. destruct (straddles RNum x0 y0);
      repeat rewrite (IH b1 I1 x y i a2 b2 I2) by (auto; lia); lra.
Qed.

(* what mass_nd does with the first straddling coordinate, as a decomposition of the three lists *)
Lemma first_straddling_split : forall I (a b : list (ext R)) j, first_straddling RNum I a b = Some j -> NoDup I -> length a = length I -> length b = length I ->
  exists (a1 : list (ext R)) (x : ext R) (a2 b1 : list (ext R)) (y : ext R) (b2 : list (ext R)) I1 I2, a = a1 ++ x :: a2 /\ b = b1 ++ y :: b2 /\ I = I1 ++ j :: I2 /\ length a1 = length I1 /\ length b1 = length I1 /\
    straddles RNum x y = true /\ index_of j I = length I1.
Proof.
  induction I as [|i I IH]; intros a b j H N La Lb. { destruct a, b; discriminate. }
  destruct a as [|x a]; [discriminate|]. destruct b as [|y b]; [discriminate|]. cbn [first_straddling] in H.
  destruct (straddles RNum x y) eqn:S.
  - inversion H; subst. exists (@nil (ext R)), x, a, (@nil (ext R)), y, b, [], I. cbn. rewrite Nat.eqb_refl. repeat split; auto.
  - inversion N as [|? ? Ni N']; subst. simpl in La, Lb.
    destruct (IH a b j H N' ltac:(lia) ltac:(lia)) as [a1 [x' [a2 [b1 [y' [b2 [I1 [I2 [Ea [Eb [EI [L1 [L2 [S' Ix]]]]]]]]]]]]]].
    exists (x :: a1), x', a2, (y :: b1), y', b2, (i :: I1), I2. subst. cbn [app length index_of].
    assert (D : (i =? j)%nat = false). { apply Nat.eqb_neq. intros E. subst. apply Ni. apply in_or_app. right. left. reflexivity. }
    rewrite D, Ix. repeat split; auto.
Qed.
Lemma set_nth_app {A} k (l1 : list A) v w l2 : k = length l1 -> set_nth k w (l1 ++ v :: l2) = l1 ++ w :: l2.
Proof. intros ->. induction l1; simpl; congruence. Qed.
Lemma pop_nth_app {A} k (l1 : list A) v l2 : k = length l1 -> pop_nth k (l1 ++ v :: l2) = l1 ++ l2.
Proof. intros ->. induction l1; simpl; congruence. Qed.
Lemma nth_app_mid {A} k (l1 : list A) v l2 dflt : k = length l1 -> nth k (l1 ++ v :: l2) dflt = v.
Proof. intros ->. induction l1; simpl; auto. Qed.

(* number of straddling coordinates *)
Fixpoint cnt (a b : list (ext R)) : nat :=
  match a, b with x :: a', y :: b' => ((if straddles RNum x y then 1 else 0) + cnt a' b')%nat | _, _ => 0%nat end.
Lemma cnt_app a1 b1 a2 b2 : length a1 = length b1 -> cnt (a1 ++ a2) (b1 ++ b2) = (cnt a1 b1 + cnt a2 b2)%nat.
Proof. revert b1. induction a1; intros [|y b1] H; try discriminate; simpl; auto. rewrite IHa1 by (simpl in H; lia). lia. Qed.

Section General.
  Variable UI : idx -> list (ext R) -> R.
  Definition FU : FT := fun J p => UI (Some J) p.

  Theorem mass_nd_msem : forall fuel (a b : list (ext R)) I, length a = length I -> length b = length I -> NoDup I -> (cnt a b < fuel)%nat ->
    mass_nd RNum UI fuel a b I = msem a b I FU.
  Proof.
    induction fuel as [|fuel IH]; intros a b I La Lb N C. lia.
    cbn [mass_nd]. destruct (first_straddling RNum I a b) as [j|] eqn:Fs.
    - destruct (first_straddling_split I a b j Fs N La Lb) as [a1 [x [a2 [b1 [y [b2 [I1 [I2 [Ea [Eb [EI [L1 [L2 [S Ix]]]]]]]]]]]]]].
      subst a b I. rewrite Ix.
      rewrite !(set_nth_app (length I1) a1), !(set_nth_app (length I1) b1), (pop_nth_app (length I1) a1), (pop_nth_app (length I1) b1),
        (pop_nth_app (length I1) I1), (nth_app_mid (length I1) a1), (nth_app_mid (length I1) b1) by lia.
      rewrite !app_length in La, Lb. cbn [length] in La, Lb.
      assert (S' := S). unfold straddles in S'. apply andb_prop in S'. destruct S' as [Sx Sy].
      assert (S1 : straddles RNum y PInf = false) by (unfold straddles; rewrite (ge0_lt0 y Sy); reflexivity).
      assert (S2 : straddles RNum NInf x = false) by (unfold straddles; rewrite (lt0_ge0 x Sx); apply andb_false_r).
      rewrite cnt_app in C by lia. cbn [cnt] in C. rewrite S in C.
      apply NoDup_remove_1 in N as N'.
      transitivity (msem (a1 ++ a2) (b1 ++ b2) (I1 ++ I2) FU - msem (a1 ++ y :: a2) (b1 ++ PInf :: b2) (I1 ++ j :: I2) FU
                    - msem (a1 ++ NInf :: a2) (b1 ++ x :: b2) (I1 ++ j :: I2) FU).
      2: { symmetry. apply (msem_straddle a1 b1 I1 x y j a2 b2 I2 FU L1 L2 S). }
      assert (La2 : length a2 = length I2) by lia. assert (Lb2 : length b2 = length I2) by lia.
      cbn [RNum nsub]. f_equal; [f_equal|]; apply IH; rewrite ?app_length; cbn [length]; try lia; try assumption;
        rewrite cnt_app by lia; cbn [cnt]; change (T RNum) with R in *; rewrite ?S1, ?S2; lia.
    - rewrite (msem_leaf I a b FU Fs La Lb). unfold eps, FU. cbn [RNum nmul nopp n1]. change (T RNum) with R. destruct (Nat.odd (length a)); reflexivity.
  Qed.
End General.

(* ---- margin consistency in any dimension: a coordinate ranging over the whole line drops out ---------------------------- *)
Lemma msem_degenerate : forall (a1 b1 : list (ext R)) I1 (v : ext R) i a2 b2 I2 F, length a1 = length I1 -> length b1 = length I1 ->
  straddles RNum v v = false -> msem (a1 ++ v :: a2) (b1 ++ v :: b2) (I1 ++ i :: I2) F = 0.
Proof.
  induction a1 as [|x0 a1 IH]; intros b1 I1 v i a2 b2 I2 F La Lb S.
  - destruct I1; [|discriminate]. destruct b1; [|discriminate]. cbn [app msem]. change (T RNum) with R in *. rewrite S. apply Rminus_diag_eq. reflexivity.
  - destruct I1 as [|i0 I1]; [discriminate|]. destruct b1 as [|y0 b1]; [discriminate|]. simpl in La, Lb.
    cbn [app msem]. destruct (straddles RNum x0 y0); repeat rewrite (IH b1 I1 v i a2 b2 I2) by (auto; lia); ring.
Qed.

Theorem msem_whole_line (a1 b1 : list (ext R)) I1 i a2 b2 I2 F : length a1 = length I1 -> length b1 = length I1 ->
  msem (a1 ++ NInf :: a2) (b1 ++ PInf :: b2) (I1 ++ i :: I2) F = msem (a1 ++ a2) (b1 ++ b2) (I1 ++ I2) F.
Proof.
  intros La Lb.
  transitivity (msem (a1 ++ a2) (b1 ++ b2) (I1 ++ I2) F - msem (a1 ++ PInf :: a2) (b1 ++ PInf :: b2) (I1 ++ i :: I2) F
                - msem (a1 ++ NInf :: a2) (b1 ++ NInf :: b2) (I1 ++ i :: I2) F).
  - apply (msem_straddle a1 b1 I1 NInf PInf i a2 b2 I2 F La Lb eq_refl).
  - pose proof (msem_degenerate a1 b1 I1 PInf i a2 b2 I2 F La Lb eq_refl) as K1.
    pose proof (msem_degenerate a1 b1 I1 NInf i a2 b2 I2 F La Lb eq_refl) as K2.
    etransitivity. { apply f_equal2; [apply f_equal2; [reflexivity | exact K1] | exact K2]. } ring.
Qed.

(* ---- additivity in any dimension ------------------------------------------------------------------------------------- *)
Inductive subl : list nat -> list nat -> Prop :=
| subl_nil : subl [] []
| subl_skip i J I : subl J I -> subl J (i :: I)
| subl_take i J I : subl J I -> subl (i :: J) (i :: I).
(* F vanishes on every sub-list J of the index list (used by C12_Indep.v for axis families) *)
Definition Zd (I : list nat) (F : FT) : Prop := forall J p, subl J I -> length p = length J -> F J p = 0.
Lemma Zd_skip i I F : Zd (i :: I) F -> Zd I F.
Proof. intros G J p H L. apply G; auto. constructor; assumption. Qed.
Lemma Zd_pre i v I F : Zd (i :: I) F -> Zd I (pre i v F).
Proof. intros G J p H L. unfold pre. apply G. constructor; assumption. simpl; congruence. Qed.
Lemma msem_zero : forall I (a b : list (ext R)) F, Zd I F -> length a = length I -> length b = length I -> msem a b I F = 0.
Proof.
  induction I as [|i I IH]; intros a b F Z La Lb.
  - destruct a; [|discriminate]. destruct b; [|discriminate]. cbn [msem]. apply Z. constructor. reflexivity.
  - destruct a as [|x a]; [discriminate|]. destruct b as [|y b]; [discriminate|]. simpl in La, Lb. cbn [msem].
    rewrite (IH a b F (Zd_skip _ _ _ Z)), !(IH a b (pre i _ F)) by (auto using Zd_pre; lia). destruct (straddles RNum x y); ring.
Qed.

(* for EVERY F: no hypothesis on the family (the values at +-inf of a straddling coordinate cancel between the two halves) *)
Theorem msem_additive : forall (a1 b1 : list (ext R)) I1 (x y c : ext R) i a2 b2 I2 F, length a1 = length I1 -> length b1 = length I1 ->
  @xleb RNum x c = true -> @xleb RNum c y = true ->
  msem (a1 ++ x :: a2) (b1 ++ y :: b2) (I1 ++ i :: I2) F =
  msem (a1 ++ x :: a2) (b1 ++ c :: b2) (I1 ++ i :: I2) F + msem (a1 ++ c :: a2) (b1 ++ y :: b2) (I1 ++ i :: I2) F.
Proof.
  induction a1 as [|x0 a1 IH]; intros b1 I1 x y c i a2 b2 I2 F La Lb Hxc Hcy.
  - destruct I1; [|discriminate]. destruct b1; [|discriminate]. cbn [app] in *. cbn [msem].
    unfold straddles. rewrite !ge0_neg. change (T RNum) with R in *.
    destruct (@xlt0 RNum x) eqn:Fx; destruct (@xlt0 RNum c) eqn:Fc; destruct (@xlt0 RNum y) eqn:Fy;
      try (exfalso; pose proof (lt0_mono c y Hcy Fy); congruence); try (exfalso; pose proof (lt0_mono x c Hxc Fc); congruence);
      cbn [andb negb]; ring.
  - destruct I1 as [|i0 I1]; [discriminate|]. destruct b1 as [|y0 b1]; [discriminate|]. simpl in La, Lb.
    cbn [app msem].
    assert (K : forall F', msem (a1 ++ x :: a2) (b1 ++ y :: b2) (I1 ++ i :: I2) F' =
      msem (a1 ++ x :: a2) (b1 ++ c :: b2) (I1 ++ i :: I2) F' + msem (a1 ++ c :: a2) (b1 ++ y :: b2) (I1 ++ i :: I2) F')
      by (intros F'; apply IH; first [lia | assumption]).
    destruct (straddles RNum x0 y0).
    + rewrite (K F), (K (pre i0 y0 F)), (K (pre i0 PInf F)), (K (pre i0 NInf F)), (K (pre i0 x0 F)). ring.
    + rewrite (K (pre i0 y0 F)), (K (pre i0 x0 F)). ring.
Qed.

(* ---- back to mass_nd (NoDup index list, fuel bound) ------------------------------------------------------------------------- *)
Lemma cnt_le (a b : list (ext R)) : (cnt a b <= length a)%nat.
Proof. revert b. induction a as [|x a IH]; intros [|y b]; simpl; try lia. specialize (IH b). destruct (straddles RNum x y); lia. Qed.
Lemma subl_in J I : subl J I -> forall j, In j J -> In j I.
Proof. induction 1; intros j H0; simpl in *; auto. destruct H0; auto. Qed.
Lemma subl_nodup J I : subl J I -> NoDup I -> NoDup J.
Proof.
  induction 1; intros N; auto.
  - inversion N; auto.
  - inversion N; subst. constructor; auto. intros K. apply (subl_in _ _ H) in K. contradiction.
Qed.

Theorem mass_nd_additive : forall (UI : idx -> list (ext R) -> R)
  (a1 b1 : list (ext R)) I1 (x y c : ext R) i a2 b2 I2 fuel,
  length a1 = length I1 -> length b1 = length I1 -> length a2 = length I2 -> length b2 = length I2 ->
  NoDup (I1 ++ i :: I2) -> (length I1 + S (length I2) < fuel)%nat -> @xleb RNum x c = true -> @xleb RNum c y = true ->
  mass_nd RNum UI fuel (a1 ++ x :: a2) (b1 ++ y :: b2) (I1 ++ i :: I2) =
  mass_nd RNum UI fuel (a1 ++ x :: a2) (b1 ++ c :: b2) (I1 ++ i :: I2) + mass_nd RNum UI fuel (a1 ++ c :: a2) (b1 ++ y :: b2) (I1 ++ i :: I2).
Proof.
  intros UI a1 b1 I1 x y c i a2 b2 I2 fuel La Lb La2 Lb2 N Hf Hxc Hcy.
  assert (L : forall (u : ext R), length (a1 ++ u :: a2) = length (I1 ++ i :: I2)) by (intros; rewrite !app_length; cbn [length]; lia).
  assert (L' : forall (v : ext R), length (b1 ++ v :: b2) = length (I1 ++ i :: I2)) by (intros; rewrite !app_length; cbn [length]; lia).
  assert (C : forall (u v : ext R), (cnt (a1 ++ u :: a2) (b1 ++ v :: b2) < fuel)%nat)
    by (intros u v; pose proof (cnt_le (a1 ++ u :: a2) (b1 ++ v :: b2)) as Q; rewrite app_length in Q; cbn [length] in Q; lia).
  rewrite !(mass_nd_msem UI fuel) by first [apply L | apply L' | assumption | apply C].
  apply msem_additive; auto.
Qed.

Theorem mass_nd_whole_line UI (a1 b1 : list (ext R)) I1 i a2 b2 I2 fuel :
  length a1 = length I1 -> length b1 = length I1 -> length a2 = length I2 -> length b2 = length I2 ->
  NoDup (I1 ++ i :: I2) -> (length I1 + S (length I2) < fuel)%nat ->
  mass_nd RNum UI fuel (a1 ++ NInf :: a2) (b1 ++ PInf :: b2) (I1 ++ i :: I2) = mass_nd RNum UI fuel (a1 ++ a2) (b1 ++ b2) (I1 ++ I2).
Proof.
  intros La Lb La2 Lb2 N Hf.
  rewrite (mass_nd_msem UI fuel (a1 ++ NInf :: a2) (b1 ++ PInf :: b2)); try assumption; try (rewrite !app_length; cbn [length]; lia).
  2: { pose proof (cnt_le (a1 ++ NInf :: a2) (b1 ++ PInf :: b2)) as Q. rewrite app_length in Q. cbn [length] in Q. lia. }
  rewrite (mass_nd_msem UI fuel (a1 ++ a2) (b1 ++ b2)); try (rewrite !app_length; lia).
  - apply msem_whole_line; assumption.
  - apply NoDup_remove_1 in N. exact N.
  - pose proof (cnt_le (a1 ++ a2) (b1 ++ b2)) as Q. rewrite app_length in Q. lia.
Qed.

(* C12 -- the Q -> R homomorphism (DESIGN 2.1).  The generated masses _mass_1d/_mass_2d/_mass_3d (Gen.GenC12Mass) and the hand models
   (mass_nd, volume, margin, independent / dependent copula, margin_tail_integral) are written ONCE over a `Num` record; the correspondence
   RUNS the QNum instance (vm_compute) and the theorems are ABOUT the RNum instance.  This file links the two instances by theorem:
   every one of these functions commutes with any homomorphism h of Num records (NumHom: 0, 1, +, -, *, opp and the two boolean
   comparisons are preserved), applied to the extended coordinates by emap; Q2R is such a homomorphism (Q2R_hom).  Hence
       Q2R (f QNum x) = f RNum (map (emap Q2R) x)
   for f = _mass_1d, _mass_2d, _mass_3d (the py2coq-generated terms), mass_nd (any dimension, any fuel) and for the whole family the code builds
   on step margins: the value the correspondence computes over Q IS (the rational pre-image of) the value of the real model. *)
From Coq Require Import List Arith Bool ZArith QArith Qreals Reals Lra Lia.
From RV Require Import Base.QB Base.RB Base.ExtNum Model.Copula Gen.GenC12Mass Model.MassNd.
Import ListNotations.

Definition emap {A B : Type} (h : A -> B) (x : ext A) : ext B :=
  match x with NInf => NInf | Fin v => Fin (h v) | PInf => PInf end.

Record NumHom (N1 N2 : Num) (h : N1 -> N2) : Prop := mkHom {
  h_0 : h (n0 N1) = n0 N2;
  h_1 : h (n1 N1) = n1 N2;
  h_add : forall x y, h (nadd N1 x y) = nadd N2 (h x) (h y);
  h_sub : forall x y, h (nsub N1 x y) = nsub N2 (h x) (h y);
  h_mul : forall x y, h (nmul N1 x y) = nmul N2 (h x) (h y);
  h_opp : forall x, h (nopp N1 x) = nopp N2 (h x);
  h_leb : forall x y, nleb N2 (h x) (h y) = nleb N1 x y;
  h_ltb : forall x y, nltb N2 (h x) (h y) = nltb N1 x y }.

Lemma Q2R_leb x y : Rleb (Q2R x) (Q2R y) = Qle_bool x y.
Proof.
  destruct (Qle_bool x y) eqn:E.
  - apply Rleb_true. apply Qle_Rle. apply Qle_bool_iff. exact E.
  - apply Rleb_false. apply Qlt_Rlt. apply Qnot_le_lt. intros K. apply Qle_bool_iff in K. congruence.
Qed.
Lemma Q2R_ltb x y : Rltb (Q2R x) (Q2R y) = Qltb x y.
Proof.
  unfold Qltb. rewrite <- Q2R_leb. destruct (Rleb (Q2R y) (Q2R x)) eqn:E; simpl.
  - apply Rltb_false. apply Rleb_true. exact E.
  - apply Rltb_true. apply Rleb_false. exact E.
Qed.
Theorem Q2R_hom : NumHom QNum RNum Q2R.
Proof.
  constructor; cbn [QNum RNum T n0 n1 nadd nsub nmul nopp nleb nltb]; intros.
  - apply RMicromega.Q2R_0. - apply RMicromega.Q2R_1. - apply Q2R_plus. - apply Q2R_minus. - apply Q2R_mult. - apply Q2R_opp.
  - apply Q2R_leb. - apply Q2R_ltb.
Qed.

Section Hom.
  Variables N1 N2 : Num.
  Variable h : N1 -> N2.
  Hypothesis H : NumHom N1 N2 h.
  Notation e := (emap h).
  Notation me := (map (emap h)).

  Lemma e_xlt0 x : @xlt0 N2 (e x) = @xlt0 N1 x.
  Proof. destruct x; simpl; auto. rewrite <- (h_0 _ _ _ H). apply (h_ltb _ _ _ H). Qed.
  Lemma e_xge0 x : @xge0 N2 (e x) = @xge0 N1 x.
  Proof. destruct x; simpl; auto. rewrite <- (h_0 _ _ _ H). apply (h_leb _ _ _ H). Qed.
  Lemma e_xleb x y : @xleb N2 (e x) (e y) = @xleb N1 x y.
  Proof. destruct x, y; simpl; auto. apply (h_leb _ _ _ H). Qed.
  Lemma e_fin0 : Fin (n0 N2) = e (Fin (n0 N1)).
  Proof. simpl. rewrite (h_0 _ _ _ H). reflexivity. Qed.
  Lemma e_fin_val y : fin_val N2 (e y) = h (fin_val N1 y).
  Proof. destruct y; simpl; auto; symmetry; apply (h_0 _ _ _ H). Qed.
  Lemma e_is_fin y : is_fin N2 (e y) = is_fin N1 y. Proof. destruct y; reflexivity. Qed.

  (* ---- the generated fast paths -------------------------------------------------------------- *)
  Variable U1 : nat -> ext N1 -> N1.
  Variable U1' : nat -> ext N2 -> N2.
  Variable UI : idx -> list (ext N1) -> N1.
  Variable UI' : idx -> list (ext N2) -> N2.
  Hypothesis R1 : forall i x, h (U1 i x) = U1' i (e x).
  Hypothesis RI : forall I x, h (UI I x) = UI' I (me x).

  Lemma hom_mass_1d a b i : h (mass_1d N1 U1 a b i) = mass_1d N2 U1' (e a) (e b) i.
  Proof. unfold mass_1d. rewrite (h_sub _ _ _ H), !R1. reflexivity. Qed.

  Ltac push := repeat first [rewrite (h_add _ _ _ H) | rewrite (h_sub _ _ _ H) | rewrite (h_0 _ _ _ H) | rewrite R1 | rewrite RI]; cbn [map].

  Lemma hom_mass_2d a b I : h (mass_2d N1 U1 UI a b I) = mass_2d N2 U1' UI' (me a) (me b) I.
  Proof.
    unfold mass_2d.
    destruct (is_some I && (olen I =? 1)%nat)%bool.
    { rewrite hom_mass_1d. rewrite e_fin0, !map_nth. reflexivity. }
    destruct I as [[|i1 [|i2 [|]]]|]; cbn [is_none]; try (apply (h_0 _ _ _ H)).
    all: destruct a as [|a1 [|a2 [|]]]; cbn [map]; try (apply (h_0 _ _ _ H)).
    all: destruct b as [|b1 [|b2 [|]]]; cbn [map]; try (apply (h_0 _ _ _ H)).
    all: rewrite !e_xlt0, !e_xge0; unfold mass_1d;
      destruct (@xlt0 N1 a1 && @xge0 N1 b1)%bool; destruct (@xlt0 N1 a2 && @xge0 N1 b2)%bool; push; reflexivity.
  Qed.

  Lemma hom_mass_3d a b I : h (mass_3d N1 U1 UI a b I) = mass_3d N2 U1' UI' (me a) (me b) I.
  Proof.
    unfold mass_3d.
    destruct (is_some I && (olen I <? 3)%nat)%bool. { apply hom_mass_2d. }
    destruct I as [[|i1 [|i2 [|i3 [|]]]]|]; cbn [is_none]; try (apply (h_0 _ _ _ H)).
    all: destruct a as [|a1 [|a2 [|a3 [|]]]]; cbn [map]; try (apply (h_0 _ _ _ H)).
    all: destruct b as [|b1 [|b2 [|b3 [|]]]]; cbn [map]; try (apply (h_0 _ _ _ H)).
    all: rewrite !e_xlt0, !e_xge0;
      change [e a2; e a3] with (me [a2; a3]); change [e b2; e b3] with (me [b2; b3]);
      change [e a1; e a3] with (me [a1; a3]); change [e b1; e b3] with (me [b1; b3]);
      change [e a1; e a2] with (me [a1; a2]); change [e b1; e b2] with (me [b1; b2]);
      rewrite <- !hom_mass_2d;
      destruct (@xlt0 N1 a1 && @xge0 N1 b1)%bool; destruct (@xlt0 N1 a2 && @xge0 N1 b2)%bool; destruct (@xlt0 N1 a3 && @xge0 N1 b3)%bool;
      push; reflexivity.
  Qed.

  (* ---- list plumbing ---------------------------------------------------------------------------- *)
  Lemma e_first_straddling I : forall a b, first_straddling N2 I (me a) (me b) = first_straddling N1 I a b.
  Proof.
    induction I as [|i I IH]; intros [|x a] [|y b]; cbn [map first_straddling]; auto.
    unfold straddles. rewrite e_xlt0, e_xge0, IH. reflexivity.
  Qed.
  Lemma e_set_nth k : forall v (l : list (ext N1)), set_nth k (e v) (me l) = me (set_nth k v l).
  Proof. induction k; intros v [|x l]; cbn [map set_nth]; auto. rewrite IHk. reflexivity. Qed.
  Lemma e_pop_nth k : forall (l : list (ext N1)), pop_nth k (me l) = me (pop_nth k l).
  Proof. induction k; intros [|x l]; cbn [map pop_nth]; auto. rewrite IHk. reflexivity. Qed.

  (* ---- volume ---------------------------------------------------------------------------------- *)
  Lemma e_corners : forall a b : list (ext N1), corners (me a) (me b) = map (fun c => (fst c, me (snd c))) (corners a b).
  Proof.
    induction a as [|x a IH]; intros [|y b]; cbn [map corners]; auto.
    rewrite IH, map_app, !map_map. reflexivity.
  Qed.
  Lemma hom_volume (f : list (ext N1) -> N1) (f' : list (ext N2) -> N2) a b : (forall p, h (f p) = f' (me p)) ->
    h (volume N1 f a b) = volume N2 f' (me a) (me b).
  Proof.
    intros Rf. unfold volume. rewrite e_corners, map_length. rewrite <- (h_0 _ _ _ H).
    generalize (n0 N1). generalize (length a). intros n. induction (corners a b) as [|c cs IH]; intros acc; cbn [map fold_left fst snd]. reflexivity.
    rewrite IH. f_equal. destruct (Nat.even (n - fst c)); [rewrite (h_add _ _ _ H) | rewrite (h_sub _ _ _ H)]; rewrite Rf; reflexivity.
  Qed.

  (* ---- _mass_nd, any dimension, any fuel ------------------------------------------------------ *)
  Theorem hom_mass_nd : forall fuel a b I, h (mass_nd N1 UI fuel a b I) = mass_nd N2 UI' fuel (me a) (me b) I.
  Proof.
    assert (L : forall a b I, h (let res := volume N1 (UI (Some I)) a b in if Nat.odd (length a) then nmul N1 (nopp N1 (n1 N1)) res else nmul N1 (n1 N1) res)
                  = (let res := volume N2 (UI' (Some I)) (me a) (me b) in if Nat.odd (length (me a)) then nmul N2 (nopp N2 (n1 N2)) res else nmul N2 (n1 N2) res)).
    { intros a b I. cbv zeta. rewrite map_length. destruct (Nat.odd (length a)); rewrite (h_mul _ _ _ H), ?(h_opp _ _ _ H), (h_1 _ _ _ H);
        rewrite (hom_volume (UI (Some I)) (UI' (Some I)) a b (RI (Some I))); reflexivity. }
    induction fuel as [|fuel IH]; intros a b I; cbn [mass_nd]; rewrite e_first_straddling; destruct (first_straddling N1 I a b) as [j|].
    - apply (h_0 _ _ _ H).
    - apply L.
    - cbv zeta. rewrite !(h_sub _ _ _ H), !IH.
      change (@PInf N2) with (e PInf). change (@NInf N2) with (e NInf). rewrite !map_nth, !e_set_nth, !e_pop_nth. reflexivity.
    - apply L.
  Qed.
  Theorem hom_mass_nd_top full a b I : h (mass_nd_top N1 UI full a b I) = mass_nd_top N2 UI' full (me a) (me b) I.
  Proof. unfold mass_nd_top. rewrite map_length. apply hom_mass_nd. Qed.
End Hom.

(* ---- the concrete family: copulas, margin, margin_tail_integral ------------------------------------ *)
Section HomFamily.
  Variables N1 N2 : Num.
  Variable h : N1 -> N2.
  Hypothesis H : NumHom N1 N2 h.
  Notation e := (emap h).
  Notation me := (map (emap h)).

  Lemma e_is_pinf x : is_pinf N2 (e x) = is_pinf N1 x. Proof. destruct x; reflexivity. Qed.
  Lemma forallb_me (p : ext N2 -> bool) (q : ext N1 -> bool) l : (forall x, p (e x) = q x) -> forallb p (me l) = forallb q l.
  Proof. intros E. induction l; simpl; auto. rewrite E, IHl. reflexivity. Qed.

  Lemma hom_indep us : h (indep N1 us) = indep N2 (me us).
  Proof.
    unfold indep. rewrite <- (h_0 _ _ _ H). change (@nil (ext N2)) with (me []). generalize (n0 N1). generalize (@nil (ext N1)).
    induction us as [|u us IH]; intros before acc; cbn [map indep_from]. reflexivity.
    rewrite IH. f_equal; [|rewrite map_app; reflexivity].
    destruct u; cbn [emap]; auto. rewrite (h_add _ _ _ H). f_equal.
    rewrite !(forallb_me (is_pinf N2) (is_pinf N1)) by apply e_is_pinf. destruct (forallb _ before && forallb _ us)%bool; auto. apply (h_0 _ _ _ H).
  Qed.

  Lemma e_xpos x : xpos N2 (e x) = xpos N1 x.
  Proof. destruct x; simpl; auto. rewrite <- (h_0 _ _ _ H). apply (h_ltb _ _ _ H). Qed.
  Lemma e_xneg x : xneg N2 (e x) = xneg N1 x.
  Proof. destruct x; simpl; auto. rewrite <- (h_0 _ _ _ H). apply (h_ltb _ _ _ H). Qed.
  Lemma e_emin x y : emin N2 (e x) (e y) = e (emin N1 x y).
  Proof. unfold emin. rewrite (e_xleb _ _ _ H). destruct (xleb x y); reflexivity. Qed.
  Lemma e_emax x y : emax N2 (e x) (e y) = e (emax N1 x y).
  Proof. unfold emax. rewrite (e_xleb _ _ _ H). destruct (xleb x y); reflexivity. Qed.
  Lemma hom_dep us : h (dep N1 us) = dep N2 (me us).
  Proof.
    unfold dep. destruct us as [|u rest]. apply (h_0 _ _ _ H).
    change (me (u :: rest)) with (e u :: me rest). cbv iota.
    change (e u :: me rest) with (me (u :: rest)).
    rewrite (forallb_me (xpos N2) (xpos N1)) by apply e_xpos. rewrite (forallb_me (xneg N2) (xneg N1)) by apply e_xneg. rewrite map_length.
    assert (Fm : forall l a, fold_left (emin N2) (me l) (e a) = e (fold_left (emin N1) l a)) by (induction l; intros; simpl; auto; rewrite e_emin; apply IHl).
    assert (FM : forall l a, fold_left (emax N2) (me l) (e a) = e (fold_left (emax N1) l a)) by (induction l; intros; simpl; auto; rewrite e_emax; apply IHl).
    rewrite Fm, FM, !(e_fin_val _ _ _ H).
    destruct (forallb (xpos N1) (u :: rest)); auto. destruct (forallb (xneg N1) (u :: rest)); [|apply (h_0 _ _ _ H)].
    destruct (Nat.odd _); auto. apply (h_opp _ _ _ H).
  Qed.

  (* margin(f, indices, d) *)
  Lemma e_assoc i : forall keys (vals : list (ext N1)), assoc i keys (me vals) = option_map e (assoc i keys vals).
  Proof.
    induction keys as [|k ks IH]; intros [|v vs]; cbn [map assoc]; auto. rewrite IH.
    destruct (assoc i ks vs); cbn [option_map]; auto. destruct (i =? k)%nat; reflexivity.
  Qed.
  Lemma e_scatter d I u cidx p : scatter N2 d I (me u) cidx (me p) = me (scatter N1 d I u cidx p).
  Proof.
    unfold scatter. rewrite map_map. apply map_ext. intros i. rewrite !e_assoc.
    destruct (assoc i I u); cbn [option_map]; auto. destruct (assoc i cidx p); cbn [option_map]; auto. apply (e_fin0 _ _ _ H).
  Qed.
  Lemma e_inf_tuples nb : inf_tuples N2 nb = map (fun t => (fst t, me (snd t))) (inf_tuples N1 nb).
  Proof. induction nb; cbn [inf_tuples map]; auto. rewrite IHnb, map_app, !map_map. reflexivity. Qed.
  Lemma hom_margin (f : list (ext N1) -> N1) (f' : list (ext N2) -> N2) I d u : (forall p, h (f p) = f' (me p)) ->
    h (margin N1 f I d u) = margin N2 f' I d (me u).
  Proof.
    intros Rf. unfold margin. rewrite e_inf_tuples. rewrite <- (h_0 _ _ _ H). generalize (n0 N1).
    induction (inf_tuples N1 (length (complement d I))) as [|t ts IH]; intros acc; cbn [map fold_left fst snd]. reflexivity.
    rewrite IH. f_equal. cbv zeta. rewrite (h_add _ _ _ H), e_scatter, <- Rf. destruct (fst t); auto. rewrite (h_opp _ _ _ H). reflexivity.
  Qed.

  (* margin_tail_integral / tail_val of related marginal tails and copulas *)
  Variable V : nat -> ext N1 -> ext N1.
  Variable V' : nat -> ext N2 -> ext N2.
  Variable cop : list (ext N1) -> N1.
  Variable cop' : list (ext N2) -> N2.
  Hypothesis RV : forall i x, V' i (e x) = e (V i x).
  Hypothesis RC : forall us, h (cop us) = cop' (me us).
  Lemma hom_tail_val i x : h (tail_val N1 V i x) = tail_val N2 V' i (e x).
  Proof. unfold tail_val. rewrite RV. symmetry. apply (e_fin_val _ _ _ H). Qed.
  Lemma e_map2 : forall (l : list nat) (x : list (ext N1)), map2 V' l (me x) = me (map2 V l x).
  Proof. induction l as [|i l IH]; intros [|v x]; cbn [map map2]; auto. rewrite RV, IH. reflexivity. Qed.
  Theorem hom_margin_tail_integral d I x : h (margin_tail_integral N1 V cop d I x) = margin_tail_integral N2 V' cop' d I (me x).
  Proof.
    unfold margin_tail_integral. destruct I as [ind|]; [|apply (h_0 _ _ _ H)].
    destruct (nat_list_eqb ind (seq 0 d)). { rewrite map_length, e_map2. apply RC. }
    destruct ind as [|i0 [|i1 ind]]; try (rewrite e_map2; apply hom_margin; exact RC).
    destruct x as [|x0 x]; cbn [map]. { apply (hom_margin cop cop' [i0] d [] RC). }
    apply hom_tail_val.
  Qed.
End HomFamily.

(* ---- step margins over any Num: the data are rationals, injected by inj ------------------------------------- *)
Section GStep.
  Variable N : Num.
  Variable inj : Q -> N.
  Definition gpiece (p : Q * Q * Q) (a b : ext N) : N :=
    let '(lo, hi, dens) := p in
    let l := match a with NInf => inj lo | Fin v => nmax N v (inj lo) | PInf => inj hi end in
    let hh := match b with NInf => inj lo | Fin v => nmin N v (inj hi) | PInf => inj hi end in
    if nltb N l hh then nmul N (inj dens) (nsub N hh l) else n0 N.
  Definition gstep_integrate (ps : list (Q * Q * Q)) (a b : ext N) : N :=
    fold_left (fun acc p => nadd N acc (gpiece p a b)) ps (n0 N).
  Definition gstep_tail (ps : list (Q * Q * Q)) (x : ext N) : N :=
    match x with
    | NInf => nopp N (gstep_integrate ps NInf NInf)
    | PInf => gstep_integrate ps PInf PInf
    | Fin v => if nltb N v (n0 N) then nopp N (gstep_integrate ps NInf (Fin v)) else gstep_integrate ps (Fin v) PInf
    end.
  Definition gstep_V (margins : list (list (Q * Q * Q))) (i : nat) (x : ext N) : ext N := Fin (gstep_tail (nth i margins []) x).
End GStep.

(* over Q with the identity injection this IS the step model the correspondence runs *)
Lemma gstep_tail_Q ps x : gstep_tail QNum (fun q => q) ps x = step_tail ps x.
Proof. reflexivity. Qed.
Lemma gstep_V_Q M : gstep_V QNum (fun q => q) M = step_V M.
Proof. reflexivity. Qed.

Section HomStep.
  Variables N1 N2 : Num.
  Variable h : N1 -> N2.
  Hypothesis H : NumHom N1 N2 h.
  Variable inj1 : Q -> N1.
  Variable inj2 : Q -> N2.
  Hypothesis Rinj : forall q, h (inj1 q) = inj2 q.
  Notation e := (emap h).
  Lemma h_nmax x y : h (nmax N1 x y) = nmax N2 (h x) (h y).
  Proof. unfold nmax. rewrite (h_leb _ _ _ H). destruct (nleb N1 x y); reflexivity. Qed.
  Lemma h_nmin x y : h (nmin N1 x y) = nmin N2 (h x) (h y).
  Proof. unfold nmin. rewrite (h_leb _ _ _ H). destruct (nleb N1 x y); reflexivity. Qed.
  Lemma hom_gpiece p a b : h (gpiece N1 inj1 p a b) = gpiece N2 inj2 p (e a) (e b).
  Proof.
    destruct p as [[lo hi] dens]. unfold gpiece.
    assert (A : h (match a with NInf => inj1 lo | Fin v => nmax N1 v (inj1 lo) | PInf => inj1 hi end)
                = match e a with NInf => inj2 lo | Fin v => nmax N2 v (inj2 lo) | PInf => inj2 hi end) by (destruct a; cbn [emap]; rewrite ?h_nmax, ?Rinj; reflexivity).
    assert (B : h (match b with NInf => inj1 lo | Fin v => nmin N1 v (inj1 hi) | PInf => inj1 hi end)
                = match e b with NInf => inj2 lo | Fin v => nmin N2 v (inj2 hi) | PInf => inj2 hi end) by (destruct b; cbn [emap]; rewrite ?h_nmin, ?Rinj; reflexivity).
    cbv zeta. rewrite <- A, <- B, (h_ltb _ _ _ H). destruct (nltb N1 _ _). rewrite (h_mul _ _ _ H), (h_sub _ _ _ H), Rinj. reflexivity. apply (h_0 _ _ _ H).
  Qed.
  Lemma hom_gstep_integrate ps a b : h (gstep_integrate N1 inj1 ps a b) = gstep_integrate N2 inj2 ps (e a) (e b).
  Proof.
    unfold gstep_integrate. rewrite <- (h_0 _ _ _ H). generalize (n0 N1). induction ps as [|p ps IH]; intros acc; cbn [fold_left]. reflexivity.
    rewrite IH, (h_add _ _ _ H), hom_gpiece. reflexivity.
  Qed.
  Lemma hom_gstep_tail ps x : h (gstep_tail N1 inj1 ps x) = gstep_tail N2 inj2 ps (e x).
  Proof.
    destruct x as [|v|]; cbn [gstep_tail emap].
    - rewrite (h_opp _ _ _ H). f_equal. apply (hom_gstep_integrate ps NInf NInf).
    - rewrite <- (h_0 _ _ _ H), (h_ltb _ _ _ H). destruct (nltb N1 v (n0 N1)).
      + rewrite (h_opp _ _ _ H). f_equal. apply (hom_gstep_integrate ps NInf (Fin v)).
      + apply (hom_gstep_integrate ps (Fin v) PInf).
    - apply (hom_gstep_integrate ps PInf PInf).
  Qed.
  Lemma hom_gstep_V M i x : gstep_V N2 inj2 M i (e x) = e (gstep_V N1 inj1 M i x).
  Proof. unfold gstep_V. cbn [emap]. rewrite hom_gstep_tail. reflexivity. Qed.
End HomStep.

(* ---- Q -> R: what the correspondence RUNS (QNum instance, vm_compute) is the image of what the theorems are ABOUT (RNum instance) ---- *)
Notation eQR := (emap Q2R).
Definition copula_r (c : copula_kind) : list (ext R) -> R := match c with Indep => indep RNum | Dep => dep RNum end.
Definition step_VR (M : list (list (Q * Q * Q))) : nat -> ext R -> ext R := gstep_V RNum Q2R M.
Definition step_UIR (c : copula_kind) (M : list (list (Q * Q * Q))) : idx -> list (ext R) -> R :=
  margin_tail_integral RNum (step_VR M) (copula_r c) (length M).

Lemma step_rel1 M i x : Q2R (step_U1 M i x) = tail_val RNum (step_VR M) i (eQR x).
Proof.
  change (step_U1 M i x) with (tail_val QNum (gstep_V QNum (fun q => q) M) i x).
  apply (hom_tail_val QNum RNum Q2R Q2R_hom). intros. apply (hom_gstep_V QNum RNum Q2R Q2R_hom). reflexivity.
Qed.
Lemma step_relI c M I x : Q2R (step_UI c M I x) = step_UIR c M I (map eQR x).
Proof.
  unfold step_UI, step_UIR. rewrite <- gstep_V_Q.
  apply (hom_margin_tail_integral QNum RNum Q2R Q2R_hom).
  - intros. apply (hom_gstep_V QNum RNum Q2R Q2R_hom). reflexivity.
  - intros us. destruct c; cbn [copula_q copula_r]. apply (hom_indep _ _ _ Q2R_hom). apply (hom_dep _ _ _ Q2R_hom).
Qed.

Theorem Q2R_step_model c M a b I :
  Q2R (fast_2d QNum (step_U1 M) (step_UI c M) a b I) = fast_2d RNum (tail_val RNum (step_VR M)) (step_UIR c M) (map eQR a) (map eQR b) I /\
  Q2R (fast_3d QNum (step_U1 M) (step_UI c M) a b I) = fast_3d RNum (tail_val RNum (step_VR M)) (step_UIR c M) (map eQR a) (map eQR b) I /\
  (forall full, Q2R (mass_nd_top QNum (step_UI c M) full a b I) = mass_nd_top RNum (step_UIR c M) full (map eQR a) (map eQR b) I).
Proof.
  split; [|split].
  - apply (hom_mass_2d QNum RNum Q2R Q2R_hom); [apply step_rel1 | apply step_relI].
  - apply (hom_mass_3d QNum RNum Q2R Q2R_hom); [apply step_rel1 | apply step_relI].
  - intros. apply (hom_mass_nd_top QNum RNum Q2R Q2R_hom). apply step_relI.
Qed.

(* C12 -- non-negativity of the general recursion _mass_nd in ANY dimension for the INDEPENDENT copula (product / axis structure).

   Part A (abstract): a tail-integral family is an AXIS family on I (Ax) when every tail integral of two or more coordinates vanishes -- the Levy
   measure sits on the coordinate axes.  On such a family the closed form msem of C12_General collapses (induction over the coordinates) to isem:
   the one-dimensional mass U_i(x_i) - U_i(y_i) of the ONLY non-straddling coordinate when all the others straddle 0, and 0 when two or more
   coordinates do not straddle; hence the mass of every rectangle that does not contain the origin is >= 0 as soon as each U_i is non-increasing
   on each side of 0.
   Part B (concrete): the family margin_tail_integral builds from the independent copula (hand model `indep`, the `margin` operator: scatter /
   complement / inf_tuples) is an axis family in EVERY dimension d, for finite-valued marginal tails V i x = Fin (U i x) (finite activity, or any
   margin on arguments away from 0): indep vanishes on a vector with two finite entries, and every vector `margin` builds has the |J| >= 2
   finite entries of J. *)
From Coq Require Import List Arith Bool Reals Lra Lia.
From RV Require Import Base.RB Base.ExtNum Model.Copula Gen.GenC12Mass Model.MassNd Proofs.C12_Mass Proofs.C12_Family Proofs.C12_Nonneg Proofs.C12_General Proofs.C12_Tails.
Import ListNotations.
Open Scope R_scope.

Fixpoint allstr (a b : list (ext R)) : bool :=
  match a, b with x :: a', y :: b' => straddles RNum x y && allstr a' b' | _, _ => true end.

(* axis family: every tail integral of TWO or more coordinates vanishes (sub-lists J of I, matching lengths) *)
Definition Ax (I : list nat) (F : FT) : Prop := forall J p, subl J I -> length p = length J -> (2 <= length J)%nat -> F J p = 0.
Definition Bx (I : list nat) (F : FT) : Prop := forall J p, subl J I -> length p = length J -> (1 <= length J)%nat -> F J p = 0.
Lemma Ax_skip i I F : Ax (i :: I) F -> Ax I F.
Proof. intros A J p S L K. apply A; auto. constructor; assumption. Qed.
Lemma Ax_pre i v I F : Ax (i :: I) F -> Bx I (pre i v F).
Proof. intros A J p S L K. unfold pre. apply A. constructor; assumption. simpl; congruence. simpl; lia. Qed.
Lemma Bx_skip i I F : Bx (i :: I) F -> Bx I F.
Proof. intros A J p S L K. apply A; auto. constructor; assumption. Qed.
Lemma Bx_pre i v I F : Bx (i :: I) F -> Zd I (pre i v F).
Proof. intros A J p S L. unfold pre. apply A. constructor; assumption. simpl; congruence. simpl; lia. Qed.

Lemma msem_B : forall I (a b : list (ext R)) F, Bx I F -> length a = length I -> length b = length I ->
  msem a b I F = if allstr a b then F [] [] else 0.
Proof.
  induction I as [|i I IH]; intros a b F B La Lb.
  - destruct a; [|discriminate]. destruct b; [|discriminate]. reflexivity.
  - destruct a as [|x a]; [discriminate|]. destruct b as [|y b]; [discriminate|]. simpl in La, Lb. cbn [msem allstr].
    rewrite !(msem_zero I a b (pre i _ F)) by (auto using Bx_pre; lia).
    destruct (straddles RNum x y); cbn [andb]. rewrite (IH a b F (Bx_skip _ _ _ B)) by lia. ring. ring.
Qed.

(* closed form on an axis family: the 1-d mass of the only non-straddling coordinate, 0 if there are two or more *)
Fixpoint isem (a b : list (ext R)) (I : list nat) (F : FT) : R :=
  match a, b, I with
  | x :: a', y :: b', i :: I' => if straddles RNum x y then isem a' b' I' F else if allstr a' b' then F [i] [x] - F [i] [y] else 0
  | _, _, _ => 0
  end.

Theorem msem_axis : forall I (a b : list (ext R)) F, Ax I F -> length a = length I -> length b = length I -> allstr a b = false ->
  msem a b I F = isem a b I F.
Proof.
  induction I as [|i I IH]; intros a b F A La Lb N.
  - destruct a; [|discriminate]. destruct b; [|discriminate]. discriminate.
  - destruct a as [|x a]; [discriminate|]. destruct b as [|y b]; [discriminate|]. simpl in La, Lb. cbn [msem allstr isem] in *.
    rewrite !(msem_B I a b (pre i _ F)) by (auto using Ax_pre; lia).
    destruct (straddles RNum x y); cbn [andb] in N.
    + rewrite N. rewrite (IH a b F (Ax_skip _ _ _ A)) by (auto; lia). ring.
    + destruct (allstr a b); unfold pre; ring.
Qed.

Theorem isem_nonneg : forall I (a b : list (ext R)) F,
  (forall i x y, In i I -> @xleb RNum x y = true -> straddles RNum x y = false -> F [i] [y] <= F [i] [x]) ->
  Forall2 (fun x y => @xleb RNum x y = true) a b -> 0 <= isem a b I F.
Proof.
  induction I as [|i I IH]; intros a b F M O.
  - destruct a, b; simpl; lra.
  - destruct O as [|x y a b Hxy O]. simpl; lra. cbn [isem]. destruct (straddles RNum x y) eqn:S.
    + apply IH; auto. intros. apply M; auto. right; assumption.
    + destruct (allstr a b). pose proof (M i x y (or_introl eq_refl) Hxy S) as K. change (T RNum) with R in *. lra. lra.
Qed.

Lemma allstr_cnt a b : length a = length b -> allstr a b = false -> (cnt a b < length a)%nat.
Proof.
  revert b. induction a as [|x a IH]; intros [|y b] L N; try discriminate. simpl in *.
  destruct (straddles RNum x y); cbn [andb] in N. specialize (IH b ltac:(lia) N). lia. pose proof (cnt_le a b). lia.
Qed.

Section AxisMass.
  Variable UI : idx -> list (ext R) -> R.
  Theorem mass_nd_axis fuel (a b : list (ext R)) I : length a = length I -> length b = length I -> NoDup I -> (cnt a b < fuel)%nat ->
    Ax I (FU UI) -> allstr a b = false -> mass_nd RNum UI fuel a b I = isem a b I (FU UI).
  Proof. intros La Lb N C A S. rewrite (mass_nd_msem UI fuel a b I La Lb N C). apply msem_axis; assumption. Qed.
  Theorem mass_nd_axis_nonneg fuel (a b : list (ext R)) I : length a = length I -> length b = length I -> NoDup I -> (cnt a b < fuel)%nat ->
    Ax I (FU UI) -> allstr a b = false ->
    (forall i x y, In i I -> @xleb RNum x y = true -> straddles RNum x y = false -> UI (Some [i]) [y] <= UI (Some [i]) [x]) ->
    Forall2 (fun x y => @xleb RNum x y = true) a b -> 0 <= mass_nd RNum UI fuel a b I.
  Proof. intros La Lb N C A S M O. rewrite (mass_nd_axis fuel a b I La Lb N C A S). apply isem_nonneg; assumption. Qed.
End AxisMass.

(* ---- the family the code builds from the INDEPENDENT copula in ANY dimension d is an axis family (finite-valued marginal tails) ---- *)
Definition nfin (us : list (ext R)) : nat := length (filter (is_fin RNum) us).
Lemma nfin_app u v : nfin (u ++ v) = (nfin u + nfin v)%nat.
Proof. unfold nfin. rewrite filter_app, app_length. reflexivity. Qed.
Lemma nfin_pinf l : forallb (is_pinf RNum) l = true -> nfin l = 0%nat.
Proof. induction l as [|x l IH]; simpl; auto. destruct x; simpl; try discriminate. exact IH. Qed.
Lemma indep_from_two : forall (us before : list (ext R)) (acc : R), (2 <= nfin (before ++ us))%nat -> indep_from RNum acc before us = acc.
Proof.
  induction us as [|u us IH]; intros before acc K; cbn [indep_from]. reflexivity.
  rewrite IH by (rewrite <- app_assoc; exact K).
  destruct u as [|v|]; auto.
  destruct (forallb (is_pinf RNum) before) eqn:E1; [|cbn; ring]. destruct (forallb (is_pinf RNum) us) eqn:E2; [|cbn; ring].
  exfalso. rewrite nfin_app in K. change (Fin v :: us) with ([Fin v] ++ us) in K. rewrite nfin_app, (nfin_pinf _ E1), (nfin_pinf _ E2) in K. cbn in K. lia.
Qed.
Lemma indep_two us : (2 <= nfin us)%nat -> indep RNum us = 0.
Proof. intros K. unfold indep. apply indep_from_two. exact K. Qed.

Lemma assoc_fin i : forall keys (vals : list (ext R)), Forall (fun v => is_fin RNum v = true) vals -> length vals = length keys -> In i keys ->
  exists v, assoc i keys vals = Some (Fin v).
Proof.
  induction keys as [|k ks IH]; intros [|v vs] Fv L Hin; try discriminate; try (destruct Hin; fail). simpl in L. inversion Fv; subst. cbn [assoc].
  destruct (in_dec Nat.eq_dec i ks) as [K|K].
  - destruct (IH vs H2 ltac:(lia) K) as [w E]. rewrite E. eauto.
  - destruct Hin as [E|E]; [|contradiction]. subst k. destruct (assoc i ks vs) as [w|] eqn:Ea.
    + (* impossible, but harmless: the value is in vs, hence finite *)
      assert (G : forall keys (vals : list (ext R)) w, Forall (fun v => is_fin RNum v = true) vals -> assoc i keys vals = Some w -> is_fin RNum w = true).
      { induction keys as [|k' ks' IH']; intros [|v' vs'] w' F' E'; try discriminate. inversion F'; subst. cbn [assoc] in E'.
        destruct (assoc i ks' vs') eqn:Eb. inversion E'; subst. eapply IH'; eauto. destruct (i =? k')%nat; inversion E'; subst; assumption. }
      pose proof (G ks vs w H2 Ea) as Fw. destruct w; try discriminate. eauto.
    + rewrite Nat.eqb_refl. destruct v; try discriminate. eauto.
Qed.

Lemma nfin_map_ge (g : nat -> ext R) (J l : list nat) : (forall i, In i J -> is_fin RNum (g i) = true) ->
  (length (filter (fun i => if in_dec Nat.eq_dec i J then true else false) l) <= nfin (map g l))%nat.
Proof.
  intros G. induction l as [|i l IH]; simpl. lia. unfold nfin in *. simpl.
  destruct (in_dec Nat.eq_dec i J) as [K|K]. rewrite (G i K). cbn [length]. apply le_n_S, IH. destruct (is_fin RNum (g i)); cbn [length]; [apply le_S, IH | apply IH].
Qed.
Lemma scatter_two d J (u : list (ext R)) cidx p : okI d J -> length u = length J -> Forall (fun v => is_fin RNum v = true) u -> (2 <= length J)%nat ->
  (2 <= nfin (scatter RNum d J u cidx p))%nat.
Proof.
  intros [N B] L Fu K. unfold scatter.
  eapply Nat.le_trans; [|apply (nfin_map_ge _ J)].
  - eapply Nat.le_trans; [exact K|]. apply NoDup_incl_length; auto. intros j Hj. apply filter_In. split.
    + apply in_seq. rewrite Forall_forall in B. specialize (B j Hj). lia.
    + destruct (in_dec Nat.eq_dec j J); auto.
  - intros i Hi. cbv beta. destruct (assoc_fin i J u Fu L Hi) as [v E]. change (T RNum) with R in *. rewrite E. reflexivity.
Qed.

Section IndepFamily.
  Variable U : nat -> ext R -> R.          (* finite-valued marginal tails: V i x = Fin (U i x) *)
  Variable d : nat.
  Notation V := (fun (i : nat) (x : ext R) => Fin (U i x)).
  Notation UIi := (margin_tail_integral RNum V (indep RNum) d).
  Lemma map2_fin : forall (l : list nat) (x : list (ext R)), Forall (fun v => is_fin RNum v = true) (map2 V l x) /\ length (map2 V l x) = Nat.min (length l) (length x).
  Proof. induction l as [|i l IH]; intros [|v x]; cbn [map2 length]; try (split; [constructor | reflexivity]). destruct (IH x) as [A B]. split. constructor; auto. simpl. rewrite B. reflexivity. Qed.
  Lemma nfin_all (l : list (ext R)) : Forall (fun v => is_fin RNum v = true) l -> nfin l = length l.
  Proof. unfold nfin. induction 1; simpl; auto. rewrite H. cbn [length]. f_equal. exact IHForall. Qed.

  Theorem indep_family_axis : forall J p, okI d J -> length p = length J -> (2 <= length J)%nat -> UIi (Some J) p = 0.
  Proof.
    intros J p K L K2. unfold margin_tail_integral.
    destruct (nat_list_eqb J (seq 0 d)).
    { apply indep_two. destruct (map2_fin (seq 0 (length p)) p) as [A B]. change (T RNum) with R in *. rewrite (nfin_all _ A), B, seq_length. lia. }
    destruct J as [|i0 [|i1 J]]; try (simpl in K2; lia).
    set (JJ := i0 :: i1 :: J) in *. unfold margin.
    assert (Z : forall (ts : list (bool * list (ext R))) (acc : R),
      fold_left (fun (res : RNum) (t : bool * list (ext R)) => let v := indep RNum (scatter RNum d JJ (map2 V JJ p) (complement d JJ) (snd t)) in nadd RNum res (if fst t then nopp RNum v else v)) ts acc = acc).
    { induction ts as [|t ts IH]; intros acc; cbn [fold_left]. reflexivity. rewrite IH. cbv zeta.
      rewrite indep_two. destruct (fst t); cbn; ring.
      destruct (map2_fin JJ p) as [A B]. apply scatter_two; auto. change (T RNum) with R in *. rewrite B, L. apply Nat.min_id. }
    rewrite Z. reflexivity.
  Qed.
End IndepFamily.

(* ---- composite: the general recursion _mass_nd on the independent-copula family, ANY dimension d >= 2 ------------------------------- *)
Lemma okI_subl d J I : subl J I -> okI d I -> okI d J.
Proof. intros S [N F]. split. apply (subl_nodup J I S N). rewrite Forall_forall in *. intros j Hj. apply F. apply (subl_in J I S j Hj). Qed.

Theorem indep_mass_nd (U : nat -> ext R -> R) (d : nat) fuel (a b : list (ext R)) I :
  let UIi := margin_tail_integral RNum (fun i x => Fin (U i x)) (indep RNum) d in
  (2 <= d)%nat -> okI d I -> length a = length I -> length b = length I -> (cnt a b < fuel)%nat -> allstr a b = false ->
  mass_nd RNum UIi fuel a b I = isem a b I (fun J p => match J, p with [i], [x] => U i x | _, _ => 0 end) /\
  ((forall i x y, In i I -> @xleb RNum x y = true -> straddles RNum x y = false -> U i y <= U i x) ->
   Forall2 (fun x y => @xleb RNum x y = true) a b -> 0 <= mass_nd RNum UIi fuel a b I).
Proof.
  intros UIi Hd K La Lb C S.
  assert (A : Ax I (FU UIi)). { intros J p Sub L K2. unfold FU, UIi. apply indep_family_axis; auto. apply (okI_subl d J I Sub K). }
  assert (One : forall i x, UIi (Some [i]) [x] = U i x) by (intros; unfold UIi; rewrite mti_one by assumption; reflexivity).
  split.
  - rewrite (mass_nd_axis UIi fuel a b I La Lb (proj1 K) C A S).
    clear - One. revert a b. induction I as [|i I IH]; intros [|x a] [|y b]; cbn [isem]; auto.
    rewrite IH. unfold FU. rewrite !One. reflexivity.
  - intros M O. apply (mass_nd_axis_nonneg UIi fuel a b I La Lb (proj1 K) C A S); auto.
    intros i x y Hi L N. rewrite !One. apply M; assumption.
Qed.

(* the uniform tails Vu (C12_Tails) as a finite-valued, monotone U: non-vacuity of the hypotheses of indep_mass_nd *)
Lemma Vu_fin i x : Vu i x = Fin (tail_val RNum Vu i x).
Proof. destruct x; reflexivity. Qed.
Lemma Uu_mono i (x y : ext R) : @xleb RNum x y = true -> straddles RNum x y = false -> tail_val RNum Vu i y <= tail_val RNum Vu i x.
Proof. intros L S. pose proof (side_order Vu Vu_tails_ok i x y L S) as K. rewrite (Vu_fin i x), (Vu_fin i y) in K. simpl in K. apply Rleb_true in K. exact K. Qed.
